(* C12 - what the detection loop computes. *)
From Coq Require Import List Bool Arith Permutation Lia.
From DS Require Import Base.C13_Exn Gen.C12_ParserIndex Model.C12_Auto Proofs.C13_ExnLemmas.
From Coq Require Import Ascii String.
Import ListNotations.

Arguments catches : simpl never.
Local Opaque auto_none_continues.

Section Loop.
  Variable S : Type.
  Variable p : string -> res (option S).

  (* soundness: an accepted format is the first one that does not reject, and its own parser returned that structure *)
  Lemma auto_loop_sound : forall fmts msgs f s,
    auto_loop p fmts msgs = AOk f s ->
    exists pre post, fmts = (pre ++ f :: post)%list /\ p f = Ok (Some s) /\ Forall (rejects p) pre.
  Proof.
    induction fmts as [| f0 rest IH]; intros msgs f s H; simpl in H; [discriminate |].
    destruct (p f0) as [[s0 |] | k] eqn:E.
    - inversion H; subst. exists [], rest. repeat split; auto.
    - destruct auto_none_continues eqn:Hn; [| discriminate].
      destruct (IH _ _ _ H) as [pre [post [-> [Hp Hr]]]].
      exists (f0 :: pre), post. repeat split; auto. constructor; [| assumption]. right. split; [exact Hn | exact E].
    - destruct (catches auto_collect_caught k) eqn:C1.
      + destruct (IH _ _ _ H) as [pre [post [-> [Hp Hr]]]].
        exists (f0 :: pre), post. repeat split; auto. constructor; [| assumption].
        left. exists k; split; [assumption | rewrite C1; reflexivity].
      + destruct (catches auto_skip_caught k) eqn:C2; [| discriminate].
        destruct (IH _ _ _ H) as [pre [post [-> [Hp Hr]]]].
        exists (f0 :: pre), post. repeat split; auto. constructor; [| assumption].
        left. exists k; split; [assumption | rewrite C1, C2; reflexivity].
  Qed.

  (* completeness: if everything before f rejects and f's parser returns s, detection returns (f, s) *)
  Lemma auto_loop_complete : forall pre post msgs f s,
    Forall (rejects p) pre -> p f = Ok (Some s) -> auto_loop p (pre ++ f :: post)%list msgs = AOk f s.
  Proof.
    induction pre as [| g pre IH]; intros post msgs f s Hr Hp; simpl.
    - rewrite Hp; reflexivity.
    - inversion Hr as [| ? ? [[k [Hk Hc]] | [Hn Hk]] Hr']; subst; rewrite Hk.
      + destruct (catches auto_collect_caught k); [apply IH; assumption |].
        simpl in Hc. rewrite Hc. apply IH; assumption.
      + rewrite Hn. apply IH; assumption.
  Qed.

  (* when every parser rejects, the result is the format error listing, in order, the formats that complained *)
  Lemma auto_loop_all_reject : forall fmts msgs,
    Forall (rejects p) fmts -> auto_loop p fmts msgs = AFail (rev msgs ++ filter (complains p) fmts)%list.
  Proof.
    induction fmts as [| g rest IH]; intros msgs Hr; simpl.
    - rewrite app_nil_r; reflexivity.
    - inversion Hr as [| ? ? [[k [Hk Hc]] | [Hn Hk]] Hr']; subst; unfold complains at 1; rewrite Hk.
      + destruct (catches auto_collect_caught k) eqn:C1.
        * rewrite IH by assumption. simpl. rewrite <- app_assoc. reflexivity.
        * simpl in Hc. rewrite Hc. apply IH; assumption.
      + rewrite Hn. rewrite IH by assumption. simpl. rewrite <- app_assoc. reflexivity.
  Qed.

  (* with C13 as hypothesis - every parser is `documented` - no parser's internal exception escapes detection *)
  Lemma auto_loop_documented : forall fmts msgs,
    catches auto_collect_caught FormatError = true -> catches auto_skip_caught NotImplemented = true ->
    (forall g, In g fmts -> documented (p g)) ->
    match auto_loop p fmts msgs with APropagate _ => False | _ => True end.
  Proof.
    intros fmts msgs HF HN. revert msgs.
    induction fmts as [| g rest IH]; intros msgs Hd; simpl; [exact I |].
    assert (Hg := Hd g (or_introl eq_refl)).
    destruct (p g) as [[s |] | k]; [exact I | destruct auto_none_continues; [apply IH; intros; apply Hd; right; assumption | exact I] |].
    simpl in Hg.
    destruct (catches auto_collect_caught k) eqn:C1; [apply IH; intros; apply Hd; right; assumption |].
    destruct (catches auto_skip_caught k) eqn:C2; [apply IH; intros; apply Hd; right; assumption |].
    destruct Hg as [-> | ->]; congruence.
  Qed.
End Loop.

(* ---- the ordering rule only permutes the registered formats --------------------------------- *)
Lemma remove_first_perm : forall x l, In x l -> Permutation (x :: remove_first x l) l.
Proof.
  induction l as [| y l IH]; intros H; [contradiction |]. simpl.
  destruct (String.eqb x y) eqn:E.
  - apply String.eqb_eq in E; subst. apply Permutation_refl.
  - destruct H as [H | H]; [subst; rewrite String.eqb_refl in E; discriminate |].
    eapply perm_trans; [apply perm_swap |]. apply perm_skip. apply IH; assumption.
Qed.

Lemma reorder_fold_perm : forall base l acc, (forall f, In f l -> In f acc) ->
  Permutation (fold_left (fun acc f => if matches base f then move_front f acc else acc) l acc) acc.
Proof.
  induction l as [| f l IH]; intros acc H; simpl; [apply Permutation_refl |].
  destruct (matches base f).
  - assert (P : Permutation (move_front f acc) acc) by (apply remove_first_perm; apply H; left; reflexivity).
    eapply perm_trans; [apply IH | exact P].
    intros g Hg. eapply Permutation_in; [apply Permutation_sym; exact P |]. apply H; right; assumption.
  - apply IH. intros g Hg; apply H; right; assumption.
Qed.

Lemma ordered_formats_perm : forall fn, Permutation (ordered_formats fn) base_formats.
Proof.
  intros [fn |]; unfold ordered_formats; [| apply Permutation_refl].
  destruct (String.eqb fn EmptyString); [apply Permutation_refl |].
  unfold reorder. apply reorder_fold_perm. auto.
Qed.

Lemma nodupb_NoDup : forall l, nodupb l = true -> NoDup l.
Proof.
  induction l as [| x l IH]; intros H; [constructor |]. simpl in H. apply andb_true_iff in H. destruct H as [H1 H2].
  constructor; [| apply IH; assumption].
  intros Hin. apply negb_true_iff in H1. assert (existsb (String.eqb x) l = true); [| congruence].
  apply existsb_exists. exists x; split; [assumption | apply String.eqb_refl].
Qed.

Lemma base_formats_nodup : NoDup base_formats.
Proof. apply nodupb_NoDup. vm_compute. reflexivity. Qed.

Section Written.
  Variable S : Type.
  Variable p : string -> res (option S).

  (* partial: the rejection table (every other registered parser rejects the text) is a hypothesis here; it is
     measured by the correspondence run for the texts of the library's 7 writers *)
  Lemma auto_on_written_text : forall f s fn,
    In f base_formats -> p f = Ok (Some s) ->
    (forall g, In g base_formats -> g <> f -> rejects p g) ->
    auto p fn = AOk f s.
  Proof.
    intros f s fn Hin Hp Hrej. unfold auto.
    assert (P := ordered_formats_perm fn).
    assert (Hin' : In f (ordered_formats fn)) by (eapply Permutation_in; [apply Permutation_sym; exact P | assumption]).
    assert (ND : NoDup (ordered_formats fn)) by (eapply Permutation_NoDup; [apply Permutation_sym; exact P | apply base_formats_nodup]).
    destruct (in_split _ _ Hin') as [pre [post E]]. rewrite E in *.
    apply auto_loop_complete; [| assumption].
    apply Forall_forall. intros g Hg. apply Hrej.
    - eapply Permutation_in; [exact P |]. apply in_or_app; left; assumption.
    - intros ->. apply NoDup_remove_2 in ND. apply ND. apply in_or_app; left; assumption.
  Qed.

  Lemma auto_sound : forall fn f s, auto p fn = AOk f s ->
    In f base_formats /\ p f = Ok (Some s) /\
    exists pre post, ordered_formats fn = (pre ++ f :: post)%list /\ Forall (rejects p) pre.
  Proof.
    intros fn f s H. unfold auto in H. destruct (auto_loop_sound _ _ _ _ _ _ H) as [pre [post [E [Hp Hr]]]].
    split; [| split; [assumption | exists pre, post; split; assumption]].
    eapply Permutation_in; [apply ordered_formats_perm |]. rewrite E. apply in_or_app; right; left; reflexivity.
  Qed.

  Lemma auto_error_is_format_error : forall fn,
    (forall g, In g base_formats -> rejects p g) ->
    auto p fn = AFail (filter (complains p) (ordered_formats fn)).
  Proof.
    intros fn H. unfold auto. rewrite auto_loop_all_reject; [reflexivity |].
    apply Forall_forall. intros g Hg. apply H. eapply Permutation_in; [apply ordered_formats_perm | eassumption].
  Qed.

  Lemma auto_never_propagates : forall fn,
    (forall g, In g base_formats -> documented (p g)) ->
    match auto p fn with APropagate _ => False | _ => True end.
  Proof.
    intros fn H. unfold auto. apply auto_loop_documented; [vm_compute; reflexivity | vm_compute; reflexivity |].
    intros g Hg. apply H. eapply Permutation_in; [apply ordered_formats_perm | eassumption].
  Qed.
End Written.

(* non-trivial instances of the hypotheses, on the generated registry *)
Definition ex_parser (accept : string) (f : string) : res (option nat) :=
  if String.eqb f accept then Ok (Some 7)
  else if String.eqb f "discus" then Raise NotImplemented else Raise FormatError.

Example ex_written_xyz_named_stru : auto (ex_parser "xyz") (Some "dir/Ni.stru"%string) = AOk "xyz"%string 7.
Proof. vm_compute; reflexivity. Qed.

Example ex_all_reject : auto (ex_parser "none") None = AFail ["cif"; "pdb"; "pdffit"; "rawxyz"; "xcfg"; "xyz"]%string.
Proof. vm_compute; reflexivity. Qed.

(* the escape D2 as a model fact: a parser raising a foreign kind makes detection fail with that kind *)
Example ex_foreign_kind_propagates :
  auto (fun f => if String.eqb f "cif" then Raise YappsSyntaxError else Ok (Some 1)) None = APropagate YappsSyntaxError.
Proof. vm_compute; reflexivity. Qed.

Example ex_order_xyz : ordered_formats (Some "a/b.xyz"%string) = ["xyz"; "rawxyz"; "cif"; "discus"; "pdb"; "pdffit"; "xcfg"]%string.
Proof. vm_compute; reflexivity. Qed.
