(* C04 - xyz: reading the written text yields canon (title stripped, elements capitalised,
   Cartesian coordinates at the %g precision of the source); canon is idempotent; no drift. *)
From Coq Require Import List Bool Arith NArith ZArith Lia.
From Coq Require Import Ascii.
From DS Require Import Base.C04_Text Base.C04_Decimal Model.C04_Fmt Gen.C04_FmtSpecs Model.C04_Xyz.
From DS Require Import Proofs.C04_Fmt Proofs.C04_GenIdem Proofs.C04_NoDrift.
Import ListNotations.

Lemma gen_ok_print P d : gen_ok P d = true -> exists b, print_gen P d = Some b /\ gq P d = Some (gqd P d) /\ parse_float b = Some (gqd P d).
Proof.
  unfold gen_ok. intros H. destruct (gen_decimals P d) as [pd|] eqn:G; [|discriminate].
  exists (gen_body pd d). assert (print_gen P d = Some (gen_body pd d)) as E by (unfold print_gen; rewrite G; reflexivity).
  split; [exact E|]. destruct (gen_roundtrip 0 P d _ E) as [R _]. rewrite lpad0 in R.
  assert (gq P d = Some (gqd P d)) as Q by (unfold gqd, gq; rewrite G; reflexivity).
  split; [exact Q|]. rewrite R. exact Q.
Qed.

Lemma gqd_idem P d : (0 < P)%nat -> gqd P (gqd P d) = gqd P d.
Proof.
  intros HP. unfold gqd. destruct (gq P d) as [v|] eqn:E.
  - rewrite (gq_idem P d v HP E). reflexivity.
  - rewrite E. reflexivity.
Qed.

Lemma gen_ok_gqd P d : (0 < P)%nat -> gen_ok P d = true -> gen_ok P (gqd P d) = true.
Proof.
  intros HP H. destruct (gen_ok_print P d H) as [_ [_ [Q _]]]. pose proof (gq_idem P d _ HP Q) as I.
  unfold gen_ok. unfold gq in I. destruct (gen_decimals P (gqd P d)); [reflexivity|discriminate].
Qed.

Lemma sep_ok_xyz : sep_ok xyz_w_atom = true. Proof. vm_compute. reflexivity. Qed.
Lemma nonl_xyz : lits_no_char nl xyz_w_atom = true. Proof. vm_compute. reflexivity. Qed.
Lemma nocr_xyz : lits_no_char cr xyz_w_atom = true. Proof. vm_compute. reflexivity. Qed.
Lemma gprec_pos : (0 < gprec xyz_w_atom 0 /\ 0 < gprec xyz_w_atom 1 /\ 0 < gprec xyz_w_atom 2)%nat.
Proof. vm_compute. repeat split; lia. Qed.

Lemma repr_xatom_args a : repr_xatom a = true -> forallb arg_ok (xyz_atom_args a) = true.
Proof.
  unfold repr_xatom. intros H. do 3 (apply andb_true_iff in H; destruct H as [H ?]).
  unfold xyz_atom_args. cbn [forallb arg_ok]. rewrite H. reflexivity.
Qed.

(* one atom record *)
Lemma atom_line_xyz a : repr_xatom a = true ->
  exists line, print_atom_xyz a = Some line /\ parse_atom_fields xyz_r_ncols (split_ws line) = Some (Some (canon_xatom a)) /\
               line <> [] /\ has_char nl line = false /\ has_char cr line = false /\ split_ws line <> [].
Proof.
  intros R. pose proof (repr_xatom_args a R) as Hargs. unfold repr_xatom in R.
  apply andb_true_iff in R. destruct R as [R Gz]. apply andb_true_iff in R. destruct R as [R Gy]. apply andb_true_iff in R. destruct R as [Hel Gx].
  destruct (gen_ok_print _ _ Gx) as [bx [Px [_ Fx]]]. destruct (gen_ok_print _ _ Gy) as [bY [Py [_ Fy]]]. destruct (gen_ok_print _ _ Gz) as [bz [Pz [_ Fz]]].
  assert (exists line, print_atom_xyz a = Some line) as [line E].
  { apply render_toks_some. unfold xyz_atom_args, xyz_w_atom, gprec in *. cbn in Px, Py, Pz |- *. rewrite Px, Py, Pz. eexists; reflexivity. }
  exists line. split; [exact E|].
  pose proof (render_split _ _ _ sep_ok_xyz Hargs E) as T.
  pose proof (render_no_char nl _ _ _ eq_refl eq_refl nonl_xyz Hargs E) as N1.
  pose proof (render_no_char cr _ _ _ eq_refl eq_refl nocr_xyz Hargs E) as N2.
  unfold xyz_atom_args, xyz_w_atom, gprec in *. cbn in Px, Py, Pz, Fx, Fy, Fz, T. rewrite Px, Py, Pz in T. cbn in T. inversion T as [T']. clear T.
  split.
  - unfold parse_atom_fields, xyz_r_ncols, xyz_r_element, xyz_r_xyz, slice. cbn.
    unfold canon_xatom, xyz_w_atom, gprec. cbn. rewrite Fx, Fy, Fz. reflexivity.
  - split; [intros ->; cbn in T'; discriminate|]. split; [exact N1|]. split; [exact N2|discriminate].
Qed.

Lemma atoms_lines_xyz atoms : forallb repr_xatom atoms = true ->
  exists ls, map_opt print_atom_xyz atoms = Some ls /\
             parse_atoms_xyz xyz_r_ncols (map split_ws ls) = Some (map canon_xatom atoms) /\
             List.length ls = List.length atoms /\
             forallb (fun x => negb (has_char nl x)) ls = true /\
             Forall (fun l => l <> [] /\ has_char nl l = false /\ has_char cr l = false /\ split_ws l <> []) ls.
Proof.
  induction atoms as [|a atoms IH]; intros H.
  - exists []. repeat split; constructor.
  - cbn [forallb] in H. apply andb_true_iff in H. destruct H as [Ha Hr]. destruct (IH Hr) as [ls [E1 [E2 [E3 [E4 E5]]]]].
    destruct (atom_line_xyz a Ha) as [line [P1 [P2 [P3 [P4 [P5 P6]]]]]]. exists (line :: ls).
    split; [cbn [map_opt]; rewrite P1, E1; reflexivity|].
    split; [cbn [map parse_atoms_xyz]; rewrite P2, E2; reflexivity|].
    split; [cbn; rewrite E3; reflexivity|].
    split; [cbn [forallb]; rewrite P4, E4; reflexivity|]. constructor; [repeat split; assumption|exact E5].
Qed.

Lemma int_body_not_hash z : str_eqb (int_body z) hash = false.
Proof.
  unfold int_body. destruct (digitsN (Z.abs_N z)) as [|k l] eqn:E; [exfalso; exact (digitsN_nonnil _ E)|].
  pose proof (digitsN_lt10 (Z.abs_N z)) as F. rewrite E in F. inversion F as [|? ? Hk _]; subst.
  assert (In k [0;1;2;3;4;5;6;7;8;9]%N) as I by (unfold lt10 in Hk; cbn; lia).
  destruct (z <? 0)%Z; cbn [sign_str app map]; [reflexivity|].
  repeat (destruct I as [<-|I]; [reflexivity|]). destruct I.
Qed.

Lemma no_crlf_int z : has_char nl (int_body z) = false /\ has_char cr (int_body z) = false /\ int_body z <> [].
Proof.
  destruct (int_body_token z) as [H1 H2]. split; [apply no_ws_no_char; [reflexivity|exact H1]|].
  split; [apply no_ws_no_char; [reflexivity|exact H1]|exact H2].
Qed.

Lemma split_int z : split_ws (int_body z) = [int_body z].
Proof. destruct (int_body_token z) as [H1 H2]. apply split_tok; assumption. Qed.

Lemma drop_nil_rev_last (lfs : list (list str)) x : x <> [] -> drop_nil (rev (lfs ++ [x])) = rev (lfs ++ [x]).
Proof. intros H. rewrite rev_app_distr. cbn. destruct x; [contradiction|reflexivity]. Qed.

(* parse of count :: title :: atom lines *)
Lemma parse_lines_xyz St ls :
  forallb repr_xatom (x_atoms St) = true -> map_opt print_atom_xyz (x_atoms St) = Some ls ->
  parse_atoms_xyz xyz_r_ncols (map split_ws ls) = Some (map canon_xatom (x_atoms St)) ->
  List.length ls = List.length (x_atoms St) ->
  Forall (fun l => l <> [] /\ has_char nl l = false /\ has_char cr l = false /\ split_ws l <> []) ls ->
  parse_xyz (int_body (Z.of_nat (List.length (x_atoms St))) :: x_title St :: ls) = Some (canon_xyz St).
Proof.
  intros HR E1 E2 E3 E5. unfold parse_xyz. cbn [map]. rewrite split_int.
  cbn [count_skip is_skip]. rewrite int_body_not_hash. cbn [nth_error].
  rewrite canonical_int_body. change (int_body ?z) with (print_int 0 z) at 1. rewrite int_roundtrip.
  cbn [nth_error]. unfold canon_xyz.
  destruct (x_atoms St) as [|a atoms] eqn:EA.
  - cbn. reflexivity.
  - destruct ls as [|l1 ls']; [cbn in E3; discriminate|].
    assert ((Z.of_nat (List.length (a :: atoms)) =? 0)%Z = false) as Z0 by (apply Z.eqb_neq; cbn [List.length]; lia).
    rewrite Z0. cbn [orb skipn map].
    (* stop: the last line has fields *)
    assert (exists b x, l1 :: ls' = b ++ [x]) as [b [x Ebx]] by (destruct (@exists_last _ (l1 :: ls') ltac:(discriminate)) as [b [x Eq]]; exists b, x; exact Eq).
    assert (split_ws x <> []) as Hx.
    { rewrite Ebx in E5. apply Forall_app in E5. destruct E5 as [_ E5]. inversion E5 as [|? ? [_ [_ [_ K]]] _]. exact K. }
    set (lfs := [int_body (Z.of_nat (List.length (a :: atoms)))] :: split_ws (x_title St) :: split_ws l1 :: map split_ws ls').
    assert (stop_of lfs = List.length lfs) as Estop.
    { unfold stop_of, lfs.
      change ([int_body (Z.of_nat (List.length (a :: atoms)))] :: split_ws (x_title St) :: split_ws l1 :: map split_ws ls')
        with (([int_body (Z.of_nat (List.length (a :: atoms)))] :: [split_ws (x_title St)]) ++ map split_ws (l1 :: ls')).
      rewrite Ebx, map_app, app_assoc. cbn [map]. rewrite drop_nil_rev_last by exact Hx. rewrite rev_length. reflexivity. }
    rewrite Estop. unfold lfs. cbn [List.length].
    assert ((Nat.max 2 (Datatypes.S (Datatypes.S (Datatypes.S (List.length (map split_ws ls'))))) <=? 2)%nat = false) as Es by (apply Nat.leb_gt; lia).
    rewrite Es.
    (* first atom line has the expected number of columns *)
    cbn [map] in E2. cbn [parse_atoms_xyz] in E2.
    destruct (parse_atom_fields xyz_r_ncols (split_ws l1)) as [[a1|]|] eqn:P1; try discriminate.
    + assert (List.length (split_ws l1) = xyz_r_ncols) as Len.
      { unfold parse_atom_fields in P1. destruct (split_ws l1) as [|w ws] eqn:Ew; [discriminate|].
        destruct (List.length (w :: ws) =? xyz_r_ncols)%nat eqn:El; [apply Nat.eqb_eq in El; exact El|discriminate]. }
      rewrite Len, Nat.eqb_refl. cbn [parse_atoms_xyz]. rewrite P1.
      destruct (parse_atoms_xyz xyz_r_ncols (map split_ws ls')) as [rest|] eqn:P2; [|discriminate].
      injection E2 as Ea Er. subst a1 rest. cbn [List.length]. rewrite map_length, Z.eqb_refl. reflexivity.
    + exfalso. rewrite Forall_forall in E5. destruct (E5 l1 (or_introl eq_refl)) as [_ [_ [_ K]]].
      unfold parse_atom_fields in P1. destruct (split_ws l1) as [|w ws]; [contradiction|].
      destruct (List.length (w :: ws) =? xyz_r_ncols)%nat; [|discriminate].
      destruct (nth_error (w :: ws) xyz_r_element); [|discriminate].
      destruct (map_opt parse_float (slice (fst xyz_r_xyz) (snd xyz_r_xyz) (w :: ws))) as [[|? [|? [|? [|]]]]|]; discriminate.
Qed.

Lemma line_ok_split t : line_ok t = true -> has_char nl t = false /\ has_char cr t = false.
Proof. unfold line_ok. intros H. apply andb_true_iff in H. destruct H as [H1 H2]. apply negb_true_iff in H1. apply negb_true_iff in H2. tauto. Qed.

(* roundtrip_xyz *)
Theorem roundtrip_xyz St : repr_xyz St = true -> exists t, write_xyz St = Some t /\ read_xyz t = Some (canon_xyz St).
Proof.
  unfold repr_xyz. intros H. apply andb_true_iff in H. destruct H as [HT HA].
  destruct (line_ok_split _ HT) as [T1 T2].
  destruct (atoms_lines_xyz _ HA) as [ls [E1 [E2 [E3 [E4 E5]]]]].
  unfold write_xyz, print_xyz. rewrite E1. cbn [option_map]. eexists. split; [reflexivity|]. unfold read_xyz.
  destruct (no_crlf_int (Z.of_nat (List.length (x_atoms St)))) as [I1 [I2 I3]].
  set (cnt := int_body (Z.of_nat (List.length (x_atoms St)))) in *.
  assert (forallb (fun x => negb (has_char nl x)) (cnt :: x_title St :: ls) = true) as NL.
  { cbn [forallb]. rewrite I1, T1, E4. reflexivity. }
  destruct ls as [|l1 ls'].
  - (* no atoms *)
    destruct (x_atoms St) as [|a atoms] eqn:EA; [|cbn in E3; discriminate].
    destruct (x_title St) as [|c ttl] eqn:ET.
    + (* empty title: the title line is lost in the text wrapper *)
      rewrite lines_text_trailing_empty by (try exact I1; apply last_ok_of_no_crlf; assumption).
      unfold parse_xyz. cbn [map]. unfold cnt. rewrite split_int. cbn [count_skip is_skip]. rewrite int_body_not_hash. cbn [nth_error].
      rewrite canonical_int_body. change (int_body ?z) with (print_int 0 z) at 1. rewrite int_roundtrip.
      cbn [nth_error]. unfold canon_xyz. rewrite ET, EA.
      assert (xyz_r_title_optional = true) as -> by reflexivity. cbn. reflexivity.
    + rewrite lines_text_roundtrip_cons.
      * unfold cnt. rewrite <- ET. pose proof (parse_lines_xyz St []) as K. rewrite EA in K.
        apply K; try reflexivity; constructor.
      * exact NL.
      * cbn [last]. apply last_ok_of_no_crlf; [discriminate|exact T1|exact T2].
  - rewrite lines_text_roundtrip_cons.
    + apply parse_lines_xyz; assumption.
    + exact NL.
    + assert (In (last (cnt :: x_title St :: l1 :: ls') []) (l1 :: ls')) as Hin.
      { change (cnt :: x_title St :: l1 :: ls') with ([cnt; x_title St] ++ (l1 :: ls')).
        destruct (@exists_last _ (l1 :: ls') ltac:(discriminate)) as [b [x Eq]]. rewrite Eq, app_assoc, last_last.
        apply in_or_app. right. left. reflexivity. }
      rewrite Forall_forall in E5. destruct (E5 _ Hin) as [K1 [K2 [K3 _]]]. apply last_ok_of_no_crlf; assumption.
Qed.

(* canon is idempotent and stays representable *)
Lemma canon_idem_xyz St : canon_xyz (canon_xyz St) = canon_xyz St.
Proof.
  destruct gprec_pos as [P0 [P1 P2]].
  unfold canon_xyz. cbn [x_title x_atoms]. rewrite strip_idem. f_equal. rewrite map_map. apply map_ext. intros a.
  unfold canon_xatom. cbn [xa_el xa_x xa_y xa_z]. rewrite capitalize_idem, !gqd_idem by assumption. reflexivity.
Qed.

Lemma repr_canon_xyz St : repr_xyz St = true -> repr_xyz (canon_xyz St) = true.
Proof.
  destruct gprec_pos as [P0 [P1 P2]].
  unfold repr_xyz. intros H. apply andb_true_iff in H. destruct H as [HT HA]. destruct (line_ok_split _ HT) as [T1 T2].
  unfold canon_xyz. cbn [x_title x_atoms]. apply andb_true_iff. split.
  - unfold line_ok. rewrite (has_char_strip _ _ T1), (has_char_strip _ _ T2). reflexivity.
  - rewrite forallb_forall in *. intros a' Hin. apply in_map_iff in Hin. destruct Hin as [a [<- Hin]]. specialize (HA a Hin).
    unfold repr_xatom in *. cbn [canon_xatom xa_el xa_x xa_y xa_z].
    apply andb_true_iff in HA. destruct HA as [HA Gz]. apply andb_true_iff in HA. destruct HA as [HA Gy]. apply andb_true_iff in HA. destruct HA as [Hel Gx].
    rewrite str_tok_ok_capitalize, Hel, !gen_ok_gqd by assumption. reflexivity.
Qed.

Definition rt_xyz (St : xstru) : option xstru := match write_xyz St with Some t => read_xyz t | None => None end.

Lemma rt_xyz_canon St : repr_xyz St = true -> rt_xyz St = Some (canon_xyz St).
Proof. intros H. destruct (roundtrip_xyz St H) as [t [W R]]. unfold rt_xyz. rewrite W. exact R. Qed.

(* no_drift_xyz : any number n >= 1 of write/read round trips gives what the first one gave *)
Theorem no_drift_xyz St n : repr_xyz St = true -> iter_opt rt_xyz (Datatypes.S n) St = Some (canon_xyz St).
Proof.
  intros H. apply (no_drift_gen xstru rt_xyz canon_xyz repr_xyz); [exact rt_xyz_canon|exact repr_canon_xyz| |exact H].
  intros x _. apply canon_idem_xyz.
Qed.

From Coq Require Import String.
(* the hypotheses are satisfiable: a 2-atom structure with a title, an ion and a negative coordinate *)
Example repr_xyz_example :
  let d := fun neg m e => Dec neg m e in
  repr_xyz (XStru (s" Ni fcc "%string) [XAtom (s"Na1+"%string) (d false 125%N 2%nat) (d true 3333333333%N 9%nat) (d false 0%N 0%nat);
                                  XAtom (s"cl"%string) (d false 1%N 0%nat) (d false 999999499%N 3%nat) (d true 12%N 5%nat)]) = true.
Proof. vm_compute. reflexivity. Qed.
