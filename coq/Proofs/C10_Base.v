(* The base-vector path: for every base matrix with positive determinant, setLatBase produces exactly the object
   that setLatPar builds from the recovered cell parameters and rotation (two definitions of a lattice agree). *)
From Coq Require Import Reals Lra Lia Psatz.
From DS Require Import Base.RMat Base.Trig Model.LatDefs Model.C01_Spec Gen.LatFormulas Proofs.C01_Lattice.
Open Scope R_scope.

(* equal up to re-spelling of ring expressions inside the same structure (robust against commuted products in the source) *)
Ltac congr_ring := solve [reflexivity | ring | f_equal; congr_ring].


Lemma cosd_acosd x : -1 <= x <= 1 -> cosd (acosd x) = x.
Proof.
  intros H. unfold cosd, acosd. replace (acos x * 180 / PI * PI / 180) with (acos x) by (field; apply PI_neq0).
  apply cos_acos. exact H.
Qed.
Lemma sind_acosd x : -1 <= x <= 1 -> sind (acosd x) = sqrt (1 - x * x).
Proof.
  intros H. rewrite sind_is_sin. unfold acosd. replace (acos x * 180 / PI * PI / 180) with (acos x) by (field; apply PI_neq0).
  rewrite sin_acos by exact H. unfold Rsqr. reflexivity.
Qed.
Lemma acosd_range x : -1 < x < 1 -> 0 < acosd x < 180.
Proof.
  intros H. pose proof (acos_bound_lt x H) as [L U]. pose proof PI_RGT_0 as P. unfold acosd. split.
  - apply Rdiv_lt_0_compat; [|exact P]. apply Rmult_lt_0_compat; lra.
  - apply (Rmult_lt_reg_r PI); [exact P|]. replace (acos x * 180 / PI * PI) with (acos x * 180) by (field; lra). lra.
Qed.

(* Gram data of a base with positive determinant *)
Section Gram.
  Variables b11 b12 b13 b21 b22 b23 b31 b32 b33 : R.
  Let B := M b11 b12 b13 b21 b22 b23 b31 b32 b33.
  Hypothesis Hdet : 0 < det B.
  Let g11 := b11 * b11 + b12 * b12 + b13 * b13.
  Let g22 := b21 * b21 + b22 * b22 + b23 * b23.
  Let g33 := b31 * b31 + b32 * b32 + b33 * b33.
  Let g12 := b11 * b21 + b12 * b22 + b13 * b23.
  Let g13 := b11 * b31 + b12 * b32 + b13 * b33.
  Let g23 := b21 * b31 + b22 * b32 + b23 * b33.

  Lemma det_expand : det B = b11 * (b22 * b33 - b23 * b32) - b12 * (b21 * b33 - b23 * b31) + b13 * (b21 * b32 - b22 * b31).
  Proof. reflexivity. Qed.

  Lemma g11_pos : 0 < g11.
  Proof.
    unfold g11. pose proof Hdet as H. rewrite det_expand in H.
    destruct (Req_dec b11 0) as [E1|N1]; [destruct (Req_dec b12 0) as [E2|N2]; [destruct (Req_dec b13 0) as [E3|N3]|]|].
    - rewrite E1, E2, E3 in H. lra.
    - nra. - nra. - nra.
  Qed.
  Lemma g22_pos : 0 < g22.
  Proof.
    unfold g22. pose proof Hdet as H. rewrite det_expand in H.
    destruct (Req_dec b21 0) as [E1|N1]; [destruct (Req_dec b22 0) as [E2|N2]; [destruct (Req_dec b23 0) as [E3|N3]|]|].
    - rewrite E1, E2, E3 in H. lra.
    - nra. - nra. - nra.
  Qed.
  Lemma g33_pos : 0 < g33.
  Proof.
    unfold g33. pose proof Hdet as H. rewrite det_expand in H.
    destruct (Req_dec b31 0) as [E1|N1]; [destruct (Req_dec b32 0) as [E2|N2]; [destruct (Req_dec b33 0) as [E3|N3]|]|].
    - rewrite E1, E2, E3 in H. lra.
    - nra. - nra. - nra.
  Qed.

  (* strict Cauchy-Schwarz for each pair of rows: |ri|^2 |rj|^2 - (ri.rj)^2 = |ri x rj|^2 > 0 *)
  Lemma sum_sq_pos x y z : (x <> 0 \/ y <> 0 \/ z <> 0) -> 0 < x * x + y * y + z * z.
  Proof. intros [H|[H|H]]; nra. Qed.
  Lemma cs23 : 0 < g22 * g33 - g23 * g23.
  Proof.
    set (x := b22 * b33 - b23 * b32). set (y := b23 * b31 - b21 * b33). set (z := b21 * b32 - b22 * b31).
    replace (g22 * g33 - g23 * g23) with (x * x + y * y + z * z) by (unfold g22, g33, g23, x, y, z; ring).
    apply sum_sq_pos. pose proof Hdet as H. rewrite det_expand in H.
    destruct (Req_dec x 0) as [Ex|]; [|tauto]. destruct (Req_dec y 0) as [Ey|]; [|tauto]. destruct (Req_dec z 0) as [Ez|]; [|tauto].
    exfalso. fold x in H. replace (b21 * b33 - b23 * b31) with (- y) in H by (unfold y; ring). fold z in H. rewrite Ex, Ey, Ez in H. lra.
  Qed.
  Lemma cs13 : 0 < g11 * g33 - g13 * g13.
  Proof.
    set (x := b12 * b33 - b13 * b32). set (y := b13 * b31 - b11 * b33). set (z := b11 * b32 - b12 * b31).
    replace (g11 * g33 - g13 * g13) with (x * x + y * y + z * z) by (unfold g11, g33, g13, x, y, z; ring).
    apply sum_sq_pos. pose proof Hdet as H. rewrite det_expand in H.
    destruct (Req_dec x 0) as [Ex|]; [|tauto]. destruct (Req_dec y 0) as [Ey|]; [|tauto]. destruct (Req_dec z 0) as [Ez|]; [|tauto].
    exfalso. assert (det B = - (b21 * x + b22 * y + b23 * z)) by (rewrite det_expand; unfold x, y, z; ring).
    rewrite Ex, Ey, Ez in H0. rewrite det_expand in H0. lra.
  Qed.
  Lemma cs12 : 0 < g11 * g22 - g12 * g12.
  Proof.
    set (x := b12 * b23 - b13 * b22). set (y := b13 * b21 - b11 * b23). set (z := b11 * b22 - b12 * b21).
    replace (g11 * g22 - g12 * g12) with (x * x + y * y + z * z) by (unfold g11, g22, g12, x, y, z; ring).
    apply sum_sq_pos. pose proof Hdet as H. rewrite det_expand in H.
    destruct (Req_dec x 0) as [Ex|]; [|tauto]. destruct (Req_dec y 0) as [Ey|]; [|tauto]. destruct (Req_dec z 0) as [Ez|]; [|tauto].
    exfalso. assert (det B = b31 * x + b32 * y + b33 * z) by (rewrite det_expand; unfold x, y, z; ring).
    rewrite Ex, Ey, Ez in H0. rewrite det_expand in H0. lra.
  Qed.
  Lemma gram_det : g11 * g22 * g33 + 2 * g12 * g13 * g23 - g11 * g23 * g23 - g22 * g13 * g13 - g33 * g12 * g12 = det B * det B.
  Proof. rewrite det_expand. unfold g11, g22, g33, g12, g13, g23. ring. Qed.
End Gram.

(* facts about the cell parameters recovered from a base, in the shape setLatBase computes them *)
Lemma sq_lt_1 x : x * x < 1 -> -1 < x < 1.
Proof. intros H. split; nra. Qed.

Lemma cos_ratio_lt g p q x y : 0 < x -> 0 < y -> x * x = p -> y * y = q -> 0 < p * q - g * g -> -1 < g / (x * y) < 1.
Proof.
  intros Px Py Ex Ey H. apply sq_lt_1.
  replace (g / (x * y) * (g / (x * y))) with (g * g / ((x * x) * (y * y))) by (field; lra).
  rewrite Ex, Ey. assert (0 < p * q) by (rewrite <- Ex, <- Ey; apply Rmult_lt_0_compat; apply Rmult_lt_0_compat; lra).
  apply (Rmult_lt_reg_r (p * q)); [assumption|]. unfold Rdiv. rewrite Rmult_assoc, Rinv_l; lra.
Qed.

Lemma rec_facts (B : mat) : 0 < det B ->
  let a := sqrt (vdot (row1 B) (row1 B)) in let b := sqrt (vdot (row2 B) (row2 B)) in let c := sqrt (vdot (row3 B) (row3 B)) in
  let ca := vdot (row2 B) (row3 B) / (b * c) in let cb := vdot (row1 B) (row3 B) / (a * c) in let cg := vdot (row1 B) (row2 B) / (a * b) in
  0 < a /\ 0 < b /\ 0 < c /\ a * a = vdot (row1 B) (row1 B) /\ b * b = vdot (row2 B) (row2 B) /\ c * c = vdot (row3 B) (row3 B) /\
  -1 < ca < 1 /\ -1 < cb < 1 /\ -1 < cg < 1 /\
  (a * b * c) * (a * b * c) * (1 + 2 * ca * cb * cg - ca * ca - cb * cb - cg * cg) = det B * det B.
Proof.
  intros Hdet. destruct B as [b11 b12 b13 b21 b22 b23 b31 b32 b33]. cbv zeta.
  pose proof (g11_pos _ _ _ _ _ _ _ _ _ Hdet) as P1. pose proof (g22_pos _ _ _ _ _ _ _ _ _ Hdet) as P2.
  pose proof (g33_pos _ _ _ _ _ _ _ _ _ Hdet) as P3.
  pose proof (cs23 _ _ _ _ _ _ _ _ _ Hdet) as C23. pose proof (cs13 _ _ _ _ _ _ _ _ _ Hdet) as C13.
  pose proof (cs12 _ _ _ _ _ _ _ _ _ Hdet) as C12.
  pose proof (gram_det b11 b12 b13 b21 b22 b23 b31 b32 b33) as GD.
  unfold vdot, row1, row2, row3. cbn [v1 v2 v3 a11 a12 a13 a21 a22 a23 a31 a32 a33].
  set (g11 := b11 * b11 + b12 * b12 + b13 * b13) in *. set (g22 := b21 * b21 + b22 * b22 + b23 * b23) in *.
  set (g33 := b31 * b31 + b32 * b32 + b33 * b33) in *. set (g23 := b21 * b31 + b22 * b32 + b23 * b33) in *.
  set (g13 := b11 * b31 + b12 * b32 + b13 * b33) in *. set (g12 := b11 * b21 + b12 * b22 + b13 * b23) in *.
  assert (Pa : 0 < sqrt g11) by (apply sqrt_lt_R0; assumption).
  assert (Pb : 0 < sqrt g22) by (apply sqrt_lt_R0; assumption).
  assert (Pc : 0 < sqrt g33) by (apply sqrt_lt_R0; assumption).
  assert (Ea : sqrt g11 * sqrt g11 = g11) by (apply sqrt_sqrt; lra).
  assert (Eb : sqrt g22 * sqrt g22 = g22) by (apply sqrt_sqrt; lra).
  assert (Ec : sqrt g33 * sqrt g33 = g33) by (apply sqrt_sqrt; lra).
  set (a := sqrt g11) in *. set (b := sqrt g22) in *. set (c := sqrt g33) in *. clearbody a b c.
  repeat split; try assumption.
  - apply (cos_ratio_lt g23 g22 g33 b c Pb Pc Eb Ec). lra.
  - apply (cos_ratio_lt g23 g22 g33 b c Pb Pc Eb Ec). lra.
  - apply (cos_ratio_lt g13 g11 g33 a c Pa Pc Ea Ec). lra.
  - apply (cos_ratio_lt g13 g11 g33 a c Pa Pc Ea Ec). lra.
  - apply (cos_ratio_lt g12 g11 g22 a b Pa Pb Ea Eb). lra.
  - apply (cos_ratio_lt g12 g11 g22 a b Pa Pb Ea Eb). lra.
  - rewrite <- GD. clear GD C23 C13 C12 P1 P2 P3 Hdet. clearbody g11 g22 g33 g12 g13 g23. subst g11 g22 g33. field. lra.
Qed.

Lemma recovered_valid old B : 0 < det B ->
  let L := setLatBase old B in valid_cell (l_a L) (l_b L) (l_c L) (l_alpha L) (l_beta L) (l_gamma L).
Proof.
  intros Hdet. pose proof (rec_facts B Hdet) as F. cbv zeta in F.
  destruct F as (Pa & Pb & Pc & Ea & Eb & Ec & Rca & Rcb & Rcg & HV).
  unfold setLatBase; cbv zeta; lat_simpl.
  constructor; try assumption; try (apply acosd_range; assumption).
  unfold vol2. rewrite !cosd_acosd by lra.
  set (a := sqrt (vdot (row1 B) (row1 B))) in *. set (b := sqrt (vdot (row2 B) (row2 B))) in *. set (c := sqrt (vdot (row3 B) (row3 B))) in *.
  set (v2 := 1 + 2 * _ * _ * _ - _ - _ - _) in *.
  assert (0 < (a * b * c) * (a * b * c)) by (apply Rmult_lt_0_compat; repeat apply Rmult_lt_0_compat; assumption).
  assert (0 < det B * det B) by (apply Rmult_lt_0_compat; assumption).
  nra.
Qed.

Lemma minv_mmul_cancel S X : det S <> 0 -> mmul S (mmul (minv S) X) = X.
Proof. intros H. rewrite <- mmul_assoc, minv_r, mmul_I_l; [reflexivity | exact H]. Qed.

Theorem setLatBase_eq_build old B : 0 < det B ->
  let L := setLatBase old B in
  L = build (l_a L) (l_b L) (l_c L) (l_alpha L) (l_beta L) (l_gamma L) (l_baserot L).
Proof.
  intros Hdet.
  pose proof (rec_facts B Hdet) as F. cbv zeta in F.
  destruct F as (Pa & Pb & Pc & Ea & Eb & Ec & Rca & Rcb & Rcg & HV).
  unfold build, setLatPar, setLatBase; cbv zeta; lat_simpl.
  set (a := sqrt (vdot (row1 B) (row1 B))) in *. set (b := sqrt (vdot (row2 B) (row2 B))) in *. set (c := sqrt (vdot (row3 B) (row3 B))) in *.
  set (ca := vdot (row2 B) (row3 B) / (b * c)) in *. set (cb := vdot (row1 B) (row3 B) / (a * c)) in *.
  set (cg := vdot (row1 B) (row2 B) / (a * b)) in *.
  rewrite !(cosd_acosd ca), !(cosd_acosd cb), !(cosd_acosd cg) by lra.
  rewrite !(sind_acosd ca), !(sind_acosd cb), !(sind_acosd cg) by lra.
  set (v2 := 1 + 2 * ca * cb * cg - ca * ca - cb * cb - cg * cg) in *.
  assert (Pv2 : 0 < v2).
  { assert (0 < (a * b * c) * (a * b * c)) by (apply Rmult_lt_0_compat; repeat apply Rmult_lt_0_compat; assumption).
    assert (0 < det B * det B) by (apply Rmult_lt_0_compat; assumption). nra. }
  assert (PV : 0 < sqrt v2) by (apply sqrt_lt_R0; exact Pv2).
  assert (Psa : 0 < sqrt (1 - ca * ca)) by (apply sqrt_lt_R0; nra).
  assert (Psb : 0 < sqrt (1 - cb * cb)) by (apply sqrt_lt_R0; nra).
  set (sa := sqrt (1 - ca * ca)) in *. set (sb := sqrt (1 - cb * cb)) in *. set (sg := sqrt (1 - cg * cg)) in *.
  set (V := sqrt v2) in *.
  set (S := M (1 / (sa / (a * V))) _ _ 0 (b * sa) _ 0 0 c).
  assert (DS : det S <> 0).
  { unfold S. rm_simpl. clearbody sa sb V a b c. 
    match goal with |- ?e <> 0 => replace e with (1 / (sa / (a * V)) * (b * sa) * c) by ring end.
    replace (1 / (sa / (a * V)) * (b * sa) * c) with (a * V * b * c) by (field; repeat split; lra).
    apply Rgt_not_eq. repeat apply Rmult_lt_0_compat; assumption. }
  rewrite (minv_mmul_cancel S B DS). congr_ring.
Qed.

Theorem setLatBase_base old B : l_base (setLatBase old B) = B.
Proof. reflexivity. Qed.
Theorem setLatBase_indep_old old B : setLatBase old B = setLatBase lat0 B.
Proof. reflexivity. Qed.

(* B B^T is the metric tensor of the recovered parameters *)
Theorem setLatBase_metrics old B : 0 < det B -> l_metrics (setLatBase old B) = mmul B (mT B).
Proof.
  intros Hdet. pose proof (rec_facts B Hdet) as F. cbv zeta in F.
  destruct F as (Pa & Pb & Pc & Ea & Eb & Ec & _).
  unfold setLatBase; cbv zeta; lat_simpl.
  set (a := sqrt (vdot (row1 B) (row1 B))) in *. set (b := sqrt (vdot (row2 B) (row2 B))) in *. set (c := sqrt (vdot (row3 B) (row3 B))) in *.
  clearbody a b c. destruct B as [b11 b12 b13 b21 b22 b23 b31 b32 b33]. rm_simpl.
  apply mat_eq; rm_simpl; try (rewrite Ea; ring); try (rewrite Eb; ring); try (rewrite Ec; ring); field; lra.
Qed.

Theorem baserot_proper old B : 0 < det B -> proper_rot (l_baserot (setLatBase old B)).
Proof.
  intros Hdet. pose proof (setLatBase_eq_build old B Hdet) as E. cbv zeta in E.
  pose proof (recovered_valid old B Hdet) as HVC. cbv zeta in HVC.
  set (L := setLatBase old B) in *.
  pose proof (stdbase_gram _ _ _ _ _ _ (l_baserot L) HVC) as G. cbv zeta in G. rewrite <- E in G.
  pose proof (det_stdbase _ _ _ _ _ _ (l_baserot L) HVC) as DS. cbv zeta in DS. rewrite <- E in DS.
  pose proof (setLatBase_metrics old B Hdet) as MB. fold L in MB.
  assert (RB : l_baserot L = mmul (minv (l_stdbase L)) B) by reflexivity.
  destruct HVC as [Pa Pb Pc _ _ _ Pv]. apply sqrt_lt_R0 in Pv.
  assert (DSpos : 0 < det (l_stdbase L)) by (rewrite DS; repeat apply Rmult_lt_0_compat; assumption).
  split.
  - rewrite RB, mT_mmul, mmul_assoc, <- (mmul_assoc B), <- MB, <- G, (mmul_assoc (l_stdbase L)), <- (mmul_assoc (minv (l_stdbase L))).
    rewrite minv_l by lra. rewrite mmul_I_l, <- mT_mmul, minv_l by lra. apply mat_eq; reflexivity.
  - rewrite RB, det_mmul, det_minv by lra.
    (* det B = det S : both positive with equal squares *)
    assert (Sq : det (l_stdbase L) * det (l_stdbase L) = det B * det B).
    { transitivity (det (mmul (l_stdbase L) (mT (l_stdbase L)))); [rewrite det_mmul, det_mT; reflexivity|].
      rewrite G, MB, det_mmul, det_mT. reflexivity. }
    assert (det (l_stdbase L) = det B) by nra. rewrite H. field. lra.
Qed.

(* the other direction: the base of a lattice built from parameters and a rotation gives those parameters and that rotation back *)
Lemma acosd_cosd x : 0 < x < 180 -> acosd (cosd x) = x.
Proof.
  intros H. unfold acosd, cosd. rewrite acos_cos.
  - field. apply PI_neq0.
  - pose proof (deg_range x H). lra.
Qed.

Theorem two_definitions_agree old a b c alpha beta gamma r : valid_cell a b c alpha beta gamma -> proper_rot r ->
  setLatBase old (l_base (build a b c alpha beta gamma r)) = build a b c alpha beta gamma r.
Proof.
  intros HC HR. set (B := l_base (build a b c alpha beta gamma r)).
  pose proof (det_base a b c alpha beta gamma r HC HR) as [_ Hdet]. cbv zeta in Hdet. fold B in Hdet.
  pose proof (base_lengths_angles a b c alpha beta gamma r HC HR) as LA. cbv zeta in LA. fold B in LA.
  destruct LA as (La & Lb & Lc & D23 & D13 & D12). unfold enorm in La, Lb, Lc.
  pose proof (setLatBase_eq_build old B Hdet) as E. cbv zeta in E.
  assert (Ha : l_a (setLatBase old B) = a) by exact La.
  assert (Hb : l_b (setLatBase old B) = b) by exact Lb.
  assert (Hc : l_c (setLatBase old B) = c) by exact Lc.
  pose proof HC as HC'. destruct HC' as [Pa Pb Pc Ral Rbe Rga Pv].
  assert (Hal : l_alpha (setLatBase old B) = alpha).
  { change (acosd (vdot (row2 B) (row3 B) / (sqrt (vdot (row2 B) (row2 B)) * sqrt (vdot (row3 B) (row3 B)))) = alpha).
    rewrite Lb, Lc, D23. replace (b * c * cosd alpha / (b * c)) with (cosd alpha) by (field; lra). apply acosd_cosd; assumption. }
  assert (Hbe : l_beta (setLatBase old B) = beta).
  { change (acosd (vdot (row1 B) (row3 B) / (sqrt (vdot (row1 B) (row1 B)) * sqrt (vdot (row3 B) (row3 B)))) = beta).
    rewrite La, Lc, D13. replace (a * c * cosd beta / (a * c)) with (cosd beta) by (field; lra). apply acosd_cosd; assumption. }
  assert (Hga : l_gamma (setLatBase old B) = gamma).
  { change (acosd (vdot (row1 B) (row2 B) / (sqrt (vdot (row1 B) (row1 B)) * sqrt (vdot (row2 B) (row2 B)))) = gamma).
    rewrite La, Lb, D12. replace (a * b * cosd gamma / (a * b)) with (cosd gamma) by (field; lra). apply acosd_cosd; assumption. }
  rewrite Ha, Hb, Hc, Hal, Hbe, Hga in E.
  (* the rotation: baserot' = inv(stdbase) * B with the same stdbase, and B = stdbase * r *)
  assert (Hr : l_baserot (setLatBase old B) = r).
  { assert (S1 : l_stdbase (setLatBase old B) = l_stdbase (build a b c alpha beta gamma r)).
    { rewrite E. reflexivity. }
    change (mmul (minv (l_stdbase (setLatBase old B))) B = r). rewrite S1. unfold B.
    rewrite (base_is _ a b c alpha beta gamma r eq_refl), <- mmul_assoc, minv_l, mmul_I_l; [reflexivity|].
    rewrite (det_stdbase a b c alpha beta gamma r HC). apply sqrt_lt_R0 in Pv.
    apply Rgt_not_eq. repeat apply Rmult_lt_0_compat; assumption. }
  rewrite Hr in E. exact E.
Qed.
