(* C05/C06 - the answer printed by the extracted driver: no failed clause <-> certificate accepted. *)
From Coq Require Import ZArith QArith List Bool.
From DS Require Import Base.ZMat Base.SGDefs Model.C05_QBase Model.C05_PosCert Model.C06_UCert.
Import ListNotations.

Lemma failed_nil_iff (l : list (Z * bool)) :
  map fst (filter (fun cl => negb (snd cl)) l) = [] <-> forallb snd l = true.
Proof.
  induction l as [|[n b] l IH]; cbn [filter map forallb snd fst negb]; [tauto|].
  destruct b; cbn [negb andb]; [exact IH|]. split; discriminate.
Qed.

Lemma pos_failed_nil G c : pos_cert_failed G c = [] <-> pos_cert_ok G c = true.
Proof. apply failed_nil_iff. Qed.

Lemma u_failed_nil G c : u_cert_failed G c = [] <-> u_cert_ok G c = true.
Proof. apply failed_nil_iff. Qed.
