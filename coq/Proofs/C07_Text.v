(* C07 - lemmas on the number scanner: text that follows a number and starts with a character the scanner
   cannot absorb (such as the "(" of a standard-uncertainty suffix) does not change what is read. *)
From Coq Require Import ZArith List Bool QArith Ascii String Lia.
From DS Require Import Model.C11_LookupDefs Model.C07_Text.
Import ListNotations.
Open Scope Z_scope.

Local Notation "a +++ b" := (String.append a b) (at level 60, right associativity).

Lemma sapp_assoc a b c : a +++ (b +++ c) = (a +++ b) +++ c.
Proof. induction a as [|x r IH]; cbn [String.append]; [reflexivity|]. rewrite IH. reflexivity. Qed.

Lemma stop_not_digit c : stop_char c = true -> is_digit c = false.
Proof. unfold stop_char. rewrite negb_true_iff, !orb_false_iff. tauto. Qed.
Lemma stop_not_dot c : stop_char c = true -> is_dot c = false.
Proof. unfold stop_char. rewrite negb_true_iff, !orb_false_iff. tauto. Qed.
Lemma stop_not_e c : stop_char c = true -> is_e c = false.
Proof. unfold stop_char. rewrite negb_true_iff, !orb_false_iff. tauto. Qed.
Lemma stop_not_sign c : stop_char c = true -> is_sign c = false.
Proof. unfold stop_char. rewrite negb_true_iff, !orb_false_iff. tauto. Qed.

Lemma span_stop_head t : stop_head t = true -> span is_digit t = (EmptyString, t).
Proof. destruct t as [|c r]; cbn; [reflexivity|]. intros H. rewrite (stop_not_digit _ H). reflexivity. Qed.

(* the digit scanner on s followed by t *)
Lemma span_digit_app s t : stop_head t = true ->
  span is_digit (s +++ t) = (fst (span is_digit s), snd (span is_digit s) +++ t).
Proof.
  intros Ht. induction s as [|c r IH]; cbn [String.append span].
  - rewrite (span_stop_head _ Ht). reflexivity.
  - destruct (is_digit c); [|reflexivity]. rewrite IH. destruct (span is_digit r) as [a b]. reflexivity.
Qed.

Lemma take_sign_app s t : stop_head t = true ->
  take_sign (s +++ t) = (fst (take_sign s), snd (take_sign s) +++ t).
Proof.
  intros Ht. destruct s as [|c r]; cbn [String.append take_sign].
  - destruct t as [|c r]; cbn; [reflexivity|]. cbn in Ht. rewrite (stop_not_sign _ Ht). reflexivity.
  - destruct (is_sign c); reflexivity.
Qed.

Lemma scan_exp_app s t : stop_head t = true ->
  scan_exp (s +++ t) = (fst (scan_exp s), snd (scan_exp s) +++ t).
Proof.
  intros Ht. destruct s as [|c r]; cbn [String.append scan_exp].
  - destruct t as [|c r]; cbn; [reflexivity|]. cbn in Ht. rewrite (stop_not_e _ Ht). reflexivity.
  - destruct (is_e c); [|reflexivity].
    rewrite (take_sign_app r t Ht). destruct (take_sign r) as [sg r1]. cbn [fst snd].
    rewrite (span_digit_app r1 t Ht). destruct (span is_digit r1) as [ed r2]. cbn [fst snd].
    destruct ed; reflexivity.
Qed.

Definition app_rest {A} (t : string) (x : option (A * string)) : option (A * string) :=
  match x with Some (a, r) => Some (a, r +++ t) | None => None end.

Lemma scan_mant_app s t : stop_head t = true -> scan_mant (s +++ t) = app_rest t (scan_mant s).
Proof.
  intros Ht. unfold scan_mant. rewrite (span_digit_app s t Ht).
  destruct (span is_digit s) as [ip r1] eqn:E. cbn [fst snd].
  destruct ip as [|d ip'].
  - (* no integer digits: the text itself decides *)
    destruct s as [|c r2]; cbn [String.append].
    + destruct t as [|c r]; cbn; [reflexivity|]. cbn in Ht. rewrite (stop_not_dot _ Ht). reflexivity.
    + destruct (is_dot c); [|reflexivity].
      rewrite (span_digit_app r2 t Ht). destruct (span is_digit r2) as [fp r3]. cbn [fst snd].
      destruct fp; reflexivity.
  - destruct r1 as [|c r2]; cbn [String.append].
    + destruct t as [|c r]; cbn; [reflexivity|]. cbn in Ht. rewrite (stop_not_dot _ Ht). reflexivity.
    + destruct (is_dot c); [|reflexivity].
      rewrite (span_digit_app r2 t Ht). destruct (span is_digit r2) as [fp r3]. reflexivity.
Qed.

Lemma scan_num_app s t : stop_head t = true -> scan_num (s +++ t) = app_rest t (scan_num s).
Proof.
  intros Ht. unfold scan_num. rewrite (scan_mant_app s t Ht).
  destruct (scan_mant s) as [[[m nf] r]|]; cbn [app_rest]; [|reflexivity].
  rewrite (scan_exp_app r t Ht). destruct (scan_exp r) as [e r']. reflexivity.
Qed.

Lemma scan_signed_app s t : stop_head t = true -> scan_signed (s +++ t) = app_rest t (scan_signed s).
Proof.
  intros Ht. unfold scan_signed. rewrite (take_sign_app s t Ht).
  destruct (take_sign s) as [sg r]. cbn [fst snd].
  rewrite (scan_num_app r t Ht). destruct (scan_num r) as [[d r']|]; reflexivity.
Qed.

(* ---- strip is the identity on text without blanks at either end ---- *)
Lemma rev_str_app s acc : rev_str s acc = rev_str s EmptyString +++ acc.
Proof.
  revert acc. induction s as [|c r IH]; intros acc; cbn [rev_str]; [reflexivity|].
  rewrite (IH (String c acc)), (IH (String c EmptyString)).
  rewrite <- sapp_assoc. reflexivity.
Qed.
Lemma rev_str_snoc s c : rev_str (s +++ String c EmptyString) EmptyString = String c (rev_str s EmptyString).
Proof.
  assert (H : forall acc, rev_str (s +++ String c EmptyString) acc = String c EmptyString +++ rev_str s acc).
  { induction s as [|d r IH]; intros acc; cbn [String.append rev_str]; [reflexivity|]. apply IH. }
  rewrite H. reflexivity.
Qed.
Lemma rev_str_invol s : rev_str (rev_str s EmptyString) EmptyString = s.
Proof.
  induction s as [|c r IH]; cbn [rev_str]; [reflexivity|].
  rewrite (rev_str_app r (String c EmptyString)), rev_str_snoc, IH. reflexivity.
Qed.

Definition first_ok (s : string) : bool := match s with String c _ => negb (is_space c) | EmptyString => true end.
Lemma lstrip_id s : first_ok s = true -> lstrip s = s.
Proof. destruct s as [|c r]; cbn; [reflexivity|]. intros H. apply negb_true_iff in H. rewrite H. reflexivity. Qed.
Lemma py_strip_id s : first_ok s = true -> first_ok (rev_str s EmptyString) = true -> py_strip s = s.
Proof. intros H1 H2. unfold py_strip. rewrite (lstrip_id s H1), (lstrip_id _ H2). apply rev_str_invol. Qed.

(* characters a number is made of are not blanks *)
Definition num_char (c : ascii) : bool := is_digit c || is_dot c || is_e c || is_sign c.
Lemma num_char_not_space c : num_char c = true -> is_space c = false.
Proof.
  unfold num_char, is_digit, is_dot, is_e, is_sign, is_space.
  destruct c as [b0 b1 b2 b3 b4 b5 b6 b7].
  destruct b0, b1, b2, b3, b4, b5, b6, b7; cbn; intros H; try reflexivity; discriminate H.
Qed.

Lemma span_all p s : snd (span p s) = EmptyString -> all_chars p s = true.
Proof.
  induction s as [|c r IH]; cbn [span all_chars]; [reflexivity|].
  destruct (p c); [|discriminate]. destruct (span p r) as [a b]. cbn [snd] in *. intros H. rewrite (IH H). reflexivity.
Qed.
Lemma span_parts p s : s = fst (span p s) +++ snd (span p s).
Proof.
  induction s as [|c r IH]; cbn [span]; [reflexivity|].
  destruct (p c); [|reflexivity]. destruct (span p r) as [a b]. cbn [fst snd String.append] in *. rewrite <- IH. reflexivity.
Qed.
Lemma span_fst_all p s : all_chars p (fst (span p s)) = true.
Proof.
  induction s as [|c r IH]; cbn [span]; [reflexivity|].
  destruct (p c) eqn:E; [|reflexivity]. destruct (span p r) as [a b]. cbn [fst all_chars] in *. rewrite E, IH. reflexivity.
Qed.
Lemma all_chars_cons p c r : all_chars p (String c r) = p c && all_chars p r.
Proof. reflexivity. Qed.
Lemma all_chars_app p a b : all_chars p (a +++ b) = all_chars p a && all_chars p b.
Proof. induction a as [|c r IH]; cbn [String.append all_chars]; [reflexivity|]. rewrite IH, andb_assoc. reflexivity. Qed.
Lemma all_chars_weaken (p q : ascii -> bool) s : (forall c, p c = true -> q c = true) -> all_chars p s = true -> all_chars q s = true.
Proof.
  intros Hpq. induction s as [|c r IH]; cbn [all_chars]; [reflexivity|].
  rewrite !andb_true_iff. intros [H1 H2]. split; [apply Hpq; exact H1 | apply IH; exact H2].
Qed.

(* a string consumed entirely by the scanner consists of number characters only *)
Lemma digit_num c : is_digit c = true -> num_char c = true.
Proof. unfold num_char. intros ->. reflexivity. Qed.

Lemma scan_exp_consumed s : snd (scan_exp s) = EmptyString -> all_chars num_char s = true.
Proof.
  destruct s as [|c r]; cbn [scan_exp]; [reflexivity|].
  destruct (is_e c) eqn:Ec; [|cbn; discriminate].
  destruct (take_sign r) as [sg r1] eqn:Es. destruct (span is_digit r1) as [ed r2] eqn:Ed.
  destruct ed as [|d ed']; [cbn; discriminate|]. cbn [snd]. intros ->.
  rewrite all_chars_cons. unfold num_char at 1. rewrite Ec, !orb_true_r. cbn [andb].
  assert (Hr1 : all_chars num_char r1 = true).
  { apply (all_chars_weaken is_digit); [exact digit_num|]. apply span_all. rewrite Ed. reflexivity. }
  destruct r as [|c1 r']; cbn [take_sign] in Es.
  - inversion Es; subst. exact Hr1.
  - destruct (is_sign c1) eqn:E1; inversion Es; subst; [|exact Hr1].
    rewrite all_chars_cons. unfold num_char at 1. rewrite E1, !orb_true_r. exact Hr1.
Qed.

Lemma scan_mant_chars s m nf r : scan_mant s = Some (m, nf, r) ->
  exists pre, s = pre +++ r /\ all_chars num_char pre = true /\ pre <> EmptyString.
Proof.
  unfold scan_mant. pose proof (span_parts is_digit s) as Hp. pose proof (span_fst_all is_digit s) as Ha.
  destruct (span is_digit s) as [ip r1]. cbn [fst snd] in *.
  destruct ip as [|d ip'].
  - cbn [String.append] in Hp. subst r1. destruct s as [|c r2]; [discriminate|].
    destruct (is_dot c) eqn:Ec; [|discriminate].
    pose proof (span_parts is_digit r2) as Hp2. pose proof (span_fst_all is_digit r2) as Ha2.
    destruct (span is_digit r2) as [fp r3]. cbn [fst snd] in *. destruct fp as [|f fp']; [discriminate|].
    intros H; injection H as _ _ Hr; subst r. exists (String c (String f fp')). split; [cbn [String.append]; f_equal; exact Hp2|].
    split; [|discriminate]. rewrite all_chars_cons. unfold num_char at 1. rewrite Ec, orb_true_r. cbn [orb andb].
    apply (all_chars_weaken is_digit); [exact digit_num | exact Ha2].
  - assert (Hip : all_chars num_char (String d ip') = true) by (apply (all_chars_weaken is_digit); [exact digit_num | exact Ha]).
    destruct r1 as [|c r2].
    + intros H; injection H as _ _ Hr; subst r. exists (String d ip'). split; [exact Hp|]. split; [exact Hip | discriminate].
    + destruct (is_dot c) eqn:Ec.
      * pose proof (span_parts is_digit r2) as Hp2. pose proof (span_fst_all is_digit r2) as Ha2.
        destruct (span is_digit r2) as [fp r3]. cbn [fst snd] in *.
        intros H; injection H as _ _ Hr; subst r. exists (String d ip' +++ String c fp). split.
        { rewrite Hp at 1. rewrite <- sapp_assoc. cbn [String.append]. rewrite <- Hp2. reflexivity. }
        split; [|discriminate]. rewrite all_chars_app, Hip, all_chars_cons. cbn [andb]. unfold num_char at 1. rewrite Ec, orb_true_r. cbn [orb andb].
        apply (all_chars_weaken is_digit); [exact digit_num | exact Ha2].
      * intros H; injection H as _ _ Hr; subst r. exists (String d ip'). split; [exact Hp|]. split; [exact Hip | discriminate].
Qed.

Lemma numeric_chars s : is_numeric s = true -> all_chars num_char s = true /\ s <> EmptyString.
Proof.
  unfold is_numeric, scan_signed.
  destruct (take_sign s) as [sg r] eqn:Es. unfold scan_num.
  destruct (scan_mant r) as [[[m nf] r1]|] eqn:Em; [|discriminate].
  destruct (scan_exp r1) as [e r2] eqn:Ee. destruct r2; [|discriminate]. intros _.
  destruct (scan_mant_chars _ _ _ _ Em) as [pre [Hr [Hpre Hne]]].
  assert (Hr1 : all_chars num_char r1 = true) by (apply scan_exp_consumed; rewrite Ee; reflexivity).
  assert (Hrr : all_chars num_char r = true) by (rewrite Hr, all_chars_app, Hpre, Hr1; reflexivity).
  assert (Hrne : r <> EmptyString) by (rewrite Hr; destruct pre; [contradiction Hne; reflexivity | discriminate]).
  destruct s as [|c s']; cbn [take_sign] in Es.
  - injection Es as _ Hr0. exfalso. apply Hrne. rewrite <- Hr0. reflexivity.
  - destruct (is_sign c) eqn:Ec; injection Es as _ Hr0.
    + split; [|discriminate]. rewrite all_chars_cons. unfold num_char at 1. rewrite Ec, !orb_true_r. rewrite Hr0. exact Hrr.
    + split; [rewrite Hr0; exact Hrr | discriminate].
Qed.

Lemma first_ok_num s : all_chars num_char s = true -> first_ok s = true.
Proof.
  destruct s as [|c r]; cbn; [reflexivity|]. rewrite andb_true_iff. intros [H _].
  rewrite (num_char_not_space _ H). reflexivity.
Qed.

(* ---- the theorem: a standard-uncertainty suffix (any text in parentheses) does not change the value ---- *)
Lemma leading_float_suffix s t :
  is_numeric s = true -> stop_head t = true -> first_ok (rev_str (s +++ t) EmptyString) = true ->
  leading_float (s +++ t) = leading_float s.
Proof.
  intros Hn Ht Hlast. destruct (numeric_chars s Hn) as [Hc Hne].
  assert (Hs : py_strip s = s).
  { apply py_strip_id; [apply first_ok_num; exact Hc|].
    apply first_ok_num.
    (* reversal keeps the character set *)
    assert (Hrev : forall x acc, all_chars num_char x = true -> all_chars num_char acc = true -> all_chars num_char (rev_str x acc) = true).
    { induction x as [|c r IH]; intros acc Hx Ha; cbn [rev_str]; [exact Ha|].
      cbn [all_chars] in Hx. apply andb_true_iff in Hx as [Hx1 Hx2]. apply IH; [exact Hx2|]. cbn [all_chars]. rewrite Hx1, Ha. reflexivity. }
    apply Hrev; [exact Hc | reflexivity]. }
  assert (Hst : py_strip (s +++ t) = s +++ t).
  { apply py_strip_id; [|exact Hlast]. destruct s as [|c r]; [contradiction Hne; reflexivity|].
    cbn [String.append first_ok]. cbn [all_chars] in Hc. apply andb_true_iff in Hc as [Hc1 _].
    rewrite (num_char_not_space _ Hc1). reflexivity. }
  unfold leading_float. rewrite Hs, Hst, (scan_signed_app s t Ht).
  unfold is_numeric in Hn. destruct (scan_signed s) as [[d r]|]; [|discriminate]. reflexivity.
Qed.

Lemma rev_last_paren x : first_ok (rev_str (x +++ ")") EmptyString) = true.
Proof. rewrite rev_str_snoc. reflexivity. Qed.

Theorem leading_float_esd_any s d : is_numeric s = true -> leading_float (s +++ "(" +++ d +++ ")") = leading_float s.
Proof.
  intros Hn. apply leading_float_suffix; [exact Hn | reflexivity|].
  replace (s +++ "(" +++ d +++ ")") with ((s +++ "(" +++ d) +++ ")").
  - apply rev_last_paren.
  - rewrite <- sapp_assoc. reflexivity.
Qed.

(* the grammar is inhabited by the usual CIF spellings, and the recogniser rejects non-numbers *)
Example numeric_examples :
  forallb is_numeric ["0.1234"; "-1.5e-3"; ".5"; "12."; "+7"; "1E+02"; "90"; "0.00012"]%string = true
  /\ forallb (fun s => negb (is_numeric s)) [""; "."; "?"; "1e"; "abc"; "1 "; "0.1234(5)"; "--1"]%string = true.
Proof. split; vm_compute; reflexivity. Qed.

Example esd_example : leading_float "0.1234(5)" = LFnum (Dec 1234 (-4)) /\ leading_float "-1.5e-3(12)" = leading_float "-1.5e-3".
Proof. split; vm_compute; reflexivity. Qed.
