(* C04 - xcfg, whole file: reading the text the writer model produces yields canon (box size and H0 at 8 significant
   digits, auxiliary names, per atom the capitalised element and the entry fields at 8 significant digits). *)
From Coq Require Import List Bool Arith NArith ZArith Lia.
From Coq Require Import Ascii.
From DS Require Import Base.C04_Text Base.C04_Decimal Model.C04_Fmt Gen.C04_FmtSpecs Model.C04_Xyz Model.C04_Rawxyz Model.C04_Pdffit Model.C04_Pdb Model.C04_Xcfg.
From DS Require Import Proofs.C04_Fmt Proofs.C04_Xyz Proofs.C04_Lines Proofs.C04_Pdffit Proofs.C04_Pdb Proofs.C04_Xcfg.
Import ListNotations.
Local Close Scope N_scope.

Local Opaque fix_body int_body lpad rpad parse_float parse_int strip lstrip rstrip print_gen.

(* ---- tokens ---- *)
Definition tokp (b : str) : Prop := no_ws b = true /\ b <> [].

Lemma first_tok_sp_mid b r : tokp b -> first_tok (" "%char :: b ++ " "%char :: r) = Some b.
Proof. intros [H1 H2]. unfold first_tok. rewrite split_ws_cons by reflexivity. rewrite split_mid by reflexivity. rewrite (split_tok _ H1 H2). reflexivity. Qed.
Lemma first_tok_sp b : tokp b -> first_tok (" "%char :: b) = Some b.
Proof. intros [H1 H2]. unfold first_tok. rewrite split_ws_cons by reflexivity. rewrite (split_tok _ H1 H2). reflexivity. Qed.
Lemma first_tok_mid b r : tokp b -> first_tok (b ++ " "%char :: r) = Some b.
Proof. intros [H1 H2]. unfold first_tok. rewrite split_mid by reflexivity. rewrite (split_tok _ H1 H2). reflexivity. Qed.

Lemma tokp_int z : tokp (int_body z). Proof. exact (int_body_token z). Qed.
Lemma tokp_fix p d : tokp (fix_body p d). Proof. exact (fix_body_token p d). Qed.
Lemma tokp_gen P d b : print_gen P d = Some b -> tokp b.
Proof. intros E. destruct (field_body_ok (FGen P) (ANum d) b eq_refl E) as [B1 [B2 _]]. split; assumption. Qed.
Lemma gen_parse P d b : print_gen P d = Some b -> parse_float b = Some (gqd P d).
Proof.
  intros E. destruct (gen_roundtrip 0 _ _ _ E) as [R N]. rewrite lpad0 in R. rewrite R. unfold gqd. destruct (gq P d); [reflexivity|contradiction].
Qed.
Lemma is_nil_strip_tok b r : tokp b -> is_nil (strip (b ++ r)) = false.
Proof.
  intros [H1 H2]. apply blank_false_of_tokens. destruct b as [|c b']; [contradiction|]. intros E.
  assert (is_ws c = false) as Hc by (cbn in H1; apply andb_true_iff in H1; destruct H1 as [H1 _]; destruct (is_ws c); [discriminate|reflexivity]).
  pose proof (strip_nonblank c (b' ++ r) Hc) as K. change ((c :: b') ++ r) with (c :: (b' ++ r)) in E.
  assert (strip (c :: b' ++ r) = []) as Z.
  { destruct (strip (c :: b' ++ r)) as [|x y] eqn:Es; [reflexivity|]. exfalso. rewrite <- split_ws_strip, Es in E.
    pose proof (strip_starts (c :: b' ++ r)) as S1. rewrite Es in S1. cbn in S1.
    unfold split_ws in E. cbn [toks] in E. rewrite S1 in E. destruct (toks y); cbn in E; discriminate. }
  rewrite Z in K. discriminate.
Qed.

(* digits of a non-negative integer *)
Lemma int_body_nonneg k : int_body (Z.of_nat k) = map dchar (digitsN (N.of_nat k)).
Proof.
  Local Transparent int_body. unfold int_body. assert ((Z.of_nat k <? 0)%Z = false) as -> by (apply Z.ltb_ge; lia).
  cbn [sign_str app]. rewrite <- nat_N_Z, Zabs2N.id. reflexivity. Local Opaque int_body.
Qed.

Definition take_digits : str -> str :=
  fix take (l : str) : str := match l with c :: l' => match dval c with Some _ => c :: take l' | None => [] end | [] => [] end.
Lemma take_digits_spec ds c r : Forall lt10 ds -> dval c = None -> take_digits (map dchar ds ++ c :: r) = map dchar ds.
Proof.
  intros F Hc. induction F as [|k l Hk _ IH]; cbn [map app take_digits]; [rewrite Hc; reflexivity|].
  destruct (dchar_props k Hk) as [E _]. rewrite E. f_equal. exact IH.
Qed.

Lemma starts_with_app p r : starts_with p (p ++ r) = true.
Proof. induction p as [|a p IH]; [reflexivity|]. cbn. rewrite Ascii.eqb_refl. exact IH. Qed.
Lemma skipn_app_exact {A} (p r : list A) : skipn (List.length p) (p ++ r) = r.
Proof. induction p; [reflexivity|exact IHp]. Qed.

(* a line that begins with a digit matches none of the header keywords *)
Lemma starts_with_digit c0 p k t : dval c0 = None -> lt10 k -> starts_with (c0 :: p) (dchar k :: t) = false.
Proof.
  intros H0 Hk. cbn. destruct (Ascii.eqb c0 (dchar k)) eqn:E; [|reflexivity]. apply Ascii.eqb_eq in E. subst c0.
  destruct (dchar_props k Hk) as [E _]. rewrite E in H0. discriminate.
Qed.

Lemma nocrlf_cons c t : Ascii.eqb nl c = false -> Ascii.eqb cr c = false -> nocrlf t -> nocrlf (c :: t).
Proof. intros H1 H2 [A B]. split; [change (Ascii.eqb nl c || has_char nl t = false); rewrite H1, A|change (Ascii.eqb cr c || has_char cr t = false); rewrite H2, B]; reflexivity. Qed.
Lemma nocrlf_tokp b : tokp b -> nocrlf b.
Proof. intros [H _]. apply nocrlf_no_ws. exact H. Qed.
Ltac nocrlf_line :=
  repeat first [ exact nocrlf_nil | apply nocrlf_cons; [reflexivity|reflexivity|] | apply nocrlf_int | apply nocrlf_fix
               | apply nocrlf_tokp; assumption | apply nocrlf_no_ws; assumption | apply nocrlf_app ].

(* ---- header records ---- *)
Definition set_n h v := XHdr (Some v) (xh_A h) (xh_H0 h) (xh_novel h) (xh_count h) (xh_aux h).
Definition set_A h v := XHdr (xh_n h) (Some v) (xh_H0 h) (xh_novel h) (xh_count h) (xh_aux h).
Definition add_H0 h i j v := XHdr (xh_n h) (xh_A h) (((i, j), v) :: xh_H0 h) (xh_novel h) (xh_count h) (xh_aux h).
Definition set_novel h := XHdr (xh_n h) (xh_A h) (xh_H0 h) true (xh_count h) (xh_aux h).
Definition set_count h v := XHdr (xh_n h) (xh_A h) (xh_H0 h) (xh_novel h) (Some v) (xh_aux h).
Definition add_aux h k nm := XHdr (xh_n h) (xh_A h) (xh_H0 h) (xh_novel h) (xh_count h) ((k, nm) :: xh_aux h).

Lemma step_np n l h : render xcfg_w_nparticles [AInt n] = Some l -> xh_n h = None ->
  xstep h l = XCont (set_n h n) /\ nocrlf l /\ l <> [].
Proof.
  intros E Hn. cbn in E. injection E as E. subst l. rewrite lpad0, app_nil_r. split; [|split].
  - unfold xstep. cbn [app]. rewrite strip_nonblank by reflexivity. cbn [orb Ascii.eqb Bool.eqb]. rewrite Hn.
    cbn [starts_with xcfg_r_nparticles s String.list_ascii_of_string Ascii.eqb Bool.eqb andb skipn xcfg_r_nparticles_from].
    rewrite (first_tok_sp _ (tokp_int n)), int_body_parse. reflexivity.
  - cbn [app]. nocrlf_line.
  - discriminate.
Qed.

Lemma step_A d l h n0 : render xcfg_w_A [ANum d] = Some l -> xh_n h = Some n0 ->
  xstep h l = XCont (set_A h (gqd (gprec xcfg_w_A 0) d)) /\ nocrlf l /\ l <> [].
Proof.
  intros E Hn. cbn in E. destruct (print_gen 8 d) as [b|] eqn:Eb; [|discriminate]. injection E as E. subst l.
  pose proof (tokp_gen _ _ _ Eb) as Tb. split; [|split].
  - unfold xstep. cbn [app]. rewrite strip_nonblank by reflexivity. cbn [orb Ascii.eqb Bool.eqb]. rewrite Hn.
    cbn [starts_with xcfg_r_A s String.list_ascii_of_string Ascii.eqb Bool.eqb andb skipn xcfg_r_A_from].
    rewrite (first_tok_sp_mid _ _ Tb), (gen_parse _ _ _ Eb). unfold set_A. rewrite Hn. reflexivity.
  - cbn [app]. nocrlf_line.
  - discriminate.
Qed.

Local Transparent int_body.
Lemma int_body_123 : int_body 1 = ["1"%char] /\ int_body 2 = ["2"%char] /\ int_body 3 = ["3"%char].
Proof. repeat split; vm_compute; reflexivity. Qed.
Local Opaque int_body.

Lemma step_H0 (i j : nat) d l h n0 : In i [1; 2; 3] -> In j [1; 2; 3] ->
  render xcfg_w_H0 [AInt (Z.of_nat i); AInt (Z.of_nat j); ANum d] = Some l -> xh_n h = Some n0 ->
  xstep h l = XCont (add_H0 h i j (g8 d)) /\ nocrlf l /\ l <> [].
Proof.
  intros Hi Hj E Hn. cbn in E. destruct (print_gen 8 d) as [b|] eqn:Eb; [|discriminate]. injection E as E. subst l.
  pose proof (tokp_gen _ _ _ Eb) as Tb. rewrite !lpad0.
  destruct int_body_123 as [I1 [I2 I3]].
  cbn in Hi, Hj.
  destruct Hi as [<-|[<-|[<-|[]]]]; destruct Hj as [<-|[<-|[<-|[]]]]; cbn [Z.of_nat Pos.of_succ_nat Pos.succ]; rewrite ?I1, ?I2, ?I3;
  (split; [|split; [cbn [app]; nocrlf_line|discriminate]]);
  unfold xstep; cbn [app]; rewrite strip_nonblank by reflexivity; cbn [orb Ascii.eqb Bool.eqb]; rewrite Hn;
  cbn [starts_with xcfg_r_A xcfg_r_H0 s String.list_ascii_of_string Ascii.eqb Bool.eqb andb];
  unfold digit_at; cbn [nth xcfg_r_H0_cols nth_error skipn];
  change (dval "1"%char) with (Some 1%N); change (dval "2"%char) with (Some 2%N); change (dval "3"%char) with (Some 3%N);
  cbn [N.to_nat Pos.to_nat Pos.iter_op Nat.add Nat.leb andb];
  rewrite (first_tok_mid _ _ Tb), (gen_parse _ _ _ Eb); unfold add_H0; rewrite Hn; reflexivity.
Qed.

Lemma step_novel h n0 : xh_n h = Some n0 -> xstep h xcfg_w_novel = XCont (set_novel h).
Proof. intros Hn. unfold xstep. Local Transparent strip lstrip rstrip. cbn -[set_novel]. Local Opaque strip lstrip rstrip. rewrite Hn. unfold set_novel. rewrite Hn. reflexivity. Qed.

Lemma step_count n l h n0 : render xcfg_w_entry_count [AInt n] = Some l -> xh_n h = Some n0 ->
  xstep h l = XCont (set_count h n) /\ nocrlf l /\ l <> [].
Proof.
  intros E Hn. cbn in E. injection E as E. subst l. rewrite lpad0, app_nil_r. split; [|split; [cbn [app]; nocrlf_line|discriminate]].
  unfold xstep. cbn [app]. rewrite strip_nonblank by reflexivity. cbn [orb Ascii.eqb Bool.eqb]. rewrite Hn.
  cbn [starts_with xcfg_r_A xcfg_r_H0 xcfg_r_novel xcfg_r_entry_count s String.list_ascii_of_string Ascii.eqb Bool.eqb andb skipn xcfg_r_entry_count_from].
  rewrite (first_tok_sp _ (tokp_int n)), int_body_parse. unfold set_count. rewrite Hn. reflexivity.
Qed.

Lemma step_aux (k : nat) nm l h n0 : str_tok_ok nm = true -> render xcfg_w_auxiliary [AInt (Z.of_nat k); AStr nm] = Some l -> xh_n h = Some n0 ->
  xstep h l = XCont (add_aux h k nm) /\ nocrlf l /\ l <> [].
Proof.
  intros Hnm E Hn. destruct (str_tok_ok_parts _ Hnm) as [N1 [N2 _]]. cbn in E. injection E as E. subst l. rewrite !lpad0.
  split; [|split; [cbn [app]; nocrlf_line|discriminate]].
  unfold xstep. cbn [app]. rewrite strip_nonblank by reflexivity. cbn [orb Ascii.eqb Bool.eqb]. rewrite Hn.
  cbn [starts_with xcfg_r_A xcfg_r_H0 xcfg_r_novel xcfg_r_entry_count s String.list_ascii_of_string Ascii.eqb Bool.eqb andb].
  unfold aux_match. cbn [starts_with s String.list_ascii_of_string Ascii.eqb Bool.eqb andb List.length skipn].
  fold take_digits. rewrite int_body_nonneg.
  rewrite (take_digits_spec _ "]"%char _ (digitsN_lt10 _) eq_refl).
  rewrite skipn_app_exact.
  assert (nonempty (map dchar (digitsN (N.of_nat k))) = true) as ->.
  { pose proof (digitsN_nonnil (N.of_nat k)). destruct (digitsN (N.of_nat k)); [contradiction|reflexivity]. }
  cbn [andb starts_with Ascii.eqb Bool.eqb skipn]. rewrite <- int_body_nonneg, int_body_parse, Nat2Z.id.
  rewrite (first_tok_sp_mid nm _ (conj N1 N2)). unfold add_aux. rewrite Hn. reflexivity.
Qed.

Lemma step_blank h : xstep h [] = XCont h.
Proof. unfold xstep. Local Transparent strip lstrip rstrip. cbn. Local Opaque strip lstrip rstrip. reflexivity. Qed.

(* the first mass line ends the header loop (and is consumed) *)
Lemma fix_body_digit p d : dneg d = false -> exists k t, fix_body p d = dchar k :: t /\ lt10 k.
Proof.
  Local Transparent fix_body. intros Hn. unfold fix_body. destruct (fix_split p d) as [H1 [_ [H3 _]]]. rewrite Hn. unfold body_of. cbn [sign_str app].
  destruct (firstn _ _) as [|k r]; [contradiction|]. inversion H1; subst. exists k. eexists. split; [reflexivity|assumption]. Local Opaque fix_body.
Qed.

Lemma step_mass d l h n0 : dneg d = false -> render xcfg_w_mass [ANum d] = Some l -> xh_n h = Some n0 ->
  xstep h l = XBreak /\ nocrlf l /\ l <> [] /\ split_ws l = [l] /\ isfloat l = true.
Proof.
  intros Hd E Hn. cbn in E. injection E as E. subst l. rewrite lpad0, app_nil_r.
  destruct (fix_body_digit 4 d Hd) as [k [t [Ef Hk]]]. pose proof (tokp_fix 4 d) as [T1 T2].
  split; [|split; [apply nocrlf_fix|split; [exact T2|split; [apply split_tok; assumption|unfold isfloat; rewrite fix_body_parse; reflexivity]]]].
  unfold xstep. rewrite <- (app_nil_r (fix_body 4 d)) at 1. rewrite (is_nil_strip_tok _ _ (conj T1 T2)). rewrite Ef.
  destruct (dchar_props k Hk) as [Dk _].
  assert (Ascii.eqb (dchar k) "#"%char = false) as Hh.
  { destruct (Ascii.eqb (dchar k) "#"%char) eqn:Eh; [|reflexivity]. apply Ascii.eqb_eq in Eh. rewrite Eh in Dk. discriminate. }
  rewrite Hh. cbn [orb]. rewrite Hn.
  unfold xcfg_r_A, xcfg_r_H0, xcfg_r_novel, xcfg_r_entry_count, aux_match. cbn [s String.list_ascii_of_string].
  repeat match goal with |- context [starts_with (?c0 :: ?p) (dchar k :: t)] => rewrite (starts_with_digit c0 p k t eq_refl Hk) end. reflexivity.
Qed.

(* ---- data block ---- *)
Lemma masses_nonneg : forallb (fun kv => negb (dneg (snd kv))) xcfg_masses = true.
Proof. vm_compute. reflexivity. Qed.
Lemma mass_nonneg el : dneg (mass_of el) = false.
Proof.
  unfold mass_of. destruct (find _ xcfg_masses) as [kv|] eqn:E; [|reflexivity].
  apply find_some in E. destruct E as [Hin _]. pose proof masses_nonneg as M. rewrite forallb_forall in M.
  apply negb_true_iff. apply M. exact Hin.
Qed.

Lemma map_opt_length {A B} (f : A -> option B) l : forall r, map_opt f l = Some r -> List.length r = List.length l.
Proof.
  induction l as [|x l IH]; intros r E; cbn in E; [inversion E; reflexivity|].
  destruct (f x); [|discriminate]. destruct (map_opt f l) as [r'|]; [|discriminate]. inversion E; subst. cbn. f_equal. apply IH. reflexivity.
Qed.

Lemma nocrlf_join bs : Forall (fun t => no_ws t = true /\ t <> []) bs -> nocrlf (join [sp] bs).
Proof.
  induction 1 as [|t r [H1 _] Hr IH]; [exact nocrlf_nil|]. destruct r as [|t2 r'].
  - cbn [join]. apply nocrlf_no_ws. exact H1.
  - change (join [sp] (t :: t2 :: r')) with (t ++ [sp] ++ join [sp] (t2 :: r')).
    apply nocrlf_app; [apply nocrlf_no_ws; exact H1|]. apply nocrlf_app; [split; reflexivity|exact IH].
Qed.

Definition atom_ok (a : catom) : Prop := str_tok_ok (c_el a) = true /\ isfloat (c_el a) = false.
Definition canon_catom (cols : list (str * (catom -> dec))) (a : catom) : qcatom :=
  QAtom (capitalize (c_el a)) (let '(x, y, z) := c_pos a in map g8 ([x; y; z] ++ map (fun c => snd c a) cols)).
Definition goodx (l : str) : Prop := nocrlf l /\ split_ws l <> [].

(* one entry line, read in element state [Some e] *)
Lemma entry_read cols a e l t : entry_line cols a = Some l ->
  xdata (Z.of_nat (3 + List.length cols)) (Some e) (l :: t) =
  match xdata (Z.of_nat (3 + List.length cols)) (Some e) t with
  | Some r => Some (QAtom e (let '(x, y, z) := c_pos a in map g8 ([x; y; z] ++ map (fun c => snd c a) cols)) :: r)
  | None => None end /\ goodx l.
Proof.
  intros E. pose proof (roundtrip_xcfg_entry_partial _ _ _ E) as P. unfold entry_line in E.
  destruct (c_pos a) as [[x y] z]. destruct (map_opt gen8 _) as [bs|] eqn:Eb; [|discriminate]. cbn [option_map] in E. inversion E; subst l. clear E.
  destruct (map_gen8 _ _ Eb) as [F M]. pose proof (map_opt_length _ _ _ Eb) as L. rewrite app_length, map_length in L. cbn [List.length] in L.
  rewrite (split_join_sp _ F) in P. split.
  - cbn [xdata]. rewrite (split_join_sp _ F).
    destruct bs as [|b1 [|b2 bs']]; [cbn in L; lia|cbn in L; lia|].
    rewrite L. rewrite Z.eqb_refl. rewrite P. reflexivity.
  - split; [apply nocrlf_join; exact F|]. rewrite (split_join_sp _ F). destruct bs; [cbn in L; lia|discriminate].
Qed.

Lemma xdata_mass c el l r : split_ws l = [l] -> isfloat l = true -> xdata c el (l :: r) = xdata c el r.
Proof. intros H1 H2. cbn [xdata]. rewrite H1, H2. reflexivity. Qed.
Lemma xdata_el c el l r : split_ws l = [l] -> isfloat l = false -> xdata c el (l :: r) = xdata c (Some (capitalize (strip l))) r.
Proof. intros H1 H2. cbn [xdata]. rewrite H1, H2. reflexivity. Qed.

Lemma data_block cols : forall l prev ls, Forall atom_ok l -> C04_Xcfg.atom_block cols prev l = Some ls ->
  xdata (Z.of_nat (3 + List.length cols)) (option_map capitalize prev) ls = Some (map (canon_catom cols) l) /\ Forall goodx ls.
Proof.
  induction l as [|a r IH]; intros prev ls F E.
  - cbn in E. inversion E. split; [reflexivity|constructor].
  - inversion F as [|? ? [Hel Hnf] Fr]; subst. cbn [C04_Xcfg.atom_block] in E.
    destruct (entry_line cols a) as [e|] eqn:Ee; [|exfalso; repeat match type of E with context [match ?x with _ => _ end] => destruct x end; discriminate].
    destruct (C04_Xcfg.atom_block cols (Some (c_el a)) r) as [t|] eqn:Et; [|exfalso; repeat match type of E with context [match ?x with _ => _ end] => destruct x end; discriminate].
    destruct (IH _ _ Fr Et) as [IH1 IH2]. cbn [option_map] in IH1.
    destruct (str_tok_ok_parts _ Hel) as [N1 [N2 _]].
    destruct (match prev with Some p => str_eqb p (c_el a) | None => false end) eqn:Same.
    + (* same element as the previous atom: no mass / element lines *)
      destruct prev as [p|]; [|discriminate]. apply str_eqb_eq in Same. subst p. inversion E; subst ls. cbn [app option_map].
      destruct (entry_read cols a (capitalize (c_el a)) e t Ee) as [R G]. rewrite R, IH1. split; [reflexivity|constructor; assumption].
    + destruct (render xcfg_w_mass [ANum (mass_of (c_el a))]) as [m|] eqn:Em; [|discriminate]. cbn [option_map] in E. inversion E; subst ls. clear E.
      cbn [app]. destruct (step_mass _ _ (XHdr (Some 0%Z) None [] false None []) 0%Z (mass_nonneg _) Em eq_refl) as [_ [Nm [_ [Sm Fm]]]].
      rewrite (xdata_mass _ _ _ _ Sm Fm), (xdata_el _ _ _ _ (split_tok _ N1 N2) Hnf).
      assert (strip (c_el a) = c_el a) as -> by (apply strip_id; [apply no_ws_starts|apply no_ws_ends]; exact N1).
      destruct (entry_read cols a (capitalize (c_el a)) e t Ee) as [R G]. rewrite R, IH1. split; [reflexivity|].
      constructor; [split; [exact Nm|rewrite Sm; discriminate]|]. constructor; [split; [apply nocrlf_no_ws; exact N1|rewrite (split_tok _ N1 N2); discriminate]|].
      constructor; assumption.
Qed.

(* ---- the auxiliary records and the reconstruction of the column names ---- *)
Definition add_auxs h (l : list (nat * str)) := XHdr (xh_n h) (xh_A h) (xh_H0 h) (xh_novel h) (xh_count h) (rev l ++ xh_aux h).

Lemma xloop_cont h l r h' : xstep h l = XCont h' -> xloop h (l :: r) = xloop h' r.
Proof. intros E. cbn [xloop]. rewrite E. reflexivity. Qed.

Lemma aux_loop (cols : list (str * (catom -> dec))) : forall start h n0 auxl rest,
  forallb (fun nm => str_tok_ok nm) (map fst cols) = true -> xh_n h = Some n0 ->
  map_opt (fun ic => render xcfg_w_auxiliary [AInt (Z.of_nat (fst ic)); AStr (fst (snd ic))]) (combine (seq start (List.length cols)) cols) = Some auxl ->
  xloop h (auxl ++ rest) = xloop (add_auxs h (combine (seq start (List.length cols)) (map fst cols))) rest /\
  Forall (fun l => nocrlf l /\ l <> []) auxl.
Proof.
  induction cols as [|[nm f] cols IH]; intros start h n0 auxl rest Hok Hn E.
  - cbn in E. inversion E. split; [destruct h; reflexivity|constructor].
  - cbn [List.length seq combine map_opt fst snd map forallb] in *. apply andb_true_iff in Hok. destruct Hok as [Hnm Hok].
    destruct (render xcfg_w_auxiliary [AInt (Z.of_nat start); AStr nm]) as [l|] eqn:El; [|discriminate].
    destruct (map_opt _ (combine (seq (S start) (List.length cols)) cols)) as [auxl'|] eqn:Er; [|discriminate]. inversion E; subst auxl. clear E.
    destruct (step_aux start nm l h n0 Hnm El Hn) as [S1 [N1 N2]].
    destruct (IH (S start) (add_aux h start nm) n0 auxl' rest Hok Hn Er) as [I1 I2].
    split; [|constructor; [split; assumption|exact I2]].
    cbn [app]. rewrite (xloop_cont _ _ _ _ S1), I1. f_equal. unfold add_auxs, add_aux. cbn [xh_n xh_A xh_H0 xh_novel xh_count xh_aux rev].
    rewrite <- app_assoc. reflexivity.
Qed.

Lemma find_key {V} (l : list (nat * V)) k v : NoDup (map fst l) -> In (k, v) l -> find (fun e => (fst e =? k)%nat) l = Some (k, v).
Proof.
  induction l as [|[k' v'] l IH]; intros ND Hin; [destruct Hin|]. cbn [map fst] in ND. inversion ND as [|? ? Hni ND']; subst.
  cbn [find fst]. destruct Hin as [Eq|Hin].
  - inversion Eq; subst. rewrite Nat.eqb_refl. reflexivity.
  - destruct (k' =? k)%nat eqn:E; [|apply IH; assumption]. apply Nat.eqb_eq in E. subst k'. exfalso. apply Hni.
    apply in_map_iff. exists (k, v). split; [reflexivity|exact Hin].
Qed.

Lemma map_fst_combine_seq {V} (names : list V) start : map fst (combine (seq start (List.length names)) names) = seq start (List.length names).
Proof. revert start. induction names as [|x r IH]; intros start; [reflexivity|]. cbn. f_equal. apply IH. Qed.

Lemma in_combine_seq {V} (names : list V) d start k : (k < List.length names)%nat ->
  In (start + k, nth k names d) (combine (seq start (List.length names)) names).
Proof.
  revert start k. induction names as [|x r IH]; intros start k H; [cbn in H; lia|]. cbn [List.length seq combine]. destruct k as [|k].
  - left. rewrite Nat.add_0_r. reflexivity.
  - right. replace (start + S k) with (S start + k) by lia. apply IH. cbn in H. lia.
Qed.

Lemma fold_max_le l m : (forall x, In x l -> x <= m) -> fold_right Nat.max 0 l <= m.
Proof. induction l as [|x r IH]; intros H; [cbn; lia|]. cbn. apply Nat.max_lub; [apply H; left; reflexivity|apply IH; intros y Hy; apply H; right; exact Hy]. Qed.
Lemma fold_max_ge l x : In x l -> x <= fold_right Nat.max 0 l.
Proof. induction l as [|y r IH]; intros H; [destruct H|]. cbn. destruct H as [->|H]; [apply Nat.le_max_l|]. etransitivity; [apply IH; exact H|apply Nat.le_max_r]. Qed.

Lemma map_nth_seq {V} (l : list V) d : map (fun k => nth k l d) (seq 0 (List.length l)) = l.
Proof.
  induction l as [|x r IH]; [reflexivity|]. cbn [List.length seq map nth]. f_equal. rewrite <- seq_shift, map_map. exact IH.
Qed.

Lemma aux_names (names : list str) (dflt : nat -> str) :
  let auxs := rev (combine (seq 0 (List.length names)) names) in
  let auxnum := match auxs with [] => O | _ => S (fold_right Nat.max O (map fst auxs)) end in
  auxnum = List.length names /\
  map (fun k => match find (fun e => (fst e =? k)%nat) auxs with Some e => snd e | None => dflt k end) (seq 0 auxnum) = names.
Proof.
  intros auxs auxnum. set (m := List.length names) in *.
  assert (map fst auxs = rev (seq 0 m)) as MF by (unfold auxs, m; rewrite map_rev, map_fst_combine_seq; reflexivity).
  assert (NoDup (map fst auxs)) as ND by (rewrite MF; apply NoDup_rev; apply seq_NoDup).
  assert (auxnum = m) as EM.
  { unfold auxnum. destruct names as [|x r]; [reflexivity|].
    assert (m = S (List.length r)) as Hm by (unfold m; reflexivity).
    destruct auxs as [|e es] eqn:Ea.
    - exfalso. apply (f_equal (@List.length _)) in Ea. unfold auxs in *. rewrite rev_length, combine_length, seq_length in Ea. fold m in Ea. rewrite Nat.min_id in Ea. cbn in Ea. lia.
    - rewrite <- Ea in *. rewrite MF. cut (fold_right Nat.max 0 (rev (seq 0 m)) = List.length r); [lia|].
      apply Nat.le_antisymm.
      + apply fold_max_le. intros x0 Hx. apply in_rev in Hx. apply in_seq in Hx. lia.
      + assert (In (List.length r) (rev (seq 0 m))) as Hin by (apply in_rev; rewrite rev_involutive; apply in_seq; lia).
        pose proof (fold_max_ge _ _ Hin). lia. }
  split; [exact EM|]. rewrite EM.
  etransitivity; [|apply (map_nth_seq names [])]. fold m. apply map_ext_in. intros k Hk. apply in_seq in Hk.
  assert (In (k, nth k names []) auxs) as Hin by (unfold auxs; apply in_rev; rewrite rev_involutive; apply (in_combine_seq names [] 0 k); unfold m in Hk; lia).
  rewrite (find_key _ _ _ ND Hin). reflexivity.
Qed.

(* ---- assembly ---- *)
Lemma concat_opt_cons {A} (x : option (list A)) r l : concat_opt (x :: r) = Some l ->
  exists a b, x = Some a /\ concat_opt r = Some b /\ l = a ++ b.
Proof.
  unfold concat_opt. cbn [fold_right]. fold (concat_opt r). destruct x as [a|]; [|discriminate]. destruct (concat_opt r) as [b|]; [|discriminate].
  intros E. inversion E. exists a, b. repeat split.
Qed.

Lemma xloop_break h l r : xstep h l = XBreak -> xloop h (l :: r) = Some (h, r).
Proof. intros E. cbn [xloop]. rewrite E. reflexivity. Qed.

Definition goodn (l : str) : Prop := nocrlf l /\ l <> [].

Lemma h0_loop b h0l : h0_lines b = Some h0l -> forall h n0 rest, xh_n h = Some n0 ->
  let '((a11, a12, a13), (a21, a22, a23), (a31, a32, a33)) := b in
  xloop h (h0l ++ rest) =
  xloop (XHdr (xh_n h) (xh_A h)
          ([((3, 3), g8 a33); ((3, 2), g8 a32); ((3, 1), g8 a31); ((2, 3), g8 a23); ((2, 2), g8 a22); ((2, 1), g8 a21);
            ((1, 3), g8 a13); ((1, 2), g8 a12); ((1, 1), g8 a11)] ++ xh_H0 h) (xh_novel h) (xh_count h) (xh_aux h)) rest /\
  Forall goodn h0l.
Proof.
  destruct b as [[[[a11 a12] a13] [[a21 a22] a23]] [[a31 a32] a33]]. unfold h0_lines. cbn [map_opt fst snd].
  intros E h n0 rest Hn.
  repeat match type of E with context [render xcfg_w_H0 ?args] =>
    let l := fresh "l" in let El := fresh "El" in destruct (render xcfg_w_H0 args) as [l|] eqn:El; [|cbn in E; discriminate] end.
  cbn in E. inversion E; subst h0l. clear E.
  Ltac h0step El Hn := match type of El with render xcfg_w_H0 [AInt (Z.of_nat ?i); AInt (Z.of_nat ?j); ANum ?d] = Some ?l =>
    let S1 := fresh "S" in let N1 := fresh "N" in let N2 := fresh "N" in
    destruct (step_H0 i j d l _ _ ltac:(cbn; tauto) ltac:(cbn; tauto) El Hn) as [S1 [N1 N2]] end.
  change 1%Z with (Z.of_nat 1) in *. change 2%Z with (Z.of_nat 2) in *. change 3%Z with (Z.of_nat 3) in *.
  cbn [app].
  repeat match goal with El : render xcfg_w_H0 [AInt (Z.of_nat ?i); AInt (Z.of_nat ?j); ANum ?d] = Some ?l |- context [xloop ?hh (?l :: _)] =>
    let S1 := fresh "S" in let N1 := fresh "N" in let N2 := fresh "N" in
    destruct (step_H0 i j d l hh n0 ltac:(cbn; tauto) ltac:(cbn; tauto) El Hn) as [S1 [N1 N2]];
    rewrite (xloop_cont _ _ _ _ S1); clear S1 El end.
  split; [reflexivity|]. repeat (apply Forall_cons; [split; assumption|]). apply Forall_nil.
Qed.

Lemma goodx_goodn l : goodx l -> goodn l.
Proof. intros [H1 H2]. split; [exact H1|]. intros ->. apply H2. reflexivity. Qed.

Theorem roundtrip_xcfg St t : repr_xcfg St = true -> write_xcfg St = Some t -> read_xcfg t = Some (canon_xcfg St).
Proof.
  unfold repr_xcfg, write_xcfg. intros R W. apply andb_true_iff in R. destruct R as [R Hatoms]. apply andb_true_iff in R. destruct R as [Hne Hnames].
  destruct (print_xcfg St) as [lines|] eqn:EP; [|discriminate]. cbn [option_map] in W. inversion W; subst t. clear W.
  unfold print_xcfg in EP. destruct (c_atoms St) as [|a0 atoms'] eqn:EA; [discriminate|]. rewrite <- EA in *.
  set (cols := aux_columns St) in *.
  apply concat_opt_cons in EP. destruct EP as [x1 [r1 [E1 [EP ->]]]].
  apply concat_opt_cons in EP. destruct EP as [x2 [r2 [E2 [EP ->]]]].
  apply concat_opt_cons in EP. destruct EP as [h0l [r3 [E3 [EP ->]]]].
  apply concat_opt_cons in EP. destruct EP as [x4 [r4 [E4 [EP ->]]]].
  apply concat_opt_cons in EP. destruct EP as [x5 [r5 [E5 [EP ->]]]].
  apply concat_opt_cons in EP. destruct EP as [auxl [r6 [E6 [EP ->]]]].
  apply concat_opt_cons in EP. destruct EP as [x7 [r7 [E7 [EP ->]]]].
  apply concat_opt_cons in EP. destruct EP as [blk [r8 [E8 [EP ->]]]]. cbn in EP. inversion EP; subst r8. clear EP. rewrite app_nil_r.
  destruct (render xcfg_w_nparticles _) as [lnp|] eqn:Enp; [|discriminate]. inversion E1; subst x1. clear E1.
  destruct (render xcfg_w_A _) as [lA|] eqn:EAl; [|discriminate]. inversion E2; subst x2. clear E2.
  inversion E4; subst x4. clear E4.
  destruct (render xcfg_w_entry_count _) as [lcnt|] eqn:Ecnt; [|discriminate]. inversion E5; subst x5. clear E5.
  inversion E7; subst x7. clear E7.
  (* the data block starts with a mass line *)
  assert (Forall atom_ok (c_atoms St)) as Fok.
  { rewrite forallb_forall in Hatoms. apply Forall_forall. intros a Ha. specialize (Hatoms a Ha). apply andb_true_iff in Hatoms.
    destruct Hatoms as [H1 H2]. split; [exact H1|apply negb_true_iff; exact H2]. }
  destruct (data_block cols _ None blk Fok E8) as [DB GB]. cbn [option_map] in DB.
  assert (exists m rest, blk = m :: rest /\ render xcfg_w_mass [ANum (mass_of (c_el a0))] = Some m) as [m [rest [Eblk Em]]].
  { rewrite EA in E8. cbn [C04_Xcfg.atom_block] in E8.
    destruct (render xcfg_w_mass [ANum (mass_of (c_el a0))]) as [m|]; [|discriminate]. cbn [option_map] in E8.
    destruct (entry_line cols a0); [|discriminate]. destruct (C04_Xcfg.atom_block cols (Some (c_el a0)) atoms'); [|discriminate].
    inversion E8. eexists. eexists. split; reflexivity. }
  set (h0 := XHdr None None [] false None []).
  destruct (step_np _ _ h0 Enp eq_refl) as [S1 G1].
  destruct (step_A _ _ (set_n h0 (Z.of_nat (List.length (c_atoms St)))) _ EAl eq_refl) as [S2 G2].
  pose proof (h0_loop _ _ E3) as HL. destruct (c_base St) as [[[[a11 a12] a13] [[a21 a22] a23]] [[a31 a32] a33]] eqn:EB.
  set (h2 := set_A (set_n h0 (Z.of_nat (List.length (c_atoms St)))) (gqd (gprec xcfg_w_A 0) (c_A St))) in *.
  destruct (HL h2 _ ([xcfg_w_novel] ++ [lcnt] ++ auxl ++ [[]] ++ blk) eq_refl) as [S3 G3].
  match type of S3 with _ = xloop ?hh _ => set (h3 := hh) in * end.
  pose proof (step_novel h3 _ eq_refl) as S4.
  destruct (step_count _ _ (set_novel h3) _ Ecnt eq_refl) as [S5 G5].
  destruct (aux_loop cols 0 (set_count (set_novel h3) (3 + Z.of_nat (List.length cols))) _ auxl ([[]] ++ blk) Hnames eq_refl E6) as [S6 G6].
  match type of S6 with _ = xloop ?hh _ => set (h6 := hh) in * end.
  destruct (step_mass _ _ h6 _ (mass_nonneg _) Em eq_refl) as [S8 [_ [_ [Sm Fm]]]].
  (* text wrapper and trailing blank lines *)
  set (lines := [lnp] ++ [lA] ++ h0l ++ [xcfg_w_novel] ++ [lcnt] ++ auxl ++ [[]] ++ blk).
  assert (Forall nocrlf lines) as NC.
  { unfold lines. repeat (apply Forall_app; split); try (apply Forall_cons; [|apply Forall_nil]); try (apply G1 || apply G2 || apply G5);
    try (split; reflexivity).
    - eapply Forall_impl; [|exact G3]. intros l [H _]. exact H.
    - eapply Forall_impl; [|exact G6]. intros l [H _]. exact H.
    - eapply Forall_impl; [|exact GB]. intros l [H _]. exact H. }
  assert (exists pre y, lines = pre ++ [y] /\ goodx y) as [pre [y [Ely Gy]]].
  { assert (blk <> []) as Hb by (rewrite Eblk; discriminate). destruct (exists_last Hb) as [b' [y Eq]].
    exists ([lnp] ++ [lA] ++ h0l ++ [xcfg_w_novel] ++ [lcnt] ++ auxl ++ [[]] ++ b'), y. split.
    - unfold lines. rewrite Eq. rewrite <- !app_assoc. reflexivity.
    - rewrite Eq in GB. apply Forall_app in GB. destruct GB as [_ GB]. inversion GB. assumption. }
  unfold read_xcfg. match goal with |- context [text_of_lines ?L] => change L with lines end. rewrite Ely.
  destruct Gy as [Ny Ty].
  rewrite lines_text_roundtrip.
  2: { rewrite <- Ely. clear -NC. induction NC as [|x l [H _] _ IH]; [reflexivity|]. cbn. rewrite H, IH. reflexivity. }
  2: { apply last_ok_of_no_crlf; [intros ->; apply Ty; reflexivity|apply Ny|apply Ny]. }
  unfold parse_xcfg. rewrite rstrip_lines_last by (apply blank_false_of_tokens; exact Ty). rewrite <- Ely. unfold lines.
  (* the header loop *)
  cbn [app]. rewrite (xloop_cont _ _ _ _ S1), (xloop_cont _ _ _ _ S2). fold h2.
  change (h0l ++ xcfg_w_novel :: lcnt :: auxl ++ [] :: blk) with (h0l ++ [xcfg_w_novel] ++ [lcnt] ++ auxl ++ [[]] ++ blk). rewrite S3.
  cbn [app]. rewrite (xloop_cont _ _ _ _ S4), (xloop_cont _ _ _ _ S5).
  change (auxl ++ [] :: blk) with (auxl ++ [[]] ++ blk). rewrite S6. cbn [app]. rewrite (xloop_cont _ _ _ _ (step_blank h6)).
  rewrite Eblk. rewrite (xloop_break _ _ _ S8).
  (* what was collected *)
  unfold h6, add_auxs, set_count, set_novel, h3, h2, set_A, set_n, h0.
  cbn [xh_n xh_A xh_H0 xh_novel xh_count xh_aux app lookup_h0 find fst snd Nat.eqb andb].
  rewrite app_nil_r. rewrite <- (map_length fst cols).
  destruct (aux_names (map fst cols) (fun k => s (String.String "a" (String.String "u" (String.String "x" String.EmptyString))) ++ int_body (Z.of_nat k))) as [AN1 AN2].
  cbv zeta in AN1, AN2. rewrite AN1 in AN2. rewrite AN1, AN2. rewrite map_length.
  assert ((Z.of_nat (List.length cols) + 3 =? 3 + Z.of_nat (List.length cols))%Z = true) as -> by (apply Z.eqb_eq; lia).
  replace (3 + Z.of_nat (List.length cols))%Z with (Z.of_nat (3 + List.length cols)) by lia.
  rewrite <- (xdata_mass _ None m rest Sm Fm), <- Eblk, DB. rewrite map_length, Z.eqb_refl.
  unfold canon_xcfg. fold cols. rewrite EB. reflexivity.
Qed.
