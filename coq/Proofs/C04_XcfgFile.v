(* C04 - xcfg, whole file: reading the text the writer model produces yields canon (box size and H0 at 8 significant
   digits, auxiliary names, per atom the capitalised element and the entry fields at 8 significant digits). *)
From Coq Require Import List Bool Arith NArith ZArith Lia.
From Coq Require Import Ascii.
From DS Require Import Base.C04_Text Base.C04_Decimal Model.C04_Fmt Gen.C04_FmtSpecs Model.C04_Xyz Model.C04_Rawxyz Model.C04_Pdffit Model.C04_Pdb Model.C04_Xcfg.
From DS Require Import Proofs.C04_Fmt Proofs.C04_Xyz Proofs.C04_Lines Proofs.C04_Pdffit Proofs.C04_Pdb Proofs.C04_Xcfg.
Import ListNotations.
Local Close Scope N_scope.

Local Opaque fix_body int_body lpad rpad parse_float parse_int strip lstrip rstrip print_gen.

(* ---- tokens ---- *)
Definition tokp (b : str) : Prop := no_ws b = true /\ b <> [].

Lemma first_tok_sp_mid b r : tokp b -> first_tok (" "%char :: b ++ " "%char :: r) = Some b.
Proof. intros [H1 H2]. unfold first_tok. rewrite split_ws_cons by reflexivity. rewrite split_mid by reflexivity. rewrite (split_tok _ H1 H2). reflexivity. Qed.
Lemma first_tok_sp b : tokp b -> first_tok (" "%char :: b) = Some b.
Proof. intros [H1 H2]. unfold first_tok. rewrite split_ws_cons by reflexivity. rewrite (split_tok _ H1 H2). reflexivity. Qed.
Lemma first_tok_mid b r : tokp b -> first_tok (b ++ " "%char :: r) = Some b.
Proof. intros [H1 H2]. unfold first_tok. rewrite split_mid by reflexivity. rewrite (split_tok _ H1 H2). reflexivity. Qed.

Lemma tokp_int z : tokp (int_body z). Proof. exact (int_body_token z). Qed.
Lemma tokp_fix p d : tokp (fix_body p d). Proof. exact (fix_body_token p d). Qed.
Lemma tokp_gen P d b : print_gen P d = Some b -> tokp b.
Proof. intros E. destruct (field_body_ok (FGen P) (ANum d) b eq_refl E) as [B1 [B2 _]]. split; assumption. Qed.
Lemma gen_parse P d b : print_gen P d = Some b -> parse_float b = Some (gqd P d).
Proof.
  intros E. destruct (gen_roundtrip 0 _ _ _ E) as [R N]. rewrite lpad0 in R. rewrite R. unfold gqd. destruct (gq P d); [reflexivity|contradiction].
Qed.
Lemma is_nil_strip_tok b r : tokp b -> is_nil (strip (b ++ r)) = false.
Proof.
  intros [H1 H2]. apply blank_false_of_tokens. destruct b as [|c b']; [contradiction|]. intros E.
  assert (is_ws c = false) as Hc by (cbn in H1; apply andb_true_iff in H1; destruct H1 as [H1 _]; destruct (is_ws c); [discriminate|reflexivity]).
  pose proof (strip_nonblank c (b' ++ r) Hc) as K. change ((c :: b') ++ r) with (c :: (b' ++ r)) in E.
  assert (strip (c :: b' ++ r) = []) as Z.
  { destruct (strip (c :: b' ++ r)) as [|x y] eqn:Es; [reflexivity|]. exfalso. rewrite <- split_ws_strip, Es in E.
    pose proof (strip_starts (c :: b' ++ r)) as S1. rewrite Es in S1. cbn in S1.
    unfold split_ws in E. cbn [toks] in E. rewrite S1 in E. destruct (toks y); cbn in E; discriminate. }
  rewrite Z in K. discriminate.
Qed.

(* digits of a non-negative integer *)
Lemma int_body_nonneg k : int_body (Z.of_nat k) = map dchar (digitsN (N.of_nat k)).
Proof.
  Local Transparent int_body. unfold int_body. assert ((Z.of_nat k <? 0)%Z = false) as -> by (apply Z.ltb_ge; lia).
  cbn [sign_str app]. rewrite <- nat_N_Z, Zabs2N.id. reflexivity. Local Opaque int_body.
Qed.

Definition take_digits : str -> str :=
  fix take (l : str) : str := match l with c :: l' => match dval c with Some _ => c :: take l' | None => [] end | [] => [] end.
Lemma take_digits_spec ds c r : Forall lt10 ds -> dval c = None -> take_digits (map dchar ds ++ c :: r) = map dchar ds.
Proof.
  intros F Hc. induction F as [|k l Hk _ IH]; cbn [map app take_digits]; [rewrite Hc; reflexivity|].
  destruct (dchar_props k Hk) as [E _]. rewrite E. f_equal. exact IH.
Qed.

Lemma starts_with_app p r : starts_with p (p ++ r) = true.
Proof. induction p as [|a p IH]; [reflexivity|]. cbn. rewrite Ascii.eqb_refl. exact IH. Qed.
Lemma skipn_app_exact {A} (p r : list A) : skipn (List.length p) (p ++ r) = r.
Proof. induction p; [reflexivity|exact IHp]. Qed.

(* a line that begins with a digit matches none of the header keywords *)
Lemma starts_with_digit c0 p k t : dval c0 = None -> lt10 k -> starts_with (c0 :: p) (dchar k :: t) = false.
Proof.
  intros H0 Hk. cbn. destruct (Ascii.eqb c0 (dchar k)) eqn:E; [|reflexivity]. apply Ascii.eqb_eq in E. subst c0.
  destruct (dchar_props k Hk) as [E _]. rewrite E in H0. discriminate.
Qed.

Lemma nocrlf_cons c t : Ascii.eqb nl c = false -> Ascii.eqb cr c = false -> nocrlf t -> nocrlf (c :: t).
Proof. intros H1 H2 [A B]. split; [change (Ascii.eqb nl c || has_char nl t = false); rewrite H1, A|change (Ascii.eqb cr c || has_char cr t = false); rewrite H2, B]; reflexivity. Qed.
Lemma nocrlf_tokp b : tokp b -> nocrlf b.
Proof. intros [H _]. apply nocrlf_no_ws. exact H. Qed.
Ltac nocrlf_line :=
  repeat first [ exact nocrlf_nil | apply nocrlf_cons; [reflexivity|reflexivity|] | apply nocrlf_int | apply nocrlf_fix
               | apply nocrlf_tokp; assumption | apply nocrlf_no_ws; assumption | apply nocrlf_app ].

(* ---- header records ---- *)
Definition set_n h v := XHdr (Some v) (xh_A h) (xh_H0 h) (xh_novel h) (xh_count h) (xh_aux h).
Definition set_A h v := XHdr (xh_n h) (Some v) (xh_H0 h) (xh_novel h) (xh_count h) (xh_aux h).
Definition add_H0 h i j v := XHdr (xh_n h) (xh_A h) (((i, j), v) :: xh_H0 h) (xh_novel h) (xh_count h) (xh_aux h).
Definition set_novel h := XHdr (xh_n h) (xh_A h) (xh_H0 h) true (xh_count h) (xh_aux h).
Definition set_count h v := XHdr (xh_n h) (xh_A h) (xh_H0 h) (xh_novel h) (Some v) (xh_aux h).
Definition add_aux h k nm := XHdr (xh_n h) (xh_A h) (xh_H0 h) (xh_novel h) (xh_count h) ((k, nm) :: xh_aux h).

Lemma step_np n l h : render xcfg_w_nparticles [AInt n] = Some l -> xh_n h = None ->
  xstep h l = XCont (set_n h n) /\ nocrlf l /\ l <> [].
Proof.
  intros E Hn. cbn in E. injection E as E. subst l. rewrite lpad0, app_nil_r. split; [|split].
  - unfold xstep. cbn [app]. rewrite strip_nonblank by reflexivity. cbn [orb Ascii.eqb Bool.eqb]. rewrite Hn.
    cbn [starts_with xcfg_r_nparticles s String.list_ascii_of_string Ascii.eqb Bool.eqb andb skipn xcfg_r_nparticles_from].
    rewrite (first_tok_sp _ (tokp_int n)), int_body_parse. reflexivity.
  - cbn [app]. nocrlf_line.
  - discriminate.
Qed.

Lemma step_A d l h n0 : render xcfg_w_A [ANum d] = Some l -> xh_n h = Some n0 ->
  xstep h l = XCont (set_A h (gqd (gprec xcfg_w_A 0) d)) /\ nocrlf l /\ l <> [].
Proof.
  intros E Hn. cbn in E. destruct (print_gen 8 d) as [b|] eqn:Eb; [|discriminate]. injection E as E. subst l.
  pose proof (tokp_gen _ _ _ Eb) as Tb. split; [|split].
  - unfold xstep. cbn [app]. rewrite strip_nonblank by reflexivity. cbn [orb Ascii.eqb Bool.eqb]. rewrite Hn.
    cbn [starts_with xcfg_r_A s String.list_ascii_of_string Ascii.eqb Bool.eqb andb skipn xcfg_r_A_from].
    rewrite (first_tok_sp_mid _ _ Tb), (gen_parse _ _ _ Eb). unfold set_A. rewrite Hn. reflexivity.
  - cbn [app]. nocrlf_line.
  - discriminate.
Qed.

Local Transparent int_body.
Lemma int_body_123 : int_body 1 = ["1"%char] /\ int_body 2 = ["2"%char] /\ int_body 3 = ["3"%char].
Proof. repeat split; vm_compute; reflexivity. Qed.
Local Opaque int_body.

Lemma step_H0 (i j : nat) d l h n0 : In i [1; 2; 3] -> In j [1; 2; 3] ->
  render xcfg_w_H0 [AInt (Z.of_nat i); AInt (Z.of_nat j); ANum d] = Some l -> xh_n h = Some n0 ->
  xstep h l = XCont (add_H0 h i j (g8 d)) /\ nocrlf l /\ l <> [].
Proof.
  intros Hi Hj E Hn. cbn in E. destruct (print_gen 8 d) as [b|] eqn:Eb; [|discriminate]. injection E as E. subst l.
  pose proof (tokp_gen _ _ _ Eb) as Tb. rewrite !lpad0.
  destruct int_body_123 as [I1 [I2 I3]].
  cbn in Hi, Hj.
  destruct Hi as [<-|[<-|[<-|[]]]]; destruct Hj as [<-|[<-|[<-|[]]]]; cbn [Z.of_nat Pos.of_succ_nat Pos.succ]; rewrite ?I1, ?I2, ?I3;
  (split; [|split; [cbn [app]; nocrlf_line|discriminate]]);
  unfold xstep; cbn [app]; rewrite strip_nonblank by reflexivity; cbn [orb Ascii.eqb Bool.eqb]; rewrite Hn;
  cbn [starts_with xcfg_r_A xcfg_r_H0 s String.list_ascii_of_string Ascii.eqb Bool.eqb andb];
  unfold digit_at; cbn [nth xcfg_r_H0_cols nth_error skipn];
  change (dval "1"%char) with (Some 1%N); change (dval "2"%char) with (Some 2%N); change (dval "3"%char) with (Some 3%N);
  cbn [N.to_nat Pos.to_nat Pos.iter_op Nat.add Nat.leb andb];
  rewrite (first_tok_mid _ _ Tb), (gen_parse _ _ _ Eb); unfold add_H0; rewrite Hn; reflexivity.
Qed.

Lemma step_novel h n0 : xh_n h = Some n0 -> xstep h xcfg_w_novel = XCont (set_novel h).
Proof. intros Hn. unfold xstep. Local Transparent strip lstrip rstrip. cbn -[set_novel]. Local Opaque strip lstrip rstrip. rewrite Hn. unfold set_novel. rewrite Hn. reflexivity. Qed.

Lemma step_count n l h n0 : render xcfg_w_entry_count [AInt n] = Some l -> xh_n h = Some n0 ->
  xstep h l = XCont (set_count h n) /\ nocrlf l /\ l <> [].
Proof.
  intros E Hn. cbn in E. injection E as E. subst l. rewrite lpad0, app_nil_r. split; [|split; [cbn [app]; nocrlf_line|discriminate]].
  unfold xstep. cbn [app]. rewrite strip_nonblank by reflexivity. cbn [orb Ascii.eqb Bool.eqb]. rewrite Hn.
  cbn [starts_with xcfg_r_A xcfg_r_H0 xcfg_r_novel xcfg_r_entry_count s String.list_ascii_of_string Ascii.eqb Bool.eqb andb skipn xcfg_r_entry_count_from].
  rewrite (first_tok_sp _ (tokp_int n)), int_body_parse. unfold set_count. rewrite Hn. reflexivity.
Qed.

Lemma step_aux (k : nat) nm l h n0 : str_tok_ok nm = true -> render xcfg_w_auxiliary [AInt (Z.of_nat k); AStr nm] = Some l -> xh_n h = Some n0 ->
  xstep h l = XCont (add_aux h k nm) /\ nocrlf l /\ l <> [].
Proof.
  intros Hnm E Hn. destruct (str_tok_ok_parts _ Hnm) as [N1 [N2 _]]. cbn in E. injection E as E. subst l. rewrite !lpad0.
  split; [|split; [cbn [app]; nocrlf_line|discriminate]].
  unfold xstep. cbn [app]. rewrite strip_nonblank by reflexivity. cbn [orb Ascii.eqb Bool.eqb]. rewrite Hn.
  cbn [starts_with xcfg_r_A xcfg_r_H0 xcfg_r_novel xcfg_r_entry_count s String.list_ascii_of_string Ascii.eqb Bool.eqb andb].
  unfold aux_match. cbn [starts_with s String.list_ascii_of_string Ascii.eqb Bool.eqb andb List.length skipn].
  fold take_digits. rewrite int_body_nonneg.
  rewrite (take_digits_spec _ "]"%char _ (digitsN_lt10 _) eq_refl).
  rewrite skipn_app_exact.
  assert (nonempty (map dchar (digitsN (N.of_nat k))) = true) as ->.
  { pose proof (digitsN_nonnil (N.of_nat k)). destruct (digitsN (N.of_nat k)); [contradiction|reflexivity]. }
  cbn [andb starts_with Ascii.eqb Bool.eqb skipn]. rewrite <- int_body_nonneg, int_body_parse, Nat2Z.id.
  rewrite (first_tok_sp_mid nm _ (conj N1 N2)). unfold add_aux. rewrite Hn. reflexivity.
Qed.

Lemma step_blank h : xstep h [] = XCont h.
Proof. unfold xstep. Local Transparent strip lstrip rstrip. cbn. Local Opaque strip lstrip rstrip. reflexivity. Qed.

(* the first mass line ends the header loop (and is consumed) *)
Lemma fix_body_digit p d : dneg d = false -> exists k t, fix_body p d = dchar k :: t /\ lt10 k.
Proof.
  Local Transparent fix_body. intros Hn. unfold fix_body. destruct (fix_split p d) as [H1 [_ [H3 _]]]. rewrite Hn. unfold body_of. cbn [sign_str app].
  destruct (firstn _ _) as [|k r]; [contradiction|]. inversion H1; subst. exists k. eexists. split; [reflexivity|assumption]. Local Opaque fix_body.
Qed.

Lemma step_mass d l h n0 : dneg d = false -> render xcfg_w_mass [ANum d] = Some l -> xh_n h = Some n0 ->
  xstep h l = XBreak /\ nocrlf l /\ l <> [] /\ split_ws l = [l] /\ isfloat l = true.
Proof.
  intros Hd E Hn. cbn in E. injection E as E. subst l. rewrite lpad0, app_nil_r.
  destruct (fix_body_digit 4 d Hd) as [k [t [Ef Hk]]]. pose proof (tokp_fix 4 d) as [T1 T2].
  split; [|split; [apply nocrlf_fix|split; [exact T2|split; [apply split_tok; assumption|unfold isfloat; rewrite fix_body_parse; reflexivity]]]].
  unfold xstep. rewrite <- (app_nil_r (fix_body 4 d)) at 1. rewrite (is_nil_strip_tok _ _ (conj T1 T2)). rewrite Ef.
  destruct (dchar_props k Hk) as [Dk _].
  assert (Ascii.eqb (dchar k) "#"%char = false) as Hh.
  { destruct (Ascii.eqb (dchar k) "#"%char) eqn:Eh; [|reflexivity]. apply Ascii.eqb_eq in Eh. rewrite Eh in Dk. discriminate. }
  rewrite Hh. cbn [orb]. rewrite Hn.
  unfold xcfg_r_A, xcfg_r_H0, xcfg_r_novel, xcfg_r_entry_count, aux_match. cbn [s String.list_ascii_of_string].
  repeat match goal with |- context [starts_with (?c0 :: ?p) (dchar k :: t)] => rewrite (starts_with_digit c0 p k t eq_refl Hk) end. reflexivity.
Qed.

(* ---- data block ---- *)
Lemma masses_nonneg : forallb (fun kv => negb (dneg (snd kv))) xcfg_masses = true.
Proof. vm_compute. reflexivity. Qed.
Lemma mass_nonneg el : dneg (mass_of el) = false.
Proof.
  unfold mass_of. destruct (find _ xcfg_masses) as [kv|] eqn:E; [|reflexivity].
  apply find_some in E. destruct E as [Hin _]. pose proof masses_nonneg as M. rewrite forallb_forall in M.
  apply negb_true_iff. apply M. exact Hin.
Qed.

Lemma map_opt_length {A B} (f : A -> option B) l : forall r, map_opt f l = Some r -> List.length r = List.length l.
Proof.
  induction l as [|x l IH]; intros r E; cbn in E; [inversion E; reflexivity|].
  destruct (f x); [|discriminate]. destruct (map_opt f l) as [r'|]; [|discriminate]. inversion E; subst. cbn. f_equal. apply IH. reflexivity.
Qed.

Lemma nocrlf_join bs : Forall (fun t => no_ws t = true /\ t <> []) bs -> nocrlf (join [sp] bs).
Proof.
  induction 1 as [|t r [H1 _] Hr IH]; [exact nocrlf_nil|]. destruct r as [|t2 r'].
  - cbn [join]. apply nocrlf_no_ws. exact H1.
  - change (join [sp] (t :: t2 :: r')) with (t ++ [sp] ++ join [sp] (t2 :: r')).
    apply nocrlf_app; [apply nocrlf_no_ws; exact H1|]. apply nocrlf_app; [split; reflexivity|exact IH].
Qed.

Definition atom_ok (a : catom) : Prop := str_tok_ok (c_el a) = true /\ isfloat (c_el a) = false.
Definition canon_catom (cols : list (str * (catom -> dec))) (a : catom) : qcatom :=
  QAtom (capitalize (c_el a)) (let '(x, y, z) := c_pos a in map g8 ([x; y; z] ++ map (fun c => snd c a) cols)).
Definition goodx (l : str) : Prop := nocrlf l /\ split_ws l <> [].

(* one entry line, read in element state [Some e] *)
Lemma entry_read cols a e l t : entry_line cols a = Some l ->
  xdata (Z.of_nat (3 + List.length cols)) (Some e) (l :: t) =
  match xdata (Z.of_nat (3 + List.length cols)) (Some e) t with
  | Some r => Some (QAtom e (let '(x, y, z) := c_pos a in map g8 ([x; y; z] ++ map (fun c => snd c a) cols)) :: r)
  | None => None end /\ goodx l.
Proof.
  intros E. pose proof (roundtrip_xcfg_entry_partial _ _ _ E) as P. unfold entry_line in E.
  destruct (c_pos a) as [[x y] z]. destruct (map_opt gen8 _) as [bs|] eqn:Eb; [|discriminate]. cbn [option_map] in E. inversion E; subst l. clear E.
  destruct (map_gen8 _ _ Eb) as [F M]. pose proof (map_opt_length _ _ _ Eb) as L. rewrite app_length, map_length in L. cbn [List.length] in L.
  rewrite (split_join_sp _ F) in P. split.
  - cbn [xdata]. rewrite (split_join_sp _ F).
    destruct bs as [|b1 [|b2 bs']]; [cbn in L; lia|cbn in L; lia|].
    rewrite L. rewrite Z.eqb_refl. rewrite P. reflexivity.
  - split; [apply nocrlf_join; exact F|]. rewrite (split_join_sp _ F). destruct bs; [cbn in L; lia|discriminate].
Qed.

Lemma xdata_mass c el l r : split_ws l = [l] -> isfloat l = true -> xdata c el (l :: r) = xdata c el r.
Proof. intros H1 H2. cbn [xdata]. rewrite H1, H2. reflexivity. Qed.
Lemma xdata_el c el l r : split_ws l = [l] -> isfloat l = false -> xdata c el (l :: r) = xdata c (Some (capitalize (strip l))) r.
Proof. intros H1 H2. cbn [xdata]. rewrite H1, H2. reflexivity. Qed.

Lemma data_block cols : forall l prev ls, Forall atom_ok l -> C04_Xcfg.atom_block cols prev l = Some ls ->
  xdata (Z.of_nat (3 + List.length cols)) (option_map capitalize prev) ls = Some (map (canon_catom cols) l) /\ Forall goodx ls.
Proof.
  induction l as [|a r IH]; intros prev ls F E.
  - cbn in E. inversion E. split; [reflexivity|constructor].
  - inversion F as [|? ? [Hel Hnf] Fr]; subst. cbn [C04_Xcfg.atom_block] in E.
    destruct (entry_line cols a) as [e|] eqn:Ee; [|exfalso; repeat match type of E with context [match ?x with _ => _ end] => destruct x end; discriminate].
    destruct (C04_Xcfg.atom_block cols (Some (c_el a)) r) as [t|] eqn:Et; [|exfalso; repeat match type of E with context [match ?x with _ => _ end] => destruct x end; discriminate].
    destruct (IH _ _ Fr Et) as [IH1 IH2]. cbn [option_map] in IH1.
    destruct (str_tok_ok_parts _ Hel) as [N1 [N2 _]].
    destruct (match prev with Some p => str_eqb p (c_el a) | None => false end) eqn:Same.
    + (* same element as the previous atom: no mass / element lines *)
      destruct prev as [p|]; [|discriminate]. apply str_eqb_eq in Same. subst p. inversion E; subst ls. cbn [app option_map].
      destruct (entry_read cols a (capitalize (c_el a)) e t Ee) as [R G]. rewrite R, IH1. split; [reflexivity|constructor; assumption].
    + destruct (render xcfg_w_mass [ANum (mass_of (c_el a))]) as [m|] eqn:Em; [|discriminate]. cbn [option_map] in E. inversion E; subst ls. clear E.
      cbn [app]. destruct (step_mass _ _ (XHdr (Some 0%Z) None [] false None []) 0%Z (mass_nonneg _) Em eq_refl) as [_ [Nm [_ [Sm Fm]]]].
      rewrite (xdata_mass _ _ _ _ Sm Fm), (xdata_el _ _ _ _ (split_tok _ N1 N2) Hnf).
      assert (strip (c_el a) = c_el a) as -> by (apply strip_id; [apply no_ws_starts|apply no_ws_ends]; exact N1).
      destruct (entry_read cols a (capitalize (c_el a)) e t Ee) as [R G]. rewrite R, IH1. split; [reflexivity|].
      constructor; [split; [exact Nm|rewrite Sm; discriminate]|]. constructor; [split; [apply nocrlf_no_ws; exact N1|rewrite (split_tok _ N1 N2); discriminate]|].
      constructor; assumption.
Qed.

(* ---- the auxiliary records and the reconstruction of the column names ---- *)
Definition add_auxs h (l : list (nat * str)) := XHdr (xh_n h) (xh_A h) (xh_H0 h) (xh_novel h) (xh_count h) (rev l ++ xh_aux h).

Lemma xloop_cont h l r h' : xstep h l = XCont h' -> xloop h (l :: r) = xloop h' r.
Proof. intros E. cbn [xloop]. rewrite E. reflexivity. Qed.

Lemma aux_loop (cols : list (str * (catom -> dec))) : forall start h n0 auxl rest,
  forallb (fun nm => str_tok_ok nm) (map fst cols) = true -> xh_n h = Some n0 ->
  map_opt (fun ic => render xcfg_w_auxiliary [AInt (Z.of_nat (fst ic)); AStr (fst (snd ic))]) (combine (seq start (List.length cols)) cols) = Some auxl ->
  xloop h (auxl ++ rest) = xloop (add_auxs h (combine (seq start (List.length cols)) (map fst cols))) rest /\
  Forall (fun l => nocrlf l /\ l <> []) auxl.
Proof.
  induction cols as [|[nm f] cols IH]; intros start h n0 auxl rest Hok Hn E.
  - cbn in E. inversion E. split; [destruct h; reflexivity|constructor].
  - cbn [List.length seq combine map_opt fst snd map forallb] in *. apply andb_true_iff in Hok. destruct Hok as [Hnm Hok].
    destruct (render xcfg_w_auxiliary [AInt (Z.of_nat start); AStr nm]) as [l|] eqn:El; [|discriminate].
    destruct (map_opt _ (combine (seq (S start) (List.length cols)) cols)) as [auxl'|] eqn:Er; [|discriminate]. inversion E; subst auxl. clear E.
    destruct (step_aux start nm l h n0 Hnm El Hn) as [S1 [N1 N2]].
    destruct (IH (S start) (add_aux h start nm) n0 auxl' rest Hok Hn Er) as [I1 I2].
    split; [|constructor; [split; assumption|exact I2]].
    cbn [app]. rewrite (xloop_cont _ _ _ _ S1), I1. f_equal. unfold add_auxs, add_aux. cbn [xh_n xh_A xh_H0 xh_novel xh_count xh_aux rev].
    rewrite <- app_assoc. reflexivity.
Qed.

Lemma find_key {V} (l : list (nat * V)) k v : NoDup (map fst l) -> In (k, v) l -> find (fun e => (fst e =? k)%nat) l = Some (k, v).
Proof.
  induction l as [|[k' v'] l IH]; intros ND Hin; [destruct Hin|]. cbn [map fst] in ND. inversion ND as [|? ? Hni ND']; subst.
  cbn [find fst]. destruct Hin as [Eq|Hin].
  - inversion Eq; subst. rewrite Nat.eqb_refl. reflexivity.
  - destruct (k' =? k)%nat eqn:E; [|apply IH; assumption]. apply Nat.eqb_eq in E. subst k'. exfalso. apply Hni.
    apply in_map_iff. exists (k, v). split; [reflexivity|exact Hin].
Qed.

Lemma map_fst_combine_seq {V} (names : list V) start : map fst (combine (seq start (List.length names)) names) = seq start (List.length names).
Proof. revert start. induction names as [|x r IH]; intros start; [reflexivity|]. cbn. f_equal. apply IH. Qed.

Lemma in_combine_seq {V} (names : list V) d start k : (k < List.length names)%nat ->
  In (start + k, nth k names d) (combine (seq start (List.length names)) names).
Proof.
  revert start k. induction names as [|x r IH]; intros start k H; [cbn in H; lia|]. cbn [List.length seq combine]. destruct k as [|k].
  - left. rewrite Nat.add_0_r. reflexivity.
  - right. replace (start + S k) with (S start + k) by lia. apply IH. cbn in H. lia.
Qed.

Lemma fold_max_le l m : (forall x, In x l -> x <= m) -> fold_right Nat.max 0 l <= m.
Proof. induction l as [|x r IH]; intros H; [cbn; lia|]. cbn. apply Nat.max_lub; [apply H; left; reflexivity|apply IH; intros y Hy; apply H; right; exact Hy]. Qed.
Lemma fold_max_ge l x : In x l -> x <= fold_right Nat.max 0 l.
Proof. induction l as [|y r IH]; intros H; [destruct H|]. cbn. destruct H as [->|H]; [apply Nat.le_max_l|]. etransitivity; [apply IH; exact H|apply Nat.le_max_r]. Qed.

Lemma aux_names (names : list str) (dflt : nat -> str) :
  let auxs := rev (combine (seq 0 (List.length names)) names) in
  let auxnum := match auxs with [] => O | _ => S (fold_right Nat.max O (map fst auxs)) end in
  auxnum = List.length names /\
  map (fun k => match find (fun e => (fst e =? k)%nat) auxs with Some e => snd e | None => dflt k end) (seq 0 auxnum) = names.
Proof.
  intros auxs auxnum. set (m := List.length names) in *.
  assert (map fst auxs = rev (seq 0 m)) as MF by (unfold auxs, m; rewrite map_rev, map_fst_combine_seq; reflexivity).
  assert (NoDup (map fst auxs)) as ND by (rewrite MF; apply NoDup_rev; apply seq_NoDup).
  assert (auxnum = m) as EM.
  { unfold auxnum. destruct names as [|x r] eqn:En; [reflexivity|]. rewrite <- En in *.
    assert (m = S (List.length r)) as Hm by (unfold m; rewrite En; reflexivity).
    destruct auxs as [|e es] eqn:Ea.
    - exfalso. apply (f_equal (@List.length _)) in Ea. unfold auxs in *. rewrite rev_length, combine_length, seq_length in Ea. fold m in Ea. rewrite Nat.min_id in Ea. cbn in Ea. lia.
    - rewrite <- Ea in *. rewrite MF. f_equal.
      apply Nat.le_antisymm.
      + apply fold_max_le. intros x0 Hx. apply in_rev in Hx. apply in_seq in Hx. lia.
      + assert (In (List.length r) (rev (seq 0 m))) as Hin by (apply in_rev; rewrite rev_involutive; apply in_seq; lia).
        pose proof (fold_max_ge _ _ Hin). lia. }
  split; [exact EM|]. rewrite EM.
  apply nth_ext with (d := []) (d' := []); [rewrite map_length, seq_length; reflexivity|].
  intros k Hk. rewrite map_length, seq_length in Hk.
  rewrite (nth_indep _ [] ((fun k0 => match find (fun e => (fst e =? k0)%nat) auxs with Some e => snd e | None => dflt k0 end) 0))
    by (rewrite map_length, seq_length; exact Hk).
  rewrite map_nth, seq_nth by exact Hk. cbn [Nat.add].
  assert (In (k, nth k names []) auxs) as Hin by (unfold auxs; apply in_rev; rewrite rev_involutive; exact (in_combine_seq names [] 0 k Hk)).
  rewrite (find_key _ _ _ ND Hin). reflexivity.
Qed.
