(* C04 - xcfg, whole file: reading the text the writer model produces yields canon (box size and H0 at 8 significant
   digits, auxiliary names, per atom the capitalised element and the entry fields at 8 significant digits). *)
From Coq Require Import List Bool Arith NArith ZArith Lia.
From Coq Require Import Ascii.
From DS Require Import Base.C04_Text Base.C04_Decimal Model.C04_Fmt Gen.C04_FmtSpecs Model.C04_Xyz Model.C04_Rawxyz Model.C04_Pdffit Model.C04_Pdb Model.C04_Xcfg.
From DS Require Import Proofs.C04_Fmt Proofs.C04_Xyz Proofs.C04_Lines Proofs.C04_Pdffit Proofs.C04_Pdb Proofs.C04_Xcfg.
Import ListNotations.
Local Close Scope N_scope.

Local Opaque fix_body int_body lpad rpad parse_float parse_int strip lstrip rstrip print_gen.

(* ---- tokens ---- *)
Definition tokp (b : str) : Prop := no_ws b = true /\ b <> [].

Lemma first_tok_sp_mid b r : tokp b -> first_tok (sp :: b ++ sp :: r) = Some b.
Proof. intros [H1 H2]. unfold first_tok. rewrite split_ws_cons by reflexivity. rewrite split_mid by reflexivity. rewrite (split_tok _ H1 H2). reflexivity. Qed.
Lemma first_tok_sp b : tokp b -> first_tok (sp :: b) = Some b.
Proof. intros [H1 H2]. unfold first_tok. rewrite split_ws_cons by reflexivity. rewrite (split_tok _ H1 H2). reflexivity. Qed.
Lemma first_tok_mid b r : tokp b -> first_tok (b ++ sp :: r) = Some b.
Proof. intros [H1 H2]. unfold first_tok. rewrite split_mid by reflexivity. rewrite (split_tok _ H1 H2). reflexivity. Qed.

Lemma tokp_int z : tokp (int_body z). Proof. exact (int_body_token z). Qed.
Lemma tokp_fix p d : tokp (fix_body p d). Proof. exact (fix_body_token p d). Qed.
Lemma tokp_gen P d b : print_gen P d = Some b -> tokp b.
Proof. intros E. destruct (field_body_ok (FGen P) (ANum d) b eq_refl E) as [B1 [B2 _]]. split; assumption. Qed.
Lemma gen_parse P d b : print_gen P d = Some b -> parse_float b = Some (gqd P d).
Proof.
  intros E. destruct (gen_roundtrip 0 _ _ _ E) as [R N]. rewrite lpad0 in R. rewrite R. unfold gqd. destruct (gq P d); [reflexivity|contradiction].
Qed.
Lemma is_nil_strip_tok b r : tokp b -> is_nil (strip (b ++ r)) = false.
Proof.
  intros [H1 H2]. apply blank_false_of_tokens. destruct b as [|c b']; [contradiction|]. intros E.
  assert (is_ws c = false) as Hc by (cbn in H1; apply andb_true_iff in H1; destruct H1 as [H1 _]; destruct (is_ws c); [discriminate|reflexivity]).
  pose proof (strip_nonblank c (b' ++ r) Hc) as K. change ((c :: b') ++ r) with (c :: (b' ++ r)) in E.
  assert (strip (c :: b' ++ r) = []) as Z.
  { destruct (strip (c :: b' ++ r)) as [|x y] eqn:Es; [reflexivity|]. exfalso. rewrite <- split_ws_strip, Es in E.
    pose proof (strip_starts (c :: b' ++ r)) as S1. rewrite Es in S1. cbn in S1.
    unfold split_ws in E. cbn [toks] in E. rewrite S1 in E. destruct (toks y); cbn in E; discriminate. }
  rewrite Z in K. discriminate.
Qed.

(* digits of a non-negative integer *)
Lemma int_body_nonneg k : int_body (Z.of_nat k) = map dchar (digitsN (N.of_nat k)).
Proof.
  Local Transparent int_body. unfold int_body. assert ((Z.of_nat k <? 0)%Z = false) as -> by (apply Z.ltb_ge; lia).
  cbn [sign_str app]. rewrite <- nat_N_Z, Zabs2N.id. reflexivity. Local Opaque int_body.
Qed.

Definition take_digits : str -> str :=
  fix take (l : str) : str := match l with c :: l' => match dval c with Some _ => c :: take l' | None => [] end | [] => [] end.
Lemma take_digits_spec ds c r : Forall lt10 ds -> dval c = None -> take_digits (map dchar ds ++ c :: r) = map dchar ds.
Proof.
  intros F Hc. induction F as [|k l Hk _ IH]; cbn [map app take_digits]; [rewrite Hc; reflexivity|].
  destruct (dchar_props k Hk) as [E _]. rewrite E. f_equal. exact IH.
Qed.

Lemma starts_with_app p r : starts_with p (p ++ r) = true.
Proof. induction p as [|a p IH]; [reflexivity|]. cbn. rewrite Ascii.eqb_refl. exact IH. Qed.
Lemma skipn_app_exact {A} (p r : list A) : skipn (List.length p) (p ++ r) = r.
Proof. induction p; [reflexivity|exact IHp]. Qed.

(* a line that begins with a digit matches none of the header keywords *)
Lemma starts_with_digit c0 p k t : dval c0 = None -> lt10 k -> starts_with (c0 :: p) (dchar k :: t) = false.
Proof.
  intros H0 Hk. cbn. destruct (Ascii.eqb c0 (dchar k)) eqn:E; [|reflexivity]. apply Ascii.eqb_eq in E. subst c0.
  destruct (dchar_props k Hk) as [E _]. rewrite E in H0. discriminate.
Qed.

(* ---- header records ---- *)
Definition set_n h v := XHdr (Some v) (xh_A h) (xh_H0 h) (xh_novel h) (xh_count h) (xh_aux h).
Definition set_A h v := XHdr (xh_n h) (Some v) (xh_H0 h) (xh_novel h) (xh_count h) (xh_aux h).
Definition add_H0 h i j v := XHdr (xh_n h) (xh_A h) (((i, j), v) :: xh_H0 h) (xh_novel h) (xh_count h) (xh_aux h).
Definition set_novel h := XHdr (xh_n h) (xh_A h) (xh_H0 h) true (xh_count h) (xh_aux h).
Definition set_count h v := XHdr (xh_n h) (xh_A h) (xh_H0 h) (xh_novel h) (Some v) (xh_aux h).
Definition add_aux h k nm := XHdr (xh_n h) (xh_A h) (xh_H0 h) (xh_novel h) (xh_count h) ((k, nm) :: xh_aux h).

Lemma step_np n l h : render xcfg_w_nparticles [AInt n] = Some l -> xh_n h = None ->
  xstep h l = XCont (set_n h n) /\ nocrlf l /\ l <> [].
Proof.
  intros E Hn. cbn in E. injection E as E. subst l. rewrite lpad0, app_nil_r. split; [|split].
  - unfold xstep. cbn [app]. rewrite strip_nonblank by reflexivity. cbn [orb Ascii.eqb Bool.eqb]. rewrite Hn.
    cbn [starts_with xcfg_r_nparticles s String.list_ascii_of_string Ascii.eqb Bool.eqb andb skipn xcfg_r_nparticles_from].
    rewrite (first_tok_sp _ (tokp_int n)), int_body_parse. reflexivity.
  - apply nocrlf_app; [split; reflexivity|apply nocrlf_int].
  - discriminate.
Qed.

Lemma step_A d l h n0 : render xcfg_w_A [ANum d] = Some l -> xh_n h = Some n0 ->
  xstep h l = XCont (set_A h (gqd (gprec xcfg_w_A 0) d)) /\ nocrlf l /\ l <> [].
Proof.
  intros E Hn. cbn in E. destruct (print_gen 8 d) as [b|] eqn:Eb; [|discriminate]. injection E as E. subst l.
  pose proof (tokp_gen _ _ _ Eb) as Tb. split; [|split].
  - unfold xstep. cbn [app]. rewrite strip_nonblank by reflexivity. cbn [orb Ascii.eqb Bool.eqb]. rewrite Hn.
    cbn [starts_with xcfg_r_A s String.list_ascii_of_string Ascii.eqb Bool.eqb andb skipn xcfg_r_A_from].
    rewrite (first_tok_sp_mid _ _ Tb), (gen_parse _ _ _ Eb). reflexivity.
  - apply nocrlf_app; [split; reflexivity|]. apply nocrlf_app; [apply nocrlf_no_ws; apply Tb|split; reflexivity].
  - discriminate.
Qed.

Lemma step_H0 (i j : nat) d l h n0 : In i [1; 2; 3] -> In j [1; 2; 3] ->
  render xcfg_w_H0 [AInt (Z.of_nat i); AInt (Z.of_nat j); ANum d] = Some l -> xh_n h = Some n0 ->
  xstep h l = XCont (add_H0 h i j (g8 d)) /\ nocrlf l /\ l <> [].
Proof.
  intros Hi Hj E Hn. cbn in E. destruct (print_gen 8 d) as [b|] eqn:Eb; [|discriminate]. injection E as E. subst l.
  pose proof (tokp_gen _ _ _ Eb) as Tb. rewrite !lpad0.
  assert (forall k, In k [1; 2; 3] -> exists c, int_body (Z.of_nat k) = [c] /\ dval c = Some (N.of_nat k) /\ nocrlf [c]) as K.
  { Local Transparent int_body. intros k Hk. cbn in Hk. destruct Hk as [<-|[<-|[<-|[]]]]; eexists; (split; [vm_compute; reflexivity|split; [reflexivity|split; reflexivity]]).
    Local Opaque int_body. }
  destruct (K i Hi) as [ci [Ei [Di Ni]]]. destruct (K j Hj) as [cj [Ej [Dj Nj]]]. rewrite Ei, Ej. split; [|split].
  - unfold xstep. cbn [app]. rewrite strip_nonblank by reflexivity. cbn [orb Ascii.eqb Bool.eqb]. rewrite Hn.
    cbn [starts_with xcfg_r_A xcfg_r_H0 s String.list_ascii_of_string Ascii.eqb Bool.eqb andb].
    unfold digit_at. cbn [nth xcfg_r_H0_cols nth_error skipn]. rewrite Di, Dj. rewrite !Nat2N.id.
    assert (((1 <=? i) && (i <=? 3) && (1 <=? j) && (j <=? 3))%nat = true) as ->.
    { cbn in Hi, Hj. destruct Hi as [<-|[<-|[<-|[]]]]; destruct Hj as [<-|[<-|[<-|[]]]]; reflexivity. }
    rewrite (first_tok_mid _ _ Tb), (gen_parse _ _ _ Eb). reflexivity.
  - cbn [app]. change (?a :: ?b :: ?c :: ci :: ?r) with ([a; b; c] ++ [ci] ++ r).
    apply nocrlf_app; [split; reflexivity|]. apply nocrlf_app; [exact Ni|]. cbn [app].
    match goal with |- nocrlf (?a :: cj :: ?r) => change (a :: cj :: r) with ([a] ++ [cj] ++ r) end.
    apply nocrlf_app; [split; reflexivity|]. apply nocrlf_app; [exact Nj|]. cbn [app].
    match goal with |- nocrlf (?a :: ?b' :: ?c :: ?d' :: b ++ ?r) => change (a :: b' :: c :: d' :: b ++ r) with ([a; b'; c; d'] ++ b ++ r) end.
    apply nocrlf_app; [split; reflexivity|]. apply nocrlf_app; [apply nocrlf_no_ws; apply Tb|split; reflexivity].
  - discriminate.
Qed.
