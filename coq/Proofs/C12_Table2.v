(* C12 - detection on the texts of the pdb, xcfg and cif writers: the four modelled parsers (xyz, rawxyz, pdffit, discus)
   reject them by theorem; the text's own parser and the two other unmodelled parsers are given (`others`). *)
From Coq Require Import List Bool Arith ZArith Lia.
From DS Require Import Base.C13_Exn Proofs.C13_ExnLemmas Gen.C12_ParserIndex Model.C12_Auto Proofs.C12_Auto.
From DS Require Import Base.C04_Text Base.C04_Decimal Model.C04_Fmt Model.C04_Pdb Model.C04_Xcfg Model.C04_Cif.
From DS Require Import Model.C12_Conc Proofs.C12_RejectBase Proofs.C12_RejectCells Proofs.C12_RejectCellsPdb Proofs.C12_RejectCellsXcfg
                       Proofs.C12_RejectCellsCif Proofs.C12_Table.
From Coq Require Import Ascii String.
Import ListNotations.
Close Scope N_scope.
Open Scope nat_scope.
Open Scope string_scope.

Arguments catches : simpl never.

Section Table2.
  Variable lattice_of : list dec -> res unit.
  Variable mulZ : dec -> Z -> res dec.
  Variable set_lat_par : list (list dec) -> list dec -> res unit.
  Variable cell_pars : list (list dec) -> list dec.
  Hypothesis lattice_kinds : forall l, within [ValueError; ZeroDivisionError] (lattice_of l).
  Hypothesis mulZ_kinds : forall v z, within [OverflowError] (mulZ v z).
  Hypothesis set_lat_par_kinds : forall h l, within [ValueError; ZeroDivisionError] (set_lat_par h l).

  Let tp := table_parser lattice_of mulZ set_lat_par cell_pars.

  (* the four modelled parsers reject the text *)
  Definition four_reject (ls : list str) : Prop :=
    conc_xyz ls = Raise FormatError /\ rejected (conc_rawxyz ls) /\ conc_pdffit lattice_of mulZ ls = Raise FormatError /\
    rejected (conc_discus lattice_of mulZ set_lat_par cell_pars ls).

  Lemma auto_written_other : forall ls others fn f g1 g2 n,
    four_reject ls -> In f ["cif"; "pdb"; "xcfg"] -> In g1 ["cif"; "pdb"; "xcfg"] -> In g2 ["cif"; "pdb"; "xcfg"] ->
    f <> g1 -> f <> g2 -> g1 <> g2 ->
    others f = Ok (Some n) -> rejects others g1 -> rejects others g2 -> auto (tp ls others) fn = AOk f n.
  Proof.
    intros ls others fn f g1 g2 n [Hx [Hr [Hp Hd]]] Hf Hg1 Hg2 N1 N2 N3 Hown R1 R2.
    assert (Hoth : forall g, In g ["cif"; "pdb"; "xcfg"] -> tp ls others g = others g).
    { intros g Hg. cbn [In] in Hg. destruct Hg as [<- | [<- | [<- | []]]]; reflexivity. }
    assert (Hrej : forall g, In g ["cif"; "pdb"; "xcfg"] -> g <> f -> rejects (tp ls others) g).
    { intros g Hg Hne. unfold rejects. rewrite (Hoth g Hg).
      cbn [In] in Hf, Hg1, Hg2, Hg.
      destruct Hf as [<- | [<- | [<- | []]]]; destruct Hg1 as [<- | [<- | [<- | []]]]; try congruence;
      destruct Hg2 as [<- | [<- | [<- | []]]]; try congruence;
      destruct Hg as [<- | [<- | [<- | []]]]; try congruence; assumption. }
    apply auto_on_written_text.
    - rewrite base_formats_are. cbn [In] in Hf |- *. tauto.
    - rewrite (Hoth f Hf). exact Hown.
    - intros g Hg Hne. rewrite base_formats_are in Hg. cbn [In] in Hg.
      destruct Hg as [<- | [<- | [<- | [<- | [<- | [<- | [<- | []]]]]]]].
      + apply Hrej; [cbn; tauto | exact Hne].
      + eapply rejected_rejects; [reflexivity | exact Hd].
      + apply Hrej; [cbn; tauto | exact Hne].
      + eapply rejected_rejects; [reflexivity | left; exact Hp].
      + eapply rejected_rejects; [reflexivity | exact Hr].
      + apply Hrej; [cbn; tauto | exact Hne].
      + eapply rejected_rejects; [reflexivity | left; exact Hx].
  Qed.

  Theorem four_reject_pdb : forall St ls, print_pdb St = Some ls -> four_reject ls.
  Proof.
    intros St ls H. repeat split.
    - eapply cell_xyz_pdb; eassumption.
    - eapply cell_rawxyz_pdb; eassumption.
    - eapply cell_pdffit_pdb; eassumption.
    - eapply cell_discus_pdb; eassumption.
  Qed.

  Theorem four_reject_xcfg : forall St ls, repr_xcfg St = true -> xcfg_elements_not_cell St = true -> print_xcfg St = Some ls -> four_reject ls.
  Proof.
    intros St ls R Hc H. repeat split.
    - eapply cell_xyz_xcfg; eassumption.
    - eapply cell_rawxyz_xcfg; eassumption.
    - eapply cell_pdffit_xcfg; eassumption.
    - eapply cell_discus_xcfg; eassumption.
  Qed.

  Theorem four_reject_cif : forall St ls, cif_elements_plain St = true -> print_cif St = Some ls -> four_reject ls.
  Proof.
    intros St ls Hc H. repeat split.
    - eapply cell_xyz_cif; eassumption.
    - eapply cell_rawxyz_cif; eassumption.
    - eapply cell_pdffit_cif; eassumption.
    - eapply cell_discus_cif; eassumption.
  Qed.

  Theorem auto_written_pdb : forall St ls others fn n, print_pdb St = Some ls ->
    others "pdb" = Ok (Some n) -> rejects others "cif" -> rejects others "xcfg" -> auto (tp ls others) fn = AOk "pdb" n.
  Proof.
    intros St ls others fn n H Hown R1 R2.
    eapply (auto_written_other ls others fn "pdb" "cif" "xcfg" n (four_reject_pdb _ _ H)); try (cbn; tauto); try discriminate; assumption.
  Qed.

  Theorem auto_written_xcfg : forall St ls others fn n, repr_xcfg St = true -> xcfg_elements_not_cell St = true -> print_xcfg St = Some ls ->
    others "xcfg" = Ok (Some n) -> rejects others "cif" -> rejects others "pdb" -> auto (tp ls others) fn = AOk "xcfg" n.
  Proof.
    intros St ls others fn n R Hc H Hown R1 R2.
    eapply (auto_written_other ls others fn "xcfg" "cif" "pdb" n (four_reject_xcfg _ _ R Hc H)); try (cbn; tauto); try discriminate; assumption.
  Qed.

  Theorem auto_written_cif : forall St ls others fn n, cif_elements_plain St = true -> print_cif St = Some ls ->
    others "cif" = Ok (Some n) -> rejects others "pdb" -> rejects others "xcfg" -> auto (tp ls others) fn = AOk "cif" n.
  Proof.
    intros St ls others fn n Hc H Hown R1 R2.
    eapply (auto_written_other ls others fn "cif" "pdb" "xcfg" n (four_reject_cif _ _ Hc H)); try (cbn; tauto); try discriminate; assumption.
  Qed.
End Table2.
