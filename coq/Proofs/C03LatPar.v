(* C03, lattice-compatibility clause, for all real cells. *)
From Coq Require Import ZArith Reals List Bool String.
From DS Require Import Base.ZMat Base.SGDefs Model.LatRuleDefs Model.LatRule Proofs.LatRuleSound Gen.SGTables Gen.LatRules.
Import ListNotations.

Lemma latpar_accepts_b : forallb (latpar_accepts_ok rule_table) all_settings = true.
Proof. vm_compute. reflexivity. Qed.

Lemma ops_nonempty_b : forallb (fun s => negb (Nat.eqb (List.length (sg_ops s)) 0)) all_settings = true.
Proof. vm_compute. reflexivity. Qed.

(* every cell left invariant by all operations of a tabulated setting is accepted by the rule the code applies *)
Lemma latpar_accepts_invariant : forall st c,
  In st all_settings -> valid_cell c -> (forall o, In o (sg_ops st) -> invariant (fst o) c) ->
  exists r, lookup_rule rule_table (sg_system st) = Some r /\ interp r c.
Proof.
  intros st c Hin Hv Hinv.
  pose proof latpar_accepts_b as H. rewrite forallb_forall in H. specialize (H st Hin).
  pose proof ops_nonempty_b as N. rewrite forallb_forall in N. specialize (N st Hin).
  unfold latpar_accepts_ok in H. destruct (lookup_rule rule_table (sg_system st)) as [r|]; [|discriminate].
  exists r. split; [reflexivity|].
  apply (rule_check_sound (map fst (sg_ops st)) r c); try assumption.
  - destruct (sg_ops st); [discriminate | cbn; discriminate].
  - intros R HR. apply in_map_iff in HR as [o [<- Ho]]. apply Hinv. exact Ho.
Qed.

Lemma rejects_lower_b : rejects_lower_ok rule_table = true.
Proof. vm_compute. reflexivity. Qed.
Lemma accepts_own_b : accepts_own_ok rule_table = true.
Proof. vm_compute. reflexivity. Qed.

(* generic cells of a strictly lower system are rejected, as real-number statements *)
Lemma rejects_lower : forall zc syss sys r, In (zc, syss) generic_cells -> In sys syss ->
  lookup_rule rule_table sys = Some r -> ~ interp r (cell_of_z zc).
Proof.
  intros zc syss sys r H1 H2 H3 Hi. apply evalz_spec in Hi.
  pose proof rejects_lower_b as H. unfold rejects_lower_ok in H. rewrite forallb_forall in H.
  specialize (H _ H1). cbn [fst snd] in H. rewrite forallb_forall in H. specialize (H _ H2).
  rewrite H3, Hi in H. discriminate.
Qed.
