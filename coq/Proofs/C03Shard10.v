(* Kernel decision of the group axioms for shard 10 of the regenerated tables. *)
From Coq Require Import ZArith List Bool.
From DS Require Import Base.ZMat Base.SGDefs Model.GroupCheck Gen.SGTables10.
Lemma shard10_groups : forallb setting_group_ok shard10 = true.
Proof. vm_compute. reflexivity. Qed.
