(* C08 - the payload-only operations: whole-column assignment, assignUniqueLabels, column reads, composition,
   getLastAtom never touch an identity or a lattice reference; sort only permutes the atom objects *)
From Coq Require Import List ZArith Bool Arith Lia Permutation Sorted.
From DS Require Import Model.C08_StructHeap Proofs.C08_Lists Proofs.C08_Prims Proofs.C08_Inv Proofs.C08_Step Proofs.C08_Spec.
Import ListNotations.
Open Scope nat_scope.

Definition payload_only (o : op) : bool :=
  match o with
  | SetCol _ _ _ | AssignUniqueLabels _ | GetLast _ | GetCol _ _ | Composition _ => true
  | _ => false
  end.

Definition same_identities (w w' : world) : Prop :=
  objs w' = objs w /\ nlat w' = nlat w /\ length (heap w') = length (heap w) /\
  (forall a, lat_of w' a = lat_of w a) /\ g_repoint w' = g_repoint w /\ g_dup w' = g_dup w.

Lemma same_identities_refl : forall w, same_identities w w.
Proof. intros; unfold same_identities; repeat split; auto. Qed.

Lemma set_cell_tag_same : forall a f w, same_identities w (set_cell_tag a f w).
Proof.
  intros. unfold same_identities, set_cell_tag. simpl.
  split; [reflexivity|]. split; [reflexivity|]. split; [apply upd_nth_length|]. split; [|split; reflexivity].
  - intros b. unfold lat_of. simpl. destruct (Nat.eq_dec a b).
    + subst. destruct (nth_error (heap w) b) eqn:E.
      * erewrite nth_error_upd_nth_eq; eauto. reflexivity.
      * assert (nth_error (upd_nth b (fun c => mkCell (f (c_tag c)) (c_lat c)) (heap w)) b = None).
        { apply nth_error_None. rewrite upd_nth_length. apply nth_error_None. auto. } rewrite H. auto.
    + rewrite nth_error_upd_nth_neq; auto.
Qed.

Lemma same_identities_trans : forall a b c, same_identities a b -> same_identities b c -> same_identities a c.
Proof.
  intros a b c [A1 [A2 [A3 [A4 [A5 A6]]]]] [B1 [B2 [B3 [B4 [B5 B6]]]]]. unfold same_identities. repeat split; try congruence; intros x; rewrite B4; auto.
Qed.

Lemma set_tags_same : forall c prs w, same_identities w (set_tags c prs w).
Proof.
  induction prs as [|[a t] r]; simpl; intros; [apply same_identities_refl|].
  eapply same_identities_trans; [apply set_cell_tag_same|apply IHr].
Qed.

Theorem payload_ops_keep_identities : forall o w, payload_only o = true ->
  same_identities w (fst (step current o w)).
Proof.
  intros o w H. destruct o; try discriminate; cbn [step].
  - destruct (get_struct w h) as [[old L]|]; [|apply same_identities_refl].
    destruct old as [|a0 old']; [apply same_identities_refl|].
    destruct tags as [|t [|t2 ts]]; cbn [fst]; try apply same_identities_refl; try apply set_tags_same.
    match goal with |- context [if ?c then _ else _] => destruct c end; cbn [fst]; [apply set_tags_same|apply same_identities_refl].
  - destruct (get_struct w h) as [[old L]|]; cbn [fst]; [apply set_tags_same|apply same_identities_refl].
  - destruct (get_struct w h) as [[old L]|]; [|apply same_identities_refl]. destruct (nth_error (rev old) 0); apply same_identities_refl.
  - destruct (get_struct w h) as [[old L]|]; apply same_identities_refl.
  - destruct (get_struct w h) as [[old L]|]; apply same_identities_refl.
Qed.

(* reading a column / the composition is a function of the payloads of the held atoms, in order *)
Theorem getcol_reads_payload : forall h c w old L, get_struct w h = Some (old, L) ->
  step current (GetCol h c) w = (w, Done (RVals (map (fun a => get_col c (tag_of w a)) old))) /\
  step current (Composition h) w = (w, Done (RVals (composition_of w old))).
Proof. intros. cbn [step]. rewrite H. auto. Qed.

(* ---------------------------------------------------------------- whole-column assignment *)

Lemma tag_of_set_cell_tag : forall a f w b,
  tag_of (set_cell_tag a f w) b = if Nat.eqb a b then (if Nat.ltb b (length (heap w)) then f (tag_of w b) else pay0) else tag_of w b.
Proof.
  intros. unfold tag_of, set_cell_tag. simpl. destruct (Nat.eqb a b) eqn:E.
  - apply Nat.eqb_eq in E. subst. destruct (nth_error (heap w) b) eqn:E2.
    + erewrite nth_error_upd_nth_eq; eauto. simpl.
      assert (b < length (heap w)) by (apply nth_error_Some; congruence). apply Nat.ltb_lt in H. rewrite H. auto.
    + assert (nth_error (upd_nth b (fun c => mkCell (f (c_tag c)) (c_lat c)) (heap w)) b = None).
      { apply nth_error_None. rewrite upd_nth_length. apply nth_error_None. auto. } rewrite H.
      apply nth_error_None in E2. apply Nat.ltb_ge in E2. rewrite E2. auto.
  - apply Nat.eqb_neq in E. rewrite nth_error_upd_nth_neq; auto.
Qed.

Lemma set_tags_untouched : forall c prs w b, ~ In b (map fst prs) -> tag_of (set_tags c prs w) b = tag_of w b.
Proof.
  induction prs as [|[a t] r]; simpl; intros; auto.
  rewrite IHr by tauto. rewrite tag_of_set_cell_tag. destruct (Nat.eqb a b) eqn:E; auto.
  apply Nat.eqb_eq in E. subst. tauto.
Qed.

Lemma set_tags_assigned : forall c prs w a t, NoDup (map fst prs) -> In (a, t) prs -> a < length (heap w) ->
  tag_of (set_tags c prs w) a = set_col c t (tag_of w a).
Proof.
  induction prs as [|[a0 t0] r]; simpl; intros w a t Hn Hin Hv; [tauto|]. inversion Hn; subst. destruct Hin as [Hin|Hin].
  - inversion Hin; subst. rewrite set_tags_untouched by auto. rewrite tag_of_set_cell_tag, Nat.eqb_refl.
    apply Nat.ltb_lt in Hv. rewrite Hv. auto.
  - rewrite (IHr _ a t); auto.
    + rewrite tag_of_set_cell_tag. destruct (Nat.eqb a0 a) eqn:E; auto.
      apply Nat.eqb_eq in E. subst. exfalso. apply H1. apply in_map_iff. exists (a, t). auto.
    + unfold set_cell_tag. simpl. rewrite upd_nth_length. auto.
Qed.

Lemma nth_error_ext' : forall A (l l' : list A), (forall i, nth_error l i = nth_error l' i) -> l = l'.
Proof.
  induction l; destruct l'; intros; auto.
  - specialize (H 0). discriminate.
  - specialize (H 0). discriminate.
  - pose proof (H 0) as H0. simpl in H0. inversion H0. f_equal. apply IHl. intros i. apply (H (S i)).
Qed.

Lemma set_col_get_same : forall c v p, get_col c (set_col c v p) = v.
Proof. destruct c; auto. Qed.

Lemma set_col_get_other : forall c c' v p, c <> c' -> get_col c' (set_col c v p) = get_col c' p.
Proof. destruct c, c'; intros; auto; congruence. Qed.

(* s.<column> = values, one value per atom, no atom held twice: afterwards the column reads back the values, the
   other columns and every atom outside the container are untouched (identities: payload_ops_keep_identities) *)
Theorem setcol_refines : forall h c tags w old L, Inv w -> get_struct w h = Some (old, L) -> NoDup old ->
  length tags = length old -> 2 <= length old ->
  let w' := fst (step current (SetCol h c tags) w) in
  map (fun a => get_col c (tag_of w' a)) old = tags /\
  (forall c' a, c' <> c -> get_col c' (tag_of w' a) = get_col c' (tag_of w a)) /\
  (forall b, ~ In b old -> tag_of w' b = tag_of w b).
Proof.
  intros h c tags w old L [Hwf _] Hg Hnd Hlen H2 w'.
  destruct (get_struct_wf _ _ _ _ Hwf Hg) as [Hold _].
  assert (E : w' = set_tags c (combine old tags) w).
  { unfold w'. cbn [step]. rewrite Hg. destruct old as [|a0 [|a1 o]]; simpl in H2; try lia.
    destruct tags as [|t0 [|t1 ts]]; simpl in Hlen; try lia.
    assert (El : length (t0 :: t1 :: ts) =? length (a0 :: a1 :: o) = true) by (apply Nat.eqb_eq; simpl; lia).
    rewrite El. reflexivity. }
  assert (Hfst : map fst (combine old tags) = old).
  { clear - Hlen. revert tags Hlen. induction old; destruct tags; simpl; intros; try lia; auto. f_equal. auto. }
  rewrite E. clear E w'. unfold aid in *. split; [|split].
  - clear H2.
    assert (G : forall i a t, nth_error old i = Some a -> nth_error tags i = Some t ->
                get_col c (tag_of (set_tags c (combine old tags) w) a) = t).
    { intros i a t Ha Ht. rewrite (set_tags_assigned c _ w a t); unfold aid in *.
      - apply set_col_get_same.
      - rewrite Hfst. auto.
      - clear - Ha Ht. revert tags i Ha Ht. induction old; destruct tags, i; simpl; intros; try discriminate.
        + inversion Ha; inversion Ht; subst. auto.
        + right. eauto.
      - apply Hold. eapply nth_error_In; eauto. }
    apply nth_error_ext'.
    intros i. rewrite nth_error_map. destruct (nth_error old i) eqn:Ea; simpl.
    + destruct (nth_error tags i) eqn:Et.
      * f_equal. eapply G; eauto.
      * apply nth_error_None in Et. assert (i < length old) by (apply nth_error_Some; congruence). lia.
    + apply nth_error_None in Ea. symmetry. apply nth_error_None. lia.
  - intros c' a Hne. destruct (in_dec Nat.eq_dec a old) as [Hin|Hin].
    + destruct (In_nth_error _ _ Hin) as [i Hi].
      destruct (nth_error tags i) eqn:Et.
      * rewrite (set_tags_assigned c _ w a z); unfold aid in *; auto.
        -- apply set_col_get_other. auto.
        -- rewrite Hfst. auto.
        -- clear - Hi Et. revert tags i Hi Et. induction old; destruct tags, i; simpl; intros; try discriminate.
           ++ inversion Hi; inversion Et; subst. auto.
           ++ right. eauto.
      * apply nth_error_None in Et. assert (i < length old) by (apply nth_error_Some; congruence). lia.
    + rewrite set_tags_untouched; auto. unfold aid in *. rewrite Hfst. auto.
  - intros b Hb. apply set_tags_untouched. unfold aid in *. rewrite Hfst. auto.
Qed.

(* ---------------------------------------------------------------- sort *)

Lemma insert_sorted_perm' : forall before k x l, Permutation (insert_sorted before k x l) (x :: l).
Proof.
  induction l; simpl; auto. destruct (before (k x) (k a)); auto.
  eapply perm_trans; [apply perm_skip; apply IHl|]. apply perm_swap.
Qed.

Lemma sort_positions_perm : forall rev keys, Permutation (sort_positions rev keys) (seq 0 (length keys)).
Proof.
  intros. unfold sort_positions. induction (seq 0 (length keys)); simpl; auto.
  eapply perm_trans; [apply insert_sorted_perm'|]. apply perm_skip. auto.
Qed.

Lemma pick_seq : forall (old : list aid) n, pick old (seq n (length old - n)) = skipn n old.
Proof.
  intros old n. remember (length old - n) as k. revert n Heqk. induction k; intros.
  - simpl. rewrite skipn_all2; auto. lia.
  - simpl. unfold pick in *. simpl. destruct (nth_error old n) eqn:E.
    + simpl. rewrite IHk by lia. clear - E. revert n E. induction old; destruct n; simpl; intros; try discriminate.
      * inversion E. auto.
      * apply IHold. auto.
    + apply nth_error_None in E. lia.
Qed.

Lemma pick_perm : forall (old : list aid) i1 i2, Permutation i1 i2 -> Permutation (pick old i1) (pick old i2).
Proof. intros. unfold pick. apply Permutation_flat_map. auto. Qed.

(* totality of the two comparisons makes the insertion sort sorted *)
Lemma insert_sorted_sorted : forall (before : Z -> Z -> bool) k x l,
  (forall a b, before a b = false -> before b a = true) ->
  Sorted (fun i j : nat => before (k i) (k j) = true) l -> Sorted (fun i j : nat => before (k i) (k j) = true) (insert_sorted before k x l).
Proof.
  intros before k x l Htot. induction l; simpl; intros.
  - constructor; constructor.
  - destruct (before (k x) (k a)) eqn:E.
    + constructor; auto.
    + inversion H; subst. constructor; auto.
      destruct l; simpl.
      * constructor. auto.
      * destruct (before (k x) (k n)); constructor; auto. inversion H3; auto.
Qed.

Lemma sort_positions_sorted : forall (rev : bool) (keys : list Z),
  Sorted (fun i j : nat => (if rev then Z.geb else Z.leb) (nth i keys 0%Z) (nth j keys 0%Z) = true) (sort_positions rev keys).
Proof.
  intros. unfold sort_positions. induction (seq 0 (length keys)); simpl; [constructor|].
  apply insert_sorted_sorted; auto. intros a0 b H. destruct rev.
  - rewrite Z.geb_leb in *. apply Z.leb_gt in H. apply Z.leb_le. lia.
  - apply Z.leb_gt in H. apply Z.leb_le. lia.
Qed.

(* s.sort(key=column, reverse=rev): the same atom objects in another order (a permutation), ordered by the key
   (ascending, or descending with reverse), lattice and heap untouched *)
Theorem sort_permutes : forall h c rev w old L, get_struct w h = Some (old, L) ->
  let keys := map (fun a => get_col c (tag_of w a)) old in
  let w' := fst (step current (Sort h (Some c) rev) w) in
  get_struct w' h = Some (pick old (sort_positions rev keys), L) /\
  Permutation (pick old (sort_positions rev keys)) old /\
  Sorted (fun i j : nat => (if rev then Z.geb else Z.leb) (nth i keys 0%Z) (nth j keys 0%Z) = true) (sort_positions rev keys) /\
  heap w' = heap w /\ nlat w' = nlat w.
Proof.
  intros h c rev w old L Hg keys w'.
  assert (Ho : nth_error (objs w) h = Some (OStruct old L)).
  { unfold get_struct, get_obj in Hg. destruct (nth_error (objs w) h) as [[i l|]|]; try discriminate. inversion Hg; subst. auto. }
  assert (E : w' = set_obj h (OStruct (pick old (sort_positions rev keys)) L) (flag_dup (negb (nodupb (sort_positions rev keys))) w)).
  { unfold w'. cbn [step]. rewrite Hg. cbn [fst]. rewrite (install_eq h [] _ w old L [] w Ho eq_refl). reflexivity. }
  rewrite E. split; [|split; [|split; [|split]]]; auto.
  - unfold get_struct, get_obj. rewrite nth_error_set_obj, Nat.eqb_refl. simpl. rewrite Ho. auto.
  - eapply perm_trans; [apply pick_perm; apply sort_positions_perm|]. unfold keys. rewrite map_length.
    pose proof (pick_seq old 0) as P. rewrite Nat.sub_0_r in P. rewrite P. auto.
  - apply sort_positions_sorted.
Qed.

(* ---------------------------------------------------------------- assignUniqueLabels *)

Lemma unique_labels_atoms : forall w its seen elems, map fst (unique_labels w seen elems its) = nodup_first seen its.
Proof.
  induction its; simpl; intros; auto. destruct (memb a seen); auto. simpl. f_equal. auto.
Qed.

(* every distinct atom object of the container is labelled exactly once, in order of first appearance, with
   -(1000 e + k) where k counts the distinct atoms of element e so far; the identities are untouched
   (payload_ops_keep_identities).  Distinctness of the labels as NUMBERS needs fewer than 1000 atoms per element
   (the real labels are strings): correspondence only. *)
Theorem unique_labels_partial : forall h w old L, get_struct w h = Some (old, L) ->
  fst (step current (AssignUniqueLabels h) w) = set_tags ColLabel (unique_labels w [] [] old) w /\
  map fst (unique_labels w [] [] old) = nodup_first [] old /\ NoDup (map fst (unique_labels w [] [] old)).
Proof.
  intros. cbn [step]. rewrite H. split; auto. split; [apply unique_labels_atoms|].
  rewrite unique_labels_atoms. apply nodup_first_NoDup.
Qed.

(* ---------------------------------------------------------------- the sort is stable *)

Definition stable_before (rev : bool) (k : nat -> Z) (i j : nat) : Prop :=
  (if rev then (k i > k j)%Z else (k i < k j)%Z) \/ (k i = k j /\ i < j).

Lemma insert_sorted_stable : forall rev k x l,
  (forall y, In y l -> x < y) ->
  Sorted (stable_before rev k) l ->
  Sorted (stable_before rev k) (insert_sorted (if rev then Z.geb else Z.leb) k x l).
Proof.
  intros rev k x l. induction l; simpl; intros Hx Hs.
  - constructor; constructor.
  - assert (Hxa : x < a) by (apply Hx; left; auto).
    destruct ((if rev then Z.geb else Z.leb) (k x) (k a)) eqn:E.
    + constructor; auto. constructor. unfold stable_before. destruct rev.
      * rewrite Z.geb_leb in E. apply Z.leb_le in E. destruct (Z.eq_dec (k x) (k a)); [right; auto|left; lia].
      * apply Z.leb_le in E. destruct (Z.eq_dec (k x) (k a)); [right; auto|left; lia].
    + inversion Hs; subst. constructor.
      * apply IHl; auto; intros y Hy; apply Hx; right; auto.
      * assert (Hax : stable_before rev k a x).
        { unfold stable_before. left. destruct rev.
          - rewrite Z.geb_leb in E. apply Z.leb_gt in E. lia.
          - apply Z.leb_gt in E. lia. }
        destruct l; simpl.
        -- constructor. auto.
        -- destruct ((if rev then Z.geb else Z.leb) (k x) (k n)); constructor; auto. inversion H2; auto.
Qed.

Lemma fold_insert_In : forall before k l x, In x (fold_right (insert_sorted before k) [] l) -> In x l.
Proof.
  intros. eapply Permutation_in; [|eauto].
  clear. induction l; simpl; auto. eapply perm_trans; [apply insert_sorted_perm'|]. apply perm_skip. auto.
Qed.

(* list.sort is stable, also with reverse=True: among equal keys the original order is kept *)
Theorem sort_stable : forall rev keys,
  Sorted (stable_before rev (fun i => nth i keys 0%Z)) (sort_positions rev keys).
Proof.
  intros. unfold sort_positions. generalize 0. induction (length keys); simpl; intros; [constructor|].
  apply insert_sorted_stable; auto.
  intros y Hy. apply fold_insert_In in Hy. apply in_seq in Hy. lia.
Qed.

(* ---------------------------------------------------------------- column assignment, general form *)

Lemma set_tags_other_cols : forall c c' prs w a, c' <> c -> get_col c' (tag_of (set_tags c prs w) a) = get_col c' (tag_of w a).
Proof.
  induction prs as [|[a0 t0] r]; simpl; intros; auto. rewrite IHr by auto. rewrite tag_of_set_cell_tag.
  destruct (Nat.eqb a0 a) eqn:E; auto. apply Nat.eqb_eq in E. subst.
  destruct (Nat.ltb a (length (heap w))) eqn:E2.
  - apply set_col_get_other. auto.
  - apply Nat.ltb_ge in E2. unfold tag_of. assert (nth_error (heap w) a = None) by (apply nth_error_None; auto). rewrite H0. auto.
Qed.

Lemma set_tags_functional : forall c prs w a t,
  (forall t1 t2, In (a, t1) prs -> In (a, t2) prs -> t1 = t2) -> In (a, t) prs -> a < length (heap w) ->
  get_col c (tag_of (set_tags c prs w) a) = t.
Proof.
  induction prs as [|[a0 t0] r]; simpl; intros w a t Hf Hin Hv; [tauto|].
  assert (Hv' : a < length (heap (set_cell_tag a0 (set_col c t0) w))) by (unfold set_cell_tag; simpl; rewrite upd_nth_length; auto).
  destruct (in_dec Nat.eq_dec a (map fst r)) as [Hr|Hr].
  - apply in_map_iff in Hr. destruct Hr as [[a1 t1] [E1 H1]]. simpl in E1. subst a1.
    assert (t1 = t) by (apply Hf; auto). subst. apply IHr; auto.
  - destruct Hin as [Hin|Hin].
    + inversion Hin; subst. rewrite set_tags_untouched by auto. rewrite tag_of_set_cell_tag, Nat.eqb_refl.
      apply Nat.ltb_lt in Hv. rewrite Hv. apply set_col_get_same.
    + exfalso. apply Hr. apply in_map_iff. exists (a, t). auto.
Qed.

(* s.<column> = one value (scalar, or a one-element sequence): every atom of the container reads the value back;
   the other columns of every atom and all atoms outside the container are unchanged - also when the container
   holds an atom twice *)
Theorem setcol_broadcast_refines : forall h c t w old L, Inv w -> get_struct w h = Some (old, L) -> old <> [] ->
  let w' := fst (step current (SetCol h c [t]) w) in
  (forall a, In a old -> get_col c (tag_of w' a) = t) /\
  (forall c' a, c' <> c -> get_col c' (tag_of w' a) = get_col c' (tag_of w a)) /\
  (forall b, ~ In b old -> tag_of w' b = tag_of w b).
Proof.
  intros h c t w old L [Hwf _] Hg Hne w'. destruct (get_struct_wf _ _ _ _ Hwf Hg) as [Hold _].
  assert (E : w' = set_tags c (map (fun a => (a, t)) old) w).
  { unfold w'. cbn [step]. rewrite Hg. destruct old; [congruence|]. reflexivity. }
  rewrite E. split; [|split].
  - intros a Ha. apply set_tags_functional; auto.
    + intros t1 t2 H1 H2. apply in_map_iff in H1. apply in_map_iff in H2.
      destruct H1 as [x [E1 _]]. destruct H2 as [y [E2 _]]. inversion E1. inversion E2. congruence.
    + apply in_map_iff. exists a. auto.
  - intros. apply set_tags_other_cols. auto.
  - intros b Hb. apply set_tags_untouched. rewrite map_map. simpl. rewrite map_id. auto.
Qed.
