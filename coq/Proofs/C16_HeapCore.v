(* C16 - the two heap statements that matter, `self.__dict__.update(new.__dict__)` followed by
   `self[:] = new`, characterised with the C08 lemmas (realize_spec / realized, install_eq). *)
From Coq Require Import List ZArith Bool Arith Lia.
From DS Require Import Model.C08_StructHeap Proofs.C08_Lists Proofs.C08_Prims Proofs.C08_Inv Proofs.C08_Step Proofs.C08_Spec.
From DS Require Import Model.C16_Heap.
Import ListNotations.
Open Scope nat_scope.

Lemma wf_set_obj : forall h its L w, wf w -> valid w its -> L < nlat w -> wf (set_obj h (OStruct its L) w).
Proof.
  intros h its L w [W1 [W2 W3]] Hv HL. split; [|split].
  - intros h2 o Ho. rewrite nth_error_set_obj in Ho. destruct (Nat.eqb h h2).
    + destruct (nth_error (objs w) h2); inversion Ho; subst. exact Hv.
    + exact (W1 _ _ Ho).
  - intros h2 its2 l Ho. rewrite nth_error_set_obj in Ho. destruct (Nat.eqb h h2).
    + destruct (nth_error (objs w) h2); inversion Ho; subst. exact HL.
    + exact (W2 _ _ _ Ho).
  - exact W3.
Qed.

Lemma wf_flag_dup : forall b w, wf w -> wf (flag_dup b w).
Proof. intros b w H. exact H. Qed.

Lemma keeps_setall_nil : forall old nits, (forall a, In a nits -> ~ In a old) -> keeps (setall_srcs old nits) = [].
Proof.
  unfold setall_srcs, keeps. induction nits as [|a r IH]; intros H; simpl; [reflexivity|].
  assert (memb a old = false) as -> by (apply memb_false; apply H; left; reflexivity).
  simpl. apply IH. intros b Hb. apply H. right. exact Hb.
Qed.

Lemma setall_src_tags : forall w old nits, map (src_tag w) (setall_srcs old nits) = map (tag_of w) nits.
Proof. intros. unfold setall_srcs. rewrite map_map. apply map_ext. intros a. destruct (memb a old); reflexivity. Qed.

Lemma setall_srcs_valid : forall w old nits, valid w nits -> srcs_valid w (setall_srcs old nits).
Proof.
  intros w old nits Hv. unfold srcs_valid, setall_srcs. apply Forall_forall. intros s Hs.
  apply in_map_iff in Hs as [a [<- Ha]]. destruct (memb a old); simpl; apply Hv; exact Ha.
Qed.

Record core_post (w : world) (self nh : hid) (old nits : list aid) (Ln : lid) (w2 : world) (ids : list aid) : Prop := mkCore {
  cp_self : get_struct w2 self = Some (ids, Ln);
  cp_lat : forall x, In x ids -> lat_of w2 x = Some Ln;
  cp_tags : map (tag_of w2) ids = map (tag_of w) nits;
  cp_new : get_struct w2 nh = Some (nits, Ln);
  cp_new_lat : forall a, lat_of w a = Some Ln -> lat_of w2 a = Some Ln;
  cp_new_tags : map (tag_of w2) nits = map (tag_of w) nits;
  cp_fresh : (forall a, In a nits -> ~ In a old) -> forall x, In x ids -> length (heap w) <= x;
  cp_nlat : nlat w2 = nlat w;
  cp_wf : wf w2 }.

(* the lat field of the target takes the result's lattice, then the item list is replaced *)
Lemma update_then_setall : forall w self nh old L0 nits Ln, wf w ->
  get_struct w self = Some (old, L0) -> get_struct w nh = Some (nits, Ln) -> nh <> self ->
  exists ids, core_post w self nh old nits Ln (h_setall_world self nh (set_obj self (OStruct old Ln) w)) ids.
Proof.
  intros w self nh old L0 nits Ln Hwf Hs Hn Hne.
  destruct (get_struct_wf _ _ _ _ Hwf Hs) as [Hold [HL0 Ho]].
  destruct (get_struct_wf _ _ _ _ Hwf Hn) as [Hnits [HLn Hno]].
  set (w1 := set_obj self (OStruct old Ln) w).
  assert (Hheap : heap w1 = heap w) by reflexivity.
  assert (Hnl : nlat w1 = nlat w) by reflexivity.
  assert (Ho1 : nth_error (objs w1) self = Some (OStruct old Ln)).
  { unfold w1. rewrite nth_error_set_obj, Nat.eqb_refl, Ho. reflexivity. }
  assert (Hno1 : nth_error (objs w1) nh = Some (OStruct nits Ln)).
  { unfold w1. rewrite set_obj_prefix by exact Hne. exact Hno. }
  assert (Hwf1 : wf w1) by (apply wf_set_obj; assumption).
  assert (Hv1 : valid w1 nits) by (intros a Ha; unfold valid in Hnits; rewrite Hheap; apply Hnits; exact Ha).
  unfold h_setall_world, get_struct, get_obj. rewrite Ho1, Hno1. cbn [obj_items].
  set (srcs := setall_srcs old nits).
  assert (Hsv : srcs_valid w1 srcs) by (apply setall_srcs_valid; exact Hv1).
  destruct (realize (Some self) Ln srcs w1) as [ids w1'] eqn:Er.
  pose proof (realize_spec _ _ _ _ _ _ Er Hsv) as R.
  rewrite (install_eq _ _ _ _ _ _ _ _ Ho1 Er).
  assert (Hedit : apply_edit (ERange 0 (length old)) old ids = ids).
  { simpl. rewrite skipn_all. apply app_nil_r. }
  rewrite Hedit. exists ids.
  set (w2 := set_obj self (OStruct ids Ln) (flag_dup (edit_dup_flag (ERange 0 (length old)) old srcs) w1')).
  assert (Hheap2 : heap w2 = heap w1') by reflexivity.
  assert (Hlat2 : forall x, lat_of w2 x = lat_of w1' x) by (intros; unfold lat_of; rewrite Hheap2; reflexivity).
  assert (Htag2 : forall x, tag_of w2 x = tag_of w1' x) by (intros; unfold tag_of; rewrite Hheap2; reflexivity).
  assert (Hlat1 : forall x, lat_of w1 x = lat_of w x) by (intros; unfold lat_of; rewrite Hheap; reflexivity).
  assert (Htag1 : forall x, tag_of w1 x = tag_of w x) by (intros; unfold tag_of; rewrite Hheap; reflexivity).
  constructor.
  - unfold get_struct, get_obj, w2. rewrite nth_error_set_obj, Nat.eqb_refl. simpl.
    rewrite (rz_objs _ _ _ _ _ _ R), Ho1. reflexivity.
  - intros x Hx. rewrite Hlat2. apply (rz_lat_ids _ _ _ _ _ _ R). exact Hx.
  - rewrite (map_ext _ _ Htag2). rewrite (rz_idtags _ _ _ _ _ _ R). unfold srcs. rewrite setall_src_tags.
    apply map_ext. exact Htag1.
  - unfold get_struct, get_obj, w2. rewrite set_obj_prefix by exact Hne. simpl.
    rewrite (rz_objs _ _ _ _ _ _ R), Hno1. reflexivity.
  - intros a Ha. rewrite Hlat2. apply (rz_lat_kept _ _ _ _ _ _ R). rewrite Hlat1. exact Ha.
  - rewrite (map_ext _ _ Htag2). apply map_ext_in. intros a Ha. rewrite (rz_tags _ _ _ _ _ _ R); [apply Htag1|].
    rewrite Hheap. apply Hnits. exact Ha.
  - intros Hdis x Hx. rewrite <- Hheap. apply (rz_nokeep_fresh _ _ _ _ _ _ R); [|exact Hx].
    unfold srcs. apply keeps_setall_nil. exact Hdis.
  - unfold w2. simpl. rewrite (rz_nlat _ _ _ _ _ _ R). exact Hnl.
  - unfold w2. apply wf_set_obj.
    + apply wf_flag_dup. apply (realized_wf _ _ _ _ _ _ R Hwf1). rewrite Hnl. exact HLn.
    + intros x Hx. unfold valid; simpl. apply (rz_bound _ _ _ _ _ _ R). exact Hx.
    + simpl. rewrite (rz_nlat _ _ _ _ _ _ R), Hnl. exact HLn.
Qed.
