(* C07 - labels of the expanded structure are pairwise distinct.
   Scheme LSPlain (image j of a site labelled L is called L_<j+1>): needs that no site label equals an image label
   L_k of another (or the same) site with 2 <= k <= multiplicity; the hypothesis is exact - `plain_clash_witness`
   shows two output atoms with one label when it fails (sites C1 and C1_2).
   Scheme LSFresh (numbers whose label is taken are skipped): no such hypothesis. *)
From Coq Require Import ZArith List Bool Ascii String Lia FinFun DecimalString DecimalZ DecimalPos Decimal.
From DS Require Import Base.ZMat Base.SGDefs Base.C09_GNum Model.GroupCheck Model.C02_Orbit.
From DS Require Import Model.C09_Prims Gen.C09_AtomFormulas Model.C09_AtomADP Model.C11_LookupDefs.
From DS Require Import Model.C07_Text Model.C07_SymopText Model.C07_SpecDefs Gen.C07_CifSpec Model.C07_CifRead.
From DS Require Import Proofs.C07_Text Proofs.C07_Union.
Import ListNotations.

Local Notation "a +++ b" := (String.append a b) (at level 60, right associativity).

(* ---------- decimal rendering of a natural number: digits only, injective ---------- *)
Definition str (k : nat) : string := py_str_of_Z (Z.of_nat k).
Definition is_us (c : ascii) : bool := Ascii.eqb c "_"%char.
Fixpoint no_us (s : string) : bool := match s with EmptyString => true | String c r => negb (is_us c) && no_us r end.

Lemma uint_no_us d : no_us (NilEmpty.string_of_uint d) = true.
Proof. induction d; cbn [NilEmpty.string_of_uint no_us]; try reflexivity; rewrite IHd; reflexivity. Qed.
Lemma str_no_us k : no_us (str k) = true.
Proof.
  unfold str, py_str_of_Z. destruct (Z.of_nat k) eqn:Ek; cbn [Z.to_int NilZero.string_of_int].
  - reflexivity.
  - unfold NilZero.string_of_uint. destruct (Pos.to_uint p) eqn:Ep; try reflexivity; rewrite <- Ep; apply uint_no_us.
  - lia.
Qed.
Lemma str_inj k j : str k = str j -> k = j.
Proof.
  unfold str, py_str_of_Z. intros H. apply Nat2Z.inj. apply to_int_inj.
  assert (Hn : forall n : nat, Z.to_int (Z.of_nat n) <> Pos Nil /\ Z.to_int (Z.of_nat n) <> Neg Nil).
  { intros n. destruct (Z.of_nat n) eqn:En; cbn [Z.to_int]; [split; discriminate | | lia].
    split; [|discriminate]. intros Hc. injection Hc as Hc. exact (Unsigned.to_uint_nonnil p Hc). }
  destruct (Hn k) as [K1 K2], (Hn j) as [J1 J2].
  pose proof (NilZero.isi _ K1 K2) as Ik. pose proof (NilZero.isi _ J1 J2) as Ij.
  rewrite H in Ik. rewrite Ik in Ij. injection Ij as Ij. exact Ij.
Qed.

(* ---------- p ++ "_" ++ a determines p and a when a has no underscore ---------- *)
Lemma no_us_app a x y : no_us a = true -> a <> x +++ "_" +++ y.
Proof.
  revert a. induction x as [|c x IH]; intros a Ha H.
  - cbn in H. subst a. cbn in Ha. discriminate.
  - destruct a as [|d a]; [discriminate|]. cbn [String.append] in H. injection H as _ H. cbn [no_us] in Ha.
    apply andb_true_iff in Ha as [_ Ha]. exact (IH a Ha H).
Qed.
Lemma suffix_split p q a b : no_us a = true -> no_us b = true -> p +++ "_" +++ a = q +++ "_" +++ b -> p = q /\ a = b.
Proof.
  revert q. induction p as [|c p IH]; intros q Ha Hb H.
  - destruct q as [|d q]; [cbn in H; injection H as H; split; [reflexivity | exact H]|].
    cbn [String.append] in H. injection H as _ H. exfalso. exact (no_us_app a q b Ha H).
  - destruct q as [|d q].
    + cbn [String.append] in H. injection H as _ H. exfalso. symmetry in H. exact (no_us_app b p a Hb H).
    + cbn [String.append] in H. injection H as Hc H. destruct (IH q Ha Hb H) as [-> ->]. subst d. split; reflexivity.
Qed.

Lemma suffix_unfold base k : suffix_label base k = base +++ "_" +++ str k.
Proof. reflexivity. Qed.
Lemma suffix_inj p q k j : suffix_label p k = suffix_label q j -> p = q /\ k = j.
Proof.
  rewrite !suffix_unfold. intros H. destruct (suffix_split p q (str k) (str j) (str_no_us k) (str_no_us j) H) as [-> Hs].
  split; [reflexivity | apply str_inj; exact Hs].
Qed.
Lemma append_length a b : String.length (a +++ b) = (String.length a + String.length b)%nat.
Proof. induction a as [|c a IH]; cbn [String.append String.length]; [reflexivity | rewrite IH; reflexivity]. Qed.
Lemma suffix_neq_base p k : suffix_label p k <> p.
Proof.
  rewrite suffix_unfold. intros H. apply (f_equal String.length) in H. rewrite append_length in H. cbn [String.append String.length] in H. lia.
Qed.

(* ---------- the labels of one site under LSPlain ---------- *)
Lemma plain_labels base : forall n k taken, fst (image_labels LSPlain base n k taken) = map (suffix_label base) (seq (S k) n).
Proof.
  induction n as [|n IH]; intros k taken; cbn [image_labels]; [reflexivity|].
  specialize (IH (S k) (suffix_label base (S k) :: taken)).
  destruct (image_labels LSPlain base n (S k) (suffix_label base (S k) :: taken)) as [ls tk]. cbn [fst] in *. rewrite IH. reflexivity.
Qed.

Lemma zip3_labels {A B Cc} : forall (P : list B) (L : list A) (Q : list Cc),
  List.length Q = List.length P -> (List.length P <= List.length L)%nat ->
  map (fun t => fst (fst t)) (combine (combine L P) Q) = firstn (List.length P) L.
Proof.
  induction P as [|p P IH]; intros L Q HQ HL.
  - destruct Q; [|discriminate]. destruct L; reflexivity.
  - destruct Q as [|q Q]; [discriminate|]. destruct L as [|l L]; [cbn in HL; lia|].
    cbn [combine map fst List.length firstn]. cbn [List.length] in HQ, HL. rewrite IH; [reflexivity | lia | lia].
Qed.

Lemma NoDup_app_intro {A} (a b : list A) : NoDup a -> NoDup b -> (forall x, In x a -> In x b -> False) -> NoDup (a ++ b).
Proof.
  intros Ha Hb Hd. induction Ha as [|x a Hx Ha IH]; [exact Hb|].
  cbn [app]. constructor.
  - intros Hin. apply in_app_or in Hin as [Hin|Hin]; [exact (Hx Hin) | exact (Hd x (or_introl eq_refl) Hin)].
  - apply IH. intros y Hy1 Hy2. exact (Hd y (or_intror Hy1) Hy2).
Qed.

Section Labels.
Context {T : Type} (E : env (T:=T)).

(* labels of a site: the parent's label, then the image labels *)
Definition site_labels (sch : label_scheme) (G : list symop) (au : ratom * gmat T) (taken : list string) : list string :=
  firstn (mult_of E G au) (a_label (fst au) :: fst (image_labels sch (a_label (fst au)) (Nat.pred (mult_of E G au)) 1 taken)).

Lemma expand_site_labels sch G au taken :
  map o_label (fst (expand_site E sch G au taken)) = site_labels sch G au taken /\
  snd (expand_site E sch G au taken) = snd (image_labels sch (a_label (fst au)) (Nat.pred (mult_of E G au)) 1 taken).
Proof.
  destruct au as [a u]. unfold expand_site, site_labels, mult_of, site_expansion. cbn [fst snd].
  pose proof (expand_exact_lengths (D E) G v0 (grid_of E (a_xyz a))) as HL.
  destruct (expand_exact (D E) G v0 (grid_of E (a_xyz a))) as [[pos opss] m]. cbn [fst snd] in *. destruct HL as [Hp Ho].
  pose proof (image_labels_length sch (a_label a) (Nat.pred m) 1 taken) as Hl.
  destruct (image_labels sch (a_label a) (Nat.pred m) 1 taken) as [labs taken']. cbn [fst snd] in *.
  split; [|reflexivity]. rewrite map_map.
  rewrite <- Hp. rewrite <- (zip3_labels pos (a_label a :: labs) opss); [|lia | cbn [List.length]; lia].
  apply map_ext. intros t. reflexivity.
Qed.

(* ----- plain scheme ----- *)
Definition plain_site_labels (G : list symop) (au : ratom * gmat T) : list string :=
  match mult_of E G au with
  | O => []
  | S n => a_label (fst au) :: map (suffix_label (a_label (fst au))) (seq 2 n)
  end.
Lemma site_labels_plain G au taken : site_labels LSPlain G au taken = plain_site_labels G au.
Proof.
  unfold site_labels, plain_site_labels. rewrite plain_labels. destruct (mult_of E G au) as [|n]; [reflexivity|].
  cbn [Nat.pred firstn]. f_equal. rewrite firstn_all2; [reflexivity|]. rewrite map_length, seq_length. lia.
Qed.

Lemma expand_all_plain_labels G : forall l taken,
  map o_label (expand_all E LSPlain G l taken) = List.concat (map (plain_site_labels G) l).
Proof.
  induction l as [|au l IH]; intros taken; [reflexivity|].
  cbn [expand_all map List.concat]. destruct (expand_site_labels LSPlain G au taken) as [H1 _].
  destruct (expand_site E LSPlain G au taken) as [o tk]. cbn [fst] in H1.
  rewrite map_app, H1, site_labels_plain, IH. reflexivity.
Qed.

(* no site label is an image label *)
Definition plain_clash_free (G : list symop) (ps : list (ratom * gmat T)) : Prop :=
  forall au1 au2 k, In au1 ps -> In au2 ps -> (2 <= k <= mult_of E G au1)%nat ->
    a_label (fst au2) <> suffix_label (a_label (fst au1)) k.

Lemma in_plain_site G au x : In x (plain_site_labels G au) ->
  x = a_label (fst au) \/ exists k, (2 <= k <= mult_of E G au)%nat /\ x = suffix_label (a_label (fst au)) k.
Proof.
  unfold plain_site_labels. destruct (mult_of E G au) as [|n]; [intros []|].
  intros [H|H]; [left; symmetry; exact H|]. right. apply in_map_iff in H as [k [Hk Hin]]. apply in_seq in Hin.
  exists k. split; [lia | symmetry; exact Hk].
Qed.

Lemma plain_site_nodup G au : NoDup (plain_site_labels G au).
Proof.
  unfold plain_site_labels. destruct (mult_of E G au) as [|n]; constructor.
  - intros H. apply in_map_iff in H as [k [Hk _]]. exact (suffix_neq_base _ _ Hk).
  - apply FinFun.Injective_map_NoDup; [|apply seq_NoDup]. intros k j H. apply suffix_inj in H as [_ H]. exact H.
Qed.

Lemma plain_labels_nodup G : forall ps,
  NoDup (map (fun au => a_label (fst au)) ps) -> plain_clash_free G ps ->
  NoDup (List.concat (map (plain_site_labels G) ps)).
Proof.
  intros ps Hnd Hcf.
  (* strengthen: induct over a suffix of the list while the clash hypothesis speaks about the whole list *)
  assert (Hgen : forall l, incl l ps -> NoDup (map (fun au => a_label (fst au)) l) -> NoDup (List.concat (map (plain_site_labels G) l))).
  { induction l as [|au l IH]; intros Hincl Hn; [constructor|].
    cbn [map List.concat]. inversion Hn as [|x xs Hx Hn' Heq]; subst.
    assert (Hau : In au ps) by (apply Hincl; left; reflexivity).
    assert (Hl : incl l ps) by (intros y Hy; apply Hincl; right; exact Hy).
    apply NoDup_app_intro; [apply plain_site_nodup | apply IH; assumption |].
    intros x Hx1 Hx2. apply in_concat in Hx2 as [blk [Hblk Hx2]]. apply in_map_iff in Hblk as [bu [Hbu Hin]]. subst blk.
    assert (Hbps : In bu ps) by (apply Hl; exact Hin).
    assert (Hne : a_label (fst au) <> a_label (fst bu)).
    { intros Heq. apply Hx. rewrite Heq. apply in_map_iff. exists bu. split; [reflexivity | exact Hin]. }
    apply in_plain_site in Hx1. apply in_plain_site in Hx2.
    destruct Hx1 as [->|[k [Hk ->]]], Hx2 as [H2|[j [Hj H2]]].
    - exact (Hne H2).
    - exact (Hcf bu au j Hbps Hau Hj H2).
    - symmetry in H2. exact (Hcf au bu k Hau Hbps Hk H2).
    - apply suffix_inj in H2 as [H2 _]. exact (Hne H2). }
  apply Hgen; [apply incl_refl | exact Hnd].
Qed.

(* ----- fresh scheme: numbers whose label is already taken are skipped ----- *)
Lemma existsb_eqb_In x l : existsb (String.eqb x) l = true <-> In x l.
Proof.
  rewrite existsb_exists. split.
  - intros [y [Hy He]]. apply String.eqb_eq in He. subst. exact Hy.
  - intros H. exists x. split; [exact H | apply String.eqb_refl].
Qed.

Lemma first_free_found base taken : forall fuel k,
  (exists j, (k <= j < k + fuel)%nat /\ ~ In (suffix_label base j) taken) ->
  ~ In (suffix_label base (first_free fuel base k taken)) taken.
Proof.
  induction fuel as [|f IH]; intros k [j [Hj Hn]]; [lia|].
  cbn [first_free]. destruct (existsb (String.eqb (suffix_label base k)) taken) eqn:Ex.
  - apply IH. exists j. split; [|exact Hn].
    assert (j <> k) by (intros ->; apply Hn; apply existsb_eqb_In; exact Ex). lia.
  - intros Hin. apply existsb_eqb_In in Hin. rewrite Hin in Ex. discriminate.
Qed.

Lemma some_candidate_free base taken k :
  exists j, (k <= j < k + S (List.length taken))%nat /\ ~ In (suffix_label base j) taken.
Proof.
  set (cands := seq k (S (List.length taken))).
  assert (Hdec : (forall j, In j cands -> In (suffix_label base j) taken) \/ (exists j, In j cands /\ ~ In (suffix_label base j) taken)).
  { induction cands as [|c cs IH]; [left; intros j []|].
    destruct IH as [IH|[j [Hj Hn]]]; [|right; exists j; split; [right; exact Hj | exact Hn]].
    destruct (in_dec string_dec (suffix_label base c) taken) as [Hc|Hc].
    - left. intros j [<-|Hj]; [exact Hc | apply IH; exact Hj].
    - right. exists c. split; [left; reflexivity | exact Hc]. }
  destruct Hdec as [Hall|[j [Hj Hn]]].
  - exfalso.
    assert (Hnd : NoDup (map (suffix_label base) cands)).
    { apply FinFun.Injective_map_NoDup; [|apply seq_NoDup]. intros a b H. apply suffix_inj in H as [_ H]. exact H. }
    assert (Hincl : incl (map (suffix_label base) cands) taken).
    { intros x Hx. apply in_map_iff in Hx as [j [<- Hj]]. apply Hall. exact Hj. }
    pose proof (NoDup_incl_length Hnd Hincl) as Hlen. unfold cands in Hlen. rewrite map_length, seq_length in Hlen. lia.
  - exists j. split; [|exact Hn]. apply in_seq in Hj. lia.
Qed.

Lemma first_free_fresh base taken k : ~ In (suffix_label base (first_free (S (List.length taken)) base k taken)) taken.
Proof. apply first_free_found. apply some_candidate_free. Qed.

Lemma fresh_labels base : forall n k taken,
  let r := image_labels LSFresh base n k taken in
  NoDup (fst r) /\ (forall x, In x (fst r) -> ~ In x taken) /\ incl taken (snd r) /\ incl (fst r) (snd r).
Proof.
  induction n as [|n IH]; intros k taken; cbn [image_labels].
  - cbn [fst snd]. split; [constructor|]. split; [intros x []|]. split; [apply incl_refl | intros x []].
  - set (k' := first_free (S (List.length taken)) base (S k) taken).
    pose proof (first_free_fresh base taken (S k)) as Hf. fold k' in Hf.
    specialize (IH k' (suffix_label base k' :: taken)).
    destruct (image_labels LSFresh base n k' (suffix_label base k' :: taken)) as [ls tk]. cbn [fst snd] in *.
    destruct IH as [I1 [I2 [I3 I4]]].
    split; [constructor; [intros Hin; apply (I2 _ Hin); left; reflexivity | exact I1]|].
    split; [intros x [<-|Hx]; [exact Hf | intros Hin; apply (I2 _ Hx); right; exact Hin]|].
    split; [intros x Hx; apply I3; right; exact Hx|].
    intros x [<-|Hx]; [apply I3; left; reflexivity | apply I4; exact Hx].
Qed.

Lemma firstn_incl {A} n (l : list A) : incl (firstn n l) l.
Proof.
  revert n. induction l as [|x l IH]; intros n; destruct n; cbn [firstn]; intros y Hy; try (destruct Hy; fail).
  destruct Hy as [<-|Hy]; [left; reflexivity | right; exact (IH n y Hy)].
Qed.
Lemma firstn_nodup {A} n (l : list A) : NoDup l -> NoDup (firstn n l).
Proof.
  revert n. induction l as [|x l IH]; intros n H; destruct n; cbn [firstn]; try constructor.
  - inversion H; subst. intros Hin. apply firstn_incl in Hin. contradiction.
  - inversion H; subst. apply IH. assumption.
Qed.

Lemma fresh_all_nodup G : forall l taken,
  (forall au, In au l -> In (a_label (fst au)) taken) -> NoDup (map (fun au => a_label (fst au)) l) ->
  let out := map o_label (expand_all E LSFresh G l taken) in
  NoDup out /\ (forall x, In x out -> In x (map (fun au => a_label (fst au)) l) \/ ~ In x taken).
Proof.
  induction l as [|au l IH]; intros taken Hpar Hnd; cbn zeta.
  - cbn. split; [constructor | intros x []].
  - cbn [expand_all]. destruct (expand_site_labels LSFresh G au taken) as [H1 H2].
    destruct (expand_site E LSFresh G au taken) as [o tk]. cbn [fst snd] in H1, H2.
    rewrite map_app, H1. unfold site_labels.
    pose proof (fresh_labels (a_label (fst au)) (Nat.pred (mult_of E G au)) 1 taken) as HF. cbn zeta in HF.
    rewrite <- H2 in HF.
    set (labs := fst (image_labels LSFresh (a_label (fst au)) (Nat.pred (mult_of E G au)) 1 taken)) in *.
    destruct HF as [F1 [F2 [F3 F4]]].
    cbn [map] in Hnd. apply NoDup_cons_iff in Hnd as [Hx Hnd'].
    assert (Hbase : In (a_label (fst au)) taken) by (apply Hpar; left; reflexivity).
    destruct (IH tk) as [I1 I2]; [intros bu Hbu; apply F3; apply Hpar; right; exact Hbu | exact Hnd' |]. cbn zeta in I1, I2.
    assert (HS : NoDup (a_label (fst au) :: labs)) by (constructor; [intros Hin; exact (F2 _ Hin Hbase) | exact F1]).
    split.
    + apply NoDup_app_intro; [apply firstn_nodup; exact HS | exact I1 |].
      intros y Hy1 Hy2. apply firstn_incl in Hy1. specialize (I2 y Hy2).
      destruct Hy1 as [<-|Hy1].
      * destruct I2 as [I2|I2]; [exact (Hx I2) | apply I2; apply F3; exact Hbase].
      * destruct I2 as [I2|I2]; [|apply I2; apply F4; exact Hy1].
        apply (F2 y Hy1). apply in_map_iff in I2 as [bu [<- Hbu]]. apply Hpar. right. exact Hbu.
    + intros y Hy. apply in_app_or in Hy as [Hy|Hy].
      * apply firstn_incl in Hy. destruct Hy as [<-|Hy]; [left; left; reflexivity | right; exact (F2 y Hy)].
      * destruct (I2 y Hy) as [I|I]; [left; right; exact I | right; intros Hin; apply I; apply F3; exact Hin].
Qed.

(* ----- both schemes ----- *)
Definition clash_free (sch : label_scheme) (G : list symop) (ps : list (ratom * gmat T)) : Prop :=
  match sch with LSPlain => plain_clash_free G ps | LSFresh => True end.

Lemma expand_all_labels_nodup sch G ps :
  NoDup (map (fun au => a_label (fst au)) ps) -> clash_free sch G ps ->
  NoDup (map o_label (expand_all E sch G ps (map (fun au => a_label (fst au)) ps))).
Proof.
  intros Hnd Hcf. destruct sch.
  - rewrite expand_all_plain_labels. apply plain_labels_nodup; assumption.
  - apply fresh_all_nodup; [|exact Hnd]. intros au Hau. apply in_map_iff. exists au. split; [reflexivity | exact Hau].
Qed.

Theorem labels_unique find Tb b r : read_cif E find Tb b = Ok r ->
  NoDup (map (fun au => a_label (fst au)) (r_parents r)) -> clash_free the_label_scheme (r_group r) (r_parents r) ->
  NoDup (map o_label (r_atoms r)).
Proof.
  unfold read_cif, read_typed. intros H.
  destruct (cell_numbers E (b_cell b)) as [cn|]; [|discriminate]. cbn [bind] in H.
  destruct (read_site_loop E (type_loop E (b_site b))) as [st0|]; [|discriminate]. cbn [bind] in H.
  destruct (read_aniso_loop E st0 (option_map (type_loop E) (b_aniso b))) as [st|]; [|discriminate]. cbn [bind] in H.
  destruct (resolve_sg find Tb b) as [sg|]; [|discriminate]. cbn [bind] in H.
  injection H as H. subst r. cbn [r_atoms r_group r_parents]. apply expand_all_labels_nodup.
Qed.

End Labels.
