(* C20 - the decision table of transtru's main, proved for the GENERATED program (Gen/C20_CliSpec.v)
   by symbolic execution of the interpreter: for every command line, world and library the result of
   `main cli_spec` falls in the row that the command line and the library's answers select. *)
From Coq Require Import List ZArith Bool Ascii String Lia.
From DS Require Import Model.C20_Cli Gen.C20_CliSpec Proofs.C20_Strings.
Import ListNotations.
Open Scope string_scope.

Notation GO := (getopt "hV" ["help"; "version"]).

(* the first informational option decides: Some true = help, Some false = version *)
Fixpoint first_info (opts : list string) : option bool :=
  match opts with
  | [] => None
  | o :: r => if mem o ["-h"; "--help"] then Some true
              else if mem o ["-V"; "--version"] then Some false
              else first_info r
  end.

(* the text printed after "<file>: " for the exception kinds main handles *)
Definition err_text (e : exn) : option string :=
  match e_kind e with
  | KIOError => Some (match e_strerror e with Some s => s | None => "None" end)
  | KStructureFormatError | KNotImplementedError | KUnicodeDecodeError => Some (e_str e)
  | _ => None
  end.

(* stdout is `out`, status is `code`, no traceback, stderr is one message line (newline-free when `premise` holds) *)
Definition says_error (r : result) (out : string) (code : Z) (premise : Prop) : Prop :=
  r_out r = out /\ r_status r = code /\ r_tb r = None /\
  exists msg, r_err r = msg ++ nl /\ msg <> "" /\ (premise -> no_nl msg = true).

Definition table_prop (argv : list string) (W : world) (L : library) (r : result) : Prop :=
  match GO argv with
  | GErr m => r = mkres "" (m ++ nl) 2%Z None
  | GOk opts args =>
      match first_info opts with
      | Some true => r = mkres (w_usage W) "" 0%Z None
      | Some false => r = mkres (w_version W) "" 0%Z None
      | None =>
          match args with
          | [] => r = mkres (w_brief W) "" 0%Z None
          | a0 :: rest =>
              match split_first ".." a0 with
              | None => says_error r "" 2%Z (no_nl a0 = true)
              | Some (i, o) =>
                  if mem i input_formats && mem o output_formats then
                    match rest with
                    | [] => says_error r "" 2%Z True
                    | file :: _ =>
                        match lib_convert W L file i o with
                        | (n, Ok text) => r = mkres (n ++ text) "" 0%Z None
                        | (n, Raise e) =>
                            match err_text e with
                            | Some txt => says_error r n 1%Z (no_nl file = true /\ no_nl txt = true)
                            | None => r_out r = n /\ r_status r = 1%Z /\ r_tb r = Some (kind_name (e_kind e))
                            end
                        end
                    end
                  else says_error r "" 2%Z (no_nl a0 = true)
              end
          end
      end
  end.

(* ------------------------------------------------------------------ environment lemmas *)
Lemma lookup_env_set_same : forall x v env, lookup x (env_set x v env) = Some v.
Proof.
  induction env as [|[y w] r IH]; cbn [env_set lookup].
  - now rewrite String.eqb_refl.
  - destruct (String.eqb x y) eqn:E; cbn [lookup]; rewrite ?String.eqb_refl, ?E; auto.
Qed.

Lemma env_set_twice : forall x v v' env, env_set x v' (env_set x v env) = env_set x v' env.
Proof.
  induction env as [|[y w] r IH]; cbn [env_set].
  - now rewrite String.eqb_refl.
  - destruct (String.eqb x y) eqn:E; cbn [env_set]; rewrite ?String.eqb_refl, ?E; auto. now rewrite IH.
Qed.

Lemma get_var_set_same : forall x v st, get_var x (set_var x v st) = Ok v.
Proof. intros. unfold get_var, set_var. cbn [st_env]. now rewrite lookup_env_set_same. Qed.

(* ------------------------------------------------------------------ the option loop *)
Lemma for_loop_info : forall (f : string -> state -> outcome) (u v : string),
  (forall o st, f o st =
     if mem o ["-h"; "--help"] then OExit 0%Z (put Stdout u (set_var "o" (VStr o) st))
     else if mem o ["-V"; "--version"] then OExit 0%Z (put Stdout v (set_var "o" (VStr o) st))
     else ONormal (set_var "o" (VStr o) st)) ->
  forall opts st,
    match first_info opts with
    | Some true => exists st', for_loop f opts st = OExit 0%Z st' /\ st_out st' = st_out st ++ u /\ st_err st' = st_err st
    | Some false => exists st', for_loop f opts st = OExit 0%Z st' /\ st_out st' = st_out st ++ v /\ st_err st' = st_err st
    | None => exists env', for_loop f opts st = ONormal (mkstate env' (st_opts st) (st_args st) (st_out st) (st_err st)) /\
                           (env' = st_env st \/ exists o, env' = env_set "o" (VStr o) (st_env st))
    end.
Proof.
  intros f u v Hf. induction opts as [|o r IH]; intros st.
  - cbn [first_info for_loop]. exists (st_env st). split; auto. now destruct st.
  - cbn [first_info for_loop]. rewrite Hf.
    destruct (mem o ["-h"; "--help"]).
    { eexists; split; [reflexivity|]. cbn. auto. }
    destruct (mem o ["-V"; "--version"]).
    { eexists; split; [reflexivity|]. cbn. auto. }
    specialize (IH (set_var "o" (VStr o) st)).
    destruct (first_info r) as [[|]|].
    + destruct IH as [st' [E [A B]]]. exists st'. auto.
    + destruct IH as [st' [E [A B]]]. exists st'. auto.
    + destruct IH as [env' [E H]]. exists env'. split; [exact E|].
      right. cbn [set_var st_env] in H. destruct H as [-> | [o' ->]].
      * now exists o.
      * exists o'. apply env_set_twice.
Qed.

(* ------------------------------------------------------------------ symbolic execution *)
Ltac ex := cbn [exec exec_handlers eval eval_cond eval_piece eval_pieces get_var get_arg lookup set_var env_set put
                str_of attr_of stru_of lib_call set_of for_loop st_env st_opts st_args st_out st_err
                sp_prog sp_in sp_out cli_spec cli_prog existsb isa e_kind e_str e_strerror
                String.eqb Ascii.eqb Bool.eqb andb orb negb nth_error List.length Nat.ltb Nat.leb fst snd
                py_split split_max finish init_state main r_out r_err r_status r_tb].

Lemma append_nil_l : forall s : string, "" ++ s = s.
Proof. reflexivity. Qed.

Ltac nonempty := repeat first [ progress (cbn [append]); discriminate | discriminate | apply app_neq_nil_r ].

Ltac split_facts := repeat match goal with
  | E : split_first _ ?a = Some (?i, ?o), H : no_nl ?a = true |- _ =>
      let H1 := fresh in let H2 := fresh in destruct (split_first_no_nl _ _ _ _ E H) as [H1 H2]; clear E
  end.

Ltac nonl := split_facts; repeat rewrite no_nl_app; repeat (apply andb_true_iff; split); try tauto; try reflexivity.

Ltac say_error :=
  unfold says_error; ex; repeat rewrite append_nil_l; repeat rewrite append_nil_r;
  split; [reflexivity | split; [reflexivity | split; [reflexivity |
    eexists; split; [reflexivity | split; [nonempty | intros; nonl]]]]].

(* destruct the scrutinee of some stuck match whose scrutinee contains no other match *)
Ltac break_match :=
  match goal with
  | |- context [match ?x with _ => _ end] =>
      lazymatch x with
      | context [match _ with _ => _ end] => fail
      | _ => destruct x eqn:?
      end
  end.

Ltac leaf := first [ reflexivity | say_error | (repeat split; reflexivity) ].

Ltac on_exn e :=
  unfold err_text; destruct (e_kind e) eqn:?K; ex;
  try match goal with |- context [e_strerror e] => destruct (e_strerror e) eqn:?Se; ex end;
  try match goal with H : e_kind e = _ |- _ => rewrite ?H end;
  leaf.

Ltac after_loop W L a0 rest :=
  let i := fresh "i" in let o := fresh "o" in let E := fresh "E" in let file := fresh "file" in
  let n1 := fresh "n1" in let n2 := fresh "n2" in let s := fresh "s" in let e := fresh "e" in let e2 := fresh "e2" in let text := fresh "text" in
  destruct (split_first ".." a0) as [[i o]|] eqn:E; ex; rewrite ?E; ex; [| say_error];
  destruct (mem i input_formats) eqn:?Mi; ex; [| say_error];
  destruct (mem o output_formats) eqn:?Mo; ex; [| say_error];
  destruct rest as [|file rest]; ex; [say_error |];
  unfold lib_convert, lib_input;
  destruct (String.eqb file "-") eqn:?Ef; ex;
  [ destruct (lib_readStr L (w_stdin W) i) as [n1 [s|e]] eqn:?R; ex;
    [ destruct (lib_writeStr L s o) as [n2 [text|e2]] eqn:?Wr; ex; [reflexivity | on_exn e2]
    | on_exn e ]
  | unfold lib_read; destruct (w_fs W file) as [?c | ?str ?se] eqn:?F; ex;
    [ destruct (lib_parseFile L file c i) as [n1 [s|e]] eqn:?R; ex;
      [ destruct (lib_writeStr L s o) as [n2 [text|e2]] eqn:?Wr; ex; [reflexivity | on_exn e2]
      | on_exn e ]
    | unfold err_text; ex; leaf ] ].

Theorem main_table : forall argv W L, table_prop argv W L (main cli_spec argv W L).
Proof.
  intros argv W L. unfold table_prop, main. ex.
  destruct (GO argv) as [opts args | m] eqn:G; ex; [| reflexivity].
  match goal with |- context [for_loop ?F opts ?S] =>
    pose proof (for_loop_info F (w_usage W) (w_version W)) as HL;
    assert (HF : forall o st, F o st =
       if mem o ["-h"; "--help"] then OExit 0%Z (put Stdout (w_usage W) (set_var "o" (VStr o) st))
       else if mem o ["-V"; "--version"] then OExit 0%Z (put Stdout (w_version W) (set_var "o" (VStr o) st))
       else ONormal (set_var "o" (VStr o) st));
    [ intros o st; ex; rewrite !get_var_set_same; ex;
      destruct (mem o ["-h"; "--help"]); ex; [reflexivity|];
      destruct (mem o ["-V"; "--version"]); ex; reflexivity
    | specialize (HL HF opts S) ]
  end.
  destruct (first_info opts) as [[|]|].
  - destruct HL as [st' [-> [A B]]]. ex. cbn in A, B. now rewrite A, B.
  - destruct HL as [st' [-> [A B]]]. ex. cbn in A, B. now rewrite A, B.
  - destruct HL as [env' [-> Henv]]. ex.
    destruct args as [|a0 rest]; ex.
    { destruct Henv as [-> | [o ->]]; reflexivity. }
    clear HF. cbn [st_env] in Henv.
    destruct Henv as [-> | [o1 ->]]; cbn [env_set]; after_loop W L a0 rest.
Qed.
