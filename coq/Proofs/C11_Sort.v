(* Order lemmas for the fingerprint: sorting is invariant under permutation. *)
From Coq Require Import ZArith List Bool Lia Permutation.
From DS Require Import Base.ZMat Base.SGDefs Model.C11_LookupDefs.
Import ListNotations.
Open Scope Z_scope.

Lemma lz_compare_eq a : forall b, lz_compare a b = Eq -> a = b.
Proof.
  induction a as [|x r IH]; intros [|y s]; cbn [lz_compare]; try discriminate; [reflexivity|].
  destruct (x ?= y) eqn:E; try discriminate. intros H. apply Z.compare_eq in E. subst. f_equal. auto.
Qed.
Lemma lz_compare_refl a : lz_compare a a = Eq.
Proof. induction a as [|x r IH]; cbn [lz_compare]; [reflexivity|]. rewrite Z.compare_refl. exact IH. Qed.
Lemma lz_compare_antisym a : forall b, lz_compare b a = CompOpp (lz_compare a b).
Proof.
  induction a as [|x r IH]; intros [|y s]; cbn [lz_compare CompOpp]; try reflexivity.
  rewrite (Z.compare_antisym x y). destruct (x ?= y); cbn [CompOpp]; auto.
Qed.
Lemma lz_compare_trans_lt a : forall b c, lz_compare a b = Lt -> lz_compare b c = Lt -> lz_compare a c = Lt.
Proof.
  induction a as [|x r IH]; intros [|y s] [|z t]; cbn [lz_compare]; try discriminate; try reflexivity.
  destruct (x ?= y) eqn:E1; destruct (y ?= z) eqn:E2; try discriminate; intros H1 H2.
  - apply Z.compare_eq in E1, E2. subst. rewrite Z.compare_refl. eauto.
  - apply Z.compare_eq in E1. subst. rewrite E2. reflexivity.
  - apply Z.compare_eq in E2. subst. rewrite E1. reflexivity.
  - rewrite Z.compare_lt_iff in E1, E2. assert (x < z) by lia. apply Z.compare_lt_iff in H. rewrite H. reflexivity.
Qed.

Lemma leb_total a b : lz_leb a b = false -> lz_leb b a = true.
Proof. unfold lz_leb. rewrite (lz_compare_antisym a b). destruct (lz_compare a b); cbn; congruence. Qed.
Lemma leb_antisym a b : lz_leb a b = true -> lz_leb b a = true -> a = b.
Proof.
  unfold lz_leb. rewrite (lz_compare_antisym a b). destruct (lz_compare a b) eqn:E; cbn; try congruence.
  intros _ _. apply lz_compare_eq. exact E.
Qed.
Lemma leb_trans a b c : lz_leb a b = true -> lz_leb b c = true -> lz_leb a c = true.
Proof.
  unfold lz_leb. destruct (lz_compare a b) eqn:E1; destruct (lz_compare b c) eqn:E2; try congruence; intros _ _.
  - apply lz_compare_eq in E1, E2. subst. rewrite lz_compare_refl. reflexivity.
  - apply lz_compare_eq in E1. subst. rewrite E2. reflexivity.
  - apply lz_compare_eq in E2. subst. rewrite E1. reflexivity.
  - rewrite (lz_compare_trans_lt a b c E1 E2). reflexivity.
Qed.

Lemma insert_comm x y l : insert x (insert y l) = insert y (insert x l).
Proof.
  induction l as [|z l IH]; cbn [insert].
  - destruct (lz_leb x y) eqn:A, (lz_leb y x) eqn:B; cbn [insert]; rewrite ?A, ?B; try reflexivity.
    + rewrite (leb_antisym x y A B). reflexivity.
    + apply leb_total in A. congruence.
  - destruct (lz_leb y z) eqn:Yz, (lz_leb x z) eqn:Xz; cbn [insert]; rewrite ?Yz, ?Xz.
    + destruct (lz_leb x y) eqn:A, (lz_leb y x) eqn:B; rewrite ?Yz, ?Xz; try reflexivity.
      * rewrite (leb_antisym x y A B). reflexivity.
      * apply leb_total in A. congruence.
    + (* y <= z, x > z : then y <= x and not x <= y *)
      assert (Zx : lz_leb z x = true) by (apply leb_total; exact Xz).
      assert (B : lz_leb y x = true) by (eapply leb_trans; eauto).
      destruct (lz_leb x y) eqn:A.
      * assert (lz_leb x z = true) by (eapply leb_trans; eauto). congruence.
      * cbn [insert]; rewrite ?Xz, ?Yz, ?A, ?B; reflexivity.
    + assert (Zy : lz_leb z y = true) by (apply leb_total; exact Yz).
      assert (A : lz_leb x y = true) by (eapply leb_trans; eauto).
      destruct (lz_leb y x) eqn:B.
      * assert (lz_leb y z = true) by (eapply leb_trans; eauto). congruence.
      * cbn [insert]; rewrite ?Xz, ?Yz, ?A, ?B; reflexivity.
    + rewrite IH. reflexivity.
Qed.

Lemma insert_perm x l : Permutation (insert x l) (x :: l).
Proof.
  induction l as [|y l IH]; cbn [insert]; [reflexivity|].
  destruct (lz_leb x y); [reflexivity|]. rewrite IH. apply perm_swap.
Qed.
Lemma isort_perm l : Permutation (isort l) l.
Proof. induction l as [|x l IH]; cbn; [constructor|]. rewrite insert_perm. constructor. exact IH. Qed.
Lemma isort_of_perm a b : Permutation a b -> isort a = isort b.
Proof.
  induction 1 as [|x a b _ IH|x y a|a b c _ IH1 _ IH2]; cbn [isort fold_right].
  - reflexivity.
  - change (fold_right insert [] a) with (isort a). change (fold_right insert [] b) with (isort b). rewrite IH. reflexivity.
  - apply insert_comm.
  - congruence.
Qed.

Lemma lz_eqb_eq a b : lz_eqb a b = true <-> a = b.
Proof.
  unfold lz_eqb. split.
  - destruct (lz_compare a b) eqn:E; try discriminate. intros _. apply lz_compare_eq; exact E.
  - intros ->. rewrite lz_compare_refl. reflexivity.
Qed.
Lemma fp_eqb_eq a : forall b, fp_eqb a b = true <-> a = b.
Proof.
  induction a as [|x r IH]; intros [|y s]; cbn [fp_eqb]; split; try discriminate; try reflexivity.
  - rewrite andb_true_iff, lz_eqb_eq, IH. intros [-> ->]. reflexivity.
  - intros H. inversion H. subst. rewrite andb_true_iff, lz_eqb_eq, IH. auto.
Qed.

(* fingerprint equality is exactly multiset equality of the rendered operations *)
Lemma fingerprint_perm_iff a b : fingerprint a = fingerprint b <-> Permutation (map op_key a) (map op_key b).
Proof.
  unfold fingerprint. split.
  - intros E. rewrite <- (isort_perm (map op_key a)), E. apply isort_perm.
  - apply isort_of_perm.
Qed.
