(* Kernel decision of the group axioms for shard 4 of the regenerated tables. *)
From Coq Require Import ZArith List Bool.
From DS Require Import Base.ZMat Base.SGDefs Model.GroupCheck Gen.SGTables4.
Lemma shard4_groups : forallb setting_group_ok shard4 = true.
Proof. vm_compute. reflexivity. Qed.
