(* C04 - keyword records: "title  " + text, "spcgr   " + text, and helpers about blank lines. *)
From Coq Require Import List Bool Arith NArith ZArith Lia.
From Coq Require Import Ascii.
From DS Require Import Base.C04_Text Base.C04_Decimal Model.C04_Fmt Model.C04_Xyz Model.C04_Pdffit.
From DS Require Import Proofs.C04_Fmt.
Import ListNotations.

Lemma rstrip_app_l a b : ends_ws a = false -> a <> [] -> rstrip (a ++ b) = a ++ rstrip b.
Proof.
  intros Ha Hn. unfold rstrip. rewrite rev_app_distr.
  destruct (lstrip_suffix (rev b)) as [p [Hp E]]. rewrite E at 1. rewrite <- app_assoc.
  destruct (lstrip (rev b)) as [|c r] eqn:El.
  - cbn [app]. rewrite lstrip_pad by (try exact Hp; exact Ha). cbn [rev app]. rewrite app_nil_r. apply rev_involutive.
  - rewrite lstrip_pad.
    + change ((c :: r) ++ rev a) with (c :: (r ++ rev a)). cbn [rev]. rewrite rev_app_distr, rev_involutive.
      rewrite <- app_assoc. reflexivity.
    + exact Hp.
    + cbn. pose proof (lstrip_starts (rev b)) as K. rewrite El in K. exact K.
Qed.

Lemma strip_rstrip y : strip (rstrip y) = strip y.
Proof.
  destruct (rstrip_prefix y) as [q [Hq E]]. destruct (strip_decompose (rstrip y)) as [p [q' [Hp [Hq' E']]]].
  rewrite E at 2. rewrite E' at 2. rewrite <- !app_assoc.
  symmetry. apply strip_pad_tok_pad; [exact Hp| |apply strip_starts|apply strip_ends].
  rewrite all_ws_app, Hq', Hq. reflexivity.
Qed.

Lemma strip_lpad p y : all_ws p = true -> strip (p ++ y) = strip y.
Proof.
  intros Hp. destruct (strip_decompose y) as [p' [q' [Hp' [Hq' E']]]]. rewrite E' at 1. rewrite app_assoc.
  apply strip_pad_tok_pad; [rewrite all_ws_app, Hp, Hp'; reflexivity|exact Hq'|apply strip_starts|apply strip_ends].
Qed.

Lemma split_ws_strip y : split_ws (strip y) = split_ws y.
Proof.
  destruct (strip_decompose y) as [p [q [Hp [Hq E]]]]. rewrite E at 2.
  assert (forall a b, all_ws a = true -> split_ws (a ++ b) = split_ws b) as L.
  { induction a as [|c a IH]; intros b H; [reflexivity|]. change (is_ws c && all_ws a = true) in H. apply andb_true_iff in H. destruct H as [Hc Ha].
    change ((c :: a) ++ b) with (c :: (a ++ b)). rewrite (split_ws_cons _ _ Hc). apply IH. exact Ha. }
  rewrite L by exact Hp. destruct q as [|c q]; [rewrite app_nil_r; reflexivity|].
  change (is_ws c && all_ws q = true) in Hq. apply andb_true_iff in Hq. destruct Hq as [Hc Hq].
  rewrite (split_mid _ _ _ Hc), (split_all_ws _ Hq), app_nil_r. reflexivity.
Qed.

(* keyword ++ (nothing | whitespace ...) *)
Lemma kw_line kwd X : no_ws kwd = true -> kwd <> [] -> (X = [] \/ starts_ws X = true) ->
  split_ws (kwd ++ X) = kwd :: split_ws X /\ lstrip (kwd ++ X) = kwd ++ X /\ skipn (List.length kwd) (kwd ++ X) = X.
Proof.
  intros Hk Hn HX. split; [|split].
  - destruct HX as [->|HX]; [rewrite app_nil_r; cbn; apply split_tok; assumption|].
    rewrite split_app by (left; exact HX). rewrite (split_tok _ Hk Hn). reflexivity.
  - apply lstrip_id. destruct kwd as [|c k]; [contradiction|]. cbn. cbn in Hk. apply andb_true_iff in Hk. destruct Hk as [Hc _].
    destruct (is_ws c); [discriminate|reflexivity].
  - clear. induction kwd; [reflexivity|exact IHkwd].
Qed.

(* decomposition of a record keyword literal "title  " into word and padding *)
Fixpoint kw_of (l : str) : str := match l with c :: r => if is_ws c then [] else c :: kw_of r | [] => [] end.
Fixpoint pad_of (l : str) : str := match l with c :: r => if is_ws c then l else pad_of r | [] => [] end.
Lemma kw_pad l : l = kw_of l ++ pad_of l.
Proof. induction l as [|c r IH]; [reflexivity|]. cbn. destruct (is_ws c); [reflexivity|]. cbn. f_equal. exact IH. Qed.
Definition kwlit_ok (l : str) : bool := no_ws (kw_of l) && nonempty (kw_of l) && all_ws (pad_of l) && nonempty (pad_of l).

Lemma rstrip_pad_starts p y : all_ws p = true -> p <> [] -> rstrip (p ++ y) = [] \/ starts_ws (rstrip (p ++ y)) = true.
Proof.
  intros Hp Hn. destruct (rstrip_prefix (p ++ y)) as [q [Hq E]]. destruct (rstrip (p ++ y)) as [|c r]; [left; reflexivity|right].
  destruct p as [|c' p']; [contradiction|]. cbn in E. inversion E; subst c'. cbn in Hp. apply andb_true_iff in Hp. cbn. tauto.
Qed.

(* the record  (lit + text).strip()  : first word and recovered text *)
Lemma kw_record_stripped lit txt : kwlit_ok lit = true ->
  let line := strip (lit ++ txt) in
  split_ws line = kw_of lit :: split_ws txt /\ strip (skipn (List.length (kw_of lit)) (lstrip line)) = strip txt.
Proof.
  unfold kwlit_ok. intros H. repeat (apply andb_true_iff in H; destruct H as [H ?]).
  assert (kw_of lit <> []) as Hn by (destruct (kw_of lit); [discriminate|discriminate]).
  assert (pad_of lit <> []) as Hpn by (destruct (pad_of lit); [discriminate|discriminate]).
  set (line := strip (lit ++ txt)). assert (line = kw_of lit ++ rstrip (pad_of lit ++ txt)) as El.
  { unfold line. rewrite (kw_pad lit) at 1. rewrite <- app_assoc. unfold strip. rewrite lstrip_id.
    - apply rstrip_app_l; [apply no_ws_ends; exact H|exact Hn].
    - destruct (kw_of lit) as [|c k]; [contradiction|]. cbn. cbn in H. apply andb_true_iff in H. destruct H as [Hc _]. destruct (is_ws c); [discriminate|reflexivity]. }
  destruct (kw_line (kw_of lit) (rstrip (pad_of lit ++ txt)) H Hn (rstrip_pad_starts _ _ H1 Hpn)) as [K1 [K2 K3]].
  rewrite El. split.
  - rewrite K1. f_equal. rewrite <- split_ws_strip, strip_rstrip, (strip_lpad _ _ H1). apply split_ws_strip.
  - rewrite K2, K3, strip_rstrip. apply strip_lpad. exact H1.
Qed.

(* the record  lit + text  (not stripped) *)
Lemma kw_record lit txt : kwlit_ok lit = true ->
  let line := lit ++ txt in
  split_ws line = kw_of lit :: split_ws txt /\ strip (skipn (List.length (kw_of lit)) (lstrip line)) = strip txt.
Proof.
  unfold kwlit_ok. intros H. repeat (apply andb_true_iff in H; destruct H as [H ?]).
  assert (kw_of lit <> []) as Hn by (destruct (kw_of lit); [discriminate|discriminate]).
  assert (pad_of lit <> []) as Hpn by (destruct (pad_of lit); [discriminate|discriminate]).
  set (line := lit ++ txt). assert (line = kw_of lit ++ (pad_of lit ++ txt)) as El by (unfold line; rewrite (kw_pad lit) at 1; rewrite <- app_assoc; reflexivity).
  assert (starts_ws (pad_of lit ++ txt) = true) as Hs.
  { destruct (pad_of lit) as [|c p]; [contradiction|]. cbn in *. apply andb_true_iff in H1. tauto. }
  destruct (kw_line (kw_of lit) (pad_of lit ++ txt) H Hn (or_intror Hs)) as [K1 [K2 K3]].
  rewrite El. split.
  - rewrite K1. f_equal. rewrite <- split_ws_strip, (strip_lpad _ _ H1). apply split_ws_strip.
  - rewrite K2, K3. apply strip_lpad. exact H1.
Qed.

(* trailing blank lines *)
Lemma rstrip_lines_last ls x : blank x = false -> rstrip_lines (ls ++ [x]) = ls ++ [x].
Proof. intros H. unfold rstrip_lines. rewrite rev_app_distr. cbn. rewrite H. cbn. rewrite rev_involutive. reflexivity. Qed.

Lemma blank_false_of_tokens x : split_ws x <> [] -> blank x = false.
Proof.
  intros H. unfold blank. destruct (strip x) as [|c r] eqn:E; [|reflexivity].
  exfalso. apply H. rewrite <- split_ws_strip, E. reflexivity.
Qed.

Lemma fix_body_parse p d : parse_float (fix_body p d) = Some (dq p d).
Proof. rewrite <- (lpad0 (fix_body p d)). exact (fix_roundtrip 0 p d). Qed.
Lemma int_body_parse z : parse_int (int_body z) = Some z.
Proof. rewrite <- (lpad0 (int_body z)). exact (int_roundtrip 0 z). Qed.

Lemma int_body_parse_float z : parse_float (int_body z) = Some (dnorm (Dec (z <? 0)%Z (Z.abs_N z) 0)).
Proof.
  pose proof (parse_float_body 0 (z <? 0)%Z (digitsN (Z.abs_N z)) [] (digitsN_lt10 _) (Forall_nil _) (digitsN_nonnil _)) as H.
  rewrite lpad0 in H. unfold body_of in H. rewrite !app_nil_r in H. rewrite bval_digitsN in H. exact H.
Qed.
