From Coq Require Import ZArith List Bool String Permutation.
From DS Require Import Base.ZMat Base.SGDefs Model.C11_LookupDefs Model.C11_Checks Proofs.C11_Sort Gen.SGTables Gen.LookupSpec.
From DS Require Import Proofs.C11_DecNames Proofs.C11_DecFp Proofs.C11_DecMisc.
Import ListNotations.


(* ---- FindSpaceGroup, for ALL operation lists ---- *)
Lemma lookup_last_sound tb fp : forall acc s,
  fp_lookup_last tb fp acc = Some s -> acc = Some s \/ In (fp, s) tb.
Proof.
  induction tb as [|[f x] r IH]; intros acc s; cbn [fp_lookup_last]; [auto|].
  intros H. apply IH in H. destruct H as [H|H]; [|right; right; exact H].
  destruct (fp_eqb f fp) eqn:E; [|left; exact H].
  inversion H; subst. apply fp_eqb_eq in E. subst. right. left. reflexivity.
Qed.

Theorem find_sound (all : list setting) ops s b :
  find_space_group all ops = Some (s, b) ->
  In s all /\ Permutation (map op_key ops) (map op_key (sg_ops s)) /\ (b = true <-> map op_key (sg_ops s) = map op_key ops).
Proof.
  unfold find_space_group. destruct (fp_lookup_last (fp_table all) (fingerprint ops) None) as [s'|] eqn:E; [|discriminate].
  intros H. inversion H; subst. clear H.
  apply lookup_last_sound in E. destruct E as [E|E]; [discriminate|].
  unfold fp_table in E. apply in_map_iff in E as [x [Hx Hin]]. inversion Hx; subst.
  split; [exact Hin|]. split.
  - apply fingerprint_perm_iff. symmetry. assumption.
  - unfold same_order. apply fp_eqb_eq.
Qed.

Lemma lookup_last_nomatch tb fp : forall acc, (forall f s, In (f, s) tb -> f <> fp) -> fp_lookup_last tb fp acc = acc.
Proof.
  induction tb as [|[f x] r IH]; intros acc H; cbn [fp_lookup_last]; [reflexivity|].
  destruct (fp_eqb f fp) eqn:E.
  - apply fp_eqb_eq in E. exfalso. apply (H f x); [left; reflexivity | exact E].
  - apply IH. intros f' s' Hin. apply (H f' s'). right. exact Hin.
Qed.

Lemma fps_nodup_spec l : fps_nodup l = true -> NoDup l.
Proof.
  induction l as [|x r IH]; cbn [fps_nodup]; intros H; [constructor|].
  apply andb_true_iff in H as [H1 H2]. constructor; [|auto].
  intros Hin. assert (existsb (fp_eqb x) r = true) by (apply existsb_exists; exists x; split; [exact Hin | apply fp_eqb_eq; reflexivity]).
  rewrite H in H1. discriminate.
Qed.

Lemma lookup_last_unique (all : list setting) : NoDup (map (fun s => fingerprint (sg_ops s)) all) ->
  forall s acc, In s all -> fp_lookup_last (fp_table all) (fingerprint (sg_ops s)) acc = Some s.
Proof.
  induction all as [|x r IH]; intros ND s acc Hin; [contradiction|].
  cbn [map] in ND. inversion ND as [|? ? Hnot ND']; subst.
  unfold fp_table. cbn [map fp_lookup_last]. fold (fp_table r).
  destruct Hin as [->|Hin].
  - assert (E : fp_eqb (fingerprint (sg_ops s)) (fingerprint (sg_ops s)) = true) by (apply fp_eqb_eq; reflexivity).
    rewrite E. apply lookup_last_nomatch. intros f s' Hin' Heq. apply Hnot.
    unfold fp_table in Hin'. apply in_map_iff in Hin' as [y [Hy Hy']].
    assert (Hf : f = fingerprint (sg_ops y)) by (inversion Hy; reflexivity).
    apply in_map_iff. exists y. split; [rewrite <- Hf; exact Heq | exact Hy'].
  - apply IH; assumption.
Qed.

Theorem find_complete_gen (all : list setting) : NoDup (map (fun s => fingerprint (sg_ops s)) all) ->
  forall s ops, In s all -> Permutation (map op_key ops) (map op_key (sg_ops s)) ->
  exists b, find_space_group all ops = Some (s, b).
Proof.
  intros ND s ops Hin HP. unfold find_space_group.
  assert (E : fingerprint ops = fingerprint (sg_ops s)) by (apply fingerprint_perm_iff; exact HP).
  rewrite E, (lookup_last_unique all ND s None Hin). eexists; reflexivity.
Qed.

Theorem find_complete : forall s ops, In s all_settings -> Permutation (map op_key ops) (map op_key (sg_ops s)) ->
  exists b, find_space_group all_settings ops = Some (s, b).
Proof. apply find_complete_gen. apply fps_nodup_spec. exact fingerprints_distinct_b. Qed.

Corollary find_any_order : forall s ops, In s all_settings -> Permutation ops (sg_ops s) ->
  exists b, find_space_group all_settings ops = Some (s, b).
Proof. intros s ops Hin HP. apply find_complete; [exact Hin | apply Permutation_map; exact HP]. Qed.

(* op_key is injective on operations in table range, so Permutation of keys is Permutation of operations there *)
Definition in_table_range (o : symop) : bool :=
  forallb (fun x => (0 <=? x)%Z && (x <? 12)%Z) (v3_entries (snd o)).

(* an identifier is accepted only if it (or one of its normalisations) is a key of the table *)
Lemma get_sound T id s : get_space_group T id = Some s -> exists k, lookup T k = Some s.
Proof.
  unfold get_space_group. intros H.
  repeat match type of H with
  | context [match lookup T ?k with _ => _ end] => let E := fresh "E" in destruct (lookup T k) eqn:E; [injection H as <-; eexists; exact E|]
  | context [match id with _ => _ end] => destruct id; [discriminate|]
  end.
  discriminate.
Qed.
Lemma get_direct T id s : lookup T id = Some s -> get_space_group T id = Some s.
Proof. unfold get_space_group. intros ->. reflexivity. Qed.
