(* C05 - group-theoretic part: congruence modulo lattice translations, the tabulated composition acts as
   composition modulo the lattice, multiplicity is kept when no new site symmetry appears, and the exact
   orbit partition of a list of positions. *)
From Coq Require Import ZArith QArith Qabs List Bool Lia.
From DS Require Import Base.ZMat Base.SGDefs Model.GroupCheck Model.C05_QBase Model.C05_PosCert Model.C05_Partition.
From DS Require Import Proofs.C05_QLemmas Proofs.C05_PosSound.
Import ListNotations.
Open Scope Q_scope.

(* --- integers inside Q ------------------------------------------------------------------------ *)
Lemma IsInt_Z z : IsInt (inject_Z z).
Proof. exists z. reflexivity. Qed.
Lemma IsInt_add a b : IsInt a -> IsInt b -> IsInt (a + b).
Proof. intros [x Hx] [y Hy]. exists (x + y)%Z. rewrite inject_Z_plus, Hx, Hy. reflexivity. Qed.
Lemma IsInt_opp a : IsInt a -> IsInt (- a).
Proof. intros [x Hx]. exists (- x)%Z. rewrite inject_Z_opp, Hx. reflexivity. Qed.
Lemma IsInt_sub a b : IsInt a -> IsInt b -> IsInt (a - b).
Proof. intros Ha Hb. unfold Qminus. apply IsInt_add; [exact Ha | apply IsInt_opp; exact Hb]. Qed.
Lemma IsInt_mulZ z a : IsInt a -> IsInt (inject_Z z * a).
Proof. intros [x Hx]. exists (z * x)%Z. rewrite inject_Z_mult, Hx. reflexivity. Qed.

Definition cong (u v : q3) : Prop := IsInt3 (q3sub u v).

Lemma cong_refl u : cong u u.
Proof.
  unfold cong, IsInt3. destruct u as [a b c]. q3s.
  repeat split; exists 0%Z; unfold Qminus; rewrite Qplus_opp_r; reflexivity.
Qed.

Lemma cong_of_eq u v : q3eq u v -> cong u v.
Proof.
  intros H. unfold cong. apply (IsInt3_eq (q3sub u u)); [|apply cong_refl].
  apply q3sub_eq; [apply q3eq_refl | exact H].
Qed.

Lemma cong_sym u v : cong u v -> cong v u.
Proof.
  unfold cong, IsInt3. destruct u as [a b c], v as [d e f]. q3s. intros (A & B & C).
  repeat split; [apply (IsInt_eq (- (a - d))) | apply (IsInt_eq (- (b - e))) | apply (IsInt_eq (- (c - f)))];
  try ring; apply IsInt_opp; assumption.
Qed.

Lemma cong_trans u v w : cong u v -> cong v w -> cong u w.
Proof.
  unfold cong, IsInt3. destruct u as [a b c], v as [d e f], w as [g h i]. q3s. intros (A & B & C) (A' & B' & C').
  repeat split; [apply (IsInt_eq ((a - d) + (d - g))) | apply (IsInt_eq ((b - e) + (e - h))) | apply (IsInt_eq ((c - f) + (f - i)))];
  try ring; apply IsInt_add; assumption.
Qed.

Lemma IsInt3_mq R v : IsInt3 v -> IsInt3 (mq R v).
Proof.
  destruct R as [r11 r12 r13 r21 r22 r23 r31 r32 r33], v as [a b c]. unfold IsInt3. q3s.
  cbn [m11 m12 m13 m21 m22 m23 m31 m32 m33]. intros (A & B & C).
  repeat split; repeat apply IsInt_add; apply IsInt_mulZ; assumption.
Qed.

Lemma opq_diff g u v : q3eq (q3sub (opq g u) (opq g v)) (mq (fst g) (q3sub u v)).
Proof.
  destruct g as [R t]. destruct R as [r11 r12 r13 r21 r22 r23 r31 r32 r33], t as [t1 t2 t3], u as [a b c], v as [d e f].
  q3s. cbn [m11 m12 m13 m21 m22 m23 m31 m32 m33 vx vy vz]. repeat split; ring.
Qed.

Lemma cong_opq g u v : cong u v -> cong (opq g u) (opq g v).
Proof.
  unfold cong. intros H. apply (IsInt3_eq _ _ (q3eq_sym _ _ (opq_diff g u v))). apply IsInt3_mq. exact H.
Qed.

Lemma opq_ident v : q3eq (opq ident v) v.
Proof.
  destruct v as [a b c]. unfold ident, I3, v0. q3s. cbn [m11 m12 m13 m21 m22 m23 m31 m32 m33 vx vy vz].
  change (inject_Z 1) with 1. change (inject_Z 0) with 0. repeat split; ring.
Qed.

Lemma Qmake_12 n : n # 12 == inject_Z n / 12.
Proof. unfold Qeq, Qdiv, Qmult, Qinv, inject_Z. cbn. ring. Qed.

(* one coordinate of  (compose a b)(v) - a(b(v))  is minus the carry of the translation reduction *)
Lemma carry_coord (a1 a2 a3 b11 b12 b13 b21 b22 b23 b31 b32 b33 s1 s2 s3 ta : Z) (v1 v2 v3 : Q) :
  IsInt (inject_Z (a1 * b11 + a2 * b21 + a3 * b31) * v1 + inject_Z (a1 * b12 + a2 * b22 + a3 * b32) * v2
         + inject_Z (a1 * b13 + a2 * b23 + a3 * b33) * v3 + (((a1 * s1 + a2 * s2 + a3 * s3 + ta) mod 12)%Z # 12)
         - (inject_Z a1 * (inject_Z b11 * v1 + inject_Z b12 * v2 + inject_Z b13 * v3 + (s1 # 12))
            + inject_Z a2 * (inject_Z b21 * v1 + inject_Z b22 * v2 + inject_Z b23 * v3 + (s2 # 12))
            + inject_Z a3 * (inject_Z b31 * v1 + inject_Z b32 * v2 + inject_Z b33 * v3 + (s3 # 12)) + (ta # 12))).
Proof.
  exists (- ((a1 * s1 + a2 * s2 + a3 * s3 + ta) / 12))%Z.
  rewrite (Z.mod_eq (a1 * s1 + a2 * s2 + a3 * s3 + ta) 12) by discriminate.
  remember ((a1 * s1 + a2 * s2 + a3 * s3 + ta) / 12)%Z as q.
  rewrite !Qmake_12. unfold Z.sub.
  rewrite !inject_Z_plus, !inject_Z_mult, !inject_Z_opp, ?inject_Z_mult.
  change (inject_Z 12) with 12. field.
Qed.

Lemma opq_compose a b v : cong (opq (compose a b) v) (opq a (opq b v)).
Proof.
  destruct a as [A ta], b as [B tb].
  destruct A as [a11 a12 a13 a21 a22 a23 a31 a32 a33], B as [b11 b12 b13 b21 b22 b23 b31 b32 b33].
  destruct ta as [ta1 ta2 ta3], tb as [s1 s2 s3], v as [v1 v2 v3].
  unfold cong, IsInt3, compose, D12, mmul, mvec, vadd, vmod. q3s.
  cbn [m11 m12 m13 m21 m22 m23 m31 m32 m33 vx vy vz fst snd].
  repeat split; apply carry_coord.
Qed.

(* --- the orbit relation is an equivalence when G is a group ------------------------------------ *)
Lemma ident_in G : IsGroup G -> In ident G.
Proof.
  intros H. pose proof (g_id_first G H) as E. destruct G as [|o r]; [discriminate|].
  cbn in E. injection E as ->. left. reflexivity.
Qed.

Lemma equivalent_refl G x : IsGroup G -> equivalent G x x.
Proof. intros H. exists ident. split; [apply ident_in; exact H | apply cong_of_eq, opq_ident]. Qed.

Lemma equivalent_sym G x y : IsGroup G -> equivalent G x y -> equivalent G y x.
Proof.
  intros H [g [Hg Hc]]. destruct (g_inv G H g Hg) as [b [Hb [_ Hbg]]].
  exists b. split; [exact Hb|]. fold (cong (opq b y) x).
  apply cong_trans with (opq b (opq g x)); [apply cong_opq, cong_sym; exact Hc|].
  apply cong_trans with (opq (compose b g) x); [apply cong_sym, opq_compose|].
  rewrite Hbg. apply cong_of_eq, opq_ident.
Qed.

Lemma equivalent_trans G x y z : IsGroup G -> equivalent G x y -> equivalent G y z -> equivalent G x z.
Proof.
  intros H [g [Hg Hc]] [h [Hh Hd]]. exists (compose h g). split; [apply (g_closed G H); assumption|].
  fold (cong (opq (compose h g) x) z).
  apply cong_trans with (opq h (opq g x)); [apply opq_compose|].
  apply cong_trans with (opq h y); [apply cong_opq; exact Hc | exact Hd].
Qed.

Lemma equivb_spec G x y : equivb G x y = true <-> equivalent G x y.
Proof.
  unfold equivb, equivalent, same_mod1. rewrite existsb_exists. split.
  - intros [g [Hg Hi]]. exists g. split; [exact Hg | apply is_int3_IsInt3; exact Hi].
  - intros [g [Hg Hi]]. exists g. split; [exact Hg | apply IsInt3_is_int3; exact Hi].
Qed.

(* --- multiplicity is kept when the moved generator gains no site symmetry ---------------------- *)
Lemma stab_iff G x g : In g (stab G x) <-> In g G /\ cong (opq g x) x.
Proof. split; [apply stab_In | intros [A B]; apply In_stab; assumption]. Qed.

Lemma pos_generic_multiplicity G c : IsGroup G -> pos_cert_ok G c = true ->
  forall p, (forall h, In h (stab G (moved c p)) -> In h (stab G (pc_x c))) ->
  forall i j fi fj gi gj, (i < j)%nat -> nth_error (pc_forms c) i = Some fi -> nth_error (pc_forms c) j = Some fj ->
    nth_error G (pf_rep fi) = Some gi -> nth_error G (pf_rep fj) = Some gj ->
    ~ IsInt3 (q3sub (opq gi (moved c p)) (opq gj (moved c p))).
Proof.
  intros HG Hok p Hnew i j fi fj gi gj Hij Hi Hj Ei Ej Hc.
  fold (cong (opq gi (moved c p)) (opq gj (moved c p))) in Hc.
  set (y := moved c p) in *. set (x := pc_x c) in *.
  assert (Hgi : In gi G) by (eapply nth_error_In; exact Ei).
  assert (Hgj : In gj G) by (eapply nth_error_In; exact Ej).
  destruct (g_inv G HG gj Hgj) as [b [Hb [Hjb Hbj]]].
  set (f := compose b gi). assert (Hf : In f G) by (apply (g_closed G HG); assumption).
  (* f fixes y modulo the lattice *)
  assert (Hfy : cong (opq f y) y).
  { apply cong_trans with (opq b (opq gi y)); [apply opq_compose|].
    apply cong_trans with (opq b (opq gj y)); [apply cong_opq; exact Hc|].
    apply cong_trans with (opq (compose b gj) y); [apply cong_sym, opq_compose|].
    rewrite Hbj. apply cong_of_eq, opq_ident. }
  assert (Hfx : cong (opq f x) x).
  { apply (stab_iff G x f). apply Hnew. apply (stab_iff G y f). split; assumption. }
  (* hence gi x = gj x modulo the lattice, which the certificate excludes *)
  apply (pos_distinct G c Hok i j fi fj Hij Hi Hj). unfold rep_img. rewrite Ei, Ej.
  fold x. fold (cong (opq gi x) (opq gj x)).
  apply cong_trans with (opq (compose gj b) (opq gi x)).
  { rewrite Hjb. apply cong_sym, cong_of_eq, opq_ident. }
  apply cong_trans with (opq gj (opq b (opq gi x))); [apply opq_compose|].
  apply cong_opq. apply cong_trans with (opq f x); [apply cong_sym, opq_compose | exact Hfx].
Qed.

(* --- exact orbit partition of a list -------------------------------------------------------------- *)
Lemma NoDup_app' (A : Type) (l1 l2 : list A) :
  NoDup l1 -> NoDup l2 -> (forall x, In x l1 -> ~ In x l2) -> NoDup (l1 ++ l2).
Proof.
  induction l1 as [|a l1 IH]; intros H1 H2 H; [exact H2|].
  cbn. inversion H1; subst. constructor.
  - rewrite in_app_iff. intros [Hi|Hi]; [contradiction | exact (H a (or_introl eq_refl) Hi)].
  - apply IH; [assumption | assumption | intros x Hx; apply H; right; exact Hx].
Qed.

Lemma filter_len (A : Type) (f : A -> bool) l : (List.length (filter f l) <= List.length l)%nat.
Proof. induction l as [|a l IH]; cbn; [lia|]. destruct (f a); cbn; lia. Qed.

Definition not_same_orbit_b (G : list symop) (xs : list q3) (c1 c2 : nat * list nat) : Prop :=
  equivb G (pos_at xs (fst c1)) (pos_at xs (fst c2)) = false.

Lemma core_go_spec G xs : forall fuel rem, (List.length rem <= fuel)%nat -> NoDup rem ->
  let cm := core_go G xs fuel rem in
  (forall k, In k rem -> exists c, In c cm /\ In k (snd c)) /\
  (forall c k, In c cm -> In k (snd c) ->
     In k rem /\ (k = fst c \/ equivb G (pos_at xs (fst c)) (pos_at xs k) = true)) /\
  (forall c, In c cm -> In (fst c) (snd c)) /\
  NoDup (concat (map snd cm)) /\
  ForallOrdPairs (not_same_orbit_b G xs) cm.
Proof.
  induction fuel as [|fuel IH]; intros rem Hl Hnd.
  - destruct rem; [|cbn in Hl; lia]. cbn. repeat split; try (intros; contradiction); constructor.
  - destruct rem as [|i r].
    + cbn. repeat split; try (intros; contradiction); constructor.
    + cbn [core_go]. set (same := fun k => equivb G (pos_at xs i) (pos_at xs k)).
      set (rest := filter (fun k => negb (same k)) r).
      apply NoDup_cons_iff in Hnd as [Hi Hr].
      assert (Hlr : (List.length rest <= fuel)%nat).
      { unfold rest. pose proof (filter_len nat (fun k => negb (same k)) r). cbn in Hl. lia. }
      assert (Hndr : NoDup rest) by (apply NoDup_filter; exact Hr).
      destruct (IH rest Hlr Hndr) as (I1 & I2 & I3 & I4 & I5). cbv zeta.
      repeat split.
      * intros k [<-|Hk].
        -- exists (i, i :: filter same r). split; [left; reflexivity | left; reflexivity].
        -- destruct (same k) eqn:E.
           ++ exists (i, i :: filter same r). split; [left; reflexivity|]. right. apply filter_In. auto.
           ++ destruct (I1 k) as [c [Hc Hkc]]; [apply filter_In; rewrite E; auto|].
              exists c. split; [right; exact Hc | exact Hkc].
      * destruct H as [<-|Hc].
        -- cbn [snd] in H0. destruct H0 as [<-|Hk]; [left; reflexivity|].
           apply filter_In in Hk as [Hk _]. right. exact Hk.
        -- destruct (I2 c k Hc H0) as [Hk _]. apply filter_In in Hk as [Hk _]. right. exact Hk.
      * destruct H as [<-|Hc].
        -- cbn [snd fst] in *. destruct H0 as [<-|Hk]; [left; reflexivity|].
           apply filter_In in Hk as [_ Hk]. right. exact Hk.
        -- exact (proj2 (I2 c k Hc H0)).
      * intros c [<-|Hc]; [left; reflexivity | apply I3; exact Hc].
      * cbn [map concat snd]. change (NoDup ((i :: filter same r) ++ concat (map snd (core_go G xs fuel rest)))).
        apply NoDup_app'.
        -- constructor; [intros Hin; apply filter_In in Hin as [Hin _]; contradiction | apply NoDup_filter; exact Hr].
        -- exact I4.
        -- intros k Hk Hk2. apply in_concat in Hk2 as [l [Hl2 Hkl]]. apply in_map_iff in Hl2 as [c [<- Hc]].
           destruct (I2 c k Hc Hkl) as [Hkr _]. apply filter_In in Hkr as [Hkr Hns].
           destruct Hk as [<-|Hk]; [contradiction|]. apply filter_In in Hk as [_ Hs]. rewrite Hs in Hns. discriminate.
      * constructor; [|exact I5]. apply Forall_forall. intros c Hc. unfold not_same_orbit_b. cbn [fst].
        pose proof (I3 c Hc) as Hg. destruct (I2 c (fst c) Hc Hg) as [Hgr _].
        apply filter_In in Hgr as [_ Hns]. unfold same in Hns. apply negb_true_iff in Hns. exact Hns.
Qed.

Lemma core_map_partition G xs : IsGroup G ->
  let cm := core_map G xs in
  (forall k, (k < List.length xs)%nat -> exists c, In c cm /\ In k (snd c)) /\
  (forall c, In c cm -> In (fst c) (snd c) /\
     forall k, In k (snd c) <-> ((k < List.length xs)%nat /\ equivalent G (pos_at xs (fst c)) (pos_at xs k))) /\
  NoDup (concat (map snd cm)).
Proof.
  intros HG. unfold core_map.
  destruct (core_go_spec G xs (List.length xs) (seq 0 (List.length xs))) as (S1 & S2 & S3 & S4 & S5).
  { rewrite seq_length. lia. }
  { apply seq_NoDup. }
  cbv zeta. split; [|split; [|exact S4]].
  - intros k Hk. apply S1. apply in_seq. lia.
  - intros c Hc. split; [apply S3; exact Hc|]. intros k. split.
    + intros Hk. destruct (S2 c k Hc Hk) as [Hr He]. split; [apply in_seq in Hr; lia|].
      destruct He as [->|He]; [apply equivalent_refl; exact HG | apply equivb_spec; exact He].
    + intros [Hk He]. destruct (S1 k) as [c' [Hc' Hk']]; [apply in_seq; lia|].
      destruct (S2 c' k Hc' Hk') as [_ He'].
      assert (E' : equivalent G (pos_at xs (fst c')) (pos_at xs k)).
      { destruct He' as [->|He']; [apply equivalent_refl; exact HG | apply equivb_spec; exact He']. }
      assert (E : equivalent G (pos_at xs (fst c)) (pos_at xs (fst c'))).
      { eapply equivalent_trans; [exact HG | exact He | apply equivalent_sym; [exact HG | exact E']]. }
      destruct (ForallOrdPairs_In S5 c c' Hc Hc') as [->|[R|R]].
      * exact Hk'.
      * unfold not_same_orbit_b in R. apply equivb_spec in E. rewrite E in R. discriminate.
      * unfold not_same_orbit_b in R. apply (equivalent_sym G _ _ HG) in E. apply equivb_spec in E. rewrite E in R. discriminate.
Qed.
