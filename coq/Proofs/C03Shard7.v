(* Kernel decision of the group axioms for shard 7 of the regenerated tables. *)
From Coq Require Import ZArith List Bool.
From DS Require Import Base.ZMat Base.SGDefs Model.GroupCheck Gen.SGTables7.
Lemma shard7_groups : forallb setting_group_ok shard7 = true.
Proof. vm_compute. reflexivity. Qed.
