(* C02 - the tolerance algorithm for an arbitrary `eps` argument (Model/C02_EpsTol.v):
   * for every well-formed pair of tolerances, a site whose distinct images are farther apart than BOTH the caller's
     eps (neighbour test) and the bin width of _Position2Tuple (bucket test) is expanded exactly;
   * in the exact mode (eps = 0: bin width 0, neighbour tolerance 0) EVERY site is expanded exactly;
   * the default instance is the model of Model/C02_Eps.v. *)
From Coq Require Import ZArith List Bool Lia.
From DS Require Import Base.ZMat Base.SGDefs Model.GroupCheck Model.C02_Orbit Model.C02_Eps Model.C02_Gen Model.C02_EpsTol.
From DS Require Import Proofs.C02_Action Proofs.C02_Expand Proofs.C02_EpsSound.
Import ListNotations.
Open Scope Z_scope.

Lemma pdiff1_self D a : 0 < D -> pdiff1 D a a = 0.
Proof.
  intros HD. unfold pdiff1. cbv zeta. replace (a - a) with 0 by ring. rewrite Z.div_0_l by lia.
  replace (0 - D * 0) with 0 by ring. destruct (D <? 2 * 0) eqn:E; [apply Z.ltb_lt in E; lia | reflexivity].
Qed.

Lemma boxdist_self D p : 0 < D -> boxdist D p p = 0.
Proof. intros HD. unfold boxdist. rewrite !pdiff1_self by exact HD. reflexivity. Qed.

Lemma lookup_combine_key (key : v3 -> v3) p P : forall s,
  (forall q, In q P -> key q = key p -> q = p) ->
  lookup (key p) (combine (map key P) (seq s (List.length P))) = option_map (fun i => (s + i)%nat) (find_idx p P).
Proof.
  induction P as [|q r IH]; intros s Hinj; cbn [map List.length seq combine lookup find_idx option_map]; [reflexivity|].
  destruct (v3_eqb (key p) (key q)) eqn:E.
  - apply v3_eqb_eq in E. assert (q = p) by (apply Hinj; [left; reflexivity | symmetry; exact E]). subst q.
    rewrite v3_eqb_refl. cbn. f_equal. lia.
  - assert (Hpq : v3_eqb p q = false).
    { apply v3_eqb_neq. intros ->. rewrite v3_eqb_refl in E. discriminate. }
    rewrite Hpq, IH by (intros q' Hq'; apply Hinj; right; exact Hq').
    destruct (find_idx p r); cbn; [f_equal; lia | reflexivity].
Qed.

Section Tol.
  Variable T : tol.
  Hypothesis Hwf : tol_wf T.

  Lemma tup1_t_collision D a b : 0 < D -> 0 <= a < D -> 0 <= b < D -> tup1_t T D a = tup1_t T D b ->
    Z.abs (a - b) * tb_den T <= D * tb_num T /\ (tb_num T = 0 -> a = b).
  Proof.
    destruct Hwf as [_ [_ [Hbn Hbd]]].
    intros HD Ha Hb E. unfold tup1_t in E. rewrite !frac_small in E by assumption.
    destruct (tb_num T =? 0) eqn:Ez.
    - apply Z.eqb_eq in Ez. subst b. rewrite Ez. replace (a - a) with 0 by ring. cbn. split; [lia | reflexivity].
    - apply Z.eqb_neq in Ez. apply div_same_close in E; [|nia].
      replace (a * tb_den T - b * tb_den T) with ((a - b) * tb_den T) in E by ring.
      rewrite Z.abs_mul, (Z.abs_eq (tb_den T)) in E by lia. split; [lia | intros; contradiction].
  Qed.

  Lemma max3_mul_le m a b c X : 0 < m -> a * m <= X -> b * m <= X -> c * m <= X -> Z.max (Z.max a b) c * m <= X.
  Proof. intros Hm Ha Hb Hc. destruct (Z.max_spec (Z.max a b) c) as [[_ ->]|[_ ->]]; [exact Hc|]. destruct (Z.max_spec a b) as [[_ ->]|[_ ->]]; assumption. Qed.

  Lemma far_t_tup_neq D p q : 0 < D -> in_cell D p -> in_cell D q -> far_t T D p q -> tup_t T D p <> tup_t T D q.
  Proof.
    destruct Hwf as [_ [_ [Hbn Hbd]]].
    intros HD [Hp1 [Hp2 Hp3]] [Hq1 [Hq2 Hq3]] [_ Hfar] E. unfold tup_t in E. inversion E as [[E1 E2 E3]].
    apply tup1_t_collision in E1 as [C1 Z1]; try assumption. apply tup1_t_collision in E2 as [C2 Z2]; try assumption.
    apply tup1_t_collision in E3 as [C3 Z3]; try assumption.
    pose proof (pdiff1_bound D (vx p) (vx q) HD Hp1 Hq1) as B1. pose proof (pdiff1_bound D (vy p) (vy q) HD Hp2 Hq2) as B2.
    pose proof (pdiff1_bound D (vz p) (vz q) HD Hp3 Hq3) as B3.
    assert (Hle : boxdist D p q * tb_den T <= D * tb_num T).
    { unfold boxdist. apply max3_mul_le; [exact Hbd | nia | nia | nia]. }
    nia.
  Qed.

  Lemma far_t_not_equal D p q : 0 < D -> far_t T D p q -> equal_pos_t T D p q = false.
  Proof.
    destruct Hwf as [Hqn [Hqd _]].
    intros HD [Hfar _]. destruct (equal_pos_t T D p q) eqn:E; [|reflexivity]. exfalso.
    unfold equal_pos_t, le_eps_t in E. rewrite !andb_true_iff, !Z.leb_le in E. destruct E as [[E1 E2] E3].
    assert (Hle : boxdist D p q * tq_den T <= tq_num T * D) by (unfold boxdist; apply max3_mul_le; assumption).
    nia.
  Qed.

  Section Sound.
    Variable D : Z.
    Variable G : list symop.
    Variables off x : v3.
    Hypothesis HD : 0 < D.
    Hypothesis Hsep : separated_t T D G off x.

    Let im (g : symop) : v3 := img D g off x.

    Record SimT (acc : list bucket) (s : st) : Prop := {
      simt_pos : s_pos s = map fst acc;
      simt_heap : s_heap s = map snd acc;
      simt_dict : s_dict s = combine (map (tup_t T D) (s_pos s)) (seq 0 (List.length (s_pos s)))
    }.

    Lemma tup_t_inj_images g h : In g G -> In h G -> tup_t T D (im g) = tup_t T D (im h) -> im g = im h.
    Proof.
      intros Hg Hh E.
      destruct (v3_eqb (im g) (im h)) eqn:Eb; [apply v3_eqb_eq in Eb; exact Eb|].
      apply v3_eqb_neq in Eb. exfalso.
      apply (far_t_tup_neq D (im g) (im h) HD); [apply img_in_cell; exact HD | apply img_in_cell; exact HD | | exact E].
      apply Hsep; assumption.
    Qed.

    Lemma simt_step pre acc s g :
      (forall g', In g' pre -> In g' G) -> In g G -> Inv D off x pre acc -> SimT acc s ->
      SimT (insert (im g) g acc) (eps_step_t T D off x s g).
    Proof.
      intros Hpre Hg HI [Hp Hh Hd].
      assert (Hkeys : forall q, In q (map fst acc) -> exists g', In g' G /\ im g' = q).
      { intros q Hq. apply (inv_keys D off x pre acc HI) in Hq as [g' [H1 H2]]. exists g'. split; [apply Hpre; exact H1 | exact H2]. }
      unfold eps_step_t. cbv zeta. rewrite wrap_red by exact HD. fold (img D g off x). fold (im g).
      rewrite Hd, Hp.
      rewrite (lookup_combine_key (tup_t T D) (im g) (map fst acc) 0).
      2:{ intros q Hq E. destruct (Hkeys q Hq) as [g' [Hg' <-]]. apply tup_t_inj_images; assumption. }
      destruct (find_idx (im g) (map fst acc)) as [i|] eqn:Ei; cbn [option_map].
      - destruct (insert_hit (im g) g acc i Ei) as [H1 H2].
        constructor; cbn [s_pos s_dict s_heap].
        + exact (eq_sym H1).
        + rewrite Hh. exact (eq_sym H2).
        + reflexivity.
      - assert (Hnot : ~ In (im g) (map fst acc)) by (apply find_idx_none; exact Ei).
        assert (Hmerged :
          match map fst acc with
          | [] => None
          | _ :: _ =>
              if equal_pos_t T D (nth (nearest_index D (map fst acc) (im g)) (map fst acc) (im g)) (im g)
              then Some (lookup_def (tup_t T D (nth (nearest_index D (map fst acc) (im g)) (map fst acc) (im g)))
                     (combine (map (tup_t T D) (map fst acc)) (seq 0 (List.length (map fst acc))) ++
                      [(tup_t T D (im g), List.length (s_heap s))]))
              else None
          end = None).
        { destruct (map fst acc) as [|q0 r0] eqn:EP; [reflexivity|].
          set (k := nearest_index D (q0 :: r0) (im g)).
          assert (Hk : (k < List.length (q0 :: r0))%nat) by (apply nearest_index_lt; discriminate).
          pose proof (nth_In (q0 :: r0) (im g) Hk) as Hin.
          destruct (Hkeys _ Hin) as [g' [Hg' Eg']].
          rewrite far_t_not_equal; [reflexivity | exact HD |].
          rewrite <- Eg'. apply Hsep; [exact Hg' | exact Hg |].
          fold (im g') (im g). rewrite Eg'. intros E. apply Hnot. rewrite <- E. exact Hin. }
        rewrite Hmerged. rewrite (insert_miss (im g) g acc Ei).
        constructor; cbn [s_pos s_dict s_heap].
        + rewrite map_app. reflexivity.
        + rewrite heap_app_end, Hh, map_app. reflexivity.
        + rewrite map_app, app_length. cbn [map List.length]. rewrite Nat.add_1_r, seq_S.
          rewrite combine_app by (rewrite map_length, seq_length; reflexivity).
          cbn [combine Nat.add]. rewrite Hh, !map_length. reflexivity.
    Qed.

    Lemma simt_fold rest : forall pre acc s,
      (forall g, In g pre -> In g G) -> (forall g, In g rest -> In g G) -> Inv D off x pre acc -> SimT acc s ->
      SimT (fold_left (fun acc g => insert (im g) g acc) rest acc) (fold_left (eps_step_t T D off x) rest s) /\
      Inv D off x (pre ++ rest) (fold_left (fun acc g => insert (im g) g acc) rest acc).
    Proof.
      induction rest as [|g rest IH]; intros pre acc s Hpre Hrest HI HS; cbn [fold_left].
      - rewrite app_nil_r. split; assumption.
      - replace (pre ++ g :: rest) with ((pre ++ [g]) ++ rest) by (rewrite <- app_assoc; reflexivity).
        apply IH.
        + intros g' Hg'. apply in_app_or in Hg' as [Hg'|[<-|[]]]; [apply Hpre; exact Hg' | apply Hrest; left; reflexivity].
        + intros g' Hg'. apply Hrest. right. exact Hg'.
        + apply inv_step. exact HI.
        + apply (simt_step pre); try assumption. apply Hrest. left. reflexivity.
    Qed.

    Theorem expand_eps_t_exact : expand_eps_t T D G off x = expand_exact D G off x.
    Proof.
      unfold expand_eps_t, expand_exact, expand_steps.
      destruct (simt_fold G [] [] (St [] [] [])) as [[Hp Hh Hd] HI].
      - intros g [].
      - intros g Hg. exact Hg.
      - apply inv_nil.
      - constructor; reflexivity.
      - cbn [app] in HI. unfold im in Hp, Hh, Hd, HI.
        set (acc := fold_left (fun acc g => insert (img D g off x) g acc) G []) in *.
        set (s := fold_left (eps_step_t T D off x) G (St [] [] [])) in *.
        rewrite Hp, map_length. f_equal. f_equal.
        rewrite Hd, Hp, Hh.
        transitivity (map (fun p => nth (idx_def p (map fst acc)) (map snd acc) []) (map fst acc));
          [| apply lists_by_index; [apply (inv_nodup D off x G acc HI) | rewrite !map_length; reflexivity]].
        apply map_ext_in. intros p Hp'. f_equal. unfold lookup_def, idx_def.
        rewrite (lookup_combine_key (tup_t T D) p (map fst acc) 0).
        + destruct (find_idx p (map fst acc)); reflexivity.
        + intros q Hq E.
          apply (inv_keys D off x G acc HI) in Hq as [g1 [Hg1 <-]].
          apply (inv_keys D off x G acc HI) in Hp' as [g2 [Hg2 <-]].
          apply tup_t_inj_images; assumption.
    Qed.
  End Sound.
End Tol.

(* ---------- the exact mode: eps = 0 ---------- *)
Definition tol_exact (T : tol) : Prop := tq_num T = 0 /\ tb_num T = 0 /\ 0 < tq_den T /\ 0 < tb_den T.

Lemma pdiff1_zero_eq D a b : 0 < D -> 0 <= a < D -> 0 <= b < D -> pdiff1 D a b = 0 -> a = b.
Proof.
  intros HD Ha Hb. unfold pdiff1. cbv zeta.
  destruct (Z_lt_le_dec (a - b) 0) as [Hn|Hp].
  - assert (Hq : (a - b) / D = -1) by (symmetry; apply (Z.div_unique (a - b) D (-1) (a - b + D)); lia).
    rewrite Hq. destruct (D <? 2 * (a - b - D * -1)) eqn:E; [apply Z.ltb_lt in E | apply Z.ltb_ge in E]; lia.
  - rewrite Z.div_small by lia.
    destruct (D <? 2 * (a - b - D * 0)) eqn:E; [apply Z.ltb_lt in E | apply Z.ltb_ge in E]; lia.
Qed.

Lemma boxdist_pos D p q : 0 < D -> in_cell D p -> in_cell D q -> p <> q -> 0 < boxdist D p q.
Proof.
  intros HD [P1 [P2 P3]] [Q1 [Q2 Q3]] Hne.
  pose proof (pdiff1_bound D (vx p) (vx q) HD P1 Q1). pose proof (pdiff1_bound D (vy p) (vy q) HD P2 Q2).
  pose proof (pdiff1_bound D (vz p) (vz q) HD P3 Q3).
  destruct (Z.eq_dec (boxdist D p q) 0) as [E|E]; [|unfold boxdist in *; lia].
  exfalso. apply Hne. unfold boxdist in E.
  apply v3_ext; apply (pdiff1_zero_eq D); try assumption; lia.
Qed.

(* with eps = 0 every site is separated: distinct points of the torus are at positive distance *)
Lemma exact_mode_separated T D G off x : tol_exact T -> 0 < D -> separated_t T D G off x.
Proof.
  intros [Hq [Hb [Hqd Hbd]]] HD g h _ _ Hne. unfold far_t. rewrite Hq, Hb.
  pose proof (boxdist_pos D _ _ HD (img_in_cell D g off x HD) (img_in_cell D h off x HD) Hne). nia.
Qed.

Theorem expand_eps_exact_mode T D G off x : tol_exact T -> 0 < D ->
  expand_eps_t T D G off x = expand_exact D G off x.
Proof.
  intros HT HD. apply expand_eps_t_exact; [|exact HD | apply exact_mode_separated; assumption].
  destruct HT as [Hq [Hb [Hqd Hbd]]]. unfold tol_wf. lia.
Qed.

(* ---------- what `eps` arguments mean ---------- *)
Lemma tol_of_default : tol_of None = default_tol.
Proof. vm_compute. reflexivity. Qed.

Lemma tol_of_zero : tol_of (Some (0, 1)) = Tol 0 1 0 1.
Proof. vm_compute. reflexivity. Qed.

Lemma tol_zero_exact : tol_exact (tol_of (Some (0, 1))).
Proof. rewrite tol_of_zero. unfold tol_exact. cbn. lia. Qed.

(* the default instance is the model of Model/C02_Eps.v / Model/C02_Gen.v *)
Lemma tup_t_default D p : tup_t default_tol D p = tup D p.
Proof.
  unfold tup_t, tup, tup1_t, tup1, default_tol. cbn [tb_num tb_den].
  change (eps_b_num =? 0) with false. cbv iota. reflexivity.
Qed.

Lemma equal_pos_t_default D p q : equal_pos_t default_tol D p q = equal_pos D p q.
Proof. unfold equal_pos_t, equal_pos, le_eps_t, le_eps, default_tol. cbn [tq_num tq_den]. reflexivity. Qed.

Lemma eps_step_t_default D off x s g : eps_step_t default_tol D off x s g = eps_step D off x s g.
Proof.
  unfold eps_step_t, eps_step. cbv zeta. rewrite tup_t_default.
  destruct (lookup (tup D (wrap D (raw_img D g off x))) (s_dict s)); [reflexivity|].
  destruct (s_pos s) as [|q0 r0]; [reflexivity|].
  rewrite tup_t_default, equal_pos_t_default. reflexivity.
Qed.

Lemma fold_left_ext {A B} (f f' : A -> B -> A) l : (forall a b, f a b = f' a b) -> forall a, fold_left f l a = fold_left f' l a.
Proof. intros H. induction l as [|b r IH]; intros a; cbn; [reflexivity|]. rewrite H. apply IH. Qed.

Lemma expand_eps_t_default D G off x : expand_eps_t default_tol D G off x = expand_eps D G off x.
Proof.
  unfold expand_eps_t, expand_eps, eps_run.
  rewrite (fold_left_ext (eps_step_t default_tol D off x) (eps_step D off x) G (eps_step_t_default D off x)).
  cbv zeta. f_equal.
Qed.

Lemma zero_small_t_default Dn v : zero_small_t default_tol Dn v = zero_small Dn v.
Proof. unfold zero_small_t, zero_small, zero_small1_t, zero_small1, default_tol. cbn [tq_num tq_den]. reflexivity. Qed.

Lemma generator_site_t_default D G off x : generator_site_t default_tol D G off x = generator_site D G off x.
Proof.
  unfold generator_site_t, generator_site, generator_site_from_t, generator_site_from.
  rewrite expand_eps_t_default. destruct (expand_eps D G off x) as [[sites ops] mult].
  destruct (find_invariants ops) as [inv|]; [|reflexivity].
  destruct (1 <? List.length inv)%nat; [|reflexivity].
  destruct (v3_eqb (snap_sum D inv off x) v0); [reflexivity|].
  rewrite zero_small_t_default, expand_eps_t_default. reflexivity.
Qed.

Lemma default_tol_wf : tol_wf default_tol.
Proof. unfold tol_wf, default_tol, eps_eq_num, eps_eq_den, eps_b_num, eps_b_den. cbn. lia. Qed.

(* for the default eps, "farther than 2e-5" implies "farther than both tolerances" *)
Lemma far_default D p q : 0 < D -> far D p q -> far_t default_tol D p q.
Proof.
  intros HD H. unfold far in H. unfold far_t, default_tol. cbn [tq_num tq_den tb_num tb_den].
  unfold eps_eq_num, eps_eq_den, eps_b_num, eps_b_den. lia.
Qed.

(* eps = 1e-7 and eps = 1e-3 (exact values of the doubles): the derived bin widths are well formed *)
Example tol_of_small_large :
  tol_of (Some (944473296573929, 2 ^ 73)) = Tol 944473296573929 (2 ^ 73) 450359963 (2 ^ 52) /\
  tol_of (Some (1152921504606847, 2 ^ 60)) = Tol 1152921504606847 (2 ^ 60) 2251799813685 (2 ^ 51) /\
  tol_wfb (tol_of (Some (944473296573929, 2 ^ 73))) && tol_wfb (tol_of (Some (1152921504606847, 2 ^ 60))) = true.
Proof. vm_compute. repeat split; reflexivity. Qed.

Lemma tol_wfb_spec T : tol_wfb T = true -> tol_wf T.
Proof. unfold tol_wfb, tol_wf. rewrite !andb_true_iff, !Z.leb_le, !Z.ltb_lt. tauto. Qed.

(* Why the two tolerances must agree: with neighbour tolerance 0 but a bin width of 1e-5 (what
   `eps = eps or epsilon` in _Position2Tuple would produce for eps = 0) a site 2^-22 away from an inversion centre
   that lies mid-bin (origin offset 2^-9 + 2^-19) is merged with its inversion image: 1 position, the exact
   expansion has 2.  With the correct exact mode the model returns 2. *)
Example mismatched_tolerances_merge :
  let G := [(I3, v0); (M3 (-1) 0 0 0 (-1) 0 0 0 (-1), v0)] in
  let D := 12 * 2 ^ 22 in let off := V3 98400 0 0 in let x := V3 (D - 98400 + 12) 0 (D / 2) in
  snd (expand_eps_t (Tol 0 1 eps_b_num eps_b_den) D G off x) = 1%nat /\
  snd (expand_eps_t (tol_of (Some (0, 1))) D G off x) = 2%nat /\
  snd (expand_exact D G off x) = 2%nat.
Proof. vm_compute. repeat split; reflexivity. Qed.
