(* C09 - the statements of Props/C09.v in the form "after any history". *)
From Coq Require Import Reals Lra List Bool.
From DS Require Import Base.RMat Base.C09_GNum Model.C09_Prims Gen.C09_AtomFormulas Model.C09_AtomADP
  Proofs.C09_Algebra Proofs.C09_Machine.
Import ListNotations.
Open Scope R_scope.

Section Hist.
Variable eps : R.
Hypothesis eps_pos : 0 < eps.
Local Notation C := (RC eps).

(* a reachable state: any history of well-formed operations applied to a state satisfying the invariant
   (Atom() is such a state) *)
Definition reach (s : astate R) : Prop := exists s0 ops, inv s0 /\ Forall op_ok ops /\ s = run C s0 ops.

Lemma reach_inv s : reach s -> inv s.
Proof. intros [s0 [ops [H0 [Hf E]]]]. subst. apply run_inv; assumption. Qed.
Lemma reach_init : reach (init C).
Proof. exists (init C), []. split; [apply init_inv | split; [constructor | reflexivity]]. Qed.
Lemma reach_step s o : reach s -> op_ok o -> reach (step C s o).
Proof.
  intros [s0 [ops [H0 [Hf E]]]] Ho. exists s0, (ops ++ [o]). split; [exact H0|]. split.
  - apply Forall_app. split; [exact Hf | constructor; [exact Ho | constructor]].
  - unfold run. rewrite fold_left_app. cbn [fold_left]. subst. reflexivity.
Qed.

Lemma h_u_symmetric s : reach s -> gsym (rd_U C s).
Proof. intros H. apply rd_U_sym; [exact eps_pos | apply reach_inv; exact H]. Qed.

Lemma h_iso_tensor s : reach s -> rd_aniso C s = false -> rd_U C s = gmscale ROps (rd_Uiso C s) (iso_of eps s).
Proof. intros _ E. apply iso_tensor. exact E. Qed.

Lemma h_B_is_8pi2_U s : reach s ->
  (forall n, get_Bn C n s = 8 * (PI * PI) * get_Un C n s) /\ rd_Biso C s = 8 * (PI * PI) * rd_Uiso C s /\
  (forall n, get_Un C n s = mget (rd_U C s) (name_i n) (name_j n)).
Proof.
  intros _. split; [intros n; apply get_Bn_char | split; [apply Biso_char | intros n; apply get_Un_rd_U]].
Qed.

Lemma h_uiso_third_trace s : reach s ->
  rd_Uiso C s = mtrace (mmul (mT (N_of eps s)) (mmul (toM (rd_U C s)) (N_of eps s))) / 3.
Proof. intros H. apply uiso_third_trace; [exact eps_pos | apply reach_inv; exact H]. Qed.

Lemma h_flag_off_on s : reach s ->
  let s' := step C (step C s (OSetAniso (negb (rd_aniso C s)))) (OSetAniso (rd_aniso C s)) in
  rd_Uiso C s' = rd_Uiso C s /\ rd_aniso C s' = rd_aniso C s.
Proof.
  intros H. cbn [step]. split; [apply flag_roundtrip; [exact eps_pos | apply reach_inv; exact H] | apply set_aniso_flag].
Qed.

Lemma h_flag_switch_keeps_uiso s b : reach s -> rd_Uiso C (step C s (OSetAniso b)) = rd_Uiso C s.
Proof. intros H. apply set_aniso_keeps_uiso; [exact eps_pos | apply reach_inv; exact H]. Qed.

(* set / get laws *)
Lemma h_set_get s : reach s ->
  (forall b, rd_aniso C (step C s (OSetAniso b)) = b) /\
  (forall m, rd_U C (step C s (OSetU m)) = if rd_aniso C s then m else gmscale ROps (mget m i0 i0) (iso_of eps s)) /\
  (forall n v, rd_aniso C s = true -> get_Un C n (step C s (OSetUij n v)) = v /\ get_Bn C n (step C s (OSetBij n v)) = v) /\
  (forall n v, rd_aniso C s = false -> name_diag n = true -> rd_Uiso C (step C s (OSetUij n v)) = v) /\
  (forall n v, rd_aniso C s = false -> name_diag n = false -> observe C (step C s (OSetUij n v)) = observe C s) /\
  (forall v, rd_Uiso C (step C s (OSetUiso v)) = v) /\
  (forall v, rd_Biso C (step C s (OSetBiso v)) = v).
Proof.
  intros H. pose proof (reach_inv s H) as Hi. repeat split.
  - intros b. apply set_aniso_flag.
  - intros m. apply setU_get.
  - apply setUn_get_aniso; assumption.
  - apply setBn_get_aniso; assumption.
  - intros n v E Hd. apply (setUn_iso_diag eps s n v E Hd).
  - intros n v E Hd. apply observe_obs_eq. destruct (setUn_iso_offdiag eps s n v E Hd) as [A [B D]].
    unfold rd_aniso, get_anisotropy in E. cbv zeta in E.
    split; [cbn [step]; rewrite B, E; reflexivity | split; [exact D | cbn [step]; rewrite B; exact A]].
  - intros v. apply setUiso_get; assumption.
  - intros v. apply setBiso_get; assumption.
Qed.

Lemma h_msd s v : reach s ->
  rd_msdLat C s v = rd_msdCart C s (Lattice_cartesian C (the_lat C s) v) /\
  (rd_aniso C s = false -> forall w, rd_msdLat C s w = rd_Uiso C s /\ rd_msdCart C s w = rd_Uiso C s) /\
  step C s (OMsdLat v) = s.
Proof.
  intros H. pose proof (reach_inv s H) as Hi. split; [|split].
  - destruct (st_aniso s) eqn:E.
    + apply msd_lat_cart; assumption.
    + destruct (msd_flag_off eps s v E) as [A _]. destruct (msd_flag_off eps s (Lattice_cartesian C (the_lat C s) v) E) as [_ B].
      rewrite A, B. reflexivity.
  - intros E w. apply msd_flag_off. exact E.
  - apply msdLat_pure.
Qed.

(* stale storage: histories started from observationally equal states stay observationally equal *)
Lemma h_stale_storage_harmless s s' ops : obs_eq s s' ->
  observe C (run C s ops) = observe C (run C s' ops) /\
  forall v, rd_msdLat C (run C s ops) v = rd_msdLat C (run C s' ops) v /\ rd_msdCart C (run C s ops) v = rd_msdCart C (run C s' ops) v.
Proof.
  intros H. pose proof (run_obs_eq eps ops s s' H) as H'. split; [apply observe_obs_eq; exact H' | intros v; apply msd_obs_eq; exact H'].
Qed.
End Hist.

Lemma epsilon_generated_positive : 0 < c_lat_epsilon (RC 1).
Proof. unfold c_lat_epsilon. cbv zeta. cbn. lra. Qed.

(* the hypotheses are satisfiable by a non-trivial (oblique) lattice and a non-trivial history *)
Lemma example_history : exists s, reach 1 s /\ st_aniso s = true /\ st_lat s = Some (ex_lat (sqrt 3 / 2)) /\ mget (st_U s) i0 i1 <> 0.
Proof.
  assert (Hs : sqrt 3 / 2 * (sqrt 3 / 2) = 3 / 4).
  { replace (sqrt 3 / 2 * (sqrt 3 / 2)) with (sqrt 3 * sqrt 3 / 4) by field. rewrite sqrt_sqrt; lra. }
  assert (Hp : 0 < sqrt 3 / 2) by (pose proof (sqrt_lt_R0 3); lra).
  exists (run (RC 1) (init (RC 1)) [OSetLat (Some (ex_lat (sqrt 3 / 2))); OSetUiso 2; OSetAniso true; OSetUij N12 1]).
  split; [|split; [reflexivity | split; [reflexivity|]]].
  - exists (init (RC 1)), [OSetLat (Some (ex_lat (sqrt 3 / 2))); OSetUiso 2; OSetAniso true; OSetUij N12 1].
    split; [apply init_inv | split; [|reflexivity]].
    constructor; [apply ex_lat_ok; assumption|]. repeat (constructor; [exact Logic.I|]). constructor.
  - cbn. lra.
Qed.
