(* C08 - invariants of the heap model and their preservation by the five primitives *)
From Coq Require Import List ZArith Bool Arith Lia Permutation.
From DS Require Import Model.C08_StructHeap Proofs.C08_Lists.
Import ListNotations.
Open Scope nat_scope.

(* ---------------------------------------------------------------- invariants *)

Definition valid (w : world) (l : list aid) : Prop := forall a, In a l -> a < length (heap w).

(* no dangling identities *)
Definition wf (w : world) : Prop :=
  (forall h o, nth_error (objs w) h = Some o -> valid w (obj_items o)) /\
  (forall h its L, nth_error (objs w) h = Some (OStruct its L) -> L < nlat w) /\
  (forall a c l, nth_error (heap w) a = Some c -> c_lat c = Some l -> l < nlat w).

(* every atom of a Structure refers to that Structure's lattice (all containers but [ex]) *)
Definition lat_ok_except (ex : option hid) (w : world) : Prop :=
  forall h its L, ex <> Some h -> nth_error (objs w) h = Some (OStruct its L) ->
  forall a, In a its -> lat_of w a = Some L.

Definition lat_ok (w : world) : Prop := lat_ok_except None w.

Definition nodup_ok (w : world) : Prop :=
  forall h its L, nth_error (objs w) h = Some (OStruct its L) -> NoDup its.

Definition Inv (w : world) : Prop :=
  wf w /\ (g_repoint w = false -> lat_ok w) /\ (g_dup w = false -> nodup_ok w).

(* the world only grows and the ghost flags are sticky *)
Record ext (w w' : world) : Prop := mkExt {
  ext_heap : length (heap w) <= length (heap w');
  ext_nlat : nlat w <= nlat w';
  ext_objs : length (objs w) <= length (objs w');
  ext_rep : g_repoint w = true -> g_repoint w' = true;
  ext_dup : g_dup w = true -> g_dup w' = true }.

Lemma ext_refl : forall w, ext w w.
Proof. intros; constructor; auto. Qed.

Lemma ext_trans : forall a b c, ext a b -> ext b c -> ext a c.
Proof. intros a b c [] []; constructor; auto; lia. Qed.

Lemma valid_ext : forall w w' l, ext w w' -> valid w l -> valid w' l.
Proof. unfold valid; intros. destruct H. apply H0 in H1. lia. Qed.

Definition src_valid (n : nat) (s : src) : Prop :=
  match s with Keep a => a < n | Dup a => a < n | Fresh _ => True end.

Definition srcs_valid (w : world) (l : list src) : Prop := Forall (src_valid (length (heap w))) l.

Lemma srcs_valid_ext : forall w w' l, ext w w' -> srcs_valid w l -> srcs_valid w' l.
Proof.
  unfold srcs_valid. intros. destruct H. eapply Forall_impl; [|eauto].
  intros s Hs. destruct s; simpl in *; auto; lia.
Qed.

Lemma srcs_valid_map : forall w (f : aid -> src) l,
  (forall a, src_valid (length (heap w)) (f a) \/ False -> True) ->
  valid w l -> (forall a, In a l -> a < length (heap w) -> src_valid (length (heap w)) (f a)) ->
  srcs_valid w (map f l).
Proof.
  unfold srcs_valid. intros. apply Forall_forall. intros s Hs. apply in_map_iff in Hs.
  destruct Hs as [a [Ha Hin]]. subst. auto.
Qed.

Lemma srcs_valid_Dup : forall w l, valid w l -> srcs_valid w (map Dup l).
Proof. unfold srcs_valid, valid. intros. apply Forall_forall. intros s Hs. apply in_map_iff in Hs.
  destruct Hs as [a [Ha Hin]]. subst. simpl. auto. Qed.

Lemma srcs_valid_Keep : forall w l, valid w l -> srcs_valid w (map Keep l).
Proof. unfold srcs_valid, valid. intros. apply Forall_forall. intros s Hs. apply in_map_iff in Hs.
  destruct Hs as [a [Ha Hin]]. subst. simpl. auto. Qed.

Lemma srcs_valid_choice : forall w (p : aid -> bool) l, valid w l ->
  srcs_valid w (map (fun a => if p a then Dup a else Keep a) l).
Proof. unfold srcs_valid, valid. intros. apply Forall_forall. intros s Hs. apply in_map_iff in Hs.
  destruct Hs as [a [Ha Hin]]. subst. destruct (p a); simpl; auto. Qed.

Lemma srcs_valid_choice' : forall w (p : aid -> bool) l, valid w l ->
  srcs_valid w (map (fun a => if p a then Keep a else Dup a) l).
Proof. unfold srcs_valid, valid. intros. apply Forall_forall. intros s Hs. apply in_map_iff in Hs.
  destruct Hs as [a [Ha Hin]]. subst. destruct (p a); simpl; auto. Qed.

Lemma srcs_valid_memo : forall w l memo, valid w l -> srcs_valid w (memo_plan memo l).
Proof.
  unfold srcs_valid. induction l; simpl; intros; [constructor|].
  assert (valid w l) by (intros x Hx; apply H; right; auto).
  assert (a < length (heap w)) by (apply H; left; auto).
  destruct (memb a memo); constructor; simpl; auto.
Qed.

Lemma keeps_valid : forall n l, Forall (src_valid n) l -> forall a, In a (keeps l) -> a < n.
Proof.
  unfold keeps. intros. apply in_flat_map in H0. destruct H0 as [s [Hs Ha]].
  rewrite Forall_forall in H. apply H in Hs. destruct s; simpl in Ha; try tauto. destruct Ha; [|tauto]. subst. auto.
Qed.

(* ---------------------------------------------------------------- heap access lemmas *)

Lemma lat_of_lt : forall w a l, lat_of w a = Some l -> a < length (heap w).
Proof. unfold lat_of. intros. destruct (nth_error (heap w) a) eqn:E; try discriminate. apply nth_error_Some. congruence. Qed.

Lemma held_elsewhere_objs : forall w w' owner a L, objs w' = objs w -> held_elsewhere w' owner a L = held_elsewhere w owner a L.
Proof. unfold held_elsewhere. intros. rewrite H. auto. Qed.

Lemma existsb_i_false : forall A (f : nat -> A -> bool) l i,
  existsb_i f i l = false -> forall k x, nth_error l k = Some x -> f (i + k) x = false.
Proof.
  induction l; simpl; intros.
  - destruct k; discriminate.
  - apply orb_false_iff in H. destruct H. destruct k; simpl in H0.
    + inversion H0; subst. rewrite Nat.add_0_r. auto.
    + replace (i + S k) with (S i + k) by lia. eapply IHl; eauto.
Qed.

Lemma held_elsewhere_false : forall w owner a L,
  held_elsewhere w owner a L = false ->
  forall h its l, nth_error (objs w) h = Some (OStruct its l) -> In a its -> owner = Some h \/ l = L.
Proof.
  unfold held_elsewhere. intros. pose proof (existsb_i_false _ _ _ _ H _ _ H0) as Hf. simpl in Hf.
  apply memb_In in H1. rewrite H1 in Hf. rewrite andb_true_r in Hf. apply andb_false_iff in Hf.
  destruct Hf as [Hf|Hf].
  - left. apply negb_false_iff in Hf. destruct owner; simpl in Hf; try discriminate. apply Nat.eqb_eq in Hf. subst. auto.
  - right. apply negb_false_iff in Hf. apply Nat.eqb_eq in Hf. auto.
Qed.

(* ---------------------------------------------------------------- realize *)

Definition src_tag (w : world) (s : src) : pay :=
  match s with Keep a => tag_of w a | Dup a => tag_of w a | Fresh t => t end.

Record realized (owner : option hid) (L : lid) (srcs : list src) (w : world) (ids : list aid) (w' : world) : Prop := mkRz {
  rz_objs : objs w' = objs w;
  rz_nlat : nlat w' = nlat w;
  rz_dup : g_dup w' = g_dup w;
  rz_len : length (heap w) <= length (heap w');
  rz_flag_false : g_repoint w' = false ->
      g_repoint w = false /\ forall a, In a (keeps srcs) -> held_elsewhere w owner a L = false;
  rz_flag_sticky : g_repoint w = true -> g_repoint w' = true;
  rz_flag_same : (forall a, In a (keeps srcs) -> held_elsewhere w owner a L = false) -> g_repoint w' = g_repoint w;
  rz_lat_kept : forall b, lat_of w b = Some L -> lat_of w' b = Some L;
  rz_lat_ids : forall x, In x ids -> lat_of w' x = Some L;
  rz_frame : forall b, b < length (heap w) -> ~ In b (keeps srcs) -> nth_error (heap w') b = nth_error (heap w) b;
  rz_tags : forall b, b < length (heap w) -> tag_of w' b = tag_of w b;
  rz_origin : forall x, In x ids -> In x (keeps srcs) \/ length (heap w) <= x;
  rz_bound : forall x, In x ids -> x < length (heap w');
  rz_nodup : NoDup (keeps srcs) -> NoDup ids;
  rz_lats : forall a c l, nth_error (heap w') a = Some c -> c_lat c = Some l ->
      l = L \/ exists c0, nth_error (heap w) a = Some c0 /\ c_lat c0 = Some l;
  rz_idtags : map (tag_of w') ids = map (src_tag w) srcs;
  rz_nokeep_fresh : keeps srcs = [] -> forall x, In x ids -> length (heap w) <= x;
  rz_length : length ids = length srcs;
  rz_count : length (heap w') + length (keeps srcs) = length (heap w) + length srcs }.

Lemma nth_error_app_last : forall A (l : list A) x, nth_error (l ++ [x]) (length l) = Some x.
Proof. intros. rewrite nth_error_app2; auto. rewrite Nat.sub_diag. auto. Qed.

Lemma realize_nil : forall owner L w, realized owner L [] w [] w.
Proof.
  intros. constructor; simpl; intros; auto; try tauto; try lia.
  right. exists c. split; auto.
Qed.

(* one source *)
Lemma realize1_keep : forall owner L a w, a < length (heap w) ->
  realized owner L [Keep a] w [a] (repoint owner L a w).
Proof.
  intros owner L a w Ha.
  assert (Hlen : length (heap (repoint owner L a w)) = length (heap w)).
  { unfold repoint, set_cell_lat, flag_repoint. simpl. apply upd_nth_length. }
  destruct (nth_error (heap w) a) as [c0|] eqn:Ec; [|apply nth_error_None in Ec; lia].
  assert (Hnew : nth_error (heap (repoint owner L a w)) a = Some (mkCell (c_tag c0) (Some L))).
  { unfold repoint, set_cell_lat, flag_repoint. simpl. erewrite nth_error_upd_nth_eq; eauto. }
  assert (Hother : forall b, b <> a -> nth_error (heap (repoint owner L a w)) b = nth_error (heap w) b).
  { intros. unfold repoint, set_cell_lat, flag_repoint. simpl. apply nth_error_upd_nth_neq. auto. }
  assert (Hflag : g_repoint (repoint owner L a w) = g_repoint w || held_elsewhere w owner a L) by reflexivity.
  constructor.
  - reflexivity.
  - reflexivity.
  - reflexivity.
  - lia.
  - rewrite Hflag. intros H. apply orb_false_iff in H. destruct H.
    split; auto. simpl. intros x [Hx|[]]. subst. auto.
  - rewrite Hflag. intros H. rewrite H. auto.
  - rewrite Hflag. simpl. intros H. rewrite H; auto. apply orb_false_r.
  - intros b Hb. unfold lat_of in *. destruct (Nat.eq_dec b a).
    + subst. rewrite Hnew. auto.
    + rewrite Hother; auto.
  - intros x [Hx|[]]. subst. unfold lat_of. rewrite Hnew. auto.
  - simpl. intros b Hb Hn. apply Hother. intro. subst. apply Hn. auto.
  - intros b Hb. unfold tag_of. destruct (Nat.eq_dec b a).
    + subst. rewrite Hnew, Ec. auto.
    + rewrite Hother; auto.
  - simpl. intros x [Hx|[]]. subst. auto.
  - intros x [Hx|[]]. subst. lia.
  - intros. constructor; [simpl; tauto | constructor].
  - intros b c l Hb Hl. destruct (Nat.eq_dec b a).
    + subst. rewrite Hnew in Hb. inversion Hb; subst. simpl in Hl. inversion Hl. auto.
    + rewrite Hother in Hb; auto. right. exists c. split; auto.
  - simpl. unfold tag_of. rewrite Hnew, Ec. auto.
  - simpl. discriminate.
  - reflexivity.
  - rewrite Hlen. simpl. lia.
Qed.

Lemma realize1_alloc : forall owner L s w t,
  (s = Dup t /\ t < length (heap w) \/ exists z, s = Fresh z) ->
  realized owner L [s] w [length (heap w)] (snd (alloc_cell (mkCell (src_tag w s) (Some L)) w)).
Proof.
  intros owner L s w t Hs.
  assert (Hk : keeps [s] = []). { destruct Hs as [[? _]|[z ?]]; subst; auto. }
  set (c := mkCell (src_tag w s) (Some L)).
  assert (Hheap : heap (snd (alloc_cell c w)) = heap w ++ [c]) by auto.
  assert (Hold : forall b, b < length (heap w) -> nth_error (heap (snd (alloc_cell c w))) b = nth_error (heap w) b).
  { intros. rewrite Hheap. apply nth_error_app1. auto. }
  assert (Hnew : nth_error (heap (snd (alloc_cell c w))) (length (heap w)) = Some c).
  { rewrite Hheap. apply nth_error_app_last. }
  assert (Hlen : length (heap (snd (alloc_cell c w))) = S (length (heap w))).
  { rewrite Hheap, app_length. simpl. lia. }
  constructor; rewrite ?Hk.
  - reflexivity.
  - reflexivity.
  - reflexivity.
  - fold c. lia.
  - intros. split; auto. intros a [].
  - auto.
  - auto.
  - intros b Hb. pose proof (lat_of_lt _ _ _ Hb). unfold lat_of in *. fold c. rewrite Hold; auto.
  - intros x [Hx|[]]. subst. unfold lat_of. fold c. rewrite Hnew. auto.
  - intros. fold c. apply Hold. auto.
  - intros. unfold tag_of. fold c. rewrite Hold; auto.
  - intros x [Hx|[]]. subst. right. lia.
  - intros x [Hx|[]]. subst. fold c. lia.
  - intros. constructor; [simpl; tauto | constructor].
  - intros b c1 l Hb Hl. fold c in Hb. destruct (Nat.lt_ge_cases b (length (heap w))).
    + rewrite Hold in Hb; auto. right. exists c1. split; auto.
    + destruct (Nat.eq_dec b (length (heap w))).
      * subst. rewrite Hnew in Hb. inversion Hb; subst. simpl in Hl. inversion Hl. auto.
      * assert (nth_error (heap (snd (alloc_cell c w))) b = None).
        { apply nth_error_None. lia. } congruence.
  - cbn [map]. f_equal. unfold tag_of. rewrite Hnew. auto.
  - intros _ x [Hx|[]]. subst. lia.
  - reflexivity.
  - fold c. rewrite Hlen. simpl. lia.
Qed.

Lemma realize1_spec : forall owner L s w a w1,
  realize1 owner L s w = (a, w1) -> src_valid (length (heap w)) s -> realized owner L [s] w [a] w1.
Proof.
  intros. destruct s; simpl in *.
  - inversion H; subst. apply realize1_keep. auto.
  - inversion H; subst. apply (realize1_alloc owner L (Dup a0) w a0). left. auto.
  - inversion H; subst. apply (realize1_alloc owner L (Fresh t) w 0). right. eauto.
Qed.

Lemma src_tag_same : forall w w1 s, src_valid (length (heap w)) s ->
  (forall b, b < length (heap w) -> tag_of w1 b = tag_of w b) -> src_tag w1 s = src_tag w s.
Proof. intros. destruct s; simpl in *; auto. Qed.

(* composition: first source, then the rest *)
Lemma realized_cons : forall owner L s t w a w1 ids w2,
  src_valid (length (heap w)) s -> Forall (src_valid (length (heap w))) t ->
  realized owner L [s] w [a] w1 -> realized owner L t w1 ids w2 ->
  realized owner L (s :: t) w (a :: ids) w2.
Proof.
  intros owner L s t w a w1 ids w2 Hs Ht R1 R2.
  assert (Hk : keeps (s :: t) = keeps [s] ++ keeps t).
  { unfold keeps. simpl. rewrite app_nil_r. auto. }
  assert (Hheld : forall x, held_elsewhere w1 owner x L = held_elsewhere w owner x L).
  { intros. apply held_elsewhere_objs. apply (rz_objs _ _ _ _ _ _ R1). }
  constructor.
  - rewrite (rz_objs _ _ _ _ _ _ R2). apply (rz_objs _ _ _ _ _ _ R1).
  - rewrite (rz_nlat _ _ _ _ _ _ R2). apply (rz_nlat _ _ _ _ _ _ R1).
  - rewrite (rz_dup _ _ _ _ _ _ R2). apply (rz_dup _ _ _ _ _ _ R1).
  - pose proof (rz_len _ _ _ _ _ _ R1). pose proof (rz_len _ _ _ _ _ _ R2). lia.
  - intros H. apply (rz_flag_false _ _ _ _ _ _ R2) in H. destruct H as [H Hb].
    apply (rz_flag_false _ _ _ _ _ _ R1) in H. destruct H as [H Ha]. split; auto.
    intros x Hx. rewrite Hk in Hx. apply in_app_or in Hx. destruct Hx; auto. rewrite <- Hheld. auto.
  - intros H. apply (rz_flag_sticky _ _ _ _ _ _ R2). apply (rz_flag_sticky _ _ _ _ _ _ R1). auto.
  - intros H. rewrite (rz_flag_same _ _ _ _ _ _ R2).
    + apply (rz_flag_same _ _ _ _ _ _ R1). intros. apply H. rewrite Hk. apply in_or_app. auto.
    + intros. rewrite Hheld. apply H. rewrite Hk. apply in_or_app. auto.
  - intros b Hb. apply (rz_lat_kept _ _ _ _ _ _ R2). apply (rz_lat_kept _ _ _ _ _ _ R1). auto.
  - intros x [Hx|Hx].
    + subst. apply (rz_lat_kept _ _ _ _ _ _ R2). apply (rz_lat_ids _ _ _ _ _ _ R1). left. auto.
    + apply (rz_lat_ids _ _ _ _ _ _ R2). auto.
  - intros b Hb Hn. rewrite Hk in Hn. rewrite (rz_frame _ _ _ _ _ _ R2).
    + apply (rz_frame _ _ _ _ _ _ R1); auto. intro. apply Hn. apply in_or_app. auto.
    + pose proof (rz_len _ _ _ _ _ _ R1). lia.
    + intro. apply Hn. apply in_or_app. auto.
  - intros b Hb. rewrite (rz_tags _ _ _ _ _ _ R2).
    + apply (rz_tags _ _ _ _ _ _ R1). auto.
    + pose proof (rz_len _ _ _ _ _ _ R1). lia.
  - intros x [Hx|Hx].
    + subst. destruct (rz_origin _ _ _ _ _ _ R1 x) as [H|H]; [left; auto| |right; auto].
      left. rewrite Hk. apply in_or_app. auto.
    + destruct (rz_origin _ _ _ _ _ _ R2 x Hx) as [H|H].
      * left. rewrite Hk. apply in_or_app. auto.
      * right. pose proof (rz_len _ _ _ _ _ _ R1). lia.
  - intros x [Hx|Hx].
    + subst. pose proof (rz_bound _ _ _ _ _ _ R1 x (or_introl eq_refl)). pose proof (rz_len _ _ _ _ _ _ R2). lia.
    + apply (rz_bound _ _ _ _ _ _ R2). auto.
  - intros Hnd. rewrite Hk in Hnd. constructor.
    + intro Hin. destruct (rz_origin _ _ _ _ _ _ R2 a Hin) as [H|H].
      * destruct (rz_origin _ _ _ _ _ _ R1 a (or_introl eq_refl)) as [H1|H1].
        -- eapply NoDup_app_disj; eauto.
        -- pose proof (keeps_valid _ _ Ht a H). lia.
      * destruct (rz_origin _ _ _ _ _ _ R1 a (or_introl eq_refl)) as [H1|H1].
        -- (* a kept: the first step did not allocate *)
           assert (a < length (heap w)). { eapply keeps_valid; [|eauto]. constructor; auto. }
           pose proof (rz_count _ _ _ _ _ _ R1) as Hc. simpl in Hc.
           destruct s; simpl in H1; try tauto. simpl in Hc. lia.
        -- pose proof (rz_bound _ _ _ _ _ _ R1 a (or_introl eq_refl)). lia.
    + apply (rz_nodup _ _ _ _ _ _ R2). eapply NoDup_app_r; eauto.
  - intros b c l Hb Hl. destruct (rz_lats _ _ _ _ _ _ R2 b c l Hb Hl) as [H|[c0 [H1 H2]]]; auto.
    apply (rz_lats _ _ _ _ _ _ R1 b c0 l H1 H2).
  - simpl. f_equal.
    + rewrite (rz_tags _ _ _ _ _ _ R2).
      * pose proof (rz_idtags _ _ _ _ _ _ R1). simpl in H. inversion H. auto.
      * apply (rz_bound _ _ _ _ _ _ R1). left. auto.
    + rewrite (rz_idtags _ _ _ _ _ _ R2). apply map_ext_in. intros x Hx. apply src_tag_same.
      * rewrite Forall_forall in Ht. auto.
      * apply (rz_tags _ _ _ _ _ _ R1).
  - intros Hke x [Hx|Hx]; rewrite Hk in Hke; apply app_eq_nil in Hke; destruct Hke as [K1 K2].
    + subst. apply (rz_nokeep_fresh _ _ _ _ _ _ R1 K1). left. auto.
    + pose proof (rz_nokeep_fresh _ _ _ _ _ _ R2 K2 x Hx). pose proof (rz_len _ _ _ _ _ _ R1). lia.
  - simpl. f_equal. apply (rz_length _ _ _ _ _ _ R2).
  - rewrite Hk, app_length. pose proof (rz_count _ _ _ _ _ _ R1) as H1. pose proof (rz_count _ _ _ _ _ _ R2) as H2.
    simpl in *. lia.
Qed.

Lemma realize_spec : forall srcs owner L w ids w',
  realize owner L srcs w = (ids, w') -> srcs_valid w srcs -> realized owner L srcs w ids w'.
Proof.
  induction srcs; simpl; intros owner L w ids w' H Hv.
  - inversion H; subst. apply realize_nil.
  - destruct (realize1 owner L a w) as [x w1] eqn:E1. destruct (realize owner L srcs w1) as [ids' w2] eqn:E2.
    inversion H; subst. inversion Hv; subst.
    pose proof (realize1_spec _ _ _ _ _ _ E1 H2) as R1.
    eapply realized_cons; eauto. apply IHsrcs; auto.
    unfold srcs_valid. eapply Forall_impl; [|eauto]. intros s Hs.
    pose proof (rz_len _ _ _ _ _ _ R1). destruct s; simpl in *; auto; lia.
Qed.

Lemma realize_keep_fold : forall its owner L w,
  realize owner L (map Keep its) w = (its, fold_left (fun w' a => repoint owner L a w') its w).
Proof. induction its; simpl; intros; auto. rewrite IHits. auto. Qed.

Lemma keeps_map_Keep : forall l, keeps (map Keep l) = l.
Proof. unfold keeps. induction l; simpl; auto. f_equal. auto. Qed.

Lemma keeps_map_Dup : forall l, keeps (map Dup l) = [].
Proof. unfold keeps. induction l; simpl; auto. Qed.

(* ---------------------------------------------------------------- effect of realize on the invariants *)

Lemma realized_ext : forall owner L srcs w ids w', realized owner L srcs w ids w' -> ext w w'.
Proof.
  intros. constructor.
  - apply (rz_len _ _ _ _ _ _ H).
  - rewrite (rz_nlat _ _ _ _ _ _ H). auto.
  - rewrite (rz_objs _ _ _ _ _ _ H). auto.
  - apply (rz_flag_sticky _ _ _ _ _ _ H).
  - rewrite (rz_dup _ _ _ _ _ _ H). auto.
Qed.

Lemma realized_wf : forall owner L srcs w ids w',
  realized owner L srcs w ids w' -> wf w -> L < nlat w -> wf w'.
Proof.
  intros owner L srcs w ids w' R [W1 [W2 W3]] HL. split; [|split].
  - intros h o Ho. rewrite (rz_objs _ _ _ _ _ _ R) in Ho. eapply valid_ext; [eapply realized_ext; eauto|]. eauto.
  - intros h its l Ho. rewrite (rz_objs _ _ _ _ _ _ R) in Ho. rewrite (rz_nlat _ _ _ _ _ _ R). eauto.
  - intros a c l Ha Hl. rewrite (rz_nlat _ _ _ _ _ _ R).
    destruct (rz_lats _ _ _ _ _ _ R a c l Ha Hl) as [H|[c0 [H1 H2]]]; subst; eauto.
Qed.

Lemma realized_lat_ok_except : forall owner L srcs w ids w',
  realized owner L srcs w ids w' -> lat_ok w -> g_repoint w' = false -> lat_ok_except owner w'.
Proof.
  intros owner L srcs w ids w' R Hok Hf h its l Hne Ho a Ha.
  rewrite (rz_objs _ _ _ _ _ _ R) in Ho.
  assert (Hl : lat_of w a = Some l). { eapply Hok; eauto. discriminate. }
  destruct (rz_flag_false _ _ _ _ _ _ R Hf) as [_ Hheld].
  destruct (in_dec Nat.eq_dec a (keeps srcs)) as [Hk|Hk].
  - specialize (Hheld a Hk). destruct (held_elsewhere_false _ _ _ _ Hheld _ _ _ Ho Ha) as [H|H].
    + contradiction.
    + subst. apply (rz_lat_kept _ _ _ _ _ _ R). auto.
  - unfold lat_of. rewrite (rz_frame _ _ _ _ _ _ R); auto. eapply lat_of_lt; eauto.
Qed.

Lemma realized_lat_ok : forall owner L srcs w ids w',
  realized owner L srcs w ids w' -> lat_ok w -> g_repoint w' = false ->
  (forall h its l, owner = Some h -> nth_error (objs w) h = Some (OStruct its l) -> l = L) ->
  lat_ok w'.
Proof.
  intros owner L srcs w ids w' R Hok Hf Hown h its l _ Ho a Ha.
  assert (D : {owner = Some h} + {owner <> Some h}) by (repeat decide equality). destruct D as [E|E].
  - rewrite (rz_objs _ _ _ _ _ _ R) in Ho. pose proof (Hown _ _ _ E Ho). subst l.
    apply (rz_lat_kept _ _ _ _ _ _ R). eapply Hok; eauto. discriminate.
  - eapply realized_lat_ok_except; eauto.
Qed.
