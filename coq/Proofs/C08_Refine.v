(* C08 - selections share; the payload sequence after an operation is what the same operation on a plain
   Python list gives (copying never changes the sequence of payloads) *)
From Coq Require Import List ZArith Bool Arith Lia.
From DS Require Import Model.C08_StructHeap Proofs.C08_Lists Proofs.C08_Prims Proofs.C08_Inv Proofs.C08_Step Proofs.C08_Spec.
Import ListNotations.
Open Scope nat_scope.

(* ---------------------------------------------------------------- selections *)

Lemma selection_spec : forall L sel w hn w', valid w sel -> selection L sel w = (hn, w') ->
  hn = length (objs w) /\ objs w' = objs w ++ [OStruct sel L] /\ length (heap w') = length (heap w) /\
  (forall b, tag_of w' b = tag_of w b).
Proof.
  intros L sel w hn w' Hv H. unfold selection in H. cbn [alloc_lat heap nlat objs g_repoint g_dup] in H.
  set (w1 := mkW (heap w) (S (nlat w)) (objs w) (g_repoint w) (g_dup w)) in *.
  pose proof (realize_keep_fold sel None L w1) as Er.
  pose proof (realize_spec _ _ _ _ _ _ Er (srcs_valid_Keep w1 _ Hv)) as R.
  rewrite (new_struct_eq _ _ _ _ _ _ Er) in H. inversion H; subst; clear H.
  set (w2 := fold_left (fun w' a => repoint None L a w') sel w1) in *.
  pose proof (rz_count _ _ _ _ _ _ R) as Hc. rewrite keeps_map_Keep, map_length in Hc.
  assert (Hlen : length (heap w2) = length (heap w)) by (simpl in Hc; lia).
  split; [|split; [|split]]; cbn [objs heap].
  - rewrite (rz_objs _ _ _ _ _ _ R). auto.
  - rewrite (rz_objs _ _ _ _ _ _ R). auto.
  - auto.
  - intros b. change (tag_of w2 b = tag_of w1 b). destruct (Nat.lt_ge_cases b (length (heap w1))).
    + apply (rz_tags _ _ _ _ _ _ R). auto.
    + unfold tag_of. assert (nth_error (heap w2) b = None) by (apply nth_error_None; simpl in *; lia).
      assert (nth_error (heap w1) b = None) by (apply nth_error_None; auto). rewrite H0, H1. auto.
Qed.

(* the positions a selecting operation names, by Python / numpy index semantics *)
Definition selected (o : op) (w : world) : option (hid * list nat) :=
  match o with
  | GetSlice h s =>
      match get_struct w h with
      | Some (old, _) => option_map (pair h) (slice_indices (length old) s)
      | None => None end
  | GetMask h m =>
      match get_struct w h with
      | Some (old, _) => if Nat.eqb (length m) (length old) || Nat.eqb (length m) 0 then Some (h, mask_indices m) else None
      | None => None end
  | GetIdx h l tup =>
      match get_struct w h with
      | Some (old, _) =>
          match l, tup with
          | [], true => None
          | _, _ => match resolve_lidx w old l with
                    | Some zs => option_map (pair h) (norm_all (length old) zs)
                    | None => None end
          end
      | None => None end
  | _ => None
  end.

Theorem selections_share : forall o w h idxs old L, Inv w -> selected o w = Some (h, idxs) ->
  get_struct w h = Some (old, L) ->
  exists hn w', step current o w = (w', Done (RObj hn)) /\ hn = length (objs w) /\
    objs w' = objs w ++ [OStruct (pick old idxs) L] /\
    length (heap w') = length (heap w) /\ (forall b, tag_of w' b = tag_of w b).
Proof.
  intros o w h idxs old L HI Hs Hg. pose proof HI as [Hwf _].
  destruct (get_struct_wf _ _ _ _ Hwf Hg) as [Hold _].
  assert (Hv : valid w (pick old idxs)) by (apply valid_pick; auto).
  destruct o; simpl in Hs; try discriminate.
  - destruct (get_struct w h0) as [[old0 L0]|] eqn:E; try discriminate.
    destruct (slice_indices (length old0) s) as [ix|] eqn:E2; try discriminate. inversion Hs; subst.
    rewrite E in Hg. inversion Hg; subst. cbn [step]. rewrite E, E2.
    destruct (selection L (pick old idxs) w) as [hn w'] eqn:E3.
    destruct (selection_spec _ _ _ _ _ Hv E3) as [A [B [C D]]]. exists hn, w'. auto.
  - destruct (get_struct w h0) as [[old0 L0]|] eqn:E; try discriminate.
    assert (exists zs, l <> [] \/ astuple = false) by (exists 0; destruct l; [destruct astuple; [discriminate|]|]; auto; left; discriminate).
    assert (Hs' : match resolve_lidx w old0 l with Some zs => option_map (pair h0) (norm_all (length old0) zs) | None => None end = Some (h, idxs)).
    { destruct l; [destruct astuple; [discriminate|]|]; auto. }
    destruct (resolve_lidx w old0 l) as [zs|] eqn:E2; try discriminate.
    destruct (norm_all (length old0) zs) as [ix|] eqn:E3; try discriminate. inversion Hs'; subst.
    rewrite E in Hg. inversion Hg; subst.
    assert (Hstep : step current (GetIdx h l astuple) w =
              (let '(_, w0) := alloc_lat w in
               let '(hn, w1) := new_struct L (map Keep (pick old idxs)) None w0 in (w1, Done (RObj hn)))).
    { cbn [step]. rewrite E. destruct l; [destruct astuple; [discriminate|]|]; rewrite E2, E3; reflexivity. }
    rewrite Hstep. pose proof (selection_spec L (pick old idxs) w) as S. unfold selection in S.
    destruct (alloc_lat w) as [Lg w0]. destruct (new_struct L (map Keep (pick old idxs)) None w0) as [hn w1].
    destruct (S hn w1 Hv eq_refl) as [A [B [C D]]]. exists hn, w1. auto.
  - destruct (get_struct w h0) as [[old0 L0]|] eqn:E; try discriminate.
    destruct (Nat.eqb (length m) (length old0) || Nat.eqb (length m) 0) eqn:E2; try discriminate. inversion Hs; subst.
    rewrite E in Hg. inversion Hg; subst. cbn [step]. rewrite E, E2.
    destruct (selection L (pick old (mask_indices m)) w) as [hn w'] eqn:E3.
    destruct (selection_spec _ _ _ _ _ Hv E3) as [A [B [C D]]]. exists hn, w'. auto.
Qed.

(* ---------------------------------------------------------------- payload refinement *)

(* the edits on lists of ANY element type: this is the plain Python list semantics *)
Definition pickT {A} (old : list A) (idxs : list nat) : list A :=
  flat_map (fun i => match nth_error old i with Some a => [a] | None => [] end) idxs.

Fixpoint assign_allT {A} (old : list A) (prs : list (nat * A)) : list A :=
  match prs with
  | [] => old
  | (i, a) :: t => assign_allT (upd_nth i (fun _ => a) old) t
  end.

Definition plain_edit {A} (e : edit) (old new : list A) : list A :=
  match e with
  | ERange lo hi => firstn lo old ++ new ++ skipn hi old     (* old[lo:hi] = new *)
  | EAssign idxs => assign_allT old (combine idxs new)       (* old[i_k] = new[k] *)
  | EPick idxs => pickT old idxs                             (* [old[i] for i in idxs] *)
  | ENone => old
  end.

Lemma map_upd_nth : forall A B (f : A -> B) l i a, map f (upd_nth i (fun _ => a) l) = upd_nth i (fun _ => f a) (map f l).
Proof. induction l; destruct i; simpl; intros; auto. f_equal. auto. Qed.

Lemma map_assign_all : forall (f : aid -> pay) prs old,
  map f (assign_all old prs) = assign_allT (map f old) (map (fun p => (fst p, f (snd p))) prs).
Proof. induction prs as [|[i a] t]; simpl; intros; auto. rewrite IHt, map_upd_nth. auto. Qed.

Lemma map_pick : forall (f : aid -> pay) idxs old, map f (pick old idxs) = pickT (map f old) idxs.
Proof.
  unfold pick, pickT. induction idxs; simpl; intros; auto. rewrite map_app, IHidxs. f_equal.
  rewrite nth_error_map. destruct (nth_error old a); auto.
Qed.

Lemma map_combine_snd : forall A B C (f : B -> C) (l1 : list A) (l2 : list B),
  map (fun p => (fst p, f (snd p))) (combine l1 l2) = combine l1 (map f l2).
Proof. induction l1; destruct l2; simpl; auto. f_equal. auto. Qed.

Lemma map_apply_edit : forall (f : aid -> pay) e old ids,
  map f (apply_edit e old ids) = plain_edit e (map f old) (map f ids).
Proof.
  destruct e; simpl; intros.
  - rewrite !map_app, firstn_map, skipn_map. auto.
  - rewrite map_assign_all, map_combine_snd. auto.
  - apply map_pick.
  - auto.
Qed.

(* THE refinement lemma: after install the payload sequence of the receiver is the plain-list edit of
   its old payload sequence with the payloads of the sources - whether they were copied or kept *)
Theorem install_refines : forall (h : hid) srcs e w old L, wf w ->
  nth_error (objs w) h = Some (OStruct old L) -> srcs_valid w srcs ->
  exists new, nth_error (objs (install h srcs e w)) h = Some (OStruct new L) /\
    map (tag_of (install h srcs e w)) new = plain_edit e (map (tag_of w) old) (map (src_tag w) srcs) /\
    (forall h2, h2 <> h -> nth_error (objs (install h srcs e w)) h2 = nth_error (objs w) h2).
Proof.
  intros h srcs e w old L Hwf Ho Hv.
  destruct (realize (Some h) L srcs w) as [ids w1] eqn:Er.
  pose proof (realize_spec _ _ _ _ _ _ Er Hv) as R.
  rewrite (install_eq _ _ _ _ _ _ _ _ Ho Er).
  exists (apply_edit e old ids). split; [|split].
  - rewrite nth_error_set_obj, Nat.eqb_refl. simpl. rewrite (rz_objs _ _ _ _ _ _ R), Ho. auto.
  - change (map (tag_of w1) (apply_edit e old ids) = plain_edit e (map (tag_of w) old) (map (src_tag w) srcs)).
    rewrite map_apply_edit. rewrite (rz_idtags _ _ _ _ _ _ R). f_equal.
    apply map_ext_in. intros a Ha. apply (rz_tags _ _ _ _ _ _ R). destruct Hwf as [W1 _]. apply (W1 _ _ Ho). auto.
  - intros h2 Hne. rewrite set_obj_prefix by auto. simpl. rewrite (rz_objs _ _ _ _ _ _ R). auto.
Qed.

(* payloads of the planned sources are the payloads of the argument, whatever the copy decision *)
Lemma src_tag_copy_src : forall w c a, src_tag w (copy_src c a) = tag_of w a.
Proof. destruct c; auto. Qed.

Lemma src_tag_memo : forall w l memo, map (src_tag w) (memo_plan memo l) = map (tag_of w) l.
Proof. induction l; simpl; intros; auto. destruct (memb a memo); simpl; f_equal; auto. Qed.

Lemma src_tag_extend_plan : forall w old b its c, map (src_tag w) (extend_plan old b its c) = map (tag_of w) its.
Proof.
  intros. unfold extend_plan. destruct c; [destruct b|..]; rewrite ?map_map; try apply src_tag_memo; auto.
Qed.

Definition payload (w : world) (h : hid) : list pay :=
  match nth_error (objs w) h with Some o => map (tag_of w) (obj_items o) | None => [] end.

Lemma firstn_skipn_all : forall A (P X : list A), firstn (length P) P ++ X ++ skipn (length P) P = P ++ X.
Proof. intros. rewrite firstn_all, skipn_all, app_nil_r. auto. Qed.

(* s.append(a) / s.insert(i, a) / s[i] = a / s.extend(x) / s += x : the receiver's payload sequence is the
   plain-list result, for every copy flag *)
Theorem append_refines : forall h r c w old L a, Inv w -> get_struct w h = Some (old, L) -> resolve_aref w r = Some a ->
  payload (fst (step current (Append h r c) w)) h = payload w h ++ [tag_of w a].
Proof.
  intros h r c w old L a [Hwf _] Hg Hr. destruct (get_struct_wf _ _ _ _ Hwf Hg) as [Hold [_ Ho]].
  cbn [step]. rewrite Hg, Hr. cbn [fst].
  destruct (install_refines h [copy_src c a] (ERange (length old) (length old)) w old L Hwf Ho) as [new [A [B _]]].
  { constructor; [|constructor]. pose proof (resolve_aref_valid _ _ _ Hwf Hr). destruct c; simpl; auto. }
  unfold payload. rewrite A, Ho. simpl obj_items. rewrite B. simpl plain_edit. rewrite src_tag_copy_src.
  rewrite <- (map_length (tag_of w) old). simpl map. rewrite firstn_all, skipn_all. auto.
Qed.

Theorem insert_refines : forall h i r c w old L a, Inv w -> get_struct w h = Some (old, L) -> resolve_aref w r = Some a ->
  let p := clamp_insert (length old) i in
  payload (fst (step current (Insert h i r c) w)) h = firstn p (payload w h) ++ [tag_of w a] ++ skipn p (payload w h).
Proof.
  intros h i r c w old L a [Hwf _] Hg Hr p. destruct (get_struct_wf _ _ _ _ Hwf Hg) as [Hold [_ Ho]].
  cbn [step]. rewrite Hg, Hr. cbn [fst]. fold p.
  destruct (install_refines h [copy_src c a] (ERange p p) w old L Hwf Ho) as [new [A [B _]]].
  { constructor; [|constructor]. pose proof (resolve_aref_valid _ _ _ Hwf Hr). destruct c; simpl; auto. }
  unfold payload. rewrite A, Ho. simpl obj_items. rewrite B. simpl. rewrite src_tag_copy_src. auto.
Qed.

Theorem setint_refines : forall h i r c w old L a k, Inv w -> get_struct w h = Some (old, L) -> resolve_aref w r = Some a ->
  norm_index (length old) i = Some k ->
  payload (fst (step current (SetInt h i r c) w)) h = firstn k (payload w h) ++ [tag_of w a] ++ skipn (S k) (payload w h).
Proof.
  intros h i r c w old L a k [Hwf _] Hg Hr Hk. destruct (get_struct_wf _ _ _ _ Hwf Hg) as [Hold [_ Ho]].
  cbn [step]. rewrite Hg, Hr, Hk. cbn [fst].
  destruct (install_refines h [copy_src c a] (ERange k (S k)) w old L Hwf Ho) as [new [A [B _]]].
  { constructor; [|constructor]. pose proof (resolve_aref_valid _ _ _ Hwf Hr). destruct c; simpl; auto. }
  unfold payload. rewrite A, Ho. simpl obj_items. rewrite B. simpl. rewrite src_tag_copy_src. auto.
Qed.

Theorem extend_refines : forall h s c w old L so, Inv w -> get_struct w h = Some (old, L) -> get_obj w s = Some so ->
  payload (fst (step current (Extend h s c) w)) h = payload w h ++ payload w s /\
  payload (fst (step current (IAdd h s) w)) h = payload w h ++ payload w s.
Proof.
  intros h s c w old L so [Hwf _] Hg Hs. destruct (get_struct_wf _ _ _ _ Hwf Hg) as [Hold [_ Ho]].
  pose proof (get_obj_wf _ _ _ Hwf Hs) as Hv.
  assert (G : forall c', payload (fst (do_extend current h s c' w)) h = payload w h ++ payload w s).
  { intros c'. unfold do_extend. rewrite Hg, Hs. cbn [current v_lazy_extend andb fst].
    destruct (install_refines h (extend_plan old (is_struct so) (obj_items so) c') (ERange (length old) (length old)) w old L Hwf Ho) as [new [A [B _]]].
    { unfold extend_plan. destruct c'; [destruct (is_struct so)|..];
        [apply srcs_valid_Dup|apply srcs_valid_memo|apply srcs_valid_Dup|apply srcs_valid_Keep]; auto. }
    unfold payload at 1. rewrite A. simpl obj_items. rewrite B. simpl plain_edit. rewrite src_tag_extend_plan.
    unfold payload. unfold get_obj in Hs. rewrite Ho, Hs. simpl obj_items.
    rewrite <- (map_length (tag_of w) old). apply firstn_skipn_all. }
  split; [apply G|].
  cbn [step]. pose proof (G CTrue) as G1. destruct (do_extend current h s CTrue w) as [w1 [r| |]] eqn:E; cbn [fst] in *; auto.
Qed.

(* s[a:b:c] = x *)
Theorem setslice_refines : forall h sl v c w old L vo start stop stp slen idxs, Inv w ->
  get_struct w h = Some (old, L) -> get_obj w v = Some vo ->
  slice_adjust (length old) sl = Some (start, stop, stp, slen) -> slice_indices (length old) sl = Some idxs ->
  payload (fst (step current (SetSlice h sl v c) w)) h =
    if Z.eqb stp 1 then firstn (Z.to_nat start) (payload w h) ++ payload w v ++ skipn (Nat.max (Z.to_nat start) (Z.to_nat stop)) (payload w h)
    else if Nat.eqb (length (obj_items vo)) (length idxs) then assign_allT (payload w h) (combine idxs (payload w v))
    else payload w h.
Proof.
  intros h sl v c w old L vo start stop stp slen idxs [Hwf _] Hg Hv Ha Hi.
  destruct (get_struct_wf _ _ _ _ Hwf Hg) as [Hold [_ Ho]]. pose proof (get_obj_wf _ _ _ Hwf Hv) as Hvv.
  cbn [step]. rewrite Hg, Hv, Ha, Hi.
  set (srcs := map (fun a => if c && negb (memb a (pick old idxs)) then Dup a else Keep a) (obj_items vo)).
  assert (Hs : srcs_valid w srcs) by (apply srcs_valid_choice; auto).
  assert (Ht : map (src_tag w) srcs = map (tag_of w) (obj_items vo)).
  { unfold srcs. rewrite map_map. apply map_ext. intros a. destruct (c && negb (memb a (pick old idxs))); auto. }
  assert (Hpv : payload w v = map (tag_of w) (obj_items vo)) by (unfold payload; unfold get_obj in Hv; rewrite Hv; auto).
  assert (Hph : payload w h = map (tag_of w) old) by (unfold payload; rewrite Ho; auto).
  assert (Hl : length srcs = length (obj_items vo)) by (unfold srcs; apply map_length).
  destruct (Z.eqb stp 1).
  - cbn [fst]. destruct (install_refines h srcs (ERange (Z.to_nat start) (Nat.max (Z.to_nat start) (Z.to_nat stop))) w old L Hwf Ho Hs) as [new [A [B _]]].
    unfold payload at 1. rewrite A. simpl obj_items. rewrite B, Ht, Hpv, Hph. auto.
  - rewrite Hl. destruct (Nat.eqb (length (obj_items vo)) (length idxs)); cbn [fst].
    + destruct (install_refines h srcs (EAssign idxs) w old L Hwf Ho Hs) as [new [A [B _]]].
      unfold payload at 1. rewrite A. simpl obj_items. rewrite B, Ht, Hpv, Hph. auto.
    + auto.
Qed.

(* s -= x : the payloads of the members that are not in x, in order *)
Theorem isub_refines : forall h s w old L so, Inv w -> get_struct w h = Some (old, L) -> get_obj w s = Some so ->
  payload (fst (step current (ISub h s) w)) h = map (tag_of w) (filter (fun a => negb (memb a (obj_items so))) old).
Proof.
  intros h s w old L so [Hwf _] Hg Hs. destruct (get_struct_wf _ _ _ _ Hwf Hg) as [Hold [_ Ho]].
  cbn [step]. rewrite Hg, Hs. cbn [fst].
  set (sel := filter (fun a => negb (memb a (obj_items so))) old).
  destruct (install_refines h (map Keep sel) (ERange 0 (length old)) w old L Hwf Ho) as [new [A [B _]]].
  { apply srcs_valid_Keep. apply valid_filter. auto. }
  unfold payload. rewrite A. simpl obj_items. rewrite B. simpl plain_edit. rewrite map_map.
  rewrite <- (map_length (tag_of w) old), skipn_all, app_nil_r. auto.
Qed.

(* s *= n *)
Theorem imul_refines : forall h n w old L, Inv w -> get_struct w h = Some (old, L) ->
  payload (fst (step current (IMul h n) w)) h =
    if (n <=? 0)%Z then [] else payload w h ++ map (tag_of w) (repeat_list (Z.to_nat (n - 1)) old).
Proof.
  intros h n w old L [Hwf _] Hg. destruct (get_struct_wf _ _ _ _ Hwf Hg) as [Hold [_ Ho]].
  cbn [step]. rewrite Hg. destruct (n <=? 0)%Z; cbn [fst].
  - destruct (install_refines h [] (ERange 0 (length old)) w old L Hwf Ho) as [new [A [B _]]]; [constructor|].
    unfold payload. rewrite A. simpl obj_items. rewrite B. simpl plain_edit.
    rewrite <- (map_length (tag_of w) old), skipn_all. auto.
  - destruct (install_refines h (map Dup (repeat_list (Z.to_nat (n - 1)) old)) (ERange (length old) (length old)) w old L Hwf Ho) as [new [A [B _]]].
    { apply srcs_valid_Dup. apply valid_repeat. auto. }
    unfold payload. rewrite A, Ho. simpl obj_items. rewrite B. simpl plain_edit. rewrite map_map.
    rewrite <- (map_length (tag_of w) old). apply firstn_skipn_all.
Qed.

(* copy / Structure(stru) / + / - / * : the payload sequence of the NEW object *)
Lemma copies_payload : forall w l L sel hn w' ids, made_of_copies w l L sel hn w' ids -> sel = None ->
  payload w' hn = map (tag_of w) l.
Proof.
  intros w l L sel hn w' ids M Hs. destruct M as [mh mo _ _ mt _ _ _ _]. subst sel.
  unfold payload. rewrite mo, mh, nth_error_app_last. simpl. auto.
Qed.

Theorem copy_refines : forall h w old L, Inv w -> get_struct w h = Some (old, L) ->
  exists hn w', step current (Copy h) w = (w', Done (RObj hn)) /\ payload w' hn = payload w h.
Proof.
  intros h w old L [Hwf _] Hg. destruct (get_struct_wf _ _ _ _ Hwf Hg) as [Hold [_ Ho]].
  cbn [step]. rewrite Hg. destruct (do_copy old w) as [hn w1] eqn:E. exists hn, w1. split; auto.
  destruct (do_copy_copies _ _ _ _ Hold E) as [ids [M _]]. rewrite (copies_payload _ _ _ _ _ _ _ M eq_refl).
  unfold payload. rewrite Ho. auto.
Qed.

Theorem add_refines : forall h s w old L so, Inv w -> get_struct w h = Some (old, L) -> get_obj w s = Some so ->
  exists hn w', step current (Add h s) w = (w', Done (RObj hn)) /\ payload w' hn = payload w h ++ payload w s.
Proof.
  intros h s w old L so HI Hg Hs. pose proof HI as [Hwf _]. destruct (get_struct_wf _ _ _ _ Hwf Hg) as [Hold [_ Ho]].
  pose proof (get_obj_wf _ _ _ Hwf Hs) as Hv.
  cbn [step]. rewrite Hg, Hs. destruct (do_copy old w) as [hn w1] eqn:E. eexists. eexists. split; [reflexivity|].
  destruct (do_copy_copies _ _ _ _ Hold E) as [ids [M _]].
  pose proof (do_copy_IE old w HI Hold) as IE1. rewrite E in IE1. destruct IE1 as [[Hwf1 _] X1].
  pose proof M as [mh mo mf mb mt mhp ml mr mi].
  assert (Ho1 : nth_error (objs w1) hn = Some (OStruct ids (S (nlat w)))) by (rewrite mo, mh; apply nth_error_app_last).
  destruct (install_refines hn (map Dup (obj_items so)) (ERange (length old) (length old)) w1 ids (S (nlat w)) Hwf1 Ho1) as [new [A [B _]]].
  { apply srcs_valid_Dup. eapply valid_ext; eauto. }
  unfold payload at 1. rewrite A. simpl obj_items. rewrite B. simpl plain_edit. rewrite map_map. simpl src_tag.
  rewrite mt. rewrite <- (map_length (tag_of w) old). rewrite firstn_all, skipn_all, app_nil_r.
  unfold payload. unfold get_obj in Hs. rewrite Ho, Hs. simpl obj_items. f_equal.
  apply map_ext_in. intros a Ha. unfold tag_of. rewrite mhp; auto.
Qed.

Theorem sub_refines : forall h s w old L so, Inv w -> get_struct w h = Some (old, L) -> get_obj w s = Some so ->
  exists hn w', step current (Sub h s) w = (w', Done (RObj hn)) /\
    payload w' hn = map (tag_of w) (filter (fun a => negb (memb a (obj_items so))) old).
Proof.
  intros h s w old L so HI Hg Hs. pose proof HI as [Hwf _]. destruct (get_struct_wf _ _ _ _ Hwf Hg) as [Hold [HL Ho]].
  cbn [step]. rewrite Hg, Hs.
  set (sel := filter (fun a => negb (memb a (obj_items so))) old).
  assert (Hsel : valid w sel) by (apply valid_filter; auto).
  cbn [alloc_lat heap nlat objs g_repoint g_dup].
  set (w0 := mkW (heap w) (S (nlat w)) (objs w) (g_repoint w) (g_dup w)).
  destruct (realize None L (map Keep sel) w0) as [ids w1] eqn:E4.
  pose proof (realize_spec _ _ _ _ _ _ E4 (srcs_valid_Keep w0 _ Hsel)) as R.
  destruct (do_copy sel w1) as [hn w2] eqn:E5. eexists. eexists. split; [reflexivity|].
  assert (Hsel1 : valid w1 sel). { intros x Hx. apply Hsel in Hx. pose proof (rz_len _ _ _ _ _ _ R). simpl in *. lia. }
  destruct (do_copy_copies _ _ _ _ Hsel1 E5) as [ids0 [M _]]. rewrite (copies_payload _ _ _ _ _ _ _ M eq_refl).
  apply map_ext_in. intros a Ha. change (tag_of w a) with (tag_of w0 a). apply (rz_tags _ _ _ _ _ _ R). apply Hsel. auto.
Qed.

Theorem mul_refines : forall h n w old L, Inv w -> get_struct w h = Some (old, L) ->
  exists hn w', step current (Mul h n) w = (w', Done (RObj hn)) /\
    payload w' hn = map (tag_of w) (repeat_list (Z.to_nat n) old).
Proof.
  intros h n w old L HI Hg. pose proof HI as [Hwf _]. destruct (get_struct_wf _ _ _ _ Hwf Hg) as [Hold [HL Ho]].
  cbn [step]. rewrite Hg. cbn [alloc_lat heap nlat objs g_repoint g_dup].
  set (w0 := mkW (heap w) (S (nlat w)) (objs w) (g_repoint w) (g_dup w)).
  destruct (do_copy [] w0) as [hn w1] eqn:E5. eexists. eexists. split; [reflexivity|].
  destruct (do_copy_copies _ _ _ _ (valid_nil w0) E5) as [ids [M _]].
  assert (I0 : Inv w0). { destruct (alloc_lat_IE w HI) as [[A _] _]. exact A. }
  pose proof (do_copy_IE [] w0 I0 (valid_nil w0)) as IE1. rewrite E5 in IE1. destruct IE1 as [[Hwf1 _] X1].
  pose proof M as [mh mo mf mb mt mhp ml mr mi].
  destruct ids; [|discriminate].
  assert (Ho1 : nth_error (objs w1) hn = Some (OStruct [] (S (nlat w0)))) by (rewrite mo, mh; apply nth_error_app_last).
  assert (Hv1 : valid w1 (repeat_list (Z.to_nat n) old)).
  { apply valid_repeat. intros x Hx. apply Hold in Hx. simpl in ml. lia. }
  destruct (install_refines hn (map Dup (repeat_list (Z.to_nat n) old)) (ERange 0 0) w1 [] (S (nlat w0)) Hwf1 Ho1) as [new [A [B _]]].
  { apply srcs_valid_Dup. auto. }
  unfold payload. rewrite A. simpl obj_items. rewrite B. simpl plain_edit. rewrite app_nil_r, map_map.
  apply map_ext_in. intros a Ha. simpl src_tag. unfold tag_of. rewrite mhp; auto.
  apply (repeat_list_In _ _ _ _) in Ha. apply Hold in Ha. auto.
Qed.
