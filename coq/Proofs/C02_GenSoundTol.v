(* C02 - Proofs/C02_GenSound.v generalised to any well-formed pair of tolerances: GeneratorSite(..., eps) and
   ExpandAsymmetricUnit(..., eps) (Model/C02_EpsTol.v: generator_site_t, expand_asym_t). *)
From Coq Require Import ZArith List Bool Lia Permutation.
From DS Require Import Base.ZMat Base.SGDefs Model.GroupCheck Model.C02_Orbit Model.C02_Eps Model.C02_Gen Model.C02_EpsTol.
From DS Require Import Proofs.C02_Action Proofs.C02_Expand Proofs.C02_OrbitStab Proofs.C02_EpsSound Proofs.C02_NearSpecial
  Proofs.C02_GenSound Proofs.C02_EpsTol Proofs.C02_NearSpecialTol.
Import ListNotations.
Open Scope Z_scope.

Lemma snap_algebra2 n x0 off w : vadd (vadd (vscale n x0) w) (vscale n off) = vadd (vscale n (vadd x0 off)) w.
Proof. destruct x0 as [b1 b2 b3], off as [o1 o2 o3], w as [w1 w2 w3]. apply v3_ext; zm_simpl; ring. Qed.

(* ---------- an exact site is returned unchanged ---------- *)
Theorem snap_identity_on_exact_sites_t T D G off x : tol_wf T -> IsGroup G -> 0 < D -> (12 | D) -> separated_t T D G off x ->
  generator_site_t T D G off x =
  let '(pos, ops, m) := expand_exact D G off x in Some (GSite D x off pos ops m (stab D G off x)).
Proof.
  intros Hwf HG HD H12 Hsep. unfold generator_site_t, generator_site_from_t. rewrite (expand_eps_t_exact T Hwf D G off x HD Hsep).
  pose proof (find_invariants_exact D G off x HG HD H12) as Hinv.
  destruct (expand_exact D G off x) as [[pos ops] m]. cbn [fst snd] in Hinv. rewrite Hinv.
  destruct (1 <? List.length (stab D G off x))%nat; [|reflexivity].
  assert (Hz : snap_sum D (stab D G off x) off x = v0).
  { unfold snap_sum. apply vsum_zero. intros v Hv. apply in_map_iff in Hv as [h [<- Hh]].
    destruct (stab_shift D G off x h HG HD H12 Hh) as [k Hk].
    replace (vsub (raw_img D h off x) x) with (vscale D k); [apply vfrac_multiple; exact HD|].
    unfold raw_img. rewrite Hk. destruct x as [a1 a2 a3], off as [o1 o2 o3], k as [k1 k2 k3]. apply v3_ext; zm_simpl; ring. }
  rewrite Hz. rewrite v3_eqb_refl. reflexivity.
Qed.


(* ---------- a site within tolerance of x0 is moved onto the special position of x0 ---------- *)
Section SnapT.
  Variable T : tol.
  Hypothesis Hwf : tol_wf T.
  Variable D : Z.
  Variable G : list symop.
  Variables off x x0 : v3.
  Hypothesis HG : IsGroup G.
  Hypothesis HD : 0 < D.
  Hypothesis H12 : (12 | D).
  Hypothesis Hwithin : within_tol_t T D G off x x0.
  Hypothesis Hbetween : between_far_t T D G off x x0.

  Let S := stab D G off x0.
  Let n := Z.of_nat (List.length S).
  Let delta := vsub x x0.
  (* the displacement is small enough for numpy.round to find the lattice part: 2 |(R_h - I) delta| < 1 *)
  Hypothesis Hsmall : forall h, In h S -> small_v D (vsub (mvec (fst h) delta) delta).

  (* n * (x0 + mean over the site symmetry of R_h (x - x0)), on the grid D n *)
  Let snappedT : v3 := snapped D G off x x0.

  Lemma first_expansion_t :
    expand_eps_t T D G off x =
    (map (rep_of_t D off x) (snd (fst (expand_exact D G off x0))), snd (fst (expand_exact D G off x0)), snd (expand_exact D G off x0)).
  Proof.
    pose proof (expand_eps_near_special_t T Hwf D G off x x0 HD Hwithin Hbetween) as H.
    destruct (expand_exact D G off x0) as [[pos0 ops0] m0]. exact H.
  Qed.

  Lemma raw_diff_t h : In h S -> exists k, vsub (raw_img D h off x) x = vadd (vscale D k) (vsub (mvec (fst h) delta) delta).
  Proof.
    intros Hh. destruct (stab_shift D G off x0 h HG HD H12 Hh) as [k Hk]. exists k.
    unfold raw_img. replace (vadd x off) with (vadd (vadd x0 off) delta) by (unfold delta; destruct x as [a1 a2 a3], x0 as [b1 b2 b3], off as [o1 o2 o3]; apply v3_ext; zm_simpl; ring).
    rewrite apply_op_add, Hk. unfold delta. generalize (mvec (fst h) (vsub x x0)). intros m.
    destruct m as [m1 m2 m3], x as [a1 a2 a3], x0 as [b1 b2 b3], off as [o1 o2 o3], k as [k1 k2 k3]. apply v3_ext; zm_simpl; ring.
  Qed.

  Lemma snap_sum_value_t : snap_sum D S off x = vsub snappedT (vscale n x).
  Proof.
    unfold snap_sum.
    transitivity (vsum (map (fun h => vsub (mvec (fst h) delta) delta) S)).
    - f_equal. apply map_ext_in. intros h Hh. destruct (raw_diff_t h Hh) as [k ->]. apply vfrac_small; [exact HD | apply Hsmall; exact Hh].
    - rewrite vsum_sub. apply snap_algebra.
  Qed.

  Lemma snapped_as_sum_t : vadd (vscale n x) (snap_sum D S off x) = snappedT.
  Proof. rewrite snap_sum_value_t. destruct snappedT as [s1 s2 s3], x as [a1 a2 a3]. apply v3_ext; zm_simpl; ring. Qed.

  (* the site symmetry of x0 is closed under composition *)
  Lemma stab_closed_t a b : In a S -> In b S -> In (compose a b) S.
  Proof.
    intros Ha Hb. apply (in_stab_iff D G off x0 HD) in Ha as [Ha Hfa]. apply (in_stab_iff D G off x0 HD) in Hb as [Hb Hfb].
    apply (in_stab_iff D G off x0 HD). split; [apply (g_closed G HG); assumption|].
    eapply veqm_trans; [apply apply_compose; exact H12|].
    eapply veqm_trans; [apply apply_op_veqm; exact Hfb | exact Hfa].
  Qed.

  Lemma stab_perm_t a : In a S -> Permutation (map (compose a) S) S.
  Proof.
    intros Ha. assert (HaG : In a G) by (apply (in_stab_iff D G off x0 HD) in Ha as [Ha _]; exact Ha).
    destruct (g_inv G HG a HaG) as [ai [Hai [Hr Hl]]].
    apply NoDup_Permutation_bis.
    - apply NoDup_map_inj_on; [apply NoDup_filter, (g_nodup G HG)|].
      intros b c Hb Hc E.
      apply (in_stab_iff D G off x0 HD) in Hb as [Hb _]. apply (in_stab_iff D G off x0 HD) in Hc as [Hc _].
      rewrite <- (cancel_l G HG a ai b Hb Hl), <- (cancel_l G HG a ai c Hc Hl), E. reflexivity.
    - rewrite map_length. apply Nat.le_refl.
    - intros g Hg. apply in_map_iff in Hg as [b [<- Hb]]. apply stab_closed_t; assumption.
  Qed.

  Lemma n_pos_t : 0 < n -> 0 < D * n.
  Proof. intros. apply Z.mul_pos_pos; assumption. Qed.

  (* the adjusted site is fixed by every operation of the site symmetry of x0 *)
  Lemma snapped_fixed_t a : 0 < n -> In a S -> In a (stab (D * n) G (vscale n off) snappedT).
  Proof.
    intros Hn Ha. assert (HaG : In a G) by (apply (in_stab_iff D G off x0 HD) in Ha as [Ha' _]; exact Ha').
    assert (H12n : (12 | D * n)) by (apply Z.divide_mul_l; exact H12).
    apply (in_stab_iff (D * n) G (vscale n off) snappedT (n_pos_t Hn)). split; [exact HaG|].
    destruct (stab_shift D G off x0 a HG HD H12 Ha) as [k Hk]. exists k.
    set (w := vsum (map (fun h => mvec (fst h) delta) S)).
    assert (Hw : mvec (fst a) w = w).
    { unfold w. rewrite mvec_vsum, map_map.
      rewrite <- (vsum_perm _ _ (Permutation_map (fun h => mvec (fst h) delta) (stab_perm_t a Ha))), map_map.
      f_equal. apply map_ext. intros h. unfold compose. cbn [fst]. symmetry. apply mvec_mmul. }
    change (vadd snappedT (vscale n off)) with (vadd (vadd (vscale n x0) w) (vscale n off)). rewrite snap_algebra2.
    rewrite apply_op_add, Hw.
    assert (Hs : apply_op (D * n) a (vscale n (vadd x0 off)) = vscale n (apply_op D a (vadd x0 off))).
    { destruct H12 as [c Hc]. unfold apply_op. rewrite mvec_vscale.
      replace (D * n / 12) with (n * (D / 12)).
      - destruct (mvec (fst a) (vadd x0 off)) as [m1 m2 m3], (snd a) as [t1 t2 t3]. apply v3_ext; zm_simpl; ring.
      - rewrite Hc. replace (c * 12 * n) with (c * n * 12) by ring. rewrite !Z.div_mul by lia. ring. }
    rewrite Hs, Hk. destruct x0 as [b1 b2 b3], off as [o1 o2 o3], w as [w1 w2 w3], k as [k1 k2 k3]. apply v3_ext; zm_simpl; ring.
  Qed.

  Hypothesis Hmany : (1 < List.length S)%nat.

  Lemma n_gt0_t : 0 < n.
  Proof. unfold n. lia. Qed.

  (* case 1: the site already lies on the special position (displaced along its free directions only):
     nothing is recalculated, the result is the orbit structure of x0 carried by the images of x *)
  Theorem snap_keeps_invariant_site_t : snappedT = vscale n x ->
    generator_site_t T D G off x =
    let '(pos0, ops0, m0) := expand_exact D G off x0 in Some (GSite D x off (map (rep_of_t D off x) ops0) ops0 m0 S).
  Proof.
    intros Hinv. unfold generator_site_t, generator_site_from_t. rewrite first_expansion_t.
    pose proof (find_invariants_exact D G off x0 HG HD H12) as Hfi. fold S in Hfi.
    destruct (expand_exact D G off x0) as [[pos0 ops0] m0]. cbn [fst snd] in *. rewrite Hfi.
    pose proof Hmany as Hm. apply Nat.ltb_lt in Hm. rewrite Hm.
    rewrite snap_sum_value_t, Hinv, vsub_self.
    rewrite v3_eqb_refl. reflexivity.
  Qed.

  (* case 2: the site is moved *)
  Hypothesis Hmoved : snappedT <> vscale n x.
  Hypothesis Hnotiny : zero_small_t T (D * n) snappedT = snappedT.
  Hypothesis Hsep : separated_t T (D * n) G (vscale n off) snappedT.

  Theorem snap_fixes_site_t :
    generator_site_t T D G off x =
    (let '(pos, ops, m) := expand_exact (D * n) G (vscale n off) snappedT in
     Some (GSite (D * n) snappedT (vscale n off) pos ops m (stab (D * n) G (vscale n off) snappedT)))
    /\ incl S (stab (D * n) G (vscale n off) snappedT).
  Proof.
    split; [|intros a Ha; apply snapped_fixed_t; [exact n_gt0_t | exact Ha]].
    unfold generator_site_t, generator_site_from_t. rewrite first_expansion_t.
    pose proof (find_invariants_exact D G off x0 HG HD H12) as Hfi. fold S in Hfi.
    destruct (expand_exact D G off x0) as [[pos0 ops0] m0]. cbn [fst snd] in *. rewrite Hfi.
    pose proof Hmany as Hm. apply Nat.ltb_lt in Hm. rewrite Hm.
    destruct (v3_eqb (snap_sum D S off x) v0) eqn:E.
    { exfalso. apply v3_eqb_eq in E. apply Hmoved. rewrite <- snapped_as_sum_t, E. apply vadd_v0_r. }
    fold n. rewrite snapped_as_sum_t, Hnotiny.
    assert (H12n : (12 | D * n)) by (apply Z.divide_mul_l; exact H12).
    rewrite (expand_eps_t_exact T Hwf (D * n) G (vscale n off) snappedT (n_pos_t n_gt0_t) Hsep).
    pose proof (find_invariants_exact (D * n) G (vscale n off) snappedT HG (n_pos_t n_gt0_t) H12n) as Hfi2.
    destruct (expand_exact (D * n) G (vscale n off) snappedT) as [[pos ops] m]. cbn [fst snd] in Hfi2. rewrite Hfi2. reflexivity.
  Qed.

  (* if the adjusted site does not fall onto a position more special than x0, its site symmetry is exactly
     that of x0 *)
  Theorem snapped_invariants_are_stab_x0_t :
    (forall g, In g G -> img D g off x0 <> red D x0 -> img (D * n) g (vscale n off) snappedT <> red (D * n) snappedT) ->
    stab (D * n) G (vscale n off) snappedT = S.
  Proof.
    intros Hno. unfold S, stab. apply filter_ext_in. intros g Hg. unfold fixes.
    destruct (v3_eqb (img D g off x0) (red D x0)) eqn:E0.
    - assert (Hs : In g S) by (unfold S, stab; apply filter_In; split; [exact Hg | exact E0]).
      pose proof (snapped_fixed_t g n_gt0_t Hs) as Hf. unfold stab in Hf. apply filter_In in Hf as [_ Hf]. exact Hf.
    - apply v3_eqb_neq in E0. apply v3_eqb_neq. apply Hno; assumption.
  Qed.
End SnapT.

(* ---------- ExpandAsymmetricUnit as a map over the sites ---------- *)

(* ---------- ExpandAsymmetricUnit(..., eps) ---------- *)
Theorem expand_asym_exact_sites_t T D G off sites : tol_wf T -> IsGroup G -> 0 < D -> (12 | D) ->
  (forall y, In y sites -> separated_t T D G off y) ->
  expand_asym_t T D G off sites =
  Some (Asym (map (fun y => snd (expand_exact D G off y)) sites)
             (map (fun y => (D, fst (fst (expand_exact D G off y)))) sites)).
Proof.
  intros Hwf HG HD H12 Hsep. unfold expand_asym_t.
  rewrite (all_some_map (generator_site_t T D G off)
             (fun y => GSite D y off (fst (fst (expand_exact D G off y))) (snd (fst (expand_exact D G off y)))
                             (snd (expand_exact D G off y)) (stab D G off y))).
  - rewrite !map_map. reflexivity.
  - intros y Hy. rewrite (snap_identity_on_exact_sites_t T D G off y Hwf HG HD H12 (Hsep y Hy)).
    destruct (expand_exact D G off y) as [[pos ops] m]. reflexivity.
Qed.
