(* C05 - soundness of the positional certificate checker (Model/C05_PosCert.v). *)
From Coq Require Import ZArith QArith Qabs Qround List Bool Lia Lra.
From DS Require Import Base.ZMat Base.SGDefs Model.C05_QBase Model.C05_PosCert Proofs.C05_QLemmas.
Import ListNotations.
Open Scope Q_scope.

(* --- reading the clauses off an accepted certificate ------------------------------------ *)
Lemma pos_ok_clauses G c : pos_cert_ok G c = true ->
  let S := stab G (pc_x c) in let N := pc_N c in
  nat_list_eqb (stab_idx G (pc_x c)) (pc_inv c) = true /\
  rows_fixed S N = true /\
  Nat.eqb (List.length (pc_p0 c)) (List.length N) = true /\
  dual_ok (pc_P c) N = true /\
  span_ok N (pc_P c) S (pc_C c) = true /\
  forallb (form_lin_ok G N) (pc_forms c) = true /\
  forallb (form_val_ok G c) (pc_forms c) = true /\
  forallb (form_pos_ok G c) (pc_forms c) = true /\
  orbit_covered G c = true /\
  images_distinct G (pc_x c) (pc_forms c) = true.
Proof.
  unfold pos_cert_ok, pos_clauses. cbn [forallb snd]. rewrite !andb_true_iff.
  intros (H1 & H2 & H3 & H4 & H5 & H6 & H7 & H8 & H9 & H10 & _). repeat split; assumption.
Qed.

Lemma rows_fixed_Fixed S N : rows_fixed S N = true -> forall n, In n N -> Fixed S n.
Proof.
  unfold rows_fixed, Fixed. intros H n Hn g Hg. rewrite forallb_forall in H.
  specialize (H g Hg). rewrite forallb_forall in H. apply q3eqb_true. exact (H n Hn).
Qed.

(* --- formulas ----------------------------------------------------------------------------- *)
Lemma cols_match_lin A R N p : cols_match A R N = true -> q3eq (lin A p) (mq R (lin N p)).
Proof.
  revert N p. induction A as [|a A IH]; intros N p H.
  - destruct N; [|discriminate]. cbn [lin]. q3s. repeat split; ring.
  - destruct N as [|n N]; [discriminate|]. cbn [cols_match] in H. apply andb_true_iff in H as [Ha HA].
    apply q3eqb_true in Ha. destruct p as [|a0 p]; [cbn [lin]; q3s; repeat split; ring|].
    cbn [lin]. specialize (IH N p HA).
    destruct a as [ax ay az]. destruct n as [nx ny nz].
    remember (lin A p) as LA. destruct LA as [ux uy uz]. remember (lin N p) as L. destruct L as [lx ly lz].
    destruct R as [r11 r12 r13 r21 r22 r23 r31 r32 r33].
    q3s. cbn [m11 m12 m13 m21 m22 m23 m31 m32 m33] in *.
    destruct Ha as (H1 & H2 & H3). destruct IH as (I1 & I2 & I3).
    repeat split.
    + rewrite H1, I1. ring.
    + rewrite H2, I2. ring.
    + rewrite H3, I3. ring.
Qed.

(* the algebraic identity behind clause (a): the formula follows the moved generator *)
Lemma formula_follows c f g p :
  q3eq (lin (pf_A f) p) (mq (fst g) (lin (pc_N c) p)) ->
  q3eq (lin (pf_A f) (pc_p0 c)) (mq (fst g) (lin (pc_N c) (pc_p0 c))) ->
  q3eq (q3sub (feval f p) (opq g (moved c p))) (q3sub (feval f (pc_p0 c)) (opq g (pc_x c))).
Proof.
  unfold feval, moved. destruct g as [R t]. cbn [fst].
  remember (lin (pf_A f) p) as a. remember (lin (pf_A f) (pc_p0 c)) as a0.
  remember (lin (pc_N c) p) as l. remember (lin (pc_N c) (pc_p0 c)) as l0.
  destruct a as [a1 a2 a3], a0 as [b1 b2 b3], l as [l1 l2 l3], l0 as [k1 k2 k3].
  destruct (pc_x c) as [x1 x2 x3]. destruct (pf_c f) as [c1 c2 c3].
  destruct R as [r11 r12 r13 r21 r22 r23 r31 r32 r33]. destruct t as [t1 t2 t3].
  q3s. cbn [m11 m12 m13 m21 m22 m23 m31 m32 m33 vx vy vz] in *.
  intros (H1 & H2 & H3) (I1 & I2 & I3). repeat split.
  - rewrite H1, I1. ring.
  - rewrite H2, I2. ring.
  - rewrite H3, I3. ring.
Qed.

Lemma pos_formulas G c : pos_cert_ok G c = true ->
  forall f, In f (pc_forms c) -> exists g, nth_error G (pf_rep f) = Some g /\
    NearInt3 (pc_tol c) (q3sub (feval f (pc_p0 c)) (opq g (pc_x c))) /\
    NearInt3 (pc_tol c) (q3sub (pf_pos f) (opq g (pc_x c))) /\
    forall p, q3eq (q3sub (feval f p) (opq g (moved c p))) (q3sub (feval f (pc_p0 c)) (opq g (pc_x c))).
Proof.
  intros Hok f Hf. apply pos_ok_clauses in Hok. cbv zeta in Hok.
  destruct Hok as (_ & _ & _ & _ & _ & H6 & H7 & H8 & _).
  rewrite forallb_forall in H6, H7, H8. specialize (H6 f Hf). specialize (H7 f Hf). specialize (H8 f Hf).
  unfold form_lin_ok, form_val_ok, form_pos_ok in *.
  destruct (nth_error G (pf_rep f)) as [g|]; [|discriminate].
  exists g. split; [reflexivity|]. split; [apply near_int3_NearInt3; exact H7|].
  split; [apply near_int3_NearInt3; exact H8|].
  intros p. apply formula_follows; apply cols_match_lin; exact H6.
Qed.

(* --- the moved generator keeps the site symmetry ------------------------------------------- *)
Lemma moved_fixed c g p :
  q3eq (mq (fst g) (lin (pc_N c) p)) (lin (pc_N c) p) ->
  q3eq (mq (fst g) (lin (pc_N c) (pc_p0 c))) (lin (pc_N c) (pc_p0 c)) ->
  q3eq (q3sub (opq g (moved c p)) (moved c p)) (q3sub (opq g (pc_x c)) (pc_x c)).
Proof.
  unfold moved. destruct g as [R t]. cbn [fst].
  remember (lin (pc_N c) p) as l. remember (lin (pc_N c) (pc_p0 c)) as l0.
  destruct l as [l1 l2 l3], l0 as [k1 k2 k3]. destruct (pc_x c) as [x1 x2 x3].
  destruct R as [r11 r12 r13 r21 r22 r23 r31 r32 r33]. destruct t as [t1 t2 t3].
  q3s. cbn [m11 m12 m13 m21 m22 m23 m31 m32 m33 vx vy vz] in *.
  intros (H1 & H2 & H3) (I1 & I2 & I3). repeat split.
  - rewrite <- H1 at 2. rewrite <- I1 at 2. ring.
  - rewrite <- H2 at 2. rewrite <- I2 at 2. ring.
  - rewrite <- H3 at 2. rewrite <- I3 at 2. ring.
Qed.

Lemma pos_stabiliser G c : pos_cert_ok G c = true ->
  forall g, In g (stab G (pc_x c)) ->
    IsInt3 (q3sub (opq g (pc_x c)) (pc_x c)) /\
    forall p, q3eq (q3sub (opq g (moved c p)) (moved c p)) (q3sub (opq g (pc_x c)) (pc_x c)).
Proof.
  intros Hok g Hg. apply pos_ok_clauses in Hok. cbv zeta in Hok. destruct Hok as (_ & H2 & _).
  pose proof (rows_fixed_Fixed _ _ H2) as HF.
  split; [exact (proj2 (stab_In _ _ _ Hg))|].
  intros p. apply moved_fixed; apply lin_fixed; intros n Hn; exact (HF n Hn g Hg).
Qed.

Corollary pos_moved_in_stabiliser G c : pos_cert_ok G c = true ->
  forall g p, In g (stab G (pc_x c)) -> In g (stab G (moved c p)).
Proof.
  intros Hok g p Hg. destruct (pos_stabiliser G c Hok g Hg) as [Hi Hp].
  apply In_stab; [exact (proj1 (stab_In _ _ _ Hg))|].
  apply (IsInt3_eq _ _ (q3eq_sym _ _ (Hp p))). exact Hi.
Qed.

(* --- the rows of N are a basis of the fixed space -------------------------------------------- *)
Lemma lin_dots_linear N P v :
  q3eq (lin N (map (fun f => q3dot f v) P))
       (q3add (q3scale (qx v) (lin N (map (fun f => q3dot f e1) P)))
              (q3add (q3scale (qy v) (lin N (map (fun f => q3dot f e2) P)))
                     (q3scale (qz v) (lin N (map (fun f => q3dot f e3) P))))).
Proof.
  revert P. induction N as [|n N IH]; intros P.
  - cbn [lin]. q3s. repeat split; ring.
  - destruct P as [|f P]; [cbn [map lin]; q3s; repeat split; ring|].
    cbn [map lin]. specialize (IH P).
    remember (lin N (map (fun f0 => q3dot f0 v) P)) as a.
    remember (lin N (map (fun f0 => q3dot f0 e1) P)) as b1.
    remember (lin N (map (fun f0 => q3dot f0 e2) P)) as b2.
    remember (lin N (map (fun f0 => q3dot f0 e3) P)) as b3.
    destruct a as [a1 a2 a3], b1 as [b11 b12 b13], b2 as [b21 b22 b23], b3 as [b31 b32 b33].
    destruct n as [nx ny nz], f as [fx fy fz], v as [v1 v2 v3].
    q3s. destruct IH as (I1 & I2 & I3). repeat split.
    + rewrite I1. ring.
    + rewrite I2. ring.
    + rewrite I3. ring.
Qed.

Lemma comb3_add v s s1 s2 s3 a b1 b2 b3 :
  q3eq s (q3add (q3scale (qx v) s1) (q3add (q3scale (qy v) s2) (q3scale (qz v) s3))) ->
  q3eq a (q3add (q3scale (qx v) b1) (q3add (q3scale (qy v) b2) (q3scale (qz v) b3))) ->
  q3eq (q3add s a) (q3add (q3scale (qx v) (q3add s1 b1)) (q3add (q3scale (qy v) (q3add s2 b2)) (q3scale (qz v) (q3add s3 b3)))).
Proof.
  destruct v as [v1 v2 v3], s as [z1 z2 z3], s1 as [s11 s12 s13], s2 as [s21 s22 s23], s3 as [s31 s32 s33].
  destruct a as [a1 a2 a3], b1 as [b11 b12 b13], b2 as [b21 b22 b23], b3 as [b31 b32 b33].
  unfold q3eq, q3add, q3scale; cbn [qx qy qz]. intros (H1 & H2 & H3) (I1 & I2 & I3).
  rewrite H1, H2, H3, I1, I2, I3. repeat split; ring.
Qed.

Lemma cstep_linear cc R v :
  q3eq (cmul cc (q3sub (mq R v) v))
       (q3add (q3scale (qx v) (cmul cc (q3sub (mq R e1) e1)))
              (q3add (q3scale (qy v) (cmul cc (q3sub (mq R e2) e2))) (q3scale (qz v) (cmul cc (q3sub (mq R e3) e3))))).
Proof.
  destruct cc as [[c1 c2] c3]. destruct c1 as [c11 c12 c13], c2 as [c21 c22 c23], c3 as [c31 c32 c33].
  destruct R as [r11 r12 r13 r21 r22 r23 r31 r32 r33]. destruct v as [v1 v2 v3].
  cbv beta iota delta [cmul q3eq q3add q3sub q3scale mq e1 e2 e3 iz qx qy qz m11 m12 m13 m21 m22 m23 m31 m32 m33].
  repeat split; ring.
Qed.

Lemma csum_linear S C v :
  q3eq (csum S C v)
       (q3add (q3scale (qx v) (csum S C e1)) (q3add (q3scale (qy v) (csum S C e2)) (q3scale (qz v) (csum S C e3)))).
Proof.
  revert C. induction S as [|g S IH]; intros C.
  - cbn [csum]. unfold q3eq, q3add, q3scale, q3zero; cbn [qx qy qz]. repeat split; ring.
  - destruct C as [|cc C]; [cbn [csum]; unfold q3eq, q3add, q3scale, q3zero; cbn [qx qy qz]; repeat split; ring|].
    cbn [csum]. apply comb3_add; [apply cstep_linear | apply IH].
Qed.

Lemma csum_fixed S C v : Fixed S v -> q3eq (csum S C v) q3zero.
Proof.
  revert C. induction S as [|g S IH]; intros C H.
  - cbn [csum]. apply q3eq_refl.
  - destruct C as [|cc C]; [cbn [csum]; apply q3eq_refl|].
    cbn [csum]. pose proof (H g (or_introl eq_refl)) as Hg.
    specialize (IH C (fun g' Hg' => H g' (or_intror Hg'))).
    remember (csum S C v) as a. destruct a as [a1 a2 a3].
    destruct cc as [[c1 c2] c3]. destruct c1 as [c11 c12 c13], c2 as [c21 c22 c23], c3 as [c31 c32 c33].
    remember (mq (fst g) v) as w. destruct w as [w1 w2 w3]. destruct v as [v1 v2 v3].
    q3s. destruct Hg as (H1 & H2 & H3). destruct IH as (I1 & I2 & I3).
    rewrite H1, H2, H3, I1, I2, I3. repeat split; ring.
Qed.

Lemma span_ok_recon N P S C : span_ok N P S C = true -> forall v, q3eq (recon N P S C v) v.
Proof.
  unfold span_ok. rewrite !andb_true_iff. intros [[H1 H2] H3] v.
  apply q3eqb_true in H1, H2, H3. unfold recon in *.
  pose proof (lin_dots_linear N P v) as L. pose proof (csum_linear S C v) as K.
  remember (lin N (map (fun f => q3dot f v) P)) as a.
  remember (lin N (map (fun f => q3dot f e1) P)) as b1.
  remember (lin N (map (fun f => q3dot f e2) P)) as b2.
  remember (lin N (map (fun f => q3dot f e3) P)) as b3.
  remember (csum S C v) as s. remember (csum S C e1) as s1. remember (csum S C e2) as s2.
  remember (csum S C e3) as s3.
  destruct a as [a1 a2 a3], b1 as [b11 b12 b13], b2 as [b21 b22 b23], b3 as [b31 b32 b33].
  destruct s as [z1 z2 z3], s1 as [s11 s12 s13], s2 as [s21 s22 s23], s3 as [s31 s32 s33].
  destruct v as [v1 v2 v3]. q3s.
  destruct L as (L1 & L2 & L3). destruct K as (K1 & K2 & K3).
  destruct H1 as (A1 & A2 & A3). destruct H2 as (B1 & B2 & B3). destruct H3 as (C1 & C2 & C3).
  repeat split.
  - rewrite L1, K1. transitivity (v1 * (b11 + s11) + v2 * (b21 + s21) + v3 * (b31 + s31)); [ring|].
    rewrite A1, B1, C1. ring.
  - rewrite L2, K2. transitivity (v1 * (b12 + s12) + v2 * (b22 + s22) + v3 * (b32 + s32)); [ring|].
    rewrite A2, B2, C2. ring.
  - rewrite L3, K3. transitivity (v1 * (b13 + s13) + v2 * (b23 + s23) + v3 * (b33 + s33)); [ring|].
    rewrite A3, B3, C3. ring.
Qed.

Lemma span_complete N P S C v : span_ok N P S C = true -> Fixed S v ->
  q3eq v (lin N (map (fun f => q3dot f v) P)).
Proof.
  intros H HF. pose proof (span_ok_recon _ _ _ _ H v) as R. pose proof (csum_fixed S C v HF) as Z.
  unfold recon in R. remember (lin N (map (fun f => q3dot f v) P)) as a. remember (csum S C v) as s.
  destruct a as [a1 a2 a3], s as [s1 s2 s3], v as [v1 v2 v3]. q3s.
  destruct R as (R1 & R2 & R3). destruct Z as (Z1 & Z2 & Z3).
  repeat split.
  - rewrite <- R1, Z1. ring.
  - rewrite <- R2, Z2. ring.
  - rewrite <- R3, Z3. ring.
Qed.

Lemma dual_ok_length P N : dual_ok P N = true -> List.length P = List.length N.
Proof.
  revert N. induction P as [|f P IH]; intros [|n N] H; try discriminate; [reflexivity|].
  cbn [dual_ok] in H. rewrite !andb_true_iff in H. destruct H as [_ H]. cbn [List.length]. f_equal. auto.
Qed.

Lemma dual_ok_indep P N : dual_ok P N = true ->
  forall a, List.length a = List.length N -> q3eq (lin N a) q3zero -> Forall (fun q => q == 0) a.
Proof.
  revert N. induction P as [|f P IH]; intros [|n N] H a Hl Hz; try discriminate.
  - destruct a; [constructor|discriminate].
  - destruct a as [|a0 a]; [discriminate|]. cbn [dual_ok] in H. rewrite !andb_true_iff in H.
    destruct H as [[[Hd HN] HP] Hr]. apply Qeq_bool_iff in Hd.
    assert (HN' : forall n', In n' N -> q3dot f n' == 0).
    { intros n' Hn'. rewrite forallb_forall in HN. apply Qeq_bool_iff. exact (HN n' Hn'). }
    cbn [lin] in Hz. pose proof (dot_lin_zero f N a HN') as D0.
    pose proof (q3dot_eq f _ _ Hz) as D1.
    assert (Ha0 : a0 == 0).
    { remember (lin N a) as L. destruct L as [l1 l2 l3]. destruct f as [f1 f2 f3], n as [n1 n2 n3].
      q3s. transitivity (f1 * (a0 * n1 + l1) + f2 * (a0 * n2 + l2) + f3 * (a0 * n3 + l3)).
      - transitivity (a0 * (f1 * n1 + f2 * n2 + f3 * n3) + (f1 * l1 + f2 * l2 + f3 * l3)); [|ring].
        rewrite Hd, D0. ring.
      - rewrite D1. ring. }
    constructor; [exact Ha0|]. apply (IH N Hr a); [cbn [List.length] in Hl; lia|].
    remember (lin N a) as L. destruct L as [l1 l2 l3]. destruct n as [n1 n2 n3].
    q3s. destruct Hz as (Z1 & Z2 & Z3). rewrite Ha0 in Z1, Z2, Z3. repeat split.
    + rewrite <- Z1. ring.
    + rewrite <- Z2. ring.
    + rewrite <- Z3. ring.
Qed.

Lemma pos_basis G c : pos_cert_ok G c = true ->
  let S := stab G (pc_x c) in let N := pc_N c in
  List.length (pc_p0 c) = List.length N /\
  (forall n, In n N -> Fixed S n) /\
  (forall v, Fixed S v -> exists a, List.length a = List.length N /\ q3eq v (lin N a)) /\
  (forall a, List.length a = List.length N -> q3eq (lin N a) q3zero -> Forall (fun q => q == 0) a).
Proof.
  intros Hok. apply pos_ok_clauses in Hok. cbv zeta in *.
  destruct Hok as (_ & H2 & H3 & H4 & H5 & _).
  split; [apply Nat.eqb_eq; exact H3|]. split; [apply rows_fixed_Fixed; exact H2|]. split.
  - intros v Hv. exists (map (fun f => q3dot f v) (pc_P c)). split.
    + rewrite map_length. apply dual_ok_length. exact H4.
    + eapply span_complete; eassumption.
  - apply dual_ok_indep with (P := pc_P c). exact H4.
Qed.

(* --- the listed images are the whole orbit, also after moving the generator ------------------- *)
Lemma img_diff g gi x w :
  q3eq (mq (fst g) w) (mq (fst gi) w) ->
  q3eq (q3sub (opq g (q3add x w)) (opq gi (q3add x w))) (q3sub (opq g x) (opq gi x)).
Proof.
  destruct g as [R t], gi as [R' t']. cbn [fst].
  destruct R as [r11 r12 r13 r21 r22 r23 r31 r32 r33], R' as [s11 s12 s13 s21 s22 s23 s31 s32 s33].
  destruct t as [t1 t2 t3], t' as [u1 u2 u3], x as [x1 x2 x3], w as [w1 w2 w3].
  q3s. cbn [m11 m12 m13 m21 m22 m23 m31 m32 m33 vx vy vz] in *.
  intros (H1 & H2 & H3). repeat split.
  - transitivity ((inject_Z r11 * x1 + inject_Z r12 * x2 + inject_Z r13 * x3 + (t1 # 12)
                   - (inject_Z s11 * x1 + inject_Z s12 * x2 + inject_Z s13 * x3 + (u1 # 12)))
                  + (inject_Z r11 * w1 + inject_Z r12 * w2 + inject_Z r13 * w3)
                  - (inject_Z s11 * w1 + inject_Z s12 * w2 + inject_Z s13 * w3)); [ring|].
    rewrite H1. ring.
  - transitivity ((inject_Z r21 * x1 + inject_Z r22 * x2 + inject_Z r23 * x3 + (t2 # 12)
                   - (inject_Z s21 * x1 + inject_Z s22 * x2 + inject_Z s23 * x3 + (u2 # 12)))
                  + (inject_Z r21 * w1 + inject_Z r22 * w2 + inject_Z r23 * w3)
                  - (inject_Z s21 * w1 + inject_Z s22 * w2 + inject_Z s23 * w3)); [ring|].
    rewrite H2. ring.
  - transitivity ((inject_Z r31 * x1 + inject_Z r32 * x2 + inject_Z r33 * x3 + (t3 # 12)
                   - (inject_Z s31 * x1 + inject_Z s32 * x2 + inject_Z s33 * x3 + (u3 # 12)))
                  + (inject_Z r31 * w1 + inject_Z r32 * w2 + inject_Z r33 * w3)
                  - (inject_Z s31 * w1 + inject_Z s32 * w2 + inject_Z s33 * w3)); [ring|].
    rewrite H3. ring.
Qed.

Lemma mq_sub R u v : q3eq (mq R (q3sub u v)) (q3sub (mq R u) (mq R v)).
Proof.
  destruct R as [r11 r12 r13 r21 r22 r23 r31 r32 r33], u as [u1 u2 u3], v as [v1 v2 v3].
  q3s. cbn [m11 m12 m13 m21 m22 m23 m31 m32 m33]. repeat split; ring.
Qed.

Lemma q3sub_eq a b c d : q3eq a c -> q3eq b d -> q3eq (q3sub a b) (q3sub c d).
Proof.
  destruct a, b, c, d. q3s. intros (A & B & C) (D & E & F). rewrite A, B, C, D, E, F. repeat split; reflexivity.
Qed.

Lemma pos_orbit G c : pos_cert_ok G c = true ->
  forall g, In g G -> exists f gi, In f (pc_forms c) /\ nth_error G (pf_rep f) = Some gi /\
    IsInt3 (q3sub (opq g (pc_x c)) (opq gi (pc_x c))) /\
    forall p, q3eq (q3sub (opq g (moved c p)) (opq gi (moved c p))) (q3sub (opq g (pc_x c)) (opq gi (pc_x c))).
Proof.
  intros Hok g Hg. apply pos_ok_clauses in Hok. cbv zeta in Hok.
  destruct Hok as (_ & _ & _ & _ & _ & _ & _ & _ & H9 & _).
  unfold orbit_covered in H9. cbv zeta in H9. rewrite forallb_forall in H9. specialize (H9 g Hg).
  apply existsb_exists in H9 as [o [Ho Hc]]. apply in_map_iff in Ho as [f [Hfo Hf]].
  unfold rep_can in Hfo. destruct (nth_error G (pf_rep f)) as [gi|] eqn:E; [|subst o; discriminate].
  subst o. unfold covered_by in Hc.
  apply andb_true_iff in Hc as [Hs Hr]. exists f, gi. split; [exact Hf|]. split; [exact E|].
  split; [apply q3canon_cong, q3same_eq; exact Hs|].
  intros p. unfold moved. apply img_diff.
  unfold rows_agree in Hr. rewrite forallb_forall in Hr.
  assert (HA : forall n, In n (pc_N c) -> q3eq (mq (fst g) n) (mq (fst gi) n)).
  { intros n Hn. apply q3eqb_true. exact (Hr n Hn). }
  eapply q3eq_trans; [apply mq_sub|]. eapply q3eq_trans; [|apply q3eq_sym; apply mq_sub].
  apply q3sub_eq; apply lin_agree; exact HA.
Qed.

(* different listed positions are different points of the orbit of x *)
Lemma distinct_can_spec l : distinct_can l = true ->
  forall i j a b, (i < j)%nat -> nth_error l i = Some a -> nth_error l j = Some b -> a <> b.
Proof.
  induction l as [|h r IH]; intros H i j a b Hij Hi Hj.
  - destruct i; discriminate.
  - cbn [distinct_can] in H. apply andb_true_iff in H as [Hf Hr].
    destruct j as [|j]; [lia|]. cbn [nth_error] in Hj. destruct i as [|i].
    + cbn [nth_error] in Hi. injection Hi as <-. rewrite forallb_forall in Hf.
      apply nth_error_In in Hj. specialize (Hf b Hj). intros ->. rewrite q3same_refl in Hf. discriminate.
    + cbn [nth_error] in Hi. apply (IH Hr i j a b); [lia|assumption|assumption].
Qed.

Lemma images_distinct_spec G x fs : images_distinct G x fs = true ->
  forall i j fi fj, (i < j)%nat -> nth_error fs i = Some fi -> nth_error fs j = Some fj ->
    ~ IsInt3 (q3sub (rep_img G x fi) (rep_img G x fj)).
Proof.
  unfold images_distinct. intros H i j fi fj Hij Hi Hj HI.
  apply (distinct_can_spec _ H i j (q3canon (rep_img G x fi)) (q3canon (rep_img G x fj)) Hij).
  - exact (map_nth_error (fun f => q3canon (rep_img G x f)) i fs Hi).
  - exact (map_nth_error (fun f => q3canon (rep_img G x f)) j fs Hj).
  - apply cong_q3canon. exact HI.
Qed.

Lemma pos_distinct G c : pos_cert_ok G c = true ->
  forall i j fi fj, (i < j)%nat -> nth_error (pc_forms c) i = Some fi -> nth_error (pc_forms c) j = Some fj ->
    ~ IsInt3 (q3sub (rep_img G (pc_x c) fi) (rep_img G (pc_x c) fj)).
Proof.
  intros Hok. apply pos_ok_clauses in Hok. cbv zeta in Hok.
  destruct Hok as (_ & _ & _ & _ & _ & _ & _ & _ & _ & H10). apply images_distinct_spec. exact H10.
Qed.
