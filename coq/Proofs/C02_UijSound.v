(* C02 - the tensor reported at an equivalent position is R U R^T for EVERY operation (R,t) that generates the
   position, provided U is invariant under the site symmetry (C06's `Inv`). *)
From Coq Require Import ZArith QArith List Bool Lia Permutation.
From DS Require Import Base.ZMat Base.SGDefs Model.GroupCheck Model.C02_Orbit Model.C02_Eps Model.C02_Gen Model.C02_Uij
  Model.C05_QBase Model.C06_UCert.
From DS Require Import Proofs.C02_Action Proofs.C02_Expand Proofs.C02_OrbitStab Proofs.C06_USound.
Import ListNotations.
Open Scope Z_scope.

Section Uij.
  Variable D : Z.
  Variable G : list symop.
  Variables off y : v3.
  Hypothesis HG : IsGroup G.
  Hypothesis HD : 0 < D.
  Hypothesis H12 : (12 | D).

  (* two operations with the same image differ by an operation of the site symmetry *)
  Lemma fibre_coset g1 g : In g1 G -> In g G -> img D g off y = img D g1 off y ->
    exists h, In h (C02_Orbit.stab D G off y) /\ g = compose g1 h.
  Proof.
    intros Hg1 Hg He. destruct (g_inv G HG g1 Hg1) as [gi [Hgi [Hr Hl]]].
    exists (compose gi g). split.
    - apply (in_stab_iff D G off y HD). split; [apply (g_closed G HG); assumption|].
      assert (Dnz : D <> 0) by lia.
      apply (img_eq_iff D g g1 off y Dnz) in He.
      eapply veqm_trans; [apply apply_compose; exact H12|].
      eapply veqm_trans; [apply apply_op_veqm; exact He|].
      eapply veqm_trans; [apply veqm_sym, apply_compose; exact H12|].
      rewrite Hl, apply_ident. apply veqm_refl.
    - symmetry. apply (cancel_l G HG gi g1 g Hg Hr).
  Qed.

  Theorem eq_uijs_any_generating_operation (U : s6) :
    C06_UCert.Inv (C02_Orbit.stab D G off y) U ->
    let '(pos, ops, _) := expand_exact D G off y in
    Forall2 (fun p U' => forall g, In g G -> img D g off y = p -> s6eq U' (C06_UCert.conj (fst g) U)) pos (eq_uijs ops U).
  Proof.
    intros HU. pose proof (expand_exact_spec D G off y HG HD H12) as H.
    destruct (expand_exact D G off y) as [[pos ops] m].
    destruct H as [_ [_ [_ [Hpos [[Hops _] _]]]]]. subst ops. unfold eq_uijs. rewrite map_map.
    assert (Hall : forall p, In p pos -> forall g, In g G -> img D g off y = p ->
              s6eq (C06_UCert.conj (fst (hd ident (fibre D G off y p))) U) (C06_UCert.conj (fst g) U)).
    { intros p Hp g Hg Hi.
      apply Hpos in Hp as [g0 [Hg0 Hp0]].
      assert (Hne : In g0 (fibre D G off y p)) by (apply in_fibre_iff; split; [exact Hg0 | symmetry; exact Hp0]).
      destruct (fibre D G off y p) as [|g1 l] eqn:Ef; [destruct Hne|]. cbn [hd].
      assert (Hg1 : In g1 (fibre D G off y p)) by (rewrite Ef; left; reflexivity).
      apply in_fibre_iff in Hg1 as [Hg1 Hi1].
      destruct (fibre_coset g1 g Hg1 Hg) as [h [Hh ->]]; [congruence|].
      unfold compose. cbn [fst]. apply s6eq_sym.
      eapply s6eq_trans; [apply conj_mmul|]. apply conj_eq. apply HU. exact Hh. }
    clear Hpos. induction pos as [|p r IH]; cbn [map]; constructor.
    - intros g Hg Hi. apply Hall; [left; reflexivity | exact Hg | exact Hi].
    - apply IH. intros p' Hp'. apply Hall. right. exact Hp'.
  Qed.
End Uij.
