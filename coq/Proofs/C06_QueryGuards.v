(* C05/C06 - the formula queries of the CURRENT source all work with the tolerance the site was built with. *)
From Coq Require Import ZArith QArith List Lia.
From DS Require Import Base.ZMat Model.C05_QBase Model.C06_Query Gen.C06_QueryGuards Model.C06_QueryMethods Proofs.C06_QuerySound.
Open Scope Q_scope.

Lemma guards_use_site_eps :
  guard_positionFormula = TolSelf /\ guard_UFormula = TolSelf /\
  eps_passed_by_SymmetryConstraints = TolSelf /\ eps_passed_by_ExpandAsymmetricUnit = TolSelf.
Proof. repeat split; reflexivity. Qed.

Lemma queries_agree e sites q : u_formula_query e sites q = position_formula_query e sites q.
Proof. reflexivity. Qed.

Lemma constructors_pass_eps e : site_eps_in_SymmetryConstraints e = e /\ site_eps_in_ExpandAsymmetricUnit e = e.
Proof. split; reflexivity. Qed.

Lemma position_query_spec e sites q :
  (forall i, position_formula_query e sites q = Some i ->
     (i < List.length sites)%nat /\ NearInt3 e (q3sub (nth i sites q3zero) q) /\
     (forall j, (j < List.length sites)%nat -> boxd (nth i sites q3zero) q <= boxd (nth j sites q3zero) q) /\
     eq_index_query sites q = Some i) /\
  (forall j, (j < List.length sites)%nat -> NearInt3 e (q3sub (nth j sites q3zero) q) ->
     exists i, position_formula_query e sites q = Some i) /\
  (position_formula_query e sites q = None ->
     forall j, (j < List.length sites)%nat -> ~ NearInt3 e (q3sub (nth j sites q3zero) q)) /\
  (forall e' i, e <= e' -> position_formula_query e sites q = Some i -> position_formula_query e' sites q = Some i).
Proof.
  unfold position_formula_query, eq_index_query. destruct guards_use_site_eps as (-> & _). cbn [tol_of].
  split; [|split; [|split]].
  - intros i H. destruct (site_query_sound _ _ _ _ H) as (A & B & C).
    split; [exact A|]. split; [exact B|]. split; [exact C|]. eapply site_query_eq_index; exact H.
  - intros j Hj Hn. eapply site_query_complete; eassumption.
  - apply site_query_none.
  - intros e' i He H. eapply site_query_mono; eassumption.
Qed.

Lemma u_query_spec e sites q :
  (forall i, u_formula_query e sites q = Some i ->
     (i < List.length sites)%nat /\ NearInt3 e (q3sub (nth i sites q3zero) q) /\
     (forall j, (j < List.length sites)%nat -> boxd (nth i sites q3zero) q <= boxd (nth j sites q3zero) q) /\
     eq_index_query sites q = Some i) /\
  (forall j, (j < List.length sites)%nat -> NearInt3 e (q3sub (nth j sites q3zero) q) ->
     exists i, u_formula_query e sites q = Some i) /\
  (u_formula_query e sites q = None ->
     forall j, (j < List.length sites)%nat -> ~ NearInt3 e (q3sub (nth j sites q3zero) q)) /\
  (forall e' i, e <= e' -> u_formula_query e sites q = Some i -> u_formula_query e' sites q = Some i).
Proof. rewrite queries_agree. unfold u_formula_query. fold (position_formula_query e sites q).
  pose proof (position_query_spec e sites q) as H. destruct H as (A & B & C & D). split; [|split; [|split]].
  - intros i Hi. exact (A i Hi).
  - exact B.
  - exact C.
  - intros e' i He Hi. rewrite queries_agree. exact (D e' i He Hi).
Qed.
