From Coq Require Import Reals Lra List Bool.
From DS Require Import Base.RMat Base.Trig Model.LatDefs Model.C01_Spec Model.C14_Place Gen.LatFormulas Gen.C14_Place.
From DS Require Import Proofs.C01_Lattice Proofs.C10_Base Proofs.C10_Hist Proofs.C10_Reciprocal.
Import ListNotations.
Open Scope R_scope.

(* the relations between a lattice's cached matrices that the theorems need *)
Record lat_ok (L : lat) : Prop := {
  ok_br : mmul (l_base L) (l_recbase L) = I;
  ok_rb : mmul (l_recbase L) (l_base L) = I;
  ok_nr : mmul (l_normbase L) (l_recnormbase L) = I;
  ok_rn : mmul (l_recnormbase L) (l_normbase L) = I;
  ok_iso : l_isotropicunit L = mmul (mT (l_recnormbase L)) (l_recnormbase L)
}.

Lemma inv_both A X : det A <> 0 -> mmul A X = I -> mmul X A = I.
Proof. intros H E. rewrite (minv_unique A X H E). apply minv_l. exact H. Qed.

Lemma sqrt_sq_eq s x : 0 < x -> sqrt s = x -> s = x * x.
Proof.
  intros Px E. assert (0 <= s).
  { destruct (Rle_or_lt 0 s) as [H|H]; [exact H|]. rewrite sqrt_neg_0 in E by lra. lra. }
  rewrite <- E. symmetry. apply sqrt_sqrt. assumption.
Qed.

(* dividing the columns of Rb by their lengths gives unit columns, so overwriting the diagonal of Rn^T Rn by 1 changes nothing *)
Lemma iso_unit_diag (Rb : mat) x y z : 0 < x -> 0 < y -> 0 < z ->
  sqrt (vdot (row1 (mT Rb)) (row1 (mT Rb))) = x -> sqrt (vdot (row2 (mT Rb)) (row2 (mT Rb))) = y ->
  sqrt (vdot (row3 (mT Rb)) (row3 (mT Rb))) = z ->
  mset33 (mset22 (mset11 (mmul (mT (mcoldiv Rb x y z)) (mcoldiv Rb x y z)) 1) 1) 1 = mmul (mT (mcoldiv Rb x y z)) (mcoldiv Rb x y z).
Proof.
  intros Px Py Pz La Lb Lc.
  apply sqrt_sq_eq in La, Lb, Lc; try assumption.
  destruct Rb as [r11 r12 r13 r21 r22 r23 r31 r32 r33].
  unfold vdot, row1, row2, row3, mT in La, Lb, Lc. cbn [v1 v2 v3 a11 a12 a13 a21 a22 a23 a31 a32 a33] in La, Lb, Lc.
  unfold mset11, mset22, mset33, mcoldiv, mmul, mT. cbn [a11 a12 a13 a21 a22 a23 a31 a32 a33].
  f_equal.
  - replace (r11 / x * (r11 / x) + r21 / x * (r21 / x) + r31 / x * (r31 / x)) with ((r11 * r11 + r21 * r21 + r31 * r31) / (x * x)) by (field; lra).
    rewrite La. field; lra.
  - replace (r12 / y * (r12 / y) + r22 / y * (r22 / y) + r32 / y * (r32 / y)) with ((r12 * r12 + r22 * r22 + r32 * r32) / (y * y)) by (field; lra).
    rewrite Lb. field; lra.
  - replace (r13 / z * (r13 / z) + r23 / z * (r23 / z) + r33 / z * (r33 / z)) with ((r13 * r13 + r23 * r23 + r33 * r33) / (z * z)) by (field; lra).
    rewrite Lc. field; lra.
Qed.

(* every lattice built from a valid cell and a proper rotation satisfies them *)
Theorem build_lat_ok a b c al be ga r : valid_cell a b c al be ga -> proper_rot r -> lat_ok (build a b c al be ga r).
Proof.
  intros HC HR. destruct (recbase_inverse a b c al be ga r HC HR) as [E1 E2].
  pose proof (reciprocal_params a b c al be ga r HC HR) as RP. cbv zeta in RP.
  set (L := build a b c al be ga r) in *.
  assert (Par : 0 < l_ar L /\ 0 < l_br L /\ 0 < l_cr L).
  { unfold L, build, setLatPar; cbv zeta; lat_simpl. abstract_cell HC al be ga.
    repeat split; apply Rdiv_lt_0_compat; try lra; apply Rmult_lt_0_compat; lra. }
  destruct Par as (Pa & Pb & Pc).
  assert (NB : l_normbase L = mrowscale (l_base L) (l_ar L) (l_br L) (l_cr L)) by reflexivity.
  assert (RN : l_recnormbase L = mcoldiv (l_recbase L) (l_ar L) (l_br L) (l_cr L)) by reflexivity.
  assert (NR : mmul (l_normbase L) (l_recnormbase L) = I).
  { rewrite NB, RN. set (B := l_base L) in *. set (Rb := l_recbase L) in *. set (x := l_ar L) in *. set (y := l_br L) in *. set (z := l_cr L) in *.
    clearbody B Rb x y z. destruct B as [b11 b12 b13 b21 b22 b23 b31 b32 b33]. destruct Rb as [r11 r12 r13 r21 r22 r23 r31 r32 r33].
    unfold mmul, I in E1. cbn [a11 a12 a13 a21 a22 a23 a31 a32 a33] in E1. injection E1 as e1 e2 e3 e4 e5 e6 e7 e8 e9.
    unfold mrowscale, mcoldiv. apply mat_eq; rm_simpl.
    - replace (b11 * x * (r11 / x) + b12 * x * (r21 / x) + b13 * x * (r31 / x)) with (b11 * r11 + b12 * r21 + b13 * r31) by (field; lra). exact e1.
    - replace (b11 * x * (r12 / y) + b12 * x * (r22 / y) + b13 * x * (r32 / y)) with ((b11 * r12 + b12 * r22 + b13 * r32) * x / y) by (field; lra). rewrite e2. field; lra.
    - replace (b11 * x * (r13 / z) + b12 * x * (r23 / z) + b13 * x * (r33 / z)) with ((b11 * r13 + b12 * r23 + b13 * r33) * x / z) by (field; lra). rewrite e3. field; lra.
    - replace (b21 * y * (r11 / x) + b22 * y * (r21 / x) + b23 * y * (r31 / x)) with ((b21 * r11 + b22 * r21 + b23 * r31) * y / x) by (field; lra). rewrite e4. field; lra.
    - replace (b21 * y * (r12 / y) + b22 * y * (r22 / y) + b23 * y * (r32 / y)) with (b21 * r12 + b22 * r22 + b23 * r32) by (field; lra). exact e5.
    - replace (b21 * y * (r13 / z) + b22 * y * (r23 / z) + b23 * y * (r33 / z)) with ((b21 * r13 + b22 * r23 + b23 * r33) * y / z) by (field; lra). rewrite e6. field; lra.
    - replace (b31 * z * (r11 / x) + b32 * z * (r21 / x) + b33 * z * (r31 / x)) with ((b31 * r11 + b32 * r21 + b33 * r31) * z / x) by (field; lra). rewrite e7. field; lra.
    - replace (b31 * z * (r12 / y) + b32 * z * (r22 / y) + b33 * z * (r32 / y)) with ((b31 * r12 + b32 * r22 + b33 * r32) * z / y) by (field; lra). rewrite e8. field; lra.
    - replace (b31 * z * (r13 / z) + b32 * z * (r23 / z) + b33 * z * (r33 / z)) with (b31 * r13 + b32 * r23 + b33 * r33) by (field; lra). exact e9. }
  assert (DN : det (l_normbase L) <> 0).
  { intros Z. apply (f_equal det) in NR. rewrite det_mmul, Z, det_I in NR. lra. }
  constructor; try assumption.
  - apply inv_both; assumption.
  - (* isotropicunit = Rn^T Rn with its (unit) diagonal overwritten by 1: the columns of recnormbase are unit vectors *)
    destruct RP as (La & Lb & Lc & _).
    assert (IU : l_isotropicunit L = mset33 (mset22 (mset11 (mmul (mT (l_recnormbase L)) (l_recnormbase L)) 1) 1) 1) by reflexivity.
    rewrite IU, RN.
    change (l_a (L_reciprocal L)) with (sqrt (vdot (row1 (mT (l_recbase L))) (row1 (mT (l_recbase L))))) in La.
    change (l_b (L_reciprocal L)) with (sqrt (vdot (row2 (mT (l_recbase L))) (row2 (mT (l_recbase L))))) in Lb.
    change (l_c (L_reciprocal L)) with (sqrt (vdot (row3 (mT (l_recbase L))) (row3 (mT (l_recbase L))))) in Lc.
    apply iso_unit_diag; assumption.
Qed.

