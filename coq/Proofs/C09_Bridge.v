(* Bridge C01/C10/C14 -> C09: the relations C09 assumes of a lattice (lat_ok) are THEOREMS for every lattice object that the
   generated lattice code builds from a valid cell and a proper rotation - hence, by C10, for every object reachable by valid
   updates (setLatPar / property assignments / setLatBase with positive determinant / copies). *)
From Coq Require Import Reals Lra List.
From DS Require Import Base.RMat Base.Trig Base.C09_GNum Model.LatDefs Model.C01_Spec Model.C09_Prims Gen.LatFormulas.
From DS Require Import Proofs.C01_Lattice Proofs.C10_Base Proofs.C14_LatOk Proofs.C09_Algebra.
Open Scope R_scope.

(* what atom.py reads from a Lattice object *)
Definition latdata_of (L : lat) : latdata R :=
  LD (LatDefs.l_a L) (LatDefs.l_b L) (LatDefs.l_c L) (LatDefs.l_ar L) (LatDefs.l_br L) (LatDefs.l_cr L)
     (LatDefs.l_ca L) (LatDefs.l_cb L) (LatDefs.l_cg L)
     (ofM (LatDefs.l_metrics L)) (ofM (LatDefs.l_base L)) (ofM (LatDefs.l_normbase L)) (ofM (LatDefs.l_isotropicunit L)) L_epsilon.

Lemma mrowscale_diag B x y z : mrowscale B x y z = mmul (diag3 x y z) B.
Proof. destruct B as [b11 b12 b13 b21 b22 b23 b31 b32 b33]. unfold mrowscale, diag3. apply mat_eq; rm_simpl; ring. Qed.

Theorem built_lattice_is_lat_ok a b c al be ga r : valid_cell a b c al be ga -> proper_rot r ->
  C09_Algebra.lat_ok (latdata_of (build a b c al be ga r)).
Proof.
  intros HC HR. pose proof (build_lat_ok a b c al be ga r HC HR) as OK.
  pose proof (base_gram a b c al be ga r HC HR) as G. cbv zeta in G.
  set (L := build a b c al be ga r) in *.
  constructor; unfold latdata_of;
    cbn [C09_Prims.l_normbase C09_Prims.l_base C09_Prims.l_metrics C09_Prims.l_isotropicunit C09_Prims.l_ar C09_Prims.l_br
         C09_Prims.l_cr C09_Prims.l_a C09_Prims.l_b C09_Prims.l_c C09_Prims.l_ca C09_Prims.l_cb C09_Prims.l_cg C09_Prims.l_epsilon];
    rewrite ?toM_ofM.
  - assert (E : LatDefs.l_normbase L = mrowscale (LatDefs.l_base L) (LatDefs.l_ar L) (LatDefs.l_br L) (LatDefs.l_cr L)) by reflexivity.
    rewrite E. apply mrowscale_diag.
  - symmetry. exact G.
  - (* same entries up to the order of factors used in the source *)
    first [reflexivity | unfold L, build, setLatPar; cbv zeta; lat_simpl; f_equal; ring].
  - exists (LatDefs.l_recnormbase L). split; [exact (ok_nr L OK) | exact (ok_iso L OK)].
  - unfold L_epsilon. lra.
Qed.

(* ... and for every lattice defined by base vectors with positive determinant *)
Theorem base_lattice_is_lat_ok old B : 0 < det B -> C09_Algebra.lat_ok (latdata_of (setLatBase old B)).
Proof.
  intros H. rewrite (setLatBase_eq_build old B H).
  apply built_lattice_is_lat_ok; [exact (recovered_valid old B H) | exact (baserot_proper old B H)].
Qed.
