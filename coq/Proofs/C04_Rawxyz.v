(* C04 - rawxyz: round trip, idempotence of canon, no drift. *)
From Coq Require Import List Bool Arith NArith ZArith Lia.
From Coq Require Import Ascii.
From DS Require Import Base.C04_Text Base.C04_Decimal Model.C04_Fmt Gen.C04_FmtSpecs Model.C04_Xyz Model.C04_Rawxyz.
From DS Require Import Proofs.C04_Fmt Proofs.C04_GenIdem Proofs.C04_NoDrift Proofs.C04_Xyz.
Import ListNotations.

Lemma sep_ok_raw : sep_ok rawxyz_w_atom = true. Proof. vm_compute. reflexivity. Qed.
Lemma nonl_raw : lits_no_char nl rawxyz_w_atom = true. Proof. vm_compute. reflexivity. Qed.
Lemma nocr_raw : lits_no_char cr rawxyz_w_atom = true. Proof. vm_compute. reflexivity. Qed.
Lemma gprec_pos_raw : (0 < gprec rawxyz_w_atom 0 /\ 0 < gprec rawxyz_w_atom 1 /\ 0 < gprec rawxyz_w_atom 2)%nat.
Proof. vm_compute. repeat split; lia. Qed.

(* one atom record: the line, its fields, and what the row parser makes of them *)
Lemma atom_line_raw a : repr_ratom a = true ->
  exists line bx bY bz, print_atom_raw a = Some line /\ split_ws line = [xa_el a; bx; bY; bz] /\
    isfloat bx = true /\ isfloat bY = true /\ isfloat bz = true /\
    parse_row_raw 4 (Some 0%nat, 1%nat) (split_ws line) = Some (Some (canon_ratom a)) /\
    line <> [] /\ has_char nl line = false /\ has_char cr line = false.
Proof.
  intros R. unfold repr_ratom in R.
  apply andb_true_iff in R. destruct R as [R Gz]. apply andb_true_iff in R. destruct R as [R Gy]. apply andb_true_iff in R. destruct R as [R Gx].
  apply andb_true_iff in R. destruct R as [R Hnf]. apply andb_true_iff in R. destruct R as [Hnh Hel].
  assert (forallb arg_ok (xyz_atom_args a) = true) as Hargs by (unfold xyz_atom_args; cbn [forallb arg_ok]; rewrite Hel; reflexivity).
  destruct (str_tok_ok_parts _ Hel) as [El1 [El2 _]].
  destruct (gen_ok_print _ _ Gx) as [bx [Px [_ Fx]]]. destruct (gen_ok_print _ _ Gy) as [bY [Py [_ Fy]]]. destruct (gen_ok_print _ _ Gz) as [bz [Pz [_ Fz]]].
  assert (exists line, render rawxyz_w_atom (xyz_atom_args a) = Some line) as [line E].
  { apply render_toks_some. unfold xyz_atom_args, rawxyz_w_atom, gprec in *. cbn in Px, Py, Pz |- *. rewrite Px, Py, Pz. eexists; reflexivity. }
  pose proof (render_split _ _ _ sep_ok_raw Hargs E) as T.
  pose proof (render_no_char nl _ _ _ eq_refl eq_refl nonl_raw Hargs E) as N1.
  pose proof (render_no_char cr _ _ _ eq_refl eq_refl nocr_raw Hargs E) as N2.
  (* the line starts with the element, so lstrip leaves it alone *)
  assert (lstrip line = line) as LS.
  { apply lstrip_id. unfold xyz_atom_args, rawxyz_w_atom in E. cbn in E.
    destruct (print_gen _ (xa_x a)); [|discriminate]. destruct (print_gen _ (xa_y a)); [|discriminate]. destruct (print_gen _ (xa_z a)); [|discriminate].
    inversion E as [E']. destruct (xa_el a) as [|c r]; [contradiction|]. cbn.
    cbn in El1. apply andb_true_iff in El1. destruct El1 as [Hc _]. destruct (is_ws c); [discriminate|reflexivity]. }
  exists line, bx, bY, bz. unfold print_atom_raw. rewrite E. cbn [option_map]. rewrite LS.
  unfold xyz_atom_args, rawxyz_w_atom, gprec in *. cbn in Px, Py, Pz, Fx, Fy, Fz, T. rewrite Px, Py, Pz in T. cbn in T. inversion T as [T']. clear T.
  split; [reflexivity|]. split; [reflexivity|].
  unfold isfloat. rewrite Fx, Fy, Fz. repeat (split; [reflexivity|]).
  split.
  - unfold parse_row_raw, slice. cbn. unfold canon_ratom, rawxyz_w_atom, gprec. cbn. rewrite Fx, Fy, Fz. reflexivity.
  - split; [intros ->; cbn in T'; discriminate|]. split; [exact N1|exact N2].
Qed.

Lemma atoms_lines_raw atoms : forallb repr_ratom atoms = true ->
  exists ls, map_opt print_atom_raw atoms = Some ls /\
             parse_rows_raw 4 (Some 0%nat, 1%nat) (map split_ws ls) = Some (map canon_ratom atoms) /\
             List.length ls = List.length atoms /\
             forallb (fun x => negb (has_char nl x)) ls = true /\
             Forall (fun l => l <> [] /\ has_char nl l = false /\ has_char cr l = false /\ List.length (split_ws l) = 4%nat) ls.
Proof.
  induction atoms as [|a atoms IH]; intros H.
  - exists []. repeat split; constructor.
  - cbn [forallb] in H. apply andb_true_iff in H. destruct H as [Ha Hr]. destruct (IH Hr) as [ls [E1 [E2 [E3 [E4 E5]]]]].
    destruct (atom_line_raw a Ha) as [line [bx [bY [bz [P1 [P2 [_ [_ [_ [P3 [P4 [P5 P6]]]]]]]]]]]]. exists (line :: ls).
    split; [cbn [map_opt]; rewrite P1, E1; reflexivity|].
    split; [cbn [map parse_rows_raw]; rewrite P3, E2; reflexivity|].
    split; [cbn; rewrite E3; reflexivity|].
    split; [cbn [forallb]; rewrite P5, E4; reflexivity|]. constructor; [|exact E5].
    split; [exact P4|]. split; [exact P5|]. split; [exact P6|]. rewrite P2. reflexivity.
Qed.

Theorem roundtrip_rawxyz St : repr_rawxyz St = true -> exists t, write_rawxyz St = Some t /\ read_rawxyz t = Some (canon_rawxyz St).
Proof.
  unfold repr_rawxyz. intros HA. destruct (atoms_lines_raw _ HA) as [ls [E1 [E2 [E3 [E4 E5]]]]].
  unfold write_rawxyz, print_rawxyz. rewrite E1. cbn [option_map]. eexists. split; [reflexivity|]. unfold read_rawxyz, canon_rawxyz.
  destruct (x_atoms St) as [|a atoms] eqn:EA.
  - destruct ls; [|cbn in E3; discriminate]. vm_compute. reflexivity.
  - destruct ls as [|l1 ls']; [cbn in E3; discriminate|].
    rewrite lines_text_roundtrip_cons.
    + unfold parse_rawxyz. cbn [forallb] in HA. apply andb_true_iff in HA. destruct HA as [Ha _].
      destruct (atom_line_raw a Ha) as [line [bx [bY [bz [P1 [P2 [F1 [F2 [F3 [P3 _]]]]]]]]]].
      cbn [map_opt] in E1. rewrite P1 in E1. destruct (map_opt print_atom_raw atoms); [|discriminate]. injection E1 as <- _.
      cbn [map]. rewrite P2. cbn [count_skip is_skip].
      assert (str_eqb (xa_el a) hash = false) as NH.
      { unfold repr_ratom in Ha. do 5 (apply andb_true_iff in Ha; destruct Ha as [Ha ?]). apply negb_true_iff in Ha. exact Ha. }
      rewrite NH.
      (* stop: the last line has fields *)
      assert (stop_of ([xa_el a; bx; bY; bz] :: map split_ws ls') = Datatypes.S (List.length ls')) as Estop.
      { unfold stop_of. destruct (@exists_last _ (line :: ls') ltac:(discriminate)) as [b [x Eq]].
        assert (split_ws x <> []) as Hx.
        { rewrite Eq in E5. apply Forall_app in E5. destruct E5 as [_ E5]. inversion E5 as [|? ? [_ [_ [_ K]]] _]. intros Z. rewrite Z in K. discriminate. }
        rewrite <- P2. change (split_ws line :: map split_ws ls') with (map split_ws (line :: ls')).
        rewrite Eq, map_app. cbn [map]. rewrite drop_nil_rev_last by exact Hx. rewrite rev_length, app_length, map_length. cbn.
        apply (f_equal (@List.length str)) in Eq. rewrite app_length in Eq. cbn in Eq. lia. }
      rewrite Estop. cbn [Nat.leb skipn List.length].
      assert (existsb (Nat.eqb 4) rawxyz_r_ncols = true) as -> by (vm_compute; reflexivity).
      unfold raw_columns. cbn [map firstn]. rewrite F1, F2.
      unfold repr_ratom in Ha. do 4 (apply andb_true_iff in Ha; destruct Ha as [Ha ?]). apply negb_true_iff in H2. rewrite H2.
      cbn [bools_eqb Bool.eqb andb]. rewrite F3. cbn [bools_eqb Bool.eqb andb].
      rewrite <- P2. change (split_ws line :: map split_ws ls') with (map split_ws (line :: ls')). rewrite E2. reflexivity.
    + cbn [forallb] in E4 |- *. exact E4.
    + assert (In (last (l1 :: ls') []) (l1 :: ls')) as Hin.
      { destruct (@exists_last _ (l1 :: ls') ltac:(discriminate)) as [b [x Eq]]. rewrite Eq, last_last. apply in_or_app. right. left. reflexivity. }
      rewrite Forall_forall in E5. destruct (E5 _ Hin) as [K1 [K2 [K3 _]]]. apply last_ok_of_no_crlf; assumption.
Qed.

Lemma canon_idem_rawxyz St : canon_rawxyz (canon_rawxyz St) = canon_rawxyz St.
Proof.
  destruct gprec_pos_raw as [P0 [P1 P2]].
  unfold canon_rawxyz. cbn [x_title x_atoms]. f_equal. rewrite map_map. apply map_ext. intros a.
  unfold canon_ratom. cbn [xa_el xa_x xa_y xa_z]. rewrite !gqd_idem by assumption. reflexivity.
Qed.

Lemma repr_canon_rawxyz St : repr_rawxyz St = true -> repr_rawxyz (canon_rawxyz St) = true.
Proof.
  destruct gprec_pos_raw as [P0 [P1 P2]].
  unfold repr_rawxyz, canon_rawxyz. cbn [x_atoms]. intros HA.
  rewrite forallb_forall in *. intros a' Hin. apply in_map_iff in Hin. destruct Hin as [a [<- Hin]]. specialize (HA a Hin).
  unfold repr_ratom in *. cbn [canon_ratom xa_el xa_x xa_y xa_z].
  do 4 (apply andb_true_iff in HA; destruct HA as [HA ?]).
  rewrite HA, H2, !gen_ok_gqd by assumption. reflexivity.
Qed.

Definition rt_rawxyz (St : xstru) : option xstru := match write_rawxyz St with Some t => read_rawxyz t | None => None end.

Lemma rt_rawxyz_canon St : repr_rawxyz St = true -> rt_rawxyz St = Some (canon_rawxyz St).
Proof. intros H. destruct (roundtrip_rawxyz St H) as [t [W R]]. unfold rt_rawxyz. rewrite W. exact R. Qed.

Theorem no_drift_rawxyz St n : repr_rawxyz St = true -> iter_opt rt_rawxyz (Datatypes.S n) St = Some (canon_rawxyz St).
Proof.
  intros H. apply (no_drift_gen xstru rt_rawxyz canon_rawxyz repr_rawxyz); [exact rt_rawxyz_canon|exact repr_canon_rawxyz| |exact H].
  intros x _. apply canon_idem_rawxyz.
Qed.

From Coq Require Import String.
Example repr_rawxyz_example :
  repr_rawxyz (XStru [] [XAtom (s"Na1+"%string) (Dec false 125%N 2%nat) (Dec true 3333333333%N 9%nat) (Dec false 0%N 0%nat);
                         XAtom (s"O2-"%string) (Dec false 1%N 0%nat) (Dec false 999999499%N 3%nat) (Dec true 12%N 5%nat)]) = true.
Proof. vm_compute. reflexivity. Qed.
