(* C09 - the constructor: the generated init_Atom (argument blocks in the order of the current atom.py) is the documented
   sequence of assignments, for every number type; constructed atoms are reachable states, so every clause of Props/C09.v
   holds for them. *)
From Coq Require Import Reals List Bool.
From DS Require Import Base.RMat Base.C09_GNum Model.C09_Prims Gen.C09_AtomFormulas Model.C09_AtomADP
  Proofs.C09_Algebra Proofs.C09_Machine Proofs.C09_Main.
Import ListNotations.

Lemma init_is_documented_sequence {T : Type} (C : cctx T) atype anisotropy U Uisoequiv lattice :
  init_Atom C atype anisotropy U Uisoequiv lattice = ctor_spec C atype anisotropy U Uisoequiv lattice.
Proof.
  unfold init_Atom, ctor_spec, ctor_ops, opt_ops. cbv zeta.
  destruct U, Uisoequiv, lattice, anisotropy, atype; reflexivity.
Qed.

Lemma copy_is_identity {T : Type} (C : cctx T) (s : astate T) : copy_Atom C s = s.
Proof. destruct s; reflexivity. Qed.

Open Scope R_scope.
Lemma reach_run eps s ops : reach eps s -> Forall op_ok ops -> reach eps (run (RC eps) s ops).
Proof.
  revert s. induction ops as [|o r IH]; intros s H Hf; [exact H|]. inversion Hf; subst. cbn [run fold_left].
  apply IH; [apply reach_step; assumption | assumption].
Qed.

Definition ctor_args_ok eps (atype : option (astate R)) (U : option (gmat R)) (lattice : option (latdata R)) : Prop :=
  match atype with Some src => reach eps src | None => True end /\
  match U with Some m => gsym m | None => True end /\ lat_ok_opt lattice.

Lemma constructed_reachable eps atype anisotropy U Uisoequiv lattice s :
  ctor_args_ok eps atype U lattice -> init_Atom (RC eps) atype anisotropy U Uisoequiv lattice = Some s -> reach eps s.
Proof.
  intros [Ha [Hu Hl]] E. rewrite init_is_documented_sequence in E. unfold ctor_spec in E.
  assert (Hs : reach eps (match atype with Some src => step (RC eps) src OCopy | None => init (RC eps) end)).
  { destruct atype as [src|]; [cbn [step]; rewrite copy_is_identity; exact Ha | apply reach_init]. }
  assert (Hf : Forall op_ok (ctor_ops anisotropy U Uisoequiv lattice)).
  { unfold ctor_ops, opt_ops. destruct U, Uisoequiv, lattice, anisotropy; cbn [app];
      repeat (first [apply Forall_nil | apply Forall_cons]); cbn [op_ok]; first [assumption | exact Logic.I]. }
  remember (ctor_ops anisotropy U Uisoequiv lattice) as ops eqn:Eo. clear Eo.
  remember (match atype with Some src => step (RC eps) src OCopy | None => init (RC eps) end) as st eqn:Es. clear Es.
  destruct U, Uisoequiv; try discriminate; injection E as E; rewrite <- E; apply reach_run; assumption.
Qed.
