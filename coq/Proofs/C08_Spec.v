(* C08 - what the operations return: copies are made of new objects only, selections share exactly the
   selected objects and the receiver's lattice *)
From Coq Require Import List ZArith Bool Arith Lia.
From DS Require Import Model.C08_StructHeap Proofs.C08_Lists Proofs.C08_Prims Proofs.C08_Inv Proofs.C08_Step.
Import ListNotations.
Open Scope nat_scope.

Lemma new_struct_eq : forall L srcs sel w ids w1, realize None L srcs w = (ids, w1) ->
  new_struct L srcs sel w =
  (length (objs w1),
   mkW (heap w1) (nlat w1) (objs w1 ++ [OStruct (match sel with None => ids | Some idxs => pick ids idxs end) L])
       (g_repoint w1)
       (g_dup w1 || (negb (nodupb (keeps srcs)) || match sel with None => false | Some idxs => negb (nodupb idxs) end))).
Proof. intros. unfold new_struct. rewrite H. reflexivity. Qed.

Lemma install_eq : forall (h : hid) srcs e w old L ids w1,
  nth_error (objs w) h = Some (OStruct old L) -> realize (Some h) L srcs w = (ids, w1) ->
  install h srcs e w = set_obj h (OStruct (apply_edit e old ids) L) (flag_dup (edit_dup_flag e old srcs) w1).
Proof. intros. unfold install, get_obj. rewrite H. cbv iota beta. rewrite H0. reflexivity. Qed.

(* a new Structure made of copies only *)
Record made_of_copies (w : world) (l : list aid) (L : lid) (sel : option (list nat)) (hn : hid) (w' : world)
       (mc_ids : list aid) : Prop := mkMC {
  mc_handle : hn = length (objs w);
  mc_objs : objs w' = objs w ++ [OStruct (match sel with None => mc_ids | Some idxs => pick mc_ids idxs end) L];
  mc_fresh : forall a, In a mc_ids -> length (heap w) <= a;
  mc_bound : forall a, In a mc_ids -> a < length (heap w');
  mc_tags : map (tag_of w') mc_ids = map (tag_of w) l;
  mc_heap : forall b, b < length (heap w) -> nth_error (heap w') b = nth_error (heap w) b;
  mc_len : length (heap w) <= length (heap w');
  mc_rep : g_repoint w' = g_repoint w;
  mc_idlen : length mc_ids = length l }.

Lemma new_struct_copies : forall L l sel w hn w', valid w l ->
  new_struct L (map Dup l) sel w = (hn, w') -> exists ids, made_of_copies w l L sel hn w' ids.
Proof.
  intros L l sel w hn w' Hv H.
  destruct (realize None L (map Dup l) w) as [ids w1] eqn:Er.
  pose proof (realize_spec _ _ _ _ _ _ Er (srcs_valid_Dup _ _ Hv)) as R.
  rewrite (new_struct_eq _ _ _ _ _ _ Er) in H. inversion H; subst; clear H.
  exists ids.
  match goal with |- made_of_copies _ _ _ _ _ ?W _ => set (w' := W) end.
  assert (Ht : forall x, tag_of w' x = tag_of w1 x) by reflexivity.
  constructor; cbn [w' objs heap nlat g_repoint].
  - rewrite (rz_objs _ _ _ _ _ _ R). auto.
  - rewrite (rz_objs _ _ _ _ _ _ R). auto.
  - apply (rz_nokeep_fresh _ _ _ _ _ _ R). apply keeps_map_Dup.
  - apply (rz_bound _ _ _ _ _ _ R).
  - rewrite (map_ext _ _ Ht). rewrite (rz_idtags _ _ _ _ _ _ R). rewrite map_map. auto.
  - intros b Hb. apply (rz_frame _ _ _ _ _ _ R); auto. rewrite keeps_map_Dup. auto.
  - apply (rz_len _ _ _ _ _ _ R).
  - apply (rz_flag_same _ _ _ _ _ _ R). rewrite keeps_map_Dup. intros a [].
  - rewrite (rz_length _ _ _ _ _ _ R). apply map_length.
Qed.

Lemma do_copy_copies : forall its w hn w', valid w its -> do_copy its w = (hn, w') ->
  exists ids, made_of_copies w its (S (nlat w)) None hn w' ids /\ nlat w' = S (S (nlat w)).
Proof.
  intros its w hn w' Hv H. unfold do_copy in H. cbn [alloc_lat heap nlat objs g_repoint g_dup] in H.
  set (w2 := mkW (heap w) (S (S (nlat w))) (objs w) (g_repoint w) (g_dup w)) in *.
  destruct (new_struct (S (nlat w)) (map Dup its) None w2) as [h1 w3] eqn:E. inversion H; subst.
  destruct (new_struct_copies _ _ _ w2 _ _ Hv E) as [ids M]. exists ids.
  assert (N : nlat w' = S (S (nlat w))).
  { destruct (realize None (S (nlat w)) (map Dup its) w2) as [i1 w3] eqn:Er.
    pose proof (realize_spec _ _ _ _ _ _ Er (srcs_valid_Dup _ _ Hv)) as R.
    rewrite (new_struct_eq _ _ _ _ _ _ Er) in E. inversion E; subst. simpl. apply (rz_nlat _ _ _ _ _ _ R). }
  destruct M. split; auto. constructor; auto.
Qed.

(* ---------------------------------------------------------------- copies are fresh *)

Definition copy_op (o : op) (w : world) : bool :=
  match o with
  | Add _ _ | Sub _ _ | Mul _ _ | Copy _ | Pickle _ _ | DeepCopy _ => true
  | Construct s None => match get_obj w s with Some (OStruct _ _) => true | _ => false end
  | _ => false
  end.

Definition fresh_result (w w' : world) (hn : hid) : Prop :=
  hn = length (objs w) /\
  (forall h, h < length (objs w) -> nth_error (objs w') h = nth_error (objs w) h) /\
  exists its L, nth_error (objs w') hn = Some (OStruct its L) /\ nlat w <= L /\ forall a, In a its -> length (heap w) <= a.

Lemma fresh_of_copies : forall w w0 l L sel hn w' ids, made_of_copies w0 l L sel hn w' ids ->
  objs w0 = objs w -> length (heap w) <= length (heap w0) -> nlat w <= L -> fresh_result w w' hn.
Proof.
  intros w w0 l L sel hn w' mc_ids0 M Ho Hh HL. destruct M as [mc_handle0 mc_objs0 mc_fresh0]. rewrite Ho in *. split; [auto|split].
  - intros h Hh2. rewrite mc_objs0. apply nth_error_app1. auto.
  - eexists. exists L. split; [|split]; auto.
    + rewrite mc_objs0, mc_handle0. apply nth_error_app_last.
    + intros a Ha. assert (In a mc_ids0). { destruct sel; auto. eapply pick_In; eauto. }
      apply mc_fresh0 in H. lia.
Qed.

Lemma set_obj_prefix : forall h o w h2, h2 <> h -> nth_error (objs (set_obj h o w)) h2 = nth_error (objs w) h2.
Proof. intros. rewrite nth_error_set_obj. destruct (Nat.eqb h h2) eqn:E; auto. apply Nat.eqb_eq in E. congruence. Qed.

(* extending a fresh copy with more copies keeps it fresh *)
Lemma install_copies_fresh : forall w w1 hn l lo hi,
  fresh_result w w1 hn -> wf w1 -> valid w1 l -> length (heap w) <= length (heap w1) ->
  fresh_result w (install hn (map Dup l) (ERange lo hi) w1) hn.
Proof.
  intros w w1 hn l lo hi [Hh [Hpre [its [L [Hobj [HL Hfr]]]]]] Hwf Hv Hlen.
  destruct (realize (Some hn) L (map Dup l) w1) as [ids w2] eqn:Er.
  pose proof (realize_spec _ _ _ _ _ _ Er (srcs_valid_Dup _ _ Hv)) as R.
  rewrite (install_eq _ _ _ _ _ _ _ _ Hobj Er). split; [auto|split].
  - intros h Hlt. rewrite set_obj_prefix by lia. simpl. rewrite (rz_objs _ _ _ _ _ _ R). auto.
  - eexists. exists L. split; [|split]; auto.
    + rewrite nth_error_set_obj. rewrite Nat.eqb_refl. simpl. rewrite (rz_objs _ _ _ _ _ _ R), Hobj. reflexivity.
    + intros a Ha. apply (apply_edit_In (ERange lo hi)) in Ha. destruct Ha as [Ha|Ha]; auto.
      pose proof (rz_nokeep_fresh _ _ _ _ _ _ R (keeps_map_Dup l) a Ha). lia.
Qed.

Theorem copies_are_fresh : forall o w w' hn, Inv w -> copy_op o w = true ->
  step current o w = (w', Done (RObj hn)) -> fresh_result w w' hn.
Proof.
  intros o w w' hn HI Hc H. pose proof HI as [Hwf _].
  destruct o; simpl in Hc; try discriminate; cbn [step] in H.
  - (* Construct from a Structure, no lattice argument *)
    destruct l; [discriminate|]. destruct (get_obj w s) as [[its Ls|]|] eqn:E1; try discriminate.
    cbn [alloc_lat heap nlat objs g_repoint g_dup] in H.
    set (w1 := mkW (heap w) (S (nlat w)) (objs w) (g_repoint w) (g_dup w)) in *.
    destruct (new_struct (nlat w) (map Dup its) None w1) as [h1 w2] eqn:E2. inversion H; subst.
    assert (Hv : valid w1 its) by (apply (get_obj_wf _ _ _ Hwf E1)).
    destruct (new_struct_copies _ _ _ w1 _ _ Hv E2) as [ids0 M0]. eapply fresh_of_copies; [exact M0| | |]; simpl; auto.
  - (* Add *)
    destruct (get_struct w h) as [[old L]|] eqn:E1; [|inversion H].
    destruct (get_obj w s) as [so|] eqn:E2; [|inversion H].
    destruct (get_struct_wf _ _ _ _ Hwf E1) as [Hold _]. pose proof (get_obj_wf _ _ _ Hwf E2) as Hv.
    destruct (do_copy old w) as [h1 w1] eqn:E3. inversion H; subst.
    destruct (do_copy_copies _ _ _ _ Hold E3) as [ids0 [M _]].
    pose proof (do_copy_IE old w HI Hold) as IE1. rewrite E3 in IE1. destruct IE1 as [[Hwf1 _] X1].
    apply install_copies_fresh; auto.
    + eapply fresh_of_copies; eauto.
    + eapply valid_ext; eauto.
    + destruct X1; auto.
  - (* Sub *)
    destruct (get_struct w h) as [[old L]|] eqn:E1; [|inversion H].
    destruct (get_obj w s) as [so|] eqn:E2; [|inversion H].
    destruct (get_struct_wf _ _ _ _ Hwf E1) as [Hold [HL _]].
    set (sel := filter (fun a => negb (memb a (obj_items so))) old) in *.
    assert (Hsel : valid w sel) by (apply valid_filter; auto).
    cbn [alloc_lat heap nlat objs g_repoint g_dup] in H.
    set (w0 := mkW (heap w) (S (nlat w)) (objs w) (g_repoint w) (g_dup w)) in *.
    destruct (realize None L (map Keep sel) w0) as [ids w1] eqn:E4.
    pose proof (realize_spec _ _ _ _ _ _ E4 (srcs_valid_Keep w0 _ Hsel)) as R.
    destruct (do_copy sel w1) as [h1 w2] eqn:E5. inversion H; subst.
    assert (Hsel1 : valid w1 sel). { intros x Hx. apply Hsel in Hx. pose proof (rz_len _ _ _ _ _ _ R). simpl in *. lia. }
    destruct (do_copy_copies _ _ _ _ Hsel1 E5) as [ids0 [M _]].
    eapply fresh_of_copies; eauto.
    + rewrite (rz_objs _ _ _ _ _ _ R). auto.
    + apply (rz_len _ _ _ _ _ _ R).
    + rewrite (rz_nlat _ _ _ _ _ _ R). simpl. lia.
  - (* Mul *)
    destruct (get_struct w h) as [[old L]|] eqn:E1; [|inversion H].
    destruct (get_struct_wf _ _ _ _ Hwf E1) as [Hold _].
    cbn [alloc_lat heap nlat objs g_repoint g_dup] in H.
    set (w0 := mkW (heap w) (S (nlat w)) (objs w) (g_repoint w) (g_dup w)) in *.
    destruct (do_copy [] w0) as [h1 w1] eqn:E5. inversion H; subst.
    destruct (do_copy_copies _ _ _ _ (valid_nil w0) E5) as [ids0 [M _]].
    assert (I0 : Inv w0). { destruct (alloc_lat_IE w HI) as [[A _] _]. exact A. }
    pose proof (do_copy_IE [] w0 I0 (valid_nil w0)) as IE1. rewrite E5 in IE1. destruct IE1 as [[Hwf1 _] X1].
    apply install_copies_fresh; auto.
    + eapply fresh_of_copies; eauto. simpl. lia.
    + apply valid_repeat. intros x Hx. apply Hold in Hx. destruct X1. simpl in *. lia.
    + destruct X1; auto.
  - (* Copy *)
    destruct (get_struct w h) as [[old L]|] eqn:E1; [|inversion H].
    destruct (get_struct_wf _ _ _ _ Hwf E1) as [Hold _].
    destruct (do_copy old w) as [h1 w1] eqn:E3. inversion H; subst.
    destruct (do_copy_copies _ _ _ _ Hold E3) as [ids0 [M _]]. eapply fresh_of_copies; eauto.
  - (* Pickle *)
    destruct (get_struct w h) as [[old L]|] eqn:E1; [|inversion H].
    destruct (get_struct_wf _ _ _ _ Hwf E1) as [Hold _].
    cbn [current v_setstate alloc_lat heap nlat objs g_repoint g_dup] in H.
    set (w1 := mkW (heap w) (S (nlat w)) (objs w) (g_repoint w) (g_dup w)) in *.
    destruct hi.
    + destruct (new_struct (nlat w) (map Dup old) None w1) as [h1 w2] eqn:E2. inversion H; subst.
      destruct (new_struct_copies _ _ _ w1 _ _ Hold E2) as [ids0 M0]. eapply fresh_of_copies; [exact M0| | |]; simpl; auto.
    + match type of H with context [new_struct (nlat w) ?a ?b w1] => destruct (new_struct (nlat w) a b w1) as [h1 w2] eqn:E2 end.
      inversion H; subst.
      assert (Hv2 : valid w1 (nodup_first [] old)) by (apply valid_nodup_first; auto).
      destruct (new_struct_copies _ _ _ w1 _ _ Hv2 E2) as [ids0 M0]. eapply fresh_of_copies; [exact M0| | |]; simpl; auto.
  - (* DeepCopy *)
    destruct (get_struct w h) as [[old L]|] eqn:E1; [|inversion H].
    destruct (get_struct_wf _ _ _ _ Hwf E1) as [Hold _].
    cbn [alloc_lat heap nlat objs g_repoint g_dup] in H.
    set (w1 := mkW (heap w) (S (nlat w)) (objs w) (g_repoint w) (g_dup w)) in *.
    destruct (new_struct (nlat w) (map Dup old) None w1) as [h1 w2] eqn:E2. inversion H; subst.
    destruct (new_struct_copies _ _ _ w1 _ _ Hold E2) as [ids0 M0]. eapply fresh_of_copies; [exact M0| | |]; simpl; auto.
Qed.

(* hence a copy shares no atom and no lattice with anything that existed before the call, and every
   object that existed before still holds the same atom objects *)
Corollary copies_share_nothing : forall o w w' hn, Inv w -> copy_op o w = true ->
  step current o w = (w', Done (RObj hn)) ->
  exists its L, nth_error (objs w') hn = Some (OStruct its L) /\
    forall h ob, nth_error (objs w) h = Some ob ->
      nth_error (objs w') h = Some ob /\
      (forall a, In a its -> ~ In a (obj_items ob)) /\ (forall its2 L2, ob = OStruct its2 L2 -> L2 <> L).
Proof.
  intros o w w' hn HI Hc H. destruct (copies_are_fresh _ _ _ _ HI Hc H) as [Hh [Hpre [its [L [Hobj [HL Hfr]]]]]].
  exists its, L. split; auto. intros h ob Hob.
  assert (Hlt : h < length (objs w)) by (apply nth_error_Some; congruence).
  destruct HI as [[W1 [W2 W3]] _]. split; [|split].
  - rewrite Hpre; auto.
  - intros a Ha Hin. apply (W1 _ _ Hob) in Hin. apply Hfr in Ha. lia.
  - intros its2 L2 E. subst. apply W2 in Hob. lia.
Qed.
