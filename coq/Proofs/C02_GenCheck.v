(* C02 - decidable hypotheses of the snap theorems, and non-trivial instances. *)
From Coq Require Import ZArith List Bool Lia.
From DS Require Import Base.ZMat Base.SGDefs Model.GroupCheck Model.C02_Orbit Model.C02_Eps Model.C02_Gen.
From DS Require Import Proofs.C02_Action Proofs.C02_Expand Proofs.C02_OrbitStab Proofs.C02_EpsSound Proofs.C02_NearSpecial Proofs.C02_GenSound.
Import ListNotations.
Open Scope Z_scope.

Lemma near_special_b_spec D G off x x0 : near_special_b D G off x x0 = true ->
  within_tol D G off x x0 /\ between_far D G off x x0.
Proof.
  unfold near_special_b. cbv zeta. intros H. rewrite forallb_forall in H.
  assert (Hp : forall g h, In g G -> In h G ->
     (if v3_eqb (img D g off x0) (img D h off x0) then boxdist D (img D g off x) (img D h off x) * eps_eq_den <=? eps_eq_num * D
      else 2 * D <? 100000 * boxdist D (img D g off x) (img D h off x)) = true).
  { intros g h Hg Hh.
    specialize (H (img D g off x0, img D g off x) (in_map (fun g => (img D g off x0, img D g off x)) G g Hg)).
    rewrite forallb_forall in H.
    exact (H (img D h off x0, img D h off x) (in_map (fun g => (img D g off x0, img D g off x)) G h Hh)). }
  split.
  - intros g h Hg Hh E. specialize (Hp g h Hg Hh). rewrite E, v3_eqb_refl in Hp. apply Z.leb_le. exact Hp.
  - intros g h Hg Hh E. specialize (Hp g h Hg Hh). apply v3_eqb_neq in E. rewrite E in Hp. unfold far. apply Z.ltb_lt. exact Hp.
Qed.

Lemma separated_b_spec D G off x : separated_b D G off x = true -> separated D G off x.
Proof.
  unfold separated_b, separated, far. cbv zeta. intros H g h Hg Hh Hne.
  rewrite forallb_forall in H. specialize (H (img D g off x) (in_map _ _ _ Hg)).
  rewrite forallb_forall in H. specialize (H (img D h off x) (in_map _ _ _ Hh)).
  apply orb_true_iff in H as [H|H]; [apply v3_eqb_eq in H; contradiction | apply Z.ltb_lt in H; exact H].
Qed.

Lemma small_vb_spec D v : small_vb D v = true -> small_v D v.
Proof. unfold small_vb, small_v. rewrite !andb_true_iff, !Z.ltb_lt. tauto. Qed.

Lemma snapped_site_eq D G off x x0 : snapped_site D G off x x0 = snapped D G off x x0.
Proof. reflexivity. Qed.

(* the snap theorem with all hypotheses decided by computation *)
Theorem snap_fixes_site_checked D G off x x0 : IsGroup G -> 0 < D -> (12 | D) -> snap_hyps_b D G off x x0 = true ->
  let n := Z.of_nat (List.length (stab D G off x0)) in
  let xs := snapped_site D G off x x0 in
  generator_site D G off x =
    (let '(pos, ops, m) := expand_exact (D * n) G (vscale n off) xs in
     Some (GSite (D * n) xs (vscale n off) pos ops m (stab (D * n) G (vscale n off) xs)))
  /\ incl (stab D G off x0) (stab (D * n) G (vscale n off) xs).
Proof.
  intros HG HD H12 Hb. unfold snap_hyps_b in Hb. cbv zeta in Hb.
  destruct (near_special_b D G off x x0) eqn:En; [|discriminate].
  apply near_special_b_spec in En as [Hw Hbt].
  rewrite !andb_true_iff in Hb. destruct Hb as [[[[H1 H2] H3] H4] H5].
  cbv zeta. rewrite snapped_site_eq.
  apply (snap_fixes_site D G off x x0 HG HD H12 Hw Hbt).
  - intros h Hh. apply small_vb_spec. rewrite forallb_forall in H1. apply H1. exact Hh.
  - apply Nat.ltb_lt. exact H2.
  - intros E. rewrite snapped_site_eq in H3. rewrite E, v3_eqb_refl in H3. discriminate.
  - apply v3_eqb_eq. rewrite <- snapped_site_eq. exact H4.
  - apply separated_b_spec. rewrite <- snapped_site_eq. exact H5.
Qed.

(* Non-vacuity: the three-fold axis of a rhombohedral-lattice group in hexagonal axes (operations written out),
   site (1/3+1e-7, 2/3+2e-7, 0.3) within tolerance of (1/3, 2/3, 0.3): 6 positions, site symmetry of order 3,
   the snapped site is exactly (1/3, 2/3, 0.3) on the grid 3 D. *)
Definition ex_G : list symop :=
  let r1 := I3 in let r2 := M3 0 (-1) 0 1 (-1) 0 0 0 1 in let r3 := M3 (-1) 1 0 (-1) 0 0 0 0 1 in
  let m1 := M3 0 1 0 1 0 0 0 0 (-1) in let m2 := M3 1 (-1) 0 0 (-1) 0 0 0 (-1) in let m3 := M3 (-1) 0 0 (-1) 1 0 0 0 (-1) in
  flat_map (fun t => map (fun r => (r, t)) [r1; r2; r3; m1; m2; m3]) [V3 0 0 0; V3 8 4 4; V3 4 8 8].

Example ex_G_group : IsGroup ex_G.
Proof. apply is_groupb_spec. vm_compute. reflexivity. Qed.

Example snap_instance :
  let D := 120000000 in let x0 := V3 40000000 80000000 36000000 in let x := V3 40000012 80000024 36000000 in
  snap_hyps_b D ex_G v0 x x0 = true /\
  List.length (stab D ex_G v0 x0) = 3%nat /\
  snapped_site D ex_G v0 x x0 = vscale 3 x0 /\
  option_map gs_mult (generator_site D ex_G v0 x) = Some 6%nat.
Proof. vm_compute. repeat split; reflexivity. Qed.
