(* C05/C06 - the hypotheses of the soundness theorems are satisfiable: concrete accepted certificates
   (group {1, m_y}; site (1/3, 0, 1/5) on the mirror plane; two free coordinates; four free tensor components). *)
From Coq Require Import ZArith QArith List Bool.
From DS Require Import Base.ZMat Base.SGDefs Model.C05_QBase Model.C05_PosCert Model.C06_UCert.
Import ListNotations.
Open Scope Q_scope.

Definition ex_G : list symop := [(I3, v0); (M3 1 0 0 0 (-1) 0 0 0 1, v0)].
Definition ex_x : q3 := Q3 (1 # 3) 0 (1 # 5).
Definition z3 : q3 := q3zero.

Definition ex_pcert : pcert := {|
  pc_x := ex_x; pc_tol := 1 # 100000;
  pc_N := [e1; e3]; pc_p0 := [1 # 3; 1 # 5]; pc_P := [e1; e3];
  pc_inv := [0%nat; 1%nat];
  pc_C := [(z3, z3, z3); (z3, Q3 0 (-1 # 2) 0, z3)];
  pc_forms := [ {| pf_rep := 0; pf_pos := ex_x; pf_A := [e1; e3]; pf_c := z3 |} ] |}.

Example pos_cert_nonvacuous : pos_cert_ok ex_G ex_pcert = true /\ List.length (pc_N ex_pcert) = 2%nat /\
  List.length (stab ex_G (pc_x ex_pcert)) = 2%nat.
Proof. vm_compute. repeat split; reflexivity. Qed.

(* the same checker rejects the direction (1,1,0) for this site *)
Example pos_cert_rejects_wrong_direction :
  pos_cert_ok ex_G {| pc_x := ex_x; pc_tol := 1 # 100000; pc_N := [Q3 1 1 0; e3]; pc_p0 := [1 # 3; 1 # 5];
                      pc_P := [e1; e3]; pc_inv := [0%nat; 1%nat]; pc_C := [(z3, z3, z3); (z3, Q3 0 (-1 # 2) 0, z3)];
                      pc_forms := [ {| pf_rep := 0; pf_pos := ex_x; pf_A := [Q3 1 1 0; e3]; pf_c := Q3 0 (-1 # 3) 0 |} ] |} = false.
Proof. vm_compute. reflexivity. Qed.

Definition z6 : s6 := s6zero.
Definition ex_ucert : ucert := {|
  uc_x := ex_x; uc_tol := 0;
  uc_B := [d1; d2; d3; d5];
  uc_Uin := S6 3 4 5 1 2 1;
  uc_par := [3; 4; 5; 2];
  uc_Uij := S6 3 4 5 0 2 0;
  uc_iso := false;
  uc_P := [d1; d2; d3; d5];
  uc_C := [S66 z6 z6 z6 z6 z6 z6; S66 z6 z6 z6 (S6 0 0 0 (-1 # 2) 0 0) z6 (S6 0 0 0 0 0 (-1 # 2))];
  uc_forms := [ {| uf_rep := 0; uf_eqU := S6 3 4 5 0 2 0; uf_cols := [d1; d2; d3; d5] |} ] |}.

Example u_cert_nonvacuous : u_cert_ok ex_G ex_ucert = true /\ List.length (uc_B ex_ucert) = 4%nat.
Proof. vm_compute. split; reflexivity. Qed.

(* hypotheses of the group-dependent theorems are satisfiable: ex_G is a group, and here no new symmetry can appear *)
From DS Require Import Model.GroupCheck Model.C05_Partition.

Example ex_G_is_group : IsGroup ex_G.
Proof. apply is_groupb_spec. vm_compute. reflexivity. Qed.

Example no_new_symmetry_satisfiable :
  forall p h, In h (stab ex_G (moved ex_pcert p)) -> In h (stab ex_G (pc_x ex_pcert)).
Proof.
  intros p h H. unfold stab in H. apply filter_In in H as [H _].
  assert (E : stab ex_G (pc_x ex_pcert) = ex_G) by (vm_compute; reflexivity). rewrite E. exact H.
Qed.

(* the exact partition on a small listing: two points of one orbit (a general point and its mirror image shifted
   by a cell), one point on the mirror plane *)
Example core_map_example :
  core_map ex_G [Q3 (1 # 7) (1 # 5) (1 # 3); ex_x; Q3 (1 # 7) (9 # 5) (1 # 3)] = [(0, [0; 2]); (1, [1])]%nat.
Proof. vm_compute. reflexivity. Qed.
