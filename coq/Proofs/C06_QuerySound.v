(* C05/C06 - what the position query of positionFormula / UFormula / eqIndex answers (Model/C06_Query.v). *)
From Coq Require Import ZArith QArith Qabs Qround Qminmax List Bool Lia Lqa.
From DS Require Import Base.ZMat Model.C05_QBase Model.C06_Query Proofs.C05_QLemmas.
Import ListNotations.
Open Scope Q_scope.

(* --- the periodic coordinate distance is the distance to the nearest lattice translate ------------ *)
Lemma frac_bounds d : 0 <= d - inject_Z (Qfloor d) /\ d - inject_Z (Qfloor d) < 1.
Proof.
  pose proof (Qfloor_le d) as L. pose proof (Qlt_floor d) as U. rewrite inject_Z_plus in U.
  change (inject_Z 1) with 1 in U. split; lra.
Qed.

Lemma pdiff1_range a b : 0 <= pdiff1 a b /\ pdiff1 a b <= 1 # 2.
Proof.
  unfold pdiff1. cbv zeta. destruct (frac_bounds (a - b)) as [L U].
  destruct (Qle_bool (a - b - inject_Z (Qfloor (a - b))) (1 # 2)) eqn:E.
  - apply Qle_bool_iff in E. split; lra.
  - assert (H : ~ a - b - inject_Z (Qfloor (a - b)) <= 1 # 2) by (intros H; apply Qle_bool_iff in H; congruence).
    apply Qnot_le_lt in H. split; lra.
Qed.

Lemma pdiff1_near eps a b : pdiff1 a b <= eps -> NearInt eps (a - b).
Proof.
  unfold pdiff1, NearInt. cbv zeta. destruct (frac_bounds (a - b)) as [L U].
  destruct (Qle_bool (a - b - inject_Z (Qfloor (a - b))) (1 # 2)) eqn:E; intros H.
  - exists (Qfloor (a - b)). apply Qabs_Qle_condition. split; lra.
  - exists (Qfloor (a - b) + 1)%Z. rewrite inject_Z_plus. change (inject_Z 1) with 1.
    apply Qabs_Qle_condition. split; lra.
Qed.

Lemma near_pdiff1 eps a b : NearInt eps (a - b) -> pdiff1 a b <= eps.
Proof.
  unfold NearInt. intros [z H]. apply Qabs_Qle_condition in H as [H1 H2].
  unfold pdiff1. cbv zeta. destruct (frac_bounds (a - b)) as [L U].
  set (m := (Qfloor (a - b) - z)%Z).
  assert (Em : inject_Z (Qfloor (a - b)) == inject_Z z + inject_Z m).
  { unfold m. unfold Z.sub. rewrite inject_Z_plus, inject_Z_opp. ring. }
  destruct (Z_le_gt_dec 0 m) as [Hm|Hm].
  - assert (Q0 : 0 <= inject_Z m) by (change 0 with (inject_Z 0); rewrite <- Zle_Qle; exact Hm).
    destruct (Qle_bool (a - b - inject_Z (Qfloor (a - b))) (1 # 2)) eqn:E.
    + lra.
    + assert (H : ~ a - b - inject_Z (Qfloor (a - b)) <= 1 # 2) by (intros H; apply Qle_bool_iff in H; congruence).
      apply Qnot_le_lt in H. lra.
  - assert (Q0 : inject_Z m <= -1) by (change (-1) with (inject_Z (-1)); rewrite <- Zle_Qle; lia).
    destruct (Qle_bool (a - b - inject_Z (Qfloor (a - b))) (1 # 2)) eqn:E.
    + apply Qle_bool_iff in E. lra.
    + lra.
Qed.

Lemma boxd_le eps u v : boxd u v <= eps <->
  pdiff1 (qx u) (qx v) <= eps /\ pdiff1 (qy u) (qy v) <= eps /\ pdiff1 (qz u) (qz v) <= eps.
Proof.
  unfold boxd. rewrite !Q.max_lub_iff. tauto.
Qed.

Lemma boxd_near eps u v : boxd u v <= eps <-> NearInt3 eps (q3sub u v).
Proof.
  rewrite boxd_le. unfold NearInt3, q3sub. cbn [qx qy qz].
  split; intros (A & B & C); repeat split; auto using pdiff1_near, near_pdiff1.
Qed.

Lemma equal_positions_iff eps u v : equal_positions eps u v = true <-> boxd u v <= eps.
Proof.
  unfold equal_positions. rewrite !andb_true_iff, !Qle_bool_iff, boxd_le. tauto.
Qed.

(* --- argmin ------------------------------------------------------------------------------------------ *)
Lemma argmin_from_spec q sites : forall i best,
  let r := argmin_from i best sites q in
  snd r <= snd best /\
  (forall j, (j < List.length sites)%nat -> snd r <= boxd (nth j sites q3zero) q) /\
  (r = best \/ exists j, (j < List.length sites)%nat /\ fst r = (i + j)%nat /\ snd r = boxd (nth j sites q3zero) q).
Proof.
  induction sites as [|s r IH]; intros i best; cbn [argmin_from].
  - cbv zeta. split; [apply Qle_refl|]. split; [intros j Hj; cbn in Hj; lia | left; reflexivity].
  - cbv zeta. set (d := boxd s q).
    destruct (Qle_bool (snd best) d) eqn:E.
    + apply Qle_bool_iff in E. destruct (IH (S i) best) as (A & B & C). split; [exact A|]. split.
      * intros [|j] Hj; cbn [nth]; [fold d; eapply Qle_trans; eassumption | apply B; cbn in Hj; lia].
      * destruct C as [C|[j (Hj & Hf & Hs)]]; [left; exact C|]. right. exists (S j). cbn [List.length nth].
        split; [lia|]. split; [lia | exact Hs].
    + assert (H : ~ snd best <= d) by (intros H; apply Qle_bool_iff in H; congruence). apply Qnot_le_lt in H.
      destruct (IH (S i) (i, d)) as (A & B & C). cbn [snd] in A. split; [eapply Qle_trans; [exact A | apply Qlt_le_weak; exact H]|]. split.
      * intros [|j] Hj; cbn [nth]; [exact A | apply B; cbn in Hj; lia].
      * right. destruct C as [C|[j (Hj & Hf & Hs)]].
        -- exists 0%nat. rewrite C. cbn [List.length nth fst snd]. split; [lia|]. split; [lia | reflexivity].
        -- exists (S j). cbn [List.length nth]. split; [lia|]. split; [lia | exact Hs].
Qed.

Lemma nearest_spec sites q i d : nearest sites q = Some (i, d) ->
  (i < List.length sites)%nat /\ d = boxd (nth i sites q3zero) q /\
  forall j, (j < List.length sites)%nat -> d <= boxd (nth j sites q3zero) q.
Proof.
  destruct sites as [|s r]; [discriminate|]. cbn [nearest]. intros H. injection H as H.
  destruct (argmin_from_spec q r 1 (0%nat, boxd s q)) as (A & B & C). cbv zeta in *. rewrite H in A, B, C.
  cbn [fst snd] in *. split; [|split].
  - destruct C as [C|[j (Hj & Hf & _)]]; [injection C as -> _; cbn; lia | cbn [List.length]; lia].
  - destruct C as [C|[j (Hj & Hf & Hs)]]; [injection C as -> ->; reflexivity|].
    subst i. cbn [nth Nat.add]. exact Hs.
  - intros [|j] Hj; cbn [nth]; [exact A | apply B; cbn in Hj; lia].
Qed.

Lemma nearest_some sites q : sites <> [] -> exists i d, nearest sites q = Some (i, d).
Proof.
  destruct sites as [|s r]; [congruence|]. intros _. cbn [nearest].
  destruct (argmin_from 1 (0%nat, boxd s q) r q) as [i d]. eauto.
Qed.

(* --- the query ---------------------------------------------------------------------------------------- *)
(* answered: the returned position is within eps (modulo lattice translations) and no listed position is nearer *)
Lemma site_query_sound eps sites q i : site_query eps sites q = Some i ->
  (i < List.length sites)%nat /\ NearInt3 eps (q3sub (nth i sites q3zero) q) /\
  forall j, (j < List.length sites)%nat -> boxd (nth i sites q3zero) q <= boxd (nth j sites q3zero) q.
Proof.
  unfold site_query. destruct (nearest sites q) as [[i0 d]|] eqn:E; [|discriminate].
  destruct (equal_positions eps (nth i0 sites q3zero) q) eqn:Q; [|discriminate]. intros H. injection H as <-.
  destruct (nearest_spec _ _ _ _ E) as (A & B & C). split; [exact A|]. split.
  - apply boxd_near, equal_positions_iff. exact Q.
  - intros j Hj. rewrite <- B. apply C. exact Hj.
Qed.

(* every point within eps of some listed position (modulo lattice translations) is answered *)
Lemma site_query_complete eps sites q j : (j < List.length sites)%nat -> NearInt3 eps (q3sub (nth j sites q3zero) q) ->
  exists i, site_query eps sites q = Some i.
Proof.
  intros Hj Hn. apply boxd_near in Hn. unfold site_query.
  destruct (nearest_some sites q) as [i [d E]]; [destruct sites; [cbn in Hj; lia | discriminate]|].
  rewrite E. destruct (nearest_spec _ _ _ _ E) as (A & B & C).
  assert (Q : equal_positions eps (nth i sites q3zero) q = true).
  { apply equal_positions_iff. rewrite <- B. eapply Qle_trans; [apply C; exact Hj | exact Hn]. }
  rewrite Q. eauto.
Qed.

(* the empty answer: no listed position is within eps *)
Lemma site_query_none eps sites q : site_query eps sites q = None ->
  forall j, (j < List.length sites)%nat -> ~ NearInt3 eps (q3sub (nth j sites q3zero) q).
Proof.
  intros H j Hj Hn. destruct (site_query_complete eps sites q j Hj Hn) as [i E]. congruence.
Qed.

(* a wider tolerance keeps every answer; eqIndex is the same index without the tolerance test *)
Lemma site_query_mono eps eps' sites q i : eps <= eps' -> site_query eps sites q = Some i -> site_query eps' sites q = Some i.
Proof.
  unfold site_query. intros He. destruct (nearest sites q) as [[i0 d]|]; [|discriminate].
  destruct (equal_positions eps (nth i0 sites q3zero) q) eqn:Q; [|discriminate]. intros H.
  assert (Q' : equal_positions eps' (nth i0 sites q3zero) q = true).
  { apply equal_positions_iff. apply equal_positions_iff in Q. eapply Qle_trans; eassumption. }
  rewrite Q'. exact H.
Qed.

Lemma site_query_eq_index eps sites q i : site_query eps sites q = Some i -> eq_index sites q = Some i.
Proof.
  unfold site_query, eq_index. destruct (nearest sites q) as [[i0 d]|]; [|discriminate].
  destruct (equal_positions eps (nth i0 sites q3zero) q); [auto|discriminate].
Qed.

(* non-vacuity: two listed positions, a query 3e-4 away from the second one shifted by a cell, eps = 1e-3 / 1e-5 *)
Example site_query_example :
  let sites := [Q3 0 0 0; Q3 (1 # 2) (1 # 2) 0] in let q := Q3 (15003 # 10000) (-4998 # 10000) (1 # 10000) in
  site_query (1 # 1000) sites q = Some 1%nat /\ site_query (1 # 100000) sites q = None /\ eq_index sites q = Some 1%nat.
Proof. vm_compute. repeat split; reflexivity. Qed.
