(* C02 - the tolerance algorithm (Model/C02_Eps.v: buckets + nearest-site search + equalPositions) returns
   exactly the exact expansion whenever distinct images of the site are farther apart than 2e-5. *)
From Coq Require Import ZArith List Bool Lia.
From DS Require Import Base.ZMat Base.SGDefs Model.GroupCheck Model.C02_Orbit Model.C02_Eps.
From DS Require Import Proofs.C02_Action Proofs.C02_Expand.
Import ListNotations.
Open Scope Z_scope.

(* ---------- arithmetic of one coordinate ---------- *)
Lemma wrap1_mod D k : 0 < D -> wrap1 D k = k mod D.
Proof.
  intros HD. unfold wrap1. destruct ((k <? 0) || (D <=? k)) eqn:E.
  - rewrite Z.mod_eq by lia. reflexivity.
  - apply orb_false_iff in E as [E1 E2]. apply Z.ltb_ge in E1. apply Z.leb_gt in E2.
    symmetry. apply Z.mod_small. lia.
Qed.

Lemma wrap_red D v : 0 < D -> wrap D v = red D v.
Proof. intros HD. unfold wrap, red, vmod. rewrite !wrap1_mod by exact HD. reflexivity. Qed.

Lemma frac_small D a : 0 <= a < D -> a - D * (a / D) = a.
Proof. intros H. rewrite Z.div_small by exact H. lia. Qed.

Lemma div_same_close M u v : 0 < M -> u / M = v / M -> Z.abs (u - v) < M.
Proof.
  intros HM E. pose proof (Z.div_mod u M ltac:(lia)) as Hu. pose proof (Z.div_mod v M ltac:(lia)) as Hv.
  pose proof (Z.mod_pos_bound u M HM). pose proof (Z.mod_pos_bound v M HM). rewrite E in Hu. lia.
Qed.

Lemma tup1_collision D a b : 0 < D -> 0 <= a < D -> 0 <= b < D -> tup1 D a = tup1 D b ->
  Z.abs (a - b) * eps_b_den < D * eps_b_num.
Proof.
  intros HD Ha Hb E. unfold tup1 in E. rewrite !frac_small in E by assumption.
  apply div_same_close in E; [|unfold eps_b_num; lia].
  replace (a * eps_b_den - b * eps_b_den) with ((a - b) * eps_b_den) in E by ring.
  rewrite Z.abs_mul in E. rewrite (Z.abs_eq eps_b_den) in E by (unfold eps_b_den; lia). exact E.
Qed.

Lemma pdiff1_bound D a b : 0 < D -> 0 <= a < D -> 0 <= b < D -> 0 <= pdiff1 D a b <= Z.abs (a - b).
Proof.
  intros HD Ha Hb. unfold pdiff1. cbv zeta.
  destruct (Z_lt_le_dec (a - b) 0) as [Hn|Hp].
  - assert (Hq : (a - b) / D = -1).
    { symmetry. apply (Z.div_unique (a - b) D (-1) (a - b + D)); lia. }
    rewrite Hq. destruct (D <? 2 * (a - b - D * -1)) eqn:E; [apply Z.ltb_lt in E | apply Z.ltb_ge in E]; lia.
  - rewrite Z.div_small by lia.
    destruct (D <? 2 * (a - b - D * 0)) eqn:E; [apply Z.ltb_lt in E | apply Z.ltb_ge in E]; lia.
Qed.

(* ---------- consequences of `far` ---------- *)
Lemma far_tup_neq D p q : 0 < D -> in_cell D p -> in_cell D q -> far D p q -> tup D p <> tup D q.
Proof.
  intros HD [Hp1 [Hp2 Hp3]] [Hq1 [Hq2 Hq3]] Hfar E. unfold tup in E. inversion E as [[E1 E2 E3]].
  apply tup1_collision in E1; try assumption. apply tup1_collision in E2; try assumption.
  apply tup1_collision in E3; try assumption.
  pose proof (pdiff1_bound D (vx p) (vx q) HD Hp1 Hq1). pose proof (pdiff1_bound D (vy p) (vy q) HD Hp2 Hq2).
  pose proof (pdiff1_bound D (vz p) (vz q) HD Hp3 Hq3).
  unfold far, boxdist in Hfar. unfold eps_b_den, eps_b_num in *. lia.
Qed.

Lemma far_not_equal D p q : 0 < D -> far D p q -> equal_pos D p q = false.
Proof.
  intros HD Hfar. destruct (equal_pos D p q) eqn:E; [|reflexivity]. exfalso.
  unfold equal_pos, le_eps in E. rewrite !andb_true_iff, !Z.leb_le in E. destruct E as [[E1 E2] E3].
  unfold far, boxdist in Hfar. unfold eps_eq_den, eps_eq_num in *. lia.
Qed.

(* ---------- argmin returns a valid index ---------- *)
Lemma argmin_from_lt l : forall best bi i, (bi < i)%nat -> (argmin_from best bi i l < i + List.length l)%nat.
Proof.
  induction l as [|d r IH]; intros best bi i H; cbn [argmin_from List.length]; [lia|].
  destruct (d <? best).
  - specialize (IH d i (S i) ltac:(lia)). lia.
  - specialize (IH best bi (S i) ltac:(lia)). lia.
Qed.

Lemma nearest_index_lt D sites p : sites <> [] -> (nearest_index D sites p < List.length sites)%nat.
Proof.
  intros Hne. unfold nearest_index. destruct sites as [|s r]; [contradiction|]. cbn [map List.length].
  pose proof (argmin_from_lt (map (fun s0 => boxdist D s0 p) r) (boxdist D s p) 0%nat 1%nat ltac:(lia)) as H.
  rewrite map_length in H. lia.
Qed.

(* ---------- index of a key ---------- *)
Fixpoint find_idx (p : v3) (l : list v3) : option nat :=
  match l with
  | [] => None
  | q :: r => if v3_eqb p q then Some 0%nat else option_map S (find_idx p r)
  end.

Lemma find_idx_none p l : find_idx p l = None <-> ~ In p l.
Proof.
  induction l as [|q r IH]; cbn [find_idx In]; [tauto|].
  destruct (v3_eqb p q) eqn:E.
  - apply v3_eqb_eq in E. subst. split; [discriminate | intros H; exfalso; apply H; left; reflexivity].
  - apply v3_eqb_neq in E. destruct (find_idx p r); cbn [option_map].
    + split; [discriminate|]. intros H. exfalso.
      assert (Hn : ~ In p r) by (intros H'; apply H; right; exact H').
      discriminate (proj2 IH Hn).
    + split; [|reflexivity]. intros _ [H|H]; [congruence | apply (proj1 IH eq_refl H)].
Qed.

Lemma lookup_combine D p P : forall s,
  (forall q, In q P -> tup D q = tup D p -> q = p) ->
  lookup (tup D p) (combine (map (tup D) P) (seq s (List.length P))) = option_map (fun i => (s + i)%nat) (find_idx p P).
Proof.
  induction P as [|q r IH]; intros s Hinj; cbn [map List.length seq combine lookup find_idx option_map]; [reflexivity|].
  destruct (v3_eqb (tup D p) (tup D q)) eqn:E.
  - apply v3_eqb_eq in E. assert (q = p) by (apply Hinj; [left; reflexivity | symmetry; exact E]). subst q.
    rewrite v3_eqb_refl. cbn. f_equal. lia.
  - assert (Hpq : v3_eqb p q = false).
    { apply v3_eqb_neq. intros ->. rewrite v3_eqb_refl in E. discriminate. }
    rewrite Hpq, IH by (intros q' Hq'; apply Hinj; right; exact Hq').
    destruct (find_idx p r); cbn; [f_equal; lia | reflexivity].
Qed.

(* ---------- the exact insertion in terms of indices ---------- *)
Lemma insert_hit p g acc : forall i, find_idx p (map fst acc) = Some i ->
  map fst (insert p g acc) = map fst acc /\ map snd (insert p g acc) = heap_app i g (map snd acc).
Proof.
  induction acc as [|[q l] r IH]; intros i H; cbn [map fst snd find_idx insert] in *; [discriminate|].
  destruct (v3_eqb p q) eqn:E.
  - inversion H; subst i. cbn. split; reflexivity.
  - destruct (find_idx p (map fst r)) as [j|] eqn:Ej; cbn [option_map] in H; [|discriminate].
    inversion H; subst i. destruct (IH j eq_refl) as [H1 H2]. cbn [map fst snd heap_app]. rewrite H1, H2. split; reflexivity.
Qed.

Lemma insert_miss p g acc : find_idx p (map fst acc) = None -> insert p g acc = acc ++ [(p, [g])].
Proof.
  induction acc as [|[q l] r IH]; intros H; cbn [map fst find_idx insert app] in *; [reflexivity|].
  destruct (v3_eqb p q); [discriminate|].
  destruct (find_idx p (map fst r)); cbn [option_map] in H; [discriminate|]. rewrite IH by reflexivity. reflexivity.
Qed.

Lemma heap_app_end (h : list (list symop)) g : heap_app (List.length h) g (h ++ [[]]) = h ++ [[g]].
Proof. induction h as [|l r IH]; cbn [List.length app heap_app]; [reflexivity | rewrite IH; reflexivity]. Qed.

Lemma combine_app {A B} (l1 : list A) (l2 : list B) a b :
  List.length l1 = List.length l2 -> combine (l1 ++ a) (l2 ++ b) = combine l1 l2 ++ combine a b.
Proof.
  revert l2. induction l1 as [|x r IH]; intros [|y t] H; cbn in *; try discriminate; [reflexivity|].
  rewrite IH by lia. reflexivity.
Qed.

(* ---------- simulation ---------- *)
Section Sound.
  Variable D : Z.
  Variable G : list symop.
  Variables off x : v3.
  Hypothesis HD : 0 < D.
  Hypothesis Hsep : separated D G off x.

  Let im (g : symop) : v3 := img D g off x.

  Record Sim (acc : list bucket) (s : st) : Prop := {
    sim_pos : s_pos s = map fst acc;
    sim_heap : s_heap s = map snd acc;
    sim_dict : s_dict s = combine (map (tup D) (s_pos s)) (seq 0 (List.length (s_pos s)))
  }.

  (* keys that are images of operations of G collide in a bucket only when equal *)
  Lemma tup_inj_images g h : In g G -> In h G -> tup D (im g) = tup D (im h) -> im g = im h.
  Proof.
    intros Hg Hh E.
    destruct (v3_eqb (im g) (im h)) eqn:Eb; [apply v3_eqb_eq in Eb; exact Eb|].
    apply v3_eqb_neq in Eb. exfalso.
    apply (far_tup_neq D (im g) (im h) HD); [apply img_in_cell; exact HD | apply img_in_cell; exact HD | | exact E].
    apply Hsep; assumption.
  Qed.

  Lemma sim_step pre acc s g :
    (forall g', In g' pre -> In g' G) -> In g G -> Inv D off x pre acc -> Sim acc s ->
    Sim (insert (im g) g acc) (eps_step D off x s g).
  Proof.
    intros Hpre Hg HI [Hp Hh Hd].
    assert (Hkeys : forall q, In q (map fst acc) -> exists g', In g' G /\ im g' = q).
    { intros q Hq. apply (inv_keys D off x pre acc HI) in Hq as [g' [H1 H2]]. exists g'. split; [apply Hpre; exact H1 | exact H2]. }
    unfold eps_step. cbv zeta. rewrite wrap_red by exact HD. fold (img D g off x). fold (im g).
    rewrite Hd, Hp.
    rewrite (lookup_combine D (im g) (map fst acc) 0).
    2:{ intros q Hq E. destruct (Hkeys q Hq) as [g' [Hg' <-]]. apply tup_inj_images; assumption. }
    destruct (find_idx (im g) (map fst acc)) as [i|] eqn:Ei; cbn [option_map].
    - destruct (insert_hit (im g) g acc i Ei) as [H1 H2].
      constructor; cbn [s_pos s_dict s_heap].
      + exact (eq_sym H1).
      + rewrite Hh. exact (eq_sym H2).
      + reflexivity.
    - assert (Hnot : ~ In (im g) (map fst acc)) by (apply find_idx_none; exact Ei).
      assert (Hmerged :
        match map fst acc with
        | [] => None
        | _ :: _ =>
            if equal_pos D (nth (nearest_index D (map fst acc) (im g)) (map fst acc) (im g)) (im g)
            then Some (lookup_def (tup D (nth (nearest_index D (map fst acc) (im g)) (map fst acc) (im g)))
                   (combine (map (tup D) (map fst acc)) (seq 0 (List.length (map fst acc))) ++
                    [(tup D (im g), List.length (s_heap s))]))
            else None
        end = None).
      { destruct (map fst acc) as [|q0 r0] eqn:EP; [reflexivity|].
        set (k := nearest_index D (q0 :: r0) (im g)).
        assert (Hk : (k < List.length (q0 :: r0))%nat) by (apply nearest_index_lt; discriminate).
        pose proof (nth_In (q0 :: r0) (im g) Hk) as Hin.
        destruct (Hkeys _ Hin) as [g' [Hg' Eg']].
        rewrite far_not_equal; [reflexivity | exact HD |].
        rewrite <- Eg'. apply Hsep; [exact Hg' | exact Hg |].
        fold (im g') (im g). rewrite Eg'. intros E. apply Hnot. rewrite <- E. exact Hin. }
      rewrite Hmerged. rewrite (insert_miss (im g) g acc Ei).
      constructor; cbn [s_pos s_dict s_heap].
      + rewrite map_app. reflexivity.
      + rewrite heap_app_end, Hh, map_app. reflexivity.
      + rewrite map_app, app_length. cbn [map List.length]. rewrite Nat.add_1_r, seq_S.
        rewrite combine_app by (rewrite map_length, seq_length; reflexivity).
        cbn [combine Nat.add]. rewrite Hh, !map_length. reflexivity.
  Qed.

  Lemma sim_fold rest : forall pre acc s,
    (forall g, In g pre -> In g G) -> (forall g, In g rest -> In g G) -> Inv D off x pre acc -> Sim acc s ->
    Sim (fold_left (fun acc g => insert (im g) g acc) rest acc) (fold_left (eps_step D off x) rest s) /\
    Inv D off x (pre ++ rest) (fold_left (fun acc g => insert (im g) g acc) rest acc).
  Proof.
    induction rest as [|g rest IH]; intros pre acc s Hpre Hrest HI HS; cbn [fold_left].
    - rewrite app_nil_r. split; assumption.
    - replace (pre ++ g :: rest) with ((pre ++ [g]) ++ rest) by (rewrite <- app_assoc; reflexivity).
      apply IH.
      + intros g' Hg'. apply in_app_or in Hg' as [Hg'|[<-|[]]]; [apply Hpre; exact Hg' | apply Hrest; left; reflexivity].
      + intros g' Hg'. apply Hrest. right. exact Hg'.
      + apply inv_step. exact HI.
      + apply (sim_step pre); try assumption. apply Hrest. left. reflexivity.
  Qed.

  Definition idx_def (p : v3) (P : list v3) : nat := match find_idx p P with Some i => i | None => 0%nat end.

  Lemma lists_by_index (P : list v3) : forall (heap : list (list symop)),
    NoDup P -> List.length heap = List.length P -> map (fun p => nth (idx_def p P) heap []) P = heap.
  Proof.
    induction P as [|q r IH]; intros heap Hnd Hlen; destruct heap as [|h t]; cbn in Hlen; try discriminate; [reflexivity|].
    inversion Hnd as [|? ? Hnot Hnd']; subst. cbn [map]. f_equal.
    - unfold idx_def. cbn [find_idx]. rewrite v3_eqb_refl. reflexivity.
    - transitivity (map (fun p => nth (idx_def p r) t []) r); [|apply IH; [exact Hnd' | lia]].
      apply map_ext_in. intros p Hp.
      unfold idx_def. cbn [find_idx].
      assert (E : v3_eqb p q = false) by (apply v3_eqb_neq; intros ->; contradiction).
      rewrite E. destruct (find_idx p r) as [i|] eqn:Ei; cbn [option_map]; [reflexivity|].
      exfalso. apply find_idx_none in Ei. contradiction.
  Qed.

  Theorem expand_eps_exact : expand_eps D G off x = expand_exact D G off x.
  Proof.
    unfold expand_eps, expand_exact, eps_run, expand_steps.
    destruct (sim_fold G [] [] (St [] [] [])) as [[Hp Hh Hd] HI].
    - intros g [].
    - intros g Hg. exact Hg.
    - apply inv_nil.
    - constructor; reflexivity.
    - cbn [app] in HI. unfold im in Hp, Hh, Hd, HI.
      set (acc := fold_left (fun acc g => insert (img D g off x) g acc) G []) in *.
      set (s := fold_left (eps_step D off x) G (St [] [] [])) in *.
      rewrite Hp, map_length. f_equal. f_equal.
      rewrite Hd, Hp, Hh.
      transitivity (map (fun p => nth (idx_def p (map fst acc)) (map snd acc) []) (map fst acc));
        [| apply lists_by_index; [apply (inv_nodup D off x G acc HI) | rewrite !map_length; reflexivity]].
      apply map_ext_in. intros p Hp'. f_equal. unfold lookup_def, idx_def.
      rewrite (lookup_combine D p (map fst acc) 0).
      + destruct (find_idx p (map fst acc)); reflexivity.
      + intros q Hq E.
        apply (inv_keys D off x G acc HI) in Hq as [g1 [Hg1 <-]].
        apply (inv_keys D off x G acc HI) in Hp' as [g2 [Hg2 <-]].
        apply tup_inj_images; assumption.
  Qed.
End Sound.
