(* C02 - theorems about the model of GeneratorSite.__init__ (Model/C02_Gen.v). *)
From Coq Require Import ZArith List Bool Lia Permutation.
From DS Require Import Base.ZMat Base.SGDefs Model.GroupCheck Model.C02_Orbit Model.C02_Eps Model.C02_Gen.
From DS Require Import Proofs.C02_Action Proofs.C02_Expand Proofs.C02_OrbitStab Proofs.C02_EpsSound Proofs.C02_NearSpecial.
Import ListNotations.
Open Scope Z_scope.

(* ---------- rounding ---------- *)
Lemma frac1_multiple D k : 0 < D -> frac1 D (D * k) = 0.
Proof.
  intros HD. unfold frac1, rint. cbv zeta.
  replace (D * k / D) with k by (symmetry; rewrite Z.mul_comm; apply Z.div_mul; lia).
  replace (D * k - D * k) with 0 by ring.
  destruct (2 * 0 <? D) eqn:E; [ring | apply Z.ltb_ge in E; lia].
Qed.

Lemma frac1_small D k c : 0 < D -> 2 * Z.abs c < D -> frac1 D (D * k + c) = c.
Proof.
  intros HD Hc. unfold frac1, rint. cbv zeta.
  destruct (Z_lt_le_dec c 0) as [Hn|Hp].
  - assert (Hq : (D * k + c) / D = k - 1).
    { symmetry. apply (Z.div_unique (D * k + c) D (k - 1) (D + c)); lia. }
    rewrite Hq.
    destruct (2 * (D * k + c - D * (k - 1)) <? D) eqn:E1; [apply Z.ltb_lt in E1; lia|].
    destruct (D <? 2 * (D * k + c - D * (k - 1))) eqn:E2; [ring | apply Z.ltb_ge in E2; apply Z.ltb_ge in E1; lia].
  - assert (Hq : (D * k + c) / D = k).
    { symmetry. apply (Z.div_unique (D * k + c) D k c); lia. }
    rewrite Hq.
    destruct (2 * (D * k + c - D * k) <? D) eqn:E1; [ring | apply Z.ltb_ge in E1; lia].
Qed.

Definition small_v (D : Z) (v : v3) : Prop := 2 * Z.abs (vx v) < D /\ 2 * Z.abs (vy v) < D /\ 2 * Z.abs (vz v) < D.

Lemma vfrac_small D k c : 0 < D -> small_v D c -> vfrac D (vadd (vscale D k) c) = c.
Proof.
  intros HD [H1 [H2 H3]]. destruct k as [k1 k2 k3], c as [c1 c2 c3]. unfold vfrac. cbn [vx vy vz] in *. zm_simpl.
  rewrite !frac1_small by assumption. reflexivity.
Qed.

Lemma vfrac_multiple D k : 0 < D -> vfrac D (vscale D k) = v0.
Proof.
  intros HD. destruct k as [k1 k2 k3]. unfold vfrac. zm_simpl. rewrite !frac1_multiple by exact HD. reflexivity.
Qed.

(* ---------- sums ---------- *)
Lemma vsum_cons a r : vsum (a :: r) = vadd a (vsum r).
Proof. reflexivity. Qed.

Lemma vsum_zero l : (forall v, In v l -> v = v0) -> vsum l = v0.
Proof.
  induction l as [|a r IH]; intros H; [reflexivity|]. rewrite vsum_cons.
  rewrite (H a (or_introl eq_refl)), IH by (intros v Hv; apply H; right; exact Hv). reflexivity.
Qed.

Lemma vadd_comm u v : vadd u v = vadd v u.
Proof. destruct u as [a1 a2 a3], v as [b1 b2 b3]. apply v3_ext; zm_simpl; ring. Qed.
Lemma vadd_assoc u v w : vadd u (vadd v w) = vadd (vadd u v) w.
Proof. destruct u as [a1 a2 a3], v as [b1 b2 b3], w as [c1 c2 c3]. apply v3_ext; zm_simpl; ring. Qed.

Lemma vsum_perm l l' : Permutation l l' -> vsum l = vsum l'.
Proof.
  induction 1; rewrite ?vsum_cons; try congruence.
  rewrite !vadd_assoc, (vadd_comm y x). reflexivity.
Qed.

Lemma mvec_vsum R l : mvec R (vsum l) = vsum (map (mvec R) l).
Proof.
  induction l as [|a r IH]; cbn [map]; rewrite ?vsum_cons.
  - destruct R as [e1 e2 e3 e4 e5 e6 e7 e8 e9]. apply v3_ext; unfold vsum; cbn [fold_right]; zm_simpl; ring.
  - rewrite mvec_vadd, IH. reflexivity.
Qed.

Lemma vsum_sub {A} (f : A -> v3) d l :
  vsum (map (fun h => vsub (f h) d) l) = vsub (vsum (map f l)) (vscale (Z.of_nat (List.length l)) d).
Proof.
  induction l as [|a r IH]; cbn [map List.length]; rewrite ?vsum_cons.
  - destruct d as [d1 d2 d3]. apply v3_ext; unfold vsum; cbn [fold_right]; zm_simpl; ring.
  - rewrite IH, Nat2Z.inj_succ.
    destruct (f a) as [a1 a2 a3], d as [d1 d2 d3], (vsum (map f r)) as [s1 s2 s3]. apply v3_ext; zm_simpl; ring.
Qed.

Lemma vsub_self v : vsub v v = v0.
Proof. destruct v as [a1 a2 a3]. apply v3_ext; zm_simpl; ring. Qed.
Lemma vadd_v0_r v : vadd v v0 = v.
Proof. destruct v as [a1 a2 a3]. apply v3_ext; zm_simpl; ring. Qed.

Lemma snap_algebra n w x x0 : vsub w (vscale n (vsub x x0)) = vsub (vadd (vscale n x0) w) (vscale n x).
Proof. destruct w as [s1 s2 s3], x as [a1 a2 a3], x0 as [b1 b2 b3]. apply v3_ext; zm_simpl; ring. Qed.

(* ---------- _findInvariants on an exact expansion ---------- *)
Lemma find_invariants_exact D G off y : IsGroup G -> 0 < D -> (12 | D) ->
  find_invariants (snd (fst (expand_exact D G off y))) = Some (stab D G off y).
Proof.
  intros HG HD H12. pose proof (expand_exact_spec D G off y HG HD H12) as H.
  destruct (expand_exact D G off y) as [[pos ops] m]. cbn [fst snd].
  destruct H as [_ [_ [Hhd [_ [[Hops _] _]]]]].
  destruct pos as [|p0 pos']; cbn [hd_error] in Hhd; [discriminate|]. inversion Hhd; subst p0.
  rewrite Hops. cbn [map find_invariants].
  change (fibre D G off y (red D y)) with (stab D G off y).
  assert (Hid : In ident G).
  { pose proof (g_id_first G HG) as Hf. destruct G as [|o r]; cbn in Hf; [discriminate|]. inversion Hf. left. reflexivity. }
  assert (Hin : In ident (stab D G off y)).
  { unfold stab. apply filter_In. split; [exact Hid|]. unfold fixes. apply v3_eqb_eq. apply img_ident. }
  assert (E : existsb is_identity (stab D G off y) = true).
  { apply existsb_exists. exists ident. split; [exact Hin|]. unfold is_identity. apply op_eqb_eq. reflexivity. }
  rewrite E. reflexivity.
Qed.

(* operations of the site symmetry move the site by a lattice vector *)
Lemma stab_shift D G off y h : IsGroup G -> 0 < D -> (12 | D) -> In h (stab D G off y) ->
  exists k, apply_op D h (vadd y off) = vadd (vadd y off) (vscale D k).
Proof. intros HG HD H12 Hh. apply (in_stab_iff D G off y HD) in Hh as [_ [k Hk]]. exists k. exact Hk. Qed.

Lemma apply_op_add D h y d : apply_op D h (vadd y d) = vadd (apply_op D h y) (mvec (fst h) d).
Proof.
  unfold apply_op. rewrite mvec_vadd.
  destruct (mvec (fst h) y) as [a1 a2 a3], (mvec (fst h) d) as [b1 b2 b3], (vscale (D / 12) (snd h)) as [c1 c2 c3]. apply v3_ext; zm_simpl; ring.
Qed.

(* ---------- an exact site is returned unchanged ---------- *)
Theorem snap_identity_on_exact_sites D G off x : IsGroup G -> 0 < D -> (12 | D) -> separated D G off x ->
  generator_site D G off x =
  let '(pos, ops, m) := expand_exact D G off x in Some (GSite D x off pos ops m (stab D G off x)).
Proof.
  intros HG HD H12 Hsep. unfold generator_site, generator_site_from. rewrite (expand_eps_exact D G off x HD Hsep).
  pose proof (find_invariants_exact D G off x HG HD H12) as Hinv.
  destruct (expand_exact D G off x) as [[pos ops] m]. cbn [fst snd] in Hinv. rewrite Hinv.
  destruct (1 <? List.length (stab D G off x))%nat; [|reflexivity].
  assert (Hz : snap_sum D (stab D G off x) off x = v0).
  { unfold snap_sum. apply vsum_zero. intros v Hv. apply in_map_iff in Hv as [h [<- Hh]].
    destruct (stab_shift D G off x h HG HD H12 Hh) as [k Hk].
    replace (vsub (raw_img D h off x) x) with (vscale D k); [apply vfrac_multiple; exact HD|].
    unfold raw_img. rewrite Hk. destruct x as [a1 a2 a3], off as [o1 o2 o3], k as [k1 k2 k3]. apply v3_ext; zm_simpl; ring. }
  rewrite Hz. rewrite v3_eqb_refl. reflexivity.
Qed.

(* ---------- a site within tolerance of x0 is moved onto the special position of x0 ---------- *)
Section Snap.
  Variable D : Z.
  Variable G : list symop.
  Variables off x x0 : v3.
  Hypothesis HG : IsGroup G.
  Hypothesis HD : 0 < D.
  Hypothesis H12 : (12 | D).
  Hypothesis Hwithin : within_tol D G off x x0.
  Hypothesis Hbetween : between_far D G off x x0.

  Let S := stab D G off x0.
  Let n := Z.of_nat (List.length S).
  Let delta := vsub x x0.
  (* the displacement is small enough for numpy.round to find the lattice part: 2 |(R_h - I) delta| < 1 *)
  Hypothesis Hsmall : forall h, In h S -> small_v D (vsub (mvec (fst h) delta) delta).

  (* n * (x0 + mean over the site symmetry of R_h (x - x0)), on the grid D n *)
  Definition snapped : v3 := vadd (vscale n x0) (vsum (map (fun h => mvec (fst h) delta) S)).

  Lemma first_expansion :
    expand_eps D G off x =
    (map (rep_of D off x) (snd (fst (expand_exact D G off x0))), snd (fst (expand_exact D G off x0)), snd (expand_exact D G off x0)).
  Proof.
    pose proof (expand_eps_near_special D G off x x0 HD Hwithin Hbetween) as H.
    destruct (expand_exact D G off x0) as [[pos0 ops0] m0]. exact H.
  Qed.

  Lemma raw_diff h : In h S -> exists k, vsub (raw_img D h off x) x = vadd (vscale D k) (vsub (mvec (fst h) delta) delta).
  Proof.
    intros Hh. destruct (stab_shift D G off x0 h HG HD H12 Hh) as [k Hk]. exists k.
    unfold raw_img. replace (vadd x off) with (vadd (vadd x0 off) delta) by (unfold delta; destruct x as [a1 a2 a3], x0 as [b1 b2 b3], off as [o1 o2 o3]; apply v3_ext; zm_simpl; ring).
    rewrite apply_op_add, Hk. unfold delta. generalize (mvec (fst h) (vsub x x0)). intros m.
    destruct m as [m1 m2 m3], x as [a1 a2 a3], x0 as [b1 b2 b3], off as [o1 o2 o3], k as [k1 k2 k3]. apply v3_ext; zm_simpl; ring.
  Qed.

  Lemma snap_sum_value : snap_sum D S off x = vsub snapped (vscale n x).
  Proof.
    unfold snap_sum.
    transitivity (vsum (map (fun h => vsub (mvec (fst h) delta) delta) S)).
    - f_equal. apply map_ext_in. intros h Hh. destruct (raw_diff h Hh) as [k ->]. apply vfrac_small; [exact HD | apply Hsmall; exact Hh].
    - rewrite vsum_sub. apply snap_algebra.
  Qed.

  Lemma snapped_as_sum : vadd (vscale n x) (snap_sum D S off x) = snapped.
  Proof. rewrite snap_sum_value. destruct snapped as [s1 s2 s3], x as [a1 a2 a3]. apply v3_ext; zm_simpl; ring. Qed.

  (* the site symmetry of x0 is closed under composition *)
  Lemma stab_closed a b : In a S -> In b S -> In (compose a b) S.
  Proof.
    intros Ha Hb. apply (in_stab_iff D G off x0 HD) in Ha as [Ha Hfa]. apply (in_stab_iff D G off x0 HD) in Hb as [Hb Hfb].
    apply (in_stab_iff D G off x0 HD). split; [apply (g_closed G HG); assumption|].
    eapply veqm_trans; [apply apply_compose; exact H12|].
    eapply veqm_trans; [apply apply_op_veqm; exact Hfb | exact Hfa].
  Qed.

  Lemma stab_perm a : In a S -> Permutation (map (compose a) S) S.
  Proof.
    intros Ha. assert (HaG : In a G) by (apply (in_stab_iff D G off x0 HD) in Ha as [Ha _]; exact Ha).
    destruct (g_inv G HG a HaG) as [ai [Hai [Hr Hl]]].
    apply NoDup_Permutation_bis.
    - apply NoDup_map_inj_on; [apply NoDup_filter, (g_nodup G HG)|].
      intros b c Hb Hc E.
      apply (in_stab_iff D G off x0 HD) in Hb as [Hb _]. apply (in_stab_iff D G off x0 HD) in Hc as [Hc _].
      rewrite <- (cancel_l G HG a ai b Hb Hl), <- (cancel_l G HG a ai c Hc Hl), E. reflexivity.
    - rewrite map_length. apply Nat.le_refl.
    - intros g Hg. apply in_map_iff in Hg as [b [<- Hb]]. apply stab_closed; assumption.
  Qed.

  Lemma n_pos : 0 < n -> 0 < D * n.
  Proof. intros. apply Z.mul_pos_pos; assumption. Qed.

  (* the adjusted site is fixed by every operation of the site symmetry of x0 *)
  Lemma snapped_fixed a : 0 < n -> In a S -> In a (stab (D * n) G (vscale n off) snapped).
  Proof.
    intros Hn Ha. assert (HaG : In a G) by (apply (in_stab_iff D G off x0 HD) in Ha as [Ha' _]; exact Ha').
    assert (H12n : (12 | D * n)) by (apply Z.divide_mul_l; exact H12).
    apply (in_stab_iff (D * n) G (vscale n off) snapped (n_pos Hn)). split; [exact HaG|].
    destruct (stab_shift D G off x0 a HG HD H12 Ha) as [k Hk]. exists k.
    set (w := vsum (map (fun h => mvec (fst h) delta) S)).
    assert (Hw : mvec (fst a) w = w).
    { unfold w. rewrite mvec_vsum, map_map.
      rewrite <- (vsum_perm _ _ (Permutation_map (fun h => mvec (fst h) delta) (stab_perm a Ha))), map_map.
      f_equal. apply map_ext. intros h. unfold compose. cbn [fst]. symmetry. apply mvec_mmul. }
    replace (vadd snapped (vscale n off)) with (vadd (vscale n (vadd x0 off)) w)
      by (unfold snapped; fold w; destruct x0 as [b1 b2 b3], off as [o1 o2 o3], w as [w1 w2 w3]; apply v3_ext; zm_simpl; ring).
    rewrite apply_op_add, Hw.
    assert (Hs : apply_op (D * n) a (vscale n (vadd x0 off)) = vscale n (apply_op D a (vadd x0 off))).
    { destruct H12 as [c Hc]. unfold apply_op. rewrite mvec_vscale.
      replace (D * n / 12) with (n * (D / 12)).
      - destruct (mvec (fst a) (vadd x0 off)) as [m1 m2 m3], (snd a) as [t1 t2 t3]. apply v3_ext; zm_simpl; ring.
      - rewrite Hc. replace (c * 12 * n) with (c * n * 12) by ring. rewrite !Z.div_mul by lia. ring. }
    rewrite Hs, Hk. destruct x0 as [b1 b2 b3], off as [o1 o2 o3], w as [w1 w2 w3], k as [k1 k2 k3]. apply v3_ext; zm_simpl; ring.
  Qed.

  Hypothesis Hmany : (1 < List.length S)%nat.

  Lemma n_gt0 : 0 < n.
  Proof. unfold n. lia. Qed.

  (* case 1: the site already lies on the special position (displaced along its free directions only):
     nothing is recalculated, the result is the orbit structure of x0 carried by the images of x *)
  Theorem snap_keeps_invariant_site : snapped = vscale n x ->
    generator_site D G off x =
    let '(pos0, ops0, m0) := expand_exact D G off x0 in Some (GSite D x off (map (rep_of D off x) ops0) ops0 m0 S).
  Proof.
    intros Hinv. unfold generator_site, generator_site_from. rewrite first_expansion.
    pose proof (find_invariants_exact D G off x0 HG HD H12) as Hfi. fold S in Hfi.
    destruct (expand_exact D G off x0) as [[pos0 ops0] m0]. cbn [fst snd] in *. rewrite Hfi.
    pose proof Hmany as Hm. apply Nat.ltb_lt in Hm. rewrite Hm.
    rewrite snap_sum_value, Hinv, vsub_self.
    rewrite v3_eqb_refl. reflexivity.
  Qed.

  (* case 2: the site is moved *)
  Hypothesis Hmoved : snapped <> vscale n x.
  Hypothesis Hnotiny : zero_small (D * n) snapped = snapped.
  Hypothesis Hsep : separated (D * n) G (vscale n off) snapped.

  Theorem snap_fixes_site :
    generator_site D G off x =
    (let '(pos, ops, m) := expand_exact (D * n) G (vscale n off) snapped in
     Some (GSite (D * n) snapped (vscale n off) pos ops m (stab (D * n) G (vscale n off) snapped)))
    /\ incl S (stab (D * n) G (vscale n off) snapped).
  Proof.
    split; [|intros a Ha; apply snapped_fixed; [exact n_gt0 | exact Ha]].
    unfold generator_site, generator_site_from. rewrite first_expansion.
    pose proof (find_invariants_exact D G off x0 HG HD H12) as Hfi. fold S in Hfi.
    destruct (expand_exact D G off x0) as [[pos0 ops0] m0]. cbn [fst snd] in *. rewrite Hfi.
    pose proof Hmany as Hm. apply Nat.ltb_lt in Hm. rewrite Hm.
    destruct (v3_eqb (snap_sum D S off x) v0) eqn:E.
    { exfalso. apply v3_eqb_eq in E. apply Hmoved. rewrite <- snapped_as_sum, E. apply vadd_v0_r. }
    fold n. rewrite snapped_as_sum, Hnotiny.
    assert (H12n : (12 | D * n)) by (apply Z.divide_mul_l; exact H12).
    rewrite (expand_eps_exact (D * n) G (vscale n off) snapped (n_pos n_gt0) Hsep).
    pose proof (find_invariants_exact (D * n) G (vscale n off) snapped HG (n_pos n_gt0) H12n) as Hfi2.
    destruct (expand_exact (D * n) G (vscale n off) snapped) as [[pos ops] m]. cbn [fst snd] in Hfi2. rewrite Hfi2. reflexivity.
  Qed.

  (* if the adjusted site does not fall onto a position more special than x0, its site symmetry is exactly
     that of x0 *)
  Theorem snapped_invariants_are_stab_x0 :
    (forall g, In g G -> img D g off x0 <> red D x0 -> img (D * n) g (vscale n off) snapped <> red (D * n) snapped) ->
    stab (D * n) G (vscale n off) snapped = S.
  Proof.
    intros Hno. unfold S, stab. apply filter_ext_in. intros g Hg. unfold fixes.
    destruct (v3_eqb (img D g off x0) (red D x0)) eqn:E0.
    - assert (Hs : In g S) by (unfold S, stab; apply filter_In; split; [exact Hg | exact E0]).
      pose proof (snapped_fixed g n_gt0 Hs) as Hf. unfold stab in Hf. apply filter_In in Hf as [_ Hf]. exact Hf.
    - apply v3_eqb_neq in E0. apply v3_eqb_neq. apply Hno; assumption.
  Qed.
End Snap.

(* ---------- ExpandAsymmetricUnit as a map over the sites ---------- *)
Lemma all_some_map {A B} (f : A -> option B) (g : A -> B) l :
  (forall a, In a l -> f a = Some (g a)) -> all_some (map f l) = Some (map g l).
Proof.
  induction l as [|a r IH]; intros H; cbn [map all_some]; [reflexivity|].
  rewrite (H a (or_introl eq_refl)), IH by (intros b Hb; apply H; right; exact Hb). reflexivity.
Qed.

Theorem expand_asym_exact_sites D G off sites : IsGroup G -> 0 < D -> (12 | D) ->
  (forall y, In y sites -> separated D G off y) ->
  expand_asym D G off sites =
  Some (Asym (map (fun y => snd (expand_exact D G off y)) sites)
             (map (fun y => (D, fst (fst (expand_exact D G off y)))) sites)).
Proof.
  intros HG HD H12 Hsep. unfold expand_asym.
  rewrite (all_some_map (generator_site D G off)
             (fun y => GSite D y off (fst (fst (expand_exact D G off y))) (snd (fst (expand_exact D G off y)))
                             (snd (expand_exact D G off y)) (stab D G off y))).
  - rewrite !map_map. reflexivity.
  - intros y Hy. rewrite (snap_identity_on_exact_sites D G off y HG HD H12 (Hsep y Hy)).
    destruct (expand_exact D G off y) as [[pos ops] m]. reflexivity.
Qed.
