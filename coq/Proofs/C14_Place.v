From Coq Require Import Reals Lra List Bool.
From DS Require Import Base.RMat Base.Trig Model.LatDefs Model.C01_Spec Model.C14_Place Gen.LatFormulas Gen.C14_Place.
From DS Require Import Proofs.C01_Lattice Proofs.C14_LatOk.
Import ListNotations.
Open Scope R_scope.

Lemma mscale_mmul_l v X B : mmul (mscale v X) B = mscale v (mmul X B).
Proof. destruct X as [x11 x12 x13 x21 x22 x23 x31 x32 x33]. destruct B as [b11 b12 b13 b21 b22 b23 b31 b32 b33]. apply mat_eq; rm_simpl; ring. Qed.
Lemma mscale_mmul_r v A X : mmul A (mscale v X) = mscale v (mmul A X).
Proof. destruct X as [x11 x12 x13 x21 x22 x23 x31 x32 x33]. destruct A as [b11 b12 b13 b21 b22 b23 b31 b32 b33]. apply mat_eq; rm_simpl; ring. Qed.

Section Place.
  Variables L L' : lat.
  Hypothesis HL : lat_ok L.
  Hypothesis HL' : lat_ok L'.

  (* absolute Cartesian position unchanged *)
  Theorem cart_preserved nid a : cart L' (place_atom L L' nid a) = cart L a.
  Proof.
    unfold cart, place_atom, place_xyz, place_Tx; cbn [at_xyz].
    rewrite !vmul_mmul, mmul_assoc, (ok_rb L' HL'), mmul_I_r. reflexivity.
  Qed.

  Lemma Tu_normbase : mmul (place_Tu L L') (l_normbase L') = l_normbase L.
  Proof. unfold place_Tu. rewrite mmul_assoc, (ok_rn L' HL'), mmul_I_r. reflexivity. Qed.

  (* Cartesian displacement tensor of an anisotropic atom unchanged *)
  Theorem ucart_preserved U : ucart L' (place_U L L' U) = ucart L U.
  Proof.
    unfold ucart, place_U. rewrite !mmul_assoc, Tu_normbase, <- (mmul_assoc (mT (l_normbase L'))), <- mT_mmul, Tu_normbase.
    reflexivity.
  Qed.

  (* an isotropic atom reads value * isotropicunit; its Cartesian tensor is value * identity in every lattice *)
  Lemma iso_cart_any (M0 : lat) (H0 : lat_ok M0) v : ucart M0 (mscale v (l_isotropicunit M0)) = mscale v I.
  Proof.
    unfold ucart. rewrite (ok_iso M0 H0), mscale_mmul_l, mscale_mmul_r. f_equal.
    rewrite (mmul_assoc (mT (l_recnormbase M0))), <- (mmul_assoc (mT (l_normbase M0))), <- mT_mmul, (ok_rn M0 H0).
    replace (mT I) with I by (apply mat_eq; reflexivity). apply mmul_I_l.
  Qed.


  Theorem read_ucart_preserved nid a : ucart L' (read_U L' (place_atom L L' nid a)) = ucart L (read_U L a).
  Proof.
    unfold read_U, place_atom; cbn [at_aniso at_U]. destruct (at_aniso a) eqn:An.
    - apply ucart_preserved.
    - rewrite (iso_cart_any L' HL'), (iso_cart_any L HL). reflexivity.
  Qed.

  Theorem uiso_preserved nid a : uiso_cart L' (place_atom L L' nid a) = uiso_cart L a.
  Proof.
    unfold uiso_cart, place_atom; cbn [at_aniso at_U]. destruct (at_aniso a); [rewrite ucart_preserved|]; reflexivity.
  Qed.

  (* character, occupancy, identity unchanged; isotropic storage untouched; every atom gets the new lattice *)
  Theorem flags_preserved nid a : let a' := place_atom L L' nid a in
    at_aniso a' = at_aniso a /\ at_occ a' = at_occ a /\ at_id a' = at_id a /\ at_lat a' = nid /\
    (at_aniso a = false -> at_U a' = at_U a).
  Proof. cbv zeta. unfold place_atom; cbn. repeat split. intros ->. reflexivity. Qed.

  Theorem structure_placed nid atoms : let S' := place_in_lattice L L' nid atoms in
    List.length S' = List.length atoms /\ map at_id S' = map at_id atoms /\ Forall (fun a => at_lat a = nid) S'.
  Proof.
    cbv zeta. unfold place_in_lattice. rewrite map_length, map_map. repeat split.
    apply Forall_forall. intros a Ha. apply in_map_iff in Ha as [a0 [<- _]]. reflexivity.
  Qed.
End Place.

(* composition of transfers and chains *)
Theorem tx_compose L1 L2 L3 : lat_ok L2 -> mmul (place_Tx L1 L2) (place_Tx L2 L3) = place_Tx L1 L3.
Proof. intros H2. unfold place_Tx. rewrite mmul_assoc, <- (mmul_assoc (l_recbase L2)), (ok_rb L2 H2), mmul_I_l. reflexivity. Qed.
Theorem tx_id L : lat_ok L -> place_Tx L L = I.
Proof. intros H. apply (ok_br L H). Qed.
Theorem tu_compose L1 L2 L3 : lat_ok L2 -> mmul (place_Tu L1 L2) (place_Tu L2 L3) = place_Tu L1 L3.
Proof. intros H2. unfold place_Tu. rewrite mmul_assoc, <- (mmul_assoc (l_recnormbase L2)), (ok_rn L2 H2), mmul_I_l. reflexivity. Qed.
Theorem tu_id L : lat_ok L -> place_Tu L L = I.
Proof. intros H. apply (ok_nr L H). Qed.

(* state after a chain L0 -> ... -> Lk expressed directly from L0 *)
Lemma place_atom_compose L0 L1 L2 a : lat_ok L1 ->
  place_atom L1 L2 0%nat (place_atom L0 L1 0%nat a) = place_atom L0 L2 0%nat a.
Proof.
  intros H1. unfold place_atom; cbn [at_id at_xyz at_aniso at_U at_occ at_lat]. f_equal.
  - unfold place_xyz. rewrite vmul_mmul, (tx_compose L0 L1 L2 H1). reflexivity.
  - destruct (at_aniso a); [|reflexivity]. unfold place_U.
    rewrite <- (tu_compose L0 L1 L2 H1), mT_mmul, !mmul_assoc. reflexivity.
Qed.

Lemma place_chain_direct : forall chain L0 a, lat_ok L0 -> Forall lat_ok chain -> chain <> [] ->
  place_chain L0 chain a = place_atom L0 (last chain L0) 0%nat a.
Proof.
  induction chain as [|L1 rest IH]; intros L0 a H0 Hall Hne; [contradiction|].
  inversion Hall as [|? ? H1 Hrest]; subst. cbn [place_chain].
  destruct rest as [|L2 rest'].
  - reflexivity.
  - rewrite (IH L1 (place_atom L0 L1 0%nat a) H1 Hrest) by discriminate.
    change (last (L1 :: L2 :: rest') L0) with (last (L2 :: rest') L0).
    assert (E : last (L2 :: rest') L1 = last (L2 :: rest') L0) by (clear; revert L2; induction rest' as [|x r IHr]; intros; [reflexivity | apply IHr]).
    rewrite E. apply place_atom_compose. exact H1.
Qed.

(* going through any chain of lattices and back restores fractional coordinates and tensor storage exactly *)
Theorem chain_returns chain L0 a : lat_ok L0 -> Forall lat_ok chain ->
  let a' := place_chain L0 (chain ++ [L0]) a in
  at_xyz a' = at_xyz a /\ at_U a' = at_U a /\ at_aniso a' = at_aniso a /\ at_occ a' = at_occ a /\ at_id a' = at_id a.
Proof.
  intros H0 Hall. cbv zeta.
  rewrite (place_chain_direct (chain ++ [L0]) L0 a H0).
  - rewrite last_last. unfold place_atom; cbn [at_id at_xyz at_aniso at_U at_occ]. repeat split.
    + unfold place_xyz. rewrite (tx_id L0 H0). apply vmul_I.
    + destruct (at_aniso a); [|reflexivity]. unfold place_U. rewrite (tu_id L0 H0).
      replace (mT I) with I by (apply mat_eq; reflexivity). rewrite mmul_I_l, mmul_I_r. reflexivity.
  - apply Forall_app. split; [exact Hall | constructor; [exact H0 | constructor]].
  - destruct chain; discriminate.
Qed.

(* whole structures: every atom of the placed list has the Cartesian position and Cartesian tensor of its original *)
Theorem structure_cart_preserved L L' nid atoms : lat_ok L -> lat_ok L' ->
  map (cart L') (place_in_lattice L L' nid atoms) = map (cart L) atoms /\
  map (fun a => ucart L' (read_U L' a)) (place_in_lattice L L' nid atoms) = map (fun a => ucart L (read_U L a)) atoms.
Proof.
  intros H H'. unfold place_in_lattice. rewrite !map_map. split; apply map_ext; intros a.
  - apply cart_preserved. exact H'.
  - apply read_ucart_preserved; assumption.
Qed.
