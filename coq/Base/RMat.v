(* 3x3 real matrices and 3-vectors (row vectors, numpy convention: x_cart = x_frac . base). *)
From Coq Require Import Reals Lra List.
Import ListNotations.
Open Scope R_scope.

Record vec := V { v1 : R; v2 : R; v3 : R }.
Record mat := M { a11 : R; a12 : R; a13 : R; a21 : R; a22 : R; a23 : R; a31 : R; a32 : R; a33 : R }.

Definition I : mat := M 1 0 0 0 1 0 0 0 1.
Definition mmul (a b : mat) : mat :=
  M (a11 a * a11 b + a12 a * a21 b + a13 a * a31 b) (a11 a * a12 b + a12 a * a22 b + a13 a * a32 b) (a11 a * a13 b + a12 a * a23 b + a13 a * a33 b)
    (a21 a * a11 b + a22 a * a21 b + a23 a * a31 b) (a21 a * a12 b + a22 a * a22 b + a23 a * a32 b) (a21 a * a13 b + a22 a * a23 b + a23 a * a33 b)
    (a31 a * a11 b + a32 a * a21 b + a33 a * a31 b) (a31 a * a12 b + a32 a * a22 b + a33 a * a32 b) (a31 a * a13 b + a32 a * a23 b + a33 a * a33 b).
Definition mT (a : mat) : mat := M (a11 a) (a21 a) (a31 a) (a12 a) (a22 a) (a32 a) (a13 a) (a23 a) (a33 a).
Definition det (a : mat) : R :=
  a11 a * (a22 a * a33 a - a23 a * a32 a) - a12 a * (a21 a * a33 a - a23 a * a31 a) + a13 a * (a21 a * a32 a - a22 a * a31 a).
(* inverse = adjugate / determinant (numpy.linalg.inv, exact arithmetic) *)
Definition minv (a : mat) : mat :=
  let d := det a in
  M ((a22 a * a33 a - a23 a * a32 a) / d) ((a13 a * a32 a - a12 a * a33 a) / d) ((a12 a * a23 a - a13 a * a22 a) / d)
    ((a23 a * a31 a - a21 a * a33 a) / d) ((a11 a * a33 a - a13 a * a31 a) / d) ((a13 a * a21 a - a11 a * a23 a) / d)
    ((a21 a * a32 a - a22 a * a31 a) / d) ((a12 a * a31 a - a11 a * a32 a) / d) ((a11 a * a22 a - a12 a * a21 a) / d).
Definition mscale (k : R) (a : mat) : mat :=
  M (k * a11 a) (k * a12 a) (k * a13 a) (k * a21 a) (k * a22 a) (k * a23 a) (k * a31 a) (k * a32 a) (k * a33 a).
Definition madd (a b : mat) : mat :=
  M (a11 a + a11 b) (a12 a + a12 b) (a13 a + a13 b) (a21 a + a21 b) (a22 a + a22 b) (a23 a + a23 b) (a31 a + a31 b) (a32 a + a32 b) (a33 a + a33 b).
Definition mtrace (a : mat) : R := a11 a + a22 a + a33 a.

(* row vector times matrix: numpy.dot(v, A) *)
Definition vmul (v : vec) (a : mat) : vec :=
  V (v1 v * a11 a + v2 v * a21 a + v3 v * a31 a) (v1 v * a12 a + v2 v * a22 a + v3 v * a32 a) (v1 v * a13 a + v2 v * a23 a + v3 v * a33 a).
(* matrix times column vector: numpy.dot(A, v) *)
Definition mvmul (a : mat) (v : vec) : vec :=
  V (a11 a * v1 v + a12 a * v2 v + a13 a * v3 v) (a21 a * v1 v + a22 a * v2 v + a23 a * v3 v) (a31 a * v1 v + a32 a * v2 v + a33 a * v3 v).
Definition vdot (u v : vec) : R := v1 u * v1 v + v2 u * v2 v + v3 u * v3 v.
Definition vadd (u v : vec) : vec := V (v1 u + v1 v) (v2 u + v2 v) (v3 u + v3 v).
Definition vsub (u v : vec) : vec := V (v1 u - v1 v) (v2 u - v2 v) (v3 u - v3 v).
Definition vscale (k : R) (u : vec) : vec := V (k * v1 u) (k * v2 u) (k * v3 u).
Definition row1 (a : mat) := V (a11 a) (a12 a) (a13 a).
Definition row2 (a : mat) := V (a21 a) (a22 a) (a23 a).
Definition row3 (a : mat) := V (a31 a) (a32 a) (a33 a).
Definition col1 (a : mat) := V (a11 a) (a21 a) (a31 a).
Definition col2 (a : mat) := V (a12 a) (a22 a) (a32 a).
Definition col3 (a : mat) := V (a13 a) (a23 a) (a33 a).
Definition of_rows (r1 r2 r3 : vec) : mat := M (v1 r1) (v2 r1) (v3 r1) (v1 r2) (v2 r2) (v3 r2) (v1 r3) (v2 r3) (v3 r3).

Lemma mat_eq a b :
  a11 a = a11 b -> a12 a = a12 b -> a13 a = a13 b -> a21 a = a21 b -> a22 a = a22 b -> a23 a = a23 b ->
  a31 a = a31 b -> a32 a = a32 b -> a33 a = a33 b -> a = b.
Proof. destruct a, b; cbn; intros; subst; reflexivity. Qed.
Lemma vec_eq u v : v1 u = v1 v -> v2 u = v2 v -> v3 u = v3 v -> u = v.
Proof. destruct u, v; cbn; intros; subst; reflexivity. Qed.

Ltac rm_unfold := unfold minv in *; unfold mmul, mT, det, mscale, madd, mtrace, vmul, mvmul, vdot, vadd, vsub, vscale,
  row1, row2, row3, col1, col2, col3, of_rows, I in *.
Ltac rm_simpl := rm_unfold; cbv zeta in *; cbn [a11 a12 a13 a21 a22 a23 a31 a32 a33 v1 v2 v3] in *.
Ltac dmat a := destruct a as [? ? ? ? ? ? ? ? ?].
Ltac dvec v := destruct v as [? ? ?].

Lemma mmul_assoc a b c : mmul (mmul a b) c = mmul a (mmul b c).
Proof. dmat a; dmat b; dmat c; apply mat_eq; rm_simpl; ring. Qed.
Lemma mmul_I_l a : mmul I a = a.
Proof. dmat a; apply mat_eq; rm_simpl; ring. Qed.
Lemma mmul_I_r a : mmul a I = a.
Proof. dmat a; apply mat_eq; rm_simpl; ring. Qed.
Lemma mT_mmul a b : mT (mmul a b) = mmul (mT b) (mT a).
Proof. dmat a; dmat b; apply mat_eq; rm_simpl; ring. Qed.
Lemma mT_mT a : mT (mT a) = a.
Proof. dmat a; reflexivity. Qed.
Lemma det_mmul a b : det (mmul a b) = det a * det b.
Proof. dmat a; dmat b; rm_simpl; ring. Qed.
Lemma det_mT a : det (mT a) = det a.
Proof. dmat a; rm_simpl; ring. Qed.
Lemma det_I : det I = 1.
Proof. rm_simpl; ring. Qed.
Lemma minv_r a : det a <> 0 -> mmul a (minv a) = I.
Proof. intros H; dmat a; apply mat_eq; rm_simpl; field; exact H. Qed.
Lemma minv_l a : det a <> 0 -> mmul (minv a) a = I.
Proof. intros H; dmat a; apply mat_eq; rm_simpl; field; exact H. Qed.
Lemma vmul_mmul v a b : vmul (vmul v a) b = vmul v (mmul a b).
Proof. dvec v; dmat a; dmat b; apply vec_eq; rm_simpl; ring. Qed.
Lemma vmul_I v : vmul v I = v.
Proof. dvec v; apply vec_eq; rm_simpl; ring. Qed.
Lemma vmul_vadd u v a : vmul (vadd u v) a = vadd (vmul u a) (vmul v a).
Proof. dvec u; dvec v; dmat a; apply vec_eq; rm_simpl; ring. Qed.
Lemma vmul_vsub u v a : vmul (vsub u v) a = vsub (vmul u a) (vmul v a).
Proof. dvec u; dvec v; dmat a; apply vec_eq; rm_simpl; ring. Qed.
Lemma vmul_vscale k u a : vmul (vscale k u) a = vscale k (vmul u a).
Proof. dvec u; dmat a; apply vec_eq; rm_simpl; ring. Qed.
(* u A . v = u . (A v)  and   (uA).(vA) = u (A A^T) v^T *)
Lemma vdot_vmul_l u a v : vdot (vmul u a) v = vdot u (mvmul a v).
Proof. dvec u; dvec v; dmat a; rm_simpl; ring. Qed.
Lemma mvmul_mT a v : mvmul (mT a) v = vmul v a.
Proof. dvec v; dmat a; apply vec_eq; rm_simpl; ring. Qed.
Lemma vdot_gram u v a : vdot (vmul u a) (vmul v a) = vdot u (mvmul (mmul a (mT a)) v).
Proof. dvec u; dvec v; dmat a; rm_simpl; ring. Qed.
Lemma vdot_comm u v : vdot u v = vdot v u.
Proof. dvec u; dvec v; rm_simpl; ring. Qed.
Lemma minv_unique a b : det a <> 0 -> mmul a b = I -> b = minv a.
Proof.
  intros H E. rewrite <- (mmul_I_l b), <- (minv_l a H), mmul_assoc, E, mmul_I_r. reflexivity.
Qed.
Lemma det_minv a : det a <> 0 -> det (minv a) = / det a.
Proof.
  intros H. pose proof (minv_r a H) as E. apply (f_equal det) in E. rewrite det_mmul, det_I in E.
  apply (Rmult_eq_reg_l (det a)); [|exact H]. rewrite E. field. exact H.
Qed.
