(* 3x3 integer matrices and 3-vectors: the exact carrier of the space-group tables.
   Translations are stored multiplied by 12 (every tabulated denominator divides 12). *)
From Coq Require Import ZArith List Bool Lia.
Import ListNotations.
Open Scope Z_scope.

Record v3 := V3 { vx : Z; vy : Z; vz : Z }.
Record m3 := M3 { m11 : Z; m12 : Z; m13 : Z; m21 : Z; m22 : Z; m23 : Z; m31 : Z; m32 : Z; m33 : Z }.

Definition I3 : m3 := M3 1 0 0 0 1 0 0 0 1.
Definition v0 : v3 := V3 0 0 0.

Definition mmul (a b : m3) : m3 :=
  M3 (m11 a * m11 b + m12 a * m21 b + m13 a * m31 b) (m11 a * m12 b + m12 a * m22 b + m13 a * m32 b) (m11 a * m13 b + m12 a * m23 b + m13 a * m33 b)
     (m21 a * m11 b + m22 a * m21 b + m23 a * m31 b) (m21 a * m12 b + m22 a * m22 b + m23 a * m32 b) (m21 a * m13 b + m22 a * m23 b + m23 a * m33 b)
     (m31 a * m11 b + m32 a * m21 b + m33 a * m31 b) (m31 a * m12 b + m32 a * m22 b + m33 a * m32 b) (m31 a * m13 b + m32 a * m23 b + m33 a * m33 b).

Definition mvec (a : m3) (v : v3) : v3 :=
  V3 (m11 a * vx v + m12 a * vy v + m13 a * vz v)
     (m21 a * vx v + m22 a * vy v + m23 a * vz v)
     (m31 a * vx v + m32 a * vy v + m33 a * vz v).

Definition mT (a : m3) : m3 := M3 (m11 a) (m21 a) (m31 a) (m12 a) (m22 a) (m32 a) (m13 a) (m23 a) (m33 a).

Definition vadd (u v : v3) : v3 := V3 (vx u + vx v) (vy u + vy v) (vz u + vz v).
Definition vsub (u v : v3) : v3 := V3 (vx u - vx v) (vy u - vy v) (vz u - vz v).
Definition vscale (k : Z) (v : v3) : v3 := V3 (k * vx v) (k * vy v) (k * vz v).
Definition vmod (d : Z) (v : v3) : v3 := V3 (vx v mod d) (vy v mod d) (vz v mod d).

Definition det (a : m3) : Z :=
  m11 a * (m22 a * m33 a - m23 a * m32 a) - m12 a * (m21 a * m33 a - m23 a * m31 a) + m13 a * (m21 a * m32 a - m22 a * m31 a).
Definition trace (a : m3) : Z := m11 a + m22 a + m33 a.

Definition v3_eqb (u v : v3) : bool := (vx u =? vx v) && (vy u =? vy v) && (vz u =? vz v).
Definition m3_eqb (a b : m3) : bool :=
  (m11 a =? m11 b) && (m12 a =? m12 b) && (m13 a =? m13 b) &&
  (m21 a =? m21 b) && (m22 a =? m22 b) && (m23 a =? m23 b) &&
  (m31 a =? m31 b) && (m32 a =? m32 b) && (m33 a =? m33 b).

Definition m3_entries (a : m3) : list Z := [m11 a; m12 a; m13 a; m21 a; m22 a; m23 a; m31 a; m32 a; m33 a].
Definition v3_entries (v : v3) : list Z := [vx v; vy v; vz v].

Lemma v3_eqb_eq u v : v3_eqb u v = true <-> u = v.
Proof.
  destruct u, v; unfold v3_eqb; cbn [vx vy vz]. rewrite !andb_true_iff, !Z.eqb_eq.
  split; [intros [[-> ->] ->]; reflexivity | intros H; inversion H; auto].
Qed.

Lemma m3_eqb_eq a b : m3_eqb a b = true <-> a = b.
Proof.
  destruct a, b; unfold m3_eqb; cbn [m11 m12 m13 m21 m22 m23 m31 m32 m33].
  rewrite !andb_true_iff, !Z.eqb_eq.
  split; [intros [[[[[[[[-> ->] ->] ->] ->] ->] ->] ->] ->]; reflexivity | intros H; inversion H; repeat split; auto].
Qed.

Lemma m3_ext a b :
  m11 a = m11 b -> m12 a = m12 b -> m13 a = m13 b -> m21 a = m21 b -> m22 a = m22 b -> m23 a = m23 b ->
  m31 a = m31 b -> m32 a = m32 b -> m33 a = m33 b -> a = b.
Proof. destruct a, b; cbn; intros; subst; reflexivity. Qed.

Lemma v3_ext u v : vx u = vx v -> vy u = vy v -> vz u = vz v -> u = v.
Proof. destruct u, v; cbn; intros; subst; reflexivity. Qed.

Ltac zm_simpl := unfold mmul, mvec, mT, vadd, vsub, vscale, I3, v0, det, trace in *; cbn [m11 m12 m13 m21 m22 m23 m31 m32 m33 vx vy vz] in *.

Lemma mmul_assoc a b c : mmul (mmul a b) c = mmul a (mmul b c).
Proof. destruct a as [? ? ? ? ? ? ? ? ?], b as [? ? ? ? ? ? ? ? ?], c as [? ? ? ? ? ? ? ? ?]; apply m3_ext; zm_simpl; ring. Qed.
Lemma mmul_I_l a : mmul I3 a = a.
Proof. destruct a as [? ? ? ? ? ? ? ? ?]; apply m3_ext; zm_simpl; ring. Qed.
Lemma mmul_I_r a : mmul a I3 = a.
Proof. destruct a as [? ? ? ? ? ? ? ? ?]; apply m3_ext; zm_simpl; ring. Qed.
Lemma mvec_mmul a b v : mvec (mmul a b) v = mvec a (mvec b v).
Proof. destruct a as [? ? ? ? ? ? ? ? ?], b as [? ? ? ? ? ? ? ? ?], v as [? ? ?]; apply v3_ext; zm_simpl; ring. Qed.
Lemma mvec_I v : mvec I3 v = v.
Proof. destruct v as [? ? ?]; apply v3_ext; zm_simpl; ring. Qed.
Lemma mvec_vadd a u v : mvec a (vadd u v) = vadd (mvec a u) (mvec a v).
Proof. destruct a as [? ? ? ? ? ? ? ? ?], u as [? ? ?], v as [? ? ?]; apply v3_ext; zm_simpl; ring. Qed.
Lemma mvec_vsub a u v : mvec a (vsub u v) = vsub (mvec a u) (mvec a v).
Proof. destruct a as [? ? ? ? ? ? ? ? ?], u as [? ? ?], v as [? ? ?]; apply v3_ext; zm_simpl; ring. Qed.
Lemma mvec_vscale a k v : mvec a (vscale k v) = vscale k (mvec a v).
Proof. destruct a as [? ? ? ? ? ? ? ? ?], v as [? ? ?]; apply v3_ext; zm_simpl; ring. Qed.
Lemma det_mmul a b : det (mmul a b) = det a * det b.
Proof. destruct a as [? ? ? ? ? ? ? ? ?], b as [? ? ? ? ? ? ? ? ?]; zm_simpl; ring. Qed.
