(* Generic 3-vectors / 3x3 matrices over an abstract number type with the operations the Python code uses,
   so that ONE model text can be (a) reasoned about over R (conversion to Base.RMat below) and
   (b) executed over Q (exact rationals of the doubles) or over binary64 floats (when sqrt is needed).
   Owner: C09/C15/C18.  No proofs about floats or Q are made anywhere; those instances only run. *)
From Coq Require Import Reals QArith Qabs ZArith Floats Bool List Lra.
From DS Require Import Base.RMat.

Record ops (T : Type) := Ops {
  t0 : T; t1 : T;
  tadd : T -> T -> T; tsub : T -> T -> T; tmul : T -> T -> T; tdiv : T -> T -> T; topp : T -> T;
  tofZ : Z -> T;              (* integer literal / int -> float conversion *)
  tabs : T -> T;
  tltb : T -> T -> bool       (* x < y *)
}.
Arguments t0 {T} _. Arguments t1 {T} _. Arguments tadd {T} _ _ _. Arguments tsub {T} _ _ _.
Arguments tmul {T} _ _ _. Arguments tdiv {T} _ _ _. Arguments topp {T} _ _. Arguments tofZ {T} _ _.
Arguments tabs {T} _ _. Arguments tltb {T} _ _ _.

Inductive idx := i0 | i1 | i2.
Definition idx_eqb (a b : idx) : bool :=
  match a, b with i0, i0 | i1, i1 | i2, i2 => true | _, _ => false end.
Definition all_idx : list idx := i0 :: i1 :: i2 :: nil.

Record gvec (T : Type) := GV { x0 : T; x1 : T; x2 : T }.
Arguments GV {T} _ _ _. Arguments x0 {T} _. Arguments x1 {T} _. Arguments x2 {T} _.
(* a matrix is its three rows (numpy: m[i] is row i) *)
Record gmat (T : Type) := GM { r0 : gvec T; r1 : gvec T; r2 : gvec T }.
Arguments GM {T} _ _ _. Arguments r0 {T} _. Arguments r1 {T} _. Arguments r2 {T} _.

Section Generic.
Context {T : Type} (O : ops T).

Definition vget (v : gvec T) (i : idx) : T := match i with i0 => x0 v | i1 => x1 v | i2 => x2 v end.
Definition vset (v : gvec T) (i : idx) (x : T) : gvec T :=
  match i with i0 => GV x (x1 v) (x2 v) | i1 => GV (x0 v) x (x2 v) | i2 => GV (x0 v) (x1 v) x end.
Definition mrow (m : gmat T) (i : idx) : gvec T := match i with i0 => r0 m | i1 => r1 m | i2 => r2 m end.
Definition msetrow (m : gmat T) (i : idx) (r : gvec T) : gmat T :=
  match i with i0 => GM r (r1 m) (r2 m) | i1 => GM (r0 m) r (r2 m) | i2 => GM (r0 m) (r1 m) r end.
Definition mget (m : gmat T) (i j : idx) : T := vget (mrow m i) j.            (* m[i, j] *)
Definition mset (m : gmat T) (i j : idx) (x : T) : gmat T := msetrow m i (vset (mrow m i) j x).   (* m[i, j] = x *)
Definition mcol (m : gmat T) (j : idx) : gvec T := GV (mget m i0 j) (mget m i1 j) (mget m i2 j).

Definition gvmap (f : T -> T) (v : gvec T) : gvec T := GV (f (x0 v)) (f (x1 v)) (f (x2 v)).
Definition gvmap2 (f : T -> T -> T) (u v : gvec T) : gvec T := GV (f (x0 u) (x0 v)) (f (x1 u) (x1 v)) (f (x2 u) (x2 v)).
Definition gmmap (f : T -> T) (m : gmat T) : gmat T := GM (gvmap f (r0 m)) (gvmap f (r1 m)) (gvmap f (r2 m)).
Definition gvadd := gvmap2 (tadd O).
Definition gvsub := gvmap2 (tsub O).
Definition gvmulv := gvmap2 (tmul O).             (* elementwise u * v *)
Definition gvdivv := gvmap2 (tdiv O).             (* elementwise u / v *)
Definition gvscale (k : T) (v : gvec T) : gvec T := gvmap (fun x => tmul O x k) v.       (* v * k *)
Definition gvscale_l (k : T) (v : gvec T) : gvec T := gvmap (fun x => tmul O k x) v.     (* k * v *)
Definition gvdivs (v : gvec T) (k : T) : gvec T := gvmap (fun x => tdiv O x k) v.        (* v / k *)
Definition gvsq (v : gvec T) : gvec T := gvmap (fun x => tmul O x x) v.                  (* v ** 2 *)
Definition gvsum (v : gvec T) : T := tadd O (tadd O (x0 v) (x1 v)) (x2 v).               (* sum, left to right *)
Definition gvdot (u v : gvec T) : T := gvsum (gvmulv u v).                               (* numpy.dot(u, v) *)
Definition gmscale (k : T) (m : gmat T) : gmat T := gmmap (fun x => tmul O k x) m.       (* k * m *)
Definition gmscale_r (k : T) (m : gmat T) : gmat T := gmmap (fun x => tmul O x k) m.     (* m * k *)
Definition gmT (m : gmat T) : gmat T := GM (mcol m i0) (mcol m i1) (mcol m i2).
Definition gmvmul (m : gmat T) (v : gvec T) : gvec T := GV (gvdot (r0 m) v) (gvdot (r1 m) v) (gvdot (r2 m) v).   (* dot(M, v) *)
Definition gvmmul (v : gvec T) (m : gmat T) : gvec T := GV (gvdot v (mcol m i0)) (gvdot v (mcol m i1)) (gvdot v (mcol m i2)). (* dot(v, M) *)
Definition gmmul (a b : gmat T) : gmat T := GM (gvmmul (r0 a) b) (gvmmul (r1 a) b) (gvmmul (r2 a) b).             (* dot(A, B) *)
Definition gtrace (m : gmat T) : T := tadd O (tadd O (mget m i0 i0) (mget m i1 i1)) (mget m i2 i2).
Definition gI : gmat T := GM (GV (t1 O) (t0 O) (t0 O)) (GV (t0 O) (t1 O) (t0 O)) (GV (t0 O) (t0 O) (t1 O)).
Definition gzero : gmat T := GM (GV (t0 O) (t0 O) (t0 O)) (GV (t0 O) (t0 O) (t0 O)) (GV (t0 O) (t0 O) (t0 O)).
Definition gvofZ (a b c : Z) : gvec T := GV (tofZ O a) (tofZ O b) (tofZ O c).
End Generic.

(* ---------------- instances ---------------- *)
Definition Rltb (x y : R) : bool := if Rlt_dec x y then true else false.
Definition ROps : ops R := Ops R 0%R 1%R Rplus Rminus Rmult Rdiv Ropp IZR Rabs Rltb.
Definition Qltb (x y : Q) : bool := if Qlt_le_dec x y then true else false.
(* Q operations reduce their results so that long runs stay small *)
Definition QOps : ops Q :=
  Ops Q 0%Q 1%Q (fun x y => Qred (Qplus x y)) (fun x y => Qred (Qminus x y)) (fun x y => Qred (Qmult x y))
      (fun x y => Qred (Qdiv x y)) Qopp inject_Z Qabs Qltb.
Definition FofZ (z : Z) : float :=
  match z with Zneg p => PrimFloat.opp (PrimFloat.of_uint63 (Uint63.of_Z (Zpos p))) | _ => PrimFloat.of_uint63 (Uint63.of_Z z) end.
Definition FOps : ops float :=
  Ops float PrimFloat.zero PrimFloat.one PrimFloat.add PrimFloat.sub PrimFloat.mul PrimFloat.div PrimFloat.opp FofZ PrimFloat.abs PrimFloat.ltb.

Lemma Rltb_true x y : Rltb x y = true <-> (x < y)%R.
Proof. unfold Rltb. destruct (Rlt_dec x y); split; intros; try assumption; try reflexivity; try discriminate; contradiction. Qed.
Lemma Rltb_false x y : Rltb x y = false <-> (y <= x)%R.
Proof. unfold Rltb. destruct (Rlt_dec x y); split; intros; try discriminate; try reflexivity; lra. Qed.

(* ---------------- conversion of the R instance to Base.RMat ---------------- *)
Definition toV (v : gvec R) : vec := V (x0 v) (x1 v) (x2 v).
Definition toM (m : gmat R) : mat :=
  M (x0 (r0 m)) (x1 (r0 m)) (x2 (r0 m)) (x0 (r1 m)) (x1 (r1 m)) (x2 (r1 m)) (x0 (r2 m)) (x1 (r2 m)) (x2 (r2 m)).
Definition ofV (v : vec) : gvec R := GV (v1 v) (v2 v) (v3 v).
Definition ofM (m : mat) : gmat R := GM (GV (a11 m) (a12 m) (a13 m)) (GV (a21 m) (a22 m) (a23 m)) (GV (a31 m) (a32 m) (a33 m)).

Ltac dgv v := destruct v as [? ? ?].
Ltac dgm m := let a := fresh "ra" in let b := fresh "rb" in let c := fresh "rc" in destruct m as [a b c]; dgv a; dgv b; dgv c.
Ltac g_unfold := unfold toM, toV, ofM, ofV, gmmul, gvmmul, gmvmul, gmT, gtrace, gmscale, gmscale_r, gvdot, gvsum, gvmulv, gvdivv, gvadd, gvsub,
  gvscale, gvscale_l, gvdivs, gvsq, gmmap, gvmap2, gvmap, mcol, mget, mset, msetrow, mrow, vget, vset, gI, gzero, gvofZ in *.
Ltac g_simpl := g_unfold; cbn [x0 x1 x2 r0 r1 r2 t0 t1 tadd tsub tmul tdiv topp tofZ tabs tltb ROps] in *.

Lemma toM_ofM m : toM (ofM m) = m. Proof. dmat m; reflexivity. Qed.
Lemma ofM_toM m : ofM (toM m) = m. Proof. dgm m; reflexivity. Qed.
Lemma toV_ofV v : toV (ofV v) = v. Proof. dvec v; reflexivity. Qed.
Lemma ofV_toV v : ofV (toV v) = v. Proof. dgv v; reflexivity. Qed.
Lemma toM_inj a b : toM a = toM b -> a = b.
Proof. intros H. rewrite <- (ofM_toM a), <- (ofM_toM b), H. reflexivity. Qed.
Lemma toV_inj a b : toV a = toV b -> a = b.
Proof. intros H. rewrite <- (ofV_toV a), <- (ofV_toV b), H. reflexivity. Qed.
Lemma toM_gmmul a b : toM (gmmul ROps a b) = mmul (toM a) (toM b).
Proof. dgm a; dgm b; apply mat_eq; g_simpl; rm_simpl; ring. Qed.
Lemma toM_gmT a : toM (gmT a) = mT (toM a).
Proof. dgm a; reflexivity. Qed.
Lemma toM_gmscale k a : toM (gmscale ROps k a) = mscale k (toM a).
Proof. dgm a; reflexivity. Qed.
Lemma gtrace_toM a : gtrace ROps a = mtrace (toM a).
Proof. dgm a; reflexivity. Qed.
Lemma toV_gvmmul v a : toV (gvmmul ROps v a) = vmul (toV v) (toM a).
Proof. dgv v; dgm a; apply vec_eq; g_simpl; rm_simpl; ring. Qed.
Lemma toV_gmvmul a v : toV (gmvmul ROps a v) = mvmul (toM a) (toV v).
Proof. dgv v; dgm a; apply vec_eq; g_simpl; rm_simpl; ring. Qed.
Lemma gvdot_toV u v : gvdot ROps u v = vdot (toV u) (toV v).
Proof. dgv u; dgv v; g_simpl; rm_simpl; ring. Qed.
Lemma toM_gI : toM (gI ROps) = I. Proof. reflexivity. Qed.
