(* C13 - exception-kind semantics of the parser code.

   [kind]   : the finite enumeration of Python exception classes that the primitives used by the
              parsers can raise, plus the abstract base classes that can occur in an `except` clause.
   [parent] : the direct base class (single inheritance chain up to Exception), as in CPython 3 /
              numpy / PyCifRW / diffpy.structure.  vlib/props/c13.py compares this table with the
              __mro__ of the live classes on every run.
   [res]    : result monad  Ok a | Raise k.
   [try_catch m caught h] : Python's  try: m  except (caught...) : h   with subclass matching. *)
From Coq Require Import List Bool Arith.
Import ListNotations.

Inductive kind : Set :=
| ValueError | IndexError | KeyError | TypeError | StopIteration | ZeroDivisionError | OverflowError
| UnboundLocalError | NameError | AttributeError | SyntaxError | AssertionError | RecursionError | MemoryError
| UnicodeError | LinAlgError | LatticeError | SymmetryError | StarError | YappsSyntaxError
| FormatError            (* diffpy.structure.StructureFormatError *)
| NotImplemented         (* NotImplementedError *)
| LookupError | ArithmeticError | RuntimeError | OSError | ExceptionK  (* base classes *).

Definition kind_eq_dec : forall a b : kind, {a = b} + {a <> b}.
Proof. decide equality. Defined.

Definition keqb (a b : kind) : bool := if kind_eq_dec a b then true else false.

Lemma keqb_true : forall a b, keqb a b = true <-> a = b.
Proof. intros a b; unfold keqb; destruct (kind_eq_dec a b); split; intros; congruence. Qed.

Lemma keqb_refl : forall a, keqb a a = true.
Proof. intros; apply keqb_true; reflexivity. Qed.

Definition all_kinds : list kind :=
  [ValueError; IndexError; KeyError; TypeError; StopIteration; ZeroDivisionError; OverflowError;
   UnboundLocalError; NameError; AttributeError; SyntaxError; AssertionError; RecursionError; MemoryError;
   UnicodeError; LinAlgError; LatticeError; SymmetryError; StarError; YappsSyntaxError;
   FormatError; NotImplemented; LookupError; ArithmeticError; RuntimeError; OSError; ExceptionK].

Lemma all_kinds_complete : forall k, In k all_kinds.
Proof. destruct k; simpl; tauto. Qed.

(* direct base class; None for Exception itself *)
Definition parent (k : kind) : option kind :=
  match k with
  | ExceptionK => None
  | IndexError | KeyError => Some LookupError
  | ZeroDivisionError | OverflowError => Some ArithmeticError
  | UnboundLocalError => Some NameError
  | UnicodeError | LinAlgError => Some ValueError
  | NotImplemented | RecursionError => Some RuntimeError
  | _ => Some ExceptionK
  end.

(* k is c or a (transitive) subclass of c; the chains have length <= 3 *)
Fixpoint sub_fuel (n : nat) (k c : kind) : bool :=
  keqb k c ||
  match n with
  | O => false
  | S n' => match parent k with Some p => sub_fuel n' p c | None => false end
  end.

Definition subclass (k c : kind) : bool := sub_fuel 4 k c.

Definition catches (caught : list kind) (k : kind) : bool := existsb (subclass k) caught.

Definition kmem (k : kind) (l : list kind) : bool := existsb (keqb k) l.

Lemma kmem_In : forall k l, kmem k l = true <-> In k l.
Proof.
  intros k l; unfold kmem; rewrite existsb_exists; split.
  - intros [x [Hin He]]. apply keqb_true in He. subst; assumption.
  - intros H; exists k; split; [assumption | apply keqb_refl].
Qed.

Lemma subclass_refl : forall k, subclass k k = true.
Proof. intros k; unfold subclass; simpl; rewrite keqb_refl; reflexivity. Qed.

Lemma catches_member : forall l k, In k l -> catches l k = true.
Proof.
  intros l k H; unfold catches; apply existsb_exists; exists k; split; [assumption | apply subclass_refl].
Qed.

(* ---------------------------------------------------------------------------------------- *)
Inductive res (A : Type) : Type :=
| Ok : A -> res A
| Raise : kind -> res A.
Arguments Ok {A} _.
Arguments Raise {A} _.

Definition ret {A} (a : A) : res A := Ok a.

Definition bind {A B} (m : res A) (f : A -> res B) : res B :=
  match m with Ok a => f a | Raise k => Raise k end.

Notation "x <- m ;; f" := (bind m (fun x => f)) (at level 61, m at next level, right associativity).
Notation "m ;;; f" := (bind m (fun _ => f)) (at level 61, right associativity).

(* try: m   except caught: h   (the handler sees the kind; a handler that re-raises returns Raise) *)
Definition try_catch {A} (m : res A) (caught : list kind) (h : kind -> res A) : res A :=
  match m with
  | Ok a => Ok a
  | Raise k => if catches caught k then h k else Raise k
  end.

(* partial list indexing  l[i]  for i >= 0 *)
Definition idx {A} (l : list A) (i : nat) : res A :=
  match nth_error l i with Some a => Ok a | None => Raise IndexError end.

(* Python's negative-or-positive index on a list of known length *)
Definition assert_that {A} (b : bool) (k : kind) (a : A) : res A := if b then Ok a else Raise k.

(* monadic left fold (a `for` loop whose body may raise) *)
Fixpoint foldM {A S} (f : S -> A -> res S) (l : list A) (s : S) : res S :=
  match l with
  | [] => Ok s
  | a :: l' => bind (f s a) (foldM f l')
  end.

(* map with a raising function, left to right (a list comprehension) *)
Fixpoint mapM {A B} (f : A -> res B) (l : list A) : res (list B) :=
  match l with
  | [] => Ok []
  | a :: l' => bind (f a) (fun b => bind (mapM f l') (fun bs => Ok (b :: bs)))
  end.

(* ---------------------------------------------------------------------------------------- *)
(* the property: only the documented errors escape *)
Definition documented_kinds : list kind := [FormatError; NotImplemented].

Definition documented {A} (r : res A) : Prop :=
  match r with
  | Ok _ => True
  | Raise k => k = FormatError \/ k = NotImplemented
  end.

(* r raises only kinds from ks *)
Definition within {A} (ks : list kind) (r : res A) : Prop :=
  match r with
  | Ok _ => True
  | Raise k => In k ks
  end.

Definition outcome_kind {A} (r : res A) : option kind :=
  match r with Ok _ => None | Raise k => Some k end.

(* decidable inclusion used to discharge the side conditions by computation *)
Definition kincl (a b : list kind) : bool := forallb (fun k => kmem k b) a.

Lemma kincl_incl : forall a b, kincl a b = true -> incl a b.
Proof.
  intros a b H k Hk. unfold kincl in H. rewrite forallb_forall in H. apply kmem_In. apply H. assumption.
Qed.

(* every kind of ks is either caught by the clause or already in ks' *)
Definition handled (ks caught ks' : list kind) : bool :=
  forallb (fun k => catches caught k || kmem k ks') ks.
