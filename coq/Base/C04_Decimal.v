(* C04 - numbers as exact scaled decimals (sign, magnitude N, decimal exponent) and the number
   fields of the structure-file codecs: `%w.pf`, `%wi`, `%g`/`%.Pg` (inside the non-exponent range),
   the float()/int() token grammar restricted to what the writers emit.  Printing rounds the EXACT
   decimal half-to-even, which is what CPython's correctly-rounded `%` formatting does when the
   decimal is the exact expansion of the double.  Library file: definitions with their lemmas. *)
From Coq Require Import List Bool Arith NArith ZArith Lia.
From Coq Require Import Ascii.
From DS Require Import Base.C04_Text.
Import ListNotations.
Open Scope N_scope.

Record dec := Dec { dneg : bool; dmag : N; dexp : nat }.   (* (-1)^dneg * dmag * 10^-dexp *)

Definition pow10 (k : nat) : N := 10 ^ N.of_nat k.

Lemma pow10_S k : pow10 (S k) = 10 * pow10 k.
Proof. unfold pow10. rewrite Nat2N.inj_succ, N.pow_succ_r'. reflexivity. Qed.
Lemma pow10_0 : pow10 0 = 1.
Proof. reflexivity. Qed.
Lemma pow10_pos k : 0 < pow10 k.
Proof. unfold pow10. apply N.neq_0_lt_0. apply N.pow_nonzero. discriminate. Qed.
Lemma pow10_add a b : pow10 (a + b) = pow10 a * pow10 b.
Proof. unfold pow10. rewrite Nat2N.inj_add, N.pow_add_r. reflexivity. Qed.

(* round-half-even division *)
Definition rdiv (n d : N) : N :=
  let q := n / d in let r := n mod d in
  if 2 * r <? d then q else if d <? 2 * r then q + 1 else if N.even q then q else q + 1.

(* mantissa of d rounded to p decimals *)
Definition quantN (p : nat) (d : dec) : N :=
  if (dexp d <=? p)%nat then dmag d * pow10 (p - dexp d) else rdiv (dmag d) (pow10 (dexp d - p)).

(* normal form: no trailing zero in the mantissa unless the exponent is 0 *)
Fixpoint normN (m : N) (e : nat) : N * nat :=
  match e with O => (m, O) | S e' => if m mod 10 =? 0 then normN (m / 10) e' else (m, e) end.
Definition dnorm (d : dec) : dec := let '(m, e) := normN (dmag d) (dexp d) in Dec (dneg d) m e.

(* the value a field printed with p decimals carries *)
Definition dq (p : nat) (d : dec) : dec := dnorm (Dec (dneg d) (quantN p d) p).

Lemma normN_spec m e : let '(m', e') := normN m e in (e' <= e)%nat /\ m = m' * pow10 (e - e') /\ (e' = O \/ m' mod 10 <> 0).
Proof.
  revert m. induction e as [|e IH]; intros m; cbn [normN].
  - split; [lia|]. split; [cbn; lia|left; reflexivity].
  - destruct (m mod 10 =? 0) eqn:E.
    + specialize (IH (m / 10)). destruct (normN (m / 10) e) as [m' e']. destruct IH as [H1 [H2 H3]].
      split; [lia|]. split; [|exact H3].
      replace (S e - e')%nat with (S (e - e')) by lia. rewrite pow10_S.
      apply N.eqb_eq in E. pose proof (N.div_mod m 10 ltac:(discriminate)) as D. rewrite E, N.add_0_r in D.
      rewrite D at 1. rewrite H2. lia.
    + split; [lia|]. split; [rewrite Nat.sub_diag; cbn; lia|]. right. apply N.eqb_neq. exact E.
Qed.

Lemma normN_fix m e : (e = O \/ m mod 10 <> 0) -> normN m e = (m, e).
Proof. intros [->|H]; [reflexivity|]. destruct e; [reflexivity|]. cbn. apply N.eqb_neq in H. rewrite H. reflexivity. Qed.

Lemma dnorm_idem d : dnorm (dnorm d) = dnorm d.
Proof.
  unfold dnorm. pose proof (normN_spec (dmag d) (dexp d)) as H. destruct (normN (dmag d) (dexp d)) as [m e].
  destruct H as [_ [_ H3]]. cbn [dmag dexp dneg]. rewrite (normN_fix _ _ H3). reflexivity.
Qed.

Lemma normN_times10 m e : normN (m * 10) (S e) = normN m e.
Proof. cbn [normN]. rewrite N.mod_mul by discriminate. cbn. rewrite N.div_mul by discriminate. reflexivity. Qed.

Lemma normN_pow10 m e k : normN (m * pow10 k) (e + k) = normN m e.
Proof.
  induction k as [|k IH].
  - rewrite pow10_0, N.mul_1_r, Nat.add_0_r. reflexivity.
  - rewrite pow10_S. replace (e + S k)%nat with (S (e + k)) by lia.
    replace (m * (10 * pow10 k)) with (m * pow10 k * 10) by lia. rewrite normN_times10. exact IH.
Qed.

Lemma dnorm_pow10 s m e k : dnorm (Dec s (m * pow10 k) (e + k)) = dnorm (Dec s m e).
Proof. unfold dnorm. cbn [dmag dexp dneg]. rewrite normN_pow10. reflexivity. Qed.

(* quantising an already quantised (and normalised) value at the same precision is exact *)
Lemma quantN_dnorm s q p : quantN p (dnorm (Dec s q p)) = q.
Proof.
  unfold dnorm. cbn [dmag dexp dneg]. pose proof (normN_spec q p) as H. destruct (normN q p) as [m e].
  destruct H as [H1 [H2 _]]. unfold quantN. cbn [dmag dexp]. apply Nat.leb_le in H1. rewrite H1. symmetry. exact H2.
Qed.

Lemma dneg_dnorm d : dneg (dnorm d) = dneg d.
Proof. unfold dnorm. destruct (normN (dmag d) (dexp d)). reflexivity. Qed.

Lemma dq_idem p d : dq p (dq p d) = dq p d.
Proof. unfold dq. rewrite dneg_dnorm. cbn [dneg]. rewrite quantN_dnorm. reflexivity. Qed.

(* |d - dq p d| <= 10^-p / 2, stated on integers: with N = dmag*10^p (scaled by 10^dexp) *)
Lemma rdiv_error n d : 0 < d -> 2 * n <= 2 * (rdiv n d) * d + d /\ 2 * (rdiv n d) * d <= 2 * n + d.
Proof.
  intros Hd. unfold rdiv. pose proof (N.div_mod n d ltac:(lia)) as D. pose proof (N.mod_lt n d ltac:(lia)) as L.
  set (q := n / d) in *. set (r := n mod d) in *.
  destruct (2 * r <? d) eqn:E1; [apply N.ltb_lt in E1; nia|]. apply N.ltb_ge in E1.
  destruct (d <? 2 * r) eqn:E2; [apply N.ltb_lt in E2; nia|]. apply N.ltb_ge in E2.
  destruct (N.even q); nia.
Qed.

(* fix_quantize_error: the quantised mantissa q at p decimals satisfies |mag*10^p - q*10^e| <= 10^e/2 (e = dexp) *)
Lemma quant_error p d :
  2 * (dmag d * pow10 p) <= 2 * (quantN p d * pow10 (dexp d)) + pow10 (dexp d) /\
  2 * (quantN p d * pow10 (dexp d)) <= 2 * (dmag d * pow10 p) + pow10 (dexp d).
Proof.
  unfold quantN. destruct (dexp d <=? p)%nat eqn:E.
  - apply Nat.leb_le in E. replace (pow10 p) with (pow10 (p - dexp d) * pow10 (dexp d)) by (rewrite <- pow10_add; f_equal; lia).
    pose proof (pow10_pos (dexp d)). nia.
  - apply Nat.leb_gt in E. pose proof (rdiv_error (dmag d) (pow10 (dexp d - p)) (pow10_pos _)) as [H1 H2].
    replace (pow10 (dexp d)) with (pow10 (dexp d - p) * pow10 p) by (rewrite <- pow10_add; f_equal; lia).
    pose proof (pow10_pos p). set (a := pow10 (dexp d - p)) in *. set (b := pow10 p) in *. nia.
Qed.

(* ---- decimal digits ---- *)
Fixpoint ldigs (f : nat) (n : N) : list N :=
  match f with O => [] | S f' => (n mod 10) :: (if n / 10 =? 0 then [] else ldigs f' (n / 10)) end.
Definition digitsN (n : N) : list N := rev (ldigs (S (N.to_nat (N.size n))) n).
Definition lval (l : list N) : N := fold_right (fun d acc => acc * 10 + d) 0 l.
Definition bval (l : list N) : N := fold_left (fun acc d => acc * 10 + d) l 0.
Definition lt10 (k : N) : Prop := k < 10.

Lemma bval_rev l : bval (rev l) = lval l.
Proof. unfold bval, lval. rewrite <- (rev_involutive l) at 2. rewrite fold_left_rev_right. reflexivity. Qed.

Lemma lval_ldigs f n : n < pow10 f -> lval (ldigs f n) = n.
Proof.
  revert n. induction f as [|f IH]; intros n H.
  - rewrite pow10_0 in H. cbn. lia.
  - cbn [ldigs lval fold_right]. rewrite pow10_S in H. pose proof (N.div_mod n 10 ltac:(discriminate)) as D.
    destruct (n / 10 =? 0) eqn:E.
    + apply N.eqb_eq in E. cbn. lia.
    + fold (lval (ldigs f (n / 10))). rewrite IH; [lia|]. apply N.div_lt_upper_bound; [discriminate|lia].
Qed.

Lemma fuel_ok n : n < pow10 (S (N.to_nat (N.size n))).
Proof.
  rewrite pow10_S. unfold pow10. rewrite N2Nat.id. pose proof (N.size_gt n) as H.
  assert (2 ^ N.size n <= 10 ^ N.size n) by (apply N.pow_le_mono_l; lia). lia.
Qed.

Lemma bval_digitsN n : bval (digitsN n) = n.
Proof. unfold digitsN. rewrite bval_rev. apply lval_ldigs. apply fuel_ok. Qed.

Lemma ldigs_lt10 f n : Forall lt10 (ldigs f n).
Proof.
  revert n. induction f as [|f IH]; intros n; cbn; [constructor|]. constructor.
  - apply N.mod_lt. discriminate.
  - destruct (n / 10 =? 0); [constructor|apply IH].
Qed.
Lemma digitsN_lt10 n : Forall lt10 (digitsN n).
Proof. unfold digitsN. apply Forall_rev. apply ldigs_lt10. Qed.
Lemma digitsN_nonnil n : digitsN n <> [].
Proof. unfold digitsN. cbn [ldigs]. intros H. apply (f_equal (@length N)) in H. rewrite rev_length in H. cbn in H. discriminate. Qed.

Lemma bval_app a b : bval (a ++ b) = fold_left (fun acc d => acc * 10 + d) b (bval a).
Proof. unfold bval. apply fold_left_app. Qed.
Lemma fold_zeros k acc : fold_left (fun acc d => acc * 10 + d) (repeat 0 k) acc = acc * pow10 k.
Proof.
  revert acc. induction k as [|k IH]; intros acc; cbn [repeat fold_left].
  - rewrite pow10_0. lia.
  - rewrite IH, pow10_S. lia.
Qed.
Lemma bval_zeros_l k l : bval (repeat 0 k ++ l) = bval l.
Proof. rewrite bval_app. replace (bval (repeat 0 k)) with 0 by (unfold bval; rewrite fold_zeros; lia). reflexivity. Qed.
Lemma bval_zeros_r k l : bval (l ++ repeat 0 k) = bval l * pow10 k.
Proof. rewrite bval_app. apply fold_zeros. Qed.

(* ---- digit characters ---- *)
Definition dchar (k : N) : ascii := ascii_of_N (48 + k).
Definition dval (c : ascii) : option N :=
  let n := codeN c in if (48 <=? n) && (n <=? 57) then Some (n - 48) else None.

Definition minus : ascii := "-"%char.
Definition plus : ascii := "+"%char.
Definition dot : ascii := "."%char.
Definition comma : ascii := ","%char.

Lemma dchar_props k : lt10 k ->
  dval (dchar k) = Some k /\ is_ws (dchar k) = false /\ Ascii.eqb (dchar k) minus = false /\
  Ascii.eqb (dchar k) plus = false /\ Ascii.eqb (dchar k) dot = false /\ Ascii.eqb (dchar k) comma = false /\
  is_crlf (dchar k) = false.
Proof.
  unfold lt10. intros H. assert (In k [0;1;2;3;4;5;6;7;8;9]) as E by (cbn; lia).
  repeat (destruct E as [<-|E]; [repeat split; reflexivity|]). destruct E.
Qed.

Fixpoint dnums (cs : str) : option (list N) :=
  match cs with
  | [] => Some []
  | c :: r => match dval c, dnums r with Some k, Some l => Some (k :: l) | _, _ => None end
  end.

Lemma dnums_map_dchar l : Forall lt10 l -> dnums (map dchar l) = Some l.
Proof.
  induction 1 as [|k l Hk Hl IH]; [reflexivity|]. cbn. destruct (dchar_props k Hk) as [E _]. rewrite E, IH. reflexivity.
Qed.

Lemma no_ws_digits l : Forall lt10 l -> no_ws (map dchar l) = true.
Proof.
  induction 1 as [|k l Hk Hl IH]; [reflexivity|]. cbn. destruct (dchar_props k Hk) as [_ [E _]].
  rewrite E. cbn. exact IH.
Qed.

(* ---- the float() / int() token grammar (restricted: optional sign, digits, optional '.', digits) ---- *)
Fixpoint break_dot (s : str) : str * option str :=
  match s with
  | [] => ([], None)
  | c :: r => if Ascii.eqb c dot then ([], Some r) else let '(a, b) := break_dot r in (c :: a, b)
  end.

Definition parse_unsigned (s : str) : option (N * nat) :=
  let '(ip, fpo) := break_dot s in
  let fp := match fpo with Some f => f | None => [] end in
  match dnums ip, dnums fp with
  | Some i, Some f => if nonempty i || nonempty f then Some (bval (i ++ f), length f) else None
  | _, _ => None
  end.

Definition split_sign (s : str) : bool * str :=
  match s with
  | c :: r => if Ascii.eqb c minus then (true, r) else if Ascii.eqb c plus then (false, r) else (false, s)
  | [] => (false, [])
  end.

Definition parse_float (s : str) : option dec :=
  let '(neg, body) := split_sign (strip s) in
  match parse_unsigned body with Some (m, e) => Some (dnorm (Dec neg m e)) | None => None end.

Definition parse_int (s : str) : option Z :=
  let '(neg, body) := split_sign (strip s) in
  match dnums body with
  | Some (x :: l) => let n := Z.of_N (bval (x :: l)) in Some (if neg then (- n)%Z else n)
  | _ => None
  end.

(* ---- printers ---- *)
Definition zpad (k : nat) (l : list N) : list N := repeat 0 (k - length l) ++ l.
Definition sign_str (neg : bool) : str := if neg then [minus] else [].
(* sign, integer digits, and '.' + fraction digits when there are any *)
Definition body_of (neg : bool) (ip fp : list N) : str :=
  sign_str neg ++ map dchar ip ++ match fp with [] => [] | _ => dot :: map dchar fp end.

Definition fix_digits (p : nat) (d : dec) : list N := zpad (S p) (digitsN (quantN p d)).
Definition fix_body (p : nat) (d : dec) : str :=
  let ds := fix_digits p d in let k := (length ds - p)%nat in body_of (dneg d) (firstn k ds) (skipn k ds).

Definition lpad (w : nat) (s : str) : str := repeat sp (w - length s) ++ s.
Definition rpad (w : nat) (s : str) : str := s ++ repeat sp (w - length s).

(* "%w.pf" *)
Definition print_fix (w p : nat) (d : dec) : str := lpad w (fix_body p d).
(* "%wi", "%i", "%d", str(int) *)
Definition int_body (z : Z) : str := sign_str (z <? 0)%Z ++ map dchar (digitsN (Z.abs_N z)).
Definition print_int (w : nat) (z : Z) : str := lpad w (int_body z).

(* "%.Pg" inside the non-exponent range: number of decimals actually used, None outside the range *)
Definition ndigits (n : N) : nat := length (digitsN n).
Definition gen_decimals (P : nat) (d : dec) : option nat :=
  if dmag d =? 0 then Some O
  else
    let x0 := (Z.of_nat (ndigits (dmag d)) - 1 - Z.of_nat (dexp d))%Z in
    let pd0 := (Z.of_nat P - 1 - x0)%Z in
    if (pd0 <? 0)%Z then None
    else
      let carry := pow10 P <=? quantN (Z.to_nat pd0) d in
      let x := if carry then (x0 + 1)%Z else x0 in
      let pd := if carry then (pd0 - 1)%Z else pd0 in
      if (pd <? 0)%Z || (x <? -4)%Z then None else Some (Z.to_nat pd).

Fixpoint ldropz (l : list N) : list N := match l with 0 :: r => ldropz r | _ => l end.
Definition strip_tz (l : list N) : list N := rev (ldropz (rev l)).

Definition gen_body (pd : nat) (d : dec) : str :=
  let ds := fix_digits pd d in let k := (length ds - pd)%nat in body_of (dneg d) (firstn k ds) (strip_tz (skipn k ds)).
Definition print_gen (P : nat) (d : dec) : option str := option_map (fun pd => gen_body pd d) (gen_decimals P d).
(* the value a "%.Pg" field carries *)
Definition gq (P : nat) (d : dec) : option dec := option_map (fun pd => dq pd d) (gen_decimals P d).

(* ---- field-level theorems ---- *)
Lemma all_ws_spaces k : all_ws (repeat sp k) = true.
Proof. induction k; [reflexivity|]. cbn. exact IHk. Qed.

Lemma zpad_lt10 k l : Forall lt10 l -> Forall lt10 (zpad k l).
Proof.
  intros H. unfold zpad. apply Forall_app. split; [|exact H].
  apply Forall_forall. intros x Hx. apply repeat_spec in Hx. subst. unfold lt10. lia.
Qed.
Lemma fix_digits_lt10 p d : Forall lt10 (fix_digits p d).
Proof. apply zpad_lt10. apply digitsN_lt10. Qed.
Lemma fix_digits_len p d : (S p <= length (fix_digits p d))%nat.
Proof. unfold fix_digits, zpad. rewrite app_length, repeat_length. lia. Qed.
Lemma bval_fix_digits p d : bval (fix_digits p d) = quantN p d.
Proof. unfold fix_digits, zpad. rewrite bval_zeros_l. apply bval_digitsN. Qed.

Lemma Forall_firstn {A} (P : A -> Prop) k l : Forall P l -> Forall P (firstn k l).
Proof. intros H. rewrite <- (firstn_skipn k l) in H. apply Forall_app in H. tauto. Qed.
Lemma Forall_skipn {A} (P : A -> Prop) k l : Forall P l -> Forall P (skipn k l).
Proof. intros H. rewrite <- (firstn_skipn k l) in H. apply Forall_app in H. tauto. Qed.

Lemma no_ws_body neg ip fp : Forall lt10 ip -> Forall lt10 fp -> no_ws (body_of neg ip fp) = true.
Proof.
  intros Hi Hf. unfold body_of, no_ws. rewrite !forallb_app. fold (no_ws (map dchar ip)).
  rewrite (no_ws_digits _ Hi). destruct neg; cbn [sign_str forallb]; destruct fp as [|x fp']; try reflexivity.
  all: cbn [forallb]; fold (no_ws (map dchar (x :: fp'))); rewrite (no_ws_digits _ Hf); reflexivity.
Qed.

Lemma body_nonnil neg ip fp : ip <> [] -> body_of neg ip fp <> [].
Proof. intros H E. unfold body_of in E. apply app_eq_nil in E. destruct E as [_ E]. apply app_eq_nil in E. destruct E as [E _]. destruct ip; [contradiction|discriminate]. Qed.

Lemma break_dot_digits l : Forall lt10 l -> break_dot (map dchar l) = (map dchar l, None).
Proof.
  induction 1 as [|k l Hk Hl IH]; [reflexivity|]. cbn. destruct (dchar_props k Hk) as [_ [_ [_ [_ [E _]]]]].
  rewrite E, IH. reflexivity.
Qed.
Lemma break_dot_mid l r : Forall lt10 l -> break_dot (map dchar l ++ dot :: r) = (map dchar l, Some r).
Proof.
  induction 1 as [|k l Hk Hl IH]; [reflexivity|]. cbn. destruct (dchar_props k Hk) as [_ [_ [_ [_ [E _]]]]].
  rewrite E, IH. reflexivity.
Qed.

Lemma parse_unsigned_body ip fp : Forall lt10 ip -> Forall lt10 fp -> ip <> [] ->
  parse_unsigned (map dchar ip ++ match fp with [] => [] | _ => dot :: map dchar fp end) = Some (bval (ip ++ fp), length fp).
Proof.
  intros Hi Hf Hn. unfold parse_unsigned. destruct fp as [|x fp'].
  - rewrite app_nil_r, (break_dot_digits _ Hi), (dnums_map_dchar _ Hi). cbn [dnums].
    destruct ip; [contradiction|]. reflexivity.
  - rewrite (break_dot_mid _ _ Hi), (dnums_map_dchar _ Hi), (dnums_map_dchar _ Hf).
    destruct ip; [contradiction|]. reflexivity.
Qed.

Lemma split_sign_body neg ip fp : Forall lt10 ip -> ip <> [] ->
  split_sign (body_of neg ip fp) = (neg, map dchar ip ++ match fp with [] => [] | _ => dot :: map dchar fp end).
Proof.
  intros Hi Hn. unfold body_of. destruct neg; cbn [sign_str app split_sign].
  - reflexivity.
  - destruct ip as [|k ip']; [contradiction|]. inversion Hi as [|? ? Hk _]; subst.
    destruct (dchar_props k Hk) as [_ [_ [E1 [E2 _]]]]. cbn [map app split_sign]. rewrite E1, E2. reflexivity.
Qed.

(* any left padding with blanks is transparent to float() *)
Lemma parse_float_body w neg ip fp : Forall lt10 ip -> Forall lt10 fp -> ip <> [] ->
  parse_float (lpad w (body_of neg ip fp)) = Some (dnorm (Dec neg (bval (ip ++ fp)) (length fp))).
Proof.
  intros Hi Hf Hn. unfold parse_float, lpad.
  replace (repeat sp (w - length (body_of neg ip fp)) ++ body_of neg ip fp)
    with (repeat sp (w - length (body_of neg ip fp)) ++ body_of neg ip fp ++ []) by (rewrite app_nil_r; reflexivity).
  rewrite strip_pad_tok by (try apply all_ws_spaces; try reflexivity; apply no_ws_body; assumption).
  rewrite (split_sign_body _ _ _ Hi Hn), (parse_unsigned_body _ _ Hi Hf Hn). reflexivity.
Qed.

Lemma fix_split p d : let ds := fix_digits p d in let k := (length ds - p)%nat in
  Forall lt10 (firstn k ds) /\ Forall lt10 (skipn k ds) /\ firstn k ds <> [] /\ length (skipn k ds) = p /\
  firstn k ds ++ skipn k ds = ds.
Proof.
  intros ds k. pose proof (fix_digits_len p d) as L. pose proof (fix_digits_lt10 p d) as F. fold ds in L, F.
  repeat split.
  - apply Forall_firstn. exact F.
  - apply Forall_skipn. exact F.
  - intros E. apply (f_equal (@length N)) in E. rewrite firstn_length in E. change (length (@nil N)) with O in E.
    unfold k in E. clearbody ds. lia.
  - rewrite skipn_length. unfold k. clearbody ds. lia.
  - apply firstn_skipn.
Qed.

(* fix_roundtrip : float(print "%w.pf") is the value rounded to p decimals, whatever the width *)
Theorem fix_roundtrip w p d : parse_float (print_fix w p d) = Some (dq p d).
Proof.
  unfold print_fix, fix_body. destruct (fix_split p d) as [H1 [H2 [H3 [H4 H5]]]].
  rewrite (parse_float_body _ _ _ _ H1 H2 H3), H5, H4, bval_fix_digits. reflexivity.
Qed.

(* the printed field (without its padding) is one blank-free, non-empty token *)
Lemma fix_body_token p d : no_ws (fix_body p d) = true /\ fix_body p d <> [].
Proof.
  unfold fix_body. destruct (fix_split p d) as [H1 [H2 [H3 _]]]. split; [apply no_ws_body; assumption|apply body_nonnil; assumption].
Qed.

Lemma strip_tz_spec l : exists k, l = strip_tz l ++ repeat 0 k.
Proof.
  unfold strip_tz. assert (forall r, exists k, r = repeat 0 k ++ ldropz r) as K.
  { induction r as [|x r [k E]]; [exists O; reflexivity|]. destruct x as [|px].
    - exists (S k). cbn. f_equal. exact E.
    - exists O. reflexivity. }
  destruct (K (rev l)) as [k E]. exists k.
  rewrite <- (rev_involutive l) at 1. rewrite E at 1. rewrite rev_app_distr. f_equal.
  clear. induction k; [reflexivity|]. cbn. rewrite IHk. clear. induction k; [reflexivity|]. cbn. rewrite <- IHk. reflexivity.
Qed.

Lemma Forall_strip_tz l : Forall lt10 l -> Forall lt10 (strip_tz l).
Proof.
  intros H. destruct (strip_tz_spec l) as [k E]. rewrite E in H. apply Forall_app in H. tauto.
Qed.

(* gen_roundtrip : inside the non-exponent range float(print "%.Pg") is the value rounded to P significant digits *)
Theorem gen_roundtrip w P d s : print_gen P d = Some s -> parse_float (lpad w s) = gq P d /\ gq P d <> None.
Proof.
  unfold print_gen, gq. destruct (gen_decimals P d) as [pd|]; [|discriminate]. cbn [option_map]. intros E. inversion E; subst s; clear E.
  split; [|discriminate]. unfold gen_body. destruct (fix_split pd d) as [H1 [H2 [H3 [H4 H5]]]].
  set (ds := fix_digits pd d) in *. set (k := (length ds - pd)%nat) in *.
  rewrite (parse_float_body _ _ _ _ H1 (Forall_strip_tz _ H2) H3). f_equal. unfold dq.
  destruct (strip_tz_spec (skipn k ds)) as [j Ej].
  assert (bval ds = bval (firstn k ds ++ strip_tz (skipn k ds)) * pow10 j) as Eb.
  { rewrite <- H5 at 1. rewrite Ej at 1. rewrite app_assoc. apply bval_zeros_r. }
  assert (pd = (length (strip_tz (skipn k ds)) + j)%nat) as Ep.
  { rewrite <- H4. rewrite Ej at 1. rewrite app_length, repeat_length. reflexivity. }
  unfold ds in Eb. rewrite bval_fix_digits in Eb. rewrite Eb. rewrite Ep at 3. rewrite dnorm_pow10. reflexivity.
Qed.

Lemma gen_body_token pd d : no_ws (gen_body pd d) = true /\ gen_body pd d <> [].
Proof.
  unfold gen_body. destruct (fix_split pd d) as [H1 [H2 [H3 _]]].
  split; [apply no_ws_body; try assumption; apply Forall_strip_tz; assumption|apply body_nonnil; assumption].
Qed.

(* int fields *)
Lemma int_body_token z : no_ws (int_body z) = true /\ int_body z <> [].
Proof.
  unfold int_body. pose proof (no_ws_body (z <? 0)%Z (digitsN (Z.abs_N z)) [] (digitsN_lt10 _) (Forall_nil _)) as H.
  unfold body_of in H. rewrite app_nil_r in H. split; [exact H|].
  intros E. apply app_eq_nil in E. destruct E as [_ E]. apply map_eq_nil in E. exact (digitsN_nonnil _ E).
Qed.

Theorem int_roundtrip w z : parse_int (print_int w z) = Some z.
Proof.
  unfold parse_int, print_int, lpad. destruct (int_body_token z) as [Hn Hne].
  replace (repeat sp (w - length (int_body z)) ++ int_body z) with (repeat sp (w - length (int_body z)) ++ int_body z ++ [])
    by (rewrite app_nil_r; reflexivity).
  rewrite strip_pad_tok by (try apply all_ws_spaces; try reflexivity; exact Hn).
  pose proof (split_sign_body (z <? 0)%Z (digitsN (Z.abs_N z)) [] (digitsN_lt10 _) (digitsN_nonnil _)) as S.
  unfold body_of in S. rewrite !app_nil_r in S. unfold int_body. rewrite S.
  rewrite (dnums_map_dchar _ (digitsN_lt10 _)). destruct (digitsN (Z.abs_N z)) as [|x l] eqn:E; [exfalso; exact (digitsN_nonnil _ E)|].
  rewrite <- E, bval_digitsN. f_equal. destruct (z <? 0)%Z eqn:Ez.
  - apply Z.ltb_lt in Ez. rewrite N2Z.inj_abs_N. lia.
  - apply Z.ltb_ge in Ez. rewrite N2Z.inj_abs_N. lia.
Qed.

(* the canonical text of an int: str(int(w)) == w *)
Definition is_canonical_int (s : str) : bool :=
  match parse_int s with Some z => str_eqb (int_body z) s | None => false end.
Lemma canonical_int_body z : is_canonical_int (int_body z) = true.
Proof. unfold is_canonical_int. change (int_body z) with (print_int 0 z) at 1. rewrite int_roundtrip. apply str_eqb_refl. Qed.

(* ---- idempotence of the "%.Pg" quantisation (needed for no-drift of the %g formats) ---- *)
Lemma lval_bounds f n : n < pow10 f -> 0 < n -> pow10 (length (ldigs f n) - 1) <= n < pow10 (length (ldigs f n)).
Proof.
  revert n. induction f as [|f IH]; intros n H Hp.
  - rewrite pow10_0 in H. lia.
  - cbn [ldigs]. rewrite pow10_S in H. pose proof (N.div_mod n 10 ltac:(discriminate)) as D.
    pose proof (N.mod_lt n 10 ltac:(discriminate)) as M.
    destruct (n / 10 =? 0) eqn:E.
    + apply N.eqb_eq in E. cbn [length Nat.sub]. rewrite pow10_0. change (pow10 1) with 10. lia.
    + apply N.eqb_neq in E. cbn [length]. assert (n / 10 < pow10 f) as B by (apply N.div_lt_upper_bound; [discriminate|lia]).
      destruct (IH (n / 10) B ltac:(lia)) as [L U].
      set (j := length (ldigs f (n / 10))) in *. replace (S j - 1)%nat with j by lia.
      destruct j as [|j].
      * rewrite pow10_0 in U. lia.
      * replace (S j - 1)%nat with j in L by lia. rewrite !pow10_S in *.
        clear IH. set (P := pow10 j) in *. set (q := n / 10) in *. set (r := n mod 10) in *. clearbody P q r. lia.
Qed.

Lemma ndigits_bounds n : 0 < n -> pow10 (ndigits n - 1) <= n < pow10 (ndigits n).
Proof. intros H. unfold ndigits, digitsN. rewrite rev_length. apply lval_bounds; [apply fuel_ok|exact H]. Qed.

Lemma pow10_lt_mono a b : (a < b)%nat -> pow10 a < pow10 b.
Proof. intros H. unfold pow10. apply N.pow_lt_mono_r; lia. Qed.
Lemma pow10_le_mono a b : (a <= b)%nat -> pow10 a <= pow10 b.
Proof. intros H. unfold pow10. apply N.pow_le_mono_r; lia. Qed.

Lemma ndigits_unique n k : pow10 (k - 1) <= n < pow10 k -> 0 < n -> (0 < k)%nat -> ndigits n = k.
Proof.
  intros [L U] Hn Hk. destruct (ndigits_bounds n Hn) as [L' U'].
  assert (0 < ndigits n)%nat as Hd by (unfold ndigits; pose proof (digitsN_nonnil n); destruct (digitsN n); [contradiction|cbn; lia]).
  destruct (Nat.lt_trichotomy (ndigits n) k) as [C|[C|C]]; [|exact C|].
  - assert (pow10 (ndigits n) <= pow10 (k - 1)) by (apply pow10_le_mono; lia). lia.
  - assert (pow10 k <= pow10 (ndigits n - 1)) by (apply pow10_le_mono; lia). lia.
Qed.
