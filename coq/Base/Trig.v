(* Degrees-based cosine and sine as lattice.py defines them, with the facts the proofs need. *)
From Coq Require Import Reals Lra.
Open Scope R_scope.

Definition cosd (x : R) : R := cos (x * PI / 180).
Definition sind (x : R) : R := cosd (90 - x).     (* lattice.py: sind(x) = cosd(90.0 - x) *)

Lemma sind_is_sin x : sind x = sin (x * PI / 180).
Proof.
  unfold sind, cosd. replace ((90 - x) * PI / 180) with (PI / 2 - x * PI / 180) by field.
  apply cos_shift.
Qed.

Lemma sc1 x : sind x * sind x + cosd x * cosd x = 1.
Proof. rewrite sind_is_sin. unfold cosd. pose proof (sin2_cos2 (x * PI / 180)) as H. unfold Rsqr in H. exact H. Qed.

Lemma deg_range x : 0 < x < 180 -> 0 < x * PI / 180 < PI.
Proof.
  intros [H1 H2]. pose proof PI_RGT_0 as HP. split.
  - apply Rmult_lt_0_compat; [apply Rmult_lt_0_compat; lra | lra].
  - replace PI with (180 * PI / 180) at 2 by field. unfold Rdiv. apply Rmult_lt_compat_r; [lra|].
    apply Rmult_lt_compat_r; lra.
Qed.

Lemma sind_pos x : 0 < x < 180 -> 0 < sind x.
Proof. intros H. rewrite sind_is_sin. apply sin_gt_0; apply deg_range; exact H. Qed.

Lemma cosd_90 : cosd 90 = 0.
Proof. unfold cosd. replace (90 * PI / 180) with (PI / 2) by field. apply cos_PI2. Qed.
Lemma cosd_120 : cosd 120 = - (1 / 2).
Proof. unfold cosd. replace (120 * PI / 180) with (2 * (PI / 3)) by field. rewrite cos_2PI3. lra. Qed.
Lemma cosd_60 : cosd 60 = 1 / 2.
Proof. unfold cosd. replace (60 * PI / 180) with (PI / 3) by field. apply cos_PI3. Qed.
Lemma cosd_0 : cosd 0 = 1.
Proof. unfold cosd. replace (0 * PI / 180) with 0 by field. apply cos_0. Qed.
Lemma cosd_180 : cosd 180 = -1.
Proof. unfold cosd. replace (180 * PI / 180) with PI by field. apply cos_PI. Qed.

Lemma cosd_decr x y : 0 < x < 180 -> 0 < y < 180 -> x < y -> cosd y < cosd x.
Proof.
  intros Hx Hy Hlt. unfold cosd. pose proof (deg_range x Hx). pose proof (deg_range y Hy). pose proof PI_RGT_0.
  apply cos_decreasing_1; try lra.
  unfold Rdiv. apply Rmult_lt_compat_r; [lra|]. apply Rmult_lt_compat_r; lra.
Qed.

Lemma cosd_inj x y : 0 < x < 180 -> 0 < y < 180 -> cosd x = cosd y -> x = y.
Proof.
  intros Hx Hy E. destruct (Rtotal_order x y) as [L|[L|L]]; [|exact L|].
  - pose proof (cosd_decr x y Hx Hy L). lra.
  - pose proof (cosd_decr y x Hy Hx L). lra.
Qed.

Lemma cosd_eq0 x : 0 < x < 180 -> cosd x = 0 -> x = 90.
Proof. intros Hx E. apply cosd_inj; [exact Hx | lra | rewrite cosd_90; exact E]. Qed.
Lemma cosd_eq_mhalf x : 0 < x < 180 -> cosd x = - (1 / 2) -> x = 120.
Proof. intros Hx E. apply cosd_inj; [exact Hx | lra | rewrite cosd_120; exact E]. Qed.
