(* C04 - text layer shared by the codec models: character strings as lists of [ascii],
   Python's whitespace set, [str.split()], [str.strip()], ASCII upper/lower, join/split on a
   character, and the text <-> lines wrapper of StructureParser.tostring / StructureParser.parse.
   Definitions and their lemmas live together here because this is a library (Base), not a model. *)
From Coq Require Import List Bool Arith NArith Lia.
From Coq Require Import Ascii.
Import ListNotations.
Open Scope N_scope.

Definition str := list ascii.

Definition codeN (c : ascii) : N := N_of_ascii c.

(* str.isspace() restricted to code points < 128: TAB LF VT FF CR, FS GS RS US, SPACE *)
Definition is_ws (c : ascii) : bool :=
  let n := codeN c in ((9 <=? n) && (n <=? 13)) || ((28 <=? n) && (n <=? 32)).

Definition sp : ascii := " "%char.
Definition nl : ascii := "010"%char.
Definition cr : ascii := "013"%char.

Definition no_ws (s : str) : bool := forallb (fun c => negb (is_ws c)) s.
Definition all_ws (s : str) : bool := forallb is_ws s.
Definition nonempty {A} (t : list A) : bool := match t with [] => false | _ => true end.

(* ---- str.split() : split at every whitespace character, then drop the empty pieces ---- *)
Fixpoint toks (s : str) : list str :=
  match s with
  | [] => [[]]
  | c :: r => if is_ws c then [] :: toks r
              else match toks r with t :: ts => (c :: t) :: ts | [] => [[c]] end
  end.
Definition split_ws (s : str) : list str := filter nonempty (toks s).

Lemma toks_nonnil s : toks s <> [].
Proof. destruct s as [|c r]; cbn; [discriminate|]. destruct (is_ws c); [discriminate|]. destruct (toks r); discriminate. Qed.

Lemma toks_ws_mid r c s2 : is_ws c = true -> toks (r ++ c :: s2) = toks r ++ toks s2.
Proof.
  intros Hc. induction r as [|a r IH]; cbn.
  - rewrite Hc. reflexivity.
  - rewrite IH. destruct (is_ws a); [reflexivity|].
    destruct (toks r) as [|t ts] eqn:E; [exfalso; exact (toks_nonnil r E)|]. reflexivity.
Qed.

Lemma toks_no_ws t : no_ws t = true -> toks t = [t].
Proof.
  induction t as [|a t IH]; cbn; [reflexivity|]. intros H. apply andb_true_iff in H. destruct H as [Ha Ht].
  destruct (is_ws a); [discriminate|]. rewrite (IH Ht). reflexivity.
Qed.

Lemma split_tok t : no_ws t = true -> t <> [] -> split_ws t = [t].
Proof. intros H Hn. unfold split_ws. rewrite (toks_no_ws t H). cbn. destruct t; [contradiction|reflexivity]. Qed.

Lemma split_nil : split_ws [] = [].
Proof. reflexivity. Qed.

Lemma split_ws_cons c s : is_ws c = true -> split_ws (c :: s) = split_ws s.
Proof. intros H. unfold split_ws. cbn. rewrite H. reflexivity. Qed.

Lemma split_all_ws p : all_ws p = true -> split_ws p = [].
Proof.
  induction p as [|a p IH]; [reflexivity|]. intros H. cbn [all_ws forallb] in H. apply andb_true_iff in H. destruct H as [Ha Hp].
  rewrite (split_ws_cons _ _ Ha). exact (IH Hp).
Qed.

Lemma split_mid r c s2 : is_ws c = true -> split_ws (r ++ c :: s2) = split_ws r ++ split_ws s2.
Proof. intros H. unfold split_ws. rewrite (toks_ws_mid _ _ _ H). apply filter_app. Qed.

Definition starts_ws (s : str) : bool := match s with c :: _ => is_ws c | [] => false end.
Definition ends_ws (s : str) : bool := starts_ws (rev s).

(* split distributes over a concatenation whose seam is at whitespace (or at an empty side) *)
Lemma split_app s1 s2 :
  starts_ws s2 = true \/ ends_ws s1 = true \/ s1 = [] \/ s2 = [] ->
  split_ws (s1 ++ s2) = split_ws s1 ++ split_ws s2.
Proof.
  intros [H|[H|[H|H]]].
  - destruct s2 as [|c s2]; [discriminate|]. cbn in H. rewrite (split_mid _ _ _ H), (split_ws_cons _ _ H). reflexivity.
  - unfold ends_ws in H. destruct (rev s1) as [|c r] eqn:E; [discriminate|]. cbn in H.
    assert (s1 = rev r ++ [c]) as -> by (rewrite <- (rev_involutive s1), E; reflexivity).
    rewrite <- app_assoc. cbn. rewrite !(split_mid _ _ _ H). cbn. rewrite app_nil_r. reflexivity.
  - subst. reflexivity.
  - subst. rewrite !app_nil_r. reflexivity.
Qed.

(* padding ++ token, and token ++ padding *)
Lemma split_pad_tok p t : all_ws p = true -> no_ws t = true -> t <> [] -> split_ws (p ++ t) = [t].
Proof.
  intros Hp Ht Hn. induction p as [|a p IH]; [cbn; apply split_tok; assumption|].
  cbn [all_ws forallb] in Hp. apply andb_true_iff in Hp. destruct Hp as [Ha Hp].
  change ((a :: p) ++ t) with (a :: (p ++ t)). rewrite (split_ws_cons _ _ Ha). exact (IH Hp).
Qed.

Lemma split_tok_pad t p : all_ws p = true -> no_ws t = true -> t <> [] -> split_ws (t ++ p) = [t].
Proof.
  intros Hp Ht Hn. destruct p as [|c p']; [rewrite app_nil_r; apply split_tok; assumption|].
  cbn in Hp. apply andb_true_iff in Hp. destruct Hp as [Hc Hp].
  rewrite (split_mid _ _ _ Hc), (split_tok _ Ht Hn), (split_all_ws _ Hp). reflexivity.
Qed.

(* ---- str.strip(), lstrip(), rstrip() on whitespace ---- *)
Fixpoint lstrip (s : str) : str := match s with c :: r => if is_ws c then lstrip r else s | [] => [] end.
Definition rstrip (s : str) : str := rev (lstrip (rev s)).
Definition strip (s : str) : str := rstrip (lstrip s).

Lemma lstrip_pad p t : all_ws p = true -> starts_ws t = false -> lstrip (p ++ t) = t.
Proof.
  induction p as [|a p IH]; cbn; intros Hp Ht.
  - destruct t as [|c t]; [reflexivity|]. cbn in *. rewrite Ht. reflexivity.
  - apply andb_true_iff in Hp. destruct Hp as [Ha Hp]. rewrite Ha. apply IH; assumption.
Qed.

Lemma lstrip_id t : starts_ws t = false -> lstrip t = t.
Proof. intros H. exact (lstrip_pad [] t eq_refl H). Qed.

Lemma rstrip_id t : ends_ws t = false -> rstrip t = t.
Proof. intros H. unfold rstrip. rewrite lstrip_id by exact H. apply rev_involutive. Qed.

Lemma rstrip_pad t p : all_ws p = true -> ends_ws t = false -> rstrip (t ++ p) = t.
Proof.
  intros Hp Ht. unfold rstrip. rewrite rev_app_distr. rewrite lstrip_pad.
  - apply rev_involutive.
  - unfold all_ws in *. rewrite forallb_forall in *. intros x Hx. apply Hp. apply in_rev. exact Hx.
  - exact Ht.
Qed.

Lemma lstrip_all_ws s : all_ws s = true -> lstrip s = [].
Proof.
  induction s as [|a s IH]; [reflexivity|]. intros H. cbn [all_ws forallb] in H. apply andb_true_iff in H.
  destruct H as [Ha Hs]. cbn. rewrite Ha. exact (IH Hs).
Qed.
Lemma strip_all_ws s : all_ws s = true -> strip s = [].
Proof. intros H. unfold strip. rewrite (lstrip_all_ws _ H). reflexivity. Qed.
Lemma all_ws_app a b : all_ws (a ++ b) = all_ws a && all_ws b.
Proof. apply forallb_app. Qed.

Lemma strip_pad_tok_pad p t q :
  all_ws p = true -> all_ws q = true -> starts_ws t = false -> ends_ws t = false -> strip (p ++ t ++ q) = t.
Proof.
  intros Hp Hq H1 H2. destruct t as [|c t'].
  - apply strip_all_ws. cbn. rewrite all_ws_app, Hp, Hq. reflexivity.
  - unfold strip. rewrite lstrip_pad; [apply rstrip_pad; assumption|exact Hp|exact H1].
Qed.

Lemma no_ws_ends t : no_ws t = true -> ends_ws t = false.
Proof.
  intros H. unfold ends_ws. destruct (rev t) as [|c r] eqn:E; [reflexivity|]. cbn.
  unfold no_ws in H. rewrite forallb_forall in H. specialize (H c).
  assert (In c t) as Hin by (apply in_rev; rewrite E; left; reflexivity). specialize (H Hin).
  destruct (is_ws c); [discriminate|reflexivity].
Qed.
Lemma no_ws_starts t : no_ws t = true -> starts_ws t = false.
Proof. destruct t as [|c t]; [reflexivity|]. cbn. intros H. apply andb_true_iff in H. destruct H as [H _]. destruct (is_ws c); [discriminate|reflexivity]. Qed.

Lemma strip_pad_tok p t q : all_ws p = true -> all_ws q = true -> no_ws t = true -> strip (p ++ t ++ q) = t.
Proof. intros. apply strip_pad_tok_pad; auto using no_ws_ends, no_ws_starts. Qed.

(* strip is idempotent and its result never starts/ends with whitespace *)
Lemma lstrip_starts s : starts_ws (lstrip s) = false.
Proof. induction s as [|c r IH]; [reflexivity|]. cbn. destruct (is_ws c) eqn:E; [exact IH|]. cbn. exact E. Qed.

Lemma lstrip_idem s : lstrip (lstrip s) = lstrip s.
Proof. apply lstrip_id. apply lstrip_starts. Qed.

Lemma rstrip_ends s : ends_ws (rstrip s) = false.
Proof. unfold ends_ws, rstrip. rewrite rev_involutive. apply lstrip_starts. Qed.

Lemma lstrip_suffix s : exists p, all_ws p = true /\ s = p ++ lstrip s.
Proof.
  induction s as [|c r [p [Hp E]]]; [exists []; split; reflexivity|]. cbn. destruct (is_ws c) eqn:Ec.
  - exists (c :: p). split; [change (is_ws c && all_ws p = true); rewrite Ec, Hp; reflexivity|]. cbn. f_equal. exact E.
  - exists []. split; reflexivity.
Qed.

Lemma rstrip_prefix s : exists q, all_ws q = true /\ s = rstrip s ++ q.
Proof.
  destruct (lstrip_suffix (rev s)) as [p [Hp E]]. exists (rev p). split.
  - unfold all_ws in *. rewrite forallb_forall in *. intros x Hx. apply Hp. apply in_rev. exact Hx.
  - unfold rstrip. rewrite <- rev_app_distr, <- E. symmetry. apply rev_involutive.
Qed.

Lemma starts_ws_rstrip s : starts_ws s = false -> starts_ws (rstrip s) = false.
Proof.
  intros H. destruct (rstrip_prefix s) as [q [Hq E]]. destruct (rstrip s) as [|c r] eqn:Er; [reflexivity|].
  rewrite E in H. cbn in *. exact H.
Qed.

Lemma strip_idem s : strip (strip s) = strip s.
Proof.
  unfold strip at 1. rewrite lstrip_id.
  - unfold strip. apply rstrip_id. apply rstrip_ends.
  - unfold strip. apply starts_ws_rstrip. apply lstrip_starts.
Qed.

Lemma strip_starts s : starts_ws (strip s) = false.
Proof. unfold strip. apply starts_ws_rstrip. apply lstrip_starts. Qed.
Lemma strip_ends s : ends_ws (strip s) = false.
Proof. unfold strip. apply rstrip_ends. Qed.

Lemma strip_decompose s : exists p q, all_ws p = true /\ all_ws q = true /\ s = p ++ strip s ++ q.
Proof.
  destruct (lstrip_suffix s) as [p [Hp E1]]. destruct (rstrip_prefix (lstrip s)) as [q [Hq E2]].
  exists p, q. repeat split; try assumption. unfold strip. rewrite <- E2. exact E1.
Qed.

(* a string that does not start or end with whitespace is its own strip *)
Lemma strip_id t : starts_ws t = false -> ends_ws t = false -> strip t = t.
Proof. intros H1 H2. unfold strip. rewrite lstrip_id by assumption. apply rstrip_id. assumption. Qed.

(* ---- ASCII case mapping (str.upper/lower restricted to code points < 128) ---- *)
Definition upper (c : ascii) : ascii :=
  let n := codeN c in if (97 <=? n) && (n <=? 122) then ascii_of_N (n - 32) else c.
Definition lower (c : ascii) : ascii :=
  let n := codeN c in if (65 <=? n) && (n <=? 90) then ascii_of_N (n + 32) else c.
(* w[0].upper() + w[1:].lower() *)
Definition capitalize (s : str) : str := match s with c :: r => upper c :: map lower r | [] => [] end.
Definition is_ascii7 (c : ascii) : bool := codeN c <? 128.

Lemma ascii_forall (P : ascii -> bool) :
  forallb P (map (fun n => ascii_of_N (N.of_nat n)) (seq 0 256)) = true -> forall c, P c = true.
Proof.
  intros H c. rewrite forallb_forall in H. apply H. apply in_map_iff.
  exists (nat_of_ascii c). split.
  - unfold nat_of_ascii. rewrite N2Nat.id. apply ascii_N_embedding.
  - apply in_seq. pose proof (nat_ascii_bounded c). lia.
Qed.

Lemma lower_upper_lower c : lower (upper (lower c)) = lower c.
Proof. apply Ascii.eqb_eq. revert c. apply ascii_forall. vm_compute. reflexivity. Qed.
Lemma lower_upper c : lower (upper c) = lower c.
Proof. apply Ascii.eqb_eq. revert c. apply ascii_forall. vm_compute. reflexivity. Qed.
Lemma upper_upper c : upper (upper c) = upper c.
Proof. apply Ascii.eqb_eq. revert c. apply ascii_forall. vm_compute. reflexivity. Qed.
Lemma lower_lower c : lower (lower c) = lower c.
Proof. apply Ascii.eqb_eq. revert c. apply ascii_forall. vm_compute. reflexivity. Qed.
Lemma upper_lower_upper c : upper (lower (upper c)) = upper c.
Proof. apply Ascii.eqb_eq. revert c. apply ascii_forall. vm_compute. reflexivity. Qed.
Lemma is_ws_upper c : is_ws (upper c) = is_ws c.
Proof. apply Bool.eqb_prop. revert c. apply ascii_forall. vm_compute. reflexivity. Qed.
Lemma is_ws_lower c : is_ws (lower c) = is_ws c.
Proof. apply Bool.eqb_prop. revert c. apply ascii_forall. vm_compute. reflexivity. Qed.

(* capitalize (map upper s) = capitalize s : what the pdffit/discus writers+readers do to an element *)
Lemma capitalize_upper s : capitalize (map upper s) = capitalize s.
Proof.
  destruct s as [|c r]; [reflexivity|]. cbn. rewrite upper_upper. f_equal.
  rewrite map_map. apply map_ext. intros a. apply lower_upper.
Qed.
Lemma capitalize_idem s : capitalize (capitalize s) = capitalize s.
Proof.
  destruct s as [|c r]; [reflexivity|]. cbn. rewrite upper_upper. f_equal.
  rewrite map_map. apply map_ext. intros a. apply lower_lower.
Qed.
Lemma no_ws_map_upper s : no_ws (map upper s) = no_ws s.
Proof. induction s as [|c r IH]; [reflexivity|]. change (negb (is_ws (upper c)) && no_ws (map upper r) = negb (is_ws c) && no_ws r). rewrite is_ws_upper, IH. reflexivity. Qed.
Lemma no_ws_map_lower s : no_ws (map lower s) = no_ws s.
Proof. induction s as [|c r IH]; [reflexivity|]. change (negb (is_ws (lower c)) && no_ws (map lower r) = negb (is_ws c) && no_ws r). rewrite is_ws_lower, IH. reflexivity. Qed.
Lemma no_ws_capitalize s : no_ws (capitalize s) = no_ws s.
Proof.
  destruct s as [|c r]; [reflexivity|].
  change (negb (is_ws (upper c)) && no_ws (map lower r) = negb (is_ws c) && no_ws r).
  rewrite is_ws_upper, no_ws_map_lower. reflexivity.
Qed.

(* ---- string equality ---- *)
Fixpoint str_eqb (a b : str) : bool :=
  match a, b with
  | [], [] => true
  | x :: a', y :: b' => Ascii.eqb x y && str_eqb a' b'
  | _, _ => false
  end.
Lemma str_eqb_eq a b : str_eqb a b = true <-> a = b.
Proof.
  revert b. induction a as [|x a IH]; destruct b as [|y b]; cbn; try (split; [discriminate|discriminate]); [tauto|].
  rewrite andb_true_iff, Ascii.eqb_eq, IH. split; [intros [-> ->]; reflexivity|intros E; inversion E; tauto].
Qed.
Lemma str_eqb_refl a : str_eqb a a = true.
Proof. apply str_eqb_eq. reflexivity. Qed.

(* ---- join / split on one character; text <-> lines ---- *)
Fixpoint join (sep : str) (ls : list str) : str :=
  match ls with [] => [] | [l] => l | l :: rest => l ++ sep ++ join sep rest end.

Fixpoint splitc (c : ascii) (s : str) : list str :=
  match s with
  | [] => [[]]
  | a :: r => if Ascii.eqb a c then [] :: splitc c r
              else match splitc c r with t :: ts => (a :: t) :: ts | [] => [[a]] end
  end.

Definition has_char (c : ascii) (s : str) : bool := existsb (Ascii.eqb c) s.

Lemma splitc_nonnil c s : splitc c s <> [].
Proof. destruct s as [|a r]; cbn; [discriminate|]. destruct (Ascii.eqb a c); [discriminate|]. destruct (splitc c r); discriminate. Qed.

Lemma splitc_none c t : has_char c t = false -> splitc c t = [t].
Proof.
  induction t as [|a t IH]; cbn; [reflexivity|]. intros H. apply orb_false_iff in H. destruct H as [Ha Ht].
  rewrite Ascii.eqb_sym, Ha. rewrite (IH Ht). reflexivity.
Qed.

Lemma splitc_mid c r s2 : has_char c r = false -> splitc c (r ++ c :: s2) = r :: splitc c s2.
Proof.
  induction r as [|a r IH]; cbn; intros H.
  - rewrite Ascii.eqb_refl. reflexivity.
  - apply orb_false_iff in H. destruct H as [Ha Hr]. rewrite Ascii.eqb_sym, Ha. rewrite (IH Hr). reflexivity.
Qed.

Lemma splitc_join c ls : ls <> [] -> forallb (fun l => negb (has_char c l)) ls = true -> splitc c (join [c] ls) = ls.
Proof.
  induction ls as [|l rest IH]; [contradiction|]. intros _ H. cbn in H. apply andb_true_iff in H. destruct H as [Hl Hr].
  apply negb_true_iff in Hl. destruct rest as [|l2 rest'].
  - cbn. apply splitc_none. exact Hl.
  - change (join [c] (l :: l2 :: rest')) with (l ++ c :: join [c] (l2 :: rest')).
    rewrite (splitc_mid _ _ _ Hl). f_equal. apply IH; [discriminate|exact Hr].
Qed.

(* StructureParser.tostring : "\n".join(lines) + "\n" *)
Definition text_of_lines (ls : list str) : str := join [nl] ls ++ [nl].
(* StructureParser.parse : s.rstrip("\r\n").split("\n") *)
Definition is_crlf (c : ascii) : bool := Ascii.eqb c nl || Ascii.eqb c cr.
Fixpoint ldrop (f : ascii -> bool) (s : str) : str := match s with c :: r => if f c then ldrop f r else s | [] => [] end.
Definition rstrip_crlf (s : str) : str := rev (ldrop is_crlf (rev s)).
Definition lines_of_text (t : str) : list str := splitc nl (rstrip_crlf t).

Definition last_char_ok (l : str) : bool := match rev l with c :: _ => negb (is_crlf c) | [] => false end.

Lemma rstrip_crlf_ok s : last_char_ok s = true -> rstrip_crlf (s ++ [nl]) = s.
Proof.
  unfold last_char_ok, rstrip_crlf. intros H. rewrite rev_app_distr. cbn.
  destruct (rev s) as [|c r] eqn:E; [discriminate|]. cbn. apply negb_true_iff in H. rewrite H.
  rewrite <- E. apply rev_involutive.
Qed.

Lemma last_char_join ls l : last_char_ok l = true -> last_char_ok (join [nl] (ls ++ [l])) = true.
Proof.
  intros H. induction ls as [|a ls IH]; [exact H|].
  destruct (ls ++ [l]) as [|b rest] eqn:E; [destruct ls; discriminate|].
  change (join [nl] ((a :: ls) ++ [l])) with (join [nl] (a :: ls ++ [l])). rewrite E.
  change (join [nl] (a :: b :: rest)) with (a ++ [nl] ++ join [nl] (b :: rest)).
  unfold last_char_ok in *. rewrite !rev_app_distr.
  destruct (rev (join [nl] (b :: rest))) as [|c r]; [discriminate|]. cbn. exact IH.
Qed.

(* the wrapper is the identity on line lists whose last line ends in a character other than CR/LF
   and whose lines contain no LF *)
Lemma lines_text_roundtrip ls l :
  forallb (fun x => negb (has_char nl x)) (ls ++ [l]) = true -> last_char_ok l = true ->
  lines_of_text (text_of_lines (ls ++ [l])) = ls ++ [l].
Proof.
  intros Hn Hl. unfold lines_of_text, text_of_lines.
  rewrite rstrip_crlf_ok by (apply last_char_join; exact Hl).
  apply splitc_join; [destruct ls; discriminate|exact Hn].
Qed.
