(* The record a tabulated space-group setting is translated into. *)
From Coq Require Import ZArith List String.
From DS Require Import Base.ZMat.
Import ListNotations.

Definition symop := (m3 * v3)%type.   (* rotation, translation * 12 *)

Record setting := {
  sg_number : Z;
  sg_nse : Z;            (* num_sym_equiv *)
  sg_npse : Z;           (* num_primitive_sym_equiv *)
  sg_short : string;     (* short_name *)
  sg_pg : string;        (* point_group_name *)
  sg_system : string;    (* crystal_system *)
  sg_pdb : string;       (* pdb_name *)
  sg_ops : list symop
}.
