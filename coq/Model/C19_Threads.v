(* C19 - lazily built space-group lookup tables used from several threads.
   Executable model only: shared dictionaries, atomic actions, the builder/reader IR that
   translate/c19_lazy.py regenerates from spacegroups.py, its compilation to command trees,
   the thread pool and the scheduler.  Proofs are in Proofs/C19_Linearizable.v.

   Granularity: ONE scheduler step = ONE operation on a module-level (shared) dictionary.
   Operations on a builder's local dictionary are thread-private and take no step. *)
From Coq Require Import ZArith List Bool.
Import ListNotations.
Open Scope Z_scope.

Definition key := Z.
Definition val := Z.
Definition table := list (key * val).

Fixpoint find (x : key) (t : table) : option val :=
  match t with [] => None | (a, b) :: t' => if a =? x then Some b else find x t' end.
Definition mem (x : key) (t : table) : bool := match find x t with Some _ => true | None => false end.
Fixpoint set_item (t : table) (x : key) (v : val) : table :=
  match t with
  | [] => [(x, v)]
  | (a, b) :: t' => if a =? x then (x, v) :: t' else (a, b) :: set_item t' x v
  end.
Definition set_default (t : table) (x : key) (v : val) : table := if mem x t then t else set_item t x v.
Definition update (t l : table) : table := fold_left (fun acc kv => set_item acc (fst kv) (snd kv)) l t.
Definition is_empty (t : table) : bool := match t with [] => true | _ => false end.
Definition tlen (t : table) : Z := Z.of_nat (List.length t).

(* the two module-level dictionaries: _sg_lookup_table and _sg_hash_lookup_table *)
Inductive gid := GId | GHash.
Definition gid_eqb (a b : gid) : bool :=
  match a, b with GId, GId | GHash, GHash => true | _, _ => false end.
Definition shared := gid -> table.
Definition upd_shared (s : shared) (g : gid) (t : table) : shared := fun g' => if gid_eqb g' g then t else s g'.
Definition empty_shared : shared := fun _ => [].

Inductive result :=
| Found (v : val)      (* a SpaceGroup object, identified by its index in SpaceGroupList *)
| NotFound             (* ValueError *)
| KeyErr               (* KeyError *)
| AssertErr            (* AssertionError *)
| RecErr               (* unbounded recursion of the getter *)
| RBool (b : bool)
| RNone.

(* command trees: every node is one atomic action on a shared dictionary *)
Inductive cmd :=
| Ret (r : result)
| AIsEmpty (g : gid) (k : bool -> cmd)
| AContains (g : gid) (x : key) (k : bool -> cmd)
| ALookup (g : gid) (x : key) (k : option val -> cmd)
| ALen (g : gid) (k : Z -> cmd)
| AClear (g : gid) (k : cmd)
| ASetDefault (g : gid) (x : key) (v : val) (k : cmd)
| ASetItem (g : gid) (x : key) (v : val) (k : cmd)
| APublish (g : gid) (l : table) (k : cmd).

Definition act (s : shared) (c : cmd) : shared * cmd :=
  match c with
  | Ret r => (s, Ret r)
  | AIsEmpty g k => (s, k (is_empty (s g)))
  | AContains g x k => (s, k (mem x (s g)))
  | ALookup g x k => (s, k (find x (s g)))
  | ALen g k => (s, k (tlen (s g)))
  | AClear g k => (upd_shared s g [], k)
  | ASetDefault g x v k => (upd_shared s g (set_default (s g) x v), k)
  | ASetItem g x v k => (upd_shared s g (set_item (s g) x v), k)
  | APublish g l k => (upd_shared s g (update (s g) l), k)
  end.

(* ---------- IR regenerated from spacegroups.py ---------- *)
Inductive tref := TShared (g : gid) | TLocal.
Inductive fillmode := FDefault (* d.setdefault(k, v) *) | FSet (* d[k] = v *).
Inductive bstmt :=
| BClear (t : tref)                          (* t.clear() *)
| BNewLocal                                  (* table = {} *)
| BFill (t : tref) (m : fillmode) (src : nat)  (* for sg in SpaceGroupList: one write per key of loop src *)
| BAlias (t rd : tref)                       (* for a, hm in alias_hmname: t.setdefault(a, rd[hm]) *)
| BAssertNoNone (t : tref)                   (* assert None not in t *)
| BAssertLen (t : tref)                      (* assert len(t) == len(SpaceGroupList) *)
| BPublish (g : gid).                        (* g.update(table) *)
Inductive btail := TailReturn | TailRecurse.
Record builder := { b_guard : bool;          (* function starts with `if G: return G` *)
                    b_stmts : list bstmt;
                    b_tail : btail }.

Inductive rstmt :=
| RGuardBuild (g : gid)           (* if not G: build_G() *)
| RCall (g : gid)                 (* tb = getter_G()   (or an unconditional build_G()) *)
| RTry (g : gid) (i : nat)        (* if cand_i in G: return G[cand_i] *)
| RStrGuard                       (* if not isinstance(sgid, str): raise ValueError *)
| RMissRaise (g : gid) (i : nat)  (* if cand_i not in G: raise ValueError *)
| RRetLookup (g : gid) (i : nat)  (* rv = G[cand_i]; ...; return rv *)
| RRaise.                         (* raise ValueError *)

Record prog := { p_build : gid -> builder;
                 p_get : list rstmt;      (* GetSpaceGroup *)
                 p_find : list rstmt }.   (* FindSpaceGroup; IsSpaceGroupIdentifier = GetSpaceGroup wrapped *)

(* the data the loops run over: arbitrary lists *)
Record data := { d_entries : nat -> list (key * val);   (* (key, value) writes of loop number src, in order *)
                 d_aliases : list (key * key);          (* (alias, key it copies from) *)
                 d_none : key;                          (* the key standing for None *)
                 d_len : Z }.                           (* len(SpaceGroupList) *)

Definition write (m : fillmode) (t : table) (x : key) (v : val) : table :=
  match m with FDefault => set_default t x v | FSet => set_item t x v end.

Fixpoint fill (t : tref) (m : fillmode) (es : list (key * val)) (loc : table) (k : table -> cmd) : cmd :=
  match es with
  | [] => k loc
  | (a, v) :: es' =>
      match t with
      | TShared g => match m with
                     | FDefault => ASetDefault g a v (fill t m es' loc k)
                     | FSet => ASetItem g a v (fill t m es' loc k)
                     end
      | TLocal => fill t m es' (write m loc a v) k
      end
  end.

Fixpoint alias (t rd : tref) (al : list (key * key)) (loc : table) (k : table -> cmd) : cmd :=
  match al with
  | [] => k loc
  | (a, hm) :: al' =>
      let cont := fun (o : option val) =>
        match o with
        | None => Ret KeyErr
        | Some v => match t with
                    | TShared g => ASetDefault g a v (alias t rd al' loc k)
                    | TLocal => alias t rd al' (set_default loc a v) k
                    end
        end in
      match rd with
      | TShared g => ALookup g hm cont
      | TLocal => cont (find hm loc)
      end
  end.

Definition exec_stmt (d : data) (s : bstmt) (loc : table) (k : table -> cmd) : cmd :=
  match s with
  | BClear (TShared g) => AClear g (k loc)
  | BClear TLocal => k []
  | BNewLocal => k []
  | BFill t m src => fill t m (d_entries d src) loc k
  | BAlias t rd => alias t rd (d_aliases d) loc k
  | BAssertNoNone (TShared g) => AContains g (d_none d) (fun b => if b then Ret AssertErr else k loc)
  | BAssertNoNone TLocal => if mem (d_none d) loc then Ret AssertErr else k loc
  | BAssertLen (TShared g) => ALen g (fun n => if n =? d_len d then k loc else Ret AssertErr)
  | BAssertLen TLocal => if tlen loc =? d_len d then k loc else Ret AssertErr
  | BPublish g => APublish g loc (k loc)
  end.

Fixpoint exec_stmts (d : data) (ss : list bstmt) (loc : table) (k : table -> cmd) : cmd :=
  match ss with
  | [] => k loc
  | s :: ss' => exec_stmt d s loc (fun loc' => exec_stmts d ss' loc' k)
  end.

Definition body (d : data) (b : builder) (after : cmd) : cmd := exec_stmts d (b_stmts b) [] (fun _ => after).

(* calling the builder of table g, then continuing with k.  A self-recursive tail
   (`return _getSGHashLookupTable()`) is unrolled once: a table still empty at that point
   would recurse without bound. *)
Definition run_builder (p : prog) (d : data) (g : gid) (k : cmd) : cmd :=
  let b := p_build p g in
  let after := match b_tail b with
               | TailReturn => k
               | TailRecurse => if b_guard b then AIsEmpty g (fun e => if e then Ret RecErr else k) else Ret RecErr
               end in
  if b_guard b then AIsEmpty g (fun e => if e then body d b after else k) else body d b after.

Definition found (o : option val) : result := match o with Some v => Found v | None => KeyErr end.

Fixpoint exec_r (p : prog) (d : data) (rs : list rstmt) (cands : list key) (is_str : bool) (fin : result -> result) : cmd :=
  match rs with
  | [] => Ret (fin RNone)
  | RGuardBuild g :: rs' =>
      AIsEmpty g (fun e => if e then run_builder p d g (exec_r p d rs' cands is_str fin) else exec_r p d rs' cands is_str fin)
  | RCall g :: rs' => run_builder p d g (exec_r p d rs' cands is_str fin)
  | RTry g i :: rs' =>
      match nth_error cands i with
      | None => exec_r p d rs' cands is_str fin
      | Some x => AContains g x (fun b => if b then ALookup g x (fun o => Ret (fin (found o))) else exec_r p d rs' cands is_str fin)
      end
  | RStrGuard :: rs' => if is_str then exec_r p d rs' cands is_str fin else Ret (fin NotFound)
  | RMissRaise g i :: rs' =>
      match nth_error cands i with
      | None => Ret (fin NotFound)
      | Some x => AContains g x (fun b => if b then exec_r p d rs' cands is_str fin else Ret (fin NotFound))
      end
  | RRetLookup g i :: _ =>
      match nth_error cands i with
      | None => Ret (fin NotFound)
      | Some x => ALookup g x (fun o => Ret (fin (found o)))
      end
  | RRaise :: _ => Ret (fin NotFound)
  end.

Inductive call :=
| CGet (cands : list key) (is_str : bool)    (* GetSpaceGroup(sgid): candidate keys sgid, short-name form, pdb-name form *)
| CIsId (cands : list key) (is_str : bool)   (* IsSpaceGroupIdentifier(sgid) *)
| CFind (h : key).                           (* FindSpaceGroup(symops): h = _hashSymOpList(symops) *)

Definition as_bool (r : result) : result :=
  match r with Found _ => RBool true | NotFound => RBool false | other => other end.

Definition compile (p : prog) (d : data) (c : call) : cmd :=
  match c with
  | CGet cands s => exec_r p d (p_get p) cands s (fun r => r)
  | CIsId cands s => exec_r p d (p_get p) cands s as_bool
  | CFind h => exec_r p d (p_find p) [h] true (fun r => r)
  end.

(* ---------- threads and schedules ---------- *)
Record thread := { t_cur : option cmd;      (* None: all calls done; Some c: c is never a Ret *)
                   t_todo : list call;
                   t_done : list result }.

(* finish bookkeeping: record a returned result and load the next call *)
Fixpoint settle (p : prog) (d : data) (c : cmd) (todo : list call) (done : list result) : thread :=
  match c with
  | Ret r => match todo with
             | [] => {| t_cur := None; t_todo := []; t_done := done ++ [r] |}
             | c' :: todo' => settle p d (compile p d c') todo' (done ++ [r])
             end
  | _ => {| t_cur := Some c; t_todo := todo; t_done := done |}
  end.

Definition start (p : prog) (d : data) (cs : list call) : thread :=
  match cs with
  | [] => {| t_cur := None; t_todo := []; t_done := [] |}
  | c :: cs' => settle p d (compile p d c) cs' []
  end.

Record world := { w_shared : shared; w_threads : list thread }.

Fixpoint set_nth {A} (l : list A) (n : nat) (x : A) : list A :=
  match l, n with
  | [], _ => []
  | _ :: l', O => x :: l'
  | a :: l', S n' => a :: set_nth l' n' x
  end.

Definition sched_step (p : prog) (d : data) (w : world) (tid : nat) : world :=
  match nth_error (w_threads w) tid with
  | None => w
  | Some th =>
      match t_cur th with
      | None => w
      | Some c => let (s', c') := act (w_shared w) c in
                  {| w_shared := s'; w_threads := set_nth (w_threads w) tid (settle p d c' (t_todo th) (t_done th)) |}
      end
  end.

Definition init (p : prog) (d : data) (css : list (list call)) : world :=
  {| w_shared := empty_shared; w_threads := map (start p d) css |}.

Definition run (p : prog) (d : data) (css : list (list call)) (sched : list nat) : world :=
  fold_left (sched_step p d) sched (init p d css).

Definition results (w : world) : list (list result) := map t_done (w_threads w).
Definition all_finished (w : world) : bool :=
  forallb (fun th => match t_cur th with None => true | Some _ => false end) (w_threads w).

(* ---------- the safe shape ---------- *)
Definition local_only (s : bstmt) : bool :=
  match s with
  | BClear TLocal | BNewLocal | BFill TLocal _ _ | BAlias TLocal TLocal
  | BAssertNoNone TLocal | BAssertLen TLocal => true
  | _ => false
  end.

(* "fill a LOCAL dictionary, then one Publish" *)
Definition builder_safe (g : gid) (b : builder) : bool :=
  match b_stmts b with
  | BNewLocal :: rest =>
      match rev rest with
      | BPublish g' :: rmids => gid_eqb g' g && forallb local_only rmids
      | _ => false
      end
  | _ => false
  end
  && match b_tail b with TailReturn => true | TailRecurse => b_guard b end.

Definition kset (K : gid -> bool) (g : gid) : gid -> bool := fun g' => gid_eqb g' g || K g'.
Definition knone : gid -> bool := fun _ => false.

(* readers test emptiness (or call the getter) before they use a table *)
Fixpoint reader_safe (rs : list rstmt) (K : gid -> bool) : bool :=
  match rs with
  | [] => true
  | RGuardBuild g :: rs' | RCall g :: rs' => reader_safe rs' (kset K g)
  | RTry g _ :: rs' | RMissRaise g _ :: rs' => K g && reader_safe rs' K
  | RStrGuard :: rs' => reader_safe rs' K
  | RRetLookup g _ :: _ => K g
  | RRaise :: _ => true
  end.

Definition safe_shape (p : prog) : bool :=
  builder_safe GId (p_build p GId) && builder_safe GHash (p_build p GHash)
  && reader_safe (p_get p) knone && reader_safe (p_find p) knone.

(* ---------- sequential meaning: the pure build and lookups on the finished tables ---------- *)
Inductive bres := BOk (t : table) | BErr (r : result).

Fixpoint pure_alias (al : list (key * key)) (loc : table) : bres :=
  match al with
  | [] => BOk loc
  | (a, hm) :: al' => match find hm loc with
                      | None => BErr KeyErr
                      | Some v => pure_alias al' (set_default loc a v)
                      end
  end.

Definition pure_stmt (d : data) (s : bstmt) (loc : table) : bres :=
  match s with
  | BClear _ | BNewLocal => BOk []
  | BFill _ m src => BOk (fold_left (fun t kv => write m t (fst kv) (snd kv)) (d_entries d src) loc)
  | BAlias _ _ => pure_alias (d_aliases d) loc
  | BAssertNoNone _ => if mem (d_none d) loc then BErr AssertErr else BOk loc
  | BAssertLen _ => if tlen loc =? d_len d then BOk loc else BErr AssertErr
  | BPublish _ => BOk loc
  end.

Fixpoint pure_stmts (d : data) (ss : list bstmt) (loc : table) : bres :=
  match ss with
  | [] => BOk loc
  | s :: ss' => match pure_stmt d s loc with BOk loc' => pure_stmts d ss' loc' | BErr r => BErr r end
  end.

(* the dictionary a builder publishes when it runs alone *)
Definition local_of (p : prog) (d : data) (g : gid) : bres := pure_stmts d (b_stmts (p_build p g)) [].
Definition loc_table (p : prog) (d : data) (g : gid) : table :=
  match local_of p d g with BOk t => t | BErr _ => [] end.
Definition full (p : prog) (d : data) : shared := fun g => update [] (loc_table p d g).
Definition build_ok (p : prog) (d : data) : bool :=
  forallb (fun g => match local_of p d g with BOk (_ :: _) => true | _ => false end) [GId; GHash].

Fixpoint pure_r (f : shared) (rs : list rstmt) (cands : list key) (is_str : bool) : result :=
  match rs with
  | [] => RNone
  | RGuardBuild _ :: rs' | RCall _ :: rs' => pure_r f rs' cands is_str
  | RTry g i :: rs' =>
      match nth_error cands i with
      | None => pure_r f rs' cands is_str
      | Some x => if mem x (f g) then found (find x (f g)) else pure_r f rs' cands is_str
      end
  | RStrGuard :: rs' => if is_str then pure_r f rs' cands is_str else NotFound
  | RMissRaise g i :: rs' =>
      match nth_error cands i with
      | None => NotFound
      | Some x => if mem x (f g) then pure_r f rs' cands is_str else NotFound
      end
  | RRetLookup g i :: _ => match nth_error cands i with None => NotFound | Some x => found (find x (f g)) end
  | RRaise :: _ => NotFound
  end.

(* what a call returns in a single-threaded program once the tables are complete *)
Definition answer (p : prog) (d : data) (c : call) : result :=
  match c with
  | CGet cands s => pure_r (full p d) (p_get p) cands s
  | CIsId cands s => as_bool (pure_r (full p d) (p_get p) cands s)
  | CFind h => pure_r (full p d) (p_find p) [h] true
  end.

(* ---------- the shape of the code as pinned (in-place fill), kept for the refutation ---------- *)
Definition inplace_prog : prog :=
  {| p_build := fun g => match g with
       | GId => {| b_guard := false;
                   b_stmts := [BClear (TShared GId); BFill (TShared GId) FDefault 0; BFill (TShared GId) FDefault 1;
                               BAlias (TShared GId) (TShared GId); BAssertNoNone (TShared GId)];
                   b_tail := TailReturn |}
       | GHash => {| b_guard := true;
                     b_stmts := [BFill (TShared GHash) FSet 2; BAssertLen (TShared GHash)];
                     b_tail := TailRecurse |}
       end;
     p_get := [RGuardBuild GId; RTry GId 0; RStrGuard; RTry GId 1; RTry GId 2; RRaise];
     p_find := [RCall GHash; RMissRaise GHash 0; RRetLookup GHash 0] |}.

(* the repaired shape: local fill, one publish *)
Definition publish_prog : prog :=
  {| p_build := fun g => match g with
       | GId => {| b_guard := false;
                   b_stmts := [BNewLocal; BFill TLocal FDefault 0; BFill TLocal FDefault 1;
                               BAlias TLocal TLocal; BAssertNoNone TLocal; BPublish GId];
                   b_tail := TailReturn |}
       | GHash => {| b_guard := true;
                     b_stmts := [BNewLocal; BFill TLocal FSet 2; BAssertLen TLocal; BPublish GHash];
                     b_tail := TailReturn |}
       end;
     p_get := [RGuardBuild GId; RTry GId 0; RStrGuard; RTry GId 1; RTry GId 2; RRaise];
     p_find := [RCall GHash; RMissRaise GHash 0; RRetLookup GHash 0] |}.

(* a two-entry instance: groups 1 and 2 under keys 11,12 / 21,22, alias 30 -> 21, hashes 101,102 *)
Definition tiny_data : data :=
  {| d_entries := fun n => match n with
                           | O => [(11, 1); (12, 1); (21, 2); (22, 2)]
                           | S O => [(13, 1); (23, 2)]
                           | S (S O) => [(101, 1); (102, 2)]
                           | _ => []
                           end;
     d_aliases := [(30, 21)];
     d_none := 0;
     d_len := 2 |}.
