(* C16 - the self-mutating statements of Structure.read / readStr on the C08 heap model.

   The target object, the parser's result object, their atoms and their lattice objects live in one
   C08 world (Model/C08_StructHeap.v): the items of an object are heap atom identities, the `_lattice`
   of an object is the `lat` field of its OStruct (NOT a dictionary entry), an atom's lattice reference
   is `c_lat` of its cell.  Everything is written with the C08 primitives alloc_lat / relat / install /
   new_struct / set_obj.  What has no heap content (title, pdffit, xcfg, other instance entries) is kept
   as a C16 instance dictionary and handled by the transformers of Model/C16_ReadWriteTxn.v.
   The interpreter `hrun_read` runs the SAME generated statement lists (Gen/C16_RW.v); statements with
   no effect on the heap state (getParser, the parse call, getattr) are skipped: the result of the parse
   is part of the initial heap state.  No proofs in this file. *)
From Coq Require Import List ZArith Bool Arith.
From Coq Require Import Ascii String.
From DS Require Import Model.C08_StructHeap.
From DS Require Model.C16_ReadWriteTxn Gen.C16_RW.
Import ListNotations.
Module T := C16_ReadWriteTxn.
Open Scope nat_scope.

Record hstate := mkHS {
  hs_world : world;
  hs_self : hid;                    (* the target object *)
  hs_new : option hid;              (* the parser's result object (None: the parser returned None) *)
  hs_new_meta : T.dict;             (* its instance entries other than _lattice *)
  hs_meta : T.obj;                  (* class and instance entries other than _lattice of the target (o_items unused) *)
  hs_latnone : bool;                (* the target's _lattice entry is None (its lat field is then meaningless) *)
  hs_cells : list (lid * Z);        (* cell (interned) of the lattice objects *)
  hs_sg : option Z }.               (* the parser's spacegroup after the parse *)

Definition with_world (s : hstate) (w : world) : hstate :=
  mkHS w (hs_self s) (hs_new s) (hs_new_meta s) (hs_meta s) (hs_latnone s) (hs_cells s) (hs_sg s).
Definition with_meta (s : hstate) (m : T.obj) : hstate :=
  mkHS (hs_world s) (hs_self s) (hs_new s) (hs_new_meta s) m (hs_latnone s) (hs_cells s) (hs_sg s).

Definition cell_of (cells : list (lid * Z)) (L : lid) : Z :=
  match find (fun p => Nat.eqb (fst p) L) cells with Some p => snd p | None => 0%Z end.

(* the non-heap part of the parser's result, as the abstract model wants it *)
Definition new_parsed (s : hstate) : T.parsed :=
  {| T.p_cls := T.CStructure; T.p_items := []; T.p_inst := hs_new_meta s |}.

(* ---------- the statements ---------- *)

(* self.__dict__.pop(name, None) *)
Definition h_drop (a : string) (s : hstate) : hstate :=
  if String.eqb a "_lattice"
  then mkHS (hs_world s) (hs_self s) (hs_new s) (hs_new_meta s) (hs_meta s) true (hs_cells s) (hs_sg s)
  else with_meta s (T.drop_inst a (hs_meta s)).

(* Structure.__init__(self): atoms, lattice, title, filename are None, so only
   `elif self.lattice is None: self.lattice = Lattice()` can act: a new lattice object, assigned
   through the property setter (every member atom is re-pointed, then the container) *)
Definition h_init (dcell : Z) (s : hstate) : hstate :=
  if hs_latnone s
  then let '(L, w1) := alloc_lat (hs_world s) in
       mkHS (relat (hs_self s) L w1) (hs_self s) (hs_new s) (hs_new_meta s) (hs_meta s) false
            ((L, dcell) :: hs_cells s) (hs_sg s)
  else s.

(* if new_structure is None: new_structure = Structure()   (C08: step current NewStruct) *)
Definition h_default_new (dcell : Z) (s : hstate) : hstate :=
  match hs_new s with
  | Some _ => s
  | None =>
      let '(L, w1) := alloc_lat (hs_world s) in
      let '(h, w2) := new_struct L [] None w1 in
      mkHS w2 (hs_self s) (Some h) [] (hs_meta s) (hs_latnone s) ((L, dcell) :: hs_cells s) (hs_sg s)
  end.

(* self.__dict__.update(new_structure.__dict__): the _lattice ENTRY is stored directly - the lat field
   of the target changes, its atoms are not touched; the other entries go into the dictionary *)
Definition h_update (s : hstate) : hstate :=
  match hs_new s with
  | Some nh =>
      match get_struct (hs_world s) (hs_self s), get_struct (hs_world s) nh with
      | Some (its, _), Some (_, Ln) =>
          mkHS (set_obj (hs_self s) (OStruct its Ln) (hs_world s)) (hs_self s) (hs_new s) (hs_new_meta s)
               (T.update_dict (new_parsed s) (hs_meta s)) false (hs_cells s) (hs_sg s)
      | _, _ => s
      end
  | None => s
  end.

(* self[:] = new_structure  (Structure.__setitem__ with a slice, copy=True): members of self are kept,
   everything else is copied; all get a.lattice = self.lattice; the whole item list is replaced.
   Proofs/C16_HeapBridge.v shows that this is step current (SetSlice self [::] new true) of C08. *)
Definition setall_srcs (old vitems : list aid) : list src :=
  map (fun a => if memb a old then Keep a else Dup a) vitems.
Definition h_setall_world (h v : hid) (w : world) : world :=
  match get_struct w h, get_obj w v with
  | Some (old, _), Some vo => install h (setall_srcs old (obj_items vo)) (ERange 0 (List.length old)) w
  | _, _ => w
  end.
Definition h_setall (s : hstate) : hstate :=
  match hs_new s with
  | Some nh => with_world s (h_setall_world (hs_self s) nh (hs_world s))
  | None => s
  end.

Definition h_title (t : Z) (s : hstate) : hstate := with_meta s (T.default_title t (hs_meta s)).
Definition h_restore (d : list (string * Z)) (s : hstate) : hstate := with_meta s (T.restore_pdffit d (hs_meta s)).
Definition h_spcgr (s : hstate) : option hstate :=
  match hs_sg s with
  | None => Some s
  | Some g => match T.update_spcgr g (hs_meta s) with Some m => Some (with_meta s m) | None => None end
  end.

(* ---------- interpreter over the generated lists ---------- *)
(* None = the statement raised (or is not a statement of a read) *)
Fixpoint hstep0 (E : T.env) (G : T.args) (e : T.effect) (s : hstate) : option hstate :=
  match e with
  | T.EImport | T.EGetParser | T.EParse | T.EParseFile | T.EGetSpacegroup => Some s
  | T.EDefaultNewStructure => Some (h_default_new (T.e_default_cell E) s)
  | T.EDropInst a => Some (h_drop a s)
  | T.EInitSelf => Some (h_init (T.e_default_cell E) s)
  | T.EGuardParsed e' => match hs_new s with Some _ => hstep0 E G e' s | None => Some s end
  | T.EUpdateDict => match hs_new s with Some _ => Some (h_update s) | None => None end
  | T.ESetAllItems => match hs_new s with Some _ => Some (h_setall s) | None => None end
  | T.EDefaultTitleFromFilename => Some (h_title (T.e_title_of E (T.g_filename G)) s)
  | T.ERestoreDefaultPdffit => Some (h_restore (T.e_default_pdffit E) s)
  | T.EUpdateSpcgr => h_spcgr s
  | _ => None
  end.

Fixpoint hrun_with (step : T.effect -> hstate -> option hstate) (l : list T.effect) (s : hstate) : option hstate :=
  match l with
  | [] => Some s
  | e :: r => if T.is_return e then Some s
              else match step e s with Some s' => hrun_with step r s' | None => None end
  end.
Definition hrun0 (E : T.env) (G : T.args) := hrun_with (hstep0 E G).
Definition hstep1 (E : T.env) (G : T.args) (br bs : list T.effect) (e : T.effect) (s : hstate) : option hstate :=
  match e with
  | T.EBaseRead => hrun0 E G br s
  | T.EBaseReadStr => hrun0 E G bs s
  | _ => hstep0 E G e s
  end.
Definition hrun1 (E : T.env) (G : T.args) (br bs : list T.effect) := hrun_with (hstep1 E G br bs).

Definition hrun_read (E : T.env) (G : T.args) (c : T.cls) (en : T.entry) : hstate -> option hstate :=
  match c, en with
  | T.CStructure, T.ReadFile => hrun0 E G C16_RW.structure_read
  | T.CStructure, T.ReadStr => hrun0 E G C16_RW.structure_readstr
  | T.CPDFFit, T.ReadFile => hrun1 E G C16_RW.structure_read C16_RW.structure_readstr C16_RW.pdffit_read
  | T.CPDFFit, T.ReadStr => hrun1 E G C16_RW.structure_read C16_RW.structure_readstr C16_RW.pdffit_readstr
  end.

(* ---------- what is observed of a heap state ---------- *)
Definition self_items (s : hstate) : list aid :=
  match get_struct (hs_world s) (hs_self s) with Some (its, _) => its | None => [] end.
Definition self_lat (s : hstate) : option lid :=
  match get_struct (hs_world s) (hs_self s) with Some (_, L) => Some L | None => None end.
Definition new_items (s : hstate) : list aid :=
  match hs_new s with
  | Some nh => match get_struct (hs_world s) nh with Some (its, _) => its | None => [] end
  | None => []
  end.
Definition new_lat (s : hstate) : option lid :=
  match hs_new s with
  | Some nh => match get_struct (hs_world s) nh with Some (_, L) => Some L | None => None end
  | None => None
  end.
Definition self_payloads (s : hstate) : list pay := map (tag_of (hs_world s)) (self_items s).
Definition new_payloads (s : hstate) : list pay := map (tag_of (hs_world s)) (new_items s).
Definition self_cell (s : hstate) : option Z := option_map (cell_of (hs_cells s)) (self_lat s).
Definition new_cell (s : hstate) : option Z := option_map (cell_of (hs_cells s)) (new_lat s).
(* every item of the target refers to the target's lattice object *)
Definition points_b (s : hstate) : bool :=
  match get_struct (hs_world s) (hs_self s) with
  | Some (its, L) => forallb (fun a => opt_nat_eqb (lat_of (hs_world s) a) (Some L)) its
  | None => false
  end.

(* a brand-new target in an existing world: Structure() / PDFFitStructure() *)
Definition fresh_target (E : T.env) (c : T.cls) (w : world) : hid * world :=
  let '(L, w1) := alloc_lat w in new_struct L [] None w1.
Definition fresh_meta (E : T.env) (c : T.cls) : T.obj :=
  {| T.o_cls := c; T.o_items := [];
     T.o_inst := match c with T.CStructure => [] | T.CPDFFit => [("pdffit"%string, T.VDict (T.e_default_pdffit E))] end |}.
