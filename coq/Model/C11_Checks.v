(* Boolean decisions over the regenerated tables and lookup code (finite, evaluated by the kernel). *)
From Coq Require Import ZArith List Bool String.
From DS Require Import Base.ZMat Base.SGDefs Model.C11_LookupDefs Gen.SGTables Gen.LookupSpec.
Import ListNotations.
Open Scope Z_scope.

Definition the_table : option table := build_table all_settings builder.
Definition with_table (f : table -> bool) : bool := match the_table with Some T => f T | None => false end.

Definition num_ok (T : table) (s : setting) : bool :=
  match get_space_group T (KNum (sg_number s)), get_space_group T (KStr (py_str_of_Z (sg_number s))) with
  | Some a, Some b => (sg_number a =? sg_number s) && (sg_number b =? sg_number s) | _, _ => false end.
Definition name_ok (T : table) (n : string) : bool :=
  forallb (fun v => match get_space_group T (KStr v) with Some s' => carries s' n | None => false end) (variants n).
Definition names_ok (T : table) (s : setting) : bool := name_ok T (sg_short s) && name_ok T (sg_pdb s).
(* exact spelling returns a setting carrying exactly that string *)
Definition exact_ok (T : table) (s : setting) : bool :=
  forallb (fun n => match get_space_group T (KStr n) with
                    | Some s' => String.eqb (sg_short s') n || String.eqb (sg_pdb s') n | None => false end) [sg_short s; sg_pdb s].
Definition aliases_of (b : list phase) : list (string * string) :=
  flat_map (fun p => match p with PAliases al => al | _ => [] end) b.
Definition alias_ok (T : table) (ah : string * string) : bool :=
  forallb (fun v => match get_space_group T (KStr v) with Some s => carries s (snd ah) | None => false end)
          [fst ah; py_lower (fst ah); py_upper (fst ah); (" " ++ fst ah ++ " ")%string].
Definition unknown_ids : list key :=
  [KNum 0; KNum (-1); KNum 231; KNum 999; KStr ""; KStr " "; KStr "P"; KStr "P1x"; KStr "Fm-3x"; KStr "P 1 1"; KStr "x,y,z"; KStr "None";
   KStr "230.0"; KStr "1e2"; KStr "Pm3mm"; KStr "PG1"; KStr "PGm3barm"; KStr "0"; KStr "-1"; KStr "0225"]%string.
Definition unknown_ok (T : table) : bool := forallb (fun k => match get_space_group T k with None => true | Some _ => false end) unknown_ids.

Fixpoint fps_nodup (l : list (list (list Z))) : bool :=
  match l with [] => true | x :: r => negb (existsb (fp_eqb x) r) && fps_nodup r end.
Definition fingerprints_distinct : bool := fps_nodup (map (fun s => fingerprint (sg_ops s)) all_settings).
