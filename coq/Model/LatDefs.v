(* The Lattice object as a record of its cached attributes, and the numpy idioms the translator emits. *)
From Coq Require Import Reals.
From DS Require Import Base.RMat Base.Trig.
Open Scope R_scope.

Record lat := {
  l_a : R; l_b : R; l_c : R; l_alpha : R; l_beta : R; l_gamma : R;
  l_ca : R; l_cb : R; l_cg : R; l_sa : R; l_sb : R; l_sg : R;
  l_ar : R; l_br : R; l_cr : R; l_alphar : R; l_betar : R; l_gammar : R;
  l_car : R; l_cbr : R; l_cgr : R; l_sar : R; l_sbr : R; l_sgr : R;
  l_baserot : mat; l_base : mat; l_recbase : mat; l_normbase : mat; l_recnormbase : mat;
  l_metrics : mat; l_stdbase : mat; l_isotropicunit : mat
}.

(* A * [[x],[y],[z]] : row i multiplied by the i-th scalar *)
Definition mrowscale (m : mat) (x y z : R) : mat :=
  M (a11 m * x) (a12 m * x) (a13 m * x) (a21 m * y) (a22 m * y) (a23 m * y) (a31 m * z) (a32 m * z) (a33 m * z).
(* A / [x, y, z] : column j divided by the j-th scalar *)
Definition mcoldiv (m : mat) (x y z : R) : mat :=
  M (a11 m / x) (a12 m / y) (a13 m / z) (a21 m / x) (a22 m / y) (a23 m / z) (a31 m / x) (a32 m / y) (a33 m / z).
Definition mset11 (m : mat) (v : R) : mat := M v (a12 m) (a13 m) (a21 m) (a22 m) (a23 m) (a31 m) (a32 m) (a33 m).
Definition mset22 (m : mat) (v : R) : mat := M (a11 m) (a12 m) (a13 m) (a21 m) v (a23 m) (a31 m) (a32 m) (a33 m).
Definition mset33 (m : mat) (v : R) : mat := M (a11 m) (a12 m) (a13 m) (a21 m) (a22 m) (a23 m) (a31 m) (a32 m) v.
Definition vhad (u v : vec) : vec := V (v1 u * v1 v) (v2 u * v2 v) (v3 u * v3 v).    (* elementwise product *)
Definition vsum (u : vec) : R := v1 u + v2 u + v3 u.                                  (* .sum(axis=-1) *)
Definition acosd (x : R) : R := acos x * 180 / PI.                                    (* math.degrees(math.acos(x)) *)

(* the attribute state a fresh object has before its first setLatPar/setLatBase; never read by setLatBase *)
Definition lat0 : lat :=
  {| l_a := 0; l_b := 0; l_c := 0; l_alpha := 0; l_beta := 0; l_gamma := 0; l_ca := 0; l_cb := 0; l_cg := 0;
     l_sa := 0; l_sb := 0; l_sg := 0; l_ar := 0; l_br := 0; l_cr := 0; l_alphar := 0; l_betar := 0; l_gammar := 0;
     l_car := 0; l_cbr := 0; l_cgr := 0; l_sar := 0; l_sbr := 0; l_sgr := 0;
     l_baserot := I; l_base := I; l_recbase := I; l_normbase := I; l_recnormbase := I; l_metrics := I; l_stdbase := I;
     l_isotropicunit := I |}.
