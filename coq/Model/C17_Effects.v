(* C17 - effect graph of the parse paths: executable definitions only.
   The graph, the sinks and their argument provenance are regenerated from the package source by
   translate/c17_effects.py (Gen/C17_EffectGraph.v). *)
From Coq Require Import NArith List Bool.
Import ListNotations.
Open Scope N_scope.

(* where the value of a sink argument can come from; PText = anything derived from parsed content
   (and the default whenever the data-flow does not know) *)
Inductive prov := PConst | PRegistry | PFileName | PText.

Inductive kind :=
| KEval | KExec | KCompile | KImport      (* run or load code *)
| KOpen                                   (* file access *)
| KOs | KProcess | KSocket | KOther       (* operating system, processes, network, object deserialisation *)
| KState                                  (* process-wide state: memoising decorator, store into module/class-level data *)
| KSetattr | KGetattr | KFormat.          (* reflective: computed attribute name / computed format string *)

Record sink := Sink { s_node : N; s_kind : kind; s_line : N; s_args : list prov; s_flag : bool }.
(* s_flag: for KOpen, the mode is read-only *)

Definition graph := list (N * list N).

Fixpoint succs (g : graph) (n : N) : list N :=
  match g with [] => [] | (a, l) :: g' => if N.eqb a n then l else succs g' n end.

Definition memN (n : N) (l : list N) : bool := existsb (N.eqb n) l.
Definition add_all (l acc : list N) : list N := fold_left (fun a x => if memN x a then a else x :: a) l acc.
Definition expand (g : graph) (R : list N) : list N := fold_left (fun a n => add_all (succs g n) a) R R.

(* fuelled worklist: iterate until nothing new is added *)
Fixpoint reach_iter (g : graph) (fuel : nat) (R : list N) : list N :=
  match fuel with
  | O => R
  | S f => let R' := expand g R in
           if Nat.eqb (List.length R') (List.length R) then R else reach_iter g f R'
  end.
Definition reach (g : graph) (entries : list N) : list N := reach_iter g (List.length g) (add_all entries []).

(* the certificate that makes `reach` trustworthy: it contains the entries and is closed under edges *)
Definition closed (g : graph) (R : list N) : bool := forallb (fun n => forallb (fun m => memN m R) (succs g n)) R.
Definition covers (R entries : list N) : bool := forallb (fun e => memN e R) entries.

Definition is_text (p : prov) : bool := match p with PText => true | _ => false end.
Definition prov_le_registry (p : prov) : bool := match p with PConst | PRegistry => true | _ => false end.
Definition has_text (s : sink) : bool := existsb is_text (s_args s).

Definition code_or_effect (k : kind) : bool :=
  match k with KEval | KExec | KCompile | KImport | KOs | KProcess | KSocket | KOther | KState => true | _ => false end.

(* a sink through which parsed text could run code, start a process, reach the network or the file system,
   or be retained in process-wide state (memo tables, module-level containers) *)
Definition bad_sink (s : sink) : bool :=
  match s_kind s with
  | KOpen => match s_args s with
             | PFileName :: rest => existsb is_text rest || negb (s_flag s)
             | _ => true
             end
  | k => code_or_effect k && has_text s
  end.

Definition reflective (k : kind) : bool := match k with KSetattr | KGetattr | KFormat => true | _ => false end.
(* the computed name: 2nd argument of setattr/getattr, the receiver (listed first) of str.format *)
Definition name_arg (s : sink) : prov :=
  match s_kind s with
  | KFormat => nth 0 (s_args s) PText
  | _ => nth 1 (s_args s) PText
  end.
Definition reflective_text (s : sink) : bool := reflective (s_kind s) && is_text (name_arg s).

Definition sinks_in (R : list N) (ss : list sink) : list sink := filter (fun s => memN (s_node s) R) ss.

Definition kind_eqb (a b : kind) : bool :=
  match a, b with
  | KEval, KEval | KExec, KExec | KCompile, KCompile | KImport, KImport | KOpen, KOpen | KOs, KOs
  | KProcess, KProcess | KSocket, KSocket | KOther, KOther | KState, KState | KSetattr, KSetattr | KGetattr, KGetattr
  | KFormat, KFormat => true
  | _, _ => false
  end.

(* the three checks, as booleans to be evaluated on the generated graph *)
Definition no_bad_sink (g : graph) (entries : list N) (ss : list sink) : bool :=
  let R := reach g entries in
  closed g R && covers R entries && forallb (fun s => negb (bad_sink s)) (sinks_in R ss).

Definition exec_import_closed (g : graph) (entries : list N) (ss : list sink) (allowed_node : N) : bool :=
  let R := reach g entries in
  closed g R && covers R entries &&
  forallb (fun s => match s_kind s with
                    | KEval | KCompile => false
                    | KExec => N.eqb (s_node s) allowed_node && forallb prov_le_registry (s_args s)
                    | KImport => forallb prov_le_registry (s_args s)
                    | _ => true
                    end) (sinks_in R ss).

Definition open_only_filename_b (g : graph) (entries : list N) (ss : list sink) : bool :=
  let R := reach g entries in
  closed g R && covers R entries &&
  forallb (fun s => match s_kind s with
                    | KOpen => match s_args s with [PFileName] => s_flag s | _ => false end
                    | _ => true
                    end) (sinks_in R ss).
