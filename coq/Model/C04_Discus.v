(* C04 - executable model of parsers/p_discus.py (toLines / parseLines and its record parsers) on the
   view the writer reads: title, spcgr, shape parameters, cell, and per atom element, fractional
   position and Bisoequiv.  Widths, precisions, literals and slices come from Gen/C04_FmtSpecs.v. *)
From Coq Require Import List Bool Arith NArith ZArith String.
From Coq Require Import Ascii.
From DS Require Import Base.C04_Text Base.C04_Decimal Model.C04_Fmt Gen.C04_FmtSpecs Model.C04_Xyz Model.C04_Pdffit.
Import ListNotations.

Record datom := DAtom { da_el : str; da_xyz : d3; da_b : dec }.
Record dstru := DStru { d_title : str; d_spcgr : str; d_sphere : dec; d_stepcut : dec; d_cell : d6; d_atoms : list datom }.

(* ---- writer ---- *)
Definition print_datom (a : datom) : option str :=
  render discus_w_atom (AStr (map upper (da_el a)) :: args3 (da_xyz a) ++ [ANum (da_b a)]).

Definition print_discus (S : dstru) : option (list str) :=
  concat_opt
    [ Some [strip (discus_w_title ++ d_title S)];
      Some [discus_w_spcgr ++ d_spcgr S];
      opt_line (dpos (d_sphere S)) (render discus_w_sphere [ANum (d_sphere S)]);
      opt_line (dpos (d_stepcut S)) (render discus_w_stepcut [ANum (d_stepcut S)]);
      option_map (fun x => [x]) (render discus_w_cell (args6 (d_cell S)));
      option_map (fun x => [x]) (render discus_w_ncell [AInt 1; AInt 1; AInt 1; AInt (Z.of_nat (List.length (d_atoms S)))]);
      Some [discus_w_atoms];
      map_opt print_datom (d_atoms S) ].

(* ---- reader ---- *)
Record dhdr := DHdr { dh_title : str; dh_spcgr : str; dh_sphere : dec; dh_stepcut : dec; dh_cell : option d6; dh_ncell : option (list Z) }.
Definition dhdr0 : dhdr := DHdr [] (s"P1") dzero dzero None None.

Inductive dres := DCont (h : dhdr) | DBreak (h : dhdr) | DFail.

Definition dstep (h : dhdr) (line : str) : dres :=
  let words := split_ws line in
  match words with
  | [] => DCont h
  | w0 :: _ =>
    if first_is_hash w0 then DCont h
    else if kw w0 "atoms" then DBreak h
    else if kw w0 "cell" then
      match floats (slice (fst discus_r_cell) (snd discus_r_cell) (split_ws (c2s line))) with
      | Some l => match to_d6 l with
                  | Some c => DCont (DHdr (dh_title h) (dh_spcgr h) (dh_sphere h) (dh_stepcut h) (Some c) (dh_ncell h))
                  | None => DFail end
      | None => DFail end
    else if kw w0 "format" then
      match nth_error words 1 with
      | Some t => if kw t "pdffit" then DFail else DCont h
      | None => DFail end
    else if kw w0 "generator" || kw w0 "molecule" || kw w0 "symmetry" then DFail      (* NotImplementedError *)
    else if kw w0 "ncell" then
      match ints (slice (fst discus_r_ncell) (snd discus_r_ncell) (split_ws (c2s line))) with
      | Some l => DCont (DHdr (dh_title h) (dh_spcgr h) (dh_sphere h) (dh_stepcut h) (dh_cell h) (Some l))
      | None => DFail end
    else if kw w0 "spcgr" then
      DCont (DHdr (dh_title h) (List.concat (open_slice discus_r_spcgr_from words)) (dh_sphere h) (dh_stepcut h) (dh_cell h) (dh_ncell h))
    else if kw w0 "title" then
      DCont (DHdr (strip (skipn discus_r_title_skip (lstrip line))) (dh_spcgr h) (dh_sphere h) (dh_stepcut h) (dh_cell h) (dh_ncell h))
    else if kw w0 "shape" then
      let wordsfixed := split_ws (c2s (join [sp] words)) in
      match nth_error wordsfixed discus_r_shape_kind with
      | Some k =>
          if kw k "sphere" then
            match nth_error words discus_r_shape_sphere with
            | Some t => match parse_float t with
                        | Some v => DCont (DHdr (dh_title h) (dh_spcgr h) v (dh_stepcut h) (dh_cell h) (dh_ncell h))
                        | None => DFail end
            | None => DFail end
          else if kw k "stepcut" then
            match nth_error words discus_r_shape_stepcut with
            | Some t => match parse_float t with
                        | Some v => DCont (DHdr (dh_title h) (dh_spcgr h) (dh_sphere h) v (dh_cell h) (dh_ncell h))
                        | None => DFail end
            | None => DFail end
          else DFail
      | None => DFail end
    else DCont h       (* unknown record: ignored *)
  end.

Fixpoint dloop (h : dhdr) (ls : list str) : option (dhdr * list str) :=
  match ls with
  | [] => Some (h, [])
  | l :: r => match dstep h l with
              | DCont h' => dloop h' r
              | DBreak h' => Some (h', r)
              | DFail => None
              end
  end.

Definition parse_datom (line : str) : option (option datom) :=
  let words := split_ws (c2s line) in
  match words with
  | [] => Some None
  | w0 :: _ =>
    if first_is_hash w0 then Some None
    else match floats (slice (fst discus_r_xyz) (snd discus_r_xyz) words), nth_error words discus_r_biso with
         | Some xyz, Some tb =>
             match to_d3 xyz, parse_float tb with
             | Some v, Some b => Some (Some (DAtom (capitalize w0) v b))
             | _, _ => None
             end
         | _, _ => None
         end
  end.

Fixpoint parse_datoms (ls : list str) : option (list datom) :=
  match ls with
  | [] => Some []
  | l :: r => match parse_datom l, parse_datoms r with
              | Some (Some a), Some t => Some (a :: t)
              | Some None, Some t => Some t
              | _, _ => None
              end
  end.

Definition parse_discus (lines : list str) : option dstru :=
  let ls := rstrip_lines lines in
  match dloop dhdr0 ls with
  | Some (h, rest) =>
    match dh_cell h with
    | Some cell =>
      match parse_datoms rest with
      | Some atoms =>
        let ncell := match dh_ncell h with Some l => l | None => [1%Z; 1%Z; 1%Z; 0%Z] end in
        let ok := match dh_ncell h with
                  | Some l => (Z.of_nat (List.length atoms) =? fold_right Z.mul 1%Z l)%Z
                  | None => true end in
        if ok then
          match firstn 3 ncell with
          | [1%Z; 1%Z; 1%Z] => Some (DStru (dh_title h) (dh_spcgr h) (dh_sphere h) (dh_stepcut h) cell atoms)
          | _ => None     (* supercell header: outside this model *)
          end
        else None
      | None => None
      end
    | None => None
    end
  | None => None
  end.

Definition write_discus (S : dstru) : option str := option_map text_of_lines (print_discus S).
Definition read_discus (t : str) : option dstru := parse_discus (lines_of_text t).

(* ---- what the format carries (raw) ---- *)
Definition canon_datom (a : datom) : datom :=
  DAtom (capitalize (da_el a)) (q3 discus_w_atom 0 (da_xyz a)) (dq (fprec discus_w_atom 3) (da_b a)).
Definition canon_discus (S : dstru) : dstru :=
  DStru (strip (d_title S)) (List.concat (split_ws (d_spcgr S))) (canon_shape discus_w_sphere (d_sphere S))
        (canon_shape discus_w_stepcut (d_stepcut S)) (q6 discus_w_cell (d_cell S)) (map canon_datom (d_atoms S)).

Definition repr_discus (S : dstru) : bool :=
  line_ok (d_title S) && line_ok (d_spcgr S) &&
  shape_ok discus_w_sphere (d_sphere S) && shape_ok discus_w_stepcut (d_stepcut S) &&
  forallb (fun a => str_tok_ok (da_el a) && negb (first_is_hash (da_el a))) (d_atoms S).
