(* C02 - line-by-line executable model of the position part of GeneratorSite.__init__ and of
   ExpandAsymmetricUnit.__init__ (symmetryutilities.py), on the scaled-integer torus of Model/C02_Eps.v.

     sites, ops, mult = expandPosition(spacegroup, xyz, sgoffset, eps)
     invariants = _findInvariants(ops)
     if len(invariants) > 1:
         xyzdups = numpy.array([op(xyz + self.sgoffset) - self.sgoffset for op in invariants])
         dxyz = xyzdups - xyz
         dxyz = numpy.mean(dxyz - dxyz.round(), axis=0)
         if numpy.any(dxyz != 0.0):
             self.xyz = xyz + dxyz
             self.xyz[numpy.fabs(self.xyz) < self.eps] = 0.0
             sites, ops, mult = expandPosition(spacegroup, self.xyz, self.sgoffset, eps)
             invariants = _findInvariants(ops)

   The mean divides by n = len(invariants); to stay in exact integers the adjusted site is returned on the
   finer grid D*n:  xyz_new / (D n) = xyz / D + (sum of the rounded differences) / (D n).
   Model file: definitions only. *)
From Coq Require Import ZArith List Bool.
From DS Require Import Base.ZMat Base.SGDefs Model.GroupCheck Model.C02_Orbit Model.C02_Eps.
Import ListNotations.
Open Scope Z_scope.

(* _findInvariants: the first list of operations that contains the identity (R == I and t == 0);
   None models the ValueError "Could not find identity operation." *)
Definition is_identity (o : symop) : bool := op_eqb o ident.
Fixpoint find_invariants (ops : list (list symop)) : option (list symop) :=
  match ops with
  | [] => None
  | l :: r => if existsb is_identity l then Some l else find_invariants r
  end.

(* numpy.round of d/D: nearest integer, ties to even *)
Definition rint (D d : Z) : Z :=
  let q := d / D in let r := d - D * q in
  if 2 * r <? D then q else if D <? 2 * r then q + 1 else if Z.even q then q else q + 1.
(* one component of dxyz - dxyz.round(), in units of 1/D *)
Definition frac1 (D d : Z) : Z := d - D * rint D d.
Definition vfrac (D : Z) (v : v3) : v3 := V3 (frac1 D (vx v)) (frac1 D (vy v)) (frac1 D (vz v)).

Definition vsum (l : list v3) : v3 := fold_right vadd v0 l.

(* self.xyz[numpy.fabs(self.xyz) < self.eps] = 0.0   (self.eps is the raw eps = 1.0e-5) *)
Definition zero_small1 (Dn c : Z) : Z := if Z.abs c * eps_eq_den <? eps_eq_num * Dn then 0 else c.
Definition zero_small (Dn : Z) (v : v3) : v3 := V3 (zero_small1 Dn (vx v)) (zero_small1 Dn (vy v)) (zero_small1 Dn (vz v)).

Record gsite := GSite {
  gs_D : Z;                          (* grid of gs_xyz, gs_off, gs_eqxyz *)
  gs_xyz : v3;                       (* self.xyz *)
  gs_off : v3;                       (* self.sgoffset on the grid gs_D *)
  gs_eqxyz : list v3;                (* self.eqxyz *)
  gs_symops : list (list symop);     (* self.symops *)
  gs_mult : nat;                     (* self.multiplicity *)
  gs_invariants : list symop         (* self.invariants *)
}.

(* sum over the invariants of (op(xyz + sgoffset) - sgoffset - xyz) - round(...) , units 1/D *)
Definition snap_sum (D : Z) (inv : list symop) (off x : v3) : v3 :=
  vsum (map (fun op => vfrac D (vsub (raw_img D op off x) x)) inv).

(* the constructor body after the first `expandPosition` call, whose result is `first` *)
Definition generator_site_from (D : Z) (G : list symop) (off x : v3) (first : list v3 * list (list symop) * nat) : option gsite :=
  let '(sites, ops, mult) := first in
  match find_invariants ops with
  | None => None
  | Some inv =>
      if (1 <? List.length inv)%nat then
        let dsum := snap_sum D inv off x in
        if v3_eqb dsum v0 then Some (GSite D x off sites ops mult inv)
        else
          let n := Z.of_nat (List.length inv) in
          let Dn := D * n in
          let offn := vscale n off in
          let xn := zero_small Dn (vadd (vscale n x) dsum) in
          let '(sites2, ops2, mult2) := expand_eps Dn G offn xn in
          match find_invariants ops2 with
          | None => None
          | Some inv2 => Some (GSite Dn xn offn sites2 ops2 mult2 inv2)
          end
      else Some (GSite D x off sites ops mult inv)
  end.

Definition generator_site (D : Z) (G : list symop) (off x : v3) : option gsite :=
  generator_site_from D G off x (expand_eps D G off x).

(* ExpandAsymmetricUnit.__init__: one GeneratorSite per core position (any ValueError propagates) *)
Fixpoint all_some {A} (l : list (option A)) : option (list A) :=
  match l with
  | [] => Some []
  | None :: _ => None
  | Some a :: r => match all_some r with Some t => Some (a :: t) | None => None end
  end.

Record asym := Asym {
  au_multiplicity : list nat;               (* self.multiplicity *)
  au_expandedpos : list (Z * list v3)       (* self.expandedpos, each with its grid *)
}.

Definition expand_asym (D : Z) (G : list symop) (off : v3) (corepos : list v3) : option asym :=
  match all_some (map (generator_site D G off) corepos) with
  | None => None
  | Some gens => Some (Asym (map gs_mult gens) (map (fun g => (gs_D g, gs_eqxyz g)) gens))
  end.

(* printer for the correspondence runs: -3 D x y z offx offy offz ; -4 invariants ; then showz of the expansion *)
Definition gshow (G : list symop) (r : option gsite) : list Z :=
  match r with
  | None => [-9]
  | Some g =>
      [-3; gs_D g; vx (gs_xyz g); vy (gs_xyz g); vz (gs_xyz g)] ++
      (-4 :: map (index_of G) (gs_invariants g)) ++
      showz G (gs_eqxyz g, gs_symops g, gs_mult g)
  end.
Definition ashow (r : option asym) : list Z :=
  match r with
  | None => [-9]
  | Some a =>
      flat_map (fun mp => -5 :: Z.of_nat (fst mp) :: fst (snd mp) ::
                          flat_map (fun p => [vx p; vy p; vz p]) (snd (snd mp)))
               (combine (au_multiplicity a) (au_expandedpos a))
  end.

(* ---- decidable forms of the hypotheses of the snap theorems (used for examples and for counting how many
        generated cases the theorems cover) ---- *)
Definition near_special_b (D : Z) (G : list symop) (off x x0 : v3) : bool :=
  let ims := map (fun g => (img D g off x0, img D g off x)) G in
  forallb (fun a => forallb (fun b =>
     if v3_eqb (fst a) (fst b) then boxdist D (snd a) (snd b) * eps_eq_den <=? eps_eq_num * D
     else 2 * D <? 100000 * boxdist D (snd a) (snd b)) ims) ims.

Definition small_vb (D : Z) (v : v3) : bool :=
  (2 * Z.abs (vx v) <? D) && (2 * Z.abs (vy v) <? D) && (2 * Z.abs (vz v) <? D).

Definition snapped_site (D : Z) (G : list symop) (off x x0 : v3) : v3 :=
  let S := stab D G off x0 in
  vadd (vscale (Z.of_nat (List.length S)) x0) (vsum (map (fun h => mvec (fst h) (vsub x x0)) S)).

Definition separated_b (D : Z) (G : list symop) (off x : v3) : bool :=
  let ims := map (fun g => img D g off x) G in
  forallb (fun p => forallb (fun q => v3_eqb p q || (2 * D <? 100000 * boxdist D p q)) ims) ims.

Definition snap_hyps_b (D : Z) (G : list symop) (off x x0 : v3) : bool :=
  let S := stab D G off x0 in
  let n := Z.of_nat (List.length S) in
  let xs := snapped_site D G off x x0 in
  if near_special_b D G off x x0 then
    forallb (fun h => small_vb D (vsub (mvec (fst h) (vsub x x0)) (vsub x x0))) S &&
    (1 <? List.length S)%nat &&
    negb (v3_eqb xs (vscale n x)) &&
    v3_eqb (zero_small (D * n) xs) xs &&
    separated_b (D * n) G (vscale n off) xs
  else false.
