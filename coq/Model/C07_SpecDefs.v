(* C07 - the vocabulary of the GENERATED setter specification (Gen/C07_CifSpec.v, from p_cif.py):
   what a `_tr_*` translator of P_cif writes into the Atom, with which factor and leading_float default. *)
From Coq Require Import ZArith String.
From DS Require Import Base.C09_GNum Model.C09_AtomADP Model.C07_Text.

Inductive target :=
| TIgnore                      (* _tr_ignore: return                                  *)
| TLabel                       (* a.label = str(value); element from the label if unset *)
| TTypeSymbol                  (* a.element = capitalised symbol                        *)
| TFract (i : idx)             (* a.xyz[i] = ...                                        *)
| TCartn (i : idx)             (* a.xyz_cartn[i] = ...                                  *)
| TUisoequiv                   (* a.Uisoequiv = ...                                     *)
| TAdpType                     (* a.anisotropy = value not in (<iso names>)             *)
| TOccupancy                   (* a.occupancy = ...                                     *)
| TUij (n : name6).            (* a.U11 = ... etc.                                      *)

Inductive scaling := SOne | SBtoU.      (* value = leading_float(..)   |   P_cif.BtoU * leading_float(..) *)

Record setter := Setter { s_target : target; s_scale : scaling; s_default : dec }.

(* how getSymOp reads the constant part of a component, and how images are labelled *)
Inductive symop_reader := SREval | SRNumeric.
Inductive label_scheme := LSPlain | LSFresh.
(* in which order the translators of one _atom_site row are applied (_parse_atom_site_label) *)
Inductive setter_order := SOColumn | SOTypeFirst | SOTypeFirstCartnLast.
