(* C13 - definitions shared by the parser models (total Gallina functions, no proofs). *)
From Coq Require Import List Bool Arith ZArith.
From DS Require Import Base.C13_Exn Gen.C13_ExcSpec.
From Coq Require Import Ascii String.
Import ListNotations.


(* what an `except` clause does, as classified by the translator: only a clause that builds and
   raises StructureFormatError turns the caught kind into the format error; any other handler class is
   modelled pessimistically as letting the caught kind through *)
Definition reraise_handler {A} (hk : handler_kind) (k : kind) : res A :=
  match hk with
  | ReraiseFormat => Raise FormatError
  | _ => Raise k
  end.

(* a handler that swallows the error and continues with a default value *)
Definition swallow_handler {A} (hk : handler_kind) (dflt : A) (k : kind) : res A :=
  match hk with
  | Swallow => Ok dflt
  | _ => Raise k
  end.

Definition is_nil {A} (l : list A) : bool := match l with [] => true | _ => false end.

(* s[0] on a str *)
Definition str_head (s : string) : res ascii :=
  match s with
  | EmptyString => Raise IndexError
  | String c _ => Ok c
  end.

Definition hash_char : ascii := "#"%char.

(* `len(field) == 0 or field[0] == "#"`  on a list of tokens *)
Definition skip_field (f : list string) : bool :=
  match f with
  | [] => true
  | w :: _ => String.eqb w "#"%string
  end.

(* the leading `for field in linefields: if skip: start += 1 else: break` *)
Fixpoint count_leading {A} (p : A -> bool) (l : list A) : nat :=
  match l with
  | [] => 0
  | a :: l' => if p a then S (count_leading p l') else 0
  end.

(* `while stop > start and len(linefields[stop - 1]) == 0: stop -= 1` ; the index is evaluated by the code,
   so it is evaluated here as well *)
Fixpoint trim_stop (fuel : nat) (linefields : list (list string)) (start stop : nat) : res nat :=
  match fuel with
  | O => Ok stop
  | S fuel' =>
      if Nat.ltb start stop then
        bind (idx linefields (stop - 1)) (fun f =>
          if is_nil f then trim_stop fuel' linefields start (stop - 1) else Ok stop)
      else Ok stop
  end.

(* `stop = len(lines); while stop > 0 and lines[stop-1].strip() == "": stop -= 1` *)
Fixpoint trim_blank (isblank : string -> bool) (fuel : nat) (lines : list string) (stop : nat) : res nat :=
  match fuel with
  | O => Ok stop
  | S fuel' =>
      if Nat.ltb 0 stop then
        bind (idx lines (stop - 1)) (fun l =>
          if isblank l then trim_blank isblank fuel' lines (stop - 1) else Ok stop)
      else Ok stop
  end.

(* slices never raise *)
Definition slice {A} (l : list A) (a b : nat) : list A := firstn (b - a) (skipn a l).

Definition Zprod (l : list Z) : Z := fold_left Z.mul l 1%Z.

(* next(it) on an explicit remaining-lines list *)
Definition next_line (rest : list string) : res (string * list string) :=
  match rest with
  | [] => Raise StopIteration
  | l :: r => Ok (l, r)
  end.

Definition list_eqb_Z (a b : list Z) : bool :=
  (Nat.eqb (List.length a) (List.length b)) && forallb (fun p => Z.eqb (fst p) (snd p)) (combine a b).

(* a concrete tokeniser on blanks, used by the closed examples only (the theorems quantify over any tokeniser) *)
Fixpoint split_sp_aux (s : string) (cur : string) : list string :=
  match s with
  | EmptyString => match cur with EmptyString => [] | _ => [cur] end
  | String c s' =>
      if Ascii.eqb c " "%char
      then match cur with EmptyString => split_sp_aux s' EmptyString | _ => cur :: split_sp_aux s' EmptyString end
      else split_sp_aux s' (cur ++ String c EmptyString)%string
  end.
Definition split_sp (s : string) : list string := split_sp_aux s EmptyString.
Definition blank_sp (s : string) : bool := is_nil (split_sp s).

(* str.strip() restricted to blanks, for the closed examples *)
Fixpoint lstrip_sp (s : string) : string :=
  match s with
  | String c s' => if Ascii.eqb c " "%char then lstrip_sp s' else s
  | EmptyString => EmptyString
  end.
Fixpoint rev_str (s acc : string) : string := match s with String c s' => rev_str s' (String c acc) | EmptyString => acc end.
Definition strip_sp (s : string) : string := rev_str (lstrip_sp (rev_str (lstrip_sp s) EmptyString)) EmptyString.
