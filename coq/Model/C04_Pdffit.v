(* C04 - executable model of parsers/p_pdffit.py (toLines / parseLines) on the view the writer
   reads: title, the pdffit dictionary (scale, sharp parameters, spcgr, shape), cell, dcell and per atom
   element, fractional position, occupancy, sigmas and the displacement tensor with its sigmas,
   every number an exact decimal.  Widths, precisions, literals and slices come from Gen/C04_FmtSpecs.v.
   The reader returns the RAW attributes it assigns; what the next write sees of an isotropic atom
   (a.U rebuilt from U11 and the lattice) is the `link` step, over abstract geometry (Proofs/C04_Pdffit.v). *)
From Coq Require Import List Bool Arith NArith ZArith String.
From Coq Require Import Ascii.
From DS Require Import Base.C04_Text Base.C04_Decimal Model.C04_Fmt Gen.C04_FmtSpecs Model.C04_Xyz.
Import ListNotations.

Definition d3 : Type := (dec * dec * dec)%type.
Definition d4 : Type := (dec * dec * dec * dec)%type.
Definition d6 : Type := (d3 * d3)%type.

Record patom := PAtom {
  pa_el : str; pa_xyz : d3; pa_occ : dec; pa_sigxyz : d3; pa_sigo : dec;
  pa_uii : d3; pa_suii : d3; pa_uij : d3; pa_suij : d3 }.
Record pstru := PStru {
  p_title : str; p_scale : dec; p_sharp : d4 (* delta2, delta1, sratio, rcut *); p_spcgr : str;
  p_sphere : dec; p_stepcut : dec; p_cell : d6; p_dcell : d6; p_atoms : list patom }.

Definition dzero : dec := Dec false 0 0.
Definition done : dec := Dec false 1 0.
Definition dpos (d : dec) : bool := negb (dneg d) && (0 <? dmag d)%N.       (* x > 0.0 *)

Definition args3 (v : d3) : list farg := let '(a, b, c) := v in [ANum a; ANum b; ANum c].
Definition args6 (v : d6) : list farg := args3 (fst v) ++ args3 (snd v).

(* ---- writer ---- *)
Definition pdffit_atom_lines (a : patom) : option (list str) :=
  map_opt (fun fa => render (fst fa) (snd fa))
    [ (pdffit_w_atom, AStr (map upper (pa_el a)) :: args3 (pa_xyz a) ++ [ANum (pa_occ a)]);
      (pdffit_w_sigmas, args3 (pa_sigxyz a) ++ [ANum (pa_sigo a)]);
      (pdffit_w_Uii, args3 (pa_uii a)); (pdffit_w_sigUii, args3 (pa_suii a));
      (pdffit_w_Uij, args3 (pa_uij a)); (pdffit_w_sigUij, args3 (pa_suij a)) ].

Definition opt_line (cond : bool) (l : option str) : option (list str) :=
  if cond then option_map (fun x => [x]) l else Some [].

Definition concat_opt {A} (ls : list (option (list A))) : option (list A) :=
  fold_right (fun x acc => match x, acc with Some a, Some b => Some (a ++ b) | _, _ => None end) (Some []) ls.

Definition print_pdffit (S : pstru) : option (list str) :=
  let '(d2, d1, sr, rc) := p_sharp S in
  concat_opt
    [ Some [strip (pdffit_w_title ++ p_title S)];
      Some [pdffit_w_format];
      option_map (fun x => [x]) (render pdffit_w_scale [ANum (p_scale S)]);
      option_map (fun x => [x]) (render pdffit_w_sharp [ANum d2; ANum d1; ANum sr; ANum rc]);
      Some [pdffit_w_spcgr ++ p_spcgr S];
      opt_line (dpos (p_sphere S)) (render pdffit_w_sphere [ANum (p_sphere S)]);
      opt_line (dpos (p_stepcut S)) (render pdffit_w_stepcut [ANum (p_stepcut S)]);
      option_map (fun x => [x]) (render pdffit_w_cell (args6 (p_cell S)));
      option_map (fun x => [x]) (render pdffit_w_dcell (args6 (p_dcell S)));
      option_map (fun x => [x]) (render pdffit_w_ncell [AInt 1; AInt 1; AInt 1; AInt (Z.of_nat (List.length (p_atoms S)))]);
      Some [pdffit_w_atoms];
      option_map (@List.concat str) (map_opt pdffit_atom_lines (p_atoms S)) ].

(* ---- reader ---- *)
Record phdr := PHdr {
  h_title : str; h_scale : dec; h_sharp : d4; h_spcgr : str; h_sphere : dec; h_stepcut : dec;
  h_cell : option d6; h_dcell : d6; h_ncell : list Z }.
Definition phdr0 : phdr :=
  PHdr [] done (dzero, dzero, done, dzero) (s"P1") dzero dzero None ((dzero, dzero, dzero), (dzero, dzero, dzero)) [1%Z; 1%Z; 1%Z; 0%Z].

Definition floats (ts : list str) : option (list dec) := map_opt parse_float ts.
Definition ints (ts : list str) : option (list Z) := map_opt parse_int ts.
Definition to_d3 (l : list dec) : option d3 := match l with [a; b; c] => Some (a, b, c) | _ => None end.
Definition to_d6 (l : list dec) : option d6 := match l with [a; b; c; d; e; f] => Some ((a, b, c), (d, e, f)) | _ => None end.
Definition open_slice {A} (lo : nat) (l : list A) : list A := skipn lo l.
Definition kw (w : str) (k : string) : bool := str_eqb w (s k).
Definition first_is_hash (w : str) : bool := match w with c :: _ => Ascii.eqb c "#"%char | [] => false end.

Inductive hres := HCont (h : phdr) | HBreak (h : phdr) | HFail.

(* one header line of P_pdffit.parseLines *)
Definition hstep (h : phdr) (line : str) : hres :=
  let words := split_ws line in
  match words with
  | [] => HCont h
  | w0 :: _ =>
    if first_is_hash w0 then HCont h
    else if kw w0 "title" then
      HCont (PHdr (strip (skipn pdffit_r_title_skip (lstrip line))) (h_scale h) (h_sharp h) (h_spcgr h) (h_sphere h) (h_stepcut h) (h_cell h) (h_dcell h) (h_ncell h))
    else if kw w0 "scale" then
      match nth_error words pdffit_r_scale with
      | Some t => match parse_float t with
                  | Some v => HCont (PHdr (h_title h) v (h_sharp h) (h_spcgr h) (h_sphere h) (h_stepcut h) (h_cell h) (h_dcell h) (h_ncell h))
                  | None => HFail end
      | None => HFail end
    else if kw w0 "sharp" then
      match floats (open_slice pdffit_r_sharp_from (split_ws (c2s line))) with
      | Some [a; b; c] =>      (* fewer than 4: delta2, sratio, rcut *)
          let '(_, d1, _, _) := h_sharp h in
          HCont (PHdr (h_title h) (h_scale h) (a, d1, b, c) (h_spcgr h) (h_sphere h) (h_stepcut h) (h_cell h) (h_dcell h) (h_ncell h))
      | Some (a :: b :: c :: d :: _) =>
          HCont (PHdr (h_title h) (h_scale h) (a, b, c, d) (h_spcgr h) (h_sphere h) (h_stepcut h) (h_cell h) (h_dcell h) (h_ncell h))
      | _ => HFail end
    else if kw w0 "spcgr" then
      HCont (PHdr (h_title h) (h_scale h) (h_sharp h) (strip (skipn 5 (lstrip line))) (h_sphere h) (h_stepcut h) (h_cell h) (h_dcell h) (h_ncell h))
    else if kw w0 "shape" then
      let ws := split_ws (c2s line) in
      match nth_error ws pdffit_r_shape_kind with
      | Some k =>
          if kw k "sphere" then
            match nth_error ws pdffit_r_shape_sphere with
            | Some t => match parse_float t with
                        | Some v => HCont (PHdr (h_title h) (h_scale h) (h_sharp h) (h_spcgr h) v (h_stepcut h) (h_cell h) (h_dcell h) (h_ncell h))
                        | None => HFail end
            | None => HFail end
          else if kw k "stepcut" then
            match nth_error ws pdffit_r_shape_stepcut with
            | Some t => match parse_float t with
                        | Some v => HCont (PHdr (h_title h) (h_scale h) (h_sharp h) (h_spcgr h) (h_sphere h) v (h_cell h) (h_dcell h) (h_ncell h))
                        | None => HFail end
            | None => HFail end
          else HFail
      | None => HFail end
    else if kw w0 "cell" then
      match floats (slice (fst pdffit_r_cell) (snd pdffit_r_cell) (split_ws (c2s line))) with
      | Some l => match to_d6 l with
                  | Some c => HCont (PHdr (h_title h) (h_scale h) (h_sharp h) (h_spcgr h) (h_sphere h) (h_stepcut h) (Some c) (h_dcell h) (h_ncell h))
                  | None => HFail end
      | None => HFail end
    else if kw w0 "dcell" then
      match floats (slice (fst pdffit_r_dcell) (snd pdffit_r_dcell) (split_ws (c2s line))) with
      | Some l => match to_d6 l with    (* a shorter dcell list is kept by the implementation; outside the model *)
                  | Some c => HCont (PHdr (h_title h) (h_scale h) (h_sharp h) (h_spcgr h) (h_sphere h) (h_stepcut h) (h_cell h) c (h_ncell h))
                  | None => HFail end
      | None => HFail end
    else if kw w0 "ncell" then
      match ints (slice (fst pdffit_r_ncell) (snd pdffit_r_ncell) (split_ws (c2s line))) with
      | Some l => HCont (PHdr (h_title h) (h_scale h) (h_sharp h) (h_spcgr h) (h_sphere h) (h_stepcut h) (h_cell h) (h_dcell h) l)
      | None => HFail end
    else if kw w0 "format" then
      match nth_error words 1 with
      | Some t => if kw t "pdffit" then HCont h else HFail
      | None => HFail end
    else if kw w0 "atoms" && (match h_cell h with Some _ => true | None => false end) then HBreak h
    else HCont h       (* ignored line *)
  end.

(* header loop: returns the header and the remaining lines (after "atoms"), or the header at end of input *)
Fixpoint hloop (h : phdr) (ls : list str) : option (phdr * list str) :=
  match ls with
  | [] => Some (h, [])
  | l :: r => match hstep h l with
              | HCont h' => hloop h' r
              | HBreak h' => Some (h', r)
              | HFail => None
              end
  end.

Definition parse_patom (l1 l2 l3 l4 l5 l6 : str) : option patom :=
  let w1 := split_ws l1 in let w2 := split_ws l2 in
  match nth_error w1 0 with
  | Some (c :: e) =>
    match floats (slice (fst pdffit_r_xyz) (snd pdffit_r_xyz) w1), nth_error w1 pdffit_r_occ,
          floats (slice (fst pdffit_r_sigxyz) (snd pdffit_r_sigxyz) w2), nth_error w2 pdffit_r_sigo with
    | Some xyz, Some tocc, Some sig, Some tsigo =>
      let pick := fun (l : str) (idx : list nat) => floats (map (fun i => nth i (split_ws l) []) idx) in
      match to_d3 xyz, parse_float tocc, to_d3 sig, parse_float tsigo,
            pick l3 pdffit_r_Uii, pick l4 pdffit_r_Uii, pick l5 pdffit_r_Uij, pick l6 pdffit_r_Uij with
      | Some vxyz, Some occ, Some vsig, Some sigo, Some uii, Some suii, Some uij, Some suij =>
        match to_d3 uii, to_d3 suii, to_d3 uij, to_d3 suij with
        | Some a, Some b, Some c', Some d => Some (PAtom (capitalize (c :: e)) vxyz occ vsig sigo a b c' d)
        | _, _, _, _ => None
        end
      | _, _, _, _, _, _, _, _ => None
      end
    | _, _, _, _ => None
    end
  | _ => None
  end.

Fixpoint parse_patoms (fuel : nat) (ls : list str) : option (list patom) :=
  match fuel with
  | O => None
  | S f =>
    match ls with
    | [] => Some []
    | l1 :: l2 :: l3 :: l4 :: l5 :: l6 :: r =>
        match parse_patom l1 l2 l3 l4 l5 l6, parse_patoms f r with
        | Some a, Some l => Some (a :: l)
        | _, _ => None
        end
    | _ => None          (* truncated atom block *)
    end
  end.

Definition blank (l : str) : bool := is_nil (strip l).
Fixpoint drop_blank (ls : list str) : list str := match ls with l :: r => if blank l then drop_blank r else ls | [] => [] end.
Definition rstrip_lines (ls : list str) : list str := rev (drop_blank (rev ls)).

Definition parse_pdffit (lines : list str) : option pstru :=
  let ls := rstrip_lines lines in
  match hloop phdr0 ls with
  | Some (h, rest) =>
    match h_cell h with
    | Some cell =>
      match parse_patoms (S (List.length rest)) rest with
      | Some atoms =>
        let natoms := fold_right Z.mul 1%Z (h_ncell h) in
        if (Z.of_nat (List.length atoms) =? natoms)%Z then
          match firstn 3 (h_ncell h) with
          | [1%Z; 1%Z; 1%Z] =>
              Some (PStru (h_title h) (h_scale h) (h_sharp h) (h_spcgr h) (h_sphere h) (h_stepcut h) cell (h_dcell h) atoms)
          | _ => None     (* supercell header: needs the geometry of placeInLattice, outside this model *)
          end
        else None
      | None => None
      end
    | None => None
    end
  | None => None
  end.

Definition write_pdffit (S : pstru) : option str := option_map text_of_lines (print_pdffit S).
Definition read_pdffit (t : str) : option pstru := parse_pdffit (lines_of_text t).

(* ---- what the format carries (raw: before the lattice-dependent view of isotropic atoms) ---- *)
Definition fprecs (f : list fitem) : list nat := flat_map (fun it => match it with FFix _ p => [p] | _ => [] end) f.
Definition fprec (f : list fitem) (k : nat) : nat := nth k (fprecs f) 0%nat.
Definition q3 (f : list fitem) (k : nat) (v : d3) : d3 :=
  let '(a, b, c) := v in (dq (fprec f k) a, dq (fprec f (k + 1)) b, dq (fprec f (k + 2)) c).
Definition q6 (f : list fitem) (v : d6) : d6 := (q3 f 0 (fst v), q3 f 3 (snd v)).

Definition canon_patom (a : patom) : patom :=
  PAtom (capitalize (pa_el a)) (q3 pdffit_w_atom 0 (pa_xyz a)) (dq (fprec pdffit_w_atom 3) (pa_occ a))
        (q3 pdffit_w_sigmas 0 (pa_sigxyz a)) (dq (fprec pdffit_w_sigmas 3) (pa_sigo a))
        (q3 pdffit_w_Uii 0 (pa_uii a)) (q3 pdffit_w_sigUii 0 (pa_suii a))
        (q3 pdffit_w_Uij 0 (pa_uij a)) (q3 pdffit_w_sigUij 0 (pa_suij a)).

Definition canon_shape (f : list fitem) (d : dec) : dec := if dpos d then gqd (gprec f 0) d else dzero.

Definition canon_pdffit (S : pstru) : pstru :=
  let '(d2, d1, sr, rc) := p_sharp S in
  PStru (strip (p_title S)) (dq (fprec pdffit_w_scale 0) (p_scale S))
        (dq (fprec pdffit_w_sharp 0) d2, dq (fprec pdffit_w_sharp 1) d1, dq (fprec pdffit_w_sharp 2) sr, dq (fprec pdffit_w_sharp 3) rc)
        (strip (p_spcgr S)) (canon_shape pdffit_w_sphere (p_sphere S)) (canon_shape pdffit_w_stepcut (p_stepcut S))
        (q6 pdffit_w_cell (p_cell S)) (q6 pdffit_w_dcell (p_dcell S)) (map canon_patom (p_atoms S)).

(* ---- representable range ---- *)
Definition shape_ok (f : list fitem) (d : dec) : bool := if dpos d then gen_ok (gprec f 0) d else true.
Definition repr_pdffit (S : pstru) : bool :=
  line_ok (p_title S) && line_ok (p_spcgr S) &&
  shape_ok pdffit_w_sphere (p_sphere S) && shape_ok pdffit_w_stepcut (p_stepcut S) &&
  forallb (fun a => str_tok_ok (pa_el a)) (p_atoms S).
