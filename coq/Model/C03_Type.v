(* An affine-invariant fingerprint of a space-group setting: for every distinct rotation part, its (trace, det) type and whether
   the operation can be written with zero intrinsic (screw / glide) translation, i.e. is a pure rotation / mirror for some
   choice of lattice translate.  Settings of the same space-group type (axis permutations, origin shifts, cell choices with the
   same centring multiplicity) have equal fingerprints, so all settings sharing `number mod 1000` must agree. *)
From Coq Require Import ZArith List Bool.
From DS Require Import Base.ZMat Base.SGDefs Model.GroupCheck.
Import ListNotations.
Open Scope Z_scope.

Definition madd3 (a b : m3) : m3 :=
  M3 (m11 a + m11 b) (m12 a + m12 b) (m13 a + m13 b) (m21 a + m21 b) (m22 a + m22 b) (m23 a + m23 b) (m31 a + m31 b) (m32 a + m32 b) (m33 a + m33 b).
Definition Z3 : m3 := M3 0 0 0 0 0 0 0 0 0.

(* order of the matrix (<= 6 for crystallographic parts; 12 steps of fuel) and I + R + ... + R^(k-1) *)
Fixpoint order_sum (fuel : nat) (r p acc : m3) (k : Z) : Z * m3 :=
  match fuel with
  | O => (0, acc)
  | S f => if m3_eqb p I3 then (k, acc) else order_sum f r (mmul p r) (madd3 acc p) (k + 1)
  end.
Definition mat_order_sum (r : m3) : Z * m3 := order_sum 12 r r I3 1.

Definition range3 (k : Z) : list v3 :=
  let ks := map Z.of_nat (seq 0 (Z.to_nat k)) in
  flat_map (fun x => flat_map (fun y => map (fun z => V3 x y z) ks) ks) ks.

(* can (r, t + n) have zero intrinsic translation for some lattice vector n ?   (1/k) sum_j r^j (t + n) in Z^3 *)
Definition pure_for (k : Z) (sm : m3) (t : v3) : bool :=
  let s0 := mvec sm t in
  existsb (fun n => let s := vadd s0 (mvec sm (vscale 12 n)) in
                    (vx s mod (12 * k) =? 0) && (vy s mod (12 * k) =? 0) && (vz s mod (12 * k) =? 0)) (range3 k).

Definition type_entry (G : list symop) (r : m3) : Z :=
  let '(k, sm) := mat_order_sum r in
  let ts := map snd (filter (fun o => m3_eqb (fst o) r) G) in
  let pure := existsb (pure_for k sm) ts in
  (* code: (trace+3) in 0..6, det in {-1,1}, pure flag *)
  ((trace r + 3) * 4) + (if det r =? 1 then 2 else 0) + (if pure then 1 else 0).

Fixpoint zinsert (x : Z) (l : list Z) : list Z :=
  match l with [] => [x] | y :: r => if x <=? y then x :: l else y :: zinsert x r end.
Definition zsort (l : list Z) : list Z := fold_right zinsert [] l.
Definition type_fingerprint (G : list symop) : list Z := zsort (map (type_entry G) (rot_parts G)).
Definition zlist_eqb (a b : list Z) : bool := if list_eq_dec Z.eq_dec a b then true else false.

Definition same_number_same_type (exceptions : list Z) (all : list setting) : bool :=
  let fps := map (fun s => (it_number s, type_fingerprint (sg_ops s)))
                 (filter (fun s => negb (existsb (Z.eqb (sg_number s)) exceptions)) all) in
  forallb (fun a => forallb (fun b => negb (fst a =? fst b) || zlist_eqb (snd a) (snd b)) fps) fps.

(* settings whose number is known to disagree with their operations (recorded finding, see known_findings.json) *)
Definition known_misnumbered : list Z := [3004].
