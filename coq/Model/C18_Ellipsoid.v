(* C18 - model of expansion.makeellipsoid.makeEllipsoid / makeSphere and shapeutils.findCenter, on top of the C15 model.
   Generic in the number type (R: theorems; Q: execution).  Block size formula, criterion, call shapes come from
   Gen/C18_Spec.v.  sqrt is never taken: `d < bestd` in findCenter and `sum ** 0.5 > 1` are decided on the squares
   (both sides are non-negative; monotonicity of the float sqrt is an assumption, measured by the correspondence run). *)
From Coq Require Import ZArith QArith Qround List Bool.
From DS Require Import Base.C09_GNum Gen.C15_Spec Model.C15_Supercell Gen.C18_Spec.
Import ListNotations.

Inductive eresult (A : Type) := EOk (a : A) | EValueError | EIndexError.
Arguments EOk {A}. Arguments EValueError {A}. Arguments EIndexError {A}.

(* newS.pop(i) *)
Definition pop {A} (i : nat) (l : list A) : list A := firstn i l ++ skipn (S i) l.
(* indices (ascending) of the elements satisfying p, counted from k *)
Fixpoint idx_from {A} (p : A -> bool) (k : nat) (l : list A) : list nat :=
  match l with [] => [] | x :: r => if p x then k :: idx_from p (S k) r else idx_from p (S k) r end.
(* the scan runs j = N-1 .. 0 and appends: delList is descending; then every index is popped in that order *)
Definition del_list {A} (p : A -> bool) (l : list A) : list nat := rev (idx_from p 0 l).
Definition pop_all {A} (dl : list nat) (l : list A) : list A := fold_left (fun acc i => pop i acc) dl l.

Section Generic.
Context {T : Type} (O : ops T) (tceil : T -> Z) {P : Type}.

(* what makeEllipsoid reads of S: the atoms and cell (C15) and the lattice's base / recbase matrices *)
Record einput := EIn { e_S : structure T P; e_base : gmat T; e_recbase : gmat T }.

Definition two : T := tofZ O c18_mno_factor.
Definition block_size (sabc : gvec T) (recbase : gmat T) : Z :=
  let f := c18_frac O sabc recbase in
  Z.max (Z.max (tceil (tmul O two (x0 f))) (tceil (tmul O two (x1 f)))) (tceil (tmul O two (x2 f))).

(* base of the supercell lattice: rows multiplied (validated against the live lattice by C15's and this check's harness) *)
Definition scaled_base (m : Z) (b : gmat T) : gmat T := gmscale O (tofZ O m) b.
Definition cart (b : gmat T) (a : atom T P) : gvec T := gvmmul O (at_xyz a) b.

(* findCenter: first strict minimum of the distance to (1/2,1/2,1/2), starting from the bound len(S); -1 when none *)
Definition half : T := tdiv O (t1 O) (tofZ O 2).
Definition dist2_center (b : gmat T) (a : atom T P) : T :=
  gvsum O (gvsq O (gvmmul O (gvsub O (at_xyz a) (GV half half half)) b)).
Fixpoint find_center_from (b : gmat T) (l : list (atom T P)) (i : Z) (best : Z) (bestd2 : T) : Z :=
  match l with
  | [] => best
  | a :: r => let d2 := dist2_center b a in
              if tltb O d2 bestd2 then find_center_from b r (i + 1) i d2 else find_center_from b r (i + 1) best bestd2
  end.
Definition find_center (b : gmat T) (l : list (atom T P)) : Z :=
  let n := tofZ O (Z.of_nat (length l)) in find_center_from b l 0 (-1) (tmul O n n).

(* newS[ncenter] with Python's negative index *)
Definition py_nth (l : list (atom T P)) (i : Z) : option (atom T P) :=
  let n := Z.of_nat (length l) in
  let k := if Z.ltb i 0 then (i + n)%Z else i in
  if (Z.ltb k 0 || Z.leb n k)%bool then None else nth_error l (Z.to_nat k).

Definition outside (b : gmat T) (sabc cxyz : gvec T) (a : atom T P) : bool :=
  tltb O (t1 O) (c18_crit O (cart b a) cxyz sabc).

Definition make_ellipsoid (S : einput) (a b c : T) : eresult (structure T P) :=
  let sabc := GV a b c in
  let m := block_size sabc (e_recbase S) in
  match supercell O (e_S S) [inject_Z m; inject_Z m; inject_Z m] with
  | ValueError => EValueError
  | Ok newS =>
      let B := scaled_base m (e_base S) in
      match py_nth (s_atoms newS) (find_center B (s_atoms newS)) with
      | None => EIndexError
      | Some ctr =>
          let cxyz := cart B ctr in
          EOk (Struct (pop_all (del_list (outside B sabc cxyz) (s_atoms newS)) (s_atoms newS)) (s_cell newS))
      end
  end.

Definition make_ellipsoid_opt (S : einput) (a : T) (ob oc : option T) : eresult (structure T P) :=
  let b := c18_default_b a ob in let c := c18_default_c a b oc in make_ellipsoid S a b c.
Definition make_sphere (S : einput) (radius : T) : eresult (structure T P) :=
  let '(a, ob, oc) := c18_sphere_args radius in make_ellipsoid_opt S a ob oc.
End Generic.

Arguments einput : clear implicits. Arguments EIn {T P}.
Definition Qceil (q : Q) : Z := Qceiling q.
