(* C12 - model of format auto-detection: parsers/__init__.inputFormats, P_auto._getOrderedFormats and
   P_auto._wrapParseMethod (p_auto.py:55-77, 146-196), over the registry of Gen/C12_ParserIndex.v.

   A parser of one format is a function  string -> res (option S)  (the C13 result monad; None is what P_cif
   returns for a CIF without atom sites).  `auto_loop` follows the loop literally: the first parser that
   returns a structure wins (a None result stops the loop before the repair, counts as a complaint after it: auto_none_continues); StructureFormatError is collected as a complaint, NotImplementedError is skipped (the two
   except clauses are taken from the generated file), every other exception kind PROPAGATES. *)
From Coq Require Import List Bool Arith.
From DS Require Import Base.C13_Exn Gen.C12_ParserIndex.
From Coq Require Import Ascii String.
Import ListNotations.

(* ---- sorted names (list.sort on str; the names are ASCII) ------------------------------------- *)
Fixpoint insert_sorted (x : string) (l : list string) : list string :=
  match l with
  | [] => [x]
  | y :: l' => if String.leb x y then x :: l else y :: insert_sorted x l'
  end.
Definition sort_names (l : list string) : list string := fold_right insert_sorted [] l.

Definition names_with (p : fmt_entry -> bool) : list string := sort_names (map fe_name (filter p parser_index)).
Definition input_formats : list string := names_with fe_input.
Definition output_formats : list string := names_with fe_output.
(* ofmts = [fmt for fmt in inputFormats() if fmt != "auto"] *)
Definition base_formats : list string := filter (fun f => negb (String.eqb f "auto")) input_formats.

(* ---- file-name patterns ------------------------------------------------------------------------ *)
Definition ends_with (suf s : string) : bool :=
  Nat.leb (String.length suf) (String.length s) &&
  String.eqb (substring (String.length s - String.length suf) (String.length suf) s) suf.

(* fnmatch(base, pat) for the patterns of the registry: "*<literal>" *)
Definition fnmatch (base pat : string) : bool :=
  match pat with
  | String c lit => if Ascii.eqb c "*"%char then ends_with lit base else String.eqb base pat
  | EmptyString => String.eqb base pat
  end.

(* os.path.basename: what follows the last "/" *)
Fixpoint basename_aux (s : string) (cur : string) : string :=
  match s with
  | EmptyString => cur
  | String c s' => if Ascii.eqb c "/"%char then basename_aux s' EmptyString else basename_aux s' (cur ++ String c EmptyString)%string
  end.
Definition basename (path : string) : string := basename_aux path EmptyString.

Definition patterns_of (f : string) : list string :=
  match find (fun e => String.eqb (fe_name e) f) parser_index with
  | Some e => fe_patterns e
  | None => []
  end.

(* `if pattern in ("*.*", "*"): continue`  - the test is on the unsplit pattern string *)
Definition is_catchall (pats : list string) : bool :=
  match pats with
  | [p] => String.eqb p "*.*" || String.eqb p "*"
  | _ => false
  end.

Definition matches (base f : string) : bool :=
  let pats := patterns_of f in
  if is_catchall pats then false else existsb (fnmatch base) pats.

Fixpoint remove_first (x : string) (l : list string) : list string :=
  match l with
  | [] => []
  | y :: l' => if String.eqb x y then l' else y :: remove_first x l'
  end.

(* ofmts.remove(fmt); ofmts.insert(0, fmt) *)
Definition move_front (f : string) (l : list string) : list string := f :: remove_first f l.

Definition reorder (base : string) (fmts : list string) : list string :=
  fold_left (fun acc f => if matches base f then move_front f acc else acc) fmts fmts.

Definition ordered_formats (filename : option string) : list string :=
  match filename with
  | None => base_formats
  | Some fn => if String.eqb fn EmptyString then base_formats else reorder (basename fn) base_formats
  end.

(* ---- the detection loop ------------------------------------------------------------------------- *)
Inductive auto_result (S : Type) : Type :=
| AOk (fmt : string) (s : S)              (* structure returned, self.format = fmt *)
| AFail (complaints : list string)        (* StructureFormatError listing `fmt: message` for these formats *)
| APropagate (k : kind).                  (* some parser's exception escapes detection *)
Arguments AOk {S} _ _.
Arguments AFail {S} _.
Arguments APropagate {S} _.

Fixpoint auto_loop {S} (parse_of : string -> res (option S)) (fmts : list string) (msgs : list string) : auto_result S :=
  match fmts with
  | [] => AFail (rev msgs)
  | f :: rest =>
      match parse_of f with
      | Ok (Some s) => AOk f s
      | Ok None => if auto_none_continues then auto_loop parse_of rest (f :: msgs)    (* `fmt: no structure found` *)
                   else AFail (rev msgs)                                             (* the loop used to stop here *)
      | Raise k =>
          if catches auto_collect_caught k then auto_loop parse_of rest (f :: msgs)
          else if catches auto_skip_caught k then auto_loop parse_of rest msgs
          else APropagate k
      end
  end.

Definition auto {S} (parse_of : string -> res (option S)) (filename : option string) : auto_result S :=
  auto_loop parse_of (ordered_formats filename) [].

(* a parser rejects: it raises something one of the two clauses handles *)
Definition rejects {S} (parse_of : string -> res (option S)) (g : string) : Prop :=
  (exists k, parse_of g = Raise k /\ (catches auto_collect_caught k || catches auto_skip_caught k = true)) \/
  (auto_none_continues = true /\ parse_of g = Ok None).

Definition complains {S} (parse_of : string -> res (option S)) (g : string) : bool :=
  match parse_of g with
  | Raise k => catches auto_collect_caught k
  | Ok None => auto_none_continues
  | Ok (Some _) => false
  end.

Fixpoint nodupb (l : list string) : bool :=
  match l with
  | [] => true
  | x :: l' => negb (existsb (String.eqb x) l') && nodupb l'
  end.
