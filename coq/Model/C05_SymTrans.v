(* C05/C06 - model of the custom-symbol translation of SymmetryConstraints.positionFormulas(xyzsymbols) /
   UFormulas(Usymbols):  re.sub(r"\b[xyz]\d+", lambda m: trsmbl[m.group(0)], formula)   (U: r"\bU\d\d\d+")
   as a left-to-right scanner over the characters: a token starts at a word boundary with a start letter and takes
   ALL following digits (the regex quantifier is greedy), needs at least `mind` digits, and is replaced by the user's
   symbol; the replacement text is not scanned again.  Model file: definitions only. *)
From Coq Require Import Ascii List Bool Arith.
Import ListNotations.

Definition chars := list ascii.
Definition is_digit (c : ascii) : bool := let n := nat_of_ascii c in (48 <=? n) && (n <=? 57).
Definition is_alpha (c : ascii) : bool :=
  let n := nat_of_ascii c in ((65 <=? n) && (n <=? 90)) || ((97 <=? n) && (n <=? 122)) || (n =? 95).
Definition is_word (c : ascii) : bool := is_digit c || is_alpha c.

Inductive scan_state := Plain (prev_word : bool) | Tok (acc : chars) (ndig : nat).

Section Scanner.
  Variable start : ascii -> bool.            (* [xyz] resp. U *)
  Variable mind : nat.                        (* minimal number of digits: 1 resp. 3 *)
  Variable tr : chars -> option chars.        (* the user's dictionary; a missing key leaves the token (Python raises KeyError) *)

  Definition flush (acc : chars) (ndig : nat) : chars :=
    if mind <=? ndig then match tr acc with Some u => u | None => acc end else acc.

  Fixpoint scan (st : scan_state) (s : chars) : chars :=
    match s with
    | [] => match st with Plain _ => [] | Tok acc n => flush acc n end
    | c :: r =>
        match st with
        | Tok acc n => if is_digit c then scan (Tok (acc ++ [c]) (S n)) r
                       else flush acc n ++ c :: scan (Plain (is_word c)) r
        | Plain pw => if negb pw && start c then scan (Tok [c] 0) r else c :: scan (Plain (is_word c)) r
        end
    end.
  Definition translate (s : chars) : chars := scan (Plain false) s.

  (* a formula seen as pieces: text without start letters, and parameter symbols *)
  Inductive chunk := Txt (s : chars) | Sym (letter : ascii) (digits : chars).
  Definition render1 (c : chunk) : chars := match c with Txt s => s | Sym l d => l :: d end.
  Definition render (l : list chunk) : chars := concat (map render1 l).
  Definition rename1 (c : chunk) : chunk :=
    match c with
    | Txt s => Txt s
    | Sym l d => match tr (l :: d) with Some u => Txt u | None => Sym l d end
    end.

  Definition last_word (pw : bool) (s : chars) : bool := match rev s with c :: _ => is_word c | [] => pw end.
  Definition starts_nondigit (l : list chunk) : Prop :=
    match l with [] => True | Txt (c :: _) :: _ => is_digit c = false | _ => False end.
  (* pw = "the character before this piece is a word character" *)
  Fixpoint wf (pw : bool) (l : list chunk) : Prop :=
    match l with
    | [] => True
    | Txt s :: r => s <> [] /\ Forall (fun c => start c = false) s /\ wf (last_word pw s) r
    | Sym lt d :: r => pw = false /\ start lt = true /\ is_digit lt = false /\ Forall (fun c => is_digit c = true) d /\
                       mind <= List.length d /\ starts_nondigit r /\ wf true r
    end.
End Scanner.

Definition is_xyz (c : ascii) : bool := let n := nat_of_ascii c in (n =? 120) || (n =? 121) || (n =? 122).
Definition is_U (c : ascii) : bool := nat_of_ascii c =? 85.
Definition translate_xyz := translate is_xyz 1.
Definition translate_U := translate is_U 3.
