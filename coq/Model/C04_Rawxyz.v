(* C04 - executable model of parsers/p_rawxyz.py (toLines / parseLines) on the view
   (per atom: element, Cartesian coordinates); the structure type of the xyz model is reused,
   the title is not part of the format. *)
From Coq Require Import List Bool Arith NArith ZArith String.
From Coq Require Import Ascii.
From DS Require Import Base.C04_Text Base.C04_Decimal Model.C04_Fmt Gen.C04_FmtSpecs Model.C04_Xyz.
Import ListNotations.

(* ---- writer: s = "%s %g %g %g" % (...); lines.append(s.lstrip()) ---- *)
Definition print_atom_raw (a : xatom) : option str := option_map lstrip (render rawxyz_w_atom (xyz_atom_args a)).
Definition print_rawxyz (S : xstru) : option (list str) := map_opt print_atom_raw (x_atoms S).

(* ---- reader ---- *)
Definition isfloat (t : str) : bool := match parse_float t with Some _ => true | None => false end.
Fixpoint bools_eqb (a b : list bool) : bool :=
  match a, b with
  | [], [] => true
  | x :: a', y :: b' => Bool.eqb x y && bools_eqb a' b'
  | _, _ => false
  end.

(* (el_idx, x_idx) chosen from the first data row *)
Definition raw_columns (first : list str) : option (option nat * nat) :=
  let ff := map isfloat first in
  if bools_eqb (firstn 3 ff) [true; true; true] then Some (None, 0%nat)
  else if bools_eqb (firstn 4 ff) [false; true; true; true] then Some (Some 0%nat, 1%nat)
  else None.

Definition parse_row_raw (nf : nat) (cols : option nat * nat) (fs : list str) : option (option xatom) :=
  match fs with
  | [] => Some None
  | _ => if (List.length fs =? nf)%nat then
           let el := match fst cols with Some i => nth i fs [] | None => [] end in
           match map_opt parse_float (slice (snd cols) (snd cols + 3) fs) with
           | Some [x; y; z] => Some (Some (XAtom el x y z))
           | _ => None
           end
         else None
  end.

Fixpoint parse_rows_raw (nf : nat) (cols : option nat * nat) (lfs : list (list str)) : option (list xatom) :=
  match lfs with
  | [] => Some []
  | fs :: r => match parse_row_raw nf cols fs, parse_rows_raw nf cols r with
               | Some (Some a), Some l => Some (a :: l)
               | Some None, Some l => Some l
               | _, _ => None
               end
  end.

Definition parse_rawxyz (lines : list str) : option xstru :=
  let lfs := map split_ws lines in
  let start := count_skip lfs in
  if (stop_of lfs <=? start)%nat then Some (XStru [] [])
  else
    match skipn start lfs with
    | (first :: _) as rest =>
        let nf := List.length first in
        if existsb (Nat.eqb nf) rawxyz_r_ncols then
          match raw_columns first with
          | Some cols => match parse_rows_raw nf cols rest with Some atoms => Some (XStru [] atoms) | None => None end
          | None => None
          end
        else None
    | [] => None
    end.

Definition write_rawxyz (S : xstru) : option str := option_map text_of_lines (print_rawxyz S).
Definition read_rawxyz (t : str) : option xstru := parse_rawxyz (lines_of_text t).

(* ---- what the format carries: elements as written, Cartesian coordinates at the %g precision ---- *)
Definition canon_ratom (a : xatom) : xatom :=
  XAtom (xa_el a) (gqd (gprec rawxyz_w_atom 0) (xa_x a)) (gqd (gprec rawxyz_w_atom 1) (xa_y a)) (gqd (gprec rawxyz_w_atom 2) (xa_z a)).
Definition canon_rawxyz (S : xstru) : xstru := XStru [] (map canon_ratom (x_atoms S)).

(* representable: every element is a non-empty blank-free word other than "#" that float() rejects, coordinates inside
   the non-exponent range of %g.  (The model also executes the element-less 3-column case; the theorem does not cover it.) *)
Definition repr_ratom (a : xatom) : bool :=
  negb (str_eqb (xa_el a) hash) && str_tok_ok (xa_el a) && negb (isfloat (xa_el a)) &&
  gen_ok (gprec rawxyz_w_atom 0) (xa_x a) && gen_ok (gprec rawxyz_w_atom 1) (xa_y a) && gen_ok (gprec rawxyz_w_atom 2) (xa_z a).
Definition repr_rawxyz (S : xstru) : bool := forallb repr_ratom (x_atoms S).
