(* Update histories of a Lattice object over the generated step functions. *)
From Coq Require Import Reals List.
From DS Require Import Base.RMat Base.Trig Model.LatDefs Gen.LatFormulas.
Import ListNotations.
Open Scope R_scope.

Inductive lop :=
| OSetLatPar (a b c alpha beta gamma : option R) (rot : option mat)   (* setLatPar with any subset of arguments;
                                                                         `L.a = x` is OSetLatPar (Some x) None ... (checked by the translator) *)
| OSetLatBase (B : mat)
| OCopy.                                                               (* Lattice(L): the attribute dictionary is copied *)

Definition step (l : lat) (o : lop) : lat :=
  match o with
  | OSetLatPar a b c al be ga r => setLatPar l a b c al be ga r
  | OSetLatBase B => setLatBase l B
  | OCopy => l
  end.
Definition run (ops : list lop) (l : lat) : lat := fold_left step ops l.

Definition merge {A} (o : option A) (d : A) : A := match o with Some v => v | None => d end.
