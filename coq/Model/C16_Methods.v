(* C16 - the entry points: which generated statement list runs for which class (Python method resolution:
   PDFFitStructure overrides read and readStr and calls the Structure versions; write is inherited). *)
From Coq Require Import ZArith List Bool.
From Coq Require Import Ascii String.
From DS Require Import Model.C16_ReadWriteTxn Gen.C16_RW.
Import ListNotations.
Open Scope string_scope.
Open Scope Z_scope.

Definition run_read (E : env) (G : args) (c : cls) (en : entry) : frame -> outcome :=
  match c, en with
  | CStructure, ReadFile => run0 E G structure_read
  | CStructure, ReadStr => run0 E G structure_readstr
  | CPDFFit, ReadFile => run1 E G structure_read structure_readstr pdffit_read
  | CPDFFit, ReadStr => run1 E G structure_read structure_readstr pdffit_readstr
  end.
Definition run_write (E : env) (G : args) : frame -> outcome := run0 E G structure_write.

(* a structure as the library maintains it: every atom refers to the structure's lattice *)
Definition wf_obj (o : obj) : bool := atoms_point_to_lattice_b o.
(* a parse result as every registered parser builds it: a Structure instance, which always carries its own
   lattice in the instance dictionary; a pdffit entry, when present, is a dictionary *)
Definition wf_parsed (ps : parsed) : bool :=
  match lookup "_lattice" (p_inst ps) with Some _ => true | None => false end &&
  match lookup "pdffit" (p_inst ps) with Some (VDict _) | None => true | Some _ => false end.
