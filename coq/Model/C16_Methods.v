(* C16 - the entry points: which generated statement list runs for which class (Python method resolution:
   PDFFitStructure overrides read and readStr and calls the Structure versions; write is inherited). *)
From Coq Require Import ZArith List Bool.
From Coq Require Import Ascii String.
From DS Require Import Model.C16_ReadWriteTxn Gen.C16_RW.
Import ListNotations.
Open Scope string_scope.
Open Scope Z_scope.

Definition run_read (E : env) (G : args) (c : cls) (en : entry) : frame -> outcome :=
  match c, en with
  | CStructure, ReadFile => run0 E G structure_read
  | CStructure, ReadStr => run0 E G structure_readstr
  | CPDFFit, ReadFile => run1 E G structure_read structure_readstr pdffit_read
  | CPDFFit, ReadStr => run1 E G structure_read structure_readstr pdffit_readstr
  end.
Definition run_write (E : env) (G : args) : frame -> outcome := run0 E G structure_write.

(* the pdffit entry of a parse result, when there is one, is a dictionary (what P_pdffit and P_discus build;
   the other parsers leave it out).  `update` lets the last entry of a name win, hence the rev. *)
Definition pdffit_entry_ok (ps : parsed) : bool :=
  match lookup "pdffit" (rev (p_inst ps)) with Some (VDict _) | None => true | Some _ => false end.
