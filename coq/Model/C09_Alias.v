(* C09 - identities of the array objects behind Atom._U and Atom.xyz for a collection of atoms.
   Which object a rebinding statement installs (new / own / caller's / the copied atom's) is GENERATED from atom.py
   (Gen/C09_AtomFormulas.c09_alias_table); in-place writes (`_U[:] = ..`, `_U[i, j] = ..`, `_U *= ..`, out=) bind nothing. *)
From Coq Require Import List Arith.
From DS Require Import Model.C09_Prims.
Import ListNotations.

Record obj := Obj { u_id : nat; x_id : nat }.
Record heap := Heap { objs : list obj; next : nat }.           (* next: the first array identity not yet in use *)

Definition get_id (w : which) (o : obj) : nat := match w with WU => u_id o | WX => x_id o end.
Definition set_id (w : which) (o : obj) (k : nat) : obj := match w with WU => Obj k (x_id o) | WX => Obj (u_id o) k end.

(* one rebinding statement on object o; src: the atom being copied, p: identity of an array of the caller (ANY identity,
   possibly the array of another atom obtained through the Atom.U getter) *)
Definition bind1 (src : option obj) (p : nat) (st : obj * nat) (e : bindev) : obj * nat :=
  let '(o, nx) := st in
  match e with
  | BFresh w => (set_id w o nx, S nx)
  | BOwn w => (o, nx)
  | BParam w => (set_id w o p, nx)
  | BShareSrc w => match src with Some s => (set_id w o (get_id w s), nx) | None => (o, nx) end
  end.
Definition bind_all (src : option obj) (p : nat) (st : obj * nat) (evs : list bindev) : obj * nat := fold_left (bind1 src p) evs st.

Inductive hevent :=
| HCall (i : nat) (evs : list bindev) (p : nat)   (* an accessor of atom i executes the rebinding statements evs *)
| HNew (evs : list bindev) (p : nat)              (* Atom(..): a new object *)
| HCopy (i : nat) (evs : list bindev) (p : nat).  (* a.__copy__(), copy.copy(a), Atom(a, ..): a new object made from atom i *)

Fixpoint replace_nth {A} (i : nat) (l : list A) (x : A) : list A :=
  match l, i with [], _ => [] | _ :: r, O => x :: r | y :: r, S j => y :: replace_nth j r x end.

Definition hstep (h : heap) (ev : hevent) : heap :=
  match ev with
  | HCall i evs p => match nth_error (objs h) i with
                     | Some o => let '(o', nx) := bind_all None p (o, next h) evs in Heap (replace_nth i (objs h) o') nx
                     | None => h
                     end
  | HNew evs p => let '(o', nx) := bind_all None p (Obj (next h) (S (next h)), S (S (next h))) evs in Heap (objs h ++ [o']) nx
  | HCopy i evs p => let '(o', nx) := bind_all (nth_error (objs h) i) p (Obj (next h) (S (next h)), S (S (next h))) evs in
                     Heap (objs h ++ [o']) nx
  end.
Definition hrun (h : heap) (evs : list hevent) : heap := fold_left hstep evs h.

Definition ids (l : list obj) : list nat := flat_map (fun o => [u_id o; x_id o]) l.
(* no two atoms share a tensor or coordinate array, no atom's tensor array is a coordinate array *)
Definition wf (h : heap) : Prop := NoDup (ids (objs h)) /\ Forall (fun k => k < next h) (ids (objs h)).

Definition safe (e : bindev) : bool := match e with BFresh _ | BOwn _ => true | _ => false end.
Definition evs_of (ev : hevent) : list bindev := match ev with HCall _ e _ | HNew e _ | HCopy _ e _ => e end.
