(* C04 - uniform token interface between the extracted models and the Python harness:
   every request is (format, operation, list of text tokens) and every answer an optional list of
   text tokens.  Decimals travel as plain decimal text ("-12.5000"): read WITHOUT normalisation
   (the harness sends the exact expansion of a double), written exactly. *)
From Coq Require Import List Bool Arith NArith ZArith String.
From Coq Require Import Ascii.
From DS Require Import Base.C04_Text Base.C04_Decimal Model.C04_Fmt Gen.C04_FmtSpecs.
From DS Require Import Model.C04_Xyz Model.C04_Rawxyz Model.C04_Pdffit Model.C04_Discus Model.C04_Pdb Model.C04_Xcfg Model.C04_Cif.
Import ListNotations.

Definition dec_of_tok (t : str) : option dec :=
  let '(neg, body) := split_sign t in
  match parse_unsigned body with Some (m, e) => Some (Dec neg m e) | None => None end.
Definition tok_of_dec (d : dec) : str := fix_body (dexp d) d.
Definition nat_of_tok (t : str) : option nat := match parse_int t with Some z => Some (Z.to_nat z) | None => None end.
Definition tok_of_nat (n : nat) : str := int_body (Z.of_nat n).
Definition tok_of_bool (b : bool) : str := if b then s"1" else s"0".

(* xyz / rawxyz : [title; el; x; y; z; el; x; y; z ...] *)
Fixpoint xatoms_of_toks (fuel : nat) (ts : list str) : option (list xatom) :=
  match fuel with
  | O => None
  | S f =>
    match ts with
    | [] => Some []
    | el :: x :: y :: z :: r =>
        match dec_of_tok x, dec_of_tok y, dec_of_tok z, xatoms_of_toks f r with
        | Some dx, Some dy, Some dz, Some l => Some (XAtom el dx dy dz :: l)
        | _, _, _, _ => None
        end
    | _ => None
    end
  end.
Definition xstru_of_toks (ts : list str) : option xstru :=
  match ts with
  | ttl :: r => match xatoms_of_toks (S (List.length r)) r with Some l => Some (XStru ttl l) | None => None end
  | [] => None
  end.
Definition toks_of_xstru (S : xstru) : list str :=
  x_title S :: flat_map (fun a => [xa_el a; tok_of_dec (xa_x a); tok_of_dec (xa_y a); tok_of_dec (xa_z a)]) (x_atoms S).

Definition op_write : str := s"write".   (* [view tokens] -> [text] *)
Definition op_read : str := s"read".     (* [text] -> view tokens *)
Definition op_canon : str := s"canon".
Definition op_repr : str := s"repr".

Definition run_x (write : xstru -> option str) (read : str -> option xstru) (canon : xstru -> xstru)
           (repr : xstru -> bool) (op : str) (ts : list str) : option (list str) :=
  if str_eqb op op_read then match ts with [t] => option_map toks_of_xstru (read t) | _ => None end
  else match xstru_of_toks ts with
       | None => None
       | Some X =>
           if str_eqb op op_write then option_map (fun t => [t]) (write X)
           else if str_eqb op op_canon then Some (toks_of_xstru (canon X))
           else if str_eqb op op_repr then Some [tok_of_bool (repr X)]
           else None
       end.

(* generic: read a run of decimals *)
Definition decs_of_toks (ts : list str) : option (list dec) := map_opt dec_of_tok ts.
Definition toks3 (v : d3) : list str := let '(a, b, c) := v in [tok_of_dec a; tok_of_dec b; tok_of_dec c].
Definition toks6 (v : d6) : list str := toks3 (fst v) ++ toks3 (snd v).

(* pdffit : title scale d2 d1 sr rc spcgr sphere stepcut cell(6) dcell(6) then 21 tokens per atom:
   el xyz(3) occ sigxyz(3) sigo Uii(3) sigUii(3) Uij(3) sigUij(3) *)
Fixpoint patoms_of_toks (fuel : nat) (ts : list str) : option (list patom) :=
  match fuel with
  | O => None
  | S f =>
    match ts with
    | [] => Some []
    | el :: r =>
        match decs_of_toks (firstn 20 r), patoms_of_toks f (skipn 20 r) with
        | Some [x; y; z; o; sx; sy; sz; so; u1; u2; u3; su1; su2; su3; v1; v2; v3; sv1; sv2; sv3], Some l =>
            Some (PAtom el (x, y, z) o (sx, sy, sz) so (u1, u2, u3) (su1, su2, su3) (v1, v2, v3) (sv1, sv2, sv3) :: l)
        | _, _ => None
        end
    end
  end.
Definition pstru_of_toks (ts : list str) : option pstru :=
  match ts with
  | ttl :: sc :: d2 :: d1 :: sr :: rc :: sg :: sph :: stp :: r =>
      match decs_of_toks [sc; d2; d1; sr; rc; sph; stp], decs_of_toks (firstn 12 r), patoms_of_toks (S (List.length r)) (skipn 12 r) with
      | Some [vsc; vd2; vd1; vsr; vrc; vsph; vstp], Some [a; b; c; al; be; ga; da; db; dc; dal; dbe; dga], Some atoms =>
          Some (PStru ttl vsc (vd2, vd1, vsr, vrc) sg vsph vstp ((a, b, c), (al, be, ga)) ((da, db, dc), (dal, dbe, dga)) atoms)
      | _, _, _ => None
      end
  | _ => None
  end.
Definition toks_of_patom (a : patom) : list str :=
  pa_el a :: toks3 (pa_xyz a) ++ [tok_of_dec (pa_occ a)] ++ toks3 (pa_sigxyz a) ++ [tok_of_dec (pa_sigo a)] ++
  toks3 (pa_uii a) ++ toks3 (pa_suii a) ++ toks3 (pa_uij a) ++ toks3 (pa_suij a).
Definition toks_of_pstru (S : pstru) : list str :=
  let '(d2, d1, sr, rc) := p_sharp S in
  [p_title S; tok_of_dec (p_scale S); tok_of_dec d2; tok_of_dec d1; tok_of_dec sr; tok_of_dec rc; p_spcgr S;
   tok_of_dec (p_sphere S); tok_of_dec (p_stepcut S)] ++ toks6 (p_cell S) ++ toks6 (p_dcell S) ++ flat_map toks_of_patom (p_atoms S).

(* discus : title spcgr sphere stepcut cell(6) then 5 tokens per atom: el x y z B *)
Fixpoint datoms_of_toks (fuel : nat) (ts : list str) : option (list datom) :=
  match fuel with
  | O => None
  | S f =>
    match ts with
    | [] => Some []
    | el :: x :: y :: z :: b :: r =>
        match decs_of_toks [x; y; z; b], datoms_of_toks f r with
        | Some [vx; vy; vz; vb], Some l => Some (DAtom el (vx, vy, vz) vb :: l)
        | _, _ => None
        end
    | _ => None
    end
  end.
Definition dstru_of_toks (ts : list str) : option dstru :=
  match ts with
  | ttl :: sg :: sph :: stp :: r =>
      match decs_of_toks [sph; stp], decs_of_toks (firstn 6 r), datoms_of_toks (S (List.length r)) (skipn 6 r) with
      | Some [vsph; vstp], Some [a; b; c; al; be; ga], Some atoms => Some (DStru ttl sg vsph vstp ((a, b, c), (al, be, ga)) atoms)
      | _, _, _ => None
      end
  | _ => None
  end.
Definition toks_of_dstru (S : dstru) : list str :=
  [d_title S; d_spcgr S; tok_of_dec (d_sphere S); tok_of_dec (d_stepcut S)] ++ toks6 (d_cell S) ++
  flat_map (fun a => da_el a :: toks3 (da_xyz a) ++ [tok_of_dec (da_b a)]) (d_atoms S).

(* pdb : title cell(6) then 14 tokens per atom: name el x y z occ B iso(0/1) U11 U22 U33 U12 U13 U23 *)
Fixpoint batoms_of_toks (fuel : nat) (ts : list str) : option (list batom) :=
  match fuel with
  | O => None
  | S f =>
    match ts with
    | [] => Some []
    | nm :: el :: r =>
        match decs_of_toks (firstn 5 r), nth_error r 5, decs_of_toks (firstn 6 (skipn 6 r)), batoms_of_toks f (skipn 12 r) with
        | Some [x; y; z; o; b], Some iso, Some [u1; u2; u3; u4; u5; u6], Some l =>
            Some (BAtom nm el (x, y, z) o b (str_eqb iso (s"1")) ((u1, u2, u3), (u4, u5, u6)) :: l)
        | _, _, _, _ => None
        end
    | _ => None
    end
  end.
Definition bstru_of_toks (ts : list str) : option bstru :=
  match ts with
  | ttl :: r =>
      match decs_of_toks (firstn 6 r), batoms_of_toks (S (List.length r)) (skipn 6 r) with
      | Some [a; b; c; al; be; ga], Some atoms => Some (BStru ttl ((a, b, c), (al, be, ga)) atoms)
      | _, _ => None
      end
  | [] => None
  end.
(* read answer: title hascell cell(6) then 16 tokens per atom: name el x y z occ hasB B aniso u(6) *)
Definition toks_of_ratom (a : ratom) : list str :=
  [r_name a; r_el a] ++ toks3 (r_rc a) ++ [tok_of_dec (r_occ a)] ++
  (match r_B a with Some b => [tok_of_bool true; tok_of_dec b] | None => [tok_of_bool false; tok_of_dec dzero] end) ++
  [tok_of_bool (r_aniso a)] ++ (match r_u a with [] => map tok_of_dec [dzero; dzero; dzero; dzero; dzero; dzero] | l => map tok_of_dec l end).
Definition toks_of_rstru (S : rstru) : list str :=
  [q_title S] ++ (match q_cell S with Some c => tok_of_bool true :: toks6 c | None => tok_of_bool false :: toks6 unit_cell end) ++
  flat_map toks_of_ratom (q_atoms S).

Definition run_pdb (op : str) (ts : list str) : option (list str) :=
  if str_eqb op op_read then match ts with [t] => option_map toks_of_rstru (read_pdb t) | _ => None end
  else match bstru_of_toks ts with
       | None => None
       | Some X =>
           if str_eqb op op_write then option_map (fun t => [t]) (write_pdb X)
           else if str_eqb op op_canon then Some (toks_of_rstru (canon_pdb X))
           else if str_eqb op op_repr then Some [tok_of_bool (repr_pdb X)]
           else None
       end.

(* xcfg : A base(9) nkept keptnames... then per atom: el pos(3) occ u(6) aniso(0/1) kept(nkept) *)
Fixpoint catoms_of_toks (nk : nat) (fuel : nat) (ts : list str) : option (list catom) :=
  match fuel with
  | O => None
  | S f =>
    match ts with
    | [] => Some []
    | el :: r =>
        match decs_of_toks (firstn 10 r), nth_error r 10, decs_of_toks (firstn nk (skipn 11 r)), catoms_of_toks nk f (skipn (11 + nk) r) with
        | Some [x; y; z; o; u1; u2; u3; u4; u5; u6], Some an, Some kept, Some l =>
            Some (CAtom el (x, y, z) o ((u1, u2, u3), (u4, u5, u6)) (str_eqb an (s"1")) kept :: l)
        | _, _, _, _ => None
        end
    end
  end.
Definition cstru_of_toks (ts : list str) : option cstru :=
  match ts with
  | a :: r =>
      match dec_of_tok a, decs_of_toks (firstn 9 r), nth_error r 9 with
      | Some vA, Some [b1; b2; b3; b4; b5; b6; b7; b8; b9], Some nk =>
          match nat_of_tok nk with
          | Some k =>
              let names := firstn k (skipn 10 r) in
              match catoms_of_toks k (S (List.length r)) (skipn (10 + k) r) with
              | Some atoms => Some (CStru vA ((b1, b2, b3), (b4, b5, b6), (b7, b8, b9)) names atoms)
              | None => None
              end
          | None => None
          end
      | _, _, _ => None
      end
  | [] => None
  end.
(* read answer: n A base(9) naux names... then per atom: el fields(3 + naux) *)
Definition toks_of_qcstru (S : qcstru) : list str :=
  let '(r1, r2, r3) := qc_base S in
  [int_body (qc_n S); tok_of_dec (qc_A S)] ++ toks3 r1 ++ toks3 r2 ++ toks3 r3 ++ [tok_of_nat (List.length (qc_aux S))] ++ qc_aux S ++
  flat_map (fun a => qc_el a :: map tok_of_dec (qc_fields a)) (qc_atoms S).

Definition run_xcfg (op : str) (ts : list str) : option (list str) :=
  if str_eqb op op_read then match ts with [t] => option_map toks_of_qcstru (read_xcfg t) | _ => None end
  else match cstru_of_toks ts with
       | None => None
       | Some X =>
           if str_eqb op op_write then option_map (fun t => [t]) (write_xcfg X)
           else if str_eqb op op_canon then Some (toks_of_qcstru (canon_xcfg X))
           else if str_eqb op op_repr then Some [tok_of_bool (repr_xcfg X)]
           else None
       end.

(* cif : title date cell(6) then 13 tokens per atom: el x y z uiso aniso(0/1) occ U11 U22 U33 U12 U13 U23 *)
Fixpoint fatoms_of_toks (fuel : nat) (ts : list str) : option (list fatom) :=
  match fuel with
  | O => None
  | S f =>
    match ts with
    | [] => Some []
    | el :: r =>
        match decs_of_toks (firstn 4 r), nth_error r 4, decs_of_toks (firstn 7 (skipn 5 r)), fatoms_of_toks f (skipn 12 r) with
        | Some [x; y; z; u], Some an, Some [o; u1; u2; u3; u4; u5; u6], Some l =>
            Some (FAtom el (x, y, z) u (str_eqb an (s"1")) o ((u1, u2, u3), (u4, u5, u6)) :: l)
        | _, _, _, _ => None
        end
    end
  end.
Definition fstru_of_toks (ts : list str) : option fstru :=
  match ts with
  | ttl :: date :: r =>
      match decs_of_toks (firstn 6 r), fatoms_of_toks (S (List.length r)) (skipn 6 r) with
      | Some [a; b; c; al; be; ga], Some atoms => Some (FStru ttl date ((a, b, c), (al, be, ga)) atoms)
      | _, _ => None
      end
  | _ => None
  end.
(* read answer: cell(6) then per atom: label el x y z uiso aniso occ hasU u(6) *)
Definition toks_of_gstru (S : gstru) : list str :=
  toks6 (g_cell S) ++
  flat_map (fun a => [g_label a; g_el a] ++ toks3 (g_xyz a) ++ [tok_of_dec (g_uiso a); tok_of_bool (g_aniso a); tok_of_dec (g_occ a)] ++
                     (match g_u a with [] => tok_of_bool false :: map tok_of_dec [dzero; dzero; dzero; dzero; dzero; dzero]
                                    | l => tok_of_bool true :: map tok_of_dec l end)) (g_atoms S).
(* tokens of the written layout: ncell (k v)* nsitecols cols* nsiterows (row cells)* nanisocols cols* nanisorows (row cells)* *)
Definition toks_of_block (b : cifblock) : list str :=
  [tok_of_nat (List.length (cb_cell b))] ++ flat_map (fun kv => [fst kv; snd kv]) (rev (cb_cell b)) ++
  [tok_of_nat (List.length (cb_site_cols b))] ++ cb_site_cols b ++ [tok_of_nat (List.length (cb_site_rows b))] ++ List.concat (cb_site_rows b) ++
  [tok_of_nat (List.length (cb_aniso_cols b))] ++ cb_aniso_cols b ++ [tok_of_nat (List.length (cb_aniso_rows b))] ++ List.concat (cb_aniso_rows b).
Definition run_cif (op : str) (ts : list str) : option (list str) :=
  if str_eqb op (s"tokens") then
    match ts with
    | [t] => let ls := lines_of_text t in option_map toks_of_block (tokenize (S (List.length ls)) ls (CifBlock [] [] [] [] []))
    | _ => None end
  else if str_eqb op op_read then match ts with [t] => option_map toks_of_gstru (read_cif t) | _ => None end
  else match fstru_of_toks ts with
       | None => None
       | Some X => if str_eqb op op_write then option_map (fun t => [t]) (write_cif X) else None
       end.

Definition run_gen {T} (of_toks : list str -> option T) (to_toks : T -> list str)
           (write : T -> option str) (read : str -> option T) (canon : T -> T) (repr : T -> bool) (op : str) (ts : list str) : option (list str) :=
  if str_eqb op op_read then match ts with [t] => option_map to_toks (read t) | _ => None end
  else match of_toks ts with
       | None => None
       | Some X =>
           if str_eqb op op_write then option_map (fun t => [t]) (write X)
           else if str_eqb op op_canon then Some (to_toks (canon X))
           else if str_eqb op op_repr then Some [tok_of_bool (repr X)]
           else None
       end.

Definition wire_run (fmt op : str) (ts : list str) : option (list str) :=
  if str_eqb fmt (s"xyz") then run_x write_xyz read_xyz canon_xyz repr_xyz op ts
  else if str_eqb fmt (s"rawxyz") then run_x write_rawxyz read_rawxyz canon_rawxyz repr_rawxyz op ts
  else if str_eqb fmt (s"pdffit") then run_gen pstru_of_toks toks_of_pstru write_pdffit read_pdffit canon_pdffit repr_pdffit op ts
  else if str_eqb fmt (s"discus") then run_gen dstru_of_toks toks_of_dstru write_discus read_discus canon_discus repr_discus op ts
  else if str_eqb fmt (s"pdb") then run_pdb op ts
  else if str_eqb fmt (s"xcfg") then run_xcfg op ts
  else if str_eqb fmt (s"cif") then run_cif op ts
  else None.
