(* C20 - executable model of the transtru command line program.

   `main sp argv W L` interprets the statement list that translate/c20_cli.py extracts from the
   CURRENT source of diffpy/structure/apps/transtru.py:main (Gen/C20_CliSpec.v) and returns what the
   process shows to its caller: standard output, standard error, exit status, and whether it died
   with an uncaught exception (Python then prints a traceback and exits with status 1).

   Modelled by hand (trusted, compared with the real program on every run): Python's getopt.getopt
   for options without arguments, str.split(sep[, maxsplit]), `in`, `==`, `%s` formatting, print,
   sys.exit, try/except with the exception hierarchy of the kinds below.
   Oracles (inputs of the model): the library (Structure.read / readStr / writeStr: what they print on stdout
   and what they return or raise), the file system seen by Structure.read, standard input, and the
   texts printed by usage()/version().
   No proofs in this file. *)
From Coq Require Import List ZArith Bool Ascii String.
Import ListNotations.
Open Scope string_scope.

(* ---------------------------------------------------------------- strings *)
Definition nl_char : ascii := ascii_of_nat 10.
Definition nl : string := String nl_char "".

Fixpoint no_nl (s : string) : bool :=
  match s with
  | "" => true
  | String c r => negb (Ascii.eqb c nl_char) && no_nl r
  end.

(* s.startswith(p); recursion on p so that it computes on a known prefix of an unknown string *)
Fixpoint starts_with (p s : string) : bool :=
  match p with
  | "" => true
  | String a p' => match s with
                   | "" => false
                   | String b s' => Ascii.eqb a b && starts_with p' s'
                   end
  end.

Fixpoint drop (n : nat) (s : string) : string :=
  match n, s with
  | O, _ => s
  | S k, String _ r => drop k r
  | S _, "" => ""
  end.

(* s.split(sep, 1) for a non-empty sep: None when sep does not occur, else (before, after) of the FIRST occurrence *)
Fixpoint split_first (sep s : string) : option (string * string) :=
  match s with
  | "" => None
  | String c r =>
      if starts_with sep s then Some ("", drop (String.length sep) s)
      else match split_first sep r with
           | Some (a, b) => Some (String c a, b)
           | None => None
           end
  end.

(* s.split(sep, fuel) : at most fuel splits *)
Fixpoint split_max (fuel : nat) (sep s : string) : list string :=
  match fuel with
  | O => [s]
  | S k => match split_first sep s with
           | None => [s]
           | Some (a, b) => a :: split_max k sep b
           end
  end.

Definition py_split (sep s : string) (maxsplit : option nat) : list string :=
  split_max (match maxsplit with Some n => n | None => String.length s end) sep s.

Definition mem (x : string) (l : list string) : bool := existsb (String.eqb x) l.

(* ---------------------------------------------------------------- getopt.getopt (options without arguments) *)
Inductive gres := GOk (opts args : list string) | GErr (msg : string).

Fixpoint short_known (c : ascii) (shortopts : string) : bool :=
  match shortopts with
  | "" => false
  | String d r => (Ascii.eqb c d && negb (Ascii.eqb c ":")) || short_known c r
  end.

Fixpoint do_shorts (shortopts optstring : string) : list string + string :=
  match optstring with
  | "" => inl []
  | String c r =>
      if short_known c shortopts then
        match do_shorts shortopts r with
        | inl l => inl (String "-" (String c "") :: l)
        | inr m => inr m
        end
      else inr ("option -" ++ String c "" ++ " not recognized")
  end.

Definition long_match (opt : string) (longopts : list string) : string + string :=
  let poss := filter (fun o => starts_with opt o) longopts in
  match poss with
  | [] => inr ("option --" ++ opt ++ " not recognized")
  | [u] => inl (if mem opt poss then opt else u)
  | _ => if mem opt poss then inl opt else inr ("option --" ++ opt ++ " not a unique prefix")
  end.

Definition do_long (longopts : list string) (text : string) : string + string :=
  let '(opt, optarg) := match split_first "=" text with
                        | Some (o, a) => (o, Some a)
                        | None => (text, None)
                        end in
  match long_match opt longopts with
  | inr m => inr m
  | inl full => match optarg with
                | Some _ => inr ("option --" ++ full ++ " must not have an argument")
                | None => inl ("--" ++ full)
                end
  end.

Fixpoint getopt (shortopts : string) (longopts : list string) (args : list string) : gres :=
  match args with
  | [] => GOk [] []
  | a :: rest =>
      if starts_with "-" a && negb (String.eqb a "-") then
        if String.eqb a "--" then GOk [] rest
        else if starts_with "--" a then
          match do_long longopts (drop 2 a) with
          | inr m => GErr m
          | inl o => match getopt shortopts longopts rest with
                     | GOk os ar => GOk (o :: os) ar
                     | GErr m => GErr m
                     end
          end
        else
          match do_shorts shortopts (drop 1 a) with
          | inr m => GErr m
          | inl os1 => match getopt shortopts longopts rest with
                       | GOk os ar => GOk (os1 ++ os)%list ar
                       | GErr m => GErr m
                       end
          end
      else GOk [] args
  end.

(* ---------------------------------------------------------------- exceptions *)
Inductive ekind :=
| KIndexError | KIOError | KStructureFormatError | KValueError | KUnicodeDecodeError
| KNotImplementedError | KGetoptError | KOther (name : string).

Record exn := mkexn { e_kind : ekind; e_str : string; e_strerror : option string }.

(* names usable in `except` clauses *)
Inductive epat :=
| PIndexError | PIOError | PStructureFormatError | PValueError | PUnicodeDecodeError
| PNotImplementedError | PGetoptError | PException.

(* isinstance(exception of kind k, class p) *)
Definition isa (k : ekind) (p : epat) : bool :=
  match p, k with
  | PException, _ => true
  | PIndexError, KIndexError => true
  | PIOError, KIOError => true
  | PStructureFormatError, KStructureFormatError => true
  | PValueError, KValueError => true
  | PValueError, KUnicodeDecodeError => true
  | PUnicodeDecodeError, KUnicodeDecodeError => true
  | PNotImplementedError, KNotImplementedError => true
  | PGetoptError, KGetoptError => true
  | _, _ => false
  end.

Definition kind_name (k : ekind) : string :=
  match k with
  | KIndexError => "IndexError" | KIOError => "OSError" | KStructureFormatError => "StructureFormatError"
  | KValueError => "ValueError" | KUnicodeDecodeError => "UnicodeDecodeError"
  | KNotImplementedError => "NotImplementedError" | KGetoptError => "GetoptError" | KOther n => n
  end.

Inductive res (A : Type) := Ok (a : A) | Raise (e : exn).
Arguments Ok {A} a.
Arguments Raise {A} e.

(* ---------------------------------------------------------------- oracles *)
Inductive fsentry := FsFile (content : string) | FsError (str strerror : string).

(* every library call yields what it printed on sys.stdout and its result *)
Record library := mklib {
  lib_parseFile : string -> string -> string -> string * res string;  (* filename, content, format *)
  lib_readStr : string -> string -> string * res string;              (* text, format *)
  lib_writeStr : string -> string -> string * res string              (* structure, format *)
}.

Record world := mkworld {
  w_stdin : string;
  w_fs : string -> fsentry;
  w_usage : string;        (* everything usage() prints *)
  w_brief : string;        (* everything usage("brief") prints *)
  w_version : string       (* everything version() prints *)
}.

Definition empty_structure : string := "<empty Structure()>".

(* Structure().read(file, fmt) : open the file (IOError from the file system) and parse it *)
Definition lib_read (W : world) (L : library) (file fmt : string) : string * res string :=
  match w_fs W file with
  | FsError s se => ("", Raise (mkexn KIOError s (Some se)))
  | FsFile c => lib_parseFile L file c fmt
  end.

(* the library's own way to load the input named on the command line *)
Definition lib_input (W : world) (L : library) (file fmt : string) : string * res string :=
  if String.eqb file "-" then lib_readStr L (w_stdin W) fmt else lib_read W L file fmt.

(* the library's own read-then-write: everything it prints, then the text or the exception *)
Definition lib_convert (W : world) (L : library) (file infmt outfmt : string) : string * res string :=
  let r := lib_input W L file infmt in
  match snd r with
  | Raise e => (fst r, Raise e)
  | Ok s => let w := lib_writeStr L s outfmt in (fst r ++ fst w, snd w)
  end.

(* ---------------------------------------------------------------- program syntax *)
Inductive stream := Stdout | Stderr.

Inductive fpiece := FLit (s : string) | FVar (x : string) | FAttr (x attr : string) | FArg (i : nat).

Inductive expr :=
| EStr (s : string)
| EVar (x : string)
| EArg (i : nat)                 (* args[i] *)
| EStdin                         (* sys.stdin.read() *)
| EAttr (x attr : string)        (* x.attr *)
| EFmt (pieces : list fpiece).   (* "..%s.." % (...) *)

Inductive strset := SetLit (l : list string) | SetInputFormats | SetOutputFormats.

Inductive cond :=
| CLenArgsLt (n : nat)           (* len(args) < n *)
| CIn (e : expr) (s : strset)
| CNotIn (e : expr) (s : strset)
| CEq (a b : expr).

Inductive stmt :=
| SSkip
| SSeq (a b : stmt)
| SGetopt (shortopts : string) (longopts : list string)   (* opts, args = getopt.getopt(sys.argv[1:], ..) *)
| SForOpts (var : string) (body : stmt)                   (* for var, _ in opts: body *)
| SIf (c : cond) (t e : stmt)
| SSplit2 (x y : string) (e : expr) (sep : string) (maxsplit : option nat)   (* x, y = e.split(sep[, n]) *)
| SAssign (x : string) (e : expr)
| SNewStru (x : string)                                   (* x = Structure() *)
| SRead (x : string) (file fmt : expr)                    (* x.read(file, fmt) *)
| SReadStr (x : string) (text fmt : expr)                 (* x.readStr(text, fmt) *)
| SWriteOut (x : string) (fmt : expr)                     (* sys.stdout.write(x.writeStr(fmt)) *)
| SPrint (to : stream) (e : expr)                         (* print(e[, file=sys.stderr]) *)
| SUsage (brief : bool)
| SVersion
| SExit (code : Z)                                        (* sys.exit(code); sys.exit() is code 0 *)
| SReturn
| STry (body : stmt) (h : handlers)
with handlers :=
| HNil
| HCons (pats : list epat) (bind : option string) (body : stmt) (rest : handlers).

Record spec := mkspec { sp_prog : stmt; sp_in : list string; sp_out : list string }.

(* ---------------------------------------------------------------- state *)
Inductive value := VStr (s : string) | VExn (e : exn) | VStru (s : string).

Record state := mkstate {
  st_env : list (string * value);
  st_opts : list string;
  st_args : list string;
  st_out : string;
  st_err : string
}.

Definition init_state : state := mkstate [] [] [] "" "".

Fixpoint lookup (x : string) (env : list (string * value)) : option value :=
  match env with
  | [] => None
  | (y, v) :: r => if String.eqb x y then Some v else lookup x r
  end.

(* assignment rebinds the name in place *)
Fixpoint env_set (x : string) (v : value) (env : list (string * value)) : list (string * value) :=
  match env with
  | [] => [(x, v)]
  | (y, w) :: r => if String.eqb x y then (x, v) :: r else (y, w) :: env_set x v r
  end.

Definition set_var (x : string) (v : value) (st : state) : state :=
  mkstate (env_set x v (st_env st)) (st_opts st) (st_args st) (st_out st) (st_err st).

Definition put (to : stream) (s : string) (st : state) : state :=
  match to with
  | Stdout => mkstate (st_env st) (st_opts st) (st_args st) (st_out st ++ s) (st_err st)
  | Stderr => mkstate (st_env st) (st_opts st) (st_args st) (st_out st) (st_err st ++ s)
  end.

Definition other (name : string) : exn := mkexn (KOther name) name None.

(* str(v) *)
Definition str_of (v : value) : res string :=
  match v with
  | VStr s => Ok s
  | VExn e => Ok (e_str e)
  | VStru _ => Ok "<Structure>"
  end.

Definition attr_of (v : value) (attr : string) : res string :=
  match v with
  | VExn e =>
      if String.eqb attr "strerror" then
        match e_strerror e, e_kind e with
        | Some s, _ => Ok s
        | None, KIOError => Ok "None"
        | None, _ => Raise (other "AttributeError")
        end
      else Raise (other "AttributeError")
  | _ => Raise (other "AttributeError")
  end.

Definition get_var (x : string) (st : state) : res value :=
  match lookup x (st_env st) with
  | Some v => Ok v
  | None => Raise (other "UnboundLocalError")
  end.

Definition get_arg (i : nat) (st : state) : res string :=
  match nth_error (st_args st) i with
  | Some a => Ok a
  | None => Raise (mkexn KIndexError "list index out of range" None)
  end.

Definition eval_piece (W : world) (st : state) (p : fpiece) : res string :=
  match p with
  | FLit s => Ok s
  | FVar x => match get_var x st with Ok v => str_of v | Raise e => Raise e end
  | FAttr x a => match get_var x st with Ok v => attr_of v a | Raise e => Raise e end
  | FArg i => get_arg i st
  end.

Fixpoint eval_pieces (W : world) (st : state) (ps : list fpiece) : res string :=
  match ps with
  | [] => Ok ""
  | p :: r => match eval_piece W st p with
              | Raise e => Raise e
              | Ok s => match eval_pieces W st r with
                        | Raise e => Raise e
                        | Ok t => Ok (s ++ t)
                        end
              end
  end.

(* expressions evaluate to the text str() gives (all uses in main are textual) *)
Definition eval (W : world) (st : state) (e : expr) : res string :=
  match e with
  | EStr s => Ok s
  | EVar x => match get_var x st with Ok v => str_of v | Raise e => Raise e end
  | EArg i => get_arg i st
  | EStdin => Ok (w_stdin W)
  | EAttr x a => match get_var x st with Ok v => attr_of v a | Raise e => Raise e end
  | EFmt ps => eval_pieces W st ps
  end.

Definition set_of (sp : spec) (s : strset) : list string :=
  match s with
  | SetLit l => l
  | SetInputFormats => sp_in sp
  | SetOutputFormats => sp_out sp
  end.

Definition eval_cond (sp : spec) (W : world) (st : state) (c : cond) : res bool :=
  match c with
  | CLenArgsLt n => Ok (Nat.ltb (List.length (st_args st)) n)
  | CIn e s => match eval W st e with Ok v => Ok (mem v (set_of sp s)) | Raise x => Raise x end
  | CNotIn e s => match eval W st e with Ok v => Ok (negb (mem v (set_of sp s))) | Raise x => Raise x end
  | CEq a b => match eval W st a with
               | Raise x => Raise x
               | Ok va => match eval W st b with Ok vb => Ok (String.eqb va vb) | Raise x => Raise x end
               end
  end.

Inductive outcome :=
| ONormal (st : state)
| OExc (e : exn) (st : state)
| OExit (code : Z) (st : state)
| OReturn (st : state).

Fixpoint for_loop (f : string -> state -> outcome) (os : list string) (st : state) : outcome :=
  match os with
  | [] => ONormal st
  | o :: r => match f o st with
              | ONormal st' => for_loop f r st'
              | other => other
              end
  end.

(* a library call: its noise goes to stdout first, then it returns or raises *)
Definition lib_call (x : string) (r : string * res string) (st : state) : outcome :=
  let st1 := put Stdout (fst r) st in
  match snd r with
  | Ok s => ONormal (set_var x (VStru s) st1)
  | Raise e => OExc e st1
  end.

Definition stru_of (x : string) (st : state) : res string :=
  match get_var x st with
  | Ok (VStru s) => Ok s
  | Ok _ => Raise (other "AttributeError")
  | Raise e => Raise e
  end.

Fixpoint exec (sp : spec) (W : world) (L : library) (argv : list string) (s : stmt) (st : state) {struct s} : outcome :=
  match s with
  | SSkip => ONormal st
  | SSeq a b => match exec sp W L argv a st with
                | ONormal st' => exec sp W L argv b st'
                | other => other
                end
  | SGetopt sh lo => match getopt sh lo argv with
                     | GOk os ar => ONormal (mkstate (st_env st) os ar (st_out st) (st_err st))
                     | GErr m => OExc (mkexn KGetoptError m None) st
                     end
  | SForOpts v body => for_loop (fun o st1 => exec sp W L argv body (set_var v (VStr o) st1)) (st_opts st) st
  | SIf c t e => match eval_cond sp W st c with
                 | Raise x => OExc x st
                 | Ok true => exec sp W L argv t st
                 | Ok false => exec sp W L argv e st
                 end
  | SSplit2 x y e sep ms =>
      match eval W st e with
      | Raise ex => OExc ex st
      | Ok v => match py_split sep v ms with
                | [a; b] => ONormal (set_var y (VStr b) (set_var x (VStr a) st))
                | _ => OExc (mkexn KValueError "wrong number of values to unpack" None) st
                end
      end
  | SAssign x e => match eval W st e with
                   | Raise ex => OExc ex st
                   | Ok v => ONormal (set_var x (VStr v) st)
                   end
  | SNewStru x => ONormal (set_var x (VStru empty_structure) st)
  | SRead x f fm =>
      match stru_of x st with
      | Raise ex => OExc ex st
      | Ok _ => match eval W st f with
                | Raise ex => OExc ex st
                | Ok file => match eval W st fm with
                             | Raise ex => OExc ex st
                             | Ok fmt => lib_call x (lib_read W L file fmt) st
                             end
                end
      end
  | SReadStr x t fm =>
      match stru_of x st with
      | Raise ex => OExc ex st
      | Ok _ => match eval W st t with
                | Raise ex => OExc ex st
                | Ok text => match eval W st fm with
                             | Raise ex => OExc ex st
                             | Ok fmt => lib_call x (lib_readStr L text fmt) st
                             end
                end
      end
  | SWriteOut x fm =>
      match stru_of x st with
      | Raise ex => OExc ex st
      | Ok s => match eval W st fm with
                | Raise ex => OExc ex st
                | Ok fmt => let r := lib_writeStr L s fmt in
                            let st1 := put Stdout (fst r) st in
                            match snd r with
                            | Ok text => ONormal (put Stdout text st1)
                            | Raise ex => OExc ex st1
                            end
                end
      end
  | SPrint to e => match eval W st e with
                   | Raise ex => OExc ex st
                   | Ok v => ONormal (put to (v ++ nl) st)
                   end
  | SUsage brief => ONormal (put Stdout (if brief then w_brief W else w_usage W) st)
  | SVersion => ONormal (put Stdout (w_version W) st)
  | SExit code => OExit code st
  | SReturn => OReturn st
  | STry body h => match exec sp W L argv body st with
                   | OExc e st' => exec_handlers sp W L argv h e st'
                   | other => other
                   end
  end
with exec_handlers (sp : spec) (W : world) (L : library) (argv : list string) (h : handlers) (e : exn) (st : state) {struct h} : outcome :=
  match h with
  | HNil => OExc e st
  | HCons pats bind body rest =>
      if existsb (isa (e_kind e)) pats then
        exec sp W L argv body (match bind with Some x => set_var x (VExn e) st | None => st end)
      else exec_handlers sp W L argv rest e st
  end.

(* ---------------------------------------------------------------- what the caller of the process sees *)
Record result := mkres { r_out : string; r_err : string; r_status : Z; r_tb : option string }.

Definition tb_marker : string := "Traceback (most recent call last):" ++ nl.

Definition finish (o : outcome) : result :=
  match o with
  | ONormal st | OReturn st => mkres (st_out st) (st_err st) 0 None
  | OExit c st => mkres (st_out st) (st_err st) c None
  | OExc e st => mkres (st_out st) (st_err st ++ tb_marker ++ kind_name (e_kind e) ++ nl) 1 (Some (kind_name (e_kind e)))
  end.

Definition main (sp : spec) (argv : list string) (W : world) (L : library) : result :=
  finish (exec sp W L argv (sp_prog sp) init_state).

(* ---------------------------------------------------------------- vocabulary of the property *)
(* exactly one line: text without newline followed by one newline *)
Definition one_line (s : string) : Prop := exists body, s = body ++ nl /\ no_nl body = true /\ body <> "".

(* a format specification INFMT..OUTFMT naming registered formats *)
Definition spec_ok (sp : spec) (a0 : string) : bool :=
  match split_first ".." a0 with
  | None => false
  | Some (i, o) => mem i (sp_in sp) && mem o (sp_out sp)
  end.

Definition quiet (L : library) : Prop :=
  (forall f c m, fst (lib_parseFile L f c m) = "") /\ (forall t m, fst (lib_readStr L t m) = "") /\
  (forall s m, fst (lib_writeStr L s m) = "").

(* the exception kinds the library documents for unusable input *)
Definition documented_kind (k : ekind) : bool :=
  match k with
  | KIOError | KStructureFormatError | KNotImplementedError | KUnicodeDecodeError => true
  | _ => false
  end.

(* content that cannot be converted: not in the stated format, unsupported record, undecodable bytes *)
Definition content_kind (k : ekind) : bool :=
  match k with
  | KStructureFormatError | KNotImplementedError | KUnicodeDecodeError => true
  | _ => false
  end.

Definition raises_only (P : ekind -> bool) (L : library) : Prop :=
  (forall f c m e, snd (lib_parseFile L f c m) = Raise e -> P (e_kind e) = true) /\
  (forall t m e, snd (lib_readStr L t m) = Raise e -> P (e_kind e) = true) /\
  (forall s m e, snd (lib_writeStr L s m) = Raise e -> P (e_kind e) = true).

(* ---------------------------------------------------------------- scenario helpers for correspondence runs *)
(* a library that answers one expected call per entry point and flags any other call *)
Definition lib_one (file content infmt : string) (rd : string * res string)
                   (stru outfmt : string) (wr : string * res string) : library :=
  mklib (fun f c m => if String.eqb f file && String.eqb c content && String.eqb m infmt then rd
                      else ("", Raise (other "UnexpectedParseFileCall")))
        (fun t m => if String.eqb t content && String.eqb m infmt then rd
                    else ("", Raise (other "UnexpectedReadStrCall")))
        (fun s m => if String.eqb s stru && String.eqb m outfmt then wr
                    else ("", Raise (other "UnexpectedWriteStrCall"))).

(* a library that gives the same answers whatever it is asked *)
Definition lib_const (rd wr : string * res string) : library :=
  mklib (fun _ _ _ => rd) (fun _ _ => rd) (fun _ _ => wr).

Definition fs_one (file : string) (e : fsentry) : string -> fsentry :=
  fun f => if String.eqb f file then e else FsError ("[Errno 2] No such file or directory: '" ++ f ++ "'") "No such file or directory".

Definition result_eqb (a b : result) : bool :=
  String.eqb (r_out a) (r_out b) && String.eqb (r_err a) (r_err b) && Z.eqb (r_status a) (r_status b) &&
  match r_tb a, r_tb b with
  | None, None => true
  | Some x, Some y => String.eqb x y
  | _, _ => false
  end.
