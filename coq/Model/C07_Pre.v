(* C07 - tables computed once for running the reader model (Eval vm_compute at compile time):
   the fingerprint table of FindSpaceGroup and the identifier table of GetSpaceGroup.
   `find_fast` unfolds to C11's find_space_group on all_settings (Proofs/C07_SG.find_fast_eq). *)
From Coq Require Import ZArith List String.
From DS Require Import Base.ZMat Base.SGDefs Model.C11_LookupDefs Model.C11_Checks Gen.SGTables Gen.LookupSpec.
Import ListNotations.

Definition fpt := Eval vm_compute in fp_table all_settings.
Definition find_fast (ops : list symop) : option (setting * bool) :=
  match fp_lookup_last fpt (fingerprint ops) None with
  | Some s => Some (s, same_order (sg_ops s) ops)
  | None => None
  end.
Definition Tb_fast := Eval vm_compute in match the_table with Some t => t | None => [] end.
