(* C06 - symmetric tensors over Q, the action U -> R U R^T that _findUSpace / _findeqUij / UFormula use
   (R = rotation part of the operation, applied as numpy.dot(R, numpy.dot(U, R.T))), and the certificate
   checker for what GeneratorSite reports about the displacement tensor of one site.
   A tensor is the 6-vector (U11,U22,U33,U12,U13,U23) - the order of GeneratorSite.Ucomponents.
   Model file: definitions only. *)
From Coq Require Import ZArith QArith Qabs List Bool.
From DS Require Import Base.ZMat Base.SGDefs Model.C05_QBase.
Import ListNotations.
Open Scope Q_scope.

Record s6 := S6 { u11 : Q; u22 : Q; u33 : Q; u12 : Q; u13 : Q; u23 : Q }.

Definition s6zero : s6 := S6 0 0 0 0 0 0.
Definition s6add (a b : s6) : s6 :=
  S6 (u11 a + u11 b) (u22 a + u22 b) (u33 a + u33 b) (u12 a + u12 b) (u13 a + u13 b) (u23 a + u23 b).
Definition s6sub (a b : s6) : s6 :=
  S6 (u11 a - u11 b) (u22 a - u22 b) (u33 a - u33 b) (u12 a - u12 b) (u13 a - u13 b) (u23 a - u23 b).
Definition s6scale (c : Q) (a : s6) : s6 := S6 (c * u11 a) (c * u22 a) (c * u33 a) (c * u12 a) (c * u13 a) (c * u23 a).
Definition s6eq (a b : s6) : Prop :=
  u11 a == u11 b /\ u22 a == u22 b /\ u33 a == u33 b /\ u12 a == u12 b /\ u13 a == u13 b /\ u23 a == u23 b.
Definition s6eqb (a b : s6) : bool :=
  Qeq_bool (u11 a) (u11 b) && Qeq_bool (u22 a) (u22 b) && Qeq_bool (u33 a) (u33 b) &&
  Qeq_bool (u12 a) (u12 b) && Qeq_bool (u13 a) (u13 b) && Qeq_bool (u23 a) (u23 b).
(* plain dot product of the 6-vectors (used for the dual functionals of the span witness) *)
Definition s6dot (a b : s6) : Q :=
  u11 a * u11 b + u22 a * u22 b + u33 a * u33 b + u12 a * u12 b + u13 a * u13 b + u23 a * u23 b.
(* Frobenius product of the 3x3 arrays = numpy.dot(U.flatten(), V.flatten()): off-diagonals count twice *)
Definition frob (a b : s6) : Q :=
  u11 a * u11 b + u22 a * u22 b + u33 a * u33 b + 2 * (u12 a * u12 b + u13 a * u13 b + u23 a * u23 b).

Definition d1 : s6 := S6 1 0 0 0 0 0.
Definition d2 : s6 := S6 0 1 0 0 0 0.
Definition d3 : s6 := S6 0 0 1 0 0 0.
Definition d4 : s6 := S6 0 0 0 1 0 0.
Definition d5 : s6 := S6 0 0 0 0 1 0.
Definition d6 : s6 := S6 0 0 0 0 0 1.

(* a^T U b *)
Definition quad (a b : q3) (U : s6) : Q :=
  qx a * (u11 U * qx b + u12 U * qy b + u13 U * qz b) +
  qy a * (u12 U * qx b + u22 U * qy b + u23 U * qz b) +
  qz a * (u13 U * qx b + u23 U * qy b + u33 U * qz b).

Definition row1 (R : m3) : q3 := Q3 (iz (m11 R)) (iz (m12 R)) (iz (m13 R)).
Definition row2 (R : m3) : q3 := Q3 (iz (m21 R)) (iz (m22 R)) (iz (m23 R)).
Definition row3 (R : m3) : q3 := Q3 (iz (m31 R)) (iz (m32 R)) (iz (m33 R)).

(* R U R^T *)
Definition conj (R : m3) (U : s6) : s6 :=
  S6 (quad (row1 R) (row1 R) U) (quad (row2 R) (row2 R) U) (quad (row3 R) (row3 R) U)
     (quad (row1 R) (row2 R) U) (quad (row1 R) (row3 R) U) (quad (row2 R) (row3 R) U).

(* U is allowed by the site: invariant under the rotation part of every operation of S *)
Definition Inv (S : list symop) (U : s6) : Prop := forall g, In g S -> s6eq (conj (fst g) U) U.

Fixpoint lin6 (B : list s6) (u : list Q) : s6 :=
  match B, u with
  | b :: B', a :: u' => s6add (s6scale a b) (lin6 B' u')
  | _, _ => s6zero
  end.

(* _findUParameters + first half of _findeqUij: coefficient <U,b>/<b,b> per basis tensor, then the sum *)
Definition coefs (B : list s6) (U : s6) : list Q := map (fun b => frob U b / frob b b) B.
Definition proj (B : list s6) (U : s6) : s6 := lin6 B (coefs B U).

(* 6x6 rational matrix by columns *)
Record s66 := S66 { k1 : s6; k2 : s6; k3 : s6; k4 : s6; k5 : s6; k6 : s6 }.
Definition comb6 (w a1 a2 a3 a4 a5 a6 : s6) : s6 :=
  s6add (s6scale (u11 w) a1) (s6add (s6scale (u22 w) a2) (s6add (s6scale (u33 w) a3)
  (s6add (s6scale (u12 w) a4) (s6add (s6scale (u13 w) a5) (s6scale (u23 w) a6))))).
Definition cmul6 (C : s66) (w : s6) : s6 := comb6 w (k1 C) (k2 C) (k3 C) (k4 C) (k5 C) (k6 C).

Record uform := { uf_rep : nat; uf_eqU : s6; uf_cols : list s6 }.

Record ucert := {
  uc_x : q3;
  uc_tol : Q;
  uc_B : list s6;          (* reported Uspace *)
  uc_Uin : s6;             (* input tensor (times uc-scale, see below) *)
  uc_par : list Q;         (* reported Uparameters values *)
  uc_Uij : s6;             (* reported stored tensor *)
  uc_iso : bool;           (* reported Uisotropy *)
  uc_P : list s6;          (* witness: dual functionals *)
  uc_C : list s66;         (* witness: one 6x6 matrix per stabiliser operation *)
  uc_forms : list uform
}.
(* Uin, par, Uij, eqU are all multiplied by one common power of two chosen outside so that the doubles
   become integers; every clause that mentions them is homogeneous of degree one in these quantities,
   uc_tol is the tolerance multiplied by the same factor. *)

Definition basis_inv (S : list symop) (B : list s6) : bool :=
  forallb (fun g => forallb (fun b => s6eqb (conj (fst g) b) b) B) S.

Fixpoint dual6_ok (P B : list s6) : bool :=
  match P, B with
  | [], [] => true
  | f :: P', b :: B' =>
      Qeq_bool (s6dot f b) 1 && forallb (fun b' => Qeq_bool (s6dot f b') 0) B' &&
      forallb (fun f' => Qeq_bool (s6dot f' b) 0) P' && dual6_ok P' B'
  | _, _ => false
  end.

Fixpoint csum6 (S : list symop) (C : list s66) (v : s6) : s6 :=
  match S, C with
  | g :: S', c :: C' => s6add (cmul6 c (s6sub (conj (fst g) v) v)) (csum6 S' C' v)
  | _, _ => s6zero
  end.
Definition recon6 (B P : list s6) (S : list symop) (C : list s66) (v : s6) : s6 :=
  s6add (lin6 B (map (fun f => s6dot f v) P)) (csum6 S C v).
Definition span6_ok (B P : list s6) (S : list symop) (C : list s66) : bool :=
  forallb (fun d => s6eqb (recon6 B P S C d) d) [d1; d2; d3; d4; d5; d6].

(* the code's projection leaves every reported basis tensor unchanged *)
Definition proj_fixes_basis (B : list s6) : bool := forallb (fun b => s6eqb (proj B b) b) B.

Fixpoint ucols_match (A : list s6) (R : m3) (B : list s6) : bool :=
  match A, B with
  | [], [] => true
  | a :: A', b :: B' => s6eqb a (conj R b) && ucols_match A' R B'
  | _, _ => false
  end.
Definition uform_lin_ok (G : list symop) (B : list s6) (f : uform) : bool :=
  match nth_error G (uf_rep f) with
  | Some g => ucols_match (uf_cols f) (fst g) B
  | None => false
  end.

(* approximate clauses (reported doubles against the exact model values) *)
Definition qclose (tol a b : Q) : bool := Qle_bool (Qabs (a - b)) tol.
Definition s6close (tol : Q) (a b : s6) : bool :=
  qclose tol (u11 a) (u11 b) && qclose tol (u22 a) (u22 b) && qclose tol (u33 a) (u33 b) &&
  qclose tol (u12 a) (u12 b) && qclose tol (u13 a) (u13 b) && qclose tol (u23 a) (u23 b).
Definition QClose (tol a b : Q) : Prop := Qabs (a - b) <= tol.
Definition S6Close (tol : Q) (a b : s6) : Prop :=
  QClose tol (u11 a) (u11 b) /\ QClose tol (u22 a) (u22 b) /\ QClose tol (u33 a) (u33 b) /\
  QClose tol (u12 a) (u12 b) /\ QClose tol (u13 a) (u13 b) /\ QClose tol (u23 a) (u23 b).
Fixpoint qlist_close (tol : Q) (a b : list Q) : bool :=
  match a, b with
  | [], [] => true
  | x :: a', y :: b' => qclose tol x y && qlist_close tol a' b'
  | _, _ => false
  end.
Definition uform_val_ok (G : list symop) (c : ucert) (f : uform) : bool :=
  match nth_error G (uf_rep f) with
  | Some g => s6close (uc_tol c) (uf_eqU f) (conj (fst g) (uc_Uij c)) &&
              s6close (uc_tol c) (lin6 (uf_cols f) (uc_par c)) (uf_eqU f)
  | None => false
  end.

Definition u_clauses (G : list symop) (c : ucert) : list (Z * bool) :=
  let S := stab G (uc_x c) in
  let B := uc_B c in
  [ (1%Z, basis_inv S B);
    (2%Z, dual6_ok (uc_P c) B);
    (3%Z, span6_ok B (uc_P c) S (uc_C c));
    (4%Z, proj_fixes_basis B);
    (5%Z, Bool.eqb (uc_iso c) (Nat.eqb (List.length B) 1));
    (6%Z, forallb (uform_lin_ok G B) (uc_forms c));
    (7%Z, qlist_close (uc_tol c) (uc_par c) (coefs B (uc_Uin c)));
    (8%Z, s6close (uc_tol c) (uc_Uij c) (proj B (uc_Uin c)));
    (9%Z, forallb (uform_val_ok G c) (uc_forms c)) ].

Definition u_cert_ok (G : list symop) (c : ucert) : bool := forallb snd (u_clauses G c).
Definition u_cert_failed (G : list symop) (c : ucert) : list Z :=
  map fst (filter (fun cl => negb (snd cl)) (u_clauses G c)).

(* integer inverse of a unimodular matrix: det * adjugate *)
Open Scope Z_scope.
Definition madj (a : m3) : m3 :=
  M3 (m22 a * m33 a - m23 a * m32 a) (m13 a * m32 a - m12 a * m33 a) (m12 a * m23 a - m13 a * m22 a)
     (m23 a * m31 a - m21 a * m33 a) (m11 a * m33 a - m13 a * m31 a) (m13 a * m21 a - m11 a * m23 a)
     (m21 a * m32 a - m22 a * m31 a) (m12 a * m31 a - m11 a * m32 a) (m11 a * m22 a - m12 a * m21 a).
Definition mscale (k : Z) (a : m3) : m3 :=
  M3 (k * m11 a) (k * m12 a) (k * m13 a) (k * m21 a) (k * m22 a) (k * m23 a) (k * m31 a) (k * m32 a) (k * m33 a).
Definition minv (a : m3) : m3 := mscale (det a) (madj a).
