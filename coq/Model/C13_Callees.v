(* C13 - explicit raise statements of the library modules (symmetryutilities, spacegroups, spacegroupmod, lattice, atom,
   structure, pdffitstructure, utils) that are reachable BY NAME from calls made by a parser, with the try context of the call
   (Gen/C13_ExcSpec.v: <fmt>_callee_raises).  Each must be caught by an enclosing except clause, be a documented kind, or be
   listed here with the reason why the by-name reachability is not a real path.  Hand-reviewed. *)
From Coq Require Import List Bool String.
From DS Require Import Base.C13_Exn.
Import ListNotations.
Open Scope string_scope.

Definition callee_exempt : list (string * string * kind) :=
  (* the argument-less constructors Structure() / PDFFitStructure() build the default Lattice(): the three raises below need
     arguments (filename together with atoms; a partial parameter list; a base matrix) *)
  [ ("xyz", "structure.Structure.__init__", ValueError); ("xyz", "lattice.Lattice.__init__", ValueError); ("xyz", "lattice.Lattice.setLatBase", LatticeError);
    ("rawxyz", "structure.Structure.__init__", ValueError); ("rawxyz", "lattice.Lattice.__init__", ValueError); ("rawxyz", "lattice.Lattice.setLatBase", LatticeError);
    ("discus", "structure.Structure.__init__", ValueError); ("discus", "lattice.Lattice.__init__", ValueError); ("discus", "lattice.Lattice.setLatBase", LatticeError);
    ("xcfg", "structure.Structure.__init__", ValueError); ("xcfg", "lattice.Lattice.__init__", ValueError); ("xcfg", "lattice.Lattice.setLatBase", LatticeError);
  (* Lattice( *latpars) with positional cell parameters never takes the `base=` branch that calls setLatBase *)
    ("pdffit", "lattice.Lattice.setLatBase", LatticeError); ("cif", "lattice.Lattice.setLatBase", LatticeError) ].

Definition exempted (fmt fn : string) (k : kind) : bool :=
  existsb (fun e => String.eqb (fst (fst e)) fmt && String.eqb (snd (fst e)) fn && keqb (snd e) k) callee_exempt.

Definition callee_covered (fmt : string) (e : string * kind * list (list kind)) : bool :=
  let fn := fst (fst e) in let k := snd (fst e) in
  existsb (fun caught => catches caught k) (snd e) || kmem k documented_kinds || exempted fmt fn k.
