(* C09 - state machine of an Atom's displacement parameters.
   The accessor bodies are the GENERATED translations of atom.py (Gen/C09_AtomFormulas.v); this file only adds
   the dispatch (which operation calls which accessor), runs and read-outs.  Generic in the number type:
   instantiated with R (theorems, Proofs/C09_*.v) and with binary64 floats (execution in the correspondence run). *)
From Coq Require Import ZArith Bool List.
From DS Require Import Base.C09_GNum Model.C09_Prims Gen.C09_AtomFormulas.
Import ListNotations.

Inductive name6 := N11 | N22 | N33 | N12 | N13 | N23.
Definition all_names : list name6 := [N11; N22; N33; N12; N13; N23].
Definition name_i (n : name6) : idx := match n with N11 | N12 | N13 => i0 | N22 | N23 => i1 | N33 => i2 end.
Definition name_j (n : name6) : idx := match n with N11 => i0 | N22 | N12 => i1 | N33 | N13 | N23 => i2 end.
Definition name_diag (n : name6) : bool := match n with N11 | N22 | N33 => true | _ => false end.

(* every assignment / storage-writing read that the property quantifies over *)
Inductive op (T : Type) :=
| OSetAniso (b : bool)                 (* a.anisotropy = b *)
| OSetU (m : gmat T)                   (* a.U = m          *)
| OSetUij (n : name6) (v : T)          (* a.U11 = v ...    *)
| OSetBij (n : name6) (v : T)          (* a.B11 = v ...    *)
| OSetUiso (v : T)                     (* a.Uisoequiv = v  *)
| OSetBiso (v : T)                     (* a.Bisoequiv = v  *)
| OSetLat (l : option (latdata T))     (* a.lattice = l  (plain attribute; also models an in-place change of the lattice) *)
| OReadU                               (* reading a.U rewrites the storage when the flag is off *)
| OMsdLat (v : gvec T)                 (* a.msdLat(v) goes through the a.U getter *)
| OCopy.                               (* a = a.__copy__()  /  copy.copy(a)  /  Atom(a) *)
Arguments OSetAniso {T}. Arguments OSetU {T}. Arguments OSetUij {T}. Arguments OSetBij {T}. Arguments OSetUiso {T}.
Arguments OSetBiso {T}. Arguments OSetLat {T}. Arguments OReadU {T}. Arguments OMsdLat {T}. Arguments OCopy {T}.

Section Machine.
Context {T : Type} (C : cctx T).

Definition set_Un (n : name6) (s : astate T) (v : T) : astate T :=
  match n with N11 => set_U11 C s v | N22 => set_U22 C s v | N33 => set_U33 C s v
             | N12 => set_U12 C s v | N13 => set_U13 C s v | N23 => set_U23 C s v end.
Definition set_Bn (n : name6) (s : astate T) (v : T) : astate T :=
  match n with N11 => set_B11 C s v | N22 => set_B22 C s v | N33 => set_B33 C s v
             | N12 => set_B12 C s v | N13 => set_B13 C s v | N23 => set_B23 C s v end.
Definition get_Un (n : name6) (s : astate T) : T :=
  match n with N11 => get_U11 C s | N22 => get_U22 C s | N33 => get_U33 C s
             | N12 => get_U12 C s | N13 => get_U13 C s | N23 => get_U23 C s end.
Definition get_Bn (n : name6) (s : astate T) : T :=
  match n with N11 => get_B11 C s | N22 => get_B22 C s | N33 => get_B33 C s
             | N12 => get_B12 C s | N13 => get_B13 C s | N23 => get_B23 C s end.

Definition step (s : astate T) (o : op T) : astate T :=
  match o with
  | OSetAniso b => set_anisotropy C s b
  | OSetU m => set_U C s m
  | OSetUij n v => set_Un n s v
  | OSetBij n v => set_Bn n s v
  | OSetUiso v => set_Uisoequiv C s v
  | OSetBiso v => set_Bisoequiv C s v
  | OSetLat l => set_stlat s l
  | OReadU => fst (get_U C s)
  | OMsdLat v => fst (msdLat C s v)
  | OCopy => copy_Atom C s
  end.

Definition run (s : astate T) (ops : list (op T)) : astate T := fold_left step ops s.

(* Atom(): zero tensor, flag off, no lattice *)
Definition init : astate T := AS (gzero (cO C)) false None.

(* The constructor as documented: "Cannot use both U and Uisoequiv"; otherwise a new atom (or the copy of the Atom passed
   as atype) receives, IN THIS ORDER: U (flag on, then the tensor), Uisoequiv (flag off, then the value), lattice, and
   last the explicit anisotropy flag ("lattice needs to be set before anisotropy").  Proofs/C09_Ctor.v shows that the
   generated init_Atom (argument blocks in the order of the current source) is exactly this. *)
Definition opt_ops {A} (o : option A) (f : A -> list (op T)) : list (op T) := match o with Some x => f x | None => [] end.
Definition ctor_ops (anisotropy : option bool) (U : option (gmat T)) (Uisoequiv : option T) (lattice : option (latdata T)) : list (op T) :=
  opt_ops U (fun m => [OSetAniso true; OSetU m]) ++ opt_ops Uisoequiv (fun v => [OSetAniso false; OSetUiso v]) ++
  opt_ops lattice (fun l => [OSetLat (Some l)]) ++ opt_ops anisotropy (fun b => [OSetAniso b]).
Definition ctor_spec (atype : option (astate T)) (anisotropy : option bool) (U : option (gmat T)) (Uisoequiv : option T)
           (lattice : option (latdata T)) : option (astate T) :=
  match U, Uisoequiv with
  | Some _, Some _ => None                                      (* ValueError *)
  | _, _ => Some (run (match atype with Some src => step src OCopy | None => init end) (ctor_ops anisotropy U Uisoequiv lattice))
  end.

(* the readable quantities (pure views: reading through them leaves the state alone) *)
Definition rd_aniso (s : astate T) : bool := get_anisotropy C s.
Definition rd_U (s : astate T) : gmat T := snd (get_U C s).
Definition rd_Uiso (s : astate T) : T := get_Uisoequiv C s.
Definition rd_Biso (s : astate T) : T := get_Bisoequiv C s.
Definition rd_msdLat (s : astate T) (v : gvec T) : T := snd (msdLat C s v).
Definition rd_msdCart (s : astate T) (v : gvec T) : T := msdCart C s v.
Definition the_lat (s : astate T) : latdata T := lat_or (st_lat s) (ccart C).

(* flat read-out used by the correspondence run: flag, 9 tensor entries, 6 Uij, 6 Bij, Uisoequiv, Bisoequiv *)
Definition flat (m : gmat T) : list T :=
  [mget m i0 i0; mget m i0 i1; mget m i0 i2; mget m i1 i0; mget m i1 i1; mget m i1 i2; mget m i2 i0; mget m i2 i1; mget m i2 i2].
Definition observe (s : astate T) : bool * list T :=
  (rd_aniso s, flat (rd_U s) ++ map (fun n => get_Un n s) all_names ++ map (fun n => get_Bn n s) all_names
               ++ [rd_Uiso s; rd_Biso s]).
(* observations after every step; msd reads are reported by the step that asks for them *)
Fixpoint trace (s : astate T) (ops : list (op T)) : list (bool * list T) :=
  match ops with
  | [] => []
  | o :: r => let s' := step s o in
              let extra := match o with OMsdLat v => [rd_msdLat s v; rd_msdCart s (Lattice_cartesian C (the_lat s) v)] | _ => [] end in
              (fst (observe s'), snd (observe s') ++ extra) :: trace s' r
  end.
End Machine.

(* execution instance: binary64 *)
From Coq Require Import Floats.
Definition FC (pi eps : float) : cctx float := CC FOps pi PrimFloat.sqrt (cart_lat FOps eps).
