(* C07 - reading a CIF block: executable model of P_cif._parseCifBlock and what it calls.

   Input  : an abstract block = what PyCifRW hands to P_cif (item names in lower case, values as strings):
            six cell items, the _atom_site loop and the optional aniso loop column by column, operator strings,
            Hall / Hermann-Mauguin names, table number.
   Output : the atoms of the expanded structure and how the space group was found.
   Composition (each part is tied to the source separately):
     leading_float, getSymOp ........ Model/C07_Text.v, Model/C07_SymopText.v
     _atom_setters / _tr_* / BtoU ... Gen/C07_CifSpec.v           (generated from p_cif.py on every run)
     Atom ADP accessors ............. Gen/C09_AtomFormulas.v      (generated from atom.py, C09)
     FindSpaceGroup / GetSpaceGroup . Model/C11_LookupDefs.v + Gen/LookupSpec.v
     ExpandAsymmetricUnit ........... Model/C02_Orbit.expand_exact per site (exact orbit on the grid Z/D)
   Numbers of type T (R in the theorems, Q when the model is run).  Positions enter the symmetry expansion through
   `e_grid` (nearest point of the grid k/D): the tolerance logic of the real expansion is C02's subject.
   DOMAIN of the model (outside it the answer is `Err EUnsupported` or simply not compared):
     - displacement tensors given in the file are allowed at their site (then GeneratorSite's projection is the
       identity, C06), the cell is compatible with the operations;
     - operator translations are within 1e-4 of a multiple of 1/12; values are finite numbers.
   Definitions only. *)
From Coq Require Import ZArith List Bool QArith Qround Ascii String.
From DS Require Import Base.ZMat Base.SGDefs Base.C09_GNum Model.GroupCheck Model.C02_Orbit.
From DS Require Import Model.C09_Prims Gen.C09_AtomFormulas Model.C09_AtomADP Model.C11_LookupDefs Gen.LookupSpec.
From DS Require Import Model.C07_Text Model.C07_SymopText Model.C07_SpecDefs Gen.C07_CifSpec.
Import ListNotations.
Open Scope Z_scope.

(* ---------------- results ---------------- *)
Inductive err := EFormat (* StructureFormatError *) | EEscapes (* an exception P_cif does not translate *) | EUnsupported (* outside the model *).
Inductive res (A : Type) := Ok (a : A) | Err (e : err).
Arguments Ok {A} _. Arguments Err {A} _.
Definition bind {A B} (m : res A) (f : A -> res B) : res B := match m with Ok a => f a | Err e => Err e end.

(* ---------------- the abstract block ---------------- *)
Record loop := Loop { l_n : nat; l_cols : list (string * list string) }.   (* rows, columns (name, values) *)
Record block := Block {
  b_cell : list (option string);       (* _cell_length_a/b/c, _cell_angle_alpha/beta/gamma *)
  b_site : loop;                       (* the loop that contains _atom_site_label *)
  b_aniso : option loop;               (* the loop that contains _atom_site_aniso_label *)
  b_symop : option (list string);      (* _space_group_symop_operation_xyz *)
  b_equivpos : option (list string);   (* _symmetry_equiv_pos_as_xyz *)
  b_hall : string; b_hall_sym : string;                       (* "" = item absent *)
  b_hm_alt : string; b_hm_ref : string; b_hm_sym : string;
  b_it_number : string; b_int_tables : string
}.

(* ---------------- _tr_atom_site_type_symbol ---------------- *)
Definition is_alpha (c : ascii) : bool :=
  let n := nat_of_ascii c in (((65 <=? n) && (n <=? 90)) || ((97 <=? n) && (n <=? 122)))%nat.
(* the prefix matched by  (DIGITS "-")? LETTERS (DIGIT SIGN)?  or the whole value when there is no match *)
Definition element_raw (v : string) : string :=
  let '(ds, r) := span is_digit v in
  let '(pre, r1) :=
    match ds, r with
    | String _ _, String c r' => if Ascii.eqb c "-"%char then ((ds ++ "-")%string, r') else (EmptyString, v)
    | _, _ => (EmptyString, v)
    end in
  let '(al, r2) := span is_alpha r1 in
  match al with
  | EmptyString => v
  | String _ _ =>
      let ox := match r2 with
                | String d (String sg _) => if is_digit d && is_sign sg then String d (String sg EmptyString) else EmptyString
                | _ => EmptyString
                end in
      (pre ++ al ++ ox)%string
  end.
Definition element_of (v : string) : string :=
  let s := element_raw v in (py_upper (py_first1 s) ++ py_lower (py_from1 s))%string.

(* ---------------- _get_atom_setters ---------------- *)
Definition ignore_setter : setter := Setter TIgnore SOne (Dec 0 0).
Fixpoint assoc_str {A} (k : string) (l : list (string * A)) : option A :=
  match l with [] => None | (k', v) :: r => if String.eqb k' k then Some v else assoc_str k r end.
(* _atom_setters maps every name and its lower-case spelling to the name; the key asked for is "_tr" + item.lower() *)
Definition setter_key_value (lc : string) : option string :=
  fold_left (fun acc n => if String.eqb n lc || String.eqb (py_lower n) lc then Some n else acc) setter_names None.
Definition lookup_setter (item : string) : setter :=
  match setter_key_value ("_tr" ++ py_lower item)%string with
  | Some fn => match assoc_str fn setter_bodies with Some s => s | None => ignore_setter end
  | None => ignore_setter
  end.

(* an exception of this class inside _parseCifBlock: translated by _parseCifDataSource or not *)
Definition raised (exc : string) : err := if existsb (String.eqb exc) caught_errors then EFormat else EEscapes.

Definition numeric_target (t : target) : bool :=
  match t with TFract _ | TCartn _ | TUisoequiv | TOccupancy | TUij _ => true | _ => false end.

(* m * 10^e with the operations of any number type *)
Definition dec_ops {T : Type} (O : ops T) (d : dec) : T :=
  if 0 <=? d_e d then tofZ O (d_m d * 10 ^ d_e d) else tdiv O (tofZ O (d_m d)) (tofZ O (10 ^ (- d_e d))).

Section Reader.
Context {T : Type}.

(* ---------------- typed values (stage 1: text -> numbers) ---------------- *)
Inductive val := VStr (s : string) | VNum (t : T) | VBad | VSpecial.

Record env := Env {
  e_C : cctx T;                (* number operations, pi, sqrt, the default lattice *)
  e_lat : latdata T;           (* Lattice(a, b, c, alpha, beta, gamma) of the block (or Lattice() without cell items) *)
  e_recbase : gmat T;          (* its recbase, used by Lattice.fractional *)
  e_D : Z;                     (* grid of the symmetry expansion, 12 | D *)
  e_grid : T -> Z;             (* nearest grid point of a coordinate *)
  e_dec : dec -> T             (* value of a decimal literal m * 10^e *)
}.
Variable E : env.
Let C := e_C E.
Let O := cO C.

Definition dec_T (d : dec) : T := e_dec E d.

Definition type_val (st : setter) (s : string) : val :=
  if numeric_target (s_target st) then
    match leading_float s with
    | LFnum d => VNum (dec_T d)
    | LFdefault => VNum (dec_T (s_default st))
    | LFspecial => VSpecial
    | LFerr => VBad
    end
  else VStr s.

Record tcol := TCol { tc_name : string; tc_setter : setter; tc_vals : list val }.
Record tloop := TLoop { tl_n : nat; tl_cols : list tcol }.
Definition type_col (c : string * list string) : tcol :=
  let st := lookup_setter (fst c) in TCol (fst c) st (map (type_val st) (snd c)).
Definition type_loop (l : loop) : tloop := TLoop (l_n l) (map type_col (l_cols l)).

Definition row_of (cols : list tcol) (i : nat) : list (setter * val) :=
  map (fun c => (tc_setter c, nth i (tc_vals c) VBad)) cols.
Definition label_col (name : string) (cols : list tcol) : option tcol :=
  find (fun c => String.eqb (tc_name c) name) cols.
Definition label_at (c : tcol) (i : nat) : string := match nth i (tc_vals c) VBad with VStr s => s | _ => EmptyString end.

(* ---------------- one atom under construction ---------------- *)
Record ratom := RA { a_label : string; a_elem : string; a_xyz : gvec T; a_occ : T; a_adp : astate T }.
(* Structure.addNewAtom(): Atom() with the structure's lattice *)
Definition init_atom : ratom :=
  RA EmptyString EmptyString (GV (t0 O) (t0 O) (t0 O)) (t1 O) (AS (gzero O) false (Some (e_lat E))).

Definition num_val (p : setter * val) : T :=
  match snd p with
  | VNum t => match s_scale (fst p) with SOne => t | SBtoU => tmul O (cif_BtoU O (cpi C)) t end
  | _ => t0 O
  end.

Definition cartesian (x : gvec T) : gvec T := Lattice_cartesian C (e_lat E) x.
Definition fractional (rc : gvec T) : gvec T := gvmmul O rc (e_recbase E).

(* the four independent parts of the atom and what a (translator, value) pair does to each *)
Definition step_lab (p : setter * val) (le : string * string) : string * string :=
  match s_target (fst p), snd p with
  | TLabel, VStr s => (s, if String.eqb (snd le) EmptyString then element_of s else snd le)
  | TTypeSymbol, VStr s => (fst le, element_of s)
  | _, _ => le
  end.
Definition step_xyz (p : setter * val) (x : gvec T) : gvec T :=
  match s_target (fst p) with
  | TFract i => vset x i (num_val p)
  | TCartn i => fractional (vset (cartesian x) i (num_val p))
  | _ => x
  end.
Definition step_occ (p : setter * val) (o : T) : T :=
  match s_target (fst p) with TOccupancy => num_val p | _ => o end.
Definition step_adp (p : setter * val) (s : astate T) : astate T :=
  match s_target (fst p), snd p with
  | TUisoequiv, _ => set_Uisoequiv C s (num_val p)
  | TAdpType, VStr v => set_anisotropy C s (negb (existsb (String.eqb v) iso_adp_values))
  | TUij n, _ => set_Un C n s (num_val p)
  | _, _ => s
  end.
Definition step_atom (a : ratom) (p : setter * val) : ratom :=
  let le := step_lab p (a_label a, a_elem a) in
  RA (fst le) (snd le) (step_xyz p (a_xyz a)) (step_occ p (a_occ a)) (step_adp p (a_adp a)).
Definition run_row (a : ratom) (r : list (setter * val)) : ratom := fold_left step_atom r a.

(* a value that float() rejects raises ValueError whatever its column; non-finite values are outside the model *)
Definition is_bad (p : setter * val) : bool := match snd p with VBad => true | _ => false end.
Definition is_spec (p : setter * val) : bool := match snd p with VSpecial => true | _ => false end.
Definition row_status (r : list (setter * val)) : option err :=
  if existsb is_spec r then Some EUnsupported else if existsb is_bad r then Some (raised "ValueError") else None.

(* ---------------- the two loops ---------------- *)
Definition dict (A : Type) := list (string * A).
Definition dict_get {A} (d : dict A) (k : string) : option A := assoc_str k d.
Definition dict_set {A} (d : dict A) (k : string) (v : A) : dict A := (k, v) :: d.
Definition dict_has {A} (d : dict A) (k : string) : bool := match dict_get d k with Some _ => true | None => false end.

Record pstate := PS { ps_atoms : list ratom; ps_index : dict nat; ps_aniso : dict bool }.

(* sorted(range(n), key = (setter not in first) + (setter in last)) : a stable three-way partition of the row *)
Definition phase (so : setter_order) (t : target) : nat :=
  match t with
  | TAdpType => match so with SOColumn => 1 | _ => 0 end
  | TCartn _ => match so with SOTypeFirstCartnLast => 2 | _ => 1 end
  | _ => 1
  end%nat.
Definition in_phase (so : setter_order) (k : nat) (p : setter * val) : bool := Nat.eqb (phase so (s_target (fst p))) k.
Definition order_row (so : setter_order) (r : list (setter * val)) : list (setter * val) :=
  filter (in_phase so 0) r ++ filter (in_phase so 1) r ++ filter (in_phase so 2) r.

Definition site_row (does_adp : bool) (st : pstate) (lab : string) (r : list (setter * val)) : res pstate :=
  if String.eqb lab "?" then Ok st
  else match row_status r with
       | Some e => Err e
       | None =>
           let a := run_row init_atom (order_row the_setter_order r) in
           Ok (PS (ps_atoms st ++ [a]) (dict_set (ps_index st) lab (List.length (ps_atoms st)))
                  (if does_adp then dict_set (ps_aniso st) lab (st_aniso (a_adp a)) else ps_aniso st))
       end.

Definition has_col (name : string) (cols : list tcol) : bool := existsb (fun c => String.eqb (tc_name c) name) cols.

Definition read_site_loop (l : tloop) : res pstate :=
  match label_col "_atom_site_label" (tl_cols l) with
  | None => Err EUnsupported
  | Some lc =>
      let does_adp := has_col "_atom_site_adp_type" (tl_cols l) || has_col "_atom_site_thermal_displace_type" (tl_cols l) in
      fold_left (fun acc i => bind acc (fun st => site_row does_adp st (label_at lc i) (row_of (tl_cols l) i)))
                (seq 0 (tl_n l)) (Ok (PS [] [] []))
  end.

Fixpoint set_nth {A} (n : nat) (x : A) (l : list A) : list A :=
  match l with [] => [] | y :: r => match n with 0%nat => x :: r | S k => y :: set_nth k x r end end.
Definition upd_adp (a : ratom) (s : astate T) : ratom := RA (a_label a) (a_elem a) (a_xyz a) (a_occ a) s.

(* (state, stopped by a "?" label) *)
Definition aniso_row (sb : pstate * bool) (lab : string) (r : list (setter * val)) : res (pstate * bool) :=
  let '(st, stopped) := sb in
  if stopped then Ok sb
  else if String.eqb lab "?" then Ok (st, true)
  else match dict_get (ps_index st) lab with
       | None => Err (raised "KeyError")
       | Some idx =>
           match nth_error (ps_atoms st) idx with
           | None => Err EUnsupported
           | Some a =>
               let known := dict_has (ps_aniso st) lab in
               let a1 := if known then a else upd_adp a (set_anisotropy C (a_adp a) true) in
               let an := if known then ps_aniso st else dict_set (ps_aniso st) lab true in
               match row_status r with
               | Some e => Err e
               | None => Ok (PS (set_nth idx (run_row a1 r) (ps_atoms st)) (ps_index st) an, false)
               end
           end
       end.

Definition read_aniso_loop (st : pstate) (ol : option tloop) : res pstate :=
  match ol with
  | None => Ok st
  | Some l =>
      match label_col "_atom_site_aniso_label" (tl_cols l) with
      | None => Err EUnsupported
      | Some lc =>
          match fold_left (fun acc i => bind acc (fun sb => aniso_row sb (label_at lc i) (row_of (tl_cols l) i)))
                          (seq 0 (tl_n l)) (Ok (st, false)) with
          | Ok (st', _) => Ok st'
          | Err e => Err e
          end
      end
  end.

(* ---------------- the cell items (_parse_lattice) ---------------- *)
Fixpoint cell_list (c : list (option string)) : res (list T) :=
  match c with
  | [] => Ok []
  | None :: _ => Err EFormat                                       (* KeyError -> StructureFormatError *)
  | Some s :: r =>
      match leading_float s with
      | LFnum d => bind (cell_list r) (fun l => Ok (dec_T d :: l))
      | LFdefault => bind (cell_list r) (fun l => Ok (t0 O :: l))
      | LFspecial => Err EUnsupported
      | LFerr => Err (raised "ValueError")
      end
  end.
Definition cell_numbers (c : list (option string)) : res (option (list T)) :=
  match c with
  | Some _ :: _ => bind (cell_list c) (fun l => Ok (Some l))
  | _ => Ok None                                                   (* no _cell_length_a: the default Lattice() stays *)
  end.

(* ---------------- space group (_parse_space_group_symop_operation_xyz) ---------------- *)
Variable find : list symop -> option (setting * bool).   (* FindSpaceGroup: C11's find_space_group all_settings *)
Variable Tb : table.               (* _sg_lookup_table *)

Definition or_str (a b : string) : string := if String.eqb a EmptyString then b else a.

Fixpoint parse_ops (l : list string) : res (list symop) :=
  match l with
  | [] => Ok []
  | s :: r =>
      match get_symop s with
      | None => Err (match the_symop_reader with SRNumeric => raised "ValueError" | SREval => EUnsupported end)
      | Some p => match to_symop p with
                  | None => Err EUnsupported
                  | Some o => bind (parse_ops r) (fun os => Ok (o :: os))
                  end
      end
  end.

Inductive sgsrc :=
| FromOps (s : setting)            (* FindSpaceGroup hit, same order: the tabulated object *)
| FromOpsReordered (s : setting)   (* FindSpaceGroup hit, other order: copy carrying the file's list *)
| FromId (s : setting)             (* GetSpaceGroup(number or H-M name) *)
| Custom.                          (* SpaceGroup(symop_list = the file's list) *)

Definition op_texts (b : block) : list string :=
  match b_symop b, b_equivpos b with Some l, _ => l | None, Some l => l | None, None => [] end.
Definition sg_identifier (b : block) : string :=
  or_str (or_str (b_it_number b) (b_int_tables b)) (or_str (or_str (b_hm_alt b) (b_hm_ref b)) (b_hm_sym b)).

Definition resolve_sg (b : block) : res (sgsrc * list symop) :=
  bind (parse_ops (op_texts b)) (fun ops =>
    let found := match ops with [] => None | _ :: _ => find ops end in
    match found with
    | Some (s, true) => Ok (FromOps s, sg_ops s)
    | Some (s, false) => Ok (FromOpsReordered s, ops)
    | None =>
        let sgid := sg_identifier b in
        match (if String.eqb sgid EmptyString then None else get_space_group Tb (KStr sgid)) with
        | Some s => Ok (FromId s, sg_ops s)
        | None => match ops with [] => Err EFormat | _ :: _ => Ok (Custom, ops) end
        end
    end).

(* ---------------- expansion (_expandAsymmetricUnit) ---------------- *)
Definition D := e_D E.
Definition grid_of (x : gvec T) : v3 := V3 (e_grid E (x0 x)) (e_grid E (x1 x)) (e_grid E (x2 x)).
(* GeneratorSite.Uisotropy: one free tensor component <=> the site point group is cubic *)
Definition uisotropy (G : list symop) (k : v3) : bool := (8 <=? count_order 3 (rot_parts (stab D G v0 k)))%nat.

(* coreUijs = [a.U for a in stru]: the getter rewrites the storage of isotropic atoms *)
Definition read_U (a : ratom) : ratom * gmat T := let '(s, u) := get_U C (a_adp a) in (upd_adp a s, u).

(* anisotropy of atoms for which neither loop said anything comes from the site symmetry *)
Fixpoint settle_aniso (G : list symop) (l : list (ratom * gmat T)) (d : dict bool) : list (ratom * gmat T) :=
  match l with
  | [] => []
  | (a, u) :: r =>
      if dict_has d (a_label a) then (a, u) :: settle_aniso G r d
      else let b := negb (uisotropy G (grid_of (a_xyz a))) in
           (upd_adp a (set_anisotropy C (a_adp a) b), u) :: settle_aniso G r (dict_set d (a_label a) b)
  end.

Definition mZ (R : m3) : gmat T :=
  GM (gvofZ O (m11 R) (m12 R) (m13 R)) (gvofZ O (m21 R) (m22 R) (m23 R)) (gvofZ O (m31 R) (m32 R) (m33 R)).
(* numpy.dot(R, numpy.dot(U, R.T)) *)
Definition rot_U (R : m3) (U : gmat T) : gmat T := gmmul O (mZ R) (gmmul O U (gmT (mZ R))).

Record oatom := OA { o_label : string; o_elem : string; o_pos : v3; o_occ : T; o_aniso : bool; o_U : gmat T }.

Definition suffix_label (base : string) (k : nat) : string := (base ++ "_" ++ py_str_of_Z (Z.of_nat k))%string.

(* image j of a site: copy of the parent at the j-th position; tensor R U R^T with R the rotation of the first
   operation that generates the position (GeneratorSite._findeqUij), only for anisotropic atoms *)
Definition image (a : ratom) (u : gmat T) (lab : string) (p : v3) (ops : list symop) : oatom :=
  let s := a_adp a in
  let s' := if st_aniso s then set_U C s (rot_U (fst (hd ident ops)) u) else s in
  OA lab (a_elem a) p (a_occ a) (st_aniso s') (rd_U C s').

(* labels of the images 1..m-1 : "_2", "_3", ... ; with LSFresh numbers whose label is already taken are skipped *)
Fixpoint first_free (fuel : nat) (base : string) (k : nat) (taken : list string) : nat :=
  match fuel with
  | 0%nat => k
  | S f => if existsb (String.eqb (suffix_label base k)) taken then first_free f base (S k) taken else k
  end.
Fixpoint image_labels (sch : label_scheme) (base : string) (n : nat) (k : nat) (taken : list string) : list string * list string :=
  match n with
  | 0%nat => ([], taken)
  | S n' =>
      let k' := match sch with LSPlain => S k | LSFresh => first_free (S (List.length taken)) base (S k) taken end in
      let lab := suffix_label base k' in
      let '(ls, tk) := image_labels sch base n' k' (lab :: taken) in (lab :: ls, tk)
  end.

Definition expand_site (sch : label_scheme) (G : list symop) (au : ratom * gmat T) (taken : list string) : list oatom * list string :=
  let '(a, u) := au in
  let '(pos, opss, m) := expand_exact D G v0 (grid_of (a_xyz a)) in
  let '(labs, taken') := image_labels sch (a_label a) (Nat.pred m) 1 taken in
  (map (fun t => image a u (fst (fst t)) (snd (fst t)) (snd t)) (combine (combine (a_label a :: labs) pos) opss), taken').

Fixpoint expand_all (sch : label_scheme) (G : list symop) (l : list (ratom * gmat T)) (taken : list string) : list oatom :=
  match l with
  | [] => []
  | au :: r => let '(o, tk) := expand_site sch G au taken in o ++ expand_all sch G r tk
  end.

(* the asymmetric unit as P_cif.asymmetric_unit keeps it: atoms after both loops, anisotropy settled *)
Definition parents (G : list symop) (st : pstate) : list (ratom * gmat T) :=
  settle_aniso G (map read_U (ps_atoms st)) (ps_aniso st).

Record result := Result { r_atoms : list oatom; r_sg : sgsrc; r_group : list symop; r_cell : option (list T);
                          r_parents : list (ratom * gmat T) }.

Definition read_typed (cell : list (option string)) (site : tloop) (aniso : option tloop) (b : block) : res result :=
  bind (cell_numbers cell) (fun cn =>
  bind (read_site_loop site) (fun st0 =>
  bind (read_aniso_loop st0 aniso) (fun st =>
  bind (resolve_sg b) (fun sg =>
    let G := snd sg in
    let ps := parents G st in
    Ok (Result (expand_all the_label_scheme G ps (map (fun au => a_label (fst au)) ps)) (fst sg) G cn ps))))).

Definition read_cif (b : block) : res result :=
  read_typed (b_cell b) (type_loop (b_site b)) (option_map type_loop (b_aniso b)) b.

End Reader.

Arguments VStr {T} _. Arguments VNum {T} _. Arguments VBad {T}. Arguments VSpecial {T}.

(* ---------------- the instance the correspondence run executes: exact rationals ---------------- *)
Definition QC (pi eps : Q) : cctx Q := CC QOps pi (fun x => x) (cart_lat QOps eps).
Definition Qgrid (Dz : Z) (q : Q) : Z := Qfloor (q * inject_Z Dz + (1 # 2)).
Definition QE (pi eps : Q) (lat : latdata Q) (recbase : gmat Q) (Dz : Z) : env :=
  Env (QC pi eps) lat recbase Dz (Qgrid Dz) (dec_ops QOps).

(* ---------------- the instance the correspondence run executes: decimal numbers m * 10^e ----------------
   sums, differences and products are exact while the exponent stays above -18; below, and for quotients, the result
   is rounded down at 1e-18, far below the comparison tolerances.  No gcd computations, small mantissas. *)
Definition dpow (k : Z) : Z := if k =? 0 then 1 else 10 ^ k.
Definition d_norm (m e : Z) : dec := if e <? -18 then Dec (Z.div m (dpow (-18 - e))) (-18) else Dec m e.
Definition d_align (x y : dec) : Z * Z * Z :=
  let e := Z.min (d_e x) (d_e y) in (d_m x * dpow (d_e x - e), d_m y * dpow (d_e y - e), e).
Definition dadd (x y : dec) : dec := let '(a, b, e) := d_align x y in Dec (a + b) e.
Definition dsub (x y : dec) : dec := let '(a, b, e) := d_align x y in Dec (a - b) e.
Definition dmul (x y : dec) : dec := d_norm (d_m x * d_m y) (d_e x + d_e y).
Definition ddiv (x y : dec) : dec :=
  if d_m y =? 0 then Dec 0 0
  else let k := 20 + Z.log2 (Z.abs (d_m y)) in     (* at least 20 significant digits in the quotient *)
       d_norm (Z.div (d_m x * dpow k) (d_m y)) (d_e x - k - d_e y).
Definition dltb (x y : dec) : bool := let '(a, b, _) := d_align x y in a <? b.
Definition DOps : ops dec :=
  Ops dec (Dec 0 0) (Dec 1 0) dadd dsub dmul ddiv dec_opp (fun z => Dec z 0) (fun x => Dec (Z.abs (d_m x)) (d_e x)) dltb.
Definition DC (pi eps : dec) : cctx dec := CC DOps pi (fun x => x) (cart_lat DOps eps).
(* nearest grid point of m * 10^e *)
Definition Dgrid (Dz : Z) (x : dec) : Z :=
  if 0 <=? d_e x then d_m x * dpow (d_e x) * Dz else Z.div (2 * d_m x * Dz + dpow (- d_e x)) (2 * dpow (- d_e x)).
Definition DE (pi eps : dec) (lat : latdata dec) (recbase : gmat dec) (Dz : Z) : env :=
  Env (DC pi eps) lat recbase Dz (Dgrid Dz) (fun d => d_norm (d_m d) (d_e d)).
