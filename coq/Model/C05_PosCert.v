(* C05 - certificate checker for what GeneratorSite reports about one site.
   Inputs are exact rationals: the site x (the exact point handed to the code as floats), the reported
   null_space rows N (small rationals), pparameters values p0 (the doubles, exactly), per equivalent
   position the operation the code attributes to it (index into the tabulated list), the reported
   position, and the affine map read off the positionFormula() strings: column j of A = coefficients
   of parameter j in the x,y,z formulas, c = constants.  P and C are untrusted witnesses (computed by
   exact elimination outside) showing that the rows of N span the whole fixed space.
   Model file: definitions only. *)
From Coq Require Import ZArith QArith Qabs Qround List Bool.
From DS Require Import Base.ZMat Base.SGDefs Model.C05_QBase.
Import ListNotations.
Open Scope Q_scope.

Record pform := { pf_rep : nat; pf_pos : q3; pf_A : list q3; pf_c : q3 }.

Record pcert := {
  pc_x : q3;
  pc_tol : Q;
  pc_N : list q3;
  pc_p0 : list Q;
  pc_P : list q3;
  pc_inv : list nat;
  pc_C : list (q3 * q3 * q3);
  pc_forms : list pform
}.

(* value of a formula triple at parameter values p *)
Definition feval (f : pform) (p : list Q) : q3 := q3add (lin (pf_A f) p) (pf_c f).

(* the generator moved by changing the parameters from the reported values p0 to p *)
Definition moved (c : pcert) (p : list Q) : q3 :=
  q3add (pc_x c) (q3sub (lin (pc_N c) p) (lin (pc_N c) (pc_p0 c))).

(* --- clause: every row is fixed by the rotation part of every stabiliser operation --- *)
Definition rows_fixed (S : list symop) (N : list q3) : bool :=
  forallb (fun g => forallb (fun n => q3eqb (mq (fst g) n) n) N) S.

(* --- clause: P is dual to N (P_j . N_l = delta_jl), which makes the rows independent --- *)
Fixpoint dual_ok (P N : list q3) : bool :=
  match P, N with
  | [], [] => true
  | f :: P', n :: N' =>
      Qeq_bool (q3dot f n) 1 && forallb (fun n' => Qeq_bool (q3dot f n') 0) N' &&
      forallb (fun f' => Qeq_bool (q3dot f' n) 0) P' && dual_ok P' N'
  | _, _ => false
  end.

(* --- clause: v = sum_j (P_j . v) N_j + sum_g C_g (R_g v - v)  for v = e1, e2, e3 --- *)
Fixpoint csum (S : list symop) (C : list (q3 * q3 * q3)) (v : q3) : q3 :=
  match S, C with
  | g :: S', c :: C' => q3add (cmul c (q3sub (mq (fst g) v) v)) (csum S' C' v)
  | _, _ => q3zero
  end.
Definition recon (N P : list q3) (S : list symop) (C : list (q3 * q3 * q3)) (v : q3) : q3 :=
  q3add (lin N (map (fun f => q3dot f v) P)) (csum S C v).
Definition span_ok (N P : list q3) (S : list symop) (C : list (q3 * q3 * q3)) : bool :=
  q3eqb (recon N P S C e1) e1 && q3eqb (recon N P S C e2) e2 && q3eqb (recon N P S C e3) e3.

(* --- clauses per equivalent position --- *)
Fixpoint cols_match (A : list q3) (R : m3) (N : list q3) : bool :=
  match A, N with
  | [], [] => true
  | a :: A', n :: N' => q3eqb a (mq R n) && cols_match A' R N'
  | _, _ => false
  end.
Definition form_lin_ok (G : list symop) (N : list q3) (f : pform) : bool :=
  match nth_error G (pf_rep f) with
  | Some g => cols_match (pf_A f) (fst g) N
  | None => false
  end.
Definition form_val_ok (G : list symop) (c : pcert) (f : pform) : bool :=
  match nth_error G (pf_rep f) with
  | Some g => near_int3 (pc_tol c) (q3sub (feval f (pc_p0 c)) (opq g (pc_x c)))
  | None => false
  end.
Definition form_pos_ok (G : list symop) (c : pcert) (f : pform) : bool :=
  match nth_error G (pf_rep f) with
  | Some g => near_int3 (pc_tol c) (q3sub (pf_pos f) (opq g (pc_x c)))
  | None => false
  end.

(* --- clause: every operation of the group sends x (mod 1) to the image under one of the listed
       representatives, and has the same effect on the free directions as that representative.
       The canonical images of the representatives are computed once. --- *)
Definition rows_agree (R1 R2 : m3) (N : list q3) : bool := forallb (fun n => q3eqb (mq R1 n) (mq R2 n)) N.
Definition rep_can (G : list symop) (x : q3) (f : pform) : option (m3 * q3) :=
  match nth_error G (pf_rep f) with
  | Some gi => Some (fst gi, q3canon (opq gi x))
  | None => None
  end.
Definition covered_by (N : list q3) (R : m3) (cg : q3) (o : option (m3 * q3)) : bool :=
  match o with
  | Some (Ri, ci) => q3same cg ci && rows_agree R Ri N
  | None => false
  end.
Definition orbit_covered (G : list symop) (c : pcert) : bool :=
  let cans := map (rep_can G (pc_x c)) (pc_forms c) in
  forallb (fun g => existsb (covered_by (pc_N c) (fst g) (q3canon (opq g (pc_x c)))) cans) G.

(* --- clause: the listed representatives give pairwise different images of x (mod 1) --- *)
Definition rep_img (G : list symop) (x : q3) (f : pform) : q3 :=
  match nth_error G (pf_rep f) with Some g => opq g x | None => x end.
Fixpoint distinct_can (l : list q3) : bool :=
  match l with
  | [] => true
  | a :: r => forallb (fun b => negb (q3same a b)) r && distinct_can r
  end.
Definition images_distinct (G : list symop) (x : q3) (fs : list pform) : bool :=
  distinct_can (map (fun f => q3canon (rep_img G x f)) fs).

(* all clauses, numbered for diagnostics *)
Definition pos_clauses (G : list symop) (c : pcert) : list (Z * bool) :=
  let S := stab G (pc_x c) in
  let N := pc_N c in
  [ (1%Z, nat_list_eqb (stab_idx G (pc_x c)) (pc_inv c));
    (2%Z, rows_fixed S N);
    (3%Z, Nat.eqb (List.length (pc_p0 c)) (List.length N));
    (4%Z, dual_ok (pc_P c) N);
    (5%Z, span_ok N (pc_P c) S (pc_C c));
    (6%Z, forallb (form_lin_ok G N) (pc_forms c));
    (7%Z, forallb (form_val_ok G c) (pc_forms c));
    (8%Z, forallb (form_pos_ok G c) (pc_forms c));
    (9%Z, orbit_covered G c);
    (10%Z, images_distinct G (pc_x c) (pc_forms c)) ].

Definition pos_cert_ok (G : list symop) (c : pcert) : bool := forallb snd (pos_clauses G c).
Definition pos_cert_failed (G : list symop) (c : pcert) : list Z :=
  map fst (filter (fun cl => negb (snd cl)) (pos_clauses G c)).
