(* C02 - line-by-line executable model of the tolerance-based algorithm of
   /repo/src/diffpy/structure/symmetryutilities.py: expandPosition, _Position2Tuple, positionDifference,
   nearestSiteIndex, equalPositions.  Coordinates are integers k standing for k/D (exact); the two
   tolerances are the exact rational values of the doubles the code uses with the default eps = 1.0e-5.
   Model file: definitions only. *)
From Coq Require Import ZArith List Bool.
From DS Require Import Base.ZMat Base.SGDefs Model.GroupCheck Model.C02_Orbit.
Import ListNotations.
Open Scope Z_scope.

(* epsilon = 1.0e-5 as a double, used by equalPositions *)
Definition eps_eq_num : Z := 5902958103587057.
Definition eps_eq_den : Z := 2 ^ 69.
(* _Position2Tuple.__init__: self.eps = (eps + 1.0) - 1.0 = 1.0000000000065512e-05 exactly *)
Definition eps_b_num : Z := 22517998137.
Definition eps_b_den : Z := 2 ^ 51.

(* mask = logical_or(pos < 0.0, pos >= 1.0); pos[mask] -= floor(pos[mask]) *)
Definition wrap1 (D k : Z) : Z := if (k <? 0) || (D <=? k) then k - D * (k / D) else k.
Definition wrap (D : Z) (p : v3) : v3 := V3 (wrap1 D (vx p)) (wrap1 D (vy p)) (wrap1 D (vz p)).

(* _Position2Tuple.__call__: int((xi - floor(xi)) / self.eps) *)
Definition tup1 (D k : Z) : Z := ((k - D * (k / D)) * eps_b_den) / (D * eps_b_num).
Definition tup (D : Z) (p : v3) : v3 := V3 (tup1 D (vx p)) (tup1 D (vy p)) (tup1 D (vz p)).

(* positionDifference: d = a - b; d -= floor(d); d[d > 0.5] = 1 - d *)
Definition pdiff1 (D a b : Z) : Z :=
  let d := a - b in let d := d - D * (d / D) in if D <? 2 * d then D - d else d.
Definition boxdist (D : Z) (p q : v3) : Z :=
  Z.max (Z.max (pdiff1 D (vx p) (vx q)) (pdiff1 D (vy p) (vy q))) (pdiff1 D (vz p) (vz q)).

(* nearestSiteIndex: argmin over the sites of the box distance (numpy.argmin: first minimum) *)
Fixpoint argmin_from (best : Z) (besti i : nat) (l : list Z) : nat :=
  match l with
  | [] => besti
  | d :: r => if d <? best then argmin_from d i (S i) r else argmin_from best besti (S i) r
  end.
Definition nearest_index (D : Z) (sites : list v3) (p : v3) : nat :=
  match map (fun s => boxdist D s p) sites with
  | [] => 0%nat
  | d :: r => argmin_from d 0 1 r
  end.

(* equalPositions: numpy.all(dxyz <= eps) *)
Definition le_eps (D d : Z) : bool := d * eps_eq_den <=? eps_eq_num * D.
Definition equal_pos (D : Z) (p q : v3) : bool :=
  le_eps D (pdiff1 D (vx p) (vx q)) && le_eps D (pdiff1 D (vy p) (vy q)) && le_eps D (pdiff1 D (vz p) (vz q)).

(* state of the loop: `positions`, the dictionary site_symops (tuple -> identity of a list object),
   and the heap of list objects (several dictionary keys may share one list object) *)
Record st := St { s_pos : list v3; s_dict : list (v3 * nat); s_heap : list (list symop) }.

Fixpoint lookup (t : v3) (d : list (v3 * nat)) : option nat :=
  match d with
  | [] => None
  | (k, v) :: r => if v3_eqb t k then Some v else lookup t r
  end.
Definition lookup_def (t : v3) (d : list (v3 * nat)) : nat := match lookup t d with Some v => v | None => 0%nat end.

(* list_object.append(symop) *)
Fixpoint heap_app (i : nat) (g : symop) (h : list (list symop)) : list (list symop) :=
  match h, i with
  | [], _ => []
  | l :: r, O => (l ++ [g]) :: r
  | l :: r, S j => l :: heap_app j g r
  end.

(* one iteration of `for symop in spacegroup.iter_symops()` *)
Definition eps_step (D : Z) (off x : v3) (s : st) (g : symop) : st :=
  let pos := wrap D (raw_img D g off x) in
  let tpl := tup D pos in
  match lookup tpl (s_dict s) with
  | Some id => St (s_pos s) (s_dict s) (heap_app id g (s_heap s))
  | None =>
      (* site_symops[tpl] = [] *)
      let id0 := List.length (s_heap s) in
      let heap1 := s_heap s ++ [[]] in
      let dict1 := s_dict s ++ [(tpl, id0)] in
      let merged :=
        match s_pos s with
        | [] => None
        | _ :: _ =>
            let nearpos := nth (nearest_index D (s_pos s) pos) (s_pos s) pos in
            if equal_pos D nearpos pos then Some (lookup_def (tup D nearpos) dict1) else None
        end in
      match merged with
      | Some id => St (s_pos s) (s_dict s ++ [(tpl, id)]) (heap_app id g heap1)
      | None => St (s_pos s ++ [pos]) dict1 (heap_app id0 g heap1)
      end
  end.

Definition eps_run (D : Z) (G : list symop) (off x : v3) : st := fold_left (eps_step D off x) G (St [] [] []).

(* return positions, [site_symops[pos2tuple(p)] for p in positions], len(positions) *)
Definition expand_eps (D : Z) (G : list symop) (off x : v3) : list v3 * list (list symop) * nat :=
  let s := eps_run D G off x in
  (s_pos s, map (fun p => nth (lookup_def (tup D p) (s_dict s)) (s_heap s) []) (s_pos s), List.length (s_pos s)).

(* separation: two images are either the same point of the torus or farther apart than 2e-5 in box distance *)
Definition far (D : Z) (p q : v3) : Prop := 2 * D < 100000 * boxdist D p q.
Definition separated (D : Z) (G : list symop) (off x : v3) : Prop :=
  forall g h, In g G -> In h G -> img D g off x <> img D h off x -> far D (img D g off x) (img D h off x).

(* --- helpers used only to print results in correspondence runs --- *)
Definition index_of (G : list symop) (g : symop) : Z :=
  (fix go (l : list symop) (i : Z) := match l with [] => -1 | h :: r => if op_eqb g h then i else go r (i + 1) end) G 0.
Definition show (G : list symop) (r : list v3 * list (list symop) * nat) : list (list Z * list Z) :=
  let '(pos, ops, _) := r in
  map (fun po => ([vx (fst po); vy (fst po); vz (fst po)], map (index_of G) (snd po))) (combine pos ops).

(* flat encoding for the correspondence runs: -1 x y z i1 i2 ... per position, then -2 multiplicity *)
Definition showz (G : list symop) (r : list v3 * list (list symop) * nat) : list Z :=
  let '(pos, ops, m) := r in
  flat_map (fun po => -1 :: vx (fst po) :: vy (fst po) :: vz (fst po) :: map (index_of G) (snd po)) (combine pos ops)
  ++ [-2; Z.of_nat m].
