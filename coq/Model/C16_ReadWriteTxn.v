(* C16 - transaction model of Structure.read / readStr / write and the PDFFitStructure overrides.

   A structure object is {class; items; instance dictionary}.  Class-level defaults (title = "",
   _lattice = None, pdffit = None) are distinguished from entries of the instance dictionary: that is
   what `Structure.__init__(self)`, `self.__dict__.update(new.__dict__)`, `self.__dict__.pop(..)` and
   `self[:] = new` manipulate.  Parsers, serialisers, getParser and the file system are abstract
   functions with arbitrary outcomes (a value or any exception).  The methods themselves are NOT written
   here: they are effect lists generated from the current source (Gen/C16_RW.v) and interpreted by
   `run0` / `run1` below.  No proofs in this file. *)
From Coq Require Import ZArith List Bool.
From Coq Require Import Ascii String.
Import ListNotations.
Open Scope string_scope.
Open Scope Z_scope.

(* ---------- values and objects ---------- *)
Definition attr := string.
Inductive cls := CStructure | CPDFFit.

(* texts, lattice cells, atom payloads and dictionary values are interned as integers by the harness;
   text 0 is the empty string *)
Inductive value :=
| VNone
| VStr (s : Z)
| VLat (id : Z) (cell : Z)              (* a Lattice object: identity and interned cell *)
| VDict (d : list (string * Z))         (* pdffit-like dictionary *)
| VOther (n : Z).

(* a_lat = identity of the Lattice the atom refers to (0 = None) *)
Record atom := { a_id : Z; a_payload : Z; a_lat : Z }.
Definition dict := list (attr * value).
Record obj := { o_cls : cls; o_items : list atom; o_inst : dict }.

Fixpoint lookup {A} (a : string) (d : list (string * A)) : option A :=
  match d with [] => None | (k, v) :: r => if String.eqb a k then Some v else lookup a r end.
Fixpoint remove {A} (a : string) (d : list (string * A)) : list (string * A) :=
  match d with [] => [] | (k, v) :: r => if String.eqb a k then remove a r else (k, v) :: remove a r end.
(* Python dict assignment: replace in place or append *)
Fixpoint dset {A} (a : string) (v : A) (d : list (string * A)) : list (string * A) :=
  match d with [] => [(a, v)] | (k, w) :: r => if String.eqb a k then (k, v) :: r else (k, w) :: dset a v r end.
Definition update {A} (d new : list (string * A)) : list (string * A) :=
  fold_left (fun acc kv => dset (fst kv) (snd kv) acc) new d.

Definition class_default (c : cls) (a : attr) : option value :=
  if String.eqb a "title" then Some (VStr 0)
  else if String.eqb a "_lattice" then Some VNone
  else if String.eqb a "pdffit" then Some VNone
  else None.
(* attribute lookup: instance dictionary first, then the class; None = AttributeError *)
Definition getattr (o : obj) (a : attr) : option value :=
  match lookup a (o_inst o) with Some v => Some v | None => class_default (o_cls o) a end.
Definition is_none (v : option value) : bool := match v with Some VNone => true | _ => false end.
Definition truthy (v : value) : bool :=
  match v with VNone => false | VStr s => negb (s =? 0) | VLat _ _ => true
             | VDict d => match d with [] => false | _ => true end | VOther n => negb (n =? 0) end.
Definition lat_id (o : obj) : Z := match getattr o "_lattice" with Some (VLat id _) => id | _ => 0 end.

Definition with_inst (o : obj) (d : dict) : obj := {| o_cls := o_cls o; o_items := o_items o; o_inst := d |}.
Definition with_items (o : obj) (l : list atom) : obj := {| o_cls := o_cls o; o_items := l; o_inst := o_inst o |}.
Definition repoint (l : Z) (a : atom) : atom := {| a_id := a_id a; a_payload := a_payload a; a_lat := l |}.

(* ---------- the abstract world ---------- *)
Inductive res (A : Type) := Ok (a : A) | Raise (e : Z).
Arguments Ok {A} a. Arguments Raise {A} e.

Record parsed := { p_cls : cls; p_items : list atom; p_inst : dict }.
(* what a parse call does: result (a structure, None, or an exception) and the `spacegroup`
   attribute the parser object carries afterwards (interned short name; None = absent or falsy) *)
Record parse_out := { po_result : res (option parsed); po_sg : option Z }.
Definition files := list (Z * Z).            (* file name -> interned content *)
Record parser := { ps_parse : Z -> parse_out;
                   ps_parsefile : Z -> files -> parse_out;
                   ps_tostring : option Z -> obj -> res Z }.   (* p.filename, structure *)
Record env := { e_getparser : Z -> res parser;
                e_title_of : Z -> Z;            (* file name -> base name without extension *)
                e_open_w : Z -> res unit;       (* can the file be opened for writing *)
                e_default_pdffit : list (string * Z);
                e_default_cell : Z;
                e_new_lattice : Z }.            (* identity of the Lattice() inside a newly made Structure() *)
Record args := { g_filename : Z; g_source : Z; g_format : Z }.

Fixpoint fs_get (n : Z) (fs : files) : option Z :=
  match fs with [] => None | (k, v) :: r => if k =? n then Some v else fs_get n r end.
Fixpoint fs_set (n v : Z) (fs : files) : files :=
  match fs with [] => [(n, v)] | (k, w) :: r => if k =? n then (k, v) :: r else (k, w) :: fs_set n v r end.

(* ---------- effects (the generated method bodies are lists of these) ---------- *)
Inductive effect :=
| EImport                       (* import statement, no effect on the state *)
| EGetParser                    (* p = getParser(format) *)
| EParse                        (* new_structure = p.parse(s) *)
| EParseFile                    (* new_structure = p.parseFile(filename) *)
| EDefaultNewStructure          (* if new_structure is None: new_structure = Structure() *)
| EDropInst (a : attr)          (* self.__dict__.pop(a, None) *)
| EInitSelf                     (* Structure.__init__(self) *)
| EGuardParsed (e : effect)     (* if new_structure is not None: e *)
| EUpdateDict                   (* self.__dict__.update(new_structure.__dict__) *)
| ESetAllItems                  (* self[:] = new_structure *)
| EDefaultTitleFromFilename     (* if not self.title: self.title = <base name of filename> *)
| EReturnParser                 (* return p *)
| ESetParserFilename            (* p.filename = filename *)
| EToString                     (* s = p.tostring(self) *)
| EOpenWrite                    (* fp = open(filename, "w")  -- truncates *)
| EWriteText                    (* fp.write(s) *)
| ECloseFile                    (* leaving the with block *)
| EReturnNone                   (* return *)
| EBaseRead                     (* p = Structure.read(self, filename, format) *)
| EBaseReadStr                  (* p = Structure.readStr(self, s, format) *)
| ERestoreDefaultPdffit         (* if self.pdffit is None: self.pdffit = PDFFitStructure().pdffit *)
| EGetSpacegroup                (* sg = getattr(p, "spacegroup", None) *)
| EUpdateSpcgr.                 (* if sg: self.pdffit["spcgr"] = sg.short_name *)

(* ---------- interpreter ---------- *)
Record parser_obj := { pb_parser : parser; pb_filename : option Z; pb_sg : option Z }.
Inductive pval := PUnbound | PNone | PObj (p : parser_obj).

Record frame := {
  f_self : obj; f_fs : files; f_next : Z;     (* f_next: next fresh object identity *)
  f_p : pval;                                  (* local: the parser *)
  f_new : option (option parsed);              (* local: new_structure (outer None = unbound) *)
  f_text : option Z;                           (* local: serialised text *)
  f_fp : option Z;                             (* local: open output file *)
  f_sg : option (option Z);                    (* local: sg *)
  f_ret : pval }.                              (* value returned (PUnbound = still running) *)

Definition frame_of (o : obj) (fs : files) (next : Z) : frame :=
  {| f_self := o; f_fs := fs; f_next := next; f_p := PUnbound; f_new := None; f_text := None;
     f_fp := None; f_sg := None; f_ret := PUnbound |}.
Definition set_self (fr : frame) (o : obj) : frame :=
  {| f_self := o; f_fs := f_fs fr; f_next := f_next fr; f_p := f_p fr; f_new := f_new fr; f_text := f_text fr;
     f_fp := f_fp fr; f_sg := f_sg fr; f_ret := f_ret fr |}.
Definition set_self_next (fr : frame) (o : obj) (n : Z) : frame :=
  {| f_self := o; f_fs := f_fs fr; f_next := n; f_p := f_p fr; f_new := f_new fr; f_text := f_text fr;
     f_fp := f_fp fr; f_sg := f_sg fr; f_ret := f_ret fr |}.
Definition set_fs (fr : frame) (fs : files) : frame :=
  {| f_self := f_self fr; f_fs := fs; f_next := f_next fr; f_p := f_p fr; f_new := f_new fr; f_text := f_text fr;
     f_fp := f_fp fr; f_sg := f_sg fr; f_ret := f_ret fr |}.
Definition set_p (fr : frame) (p : pval) : frame :=
  {| f_self := f_self fr; f_fs := f_fs fr; f_next := f_next fr; f_p := p; f_new := f_new fr; f_text := f_text fr;
     f_fp := f_fp fr; f_sg := f_sg fr; f_ret := f_ret fr |}.
Definition set_new (fr : frame) (n : option (option parsed)) : frame :=
  {| f_self := f_self fr; f_fs := f_fs fr; f_next := f_next fr; f_p := f_p fr; f_new := n; f_text := f_text fr;
     f_fp := f_fp fr; f_sg := f_sg fr; f_ret := f_ret fr |}.
Definition set_text (fr : frame) (t : option Z) : frame :=
  {| f_self := f_self fr; f_fs := f_fs fr; f_next := f_next fr; f_p := f_p fr; f_new := f_new fr; f_text := t;
     f_fp := f_fp fr; f_sg := f_sg fr; f_ret := f_ret fr |}.
Definition set_fp (fr : frame) (h : option Z) : frame :=
  {| f_self := f_self fr; f_fs := f_fs fr; f_next := f_next fr; f_p := f_p fr; f_new := f_new fr; f_text := f_text fr;
     f_fp := h; f_sg := f_sg fr; f_ret := f_ret fr |}.
Definition set_sg (fr : frame) (g : option (option Z)) : frame :=
  {| f_self := f_self fr; f_fs := f_fs fr; f_next := f_next fr; f_p := f_p fr; f_new := f_new fr; f_text := f_text fr;
     f_fp := f_fp fr; f_sg := g; f_ret := f_ret fr |}.
Definition set_ret (fr : frame) (r : pval) : frame :=
  {| f_self := f_self fr; f_fs := f_fs fr; f_next := f_next fr; f_p := f_p fr; f_new := f_new fr; f_text := f_text fr;
     f_fp := f_fp fr; f_sg := f_sg fr; f_ret := r |}.

Inductive outcome := Done (f : frame) | Failed (e : Z) (f : frame).

(* exception codes raised by the interpreter itself (parsers etc. bring their own) *)
Definition X_unbound : Z := -1.      (* NameError / UnboundLocalError *)
Definition X_attribute : Z := -2.    (* AttributeError, e.g. None.__dict__ *)
Definition X_type : Z := -3.         (* TypeError, e.g. None[...] = ... *)
Definition X_nocall : Z := -4.       (* call effect below the call level *)

(* self.lattice = Lattice(): the property setter re-points every atom *)
Definition assign_lattice (o : obj) (id cell : Z) : obj :=
  {| o_cls := o_cls o; o_items := map (repoint id) (o_items o); o_inst := dset "_lattice" (VLat id cell) (o_inst o) |}.

Definition has_id (i : Z) (l : list atom) : bool := existsb (fun a => a_id a =? i) l.
(* self[:] = value  (Structure.__setitem__ with a slice, copy=True): atoms already in self keep their
   identity, the others are copied into new objects; all get a.lattice = self.lattice *)
Fixpoint copy_items (cur : list atom) (l next : Z) (new : list atom) : list atom * Z :=
  match new with
  | [] => ([], next)
  | a :: r =>
      if has_id (a_id a) cur
      then let (r', n') := copy_items cur l next r in (repoint l a :: r', n')
      else let (r', n') := copy_items cur l (next + 1) r in
           ({| a_id := next; a_payload := a_payload a; a_lat := l |} :: r', n')
  end.

(* ---------- what the statements do to the object (used by the interpreter below) ---------- *)
Definition drop_inst (a : attr) (o : obj) : obj := with_inst o (remove a (o_inst o)).
(* Structure.__init__(self) without arguments: only `elif self.lattice is None: self.lattice = Lattice()` acts *)
Definition init_self (cell n : Z) (o : obj) : obj :=
  if is_none (getattr o "_lattice") then assign_lattice o n cell else o.
Definition init_next (n : Z) (o : obj) : Z := if is_none (getattr o "_lattice") then n + 1 else n.
Definition update_dict (ps : parsed) (o : obj) : obj := with_inst o (update (o_inst o) (p_inst ps)).
Definition set_all_items (ps : parsed) (n : Z) (o : obj) : obj :=
  with_items o (fst (copy_items (o_items o) (lat_id o) n (p_items ps))).
Definition set_all_next (ps : parsed) (n : Z) (o : obj) : Z :=
  snd (copy_items (o_items o) (lat_id o) n (p_items ps)).
Definition title_value (o : obj) : value := match getattr o "title" with Some v => v | None => VNone end.
Definition default_title (t : Z) (o : obj) : obj :=
  if truthy (title_value o) then o else with_inst o (dset "title" (VStr t) (o_inst o)).
Definition restore_pdffit (dflt : list (string * Z)) (o : obj) : obj :=
  if is_none (getattr o "pdffit") then with_inst o (dset "pdffit" (VDict dflt) (o_inst o)) else o.
Definition update_spcgr (g : Z) (o : obj) : option obj :=
  match getattr o "pdffit" with
  | Some (VDict d) => Some (with_inst o (dset "pdffit" (VDict (dset "spcgr" g d)) (o_inst o)))
  | _ => None
  end.

(* Structure(): no atoms, a default Lattice() of its own, nothing else in the instance dictionary *)
Definition empty_parsed (E : env) : parsed :=
  {| p_cls := CStructure; p_items := []; p_inst := [("_lattice", VLat (e_new_lattice E) (e_default_cell E))] |}.
(* the structure the statements after the parse work with *)
Definition effective (E : env) (r : option parsed) : parsed := match r with Some ps => ps | None => empty_parsed E end.

Definition parse_step (fr : frame) (po : parser_obj) (fname : option Z) (out : parse_out) : outcome :=
  let po' := {| pb_parser := pb_parser po; pb_filename := fname; pb_sg := po_sg out |} in
  match po_result out with
  | Raise x => Failed x (set_p fr (PObj po'))
  | Ok r => Done (set_new (set_p fr (PObj po')) (Some r))
  end.

Fixpoint step0 (E : env) (G : args) (e : effect) (fr : frame) : outcome :=
  match e with
  | EImport => Done fr
  | EGetParser =>
      match e_getparser E (g_format G) with
      | Ok p => Done (set_p fr (PObj {| pb_parser := p; pb_filename := None; pb_sg := None |}))
      | Raise x => Failed x fr
      end
  | EParse =>
      match f_p fr with
      | PObj po => parse_step fr po (pb_filename po) (ps_parse (pb_parser po) (g_source G))
      | PNone => Failed X_attribute fr
      | PUnbound => Failed X_unbound fr
      end
  | EParseFile =>
      match f_p fr with
      | PObj po => parse_step fr po (Some (g_filename G)) (ps_parsefile (pb_parser po) (g_filename G) (f_fs fr))
      | PNone => Failed X_attribute fr
      | PUnbound => Failed X_unbound fr
      end
  | EDefaultNewStructure =>
      match f_new fr with
      | None => Failed X_unbound fr
      | Some r => Done (set_new fr (Some (Some (effective E r))))
      end
  | EDropInst a => Done (set_self fr (drop_inst a (f_self fr)))
  | EInitSelf =>
      Done (set_self_next fr (init_self (e_default_cell E) (f_next fr) (f_self fr)) (init_next (f_next fr) (f_self fr)))
  | EGuardParsed e' =>
      match f_new fr with
      | None => Failed X_unbound fr
      | Some None => Done fr
      | Some (Some _) => step0 E G e' fr
      end
  | EUpdateDict =>
      match f_new fr with
      | None => Failed X_unbound fr
      | Some None => Failed X_attribute fr
      | Some (Some ps) => Done (set_self fr (update_dict ps (f_self fr)))
      end
  | ESetAllItems =>
      match f_new fr with
      | None => Failed X_unbound fr
      | Some None => Failed X_type fr
      | Some (Some ps) =>
          Done (set_self_next fr (set_all_items ps (f_next fr) (f_self fr)) (set_all_next ps (f_next fr) (f_self fr)))
      end
  | EDefaultTitleFromFilename =>
      Done (set_self fr (default_title (e_title_of E (g_filename G)) (f_self fr)))
  | EReturnParser =>
      match f_p fr with PUnbound => Failed X_unbound fr | p => Done (set_ret fr p) end
  | ESetParserFilename =>
      match f_p fr with
      | PObj po => Done (set_p fr (PObj {| pb_parser := pb_parser po; pb_filename := Some (g_filename G); pb_sg := pb_sg po |}))
      | PNone => Failed X_attribute fr
      | PUnbound => Failed X_unbound fr
      end
  | EToString =>
      match f_p fr with
      | PObj po => match ps_tostring (pb_parser po) (pb_filename po) (f_self fr) with
                   | Ok t => Done (set_text fr (Some t))
                   | Raise x => Failed x fr
                   end
      | PNone => Failed X_attribute fr
      | PUnbound => Failed X_unbound fr
      end
  | EOpenWrite =>
      match e_open_w E (g_filename G) with
      | Ok _ => Done (set_fp (set_fs fr (fs_set (g_filename G) 0 (f_fs fr))) (Some (g_filename G)))
      | Raise x => Failed x fr
      end
  | EWriteText =>
      match f_fp fr, f_text fr with
      | Some n, Some t => Done (set_fs fr (fs_set n t (f_fs fr)))
      | _, _ => Failed X_unbound fr
      end
  | ECloseFile => Done (set_fp fr None)
  | EReturnNone => Done (set_ret fr PNone)
  | EBaseRead | EBaseReadStr => Failed X_nocall fr
  | ERestoreDefaultPdffit =>
      Done (set_self fr (restore_pdffit (e_default_pdffit E) (f_self fr)))
  | EGetSpacegroup =>
      match f_p fr with
      | PUnbound => Failed X_unbound fr
      | PNone => Done (set_sg fr (Some None))
      | PObj po => Done (set_sg fr (Some (pb_sg po)))
      end
  | EUpdateSpcgr =>
      match f_sg fr with
      | None => Failed X_unbound fr
      | Some None => Done fr
      | Some (Some g) =>
          match update_spcgr g (f_self fr) with
          | Some o' => Done (set_self fr o')
          | None => Failed X_type fr           (* self.pdffit is not a dictionary *)
          end
      end
  end.

Definition returned (fr : frame) : bool := match f_ret fr with PUnbound => false | _ => true end.

(* run a statement list; a return statement ends it; a failure ends it with the frame at that point *)
Fixpoint run_with (step : effect -> frame -> outcome) (l : list effect) (fr : frame) : outcome :=
  match l with
  | [] => Done fr
  | e :: r => match step e fr with
              | Done fr' => if returned fr' then Done fr' else run_with step r fr'
              | Failed x fr' => Failed x fr'
              end
  end.
Definition run0 (E : env) (G : args) := run_with (step0 E G).

(* a call of a base-class method on the same object: own locals, shared self / file system *)
Definition call0 (E : env) (G : args) (body : list effect) (fr : frame) : outcome :=
  match run0 E G body (frame_of (f_self fr) (f_fs fr) (f_next fr)) with
  | Done fr' => Done (set_p (set_self_next (set_fs fr (f_fs fr')) (f_self fr') (f_next fr'))
                            (match f_ret fr' with PUnbound => PNone | r => r end))
  | Failed x fr' => Failed x (set_self_next (set_fs fr (f_fs fr')) (f_self fr') (f_next fr'))
  end.
Definition step1 (E : env) (G : args) (base_read base_readstr : list effect) (e : effect) (fr : frame) : outcome :=
  match e with
  | EBaseRead => call0 E G base_read fr
  | EBaseReadStr => call0 E G base_readstr fr
  | _ => step0 E G e fr
  end.
Definition run1 (E : env) (G : args) (base_read base_readstr : list effect) :=
  run_with (step1 E G base_read base_readstr).

(* ---------- brand-new objects ---------- *)
(* cls(): Structure() holds {_lattice: Lattice()}; PDFFitStructure() additionally its default pdffit *)
Definition fresh (E : env) (c : cls) (id : Z) : obj :=
  {| o_cls := c; o_items := [];
     o_inst := match c with
               | CStructure => [("_lattice", VLat id (e_default_cell E))]
               | CPDFFit => [("pdffit", VDict (e_default_pdffit E)); ("_lattice", VLat id (e_default_cell E))]
               end |}.

(* ---------- what an observer compares ---------- *)
Definition outcome_self (o : outcome) : obj := match o with Done f | Failed _ f => f_self f end.
Definition outcome_fs (o : outcome) : files := match o with Done f | Failed _ f => f_fs f end.
Definition is_failed (o : outcome) : bool := match o with Failed _ _ => true | Done _ => false end.

(* lattice objects are compared by cell, not by identity *)
Definition obs_value (v : option value) : option value :=
  match v with Some (VLat _ c) => Some (VLat 0 c) | x => x end.
Record observation := { ob_cls : cls; ob_payloads : list Z; ob_attrs : list (option value) }.
Definition observe (names : list attr) (o : obj) : observation :=
  {| ob_cls := o_cls o; ob_payloads := map a_payload (o_items o);
     ob_attrs := map (fun a => obs_value (getattr o a)) names |}.
(* attributes the property talks about: title, pdffit and xcfg (the format metadata the parsers of the
   package attach to a structure), lattice, plus whatever else the parsed structure carries in its
   instance dictionary *)
Definition observed_names (ps : parsed) : list attr :=
  "title" :: "pdffit" :: "xcfg" :: "_lattice" :: map fst (p_inst ps).

Definition atoms_point_to_lattice (o : obj) : Prop :=
  Forall (fun a => a_lat a = lat_id o) (o_items o).
Definition atoms_point_to_lattice_b (o : obj) : bool :=
  forallb (fun a => a_lat a =? lat_id o) (o_items o).

(* ---------- static conditions on effect lists (decided on the generated lists) ---------- *)
(* may change self or the file system (a guarded statement is counted as touching: before the
   parse it has no business, after the parse safe_after_parse lists the admissible ones) *)
Definition touches (e : effect) : bool :=
  match e with
  | EDropInst _ | EInitSelf | EUpdateDict | ESetAllItems | EDefaultTitleFromFilename | EOpenWrite | EWriteText
  | EBaseRead | EBaseReadStr | ERestoreDefaultPdffit | EUpdateSpcgr | EGuardParsed _ => true
  | _ => false
  end.
Definition is_parse (e : effect) : bool := match e with EParse | EParseFile => true | _ => false end.
Definition is_call (e : effect) : bool := match e with EBaseRead | EBaseReadStr => true | _ => false end.
Fixpoint is_return (e : effect) : bool :=
  match e with EReturnParser | EReturnNone => true | EGuardParsed e' => is_return e' | _ => false end.
(* cannot fail once the parser and new_structure are bound *)
Definition safe_after_parse (e : effect) : bool :=
  match e with
  | EImport | EDropInst _ | EInitSelf | EReturnParser | EReturnNone | EDefaultTitleFromFilename | ERestoreDefaultPdffit
  | EDefaultNewStructure
  | EGuardParsed EUpdateDict | EGuardParsed ESetAllItems | EGuardParsed EImport
  | EGuardParsed (EDropInst _) | EGuardParsed EInitSelf => true
  | _ => false
  end.
(* the entry points and the parse call each of them makes *)
Inductive entry := ReadFile | ReadStr.
Definition parse_of (G : args) (en : entry) (fs : files) (p : parser) : parse_out :=
  match en with ReadStr => ps_parse p (g_source G) | ReadFile => ps_parsefile p (g_filename G) fs end.
Definition is_parse_of (en : entry) (e : effect) : bool :=
  match en, e with ReadStr, EParse => true | ReadFile, EParseFile => true | _, _ => false end.
(* the parse statement of the entry point is present and nothing before it touches self, the files, or returns *)
Fixpoint parse_guarded (en : entry) (l : list effect) : bool :=
  match l with
  | [] => false
  | e :: r => if is_parse_of en e then true else negb (touches e) && negb (is_return e) && parse_guarded en r
  end.
(* every statement up to the parse leaves self and the files alone, every later one cannot fail *)
Fixpoint atomic_ok (l : list effect) : bool :=
  match l with
  | [] => true
  | e :: r => if is_parse e then forallb safe_after_parse r else negb (touches e) && atomic_ok r
  end.
(* the same for a method that delegates to a base method: nothing touches before the call *)
Fixpoint call_guarded (l : list effect) : bool :=
  match l with
  | [] => false
  | e :: r => if is_call e then true else negb (touches e) && negb (is_return e) && call_guarded r
  end.
(* serialise before touching the file: no file effect at or before the tostring statement *)
Fixpoint tostring_guarded (l : list effect) : bool :=
  match l with
  | [] => false
  | e :: r => match e with
              | EToString => true
              | _ => negb (touches e) && negb (is_return e) && tostring_guarded r
              end
  end.
