(* C05 - exact model of SymmetryConstraints._findConstraints on exact positions: walk the list, every position
   not yet claimed becomes a generator and claims all unclaimed positions equivalent to it.
   Model file: definitions only. *)
From Coq Require Import ZArith QArith List Bool.
From DS Require Import Base.ZMat Base.SGDefs Model.C05_QBase.
Import ListNotations.

(* y is an image of x under the group, modulo lattice translations *)
Definition equivalent (G : list symop) (x y : q3) : Prop := exists g, In g G /\ IsInt3 (q3sub (opq g x) y).
Definition equivb (G : list symop) (x y : q3) : bool := existsb (fun g => same_mod1 (opq g x) y) G.

Definition pos_at (xs : list q3) (k : nat) : q3 := nth k xs q3zero.

(* rem = indices still independent, in increasing order; fuel >= length rem *)
Fixpoint core_go (G : list symop) (xs : list q3) (fuel : nat) (rem : list nat) : list (nat * list nat) :=
  match fuel with
  | O => []
  | S fuel' =>
      match rem with
      | [] => []
      | i :: r =>
          let same := fun k => equivb G (pos_at xs i) (pos_at xs k) in
          (i, i :: filter same r) :: core_go G xs fuel' (filter (fun k => negb (same k)) r)
      end
  end.

(* coremap: generator index -> indices of its orbit (the generator first) *)
Definition core_map (G : list symop) (xs : list q3) : list (nat * list nat) :=
  core_go G xs (List.length xs) (seq 0 (List.length xs)).
