(* C05/C06 - the queries of the three GeneratorSite methods, with the tolerance each one hands to equalPositions
   as read from the current source (Gen/C06_QueryGuards.v).  site_eps is the `eps` the site was built with.
   Model file: definitions only. *)
From Coq Require Import ZArith QArith List.
From DS Require Import Base.ZMat Model.C05_QBase Model.C06_Query Gen.C06_QueryGuards.

Definition position_formula_query (site_eps : Q) (eqxyz : list q3) (pos : q3) : option nat :=
  site_query (tol_of guard_positionFormula site_eps module_epsilon) eqxyz pos.
Definition u_formula_query (site_eps : Q) (eqxyz : list q3) (pos : q3) : option nat :=
  site_query (tol_of guard_UFormula site_eps module_epsilon) eqxyz pos.
Definition eq_index_query (eqxyz : list q3) (pos : q3) : option nat := eq_index eqxyz pos.
(* the tolerance a GeneratorSite built by SymmetryConstraints / ExpandAsymmetricUnit works with *)
Definition site_eps_in_SymmetryConstraints (eps : Q) : Q := tol_of eps_passed_by_SymmetryConstraints eps module_epsilon.
Definition site_eps_in_ExpandAsymmetricUnit (eps : Q) : Q := tol_of eps_passed_by_ExpandAsymmetricUnit eps module_epsilon.
