(* C13 - model of P_xcfg.parseLines and _assign_auxiliaries (p_xcfg.py:175-290, 429-463) in the exception monad.

   The loop that trims trailing blank lines runs before the try and has no raising site.  All the rest is
   inside the try whose caught tuple is xcfg_parseLines_try1_caught.  numpy's H0[i, j] accepts indices
   -3..2 and raises IndexError otherwise; this is modelled exactly.  `p_natoms` is assigned by the same
   branch that sets xcfg_Number_of_particles, the model keeps one option for both and raises
   UnboundLocalError where the code would. *)
From Coq Require Import List Bool Arith ZArith.
From DS Require Import Base.C13_Exn Gen.C13_ExcSpec Model.C13_Common.
From Coq Require Import Ascii String.
Import ListNotations.

Section XCFG.
  Variable V : Type.
  Variable split : string -> list string.
  Variable isblank : string -> bool.
  Variable float_of : string -> res V.
  Variable int_of : string -> res Z.
  Variable first_word_from : nat -> string -> option string.   (* line[n:].split(None, 1)[0] ; None = IndexError *)
  Variable aux_match : string -> option (string * nat).        (* ^auxiliary\[(\d+)\] = : (group 1, m.end()) *)
  Variable lat_base_of : list (option V) -> res unit.          (* stru.lattice.setLatBase(H0), unset entries are 0.0 *)
  Variable aux_assign : string -> res unit.                    (* the body of _assign_auxiliaries for one property name *)

  Record xst := {
    x_np : option Z; x_a : option V; x_h0 : list (option V); x_h0set : list bool; x_novel : bool;
    x_ecount : option Z; x_aux : list (Z * string) }.

  Definition x0 : xst :=
    {| x_np := None; x_a := None; x_h0 := repeat None 9; x_h0set := repeat false 9; x_novel := false;
       x_ecount := None; x_aux := [] |}.

  Definition starts (p s : string) : bool := prefix p s.

  Definition word_from (n : nat) (line : string) : res string :=
    match first_word_from n line with Some w => Ok w | None => Raise IndexError end.

  (* line[n] as a one-character string *)
  Definition char_at (n : nat) (line : string) : res string :=
    match get n line with Some c => Ok (String c EmptyString) | None => Raise IndexError end.

  (* numpy index into an axis of length 3 *)
  Definition np_index3 (i : Z) : res nat :=
    if (Z.leb (-3) i && Z.ltb i 0)%Z then Ok (Z.to_nat (i + 3))
    else if (Z.leb 0 i && Z.ltb i 3)%Z then Ok (Z.to_nat i)
    else Raise IndexError.

  Fixpoint set_nth {A} (n : nat) (a : A) (l : list A) : list A :=
    match l, n with
    | [], _ => []
    | _ :: l', O => a :: l'
    | x :: l', S n' => x :: set_nth n' a l'
    end.

  Fixpoint aux_set (k : Z) (v : string) (l : list (Z * string)) : list (Z * string) :=
    match l with
    | [] => [(k, v)]
    | (k', v') :: l' => if Z.eqb k k' then (k, v) :: l' else (k', v') :: aux_set k v l'
    end.

  Definition aux_has (k : Z) (l : list (Z * string)) : bool := existsb (fun p => Z.eqb (fst p) k) l.

  (* one header line; the boolean says `break` *)
  Definition xcfg_header_line (st : xst) (line : string) : res (xst * bool) :=
    if isblank line then Ok (st, false)
    else
      c <- str_head line ;;
      if Ascii.eqb c hash_char then Ok (st, false)
      else match x_np st with
      | None =>
          if negb (starts "Number of particles =" line) then Raise FormatError
          else w <- word_from 21 line ;; n <- int_of w ;;
               Ok ({| x_np := Some n; x_a := x_a st; x_h0 := x_h0 st; x_h0set := x_h0set st; x_novel := x_novel st;
                      x_ecount := x_ecount st; x_aux := x_aux st |}, false)
      | Some _ =>
          if starts "A =" line then
            w <- word_from 3 line ;; a <- float_of w ;;
            Ok ({| x_np := x_np st; x_a := Some a; x_h0 := x_h0 st; x_h0set := x_h0set st; x_novel := x_novel st;
                   x_ecount := x_ecount st; x_aux := x_aux st |}, false)
          else if starts "H0(" line then
            ci <- char_at 3 line ;; i <- int_of ci ;;
            cj <- char_at 5 line ;; j <- int_of cj ;;
            w <- word_from 10 line ;; v <- float_of w ;;
            pi <- np_index3 (i - 1) ;; pj <- np_index3 (j - 1) ;;
            let pos := pi * 3 + pj in
            Ok ({| x_np := x_np st; x_a := x_a st; x_h0 := set_nth pos (Some v) (x_h0 st);
                   x_h0set := set_nth pos true (x_h0set st); x_novel := x_novel st;
                   x_ecount := x_ecount st; x_aux := x_aux st |}, false)
          else if starts ".NO_VELOCITY." line then
            Ok ({| x_np := x_np st; x_a := x_a st; x_h0 := x_h0 st; x_h0set := x_h0set st; x_novel := true;
                   x_ecount := x_ecount st; x_aux := x_aux st |}, false)
          else if starts "entry_count =" line then
            w <- word_from 13 line ;; n <- int_of w ;;
            Ok ({| x_np := x_np st; x_a := x_a st; x_h0 := x_h0 st; x_h0set := x_h0set st; x_novel := x_novel st;
                   x_ecount := Some n; x_aux := x_aux st |}, false)
          else match aux_match line with
          | Some (digits, mend) =>
              k <- int_of digits ;;
              w <- word_from mend line ;;
              Ok ({| x_np := x_np st; x_a := x_a st; x_h0 := x_h0 st; x_h0set := x_h0set st; x_novel := x_novel st;
                     x_ecount := x_ecount st; x_aux := aux_set k w (x_aux st) |}, false)
          | None => Ok (st, true)
          end
      end.

  Fixpoint xcfg_header (st : xst) (rest : list string) : res (xst * list string) :=
    match rest with
    | [] => Ok (st, [])
    | line :: rest' =>
        r <- xcfg_header_line st line ;;
        if snd r then Ok (fst r, rest') else xcfg_header (fst r) rest'
    end.

  Definition aux_max (l : list (Z * string)) : Z := fold_left (fun m p => Z.max m (fst p)) l (-1)%Z.

  (* for i in range(p_auxnum): if i not in p_auxiliary: p_auxiliary[i] = "aux%d" % i   (names of the fills are irrelevant
     for the control flow except that they take the generic setattr branch; they are marked with the empty name) *)
  Fixpoint aux_fill (n : nat) (k : Z) (l : list (Z * string)) : list (Z * string) :=
    match n with
    | O => l
    | S n' => let l' := if aux_has k l then l else (l ++ [(k, EmptyString)])%list in aux_fill n' (k + 1)%Z l'
    end.

  Definition isfloat (s : string) : res bool :=
    try_catch (bind (float_of s) (fun _ => Ok true)) [ValueError] (fun _ => Ok false).

  (* _assign_auxiliaries(a, fields, auxiliaries, no_velocity) *)
  Definition xcfg_assign (fields : list V) (aux : list (Z * string)) (novel : bool) : res unit :=
    let auxfirst := if novel then 3%Z else 6%Z in
    foldM (fun (_ : unit) p =>
             _ <- idx fields (Z.to_nat (auxfirst + fst p)) ;;
             if String.eqb (snd p) EmptyString then Ok tt else aux_assign (snd p))
          aux tt.

  Record xdata := { xd_elem : bool; xd_n : nat }.

  Definition xcfg_data_line (ec : Z) (aux : list (Z * string)) (novel : bool) (st : xdata) (line : string) : res xdata :=
    let words := split line in
    single_float <- (if Nat.eqb (List.length words) 1
                     then w <- idx words 0 ;; isfloat w else Ok false) ;;
    if single_float then Ok st
    else if Nat.leb (List.length words) 1 then Ok {| xd_elem := true; xd_n := xd_n st |}
    else if Z.eqb (Z.of_nat (List.length words)) ec && xd_elem st then
      fields <- mapM float_of words ;;
      _ <- xcfg_assign fields aux novel ;;
      Ok {| xd_elem := xd_elem st; xd_n := S (xd_n st) |}
    else Raise FormatError.

  Definition xcfg_body (lines : list string) (stop : nat) : res nat :=
    hs <- xcfg_header x0 (firstn stop lines) ;;
    let st := fst hs in
    if negb (forallb (fun b => b) (x_h0set st)) then Raise FormatError
    else match x_a st with
    | None => Raise FormatError
    | Some _ =>
      let auxnum := if is_nil (x_aux st) then 0%Z else (aux_max (x_aux st) + 1)%Z in
      let aux := aux_fill (Z.to_nat auxnum) 0%Z (x_aux st) in
      let ecnt := (Z.of_nat (List.length aux) + (if x_novel st then 3 else 6))%Z in
      match x_ecount st with
      | None => Raise FormatError
      | Some ec =>
        if negb (Z.eqb ecnt ec) then Raise FormatError
        else
          _ <- lat_base_of (x_h0 st) ;;
          d <- foldM (xcfg_data_line ec aux (x_novel st)) (snd hs) {| xd_elem := false; xd_n := 0 |} ;;
          match x_np st with
          | None => Raise UnboundLocalError
          | Some np => if negb (Z.eqb (Z.of_nat (xd_n d)) np) then Raise FormatError else Ok (xd_n d)
          end
      end
    end.

  (* stop = len(lines); for line in reversed(lines): if line.strip(): break; stop -= 1 *)
  Fixpoint count_trailing_blank (rl : list string) : nat :=
    match rl with
    | [] => 0
    | l :: rl' => if isblank l then S (count_trailing_blank rl') else 0
    end.

  Definition parse_xcfg_gen (caught : list kind) (hk : handler_kind) (lines : list string) : res nat :=
    let stop := List.length lines - count_trailing_blank (rev lines) in
    try_catch (xcfg_body lines stop) caught (reraise_handler hk).

  Definition parse_xcfg (lines : list string) : res nat :=
    parse_xcfg_gen xcfg_parseLines_try1_caught xcfg_parseLines_try1_handler lines.
End XCFG.
