(* C13 - model of P_xyz.parseLines and P_rawxyz.parseLines (control flow and raising sites) in the exception monad.

   Oracles (Section variables): tokenisation and number parsing.  The value computed is the number of
   atoms added to the structure (enough to compare outcomes with the implementation).
   The caught tuples and handler classes are those of Gen/C13_ExcSpec.v. *)
From Coq Require Import List Bool Arith ZArith.
From DS Require Import Base.C13_Exn Gen.C13_ExcSpec Model.C13_Common.
From Coq Require Import Ascii String.
Import ListNotations.

Section XYZ.
  Variable V : Type.                               (* float values *)
  Variable split : string -> list string.         (* str.split() *)
  Variable int_of : string -> res Z.              (* int(s) *)
  Variable canon_int : string -> bool.            (* str(int(s)) == s, consulted only after int(s) succeeded *)
  Variable float_of : string -> res V.            (* float(s) *)

  (* isfloat(s) of diffpy.structure.utils: try: float(s); return True / except ValueError: return False *)
  Definition isfloat (s : string) : res bool :=
    try_catch (bind (float_of s) (fun _ => Ok true)) [ValueError] (fun _ => Ok false).

  (* ---- P_xyz ------------------------------------------------------------------------------ *)
  (* body of the first try (p_xyz.py:73-82) *)
  Definition xyz_header (lines : list string) (linefields : list (list string)) (start : nat) : res (Z * nat) :=
    lfs <- idx linefields start ;;
    lfs' <- idx linefields start ;;
    w1 <- idx lfs' 0 ;;
    if Nat.eqb (List.length lfs) 1 then
      n1 <- int_of w1 ;;
      if canon_int w1 then
        n <- int_of w1 ;;
        _ <- (if Nat.ltb (start + 1) (List.length lines)
              then bind (idx lines (start + 1)) (fun _ => Ok tt) else Ok tt) ;;   (* title, "" when the text ends here *)
        Ok (n, start + 2)
      else Raise FormatError
    else Raise FormatError.

  (* one iteration of the record loop (p_xyz.py:103-113); the state is the number of atoms read *)
  Definition xyz_record (nfields : nat) (n : nat) (fields : list string) : res nat :=
    if is_nil fields then Ok n
    else if negb (Nat.eqb (List.length fields) nfields) then Raise FormatError
    else
      element <- idx fields 0 ;;
      _ <- str_head element ;;
      _ <- mapM float_of (slice fields 1 4) ;;
      Ok (S n).

  Definition parse_xyz (lines : list string) : res nat :=
    let linefields := map split lines in
    let start0 := count_leading skip_field linefields in
    hdr <- try_catch (xyz_header lines linefields start0) xyz_parseLines_try1_caught
                     (reraise_handler xyz_parseLines_try1_handler) ;;
    let natoms := fst hdr in
    let start := snd hdr in
    stop <- trim_stop (S (List.length lines)) linefields start (List.length lines) ;;
    if Z.eqb natoms 0 || Nat.leb stop start then Ok 0
    else
      f0 <- idx linefields start ;;
      let nfields := List.length f0 in
      if negb (Nat.eqb nfields 4) then Raise FormatError
      else
        n <- try_catch (foldM (xyz_record nfields) (skipn start linefields) 0) xyz_parseLines_try2_caught
                       (reraise_handler xyz_parseLines_try2_handler) ;;
        if negb (Z.eqb (Z.of_nat n) natoms) then Raise FormatError else Ok n.

  (* ---- P_rawxyz --------------------------------------------------------------------------- *)
  Definition rawxyz_record (nfields : nat) (el_idx : option nat) (x_idx : nat) (n : nat) (fields : list string) : res nat :=
    if is_nil fields then Ok n
    else if negb (Nat.eqb (List.length fields) nfields) then Raise FormatError
    else
      _ <- match el_idx with Some i => bind (idx fields i) (fun _ => Ok tt) | None => Ok tt end ;;
      _ <- mapM float_of (slice fields x_idx (x_idx + 3)) ;;
      Ok (S n).

  Definition bool_list_eqb (a b : list bool) : bool :=
    Nat.eqb (List.length a) (List.length b) && forallb (fun p => Bool.eqb (fst p) (snd p)) (combine a b).

  Definition parse_rawxyz (lines : list string) : res nat :=
    let linefields := map split lines in
    let start := count_leading skip_field linefields in
    stop <- trim_stop (S (List.length lines)) linefields start (List.length lines) ;;
    if Nat.leb stop start then Ok 0
    else
      f0 <- idx linefields start ;;
      floatfields <- mapM isfloat f0 ;;
      f0' <- idx linefields start ;;
      let nfields := List.length f0' in
      if negb (Nat.eqb nfields 3 || Nat.eqb nfields 4) then Raise FormatError
      else
        layout <- (if bool_list_eqb (firstn 3 floatfields) [true; true; true] then Ok (None, 0)
                   else if bool_list_eqb (firstn 4 floatfields) [false; true; true; true] then Ok (Some 0, 1)
                   else Raise FormatError) ;;
        try_catch (foldM (rawxyz_record nfields (fst layout) (snd layout)) (skipn start linefields) 0)
                  rawxyz_parseLines_try1_caught (reraise_handler rawxyz_parseLines_try1_handler).
End XYZ.
