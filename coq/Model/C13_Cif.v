(* C13 - model of the wrapper that P_cif puts around PyCifRW (p_cif.py:308-439, 441-469).

   PyCifRW and the block-level readers are oracles typed by the kinds they may raise.  parse, parseLines and
   parseFile all end in _parseCifDataSource, whose single try is cif_parseCifDataSource_try1_caught;
   _parse_lattice has its own try around the six item look-ups (cif_parse_lattice_try1_caught).
   The result is None when no block carries _atom_site_label (the code returns self.stru = None). *)
From Coq Require Import List Bool Arith ZArith.
From DS Require Import Base.C13_Exn Gen.C13_ExcSpec Model.C13_Common.
From Coq Require Import Ascii String.
Import ListNotations.

Section CIF.
  Variable V : Type.
  Variable CF : Type.                                   (* a parsed CifFile *)
  Variable B : Type.                                    (* one data block *)
  Variable read_cif : string -> res CF.                 (* CifFile(datasource, grammar="auto") *)
  Variable blocks : CF -> list B.                       (* [ciffile[name] for name in ciffile.keys()] *)
  Variable has_sites : B -> bool.                       (* "_atom_site_label" in block *)
  Variable has_cell : B -> bool.                        (* "_cell_length_a" in block *)
  Variable cell_item : B -> nat -> res string.          (* block["_cell_length_b"] ... : KeyError when absent *)
  Variable leading_float : string -> res V.
  Variable lattice_of : list V -> res unit.             (* Lattice( *latpars) *)
  Variable atom_sites : B -> res unit.                  (* _parse_atom_site_label(block) *)
  Variable aniso_sites : B -> res unit.                 (* _parse_atom_site_aniso_label(block) *)
  Variable symops : B -> res unit.                      (* _parse_space_group_symop_operation_xyz(block), expansion included *)

  Definition cif_lattice (b : B) : res unit :=
    if negb (has_cell b) then Ok tt
    else
      pars <- try_catch (mapM (fun i => s <- cell_item b i ;; leading_float s) [0; 1; 2; 3; 4; 5])
                        cif_parse_lattice_try1_caught (reraise_handler cif_parse_lattice_try1_handler) ;;
      lattice_of pars.

  (* _parseCifBlock: true when the block defined the structure *)
  Definition cif_block (b : B) : res bool :=
    if negb (has_sites b) then Ok false
    else
      _ <- cif_lattice b ;;
      _ <- atom_sites b ;;
      _ <- aniso_sites b ;;
      _ <- symops b ;;
      Ok true.

  (* for blockname in keys: parse block; stop after the first structure *)
  Fixpoint cif_blocks (bs : list B) : res bool :=
    match bs with
    | [] => Ok false
    | b :: bs' => r <- cif_block b ;; if r then Ok true else cif_blocks bs'
    end.

  Definition cif_body (text : string) : res bool :=
    cf <- read_cif text ;; cif_blocks (blocks cf).

  (* Ok true: a Structure; Ok false: None is returned *)
  Definition parse_cif_gen (caught : list kind) (hk : handler_kind) (text : string) : res bool :=
    try_catch (cif_body text) caught (reraise_handler hk).

  Definition parse_cif (text : string) : res bool :=
    parse_cif_gen cif_parseCifDataSource_try1_caught cif_parseCifDataSource_try1_handler text.
End CIF.
