(* Syntax of the crystal-system rules of isSpaceGroupLatPar (the translator emits terms of this type)
   and their two semantics: over real cells (theorems) and over integer cells (executable). *)
From Coq Require Import ZArith Reals String List Bool.
Import ListNotations.

Inductive par := Pa | Pb | Pc | Palpha | Pbeta | Pgamma.
Inductive term := TPar (p : par) | TConst (z : Z).
Inductive rule := RTrue | RFalse | REq (x y : term) | RAnd (r s : rule) | ROr (r s : rule).

Record cell := { c_a : R; c_b : R; c_c : R; c_alpha : R; c_beta : R; c_gamma : R }.

Definition par_val (c : cell) (p : par) : R :=
  match p with Pa => c_a c | Pb => c_b c | Pc => c_c c | Palpha => c_alpha c | Pbeta => c_beta c | Pgamma => c_gamma c end.
Definition term_val (c : cell) (t : term) : R := match t with TPar p => par_val c p | TConst z => IZR z end.

Fixpoint interp (r : rule) (c : cell) : Prop :=
  match r with
  | RTrue => True | RFalse => False
  | REq x y => term_val c x = term_val c y
  | RAnd p q => interp p c /\ interp q c
  | ROr p q => interp p c \/ interp q c
  end.

(* executable semantics on cells with integer parameters *)
Record zcell := { z_a : Z; z_b : Z; z_c : Z; z_alpha : Z; z_beta : Z; z_gamma : Z }.
Definition zpar_val (c : zcell) (p : par) : Z :=
  match p with Pa => z_a c | Pb => z_b c | Pc => z_c c | Palpha => z_alpha c | Pbeta => z_beta c | Pgamma => z_gamma c end.
Definition zterm_val (c : zcell) (t : term) : Z := match t with TPar p => zpar_val c p | TConst z => z end.
Fixpoint evalz (r : rule) (c : zcell) : bool :=
  match r with
  | RTrue => true | RFalse => false
  | REq x y => Z.eqb (zterm_val c x) (zterm_val c y)
  | RAnd p q => evalz p c && evalz q c
  | ROr p q => evalz p c || evalz q c
  end.
Definition cell_of_z (c : zcell) : cell :=
  {| c_a := IZR (z_a c); c_b := IZR (z_b c); c_c := IZR (z_c c);
     c_alpha := IZR (z_alpha c); c_beta := IZR (z_beta c); c_gamma := IZR (z_gamma c) |}.

Lemma term_val_z c t : term_val (cell_of_z c) t = IZR (zterm_val c t).
Proof. destruct t as [p|z]; [destruct p|]; reflexivity. Qed.

Lemma evalz_spec r c : evalz r c = true <-> interp r (cell_of_z c).
Proof.
  induction r as [| |x y|p IHp q IHq|p IHp q IHq]; cbn [evalz interp].
  - tauto.
  - split; [discriminate | tauto].
  - rewrite !term_val_z, Z.eqb_eq. split; [intros ->; reflexivity | apply eq_IZR].
  - rewrite andb_true_iff, IHp, IHq. tauto.
  - rewrite orb_true_iff, IHp, IHq. tauto.
Qed.

Fixpoint lookup_rule (tbl : list (string * rule)) (s : string) : option rule :=
  match tbl with [] => None | (k, r) :: rest => if String.eqb k s then Some r else lookup_rule rest s end.
