(* C02 - the tolerance algorithm with the `eps` ARGUMENT as an input (expandPosition(spacegroup, xyz, sgoffset, eps),
   GeneratorSite(..., eps), ExpandAsymmetricUnit(..., eps)); generalises Model/C02_Eps.v and Model/C02_Gen.v,
   which are the instance eps = None (default 1.0e-5).

   Two tolerances cooperate:
     * the caller's eps (after `if eps is None: eps = epsilon`) is used by equalPositions and by the zeroing of
       GeneratorSite;
     * _Position2Tuple(eps) derives its own bin width:  self.eps = (eps + 1.0) - 1.0 ; for 0 <= eps < 1 the sum
       eps + 1.0 lies in [1,2] where doubles are spaced 2^-52, so self.eps = rint(eps * 2^52) / 2^52 exactly
       (round half to even; the subtraction is exact);  `if self.eps == 0.0 or 1.0/self.eps > sys.maxsize:
       self.eps = 0.0` selects the EXACT mode, in which the tuple is `tuple(xyz % 1.0)` (the coordinates themselves).
   eps is given as the exact rational value (num, den) of the double the caller passes; None = default.
   Model file: definitions only. *)
From Coq Require Import ZArith List Bool.
From DS Require Import Base.ZMat Base.SGDefs Model.GroupCheck Model.C02_Orbit Model.C02_Eps Model.C02_Gen.
Import ListNotations.
Open Scope Z_scope.

Record tol := Tol {
  tq_num : Z; tq_den : Z;      (* eps used by equalPositions / GeneratorSite zeroing *)
  tb_num : Z; tb_den : Z       (* bin width of _Position2Tuple; tb_num = 0 : exact mode *)
}.

Definition maxsize : Z := 2 ^ 63 - 1.

(* `if eps is None: eps = epsilon` *)
Definition resolve (eps : option (Z * Z)) : Z * Z :=
  match eps with None => (eps_eq_num, eps_eq_den) | Some e => e end.

(* _Position2Tuple.__init__(eps) *)
Definition p2t_init (eps : option (Z * Z)) : Z * Z :=
  let '(en, ed) := resolve eps in
  let k := rint ed (en * 2 ^ 52) in                      (* (eps + 1.0) - 1.0 = k / 2^52 *)
  if (k =? 0) || (maxsize * k <? 2 ^ 52) then (0, 1)      (* self.eps == 0.0 or 1.0 / self.eps > sys.maxsize *)
  else let g := Z.gcd k (2 ^ 52) in (k / g, 2 ^ 52 / g).

(* the tolerances at work inside expandPosition(..., eps) *)
Definition tol_of (eps : option (Z * Z)) : tol :=
  let e := resolve eps in                 (* expandPosition: if eps is None: eps = epsilon *)
  let b := p2t_init (Some e) in           (* pos2tuple = _Position2Tuple(eps) *)
  Tol (fst e) (snd e) (fst b) (snd b).

Definition default_tol : tol := Tol eps_eq_num eps_eq_den eps_b_num eps_b_den.

Section WithTol.
  Variable T : tol.

  (* _Position2Tuple.__call__ *)
  Definition tup1_t (D k : Z) : Z :=
    if tb_num T =? 0 then k - D * (k / D)                                   (* tuple(xyz % 1.0) *)
    else ((k - D * (k / D)) * tb_den T) / (D * tb_num T).                   (* int((xi - floor(xi)) / self.eps) *)
  Definition tup_t (D : Z) (p : v3) : v3 := V3 (tup1_t D (vx p)) (tup1_t D (vy p)) (tup1_t D (vz p)).

  (* equalPositions(xyz0, xyz1, eps) *)
  Definition le_eps_t (D d : Z) : bool := d * tq_den T <=? tq_num T * D.
  Definition equal_pos_t (D : Z) (p q : v3) : bool :=
    le_eps_t D (pdiff1 D (vx p) (vx q)) && le_eps_t D (pdiff1 D (vy p) (vy q)) && le_eps_t D (pdiff1 D (vz p) (vz q)).

  (* one iteration of the loop of expandPosition *)
  Definition eps_step_t (D : Z) (off x : v3) (s : st) (g : symop) : st :=
    let pos := wrap D (raw_img D g off x) in
    let tpl := tup_t D pos in
    match lookup tpl (s_dict s) with
    | Some id => St (s_pos s) (s_dict s) (heap_app id g (s_heap s))
    | None =>
        let id0 := List.length (s_heap s) in
        let heap1 := s_heap s ++ [[]] in
        let dict1 := s_dict s ++ [(tpl, id0)] in
        let merged :=
          match s_pos s with
          | [] => None
          | _ :: _ =>
              let nearpos := nth (nearest_index D (s_pos s) pos) (s_pos s) pos in
              if equal_pos_t D nearpos pos then Some (lookup_def (tup_t D nearpos) dict1) else None
          end in
        match merged with
        | Some id => St (s_pos s) (s_dict s ++ [(tpl, id)]) (heap_app id g heap1)
        | None => St (s_pos s ++ [pos]) dict1 (heap_app id0 g heap1)
        end
    end.

  Definition expand_eps_t (D : Z) (G : list symop) (off x : v3) : list v3 * list (list symop) * nat :=
    let s := fold_left (eps_step_t D off x) G (St [] [] []) in
    (s_pos s, map (fun p => nth (lookup_def (tup_t D p) (s_dict s)) (s_heap s) []) (s_pos s), List.length (s_pos s)).

  (* farther apart than BOTH tolerances: the caller's eps (neighbour test) and the bin width (bucket test) *)
  Definition far_t (D : Z) (p q : v3) : Prop :=
    tq_num T * D < tq_den T * boxdist D p q /\ tb_num T * D < tb_den T * boxdist D p q.
  Definition separated_t (D : Z) (G : list symop) (off x : v3) : Prop :=
    forall g h, In g G -> In h G -> img D g off x <> img D h off x -> far_t D (img D g off x) (img D h off x).

  (* GeneratorSite.__init__ with eps: zeroing uses the caller's eps *)
  Definition zero_small1_t (Dn c : Z) : Z := if Z.abs c * tq_den T <? tq_num T * Dn then 0 else c.
  Definition zero_small_t (Dn : Z) (v : v3) : v3 :=
    V3 (zero_small1_t Dn (vx v)) (zero_small1_t Dn (vy v)) (zero_small1_t Dn (vz v)).

  Definition generator_site_from_t (D : Z) (G : list symop) (off x : v3) (first : list v3 * list (list symop) * nat) : option gsite :=
    let '(sites, ops, mult) := first in
    match find_invariants ops with
    | None => None
    | Some inv =>
        if (1 <? List.length inv)%nat then
          let dsum := snap_sum D inv off x in
          if v3_eqb dsum v0 then Some (GSite D x off sites ops mult inv)
          else
            let n := Z.of_nat (List.length inv) in
            let Dn := D * n in
            let offn := vscale n off in
            let xn := zero_small_t Dn (vadd (vscale n x) dsum) in
            let '(sites2, ops2, mult2) := expand_eps_t Dn G offn xn in
            match find_invariants ops2 with
            | None => None
            | Some inv2 => Some (GSite Dn xn offn sites2 ops2 mult2 inv2)
            end
        else Some (GSite D x off sites ops mult inv)
    end.

  Definition generator_site_t (D : Z) (G : list symop) (off x : v3) : option gsite :=
    generator_site_from_t D G off x (expand_eps_t D G off x).

  Definition expand_asym_t (D : Z) (G : list symop) (off : v3) (corepos : list v3) : option asym :=
    match all_some (map (generator_site_t D G off) corepos) with
    | None => None
    | Some gens => Some (Asym (map gs_mult gens) (map (fun g => (gs_D g, gs_eqxyz g)) gens))
    end.
End WithTol.

(* well-formed tolerances: non-negative numerators, positive denominators; exact mode implies... nothing more *)
Definition tol_wf (T : tol) : Prop := 0 <= tq_num T /\ 0 < tq_den T /\ 0 <= tb_num T /\ 0 < tb_den T.
Definition tol_wfb (T : tol) : bool := (0 <=? tq_num T) && (0 <? tq_den T) && (0 <=? tb_num T) && (0 <? tb_den T).

(* ---- decidable forms of the hypotheses of the tolerance-generic theorems ---- *)
Definition far_tb (T : tol) (D : Z) (p q : v3) : bool :=
  (tq_num T * D <? tq_den T * boxdist D p q) && (tb_num T * D <? tb_den T * boxdist D p q).

Definition separated_tb (T : tol) (D : Z) (G : list symop) (off x : v3) : bool :=
  let ims := map (fun g => img D g off x) G in
  forallb (fun p => forallb (fun q => v3_eqb p q || far_tb T D p q) ims) ims.

Definition near_special_tb (T : tol) (D : Z) (G : list symop) (off x x0 : v3) : bool :=
  let ims := map (fun g => (img D g off x0, img D g off x)) G in
  forallb (fun a => forallb (fun b =>
     if v3_eqb (fst a) (fst b) then boxdist D (snd a) (snd b) * tq_den T <=? tq_num T * D
     else far_tb T D (snd a) (snd b)) ims) ims.

Definition snap_hyps_tb (T : tol) (D : Z) (G : list symop) (off x x0 : v3) : bool :=
  let S := stab D G off x0 in
  let n := Z.of_nat (List.length S) in
  let xs := snapped_site D G off x x0 in
  if near_special_tb T D G off x x0 then
    forallb (fun h => small_vb D (vsub (mvec (fst h) (vsub x x0)) (vsub x x0))) S &&
    (1 <? List.length S)%nat &&
    negb (v3_eqb xs (vscale n x)) &&
    v3_eqb (zero_small_t T (D * n) xs) xs &&
    separated_tb T (D * n) G (vscale n off) xs
  else false.
