(* C02 - the displacement tensors at the equivalent positions (second loop of GeneratorSite._findeqUij and
   ExpandAsymmetricUnit.expandedUijs):

     for ops in self.symops:
         R = ops[0].R                      # take first rotation matrix
         self.eqUij.append(numpy.dot(R, numpy.dot(self.Uij, R.transpose())))

   The tensor action R U R^T is the one of Model/C06_UCert.v (`conj`, symmetric tensors over Q).  `U` is the
   already adjusted tensor self.Uij (its construction from Uspace is the subject of C06).
   Model file: definitions only. *)
From Coq Require Import ZArith QArith List.
From DS Require Import Base.ZMat Base.SGDefs Model.GroupCheck Model.C02_Orbit Model.C02_Eps Model.C02_Gen Model.C05_QBase Model.C06_UCert.
Import ListNotations.

Definition eq_uijs (symops : list (list symop)) (U : s6) : list s6 :=
  map (fun ops => C06_UCert.conj (fst (hd ident ops)) U) symops.

(* ExpandAsymmetricUnit: expandedUijs[i] = eqUij of the i-th generator (Us = the adjusted tensors) *)
Definition expanded_uijs (gens : list gsite) (Us : list s6) : list (list s6) :=
  map (fun gu => eq_uijs (gs_symops (fst gu)) (snd gu)) (combine gens Us).

(* printer: numerators and denominators of the six components of every tensor *)
Definition ushow (l : list s6) : list Z :=
  flat_map (fun U => flat_map (fun q => [Qnum (Qred q); Zpos (Qden (Qred q))]) [u11 U; u22 U; u33 U; u12 U; u13 U; u23 U]) l.
