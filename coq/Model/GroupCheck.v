(* Decision procedures on a tabulated operation list, and what they mean (Prop level). *)
From Coq Require Import ZArith List Bool Lia String Ascii.
From DS Require Import Base.ZMat Base.SGDefs.
Import ListNotations.
Open Scope Z_scope.

Definition D12 : Z := 12.

(* (R1,t1) o (R2,t2) : x -> R1 (R2 x + t2) + t1, translation reduced modulo the lattice *)
Definition compose (a b : symop) : symop :=
  (mmul (fst a) (fst b), vmod D12 (vadd (mvec (fst a) (snd b)) (snd a))).
Definition ident : symop := (I3, v0).
Definition op_eqb (a b : symop) : bool := m3_eqb (fst a) (fst b) && v3_eqb (snd a) (snd b).
Definition mem (o : symop) (l : list symop) : bool := existsb (op_eqb o) l.

Lemma op_eqb_eq a b : op_eqb a b = true <-> a = b.
Proof.
  destruct a as [ra ta], b as [rb tb]; unfold op_eqb; cbn [fst snd].
  rewrite andb_true_iff, m3_eqb_eq, v3_eqb_eq. split; [intros [-> ->]; reflexivity | intros H; inversion H; auto].
Qed.

Lemma mem_In o l : mem o l = true <-> In o l.
Proof.
  unfold mem. rewrite existsb_exists. split.
  - intros [x [Hx He]]. apply op_eqb_eq in He. subst. exact Hx.
  - intros H. exists o. split; [exact H | apply op_eqb_eq; reflexivity].
Qed.

Definition in_range (lo hi x : Z) : bool := (lo <=? x) && (x <=? hi).
Definition entries_ok (o : symop) : bool :=
  forallb (in_range (-1) 1) (m3_entries (fst o)) &&
  ((det (fst o) =? 1) || (det (fst o) =? -1)) &&
  forallb (in_range 0 11) (v3_entries (snd o)).

Fixpoint nodupb (l : list symop) : bool :=
  match l with [] => true | x :: r => negb (mem x r) && nodupb r end.

Definition closedb (G : list symop) : bool :=
  forallb (fun a => forallb (fun b => mem (compose a b) G) G) G.
Definition has_invb (G : list symop) : bool :=
  forallb (fun a => existsb (fun b => op_eqb (compose a b) ident && op_eqb (compose b a) ident) G) G.
Definition id_firstb (G : list symop) : bool :=
  match G with o :: _ => op_eqb o ident | [] => false end.

Definition is_groupb (G : list symop) : bool :=
  id_firstb G && forallb entries_ok G && nodupb G && closedb G && has_invb G.

(* --- meaning ------------------------------------------------------------ *)
Record IsGroup (G : list symop) : Prop := {
  g_id_first : hd_error G = Some ident;
  g_entries : forall o, In o G -> entries_ok o = true;
  g_nodup : NoDup G;
  g_closed : forall a b, In a G -> In b G -> In (compose a b) G;
  g_inv : forall a, In a G -> exists b, In b G /\ compose a b = ident /\ compose b a = ident
}.

Lemma nodupb_NoDup l : nodupb l = true -> NoDup l.
Proof.
  induction l as [|x r IH]; cbn [nodupb]; intros H; [constructor|].
  apply andb_true_iff in H as [H1 H2]. constructor; [|auto].
  intros Hin. apply mem_In in Hin. rewrite Hin in H1. discriminate.
Qed.

Lemma is_groupb_spec G : is_groupb G = true -> IsGroup G.
Proof.
  unfold is_groupb. rewrite !andb_true_iff. intros [[[[H1 H2] H3] H4] H5].
  constructor.
  - destruct G as [|o r]; cbn in H1; [discriminate|]. apply op_eqb_eq in H1. subst. reflexivity.
  - intros o Ho. rewrite forallb_forall in H2. auto.
  - apply nodupb_NoDup; assumption.
  - intros a b Ha Hb. unfold closedb in H4. rewrite forallb_forall in H4.
    specialize (H4 a Ha). rewrite forallb_forall in H4. apply mem_In. auto.
  - intros a Ha. unfold has_invb in H5. rewrite forallb_forall in H5.
    specialize (H5 a Ha). apply existsb_exists in H5 as [b [Hb Hc]].
    apply andb_true_iff in Hc as [Hc1 Hc2]. apply op_eqb_eq in Hc1, Hc2. exists b; auto.
Qed.

(* --- metadata ----------------------------------------------------------- *)
Definition is_pure_translation (o : symop) : bool := m3_eqb (fst o) I3.
Definition centring (G : list symop) : list v3 := map snd (filter is_pure_translation G).

Definition counts_ok (s : setting) : bool :=
  (sg_nse s =? Z.of_nat (List.length (sg_ops s))) &&
  (sg_npse s * Z.of_nat (List.length (centring (sg_ops s))) =? sg_nse s).

(* distinct rotation parts *)
Fixpoint dedup_m (l : list m3) : list m3 :=
  match l with [] => [] | x :: r => if existsb (m3_eqb x) r then dedup_m r else x :: dedup_m r end.
Definition rot_parts (G : list symop) : list m3 := dedup_m (map fst G).

(* order of the proper rotation +-R from (trace, det): 1,2,3,4,6 ; 0 = not crystallographic *)
Definition rot_order (r : m3) : Z :=
  let d := det r in let t := d * trace r in
  if t =? 3 then 1 else if t =? -1 then 2 else if t =? 0 then 3 else if t =? 1 then 4 else if t =? 2 then 6 else 0.
Definition count_order (n : Z) (rs : list m3) : nat := List.length (filter (fun r => rot_order r =? n) rs).

Definition system_of (G : list symop) : string :=
  let rs := rot_parts G in
  if forallb (fun r => negb (rot_order r =? 0)) rs then
    if (8 <=? count_order 3 rs)%nat then "CUBIC"
    else if (1 <=? count_order 6 rs)%nat then "HEXAGONAL"
    else if (1 <=? count_order 3 rs)%nat then "TRIGONAL"
    else if (1 <=? count_order 4 rs)%nat then "TETRAGONAL"
    else if (3 <=? count_order 2 rs)%nat then "ORTHORHOMBIC"
    else if (1 <=? count_order 2 rs)%nat then "MONOCLINIC"
    else "TRICLINIC"
  else "INVALID".

Definition system_ok (s : setting) : bool := String.eqb (system_of (sg_ops s)) (sg_system s).

(* centring letter from the set of pure translations (x12) *)
Definition vset_eqb (a b : list v3) : bool :=
  forallb (fun x => existsb (v3_eqb x) b) a && forallb (fun x => existsb (v3_eqb x) a) b
  && (List.length a =? List.length b)%nat.
Definition cA := V3 0 6 6. Definition cB := V3 6 0 6. Definition cC := V3 6 6 0. Definition cI := V3 6 6 6.
Definition letter_of (sys : string) (c : list v3) : list ascii :=
  if vset_eqb c [v0] then (if String.eqb sys "TRIGONAL" then ["P"; "R"] else ["P"])%char
  else if vset_eqb c [v0; cA] then ["A"%char]
  else if vset_eqb c [v0; cB] then ["B"%char]
  else if vset_eqb c [v0; cC] then ["C"%char]
  else if vset_eqb c [v0; cI] then ["I"%char]
  else if vset_eqb c [v0; cA; cB; cC] then ["F"%char]
  else if vset_eqb c [v0; V3 8 4 4; V3 4 8 8] then ["H"; "R"]%char
  else [].
Definition first_letter (s : string) : option ascii := match s with String c _ => Some c | EmptyString => None end.
Definition letter_in (s : string) (ls : list ascii) : bool :=
  match first_letter s with Some c => existsb (Ascii.eqb c) ls | None => false end.
Definition letter_ok (s : setting) : bool :=
  let ls := letter_of (sg_system s) (centring (sg_ops s)) in
  letter_in (sg_short s) ls && letter_in (sg_pdb s) ls.

(* International Tables number = number mod 1000 must lie in the range of the declared system *)
Definition it_number (s : setting) : Z := sg_number s mod 1000.
Definition range_of (sys : string) : Z * Z :=
  if String.eqb sys "TRICLINIC" then (1, 2) else if String.eqb sys "MONOCLINIC" then (3, 15)
  else if String.eqb sys "ORTHORHOMBIC" then (16, 74) else if String.eqb sys "TETRAGONAL" then (75, 142)
  else if String.eqb sys "TRIGONAL" then (143, 167) else if String.eqb sys "HEXAGONAL" then (168, 194)
  else if String.eqb sys "CUBIC" then (195, 230) else (1, 0).
Definition number_ok (s : setting) : bool :=
  let '(lo, hi) := range_of (sg_system s) in in_range lo hi (it_number s) && (0 <? sg_number s).

(* point-group fingerprint: how many distinct rotation parts of each (order, det) type *)
Definition pg_fingerprint (G : list symop) : list nat :=
  let rs := rot_parts G in
  map (fun od => List.length (filter (fun r => (rot_order r =? fst od) && (det r =? snd od)) rs))
      [(1,1);(2,1);(3,1);(4,1);(6,1);(1,-1);(2,-1);(3,-1);(4,-1);(6,-1)].
Definition natlist_eqb (a b : list nat) : bool := if list_eq_dec Nat.eq_dec a b then true else false.

(* settings that share the International Tables number have the same point-group fingerprint *)
Definition same_number_same_pg (all : list setting) : bool :=
  let fps := map (fun s => (it_number s, pg_fingerprint (sg_ops s))) all in
  forallb (fun a => forallb (fun b => negb (fst a =? fst b) || natlist_eqb (snd a) (snd b)) fps) fps.
Definition numbers_unique (all : list setting) : bool :=
  let ns := map sg_number all in
  (fix nd (l : list Z) := match l with [] => true | x :: r => negb (existsb (Z.eqb x) r) && nd r end) ns.

Definition setting_group_ok (s : setting) : bool := is_groupb (sg_ops s).
Definition setting_meta_ok (s : setting) : bool := system_ok s && letter_ok s && number_ok s.
