(* C17 - the numeric reader of CIF symmetry operators: regular expressions as data (regenerated from the
   pattern literals in p_cif.py), a derivative matcher, and the reference recogniser for "a sum of signed
   numbers / fractions".  Characters are code points (N); the model is over ASCII. *)
From Coq Require Import NArith List Bool.
Import ListNotations.
Open Scope N_scope.

Inductive rx :=
| RNone                      (* matches nothing *)
| REps                       (* matches the empty string *)
| RSet (cs : list N)         (* one character out of an explicit set *)
| RAny                       (* `.` : any character except newline *)
| RSeq (a b : rx)
| RAlt (a b : rx)
| RStar (a : rx).

Definition in_set (c : N) (cs : list N) : bool := existsb (N.eqb c) cs.

Fixpoint nullable (r : rx) : bool :=
  match r with
  | RNone | RSet _ | RAny => false
  | REps | RStar _ => true
  | RSeq a b => nullable a && nullable b
  | RAlt a b => nullable a || nullable b
  end.

Definition mkseq (a b : rx) : rx :=
  match a, b with
  | RNone, _ | _, RNone => RNone
  | REps, _ => b
  | _, REps => a
  | _, _ => RSeq a b
  end.
Definition mkalt (a b : rx) : rx :=
  match a, b with
  | RNone, _ => b
  | _, RNone => a
  | _, _ => RAlt a b
  end.

Fixpoint deriv (c : N) (r : rx) : rx :=
  match r with
  | RNone | REps => RNone
  | RSet cs => if in_set c cs then REps else RNone
  | RAny => if c =? 10 then RNone else REps
  | RSeq a b => mkalt (mkseq (deriv c a) b) (if nullable a then deriv c b else RNone)
  | RAlt a b => mkalt (deriv c a) (deriv c b)
  | RStar a => mkseq (deriv c a) (RStar a)
  end.

(* whole-string match (the pattern is used with .match() and ends in \Z) *)
Fixpoint rmatch (r : rx) (s : list N) : bool :=
  match s with [] => nullable r | c :: s' => rmatch (deriv c r) s' end.

(* characters a number may consist of: 0-9 . / + - e E *)
Definition num_char (c : N) : bool :=
  ((48 <=? c) && (c <=? 57)) || (c =? 46) || (c =? 47) || (c =? 43) || (c =? 45) || (c =? 101) || (c =? 69).

(* every character class of the pattern lies inside the numeric alphabet; `.` does not *)
Fixpoint numeric_only (r : rx) : bool :=
  match r with
  | RNone | REps => true
  | RSet cs => forallb num_char cs
  | RAny => false
  | RSeq a b | RAlt a b => numeric_only a && numeric_only b
  | RStar a => numeric_only a
  end.

Fixpoint dead (r : rx) : bool :=
  match r with
  | RNone => true
  | RSeq a b => dead a || dead b
  | RAlt a b => dead a && dead b
  | _ => false
  end.

(* ---------- reference recogniser: (S? NUM (S NUM)* )?   NUM = MANT EXP? DEN?
   MANT = d+ ('.' d* )? | '.' d+     EXP = [eE] S? d+     DEN = '/' d+ ('.' d* )?     S = + | - ---------- *)
Inductive nstate := Q0 | QSign | QInt | QFrac | QDot | QE | QESign | QExp | QSlash | QDen | QDenFrac | QDead.

Definition is_digit (c : N) : bool := (48 <=? c) && (c <=? 57).
Definition is_sign (c : N) : bool := (c =? 43) || (c =? 45).
Definition is_e (c : N) : bool := (c =? 101) || (c =? 69).

Definition nstep (q : nstate) (c : N) : nstate :=
  match q with
  | Q0 | QSign => if is_digit c then QInt else if c =? 46 then QDot
                  else match q with Q0 => if is_sign c then QSign else QDead | _ => QDead end
  | QInt => if is_digit c then QInt else if c =? 46 then QFrac else if is_e c then QE else if c =? 47 then QSlash
            else if is_sign c then QSign else QDead
  | QFrac => if is_digit c then QFrac else if is_e c then QE else if c =? 47 then QSlash else if is_sign c then QSign else QDead
  | QDot => if is_digit c then QFrac else QDead
  | QE => if is_digit c then QExp else if is_sign c then QESign else QDead
  | QESign => if is_digit c then QExp else QDead
  | QExp => if is_digit c then QExp else if c =? 47 then QSlash else if is_sign c then QSign else QDead
  | QSlash => if is_digit c then QDen else QDead
  | QDen => if is_digit c then QDen else if c =? 46 then QDenFrac else if is_sign c then QSign else QDead
  | QDenFrac => if is_digit c then QDenFrac else if is_sign c then QSign else QDead
  | QDead => QDead
  end.
Definition naccept (q : nstate) : bool :=
  match q with Q0 | QInt | QFrac | QExp | QDen | QDenFrac => true | _ => false end.
Definition nrun (q : nstate) (s : list N) : nstate := fold_left nstep s q.
Definition is_number_sum (s : list N) : bool := naccept (nrun Q0 s).

(* representatives: two digits, . / + - e E, and three characters that are not part of any number: * newline x *)
Definition probe_alphabet : list N := [48; 55; 46; 47; 43; 45; 101; 69; 42; 10; 120].

(* the pattern and the recogniser agree on every string over the probe alphabet up to length n
   (shared-prefix exploration: one derivative per node) *)
Fixpoint agree (n : nat) (r : rx) (q : nstate) : bool :=
  Bool.eqb (nullable r) (naccept q) &&
  match n with
  | O => true
  | S n' => forallb (fun c => agree n' (deriv c r) (nstep q c)) probe_alphabet
  end.
