(* C11 (and C17) - the x,y,z text form of a symmetry operation: hand-written executable model of
   p_cif.getSymOp / _parseSymOpTranslation (ASCII), tied to the code by translate/symtext.py (pins the
   three regular expressions, symvec and the statement skeleton) and by the model-vs-implementation
   correspondence of vlib/symtext.py (exhaustive short strings + grammar-generated + single-character
   faults).  Model only: the proofs are in Proofs/C11_SymText.v.

   Python being modelled (regular expressions are spelled in words here):
     snoblanks = s with every blank removed; eqlist = snoblanks split at commas
     for i in 0,1,2:  eqparts = re.split of eqlist[i] at the tokens: optional sign, one of xyz (any case)
         (IndexError when the field is absent)
         R[i] += symvec[token.lower()] for the tokens;  t[i] += _parseSymOpTranslation(part) for the parts between
     t -= floor(t)
   _parseSymOpTranslation: the validator accepts the empty string or an optionally signed NUM followed by
     signed NUMs up to the end of the string; then every NUM is extracted, a zero denominator is a
     ValueError, the value is the sum of mantissa*10^exp/denominator.
     NUM = MANT [EXP] [/DEN], MANT = digits [. [digits]] | . digits, EXP = e|E [sign] digits,
     DEN = digits [. [digits]]    *)
From Coq Require Import List Bool Ascii NArith ZArith QArith Qround Lia.
From Coq Require String.
From DS Require Import Base.C04_Text Base.C04_Decimal.
Import ListNotations.
Local Open Scope Q_scope.

Inductive res (A : Type) := Ok (a : A) | ErrValue | ErrIndex.
Arguments Ok {A} a. Arguments ErrValue {A}. Arguments ErrIndex {A}.

(* ---- characters ---- *)
Definition is_sign (c : ascii) : bool := Ascii.eqb c "+"%char || Ascii.eqb c "-"%char.
Definition is_minus (c : ascii) : bool := Ascii.eqb c "-"%char.
Definition is_e (c : ascii) : bool := Ascii.eqb c "e"%char || Ascii.eqb c "E"%char.
Definition axis_of (c : ascii) : option nat :=
  if Ascii.eqb c "x"%char || Ascii.eqb c "X"%char then Some 0%nat
  else if Ascii.eqb c "y"%char || Ascii.eqb c "Y"%char then Some 1%nat
  else if Ascii.eqb c "z"%char || Ascii.eqb c "Z"%char then Some 2%nat else None.

Fixpoint span_digits (s : str) : list N * str :=
  match s with
  | c :: r => match dval c with Some k => let '(l, r') := span_digits r in (k :: l, r') | None => ([], s) end
  | [] => ([], [])
  end.
Definition nil_b {A} (l : list A) : bool := match l with [] => true | _ => false end.

(* ---- one unsigned number NUM, consuming the whole chunk ---- *)
(* digits `ip`.`fp` as an exact rational *)
Definition posN (n : N) : positive := match n with Npos p => p | N0 => 1%positive end.
Definition dec_val (ip fp : list N) : Q := Z.of_N (bval (ip ++ fp)) # posN (pow10 (length fp)).
Definition pow10Q (e : Z) : Q := Qpower (10 # 1) e.

Definition parse_mant (s : str) : option (Q * str) :=
  let '(d1, r1) := span_digits s in
  match r1 with
  | c :: r2 => if Ascii.eqb c "."%char
               then let '(d2, r3) := span_digits r2 in if nil_b d1 && nil_b d2 then None else Some (dec_val d1 d2, r3)
               else if nil_b d1 then None else Some (dec_val d1 [], r1)
  | [] => if nil_b d1 then None else Some (dec_val d1 [], [])
  end.
Definition parse_exp (s : str) : option (Z * str) :=
  match s with
  | c :: r => if is_e c then
                let '(neg, r') := match r with c2 :: r2 => if is_sign c2 then (is_minus c2, r2) else (false, r) | [] => (false, r) end in
                let '(d, r'') := span_digits r' in
                if nil_b d then None else Some ((if neg then - Z.of_N (bval d) else Z.of_N (bval d))%Z, r'')
              else Some (0%Z, s)
  | [] => Some (0%Z, [])
  end.
(* Some None: no denominator; Some (Some q): denominator q; None: malformed *)
Definition parse_den (s : str) : option (option Q) :=
  match s with
  | [] => Some None
  | c :: r => if Ascii.eqb c "/"%char then
                let '(d1, r1) := span_digits r in
                if nil_b d1 then None else
                match r1 with
                | [] => Some (Some (dec_val d1 []))
                | c2 :: r2 => if Ascii.eqb c2 "."%char then let '(d2, r3) := span_digits r2 in if nil_b r3 then Some (Some (dec_val d1 d2)) else None else None
                end
              else None
  end.
Definition parse_num (s : str) : option Q :=
  match parse_mant s with None => None | Some (m, r1) =>
  match parse_exp r1 with None => None | Some (e, r2) =>
  match parse_den r2 with None => None
  | Some None => Some (m * pow10Q e)
  | Some (Some d) => if Qeq_bool d 0 then None else Some (m * pow10Q e / d)
  end end end.

(* ---- a sum of signed numbers ---- *)
Definition cons_head {A} (c : A) (l : list (list A)) : list (list A) := match l with h :: t => (c :: h) :: t | [] => [[c]] end.
(* split at the separating signs: a sign directly after e/E belongs to the number; every chunk but the
   first begins with its sign *)
Fixpoint chunks (s : str) : list str :=
  match s with
  | [] => [[]]
  | c :: r =>
      if is_e c then
        match r with
        | c2 :: r2 => if is_sign c2 then cons_head c (cons_head c2 (chunks r2)) else cons_head c (chunks r)
        | [] => [[c]]
        end
      else if is_sign c then [] :: cons_head c (chunks r)
      else cons_head c (chunks r)
  end.
Definition parse_signed (s : str) : option Q :=
  match s with
  | c :: r => if is_sign c then match parse_num r with Some q => Some (if is_minus c then - q else q) | None => None end else None
  | [] => None
  end.
Fixpoint sum_opt (l : list (option Q)) : option Q :=
  match l with [] => Some 0 | x :: r => match x, sum_opt r with Some a, Some b => Some (a + b) | _, _ => None end end.
Definition parse_tpart (s : str) : option Q :=
  match chunks s with
  | [] => None
  | h :: t => match (if nil_b h then Some 0 else parse_num h) with
              | None => None
              | Some a => match sum_opt (map parse_signed t) with Some b => Some (a + b) | None => None end
              end
  end.

(* ---- one row: re.split("(?i)([+-]?[xyz])", field) ---- *)
Fixpoint rsplit (s : str) : list str * list (bool * nat) :=
  match s with
  | [] => ([[]], [])
  | c :: r =>
      match axis_of c with
      | Some a => let '(ts, rs) := rsplit r in ([] :: ts, (false, a) :: rs)
      | None =>
          if is_sign c then
            match r with
            | c2 :: r2 => match axis_of c2 with
                          | Some a => let '(ts, rs) := rsplit r2 in ([] :: ts, (is_minus c, a) :: rs)
                          | None => let '(ts, rs) := rsplit r in (cons_head c ts, rs)
                          end
            | [] => ([[c]], [])
            end
          else let '(ts, rs) := rsplit r in (cons_head c ts, rs)
      end
  end.
Definition unit_row (a : nat) : list Z := map (fun j => if Nat.eqb j a then 1%Z else 0%Z) [0; 1; 2]%nat.
Definition add_row (u v : list Z) : list Z := map (fun p => (fst p + snd p)%Z) (combine u v).
Definition row_of (rs : list (bool * nat)) : list Z :=
  fold_left (fun (acc : list Z) (t : bool * nat) => add_row acc (map (fun x : Z => if fst t then (- x)%Z else x) (unit_row (snd t)))) rs [0; 0; 0]%Z.
Definition parse_row (s : str) : option (list Z * Q) :=
  let '(ts, rs) := rsplit s in
  match sum_opt (map parse_tpart ts) with Some t => Some (row_of rs, t) | None => None end.

(* ---- the whole operation ---- *)
Definition remove_sp (s : str) : str := filter (fun c => negb (Ascii.eqb c " "%char)) s.
Fixpoint split_comma (s : str) : list str :=
  match s with [] => [[]] | c :: r => if Ascii.eqb c ","%char then [] :: split_comma r else cons_head c (split_comma r) end.
Definition mod1 (q : Q) : Q := q - inject_Z (Qfloor q).
(* rows are processed in order: the first failing field decides the exception *)
Fixpoint rows (k : nat) (fs : list str) : res (list (list Z * Q)) :=
  match k with
  | O => Ok []
  | S k' => match fs with
            | [] => ErrIndex
            | f :: fr => match parse_row f with
                         | None => ErrValue
                         | Some (r, t) => match rows k' fr with Ok l => Ok ((r, mod1 t) :: l) | ErrValue => ErrValue | ErrIndex => ErrIndex end
                         end
            end
  end.
Definition get_symop (s : str) : res (list (list Z * Q)) := rows 3 (split_comma (remove_sp s)).

(* ---- flat encodings for the correspondence: [0; 9 R entries row-major; num1; den1; num2; den2; num3; den3], [1], [2] ---- *)
Definition encode (r : res (list (list Z * Q))) : list Z :=
  match r with
  | Ok l => 0%Z :: flat_map fst l ++ flat_map (fun p => let q := Qred (snd p) in [Qnum q; Zpos (Qden q)]) l
  | ErrValue => [1%Z] | ErrIndex => [2%Z]
  end.
Definition encode_t (r : option Q) : list Z := match r with Some q => let q := Qred q in [0%Z; Qnum q; Zpos (Qden q)] | None => [1%Z] end.
Definition Str (s : String.string) : str := String.list_ascii_of_string s.
