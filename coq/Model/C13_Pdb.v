(* C13 - model of P_pdb.parseLines (p_pdb.py:115-255) in the exception monad.

   The whole method is one try (caught tuple pdb_parseLines_try1_caught); four inner try blocks swallow
   ValueError for optional numeric columns.  Fixed-column slices and the padding to 80 columns are total
   string functions and are computed here (substring); tokenisation and numbers are oracles.  The set of
   record names that are accepted and ignored is pdb_valid_records from the generated specification. *)
From Coq Require Import List Bool Arith ZArith.
From DS Require Import Base.C13_Exn Gen.C13_ExcSpec Model.C13_Common.
From Coq Require Import Ascii String.
Import ListNotations.

Section PDB.
  Variable V : Type.
  Variable split : string -> list string.
  Variable isblank : string -> bool.
  Variable strip : string -> string.                  (* str.strip() *)
  Variable float_of : string -> res V.

  (* what the lattice of the structure was last set from *)
  Inductive lat_state :=
  | LDefault
  | LPar (pars : list V)
  | LBase (rows : list (option (list V))).

  Variable set_lat_par : list V -> res unit.           (* stru.lattice.setLatPar(a, b, c, alpha, beta, gamma) *)
  (* SCALE3: base = transpose(inv(sc)); setLatBase(base); returns (SCALE consistent with CRYST1, any(scaleU != 0)) *)
  Variable scale3_finish : lat_state -> list (option (list V)) -> list (option V) -> res (bool * bool).
  Variable set_xyz_cartn : lat_state -> list V -> res unit.    (* last_atom.xyz_cartn = rc *)
  Variable dot_scale : lat_state -> list V -> res unit.        (* numpy.dot(scale, sigrc) *)

  Record bst := {
    b_natoms : nat; b_last : bool; b_sc : option (list (option (list V))); b_scaleU : list (option V); b_lat : lat_state }.

  Definition b0 : bst := {| b_natoms := 0; b_last := false; b_sc := None; b_scaleU := [None; None; None]; b_lat := LDefault |}.

  Definition kw (w : string) (k : string) : bool := String.eqb w k.
  Definition col (a b : nat) (line : string) : string := substring a (b - a) line.

  Fixpoint spaces (n : nat) : string := match n with O => EmptyString | S n' => String " "%char (spaces n') end.
  Definition pad80 (line : string) : string :=
    if Nat.ltb (String.length line) 80 then (line ++ spaces (80 - String.length line))%string else line.

  Fixpoint set_nth {A} (n : nat) (a : A) (l : list A) : list A :=
    match l, n with
    | [], _ => []
    | _ :: l', O => a :: l'
    | x :: l', S n' => x :: set_nth n' a l'
    end.

  (* numpy: sc[i, :] = values   broadcasts a sequence of length 1 or 3 into the row of length 3 *)
  Definition row_assign (vals : list V) : res unit :=
    if Nat.eqb (List.length vals) 1 || Nat.eqb (List.length vals) 3 then Ok tt else Raise ValueError.

  Definition scale_row (st : bst) (i : nat) (sc : list (option (list V))) (line : string) : res bst :=
    vals <- mapM float_of (split (col 10 40 line)) ;;
    _ <- row_assign vals ;;
    u <- float_of (col 45 55 line) ;;
    Ok {| b_natoms := b_natoms st; b_last := b_last st; b_sc := Some (set_nth i (Some vals) sc);
          b_scaleU := set_nth i (Some u) (b_scaleU st); b_lat := b_lat st |}.

  (* try: x = float(field) except ValueError: x = default *)
  Definition optional_float (field : string) (caught : list kind) (hk : handler_kind) : res unit :=
    try_catch (bind (float_of field) (fun _ => Ok tt)) caught (swallow_handler hk tt).

  Definition six_floats (line : string) : res (list V) := mapM float_of (split (col 28 70 line)).
  Definition six_indices (vals : list V) : res unit :=
    _ <- idx vals 0 ;; _ <- idx vals 1 ;; _ <- idx vals 2 ;; _ <- idx vals 3 ;; _ <- idx vals 4 ;; _ <- idx vals 5 ;;
    Ok tt.

  (* attribute access on last_atom, which is None until the first ATOM record *)
  Definition none_use (b : bool) : res unit := if b then Ok tt else Raise AttributeError.

  Definition pdb_line (st : bst) (line0 : string) : res bst :=
    if isblank line0 then Ok st
    else
      let line := pad80 line0 in
      let record := strip (col 0 6 line) in             (* record = line[:6].strip() *)
      if kw record "TITLE" then Ok st
      else if kw record "CRYST1" then
        a <- float_of (col 7 15 line) ;; b <- float_of (col 15 24 line) ;; c <- float_of (col 24 33 line) ;;
        al <- float_of (col 33 40 line) ;; be <- float_of (col 40 47 line) ;; ga <- float_of (col 47 54 line) ;;
        _ <- set_lat_par [a; b; c; al; be; ga] ;;
        Ok {| b_natoms := b_natoms st; b_last := b_last st; b_sc := b_sc st; b_scaleU := b_scaleU st;
              b_lat := LPar [a; b; c; al; be; ga] |}
      else if kw record "SCALE1" then scale_row st 0 [None; None; None] line
      else if (kw record "SCALE2" || kw record "SCALE3") && (match b_sc st with None => true | Some _ => false end)
        then Raise FormatError
      else if kw record "SCALE2" then
        match b_sc st with None => Raise TypeError | Some sc => scale_row st 1 sc line end
      else if kw record "SCALE3" then
        match b_sc st with
        | None => Raise TypeError
        | Some sc =>
          st' <- scale_row st 2 sc line ;;
          match b_sc st' with
          | None => Raise TypeError
          | Some sc' =>
            r <- scale3_finish (b_lat st') sc' (b_scaleU st') ;;
            if negb (fst r) then Raise FormatError
            else if snd r then Raise NotImplemented
            else Ok {| b_natoms := b_natoms st'; b_last := b_last st'; b_sc := b_sc st'; b_scaleU := b_scaleU st';
                       b_lat := LBase sc' |}
          end
        end
      else if kw record "ATOM" || kw record "HETATM" then
        rc <- mapM float_of [col 30 38 line; col 38 46 line; col 46 54 line] ;;
        _ <- optional_float (col 54 60 line) pdb_parseLines_try2_caught pdb_parseLines_try2_handler ;;
        _ <- optional_float (col 60 66 line) pdb_parseLines_try3_caught pdb_parseLines_try3_handler ;;
        _ <- (if isblank (col 76 78 line)
              then (if isblank (col 12 14 line) then Raise IndexError else Ok tt)
              else Ok tt) ;;
        _ <- set_xyz_cartn (b_lat st) rc ;;
        Ok {| b_natoms := S (b_natoms st); b_last := true; b_sc := b_sc st; b_scaleU := b_scaleU st; b_lat := b_lat st |}
      else if (kw record "SIGATM" || kw record "ANISOU" || kw record "SIGUIJ") && negb (b_last st) then Raise FormatError
      else if kw record "SIGATM" then
        sigrc <- mapM float_of (split (col 30 54 line)) ;;
        _ <- dot_scale (b_lat st) sigrc ;;
        _ <- optional_float (col 54 60 line) pdb_parseLines_try4_caught pdb_parseLines_try4_handler ;;
        _ <- optional_float (col 60 66 line) pdb_parseLines_try5_caught pdb_parseLines_try5_handler ;;
        _ <- none_use (b_last st) ;;
        Ok st
      else if kw record "ANISOU" then
        _ <- none_use (b_last st) ;; vals <- six_floats line ;; _ <- six_indices vals ;; Ok st
      else if kw record "SIGUIJ" then
        vals <- six_floats line ;; _ <- none_use (b_last st) ;; _ <- six_indices vals ;; Ok st
      else if existsb (String.eqb record) pdb_valid_records then Ok st
      else Raise FormatError.

  Definition pdb_body (lines : list string) : res nat :=
    st <- foldM pdb_line lines b0 ;; Ok (b_natoms st).

  Definition parse_pdb_gen (caught : list kind) (hk : handler_kind) (lines : list string) : res nat :=
    try_catch (pdb_body lines) caught (reraise_handler hk).

  Definition parse_pdb (lines : list string) : res nat :=
    parse_pdb_gen pdb_parseLines_try1_caught pdb_parseLines_try1_handler lines.
End PDB.
