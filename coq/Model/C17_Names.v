(* C17 - names: node names of the generated graph, identifier check for registry module names. *)
From Coq Require Import NArith List Bool Ascii String.
From DS Require Import Model.C17_Effects.
Import ListNotations.
Open Scope string_scope.

Definition is_alpha_ (c : ascii) : bool :=
  let n := nat_of_ascii c in
  (Nat.leb 65 n && Nat.leb n 90) || (Nat.leb 97 n && Nat.leb n 122) || Nat.eqb n 95.
Definition is_digit (c : ascii) : bool := let n := nat_of_ascii c in Nat.leb 48 n && Nat.leb n 57.

Fixpoint all_ident_chars (s : string) : bool :=
  match s with EmptyString => true | String c r => (is_alpha_ c || is_digit c) && all_ident_chars r end.
(* a plain Python identifier: the exec'd "from diffpy.structure.parsers import <m> as pm" is then exactly one import *)
Definition ident_ok (s : string) : bool :=
  match s with EmptyString => false | String c _ => is_alpha_ c && all_ident_chars s end.

Fixpoint node_name (names : list (N * string)) (n : N) : string :=
  match names with [] => "?" | (a, s) :: r => if N.eqb a n then s else node_name r n end.

Definition allowed_reflective (names : list (N * string)) (allow : list (string * kind)) (s : sink) : bool :=
  existsb (fun a => String.eqb (fst a) (node_name names (s_node s)) && kind_eqb (snd a) (s_kind s)) allow.

(* every reflective use of a text-derived name that is reachable is one of the listed (function, kind) *)
Definition reflective_confined (g : graph) (entries : list N) (ss : list sink) (names : list (N * string))
           (allow : list (string * kind)) : bool :=
  let R := reach g entries in
  closed g R && covers R entries &&
  forallb (fun s => negb (reflective_text s) || allowed_reflective names allow s) (sinks_in R ss).

Definition expected_import_template : string := "from diffpy.structure.parsers import %s as pm".
