(* C05/C06 - entry point of the extracted checker: one case = one list of integers.
   The decoding of the integer list into a certificate is done here (inside the model), so that the
   OCaml driver only reads integers and prints integers.
   Rationals are sent as numerator, denominator (> 0).  Layouts:
     5 : si | x(3Q) tol(Q) | k | N(k x 3Q) | p0(k Q) | P(k x 3Q) | nI | inv(nI) | nC | C(nC x 9Q) |
         m | m x [ rep  pos(3Q)  A(k x 3Q)  c(3Q) ]
     6 : si | x(3Q) tol(Q) | k | B(k x 6Q) | Uin(6Q) | par(k Q) | Uij(6Q) | iso | P(k x 6Q) | nC | C(nC x 36Q) |
         m | m x [ rep  eqU(6Q)  cols(k x 6Q) ]
     7, 8 : si (ignored) | site eps(Q) | n | eqxyz(n x 3Q) | pos(3Q)   position_formula_query (7) / u_formula_query (8):
         answer [i] for Some i, [-9] for the empty dictionary
     9 : which (1 = [xyz] symbols, 3 = U symbols) | npairs | npairs x [ len key(len) len value(len) ] | len text(len)
         custom-symbol translation of one formula string (character codes); answer = character codes of the result
   Answer: list of the numbers of the clauses that failed ([] = accepted); [-1] undecodable, [-2] no such setting. *)
From Coq Require Import ZArith QArith List Bool.
From DS Require Import Base.ZMat Base.SGDefs Model.C05_QBase Model.C05_PosCert Model.C06_UCert Gen.SGTables.
From DS Require Import Model.C06_Query Gen.C06_QueryGuards Model.C06_QueryMethods Model.C05_SymTrans.
From Coq Require Import Ascii.
Import ListNotations.
Open Scope Z_scope.

Definition tk := list Z.
Definition rd (A : Type) := tk -> option (A * tk).

Definition rdZ : rd Z := fun l => match l with z :: r => Some (z, r) | [] => None end.
Definition rdN : rd nat := fun l => match l with z :: r => if 0 <=? z then Some (Z.to_nat z, r) else None | [] => None end.
Definition rdQ : rd Q := fun l =>
  match l with
  | n :: d :: r => if 0 <? d then Some (Qmake n (Z.to_pos d), r) else None
  | _ => None
  end.
Definition bind {A B} (m : rd A) (f : A -> rd B) : rd B :=
  fun l => match m l with Some (a, r) => f a r | None => None end.
Definition ret {A} (a : A) : rd A := fun l => Some (a, l).
Fixpoint rep {A} (m : rd A) (n : nat) : rd (list A) :=
  match n with
  | O => ret []
  | S n' => bind m (fun a => bind (rep m n') (fun r => ret (a :: r)))
  end.

Definition rdQ3 : rd q3 := bind rdQ (fun a => bind rdQ (fun b => bind rdQ (fun c => ret (Q3 a b c)))).
Definition rdS6 : rd s6 :=
  bind rdQ (fun a => bind rdQ (fun b => bind rdQ (fun c => bind rdQ (fun d => bind rdQ (fun e => bind rdQ (fun f =>
  ret (S6 a b c d e f))))))).
Definition rdC3 : rd (q3 * q3 * q3) := bind rdQ3 (fun a => bind rdQ3 (fun b => bind rdQ3 (fun c => ret (a, b, c)))).
Definition rdS66 : rd s66 :=
  bind rdS6 (fun a => bind rdS6 (fun b => bind rdS6 (fun c => bind rdS6 (fun d => bind rdS6 (fun e => bind rdS6 (fun f =>
  ret (S66 a b c d e f))))))).

Definition rdPform (k : nat) : rd pform :=
  bind rdN (fun r => bind rdQ3 (fun pos => bind (rep rdQ3 k) (fun A => bind rdQ3 (fun c =>
  ret {| pf_rep := r; pf_pos := pos; pf_A := A; pf_c := c |})))).

Definition rdPcert : rd pcert :=
  bind rdQ3 (fun x => bind rdQ (fun tol => bind rdN (fun k =>
  bind (rep rdQ3 k) (fun N => bind (rep rdQ k) (fun p0 => bind (rep rdQ3 k) (fun P =>
  bind rdN (fun nI => bind (rep rdN nI) (fun inv =>
  bind rdN (fun nC => bind (rep rdC3 nC) (fun C =>
  bind rdN (fun m => bind (rep (rdPform k) m) (fun forms =>
  ret {| pc_x := x; pc_tol := tol; pc_N := N; pc_p0 := p0; pc_P := P; pc_inv := inv; pc_C := C;
         pc_forms := forms |})))))))))))).

Definition rdUform (k : nat) : rd uform :=
  bind rdN (fun r => bind rdS6 (fun eqU => bind (rep rdS6 k) (fun cols =>
  ret {| uf_rep := r; uf_eqU := eqU; uf_cols := cols |}))).

Definition rdUcert : rd ucert :=
  bind rdQ3 (fun x => bind rdQ (fun tol => bind rdN (fun k =>
  bind (rep rdS6 k) (fun B => bind rdS6 (fun Uin => bind (rep rdQ k) (fun par => bind rdS6 (fun Uij =>
  bind rdZ (fun iso => bind (rep rdS6 k) (fun P =>
  bind rdN (fun nC => bind (rep rdS66 nC) (fun C =>
  bind rdN (fun m => bind (rep (rdUform k) m) (fun forms =>
  ret {| uc_x := x; uc_tol := tol; uc_B := B; uc_Uin := Uin; uc_par := par; uc_Uij := Uij;
         uc_iso := negb (iso =? 0); uc_P := P; uc_C := C; uc_forms := forms |}))))))))))))).

Definition rdChars : rd (list ascii) := bind rdN (fun n => bind (rep rdN n) (fun l => ret (map ascii_of_nat l))).
Definition rdPair : rd (list ascii * list ascii) := bind rdChars (fun k => bind rdChars (fun v => ret (k, v))).
Fixpoint chars_eqb (a b : list ascii) : bool :=
  match a, b with [], [] => true | x :: a', y :: b' => Ascii.eqb x y && chars_eqb a' b' | _, _ => false end.
Fixpoint dict_lookup (d : list (list ascii * list ascii)) (k : list ascii) : option (list ascii) :=
  match d with [] => None | (k', v) :: r => if chars_eqb k k' then Some v else dict_lookup r k end.
Definition run_translate (which : Z) (rest : tk) : list Z :=
  match bind rdN (fun n => bind (rep rdPair n) (fun d => bind rdChars (fun s => ret (d, s)))) rest with
  | Some ((d, s), []) =>
      map (fun c => Z.of_nat (nat_of_ascii c))
          (if which =? 1 then translate_xyz (dict_lookup d) s else translate_U (dict_lookup d) s)
  | _ => [-1]
  end.

Definition all_ops : list (list symop) := map sg_ops all_settings.

Definition c0506_run (l : tk) : list Z :=
  match l with
  | 9 :: which :: rest => run_translate which rest
  | kind :: si :: rest =>
      match (if 0 <=? si then nth_error all_ops (Z.to_nat si) else None) with
      | None => [-2]
      | Some G =>
          if kind =? 5 then
            match rdPcert rest with
            | Some (c, []) => pos_cert_failed G c
            | _ => [-1]
            end
          else if kind =? 6 then
            match rdUcert rest with
            | Some (c, []) => u_cert_failed G c
            | _ => [-1]
            end
          else if (kind =? 7) || (kind =? 8) then
            match bind rdQ (fun e => bind rdN (fun n => bind (rep rdQ3 n) (fun sites => bind rdQ3 (fun q => ret (e, sites, q))))) rest with
            | Some ((e, sites, q), []) =>
                match (if kind =? 7 then position_formula_query e sites q else u_formula_query e sites q) with
                | Some i => [Z.of_nat i]
                | None => [-9]
                end
            | _ => [-1]
            end
          else [-1]
      end
  | _ => [-1]
  end.
