(* C02 - exact model of symmetry expansion on the discrete torus (Z/D)^3.
   A site is an integer triple k standing for the fractional coordinates k/D, where 12 | D
   (every rational site, origin offset and integer cell shift has this form for some D).
   Operations come from Gen/SGTables.v: (R, 12*t).  Model file: definitions only. *)
From Coq Require Import ZArith List Bool.
From DS Require Import Base.ZMat Base.SGDefs Model.GroupCheck.
Import ListNotations.
Open Scope Z_scope.

(* x -> R x + t, in units of 1/D *)
Definition apply_op (D : Z) (g : symop) (k : v3) : v3 :=
  vadd (mvec (fst g) k) (vscale (D / 12) (snd g)).

(* reduction into the unit cell [0,1)^3 = [0,D)^3 *)
Definition red (D : Z) (k : v3) : v3 := vmod D k.

(* expandPosition: pos = symop(xyz + sgoffset) - sgoffset, reduced into the cell *)
Definition raw_img (D : Z) (g : symop) (off x : v3) : v3 := vsub (apply_op D g (vadd x off)) off.
Definition img (D : Z) (g : symop) (off x : v3) : v3 := red D (raw_img D g off x).

(* the accumulator: positions in first-seen order, each with the operations that generate it *)
Definition bucket := (v3 * list symop)%type.

Fixpoint insert (p : v3) (g : symop) (acc : list bucket) : list bucket :=
  match acc with
  | [] => [(p, [g])]
  | (q, l) :: r => if v3_eqb p q then (q, l ++ [g]) :: r else (q, l) :: insert p g r
  end.

Definition expand_steps (D : Z) (off x : v3) (G : list symop) (acc : list bucket) : list bucket :=
  fold_left (fun acc g => insert (img D g off x) g acc) G acc.

(* (positions, operations per position, multiplicity) *)
Definition expand_exact (D : Z) (G : list symop) (off x : v3) : list v3 * list (list symop) * nat :=
  let acc := expand_steps D off x G [] in (map fst acc, map snd acc, List.length acc).

(* operations that map the site onto itself modulo lattice translations *)
Definition fixes (D : Z) (off x : v3) (g : symop) : bool := v3_eqb (img D g off x) (red D x).
Definition stab (D : Z) (G : list symop) (off x : v3) : list symop := filter (fixes D off x) G.

(* operations that send the site to the position p *)
Definition sends (D : Z) (off x p : v3) (g : symop) : bool := v3_eqb (img D g off x) p.
Definition fibre (D : Z) (G : list symop) (off x p : v3) : list symop := filter (sends D off x p) G.

Definition in_cell (D : Z) (p : v3) : Prop := 0 <= vx p < D /\ 0 <= vy p < D /\ 0 <= vz p < D.

(* every operation is attributed to the one position it generates:
   the k-th list is exactly the operations (in table order) whose image is the k-th position *)
Definition attribution_ok (D : Z) (G : list symop) (off x : v3) (pos : list v3) (ops : list (list symop)) : Prop :=
  ops = map (fibre D G off x) pos /\
  (forall g, In g G -> exists p, In p pos /\ In g (fibre D G off x p)) /\
  (forall g p q, In p pos -> In q pos -> In g (fibre D G off x p) -> In g (fibre D G off x q) -> p = q) /\
  (List.length (concat ops) = List.length G).
