(* C15 - model of expansion.supercell(S, mno).
   Generic in the number type (R for the theorems, Q for execution) and in the per-atom payload P (element, label,
   occupancy, tensor, flag, extra attributes: whatever Atom(a) copies).  Loop nest, coordinate formula, argument checks,
   shortcut and the setLatPar call shape come from Gen/C15_Spec.v (translated from supercell_mod.py on every run). *)
From Coq Require Import ZArith QArith List Bool.
From DS Require Import Base.C09_GNum Gen.C15_Spec.
Import ListNotations.

Inductive result (A : Type) := Ok (a : A) | ValueError.
Arguments Ok {A}. Arguments ValueError {A}.

(* Python int(x) for a finite number x: truncation toward zero *)
Definition py_int (q : Q) : Z := Z.quot (Qnum q) (Zpos (Qden q)).
Definition Qltb' (x y : Q) : bool := if Qlt_le_dec x y then true else false.

(* the argument checks, in source order; the entries of mno are Python ints or floats, i.e. rationals *)
Definition validate (mno : list Q) : result (Z * Z * Z) :=
  if negb (Nat.eqb (length mno) c15_len) then ValueError
  else if existsb (fun q => Qltb' q (inject_Z c15_min)) mno then ValueError      (* min(mno) < 1 *)
  else match mno with
       | [x; y; z] => Ok (py_int x, py_int y, py_int z)
       | _ => ValueError          (* unreachable when c15_len = 3 *)
       end.

Definition triple_eqb (a b : Z * Z * Z) : bool :=
  let '(a0, a1, a2) := a in let '(b0, b1, b2) := b in (Z.eqb a0 b0 && Z.eqb a1 b1 && Z.eqb a2 b2)%bool.

Section Generic.
Context {T : Type} (O : ops T) {P : Type}.

Record atom := Atom { at_xyz : gvec T; at_pay : P }.
(* Lattice as far as supercell touches it: setLatPar(a=, b=, c=) keeps alpha, beta, gamma and baserot *)
Record cell := Cell { c_a : T; c_b : T; c_c : T; c_alpha : T; c_beta : T; c_gamma : T; c_rot : gmat T }.
Record structure := Struct { s_atoms : list atom; s_cell : cell }.

Definition nT (n : nat) : T := tofZ O (Z.of_nat n).

(* adup = Atom(a); adup.xyz = (a.xyz + ijk) / mnofloats *)
Definition image (l m n : nat) (a : atom) (ijk : nat * nat * nat) : atom :=
  let '(i, j, k) := ijk in
  Atom (GV (c15_coord O (x0 (at_xyz a)) (nT i) (nT l)) (c15_coord O (x1 (at_xyz a)) (nT j) (nT m)) (c15_coord O (x2 (at_xyz a)) (nT k) (nT n)))
       (at_pay a).
Definition images (l m n : nat) (a : atom) : list atom := map (image l m n a) (c15_ijklist l m n).
Definition expand (l m n : nat) (atoms : list atom) : list atom :=
  if c15_atoms_outer then flat_map (images l m n) atoms
  else flat_map (fun ijk => map (fun a => image l m n a ijk) atoms) (c15_ijklist l m n).

Definition scale_cell (l m n : nat) (c : cell) : cell :=
  let '(a', b', c') := c15_newabc O (nT l) (nT m) (nT n) (c_a c) (c_b c) (c_c c) in
  Cell a' b' c' (c_alpha c) (c_beta c) (c_gamma c) (c_rot c).

Definition supercell (S : structure) (mno : list Q) : result structure :=
  match validate mno with
  | ValueError => ValueError
  | Ok lmn =>
      if triple_eqb lmn c15_shortcut then Ok S             (* newS = Structure(S); return newS *)
      else let '(l, m, n) := lmn in
           Ok (Struct (expand (Z.to_nat l) (Z.to_nat m) (Z.to_nat n) (s_atoms S))
                      (scale_cell (Z.to_nat l) (Z.to_nat m) (Z.to_nat n) (s_cell S)))
  end.
End Generic.

Arguments atom : clear implicits. Arguments cell : clear implicits. Arguments structure : clear implicits.
Arguments Atom {T P}. Arguments Cell {T}. Arguments Struct {T P}.
