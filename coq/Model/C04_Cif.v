(* C04 - executable model of P_cif.toLines and of the part of the CIF reader that handles what this writer emits.
   View: title (one line), creation date (volatile, supplied), cell, and per atom element, fractional position,
   Uisoequiv, the isotropy decision `lattice.isanisotropic(a.U)` (abstract: supplied as a boolean), occupancy and the six
   tensor components.  Reader: PyCifRW's tokenisation is an oracle - the model tokenises only the layout of this writer
   (key-value records and two loops with blank-separated rows; the correspondence check compares these tokens with
   PyCifRW's on every written text) and then applies the setters of P_cif (_tr_atom_site_*, leading_float, P1 expansion
   = reduction of the positions into the cell). *)
From Coq Require Import List Bool Arith NArith ZArith String.
From Coq Require Import Ascii.
From DS Require Import Base.C04_Text Base.C04_Decimal Model.C04_Fmt Gen.C04_FmtSpecs Model.C04_Xyz Model.C04_Pdffit Model.C04_Pdb.
Import ListNotations.
Local Close Scope N_scope.

Record fatom := FAtom { f_el : str; f_xyz : d3; f_uiso : dec; f_aniso : bool; f_occ : dec; f_u : d6 }.
Record fstru := FStru { f_title : str; f_date : str; f_cell : d6; f_atoms : list fatom }.

(* ---- writer ---- *)
Fixpoint count_el (el : str) (l : list fatom) : nat :=
  match l with [] => O | a :: r => (if str_eqb (f_el a) el then 1 else 0) + count_el el r end.
(* labels element + running count *)
Fixpoint labels (seen : list fatom) (l : list fatom) : list (option str) :=
  match l with
  | [] => []
  | a :: r => render cif_w_label [AStr (f_el a); AInt (Z.of_nat (S (count_el (f_el a) seen)))] :: labels (seen ++ [a]) r
  end.

Definition adp_type (a : fatom) : str := if f_aniso a then s"Uani" else s"Uiso".
Definition atom_row (lab : str) (a : fatom) : option str :=
  render cif_w_atom (AStr lab :: AStr (f_el a) :: args3 (f_xyz a) ++ [ANum (f_uiso a); AStr (adp_type a); ANum (f_occ a)]).
Definition aniso_row (lab : str) (a : fatom) : option str := render cif_w_aniso (AStr lab :: args6 (f_u a)).

Definition meta_line (date : str) (kv : str * str) : option str :=
  render cif_w_meta [AStr (fst kv); AStr (if str_eqb (snd kv) (s"@DATE@") then date else snd kv)].

Definition print_cif (S : fstru) : option (list str) :=
  match map_opt (fun x => x) (labels [] (f_atoms S)) with
  | None => None
  | Some labs =>
    let rows := combine labs (f_atoms S) in
    let anis := filter (fun la => f_aniso (snd la)) rows in
    let '((a, b, c), (al, be, ga)) := f_cell S in
    concat_opt
      [ Some (if is_nil (strip (f_title S)) then [] else [cif_w_comment ++ strip (f_title S); []]);
        Some [cif_w_data];
        map_opt (meta_line (f_date S)) (firstn 2 cif_w_meta_rows); Some [[]];
        map_opt (meta_line (f_date S)) (skipn 2 cif_w_meta_rows); Some [[]];
        map_opt (fun kv => render cif_w_cell [AStr (fst kv); ANum (snd kv)]) (combine cif_w_cell_keys [a; b; c; al; be; ga]); Some [[]];
        Some cif_w_site_header;
        map_opt (fun la => atom_row (fst la) (snd la)) rows;
        (match anis with
         | [] => Some []
         | _ => option_map (app cif_w_aniso_header) (map_opt (fun la => aniso_row (fst la) (snd la)) anis)
         end) ]
  end.

(* ---- tokens of the written layout (what PyCifRW returns for it) ---- *)
Record cifblock := CifBlock { cb_cell : list (str * str); cb_site_cols : list str; cb_site_rows : list (list str);
                              cb_aniso_cols : list str; cb_aniso_rows : list (list str) }.

Definition is_key (w : str) : bool := match w with c :: _ => Ascii.eqb c "_"%char | [] => false end.
Definition is_comment (l : str) : bool := match lstrip l with c :: _ => Ascii.eqb c "#"%char | [] => false end.

(* loop: header lines (one key each) followed by rows until a blank line, another "loop_" or the end *)
Fixpoint loop_cols (ls : list str) : list str * list str :=
  match ls with
  | l :: r => match split_ws l with
              | [w] => if is_key w then let '(c, rest) := loop_cols r in (w :: c, rest) else ([], ls)
              | _ => ([], ls)
              end
  | [] => ([], [])
  end.
Fixpoint loop_rows (ls : list str) : list (list str) * list str :=
  match ls with
  | l :: r => match split_ws l with
              | [] => ([], ls)
              | w :: ws => if str_eqb w (s"loop_") || is_key w then ([], ls)
                           else let '(rows, rest) := loop_rows r in ((w :: ws) :: rows, rest)
              end
  | [] => ([], [])
  end.

Fixpoint tokenize (fuel : nat) (ls : list str) (b : cifblock) : option cifblock :=
  match fuel with
  | O => None
  | S f =>
    match ls with
    | [] => Some b
    | l :: r =>
        if is_comment l then tokenize f r b
        else match split_ws l with
        | [] => tokenize f r b
        | [w] => if str_eqb w (s"loop_") then
                   let '(cols, r1) := loop_cols r in
                   let '(rows, r2) := loop_rows r1 in
                   if existsb (str_eqb (s"_atom_site_label")) cols
                   then tokenize f r2 (CifBlock (cb_cell b) cols rows (cb_aniso_cols b) (cb_aniso_rows b))
                   else if existsb (str_eqb (s"_atom_site_aniso_label")) cols
                   then tokenize f r2 (CifBlock (cb_cell b) (cb_site_cols b) (cb_site_rows b) cols rows)
                   else tokenize f r2 b
                 else tokenize f r b                   (* data_3D *)
        | [k; v] => if is_key k then tokenize f r (CifBlock ((k, v) :: cb_cell b) (cb_site_cols b) (cb_site_rows b) (cb_aniso_cols b) (cb_aniso_rows b))
                    else None
        | _ => None        (* quoted values with blanks etc.: not produced by this writer *)
        end
    end
  end.

(* ---- the reader on the tokens ---- *)
Record gatom := GAtom { g_label : str; g_el : str; g_xyz : d3; g_uiso : dec; g_aniso : bool; g_occ : dec; g_u : list dec }.
Record gstru := GStru { g_cell : d6; g_atoms : list gatom }.

(* leading_float restricted to plain decimals (what the writer prints); "." and "?" give the default *)
Definition leading_float (dflt : dec) (t : str) : option dec :=
  let b := strip t in
  if str_eqb b (s".") || str_eqb b (s"?") then Some dflt else parse_float b.

(* x - floor(x) on an exact decimal (sites are reduced into the cell by the P1 expansion) *)
Definition dfrac (d : dec) : dec :=
  let p := pow10 (dexp d) in
  let r := N.modulo (dmag d) p in
  if dneg d then (if (r =? 0)%N then Dec false 0 (dexp d) else Dec false (p - r)%N (dexp d))
  else Dec false r (dexp d).
Definition in_cell (d : dec) : dec := dnorm (dfrac d).

(* "(\d+-)?([a-zA-Z]+)(\d[+-])?" is applied to the type symbol; for the symbols written here the whole token matches or
   the token is kept: either way the element is the capitalised token *)
Definition col (cols : list str) (row : list str) (name : string) : option str :=
  (fix go (cs : list str) (rs : list str) : option str :=
     match cs, rs with
     | c :: cs', v :: rs' => if str_eqb c (s name) then Some v else go cs' rs'
     | _, _ => None
     end) cols row.

Definition site_atom (cols : list str) (row : list str) : option gatom :=
  match col cols row "_atom_site_label", col cols row "_atom_site_type_symbol",
        col cols row "_atom_site_fract_x", col cols row "_atom_site_fract_y", col cols row "_atom_site_fract_z",
        col cols row "_atom_site_U_iso_or_equiv", col cols row "_atom_site_adp_type", col cols row "_atom_site_occupancy" with
  | Some lab, Some sym, Some x, Some y, Some z, Some u, Some ty, Some o =>
      match leading_float dzero x, leading_float dzero y, leading_float dzero z, leading_float dzero u, leading_float done o with
      | Some vx, Some vy, Some vz, Some vu, Some vo =>
          Some (GAtom lab (capitalize sym) (in_cell vx, in_cell vy, in_cell vz) vu
                      (negb (str_eqb ty (s"Uiso") || str_eqb ty (s"Biso"))) vo [])
      | _, _, _, _, _ => None
      end
  | _, _, _, _, _, _, _, _ => None
  end.

Fixpoint set_aniso (cols : list str) (row : list str) (l : list gatom) : option (list gatom) :=
  match l with
  | [] => None                       (* KeyError: label not found *)
  | a :: r =>
      match col cols row "_atom_site_aniso_label" with
      | Some lab =>
          if str_eqb lab (g_label a) then
            match map_opt (fun nm => match col cols row nm with Some v => leading_float dzero v | None => None end)
                          ["_atom_site_aniso_U_11"; "_atom_site_aniso_U_22"; "_atom_site_aniso_U_33";
                           "_atom_site_aniso_U_12"; "_atom_site_aniso_U_13"; "_atom_site_aniso_U_23"]%string with
            | Some us => Some (GAtom (g_label a) (g_el a) (g_xyz a) (g_uiso a) (g_aniso a) (g_occ a) us :: r)
            | None => None
            end
          else match set_aniso cols row r with Some r' => Some (a :: r') | None => None end
      | None => None
      end
  end.

Definition parse_block (b : cifblock) : option gstru :=
  let get := fun (k : string) => match find (fun kv => str_eqb (fst kv) (s k)) (cb_cell b) with Some kv => leading_float dzero (snd kv) | None => None end in
  match get "_cell_length_a"%string, get "_cell_length_b"%string, get "_cell_length_c"%string,
        get "_cell_angle_alpha"%string, get "_cell_angle_beta"%string, get "_cell_angle_gamma"%string with
  | Some a, Some b', Some c, Some al, Some be, Some ga =>
      match map_opt (site_atom (cb_site_cols b)) (cb_site_rows b) with
      | Some atoms =>
          match fold_left (fun acc row => match acc with Some l => set_aniso (cb_aniso_cols b) row l | None => None end) (cb_aniso_rows b) (Some atoms) with
          | Some atoms' => match atoms' with [] => None | _ => Some (GStru ((a, b', c), (al, be, ga)) atoms') end
          | None => None
          end
      | None => None
      end
  | _, _, _, _, _, _ => None
  end.

Definition parse_cif (lines : list str) : option gstru :=
  match tokenize (S (List.length lines)) lines (CifBlock [] [] [] [] []) with
  | Some b => parse_block b
  | None => None
  end.

Definition write_cif (S : fstru) : option str := option_map text_of_lines (print_cif S).
Definition read_cif (t : str) : option gstru := parse_cif (lines_of_text t).
