(* C13 - model of P_discus.parseLines and its record parsers (p_discus.py:64-296) in the exception monad.

   The generator _linesIterator is consumed inside the try of parseLines, so its index expression is
   evaluated under that try as well.  `cell_hist` is the list of argument lists given to setLatPar so far
   (the lattice parameters used for the supercell are a function of it: oracle cell_pars). *)
From Coq Require Import List Bool Arith ZArith.
From DS Require Import Base.C13_Exn Gen.C13_ExcSpec Model.C13_Common.
From Coq Require Import Ascii String.
Import ListNotations.

Section DISCUS.
  Variable V : Type.
  Variable split : string -> list string.
  Variable split_commas : string -> list string.
  Variable isblank : string -> bool.
  Variable float_of : string -> res V.
  Variable int_of : string -> res Z.
  Variable set_lat_par : list (list V) -> list V -> res unit.  (* lattice.setLatPar( *pars) after the earlier calls *)
  Variable cell_pars : list (list V) -> list V.      (* list(lattice.abcABG()) : six values *)
  Variable lattice_of : list V -> res unit.          (* Lattice( *pars) *)
  Variable mulZ : V -> Z -> res V.

  Record dst := { d_hist : list (list V); d_cell_read : bool; d_ncell : list Z; d_ncell_read : bool; d_natoms : nat }.

  Definition kw (w : string) (k : string) : bool := String.eqb w k.

  Definition upd_hist (st : dst) (h : list (list V)) : dst :=
    {| d_hist := h; d_cell_read := true; d_ncell := d_ncell st; d_ncell_read := d_ncell_read st; d_natoms := d_natoms st |}.
  Definition upd_ncell (st : dst) (ns : list Z) : dst :=
    {| d_hist := d_hist st; d_cell_read := d_cell_read st; d_ncell := ns; d_ncell_read := true; d_natoms := d_natoms st |}.
  Definition upd_atom (st : dst) : dst :=
    {| d_hist := d_hist st; d_cell_read := d_cell_read st; d_ncell := d_ncell st; d_ncell_read := d_ncell_read st;
       d_natoms := S (d_natoms st) |}.

  (* _parse_cell : the only try of the record parsers *)
  Definition discus_cell (st : dst) (line : string) : res dst :=
    pars <- mapM float_of (slice (split_commas line) 1 7) ;;
    _ <- try_catch (set_lat_par (d_hist st) pars) discus_parse_cell_try1_caught (reraise_handler discus_parse_cell_try1_handler) ;;
    Ok (upd_hist st ((d_hist st ++ [pars])%list)).

  Definition discus_shape (words : list string) (line : string) : res unit :=
    let wordsfixed := split_commas line in
    shapetype <- idx wordsfixed 1 ;;
    if kw shapetype "sphere" then w <- idx words 2 ;; _ <- float_of w ;; Ok tt
    else if kw shapetype "stepcut" then w <- idx words 2 ;; _ <- float_of w ;; Ok tt
    else Raise FormatError.

  (* rp = record_parsers.get(words[0], self._parse_unknown_record); rp(words) *)
  Definition discus_record (st : dst) (w0 : string) (words : list string) (line : string) : res dst :=
    if kw w0 "cell" then discus_cell st line
    else if kw w0 "format" then
      w1 <- idx words 1 ;; if kw w1 "pdffit" then Raise FormatError else Ok st
    else if kw w0 "generator" || kw w0 "molecule" || kw w0 "symmetry" then
      _ <- idx words 0 ;; Raise NotImplemented
    else if kw w0 "ncell" then
      ns <- mapM int_of (slice (split_commas line) 1 5) ;; Ok (upd_ncell st ns)
    else if kw w0 "spcgr" then Ok st
    else if kw w0 "title" then Ok st
    else if kw w0 "shape" then _ <- discus_shape words line ;; Ok st
    else Ok st.

  Fixpoint discus_header (st : dst) (rest : list string) : res (dst * list string) :=
    match rest with
    | [] => Ok (st, [])
    | line :: rest' =>
      let words := split line in
      match words with
      | [] => discus_header st rest'
      | w0 :: _ =>
        c <- str_head w0 ;;
        if Ascii.eqb c hash_char then discus_header st rest'
        else if kw w0 "atoms" then Ok (st, rest')
        else st' <- discus_record st w0 words line ;; discus_header st' rest'
      end
    end.

  (* _parse_atom(words) *)
  Definition discus_atom (words : list string) : res unit :=
    _ <- idx words 0 ;; _ <- idx words 0 ;;
    _ <- mapM float_of (slice words 1 4) ;;
    w4 <- idx words 4 ;; _ <- float_of w4 ;;
    Ok tt.

  Definition discus_atom_line (st : dst) (line : string) : res dst :=
    let words := split_commas line in
    match words with
    | [] => Ok st
    | w0 :: _ =>
      c <- str_head w0 ;;
      if Ascii.eqb c hash_char then Ok st
      else _ <- discus_atom words ;; Ok (upd_atom st)
    end.

  Definition scaled_edge (pars : list V) (ncell : list Z) (i : nat) : res V :=
    p <- idx pars i ;; m <- idx ncell i ;; mulZ p m.

  Definition discus_body (lines : list string) : res nat :=
    stop <- trim_blank isblank (S (List.length lines)) lines (List.length lines) ;;
    hs <- discus_header {| d_hist := []; d_cell_read := false; d_ncell := [1; 1; 1; 0]%Z; d_ncell_read := false; d_natoms := 0 |}
                        (firstn stop lines) ;;
    if negb (d_cell_read (fst hs)) then Raise FormatError
    else
      st <- foldM discus_atom_line (snd hs) (fst hs) ;;
      let exp_natoms := Zprod (d_ncell st) in
      if d_ncell_read st && negb (Z.eqb exp_natoms (Z.of_nat (d_natoms st))) then Raise FormatError
      else if negb (list_eqb_Z (firstn 3 (d_ncell st)) [1; 1; 1]%Z) then
        let latpars := cell_pars (d_hist st) in
        s0 <- scaled_edge latpars (d_ncell st) 0 ;;
        s1 <- scaled_edge latpars (d_ncell st) 1 ;;
        s2 <- scaled_edge latpars (d_ncell st) 2 ;;
        _ <- lattice_of (([s0; s1; s2] ++ skipn 3 latpars)%list) ;;
        Ok (d_natoms st)
      else Ok (d_natoms st).

  Definition parse_discus_gen (caught : list kind) (hk : handler_kind) (lines : list string) : res nat :=
    try_catch (discus_body lines) caught (reraise_handler hk).

  Definition parse_discus (lines : list string) : res nat :=
    parse_discus_gen discus_parseLines_try1_caught discus_parseLines_try1_handler lines.
End DISCUS.
