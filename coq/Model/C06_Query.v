(* C05/C06 - exact model of the position query that opens GeneratorSite.positionFormula, UFormula and eqIndex:
     idx = nearestSiteIndex(self.eqxyz, pos); eqpos = self.eqxyz[idx]
     if not equalPositions(eqpos, pos, <tolerance>): return {}
   positionDifference: d = xyz0 - xyz1; d -= floor(d); d[d > 0.5] = 1 - d[d > 0.5]   (periodic distance per coordinate)
   nearestSiteIndex  : argmin over the sites of the largest coordinate distance (numpy.argmin: the FIRST minimum)
   equalPositions    : all coordinate distances <= eps.
   Which tolerance each method hands to equalPositions is read from the source (Gen/C06_QueryGuards.v).
   Model file: definitions only. *)
From Coq Require Import ZArith QArith Qabs Qround Qminmax List Bool.
From DS Require Import Base.ZMat Model.C05_QBase.
Import ListNotations.
Open Scope Q_scope.

Definition pdiff1 (a b : Q) : Q :=
  let f := (a - b) - inject_Z (Qfloor (a - b)) in
  if Qle_bool f (1 # 2) then f else 1 - f.
Definition boxd (u v : q3) : Q := Qmax (pdiff1 (qx u) (qx v)) (Qmax (pdiff1 (qy u) (qy v)) (pdiff1 (qz u) (qz v))).

(* (index, distance) of the first minimum; the running best is replaced only by a strictly smaller distance *)
Fixpoint argmin_from (i : nat) (best : nat * Q) (sites : list q3) (q : q3) : nat * Q :=
  match sites with
  | [] => best
  | s :: r => let d := boxd s q in
              argmin_from (S i) (if Qle_bool (snd best) d then best else (i, d)) r q
  end.
Definition nearest (sites : list q3) (q : q3) : option (nat * Q) :=
  match sites with
  | [] => None
  | s :: r => Some (argmin_from 1 (0%nat, boxd s q) r q)
  end.
Definition equal_positions (eps : Q) (u v : q3) : bool :=
  Qle_bool (pdiff1 (qx u) (qx v)) eps && Qle_bool (pdiff1 (qy u) (qy v)) eps && Qle_bool (pdiff1 (qz u) (qz v)) eps.

(* Some i = "pos is the equivalent position number i", None = the empty dictionary *)
Definition site_query (eps : Q) (sites : list q3) (q : q3) : option nat :=
  match nearest sites q with
  | Some (i, _) => if equal_positions eps (nth i sites q3zero) q then Some i else None
  | None => None
  end.
Definition eq_index (sites : list q3) (q : q3) : option nat :=
  match nearest sites q with Some (i, _) => Some i | None => None end.

(* the tolerance expression a method passes to equalPositions *)
Inductive tolexp := TolSelf | TolModule | TolConst (q : Q).
Definition tol_of (t : tolexp) (site_eps module_eps : Q) : Q :=
  match t with TolSelf => site_eps | TolModule => module_eps | TolConst q => q end.
