(* C04 - format descriptors (what translate/c04_fmt.py extracts from the `%` format strings and
   str.format templates of the seven writers) and their interpreter.  Model file: definitions only. *)
From Coq Require Import List Bool Arith NArith ZArith String.
From Coq Require Import Ascii.
From DS Require Import Base.C04_Text Base.C04_Decimal.
Import ListNotations.

(* string literal -> character list (generated files write  (s"cell   ")) *)
Definition s (x : string) : str := list_ascii_of_string x.

Inductive fitem :=
| FLit (t : str)                 (* literal text *)
| FStr (left : bool) (w : nat)   (* %ws / %-ws / %s (w = 0) / %c *)
| FFix (w p : nat)               (* %w.pf *)
| FInt (w : nat)                 (* %wi %wd *)
| FGen (P : nat).                (* %g (P = 6), %.Pg, {:.Pg} *)

Inductive farg := AStr (t : str) | ANum (d : dec) | AInt (z : Z).

(* the characters a field contributes, without its padding *)
Definition field_body (it : fitem) (a : farg) : option str :=
  match it, a with
  | FStr _ _, AStr t => Some t
  | FFix _ p, ANum d => Some (fix_body p d)
  | FInt _, AInt z => Some (int_body z)
  | FGen P, ANum d => print_gen P d
  | _, _ => None
  end.

Definition field_pad (it : fitem) (b : str) : str :=
  match it with
  | FStr true w => rpad w b
  | FStr false w => lpad w b
  | FFix w _ => lpad w b
  | FInt w => lpad w b
  | FGen _ => b
  | FLit _ => b
  end.

Fixpoint render (f : list fitem) (a : list farg) : option str :=
  match f with
  | [] => match a with [] => Some [] | _ => None end
  | FLit t :: f' => option_map (app t) (render f' a)
  | it :: f' =>
      match a with
      | x :: a' => match field_body it x, render f' a' with
                   | Some b, Some r => Some (field_pad it b ++ r)
                   | _, _ => None
                   end
      | [] => None
      end
  end.

(* the blank-separated tokens of the rendered line, computed without rendering *)
Fixpoint render_toks (f : list fitem) (a : list farg) : option (list str) :=
  match f with
  | [] => match a with [] => Some [] | _ => None end
  | FLit t :: f' => option_map (app (split_ws t)) (render_toks f' a)
  | it :: f' =>
      match a with
      | x :: a' => match field_body it x, render_toks f' a' with
                   | Some b, Some r => Some (b :: r)
                   | _, _ => None
                   end
      | [] => None
      end
  end.

(* static well-formedness of a descriptor for blank-separated reading: every field is followed by
   the end of the line or by a literal that starts with whitespace; a literal is non-empty and is
   followed by a field only if it ends with whitespace *)
Definition lit_starts_ws (f : list fitem) : bool :=
  match f with [] => true | FLit t :: _ => starts_ws t | _ => false end.
Fixpoint sep_ok (f : list fitem) : bool :=
  match f with
  | [] => true
  | FLit t :: f' => nonempty t && (ends_ws t || lit_starts_ws f') && sep_ok f'
  | _ :: f' => lit_starts_ws f' && sep_ok f'
  end.

(* "," -> " " : line.replace(",", " ") *)
Definition c2s_char (c : ascii) : ascii := if Ascii.eqb c comma then sp else c.
Definition c2s (t : str) : str := map c2s_char t.
Definition c2s_item (it : fitem) : fitem := match it with FLit t => FLit (c2s t) | _ => it end.
Definition c2s_spec (f : list fitem) : list fitem := map c2s_item f.

(* argument restrictions under which a rendered line reads back token by token *)
Definition str_tok_ok (t : str) : bool := no_ws t && nonempty t && negb (has_char comma t).
Definition arg_ok (a : farg) : bool := match a with AStr t => str_tok_ok t | _ => true end.

(* total width of a descriptor whose fields all fit (fixed-column formats) *)
Definition item_width (it : fitem) : option nat :=
  match it with
  | FLit t => Some (List.length t)
  | FStr _ w => if (w =? 0)%nat then None else Some w
  | FFix w _ => Some w
  | FInt w => if (w =? 0)%nat then None else Some w
  | FGen _ => None
  end.

(* list helpers shared by the record-level models *)
Definition slice {A} (lo hi : nat) (l : list A) : list A := firstn (hi - lo) (skipn lo l).
Fixpoint map_opt {A B} (f : A -> option B) (l : list A) : option (list B) :=
  match l with
  | [] => Some []
  | x :: r => match f x, map_opt f r with Some y, Some ys => Some (y :: ys) | _, _ => None end
  end.
