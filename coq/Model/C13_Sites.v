(* C13 - the raising-site layout of every reader that the models in Model/C13_*.v account for.
   Written by `python -m translate.c13_exc --write-expected` from a reviewed tree; compared by reflexivity with the
   layout regenerated from the current source (Gen/C13_ExcSpec.v) in Props/C13.v. *)
From Coq Require Import List String.
From DS Require Import Base.C13_Exn Gen.C13_ExcSpec.
Import ListNotations.
Open Scope string_scope.

Definition xyz_sites_expected : list site := [
  ("parseLines", "call:addNewAtom", [2], 1);
  ("parseLines", "float", [2], 1);
  ("parseLines", "index", [], 3);
  ("parseLines", "index", [1], 4);
  ("parseLines", "index", [2], 2);
  ("parseLines", "int", [1], 2);
  ("parseLines", "raise:StructureFormatError", [], 4);
  ("parseLines", "raise:StructureFormatError", [1], 1);
  ("parseLines", "raise:StructureFormatError", [2], 1);
  ("parseLines", "strformat", [], 4);
  ("parseLines", "strformat", [1], 1);
  ("parseLines", "strformat", [2], 1)
].

Definition rawxyz_sites_expected : list site := [
  ("parseLines", "call:addNewAtom", [1], 1);
  ("parseLines", "float", [1], 1);
  ("parseLines", "index", [], 4);
  ("parseLines", "index", [1], 1);
  ("parseLines", "raise:StructureFormatError", [], 3);
  ("parseLines", "raise:StructureFormatError", [1], 1);
  ("parseLines", "strformat", [], 3);
  ("parseLines", "strformat", [1], 1)
].

Definition pdffit_sites_expected : list site := [
  ("_parse_shape", "assert", [], 1);
  ("_parse_shape", "float", [], 2);
  ("_parse_shape", "index", [], 4);
  ("_parse_shape", "index_store", [], 2);
  ("_parse_shape", "raise:StructureFormatError", [], 1);
  ("_parse_shape", "strformat", [], 1);
  ("parseLines", "call:Lattice", [1], 2);
  ("parseLines", "call:_parse_shape", [1], 1);
  ("parseLines", "call:addNewAtom", [1], 1);
  ("parseLines", "call:placeInLattice", [1], 1);
  ("parseLines", "call:reduce", [1], 1);
  ("parseLines", "float", [1], 20);
  ("parseLines", "index", [1], 44);
  ("parseLines", "index_store", [1], 30);
  ("parseLines", "int", [1], 1);
  ("parseLines", "next", [1], 5);
  ("parseLines", "raise:StructureFormatError", [], 1);
  ("parseLines", "raise:StructureFormatError", [1], 3);
  ("parseLines", "strformat", [], 1);
  ("parseLines", "strformat", [1], 3);
  ("parseLines", "unbound:latpars", [1], 2)
].

Definition discus_sites_expected : list site := [
  ("_linesIterator", "index", [], 1);
  ("_parse_atom", "call:addNewAtom", [], 1);
  ("_parse_atom", "float", [], 2);
  ("_parse_atom", "index", [], 3);
  ("_parse_cell", "call:setLatPar", [1], 1);
  ("_parse_cell", "float", [], 1);
  ("_parse_cell", "raise:StructureFormatError", [], 1);
  ("_parse_cell", "strformat", [], 1);
  ("_parse_format", "index", [], 1);
  ("_parse_format", "raise:StructureFormatError", [], 1);
  ("_parse_format", "strformat", [], 1);
  ("_parse_ncell", "index_store", [], 1);
  ("_parse_ncell", "int", [], 1);
  ("_parse_not_implemented", "index", [], 1);
  ("_parse_not_implemented", "raise:NotImplementedError", [], 1);
  ("_parse_not_implemented", "strformat", [], 1);
  ("_parse_shape", "float", [], 2);
  ("_parse_shape", "index", [], 3);
  ("_parse_shape", "index_store", [], 2);
  ("_parse_shape", "raise:StructureFormatError", [], 1);
  ("_parse_shape", "strformat", [], 1);
  ("_parse_spcgr", "index_store", [], 1);
  ("parseLines", "call:Lattice", [1], 1);
  ("parseLines", "call:_parse_atom", [1], 1);
  ("parseLines", "call:placeInLattice", [1], 1);
  ("parseLines", "call:reduce", [1], 1);
  ("parseLines", "call:rp", [1], 1);
  ("parseLines", "index", [1], 11);
  ("parseLines", "index_store", [1], 1);
  ("parseLines", "raise:StructureFormatError", [], 1);
  ("parseLines", "raise:StructureFormatError", [1], 2);
  ("parseLines", "strformat", [], 1);
  ("parseLines", "strformat", [1], 2)
].

Definition pdb_sites_expected : list site := [
  ("parseLines", "call:addNewAtom", [1], 1);
  ("parseLines", "call:dot", [1], 1);
  ("parseLines", "call:inv", [1], 1);
  ("parseLines", "call:setLatBase", [1], 1);
  ("parseLines", "call:setLatPar", [1], 1);
  ("parseLines", "div", [1], 1);
  ("parseLines", "div", [3; 1], 1);
  ("parseLines", "div", [5; 1], 1);
  ("parseLines", "float", [1], 16);
  ("parseLines", "float", [2; 1], 1);
  ("parseLines", "float", [3; 1], 1);
  ("parseLines", "float", [4; 1], 1);
  ("parseLines", "float", [5; 1], 1);
  ("parseLines", "index", [1], 9);
  ("parseLines", "index_store", [1], 20);
  ("parseLines", "none_use:last_atom", [1], 13);
  ("parseLines", "none_use:sc", [1], 2);
  ("parseLines", "raise:NotImplementedError", [1], 1);
  ("parseLines", "raise:StructureFormatError", [], 1);
  ("parseLines", "raise:StructureFormatError", [1], 4);
  ("parseLines", "strformat", [], 1);
  ("parseLines", "strformat", [1], 5)
].

Definition xcfg_sites_expected : list site := [
  ("_assign_auxiliaries", "call:getattr", [], 1);
  ("_assign_auxiliaries", "call:setattr", [], 2);
  ("_assign_auxiliaries", "index", [], 7);
  ("_assign_auxiliaries", "raise:StructureFormatError", [], 1);
  ("_assign_auxiliaries", "strformat", [], 1);
  ("parseLines", "call:_assign_auxiliaries", [1], 1);
  ("parseLines", "call:addNewAtom", [1], 1);
  ("parseLines", "call:max", [1], 1);
  ("parseLines", "call:setLatBase", [1], 1);
  ("parseLines", "float", [1], 3);
  ("parseLines", "index", [1], 11);
  ("parseLines", "index_store", [1], 4);
  ("parseLines", "int", [1], 5);
  ("parseLines", "raise:StructureFormatError", [], 1);
  ("parseLines", "raise:StructureFormatError", [1], 6);
  ("parseLines", "strformat", [], 1);
  ("parseLines", "strformat", [1], 5);
  ("parseLines", "unbound:p_natoms", [1], 2)
].

Definition cif_sites_expected : list site := [
  ("_expandAsymmetricUnit", "call:Atom", [], 1);
  ("_expandAsymmetricUnit", "call:ExpandAsymmetricUnit", [], 1);
  ("_expandAsymmetricUnit", "index", [], 5);
  ("_expandAsymmetricUnit", "index_store", [], 1);
  ("_get_atom_setters", "call:getattr", [], 1);
  ("_parseCifBlock", "call:_parse_atom_site_aniso_label", [], 1);
  ("_parseCifBlock", "call:_parse_atom_site_label", [], 1);
  ("_parseCifBlock", "call:_parse_lattice", [], 1);
  ("_parseCifBlock", "call:_parse_space_group_symop_operation_xyz", [], 1);
  ("_parseCifBlock", "index", [], 1);
  ("_parseCifDataSource", "call:CifFile", [1], 1);
  ("_parseCifDataSource", "call:_parseCifBlock", [1], 1);
  ("_parseCifDataSource", "call:_suppressCifParserOutput", [1], 1);
  ("_parseCifDataSource", "raise:StructureFormatError", [], 1);
  ("_parseSymOpTranslation", "call:ValueError", [], 2);
  ("_parseSymOpTranslation", "call:findall", [], 1);
  ("_parseSymOpTranslation", "div", [], 1);
  ("_parseSymOpTranslation", "float", [], 4);
  ("_parseSymOpTranslation", "raise:ValueError", [], 2);
  ("_parseSymOpTranslation", "strformat", [], 2);
  ("_parse_atom_site_aniso_label", "call:GetLoop", [], 1);
  ("_parse_atom_site_aniso_label", "call:_get_atom_setters", [], 1);
  ("_parse_atom_site_aniso_label", "call:fset", [], 1);
  ("_parse_atom_site_aniso_label", "call:index", [], 1);
  ("_parse_atom_site_aniso_label", "index", [], 3);
  ("_parse_atom_site_aniso_label", "index_store", [], 1);
  ("_parse_atom_site_label", "call:GetLoop", [], 1);
  ("_parse_atom_site_label", "call:_get_atom_setters", [], 1);
  ("_parse_atom_site_label", "call:addNewAtom", [], 1);
  ("_parse_atom_site_label", "call:fset", [], 1);
  ("_parse_atom_site_label", "call:index", [], 1);
  ("_parse_atom_site_label", "index", [], 1);
  ("_parse_atom_site_label", "index_store", [], 2);
  ("_parse_lattice", "call:Lattice", [], 1);
  ("_parse_lattice", "call:leading_float", [1], 6);
  ("_parse_lattice", "index", [1], 6);
  ("_parse_lattice", "raise:StructureFormatError", [], 1);
  ("_parse_space_group_symop_operation_xyz", "call:FindSpaceGroup", [1], 1);
  ("_parse_space_group_symop_operation_xyz", "call:GetLoop", [], 1);
  ("_parse_space_group_symop_operation_xyz", "call:GetSpaceGroup", [], 1);
  ("_parse_space_group_symop_operation_xyz", "call:IsSpaceGroupIdentifier", [], 1);
  ("_parse_space_group_symop_operation_xyz", "call:SpaceGroup", [], 1);
  ("_parse_space_group_symop_operation_xyz", "call:_expandAsymmetricUnit", [], 1);
  ("_parse_space_group_symop_operation_xyz", "call:getSymOp", [], 1);
  ("_parse_space_group_symop_operation_xyz", "index", [], 2);
  ("_parse_space_group_symop_operation_xyz", "raise:StructureFormatError", [], 1);
  ("_tr_atom_site_B_iso_or_equiv", "call:leading_float", [], 1);
  ("_tr_atom_site_U_iso_or_equiv", "call:leading_float", [], 1);
  ("_tr_atom_site_aniso_B_11", "call:leading_float", [], 1);
  ("_tr_atom_site_aniso_B_12", "call:leading_float", [], 1);
  ("_tr_atom_site_aniso_B_13", "call:leading_float", [], 1);
  ("_tr_atom_site_aniso_B_22", "call:leading_float", [], 1);
  ("_tr_atom_site_aniso_B_23", "call:leading_float", [], 1);
  ("_tr_atom_site_aniso_B_33", "call:leading_float", [], 1);
  ("_tr_atom_site_aniso_U_11", "call:leading_float", [], 1);
  ("_tr_atom_site_aniso_U_12", "call:leading_float", [], 1);
  ("_tr_atom_site_aniso_U_13", "call:leading_float", [], 1);
  ("_tr_atom_site_aniso_U_22", "call:leading_float", [], 1);
  ("_tr_atom_site_aniso_U_23", "call:leading_float", [], 1);
  ("_tr_atom_site_aniso_U_33", "call:leading_float", [], 1);
  ("_tr_atom_site_cartn_x", "call:leading_float", [], 1);
  ("_tr_atom_site_cartn_x", "index_store", [], 1);
  ("_tr_atom_site_cartn_y", "call:leading_float", [], 1);
  ("_tr_atom_site_cartn_y", "index_store", [], 1);
  ("_tr_atom_site_cartn_z", "call:leading_float", [], 1);
  ("_tr_atom_site_cartn_z", "index_store", [], 1);
  ("_tr_atom_site_fract_x", "call:leading_float", [], 1);
  ("_tr_atom_site_fract_x", "index_store", [], 1);
  ("_tr_atom_site_fract_y", "call:leading_float", [], 1);
  ("_tr_atom_site_fract_y", "index_store", [], 1);
  ("_tr_atom_site_fract_z", "call:leading_float", [], 1);
  ("_tr_atom_site_fract_z", "index_store", [], 1);
  ("_tr_atom_site_label", "call:_tr_atom_site_type_symbol", [], 1);
  ("_tr_atom_site_occupancy", "call:leading_float", [], 1);
  ("getSymOp", "call:SymOp", [], 1);
  ("getSymOp", "call:_parseSymOpTranslation", [], 1);
  ("getSymOp", "index", [], 2);
  ("getSymOp", "index_store", [], 2);
  ("leading_float", "float", [], 2);
  ("parse", "call:_parseCifDataSource", [], 1);
  ("parseFile", "call:_parseCifDataSource", [], 1);
  ("parseLines", "call:parse", [], 1)
].

