(* C13 - the raising-site layout of every reader that the models in Model/C13_*.v account for.
   Written by `python -m translate.c13_exc --write-expected` from a reviewed tree; compared by reflexivity with the
   layout regenerated from the current source (Gen/C13_ExcSpec.v) in Props/C13.v. *)
From Coq Require Import List String.
From DS Require Import Base.C13_Exn Gen.C13_ExcSpec.
Import ListNotations.
Open Scope string_scope.

Definition xyz_guards_expected : list (string * string) := [("parseLines", "len(v5) == 0 or v5[0] == '#'"); ("parseLines", "v14 > v4 and len(v2[v14 - 1]) == 0"); ("parseLines", "v15 != 4"); ("parseLines", "v8 == 0 or v4 >= v14"); ("parseLines", "v8 is not None and len(v3) != v8")].
Definition xyz_sites_expected : list site := [
  ("parseLines", "call:addNewAtom", [2], 1);
  ("parseLines", "float", [2], 1);
  ("parseLines", "index", [], 3);
  ("parseLines", "index", [1], 4);
  ("parseLines", "index", [2], 2);
  ("parseLines", "int", [1], 2);
  ("parseLines", "raise:StructureFormatError", [], 4);
  ("parseLines", "raise:StructureFormatError", [1], 1);
  ("parseLines", "raise:StructureFormatError", [2], 1);
  ("parseLines", "strformat", [], 4);
  ("parseLines", "strformat", [1], 1);
  ("parseLines", "strformat", [2], 1)
].

Definition rawxyz_guards_expected : list (string * string) := [("parseLines", "len(v5) == 0 or v5[0] == '#'"); ("parseLines", "v4 >= v6"); ("parseLines", "v6 > v4 and len(v2[v6 - 1]) == 0"); ("parseLines", "v7[:3] == [True, True, True]"); ("parseLines", "v7[:4] == [False, True, True, True]"); ("parseLines", "v8 not in (3, 4)")].
Definition rawxyz_sites_expected : list site := [
  ("parseLines", "call:addNewAtom", [1], 1);
  ("parseLines", "float", [1], 1);
  ("parseLines", "index", [], 4);
  ("parseLines", "index", [1], 1);
  ("parseLines", "raise:StructureFormatError", [], 3);
  ("parseLines", "raise:StructureFormatError", [1], 1);
  ("parseLines", "strformat", [], 3);
  ("parseLines", "strformat", [1], 1)
].

Definition pdffit_guards_expected : list (string * string) := [("_parse_shape", "v4 == 'sphere'"); ("_parse_shape", "v4 == 'stepcut'")].
Definition pdffit_sites_expected : list site := [
  ("_parse_shape", "assert", [], 1);
  ("_parse_shape", "float", [], 2);
  ("_parse_shape", "index", [], 4);
  ("_parse_shape", "index_store", [], 2);
  ("_parse_shape", "raise:StructureFormatError", [], 1);
  ("_parse_shape", "strformat", [], 1);
  ("parseLines", "call:Lattice", [1], 2);
  ("parseLines", "call:_parse_shape", [1], 1);
  ("parseLines", "call:addNewAtom", [1], 1);
  ("parseLines", "call:placeInLattice", [1], 1);
  ("parseLines", "call:reduce", [1], 1);
  ("parseLines", "float", [1], 20);
  ("parseLines", "index", [1], 44);
  ("parseLines", "index_store", [1], 30);
  ("parseLines", "int", [1], 1);
  ("parseLines", "next", [1], 5);
  ("parseLines", "raise:StructureFormatError", [], 1);
  ("parseLines", "raise:StructureFormatError", [1], 4);
  ("parseLines", "strformat", [], 1);
  ("parseLines", "strformat", [1], 4);
  ("parseLines", "unbound:latpars", [1], 2)
].

Definition discus_guards_expected : list (string * string) := [("_linesIterator", "v1 > 0 and v0.lines[v1 - 1].strip() == ''"); ("_parse_format", "v1[1] == 'pdffit'"); ("_parse_shape", "v4 == 'sphere'"); ("_parse_shape", "v4 == 'stepcut'")].
Definition discus_sites_expected : list site := [
  ("_linesIterator", "index", [], 1);
  ("_parse_atom", "call:addNewAtom", [], 1);
  ("_parse_atom", "float", [], 2);
  ("_parse_atom", "index", [], 3);
  ("_parse_cell", "call:setLatPar", [1], 1);
  ("_parse_cell", "float", [], 1);
  ("_parse_cell", "raise:StructureFormatError", [], 1);
  ("_parse_cell", "strformat", [], 1);
  ("_parse_format", "index", [], 1);
  ("_parse_format", "raise:StructureFormatError", [], 1);
  ("_parse_format", "strformat", [], 1);
  ("_parse_ncell", "index_store", [], 1);
  ("_parse_ncell", "int", [], 1);
  ("_parse_not_implemented", "index", [], 1);
  ("_parse_not_implemented", "raise:NotImplementedError", [], 1);
  ("_parse_not_implemented", "strformat", [], 1);
  ("_parse_shape", "float", [], 2);
  ("_parse_shape", "index", [], 3);
  ("_parse_shape", "index_store", [], 2);
  ("_parse_shape", "raise:StructureFormatError", [], 1);
  ("_parse_shape", "strformat", [], 1);
  ("_parse_spcgr", "index_store", [], 1);
  ("parseLines", "call:Lattice", [1], 1);
  ("parseLines", "call:_parse_atom", [1], 1);
  ("parseLines", "call:placeInLattice", [1], 1);
  ("parseLines", "call:reduce", [1], 1);
  ("parseLines", "call:rp", [1], 1);
  ("parseLines", "index", [1], 11);
  ("parseLines", "index_store", [1], 1);
  ("parseLines", "raise:StructureFormatError", [], 1);
  ("parseLines", "raise:StructureFormatError", [1], 2);
  ("parseLines", "strformat", [], 1);
  ("parseLines", "strformat", [1], 2)
].

Definition pdb_guards_expected : list (string * string) := [("parseLines", "v9 in ('SCALE2', 'SCALE3') and v7 is None"); ("parseLines", "v9 in ('SIGATM', 'ANISOU', 'SIGUIJ') and v6 is None")].
Definition pdb_sites_expected : list site := [
  ("parseLines", "call:addNewAtom", [1], 1);
  ("parseLines", "call:dot", [1], 1);
  ("parseLines", "call:inv", [1], 1);
  ("parseLines", "call:setLatBase", [1], 1);
  ("parseLines", "call:setLatPar", [1], 1);
  ("parseLines", "div", [1], 1);
  ("parseLines", "div", [3; 1], 1);
  ("parseLines", "div", [5; 1], 1);
  ("parseLines", "float", [1], 16);
  ("parseLines", "float", [2; 1], 1);
  ("parseLines", "float", [3; 1], 1);
  ("parseLines", "float", [4; 1], 1);
  ("parseLines", "float", [5; 1], 1);
  ("parseLines", "index", [1], 9);
  ("parseLines", "index_store", [1], 20);
  ("parseLines", "none_use:last_atom", [1], 13);
  ("parseLines", "none_use:sc", [1], 2);
  ("parseLines", "raise:NotImplementedError", [1], 1);
  ("parseLines", "raise:StructureFormatError", [], 1);
  ("parseLines", "raise:StructureFormatError", [1], 4);
  ("parseLines", "strformat", [], 1);
  ("parseLines", "strformat", [1], 5)
].

Definition xcfg_guards_expected : list (string * string) := [("_assign_auxiliaries", "not v3"); ("_assign_auxiliaries", "v6 == 'Biso'"); ("_assign_auxiliaries", "v6 == 'Uiso'"); ("_assign_auxiliaries", "v6.startswith('_') or not isinstance(getattr(v0, v6, 0.0), float)"); ("_assign_auxiliaries", "v6[0] in 'BU' and all((d in '123' for d in v6[1:]))"); ("parseLines", "len(v26) == v7 and v25 is not None"); ("parseLines", "v13.strip()"); ("parseLines", "v2 is None"); ("parseLines", "v3 is None")].
Definition xcfg_sites_expected : list site := [
  ("_assign_auxiliaries", "call:getattr", [], 1);
  ("_assign_auxiliaries", "call:setattr", [], 2);
  ("_assign_auxiliaries", "index", [], 7);
  ("_assign_auxiliaries", "raise:StructureFormatError", [], 1);
  ("_assign_auxiliaries", "strformat", [], 1);
  ("parseLines", "call:_assign_auxiliaries", [1], 1);
  ("parseLines", "call:addNewAtom", [1], 1);
  ("parseLines", "call:max", [1], 1);
  ("parseLines", "call:setLatBase", [1], 1);
  ("parseLines", "float", [1], 3);
  ("parseLines", "index", [1], 11);
  ("parseLines", "index_store", [1], 4);
  ("parseLines", "int", [1], 5);
  ("parseLines", "raise:StructureFormatError", [], 1);
  ("parseLines", "raise:StructureFormatError", [1], 6);
  ("parseLines", "strformat", [], 1);
  ("parseLines", "strformat", [1], 5);
  ("parseLines", "unbound:p_natoms", [1], 2)
].

Definition cif_guards_expected : list (string * string) := [("_expandAsymmetricUnit", "v12 > 0"); ("_expandAsymmetricUnit", "v3.anisotropy"); ("_expandAsymmetricUnit", "v5.label + '_' + str(v11) in v8"); ("_expandAsymmetricUnit", "v5.label not in v0.anisotropy"); ("_parseCifBlock", "'_atom_site_label' not in v2"); ("_parseCifDataSource", "v0.stru is not None"); ("_parseSymOpTranslation", "not _rx_symop_translation.match(v0)"); ("_parseSymOpTranslation", "v4 and float(v4) == 0"); ("_parse_atom_site_aniso_label", "'_atom_site_aniso_label' not in v1"); ("_parse_atom_site_aniso_label", "v7 == '?'"); ("_parse_atom_site_aniso_label", "v7 not in v0.anisotropy"); ("_parse_atom_site_label", "v11 == '?'"); ("_parse_atom_site_label", "v3"); ("_parse_lattice", "'_cell_length_a' not in v1"); ("_parse_space_group_symop_operation_xyz", "v0.spacegroup is None"); ("_parse_space_group_symop_operation_xyz", "v0.spacegroup is None and v10 and IsSpaceGroupIdentifier(v10)"); ("_parse_space_group_symop_operation_xyz", "v3"); ("_parse_space_group_symop_operation_xyz", "v4"); ("_parse_space_group_symop_operation_xyz", "v4 and v0.spacegroup is None"); ("_tr_atom_site_label", "not v0.element"); ("leading_float", "v2 == '.' or v2 == '?'"); ("leading_float", "v3")].
Definition cif_sites_expected : list site := [
  ("_expandAsymmetricUnit", "call:Atom", [], 1);
  ("_expandAsymmetricUnit", "call:ExpandAsymmetricUnit", [], 1);
  ("_expandAsymmetricUnit", "index", [], 5);
  ("_expandAsymmetricUnit", "index_store", [], 1);
  ("_get_atom_setters", "call:getattr", [], 1);
  ("_parseCifBlock", "call:_parse_atom_site_aniso_label", [], 1);
  ("_parseCifBlock", "call:_parse_atom_site_label", [], 1);
  ("_parseCifBlock", "call:_parse_lattice", [], 1);
  ("_parseCifBlock", "call:_parse_space_group_symop_operation_xyz", [], 1);
  ("_parseCifBlock", "index", [], 1);
  ("_parseCifDataSource", "call:CifFile", [1], 1);
  ("_parseCifDataSource", "call:_parseCifBlock", [1], 1);
  ("_parseCifDataSource", "call:_suppressCifParserOutput", [1], 1);
  ("_parseCifDataSource", "raise:StructureFormatError", [], 1);
  ("_parseSymOpTranslation", "call:ValueError", [], 2);
  ("_parseSymOpTranslation", "call:findall", [], 1);
  ("_parseSymOpTranslation", "div", [], 1);
  ("_parseSymOpTranslation", "float", [], 4);
  ("_parseSymOpTranslation", "raise:ValueError", [], 2);
  ("_parseSymOpTranslation", "strformat", [], 2);
  ("_parse_atom_site_aniso_label", "call:GetLoop", [], 1);
  ("_parse_atom_site_aniso_label", "call:_get_atom_setters", [], 1);
  ("_parse_atom_site_aniso_label", "call:fset", [], 1);
  ("_parse_atom_site_aniso_label", "call:index", [], 1);
  ("_parse_atom_site_aniso_label", "index", [], 3);
  ("_parse_atom_site_aniso_label", "index_store", [], 1);
  ("_parse_atom_site_label", "call:<expr>", [], 1);
  ("_parse_atom_site_label", "call:GetLoop", [], 1);
  ("_parse_atom_site_label", "call:_get_atom_setters", [], 1);
  ("_parse_atom_site_label", "call:addNewAtom", [], 1);
  ("_parse_atom_site_label", "call:index", [], 1);
  ("_parse_atom_site_label", "index", [], 5);
  ("_parse_atom_site_label", "index_store", [], 2);
  ("_parse_lattice", "call:Lattice", [], 1);
  ("_parse_lattice", "call:leading_float", [1], 6);
  ("_parse_lattice", "index", [1], 6);
  ("_parse_lattice", "raise:StructureFormatError", [], 1);
  ("_parse_space_group_symop_operation_xyz", "call:FindSpaceGroup", [1], 1);
  ("_parse_space_group_symop_operation_xyz", "call:GetLoop", [], 1);
  ("_parse_space_group_symop_operation_xyz", "call:GetSpaceGroup", [], 1);
  ("_parse_space_group_symop_operation_xyz", "call:IsSpaceGroupIdentifier", [], 1);
  ("_parse_space_group_symop_operation_xyz", "call:SpaceGroup", [], 1);
  ("_parse_space_group_symop_operation_xyz", "call:_expandAsymmetricUnit", [], 1);
  ("_parse_space_group_symop_operation_xyz", "call:getSymOp", [], 1);
  ("_parse_space_group_symop_operation_xyz", "index", [], 2);
  ("_parse_space_group_symop_operation_xyz", "raise:StructureFormatError", [], 1);
  ("_tr_atom_site_B_iso_or_equiv", "call:leading_float", [], 1);
  ("_tr_atom_site_U_iso_or_equiv", "call:leading_float", [], 1);
  ("_tr_atom_site_aniso_B_11", "call:leading_float", [], 1);
  ("_tr_atom_site_aniso_B_12", "call:leading_float", [], 1);
  ("_tr_atom_site_aniso_B_13", "call:leading_float", [], 1);
  ("_tr_atom_site_aniso_B_22", "call:leading_float", [], 1);
  ("_tr_atom_site_aniso_B_23", "call:leading_float", [], 1);
  ("_tr_atom_site_aniso_B_33", "call:leading_float", [], 1);
  ("_tr_atom_site_aniso_U_11", "call:leading_float", [], 1);
  ("_tr_atom_site_aniso_U_12", "call:leading_float", [], 1);
  ("_tr_atom_site_aniso_U_13", "call:leading_float", [], 1);
  ("_tr_atom_site_aniso_U_22", "call:leading_float", [], 1);
  ("_tr_atom_site_aniso_U_23", "call:leading_float", [], 1);
  ("_tr_atom_site_aniso_U_33", "call:leading_float", [], 1);
  ("_tr_atom_site_cartn_x", "call:leading_float", [], 1);
  ("_tr_atom_site_cartn_x", "index_store", [], 1);
  ("_tr_atom_site_cartn_y", "call:leading_float", [], 1);
  ("_tr_atom_site_cartn_y", "index_store", [], 1);
  ("_tr_atom_site_cartn_z", "call:leading_float", [], 1);
  ("_tr_atom_site_cartn_z", "index_store", [], 1);
  ("_tr_atom_site_fract_x", "call:leading_float", [], 1);
  ("_tr_atom_site_fract_x", "index_store", [], 1);
  ("_tr_atom_site_fract_y", "call:leading_float", [], 1);
  ("_tr_atom_site_fract_y", "index_store", [], 1);
  ("_tr_atom_site_fract_z", "call:leading_float", [], 1);
  ("_tr_atom_site_fract_z", "index_store", [], 1);
  ("_tr_atom_site_label", "call:_tr_atom_site_type_symbol", [], 1);
  ("_tr_atom_site_occupancy", "call:leading_float", [], 1);
  ("getSymOp", "call:SymOp", [], 1);
  ("getSymOp", "call:_parseSymOpTranslation", [], 1);
  ("getSymOp", "index", [], 2);
  ("getSymOp", "index_store", [], 2);
  ("leading_float", "float", [], 2);
  ("parse", "call:_parseCifDataSource", [], 1);
  ("parseFile", "call:_parseCifDataSource", [], 1);
  ("parseLines", "call:parse", [], 1)
].

