(* Space-group lookup: dictionary with first-wins setdefault, Python string primitives used by
   GetSpaceGroup, the builder phases the translator emits, and the operation-list fingerprint. *)
From Coq Require Import ZArith List Bool Ascii String DecimalString.
From DS Require Import Base.ZMat Base.SGDefs.
Import ListNotations.
Open Scope Z_scope.

Inductive key := KNum (n : Z) | KStr (s : string).
Definition key_eqb (a b : key) : bool :=
  match a, b with KNum x, KNum y => x =? y | KStr x, KStr y => String.eqb x y | _, _ => false end.
Definition table := list (key * setting).        (* insertion order; keys unique *)
Fixpoint lookup (T : table) (k : key) : option setting :=
  match T with [] => None | (k', v) :: r => if key_eqb k' k then Some v else lookup r k end.
Definition setdefault (T : table) (k : key) (v : setting) : table :=
  match lookup T k with Some _ => T | None => T ++ [(k, v)] end.

(* --- Python str primitives (ASCII) --- *)
Definition is_space (c : ascii) : bool :=
  let n := nat_of_ascii c in ((9 <=? n) && (n <=? 13) || (28 <=? n) && (n <=? 32))%nat.
Fixpoint lstrip (s : string) : string :=
  match s with String c r => if is_space c then lstrip r else s | EmptyString => EmptyString end.
Fixpoint rev_str (s acc : string) : string := match s with EmptyString => acc | String c r => rev_str r (String c acc) end.
Definition py_strip (s : string) : string := rev_str (lstrip (rev_str (lstrip s) EmptyString)) EmptyString.
Fixpoint py_remove_spaces (s : string) : string :=
  match s with EmptyString => EmptyString | String c r => if Ascii.eqb c " "%char then py_remove_spaces r else String c (py_remove_spaces r) end.
Definition up_c (c : ascii) : ascii := let n := nat_of_ascii c in if ((97 <=? n) && (n <=? 122))%nat then ascii_of_nat (n - 32) else c.
Definition low_c (c : ascii) : ascii := let n := nat_of_ascii c in if ((65 <=? n) && (n <=? 90))%nat then ascii_of_nat (n + 32) else c.
Fixpoint map_str (f : ascii -> ascii) (s : string) : string := match s with EmptyString => EmptyString | String c r => String (f c) (map_str f r) end.
Definition py_upper := map_str up_c.
Definition py_lower := map_str low_c.
Definition py_first1 (s : string) : string := match s with String c _ => String c EmptyString | EmptyString => EmptyString end.
Definition py_from1 (s : string) : string := match s with String _ r => r | EmptyString => EmptyString end.
Definition py_str_of_Z (z : Z) : string := NilZero.string_of_int (Z.to_int z).

(* --- builder --- *)
Inductive keykind := KKNumber | KKStrNumber | KKShort | KKPdb | KKPdbNoSpace | KKShortNoSpace.
Inductive phase := PLoop (ks : list keykind) | PAliases (al : list (string * string)).
Definition key_of (k : keykind) (s : setting) : key :=
  match k with
  | KKNumber => KNum (sg_number s) | KKStrNumber => KStr (py_str_of_Z (sg_number s))
  | KKShort => KStr (sg_short s) | KKPdb => KStr (sg_pdb s)
  | KKPdbNoSpace => KStr (py_remove_spaces (sg_pdb s)) | KKShortNoSpace => KStr (py_remove_spaces (sg_short s))
  end.
Definition run_phase (all : list setting) (T : option table) (p : phase) : option table :=
  match T with None => None | Some T =>
  match p with
  | PLoop ks => Some (fold_left (fun T s => fold_left (fun T k => setdefault T (key_of k s) s) ks T) all T)
  | PAliases al => fold_left (fun T ah => match T with None => None | Some T =>
        match lookup T (KStr (py_remove_spaces (snd ah))) with Some s => Some (setdefault T (KStr (fst ah)) s) | None => None end end) al (Some T)
  end end.
Definition build_table (all : list setting) (b : list phase) : option table := fold_left (run_phase all) b (Some []).

(* --- operation lists: str(SymOp) renders the 12 numbers with %6.3f --- *)
(* translations are stored x12; round(1000 k/12) is never a tie (250k/3 is never a half-integer) *)
Definition round1000 (k : Z) : Z := (2000 * k + 12) / 24.
Definition op_key (o : symop) : list Z := map (fun x => 1000 * x) (m3_entries (fst o)) ++ map round1000 (v3_entries (snd o)).
Fixpoint lz_compare (a b : list Z) : comparison :=
  match a, b with [], [] => Eq | [], _ => Lt | _, [] => Gt | x :: r, y :: s => match x ?= y with Eq => lz_compare r s | c => c end end.
Definition lz_leb (a b : list Z) : bool := match lz_compare a b with Gt => false | _ => true end.
Definition lz_eqb (a b : list Z) : bool := match lz_compare a b with Eq => true | _ => false end.
Fixpoint insert (x : list Z) (l : list (list Z)) : list (list Z) :=
  match l with [] => [x] | y :: r => if lz_leb x y then x :: l else y :: insert x r end.
Definition isort (l : list (list Z)) : list (list Z) := fold_right insert [] l.
Definition fingerprint (ops : list symop) : list (list Z) := isort (map op_key ops).
Fixpoint fp_eqb (a b : list (list Z)) : bool :=
  match a, b with [], [] => true | x :: r, y :: s => lz_eqb x y && fp_eqb r s | _, _ => false end.

(* the hash table: one entry per setting, a later setting with the same fingerprint would overwrite *)
Definition fp_table (all : list setting) : list (list (list Z) * setting) := map (fun s => (fingerprint (sg_ops s), s)) all.
Fixpoint fp_lookup_last (tb : list (list (list Z) * setting)) (fp : list (list Z)) (acc : option setting) : option setting :=
  match tb with [] => acc | (f, s) :: r => fp_lookup_last r fp (if fp_eqb f fp then Some s else acc) end.
(* FindSpaceGroup: Some (setting, same_order?) ; the returned operation list is the caller's when the order differs *)
Definition same_order (a b : list symop) : bool := fp_eqb (map op_key a) (map op_key b).
Definition find_space_group (all : list setting) (ops : list symop) : option (setting * bool) :=
  match fp_lookup_last (fp_table all) (fingerprint ops) None with
  | Some s => Some (s, same_order (sg_ops s) ops) | None => None end.

(* --- spelling variants of an identifier (the grammar the theorems quantify over) --- *)
Fixpoint intersperse_sp (s : string) : string :=
  match s with EmptyString => EmptyString | String c EmptyString => s | String c r => String c (String " " (intersperse_sp r)) end.
Fixpoint double_sp (s : string) : string :=
  match s with EmptyString => EmptyString | String c r => if Ascii.eqb c " "%char then String " " (String " " (double_sp r)) else String c (double_sp r) end.
(* first letter lower-case, the rest upper-case *)
Definition swapcase1 (s : string) : string := (py_lower (py_first1 s) ++ py_upper (py_from1 s))%string.
Definition variants (n : string) : list string :=
  [ n; py_lower n; py_upper n; ("  " ++ n ++ " ")%string; py_remove_spaces n; intersperse_sp (py_remove_spaces n); double_sp n;
    py_lower (py_remove_spaces n); py_upper (intersperse_sp (py_remove_spaces n));
    py_lower (intersperse_sp (py_remove_spaces n)); py_lower (double_sp n); py_lower ("  " ++ n ++ " ")%string; py_upper (double_sp n);
    swapcase1 n; swapcase1 (intersperse_sp (py_remove_spaces n)) ].
Definition norm_id (s : string) : string := py_lower (py_remove_spaces s).
Definition carries (s : setting) (n : string) : bool :=
  String.eqb (norm_id (sg_short s)) (norm_id n) || String.eqb (norm_id (sg_pdb s)) (norm_id n).
