(* placeInLattice on a list of atoms (the container part: every atom is visited once, gets the new lattice). *)
From Coq Require Import Reals List Bool.
From DS Require Import Base.RMat Base.Trig Model.LatDefs Gen.C14_Place.
Import ListNotations.
Open Scope R_scope.

Record atom := { at_id : nat; at_xyz : vec; at_aniso : bool; at_U : mat (* storage _U *); at_occ : R; at_lat : nat (* lattice identity *) }.

Definition place_atom (Lold Lnew : lat) (newid : nat) (a : atom) : atom :=
  {| at_id := at_id a; at_xyz := place_xyz Lold Lnew (at_xyz a); at_aniso := at_aniso a;
     at_U := if at_aniso a then place_U Lold Lnew (at_U a) else at_U a;
     at_occ := at_occ a; at_lat := newid |}.
Definition place_in_lattice (Lold Lnew : lat) (newid : nat) (atoms : list atom) : list atom := map (place_atom Lold Lnew newid) atoms.

(* what an observer computes *)
Definition cart (L : lat) (a : atom) : vec := vmul (at_xyz a) (l_base L).                       (* xyz_cartn *)
Definition ucart (L : lat) (U : mat) : mat := mmul (mT (l_normbase L)) (mmul U (l_normbase L)).      (* msdCart's Uc *)
(* tensor read through Atom.U: isotropic atoms report value * isotropicunit of their lattice *)
Definition read_U (L : lat) (a : atom) : mat := if at_aniso a then at_U a else mscale (a11 (at_U a)) (l_isotropicunit L).
Definition uiso_cart (L : lat) (a : atom) : R := if at_aniso a then mtrace (ucart L (at_U a)) / 3 else a11 (at_U a).

(* a chain of lattices: place into each in turn *)
Fixpoint place_chain (L : lat) (chain : list lat) (a : atom) : atom :=
  match chain with [] => a | L' :: rest => place_chain L' rest (place_atom L L' 0%nat a) end.
