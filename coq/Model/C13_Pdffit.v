(* C13 - model of P_pdffit.parseLines (p_pdffit.py:67-181) in the exception monad.

   Everything of the method sits inside one try; its caught tuple is pdffit_parseLines_try1_caught.
   `cell_line_read` and `latpars` are set by the same branch (the flag first, the list before any later
   statement can observe the flag), so the model keeps one option: Some pars <-> cell_line_read. *)
From Coq Require Import List Bool Arith ZArith.
From DS Require Import Base.C13_Exn Gen.C13_ExcSpec Model.C13_Common.
From Coq Require Import Ascii String.
Import ListNotations.

Section PDFFIT.
  Variable V : Type.
  Variable split : string -> list string.            (* s.split() *)
  Variable split_commas : string -> list string.     (* s.replace(",", " ").split() *)
  Variable isblank : string -> bool.                 (* s.strip() == "" *)
  Variable float_of : string -> res V.
  Variable int_of : string -> res Z.
  Variable lattice_of : list V -> res unit.          (* Lattice( *pars) *)
  Variable mulZ : V -> Z -> res V.                   (* float * int *)

  Record pst := { p_cell : option (list V); p_ncell : list Z }.

  Definition kw (w : string) (k : string) : bool := String.eqb w k.

  (* P_pdffit._parse_shape(line) *)
  Definition pdffit_shape (line : string) : res unit :=
    let words := split_commas line in
    _ <- idx words 0 ;;                       (* assert words[0] == "shape" : holds, see design note *)
    shapetype <- idx words 1 ;;
    if kw shapetype "sphere" then w <- idx words 2 ;; _ <- float_of w ;; Ok tt
    else if kw shapetype "stepcut" then w <- idx words 2 ;; _ <- float_of w ;; Ok tt
    else Raise FormatError.

  (* one header line; the boolean says `break` *)
  Definition pdffit_header_line (st : pst) (line : string) : res (pst * bool) :=
    let words := split line in
    match words with
    | [] => Ok (st, false)
    | w0 :: _ =>
      c <- str_head w0 ;;
      if Ascii.eqb c hash_char then Ok (st, false)
      else if kw w0 "title" then Ok (st, false)
      else if kw w0 "scale" then w1 <- idx words 1 ;; _ <- float_of w1 ;; Ok (st, false)
      else if kw w0 "sharp" then
        pars <- mapM float_of (skipn 1 (split_commas line)) ;;
        if Nat.ltb (List.length pars) 4
        then _ <- idx pars 0 ;; _ <- idx pars 1 ;; _ <- idx pars 2 ;; Ok (st, false)
        else _ <- idx pars 0 ;; _ <- idx pars 1 ;; _ <- idx pars 2 ;; _ <- idx pars 3 ;; Ok (st, false)
      else if kw w0 "spcgr" then Ok (st, false)
      else if kw w0 "shape" then _ <- pdffit_shape line ;; Ok (st, false)
      else if kw w0 "cell" then
        pars <- mapM float_of (slice (split_commas line) 1 7) ;;
        _ <- lattice_of pars ;;
        Ok ({| p_cell := Some pars; p_ncell := p_ncell st |}, false)
      else if kw w0 "dcell" then
        ds <- mapM float_of (slice (split_commas line) 1 7) ;;
        if negb (Nat.eqb (List.length ds) 6) then Raise FormatError else Ok (st, false)
      else if kw w0 "ncell" then
        ns <- mapM int_of (slice (split_commas line) 1 5) ;;
        Ok ({| p_cell := p_cell st; p_ncell := ns |}, false)
      else if kw w0 "format" then
        w1 <- idx words 1 ;;
        if negb (kw w1 "pdffit") then Raise FormatError else Ok (st, false)
      else if kw w0 "atoms" && (match p_cell st with Some _ => true | None => false end) then Ok (st, true)
      else Ok (st, false)
    end.

  Fixpoint pdffit_header (st : pst) (rest : list string) : res (pst * list string) :=
    match rest with
    | [] => Ok (st, [])
    | line :: rest' =>
        r <- pdffit_header_line st line ;;
        if snd r then Ok (fst r, rest') else pdffit_header (fst r) rest'
    end.

  Definition three_floats (ws : list string) : res unit :=
    a <- idx ws 0 ;; _ <- float_of a ;; b <- idx ws 1 ;; _ <- float_of b ;; c <- idx ws 2 ;; _ <- float_of c ;; Ok tt.

  (* the atom loop: one line by the for statement, five more by next(ilines) *)
  Fixpoint pdffit_atoms (fuel : nat) (n : nat) (rest : list string) : res nat :=
    match fuel with
    | O => Ok n
    | S fuel' =>
      match rest with
      | [] => Ok n
      | line :: r1 =>
        let wl1 := split line in
        w0 <- idx wl1 0 ;; _ <- str_head w0 ;;
        _ <- mapM float_of (slice wl1 1 4) ;;
        w4 <- idx wl1 4 ;; _ <- float_of w4 ;;
        l2 <- next_line r1 ;;
        let wl2 := split (fst l2) in
        _ <- mapM float_of (slice wl2 0 3) ;;
        w23 <- idx wl2 3 ;; _ <- float_of w23 ;;
        l3 <- next_line (snd l2) ;;
        l4 <- next_line (snd l3) ;;
        l5 <- next_line (snd l4) ;;
        l6 <- next_line (snd l5) ;;
        _ <- three_floats (split (fst l3)) ;;
        _ <- three_floats (split (fst l4)) ;;
        _ <- three_floats (split (fst l5)) ;;
        _ <- three_floats (split (fst l6)) ;;
        pdffit_atoms fuel' (S n) (snd l6)
      end
    end.

  Definition scaled_edge (pars : list V) (ncell : list Z) (i : nat) : res V :=
    p <- idx pars i ;; m <- idx ncell i ;; mulZ p m.

  Definition pdffit_body (lines : list string) : res nat :=
    stop <- trim_blank isblank (S (List.length lines)) lines (List.length lines) ;;
    hs <- pdffit_header {| p_cell := None; p_ncell := [1; 1; 1; 0]%Z |} (firstn stop lines) ;;
    let st := fst hs in
    match p_cell st with
    | None => Raise FormatError
    | Some latpars =>
      let natoms := Zprod (p_ncell st) in
      n <- pdffit_atoms (S (List.length lines)) 0 (snd hs) ;;
      if negb (Z.eqb (Z.of_nat n) natoms) then Raise FormatError
      else if negb (list_eqb_Z (firstn 3 (p_ncell st)) [1; 1; 1]%Z) then
        s0 <- scaled_edge latpars (p_ncell st) 0 ;;
        s1 <- scaled_edge latpars (p_ncell st) 1 ;;
        s2 <- scaled_edge latpars (p_ncell st) 2 ;;
        _ <- lattice_of (([s0; s1; s2] ++ skipn 3 latpars)%list) ;;
        Ok n
      else Ok n
    end.

  (* the method with an arbitrary except clause (used to replay the clause of the pinned tree) *)
  Definition parse_pdffit_gen (caught : list kind) (hk : handler_kind) (lines : list string) : res nat :=
    try_catch (pdffit_body lines) caught (reraise_handler hk).

  Definition parse_pdffit (lines : list string) : res nat :=
    parse_pdffit_gen pdffit_parseLines_try1_caught pdffit_parseLines_try1_handler lines.
End PDFFIT.
