(* C09 - the data an Atom's displacement-parameter code works on.
   `latdata` carries exactly the Lattice attributes that atom.py reads (the translator refuses any other);
   `astate` is Atom._U / Atom._anisotropy / Atom.lattice.  The method bodies are GENERATED into
   Gen/C09_AtomFormulas.v in state-passing style over these primitives. *)
From Coq Require Import ZArith Bool List.
From DS Require Import Base.C09_GNum.

Record latdata (T : Type) := LD {
  l_a : T; l_b : T; l_c : T;          (* Lattice.a/b/c  (properties returning _a/_b/_c) *)
  l_ar : T; l_br : T; l_cr : T;       (* reciprocal cell lengths *)
  l_ca : T; l_cb : T; l_cg : T;       (* cosines of the cell angles *)
  l_metrics : gmat T;                 (* Lattice.metrics *)
  l_base : gmat T;                    (* Lattice.base (read through Lattice.norm -> Lattice.cartesian) *)
  l_normbase : gmat T;                (* Lattice.normbase *)
  l_isotropicunit : gmat T;           (* Lattice.isotropicunit *)
  l_epsilon : T                       (* Lattice._epsilon *)
}.
Arguments LD {T}. Arguments l_a {T} _. Arguments l_b {T} _. Arguments l_c {T} _. Arguments l_ar {T} _. Arguments l_br {T} _.
Arguments l_cr {T} _. Arguments l_ca {T} _. Arguments l_cb {T} _. Arguments l_cg {T} _. Arguments l_metrics {T} _.
Arguments l_base {T} _. Arguments l_normbase {T} _. Arguments l_isotropicunit {T} _. Arguments l_epsilon {T} _.

Record astate (T : Type) := AS { st_U : gmat T; st_aniso : bool; st_lat : option (latdata T) }.
Arguments AS {T}. Arguments st_U {T} _. Arguments st_aniso {T} _. Arguments st_lat {T} _.

Definition set_stU {T} (s : astate T) (m : gmat T) : astate T := AS m (st_aniso s) (st_lat s).
Definition set_staniso {T} (s : astate T) (b : bool) : astate T := AS (st_U s) b (st_lat s).
Definition set_stlat {T} (s : astate T) (l : option (latdata T)) : astate T := AS (st_U s) (st_aniso s) l.

(* the module constant diffpy.structure.lattice.cartesian = Lattice(): unit cubic cell, identity orientation;
   compared field by field with the live object on every run *)
Definition cart_lat {T} (O : ops T) (eps : T) : latdata T :=
  LD (t1 O) (t1 O) (t1 O) (t1 O) (t1 O) (t1 O) (t0 O) (t0 O) (t0 O) (gI O) (gI O) (gI O) (gI O) eps.

(* Python `x or y` on an attribute that is None or a Lattice (Lattice defines neither __bool__ nor __len__:
   checked by the translator) *)
Definition lat_or {T} (l : option (latdata T)) (d : latdata T) : latdata T := match l with Some x => x | None => d end.

(* context of the generated definitions: number operations, numpy.pi, numpy.sqrt, and the module constant
   diffpy.structure.lattice.cartesian that atom.py falls back to when Atom.lattice is None *)
Record cctx (T : Type) := CC { cO : ops T; cpi : T; csqrt : T -> T; ccart : latdata T }.
Arguments CC {T}. Arguments cO {T} _. Arguments cpi {T} _. Arguments csqrt {T} _. Arguments ccart {T} _.

(* identity of the array objects behind Atom._U (WU) and Atom.xyz (WX): what a rebinding statement installs *)
Inductive which := WU | WX.
Inductive bindev :=
| BFresh (w : which)      (* a newly allocated array (numpy arithmetic, numpy.zeros, numpy.copy) *)
| BOwn (w : which)        (* the atom's own current array *)
| BParam (w : which)      (* an array object handed in by the caller *)
| BShareSrc (w : which).  (* the array of the atom being copied *)
