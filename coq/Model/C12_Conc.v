(* C12 - the parser models of C13 (Model/C13_Xyz.v, C13_Pdffit.v, C13_Discus.v) with their tokeniser and number
   oracles instantiated by the concrete codecs of C04 (Base/C04_Text.v: str.split, str.strip; Base/C04_Decimal.v:
   float(), int()), applied to lines given as C04 character lists.  Geometry (Lattice(...), setLatPar, float*int)
   stays abstract.  These are the functions `parse_g` of the rejection table: parse_g (print_f S). *)
From Coq Require Import List Bool Arith ZArith NArith.
From DS Require Import Base.C13_Exn Gen.C13_ExcSpec Model.C13_Common Model.C13_Xyz Model.C13_Pdffit Model.C13_Discus.
From DS Require Import Base.C04_Text Base.C04_Decimal Model.C04_Fmt.
From Coq Require Import Ascii String.
Import ListNotations.

Definition L2S (l : str) : string := string_of_list_ascii l.
Definition S2L (x : string) : str := list_ascii_of_string x.

Definition c_split (x : string) : list string := map L2S (split_ws (S2L x)).
Definition c_split_commas (x : string) : list string := map L2S (split_ws (c2s (S2L x))).
Definition c_isblank (x : string) : bool := match strip (S2L x) with [] => true | _ => false end.
Definition c_float (x : string) : res dec := match parse_float (S2L x) with Some d => Ok d | None => Raise ValueError end.
Definition c_int (x : string) : res Z := match parse_int (S2L x) with Some z => Ok z | None => Raise ValueError end.
Definition c_canon_int (x : string) : bool := is_canonical_int (S2L x).

Definition conc_xyz (ls : list str) : res nat := parse_xyz dec c_split c_int c_canon_int c_float (map L2S ls).
Definition conc_rawxyz (ls : list str) : res nat := parse_rawxyz dec c_split c_float (map L2S ls).

Section Geometry.
  Variable lattice_of : list dec -> res unit.                       (* Lattice( *pars) *)
  Variable mulZ : dec -> Z -> res dec.                              (* float * int *)
  Variable set_lat_par : list (list dec) -> list dec -> res unit.   (* lattice.setLatPar( *pars) *)
  Variable cell_pars : list (list dec) -> list dec.                 (* lattice.abcABG() *)

  Definition conc_pdffit (ls : list str) : res nat :=
    parse_pdffit dec c_split c_split_commas c_isblank c_float c_int lattice_of mulZ (map L2S ls).
  Definition conc_discus (ls : list str) : res nat :=
    parse_discus dec c_split c_split_commas c_isblank c_float c_int set_lat_par cell_pars lattice_of mulZ (map L2S ls).
End Geometry.

(* the parser rejects the text: the format error, or the documented not-implemented error that detection skips *)
Definition rejected {A} (r : res A) : Prop := r = Raise FormatError \/ r = Raise NotImplemented.

(* first blank-separated word of a line is not the word k *)
Definition first_word_is (k : string) (l : str) : bool :=
  match split_ws l with
  | w :: _ => str_eqb w (S2L k)
  | [] => false
  end.

(* ---- side conditions of the rejection table (on the written structure) ---------------------------- *)
From DS Require Import Gen.C04_FmtSpecs Model.C04_Xyz Model.C04_Rawxyz Model.C04_Pdffit Model.C04_Discus.

Definition word_is (k : string) (w : str) : bool := str_eqb w (S2L k).

(* xyz / rawxyz text: neither the title nor an element symbol reads as a `cell` record of the PDFfit/DISCUS formats *)
Definition elements_not_cell (atoms : list xatom) : bool := forallb (fun a => negb (word_is "cell" (xa_el a))) atoms.
Definition xyz_no_cell_word (S : xstru) : bool := negb (first_word_is "cell" (x_title S)) && elements_not_cell (x_atoms S).

(* discus text read by P_pdffit: an element symbol (written in upper case) must not read as a number.  C04's float()
   codec is the restricted grammar [sign] digits [. digits]; Python's float() also takes exponents and the words nan / inf /
   infinity, so the condition asks for more than the proof uses: the symbol starts with a letter A-Z and is none of those
   words (then Python's float() fails as well), and C04's parse_float rejects it (what the proof uses). *)
Definition is_AZ (c : ascii) : bool := let n := codeN c in N.leb 65 n && N.leb n 90.
Definition symbol_not_number (w : str) : bool :=
  match w with c :: _ => is_AZ c | [] => false end &&
  negb (word_is "NAN" w) && negb (word_is "INF" w) && negb (word_is "INFINITY" w) && negb (isfloat w).
Definition discus_elements_not_numbers (S : dstru) : bool :=
  forallb (fun a => symbol_not_number (map upper (da_el a))) (d_atoms S).
