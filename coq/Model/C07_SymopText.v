(* C07 - CIF symmetry-operator text.
   `get_symop` follows p_cif.getSymOp statement by statement:
     snoblanks = s.replace(" ", ""); eqlist = snoblanks.split(",")
     for i in 0,1,2:  eqparts = re.split("(?i)([+-]?[xyz])", eqlist[i])
         R[i] += symvec[part.lower()] for the odd parts;   t[i] += <number> for the even parts
     t -= floor(t)
   The even parts are read by the NUMERIC grammar (the repaired _parseSymOpTranslation; on the pinned tree the same
   strings go through eval("1.0*%s+0") and give the same value): empty, or  [sign] TERM ( sign TERM )...  with
   TERM = NUM [ "/" DIGITS ["." [DIGITS]] ],  NUM as in Model/C07_Text.v; a zero denominator or anything else is an
   error (None).  Values are exact rationals.
   `render` writes an operation of the tables as text in several spellings.  Definitions only. *)
From Coq Require Import ZArith List Bool QArith Qround Qabs Ascii String.
From DS Require Import Base.ZMat Base.SGDefs Model.GroupCheck Model.C11_LookupDefs Model.C07_Text.
Import ListNotations.
Open Scope Z_scope.

(* ---------------- numeric translation terms ---------------- *)
(* denominator  DIGITS ['.' [DIGITS]]  (no exponent, digits first) *)
Definition scan_den (s : string) : option (dec * string) :=
  let '(ip, r1) := span is_digit s in
  match ip with
  | EmptyString => None
  | String _ _ =>
      match r1 with
      | String c r2 =>
          if is_dot c then let '(fp, r3) := span is_digit r2 in Some (Dec (digits_val (digits_val 0 ip) fp) (- slen fp), r3)
          else Some (Dec (digits_val 0 ip) 0, r1)
      | EmptyString => Some (Dec (digits_val 0 ip) 0, r1)
      end
  end.

(* TERM: outer None = no number here; inner None = zero denominator *)
Definition scan_term (s : string) : option (option Q * string) :=
  match scan_num s with
  | None => None
  | Some (n, r) =>
      match r with
      | String c r1 =>
          if Ascii.eqb c "/"%char then
            match scan_den r1 with
            | Some (d, r2) => Some (if Qeq_bool (dec_Q d) 0 then None else Some (Qred (dec_Q n / dec_Q d)), r2)
            | None => Some (Some (dec_Q n), r)
            end
          else Some (Some (dec_Q n), r)
      | EmptyString => Some (Some (dec_Q n), r)
      end
  end.

Fixpoint sum_terms (fuel : nat) (s : string) (acc : Q) : option Q :=
  match s with
  | EmptyString => Some acc
  | String c r =>
      match fuel with
      | O => None
      | S f =>
          if is_sign c then
            match scan_term r with
            | Some (Some q, r') => sum_terms f r' (Qred (acc + inject_Z (sign_val c) * q))
            | _ => None
            end
          else None
      end
  end.

(* the constant part of one component *)
Definition parse_tpart (s : string) : option Q :=
  match s with
  | EmptyString => Some 0%Q
  | String _ _ =>
      let '(sg, r0) := take_sign s in
      match scan_term r0 with
      | Some (Some q, r') => sum_terms (String.length s) r' (Qred (inject_Z sg * q))
      | _ => None
      end
  end.

(* ---------------- re.split("(?i)([+-]?[xyz])", comp) ---------------- *)
Definition axis_of (c : ascii) : option nat :=
  let l := low_c c in
  if Ascii.eqb l "x"%char then Some 0%nat else if Ascii.eqb l "y"%char then Some 1%nat
  else if Ascii.eqb l "z"%char then Some 2%nat else None.
Definition row := (Z * Z * Z)%type.
Definition row_add (r : row) (sg : Z) (j : nat) : row :=
  let '(a, b, c) := r in match j with 0%nat => (a + sg, b, c) | 1%nat => (a, b + sg, c) | _ => (a, b, c + sg) end.
Definition snoc (s : string) (c : ascii) : string := (s ++ String c EmptyString)%string.

(* one pass: sum of the symvec entries of the odd parts, and the even parts in order *)
Fixpoint scan_comp (s : string) (cur : string) (r : row) (ts : list string) : row * list string :=
  match s with
  | EmptyString => (r, ts ++ [cur])
  | String c s1 =>
      match axis_of c with
      | Some j => scan_comp s1 EmptyString (row_add r 1 j) (ts ++ [cur])
      | None =>
          if is_sign c then
            match s1 with
            | String c2 s2 =>
                match axis_of c2 with
                | Some j => scan_comp s2 EmptyString (row_add r (sign_val c) j) (ts ++ [cur])
                | None => scan_comp s1 (snoc cur c) r ts
                end
            | EmptyString => scan_comp s1 (snoc cur c) r ts
            end
          else scan_comp s1 (snoc cur c) r ts
      end
  end.

Fixpoint sum_tparts (ts : list string) (acc : Q) : option Q :=
  match ts with
  | [] => Some acc
  | t :: r => match parse_tpart t with Some q => sum_tparts r (Qred (acc + q)) | None => None end
  end.

Definition parse_comp (s : string) : option (row * Q) :=
  let '(r, ts) := scan_comp s EmptyString (0, 0, 0) [] in
  match sum_tparts ts 0%Q with Some q => Some (r, q) | None => None end.

Fixpoint split_commas (s : string) (cur : string) : list string :=
  match s with
  | EmptyString => [cur]
  | String c r => if Ascii.eqb c ","%char then cur :: split_commas r EmptyString else split_commas r (snoc cur c)
  end.

Definition qmod1 (q : Q) : Q := Qred (q - inject_Z (Qfloor q)).

(* getSymOp: None stands for the ValueError / IndexError that P_cif turns into StructureFormatError.
   Components after the third are ignored, as in the code. *)
Definition get_symop (s : string) : option (m3 * (Q * Q * Q)) :=
  match split_commas (py_remove_spaces s) EmptyString with
  | c0 :: c1 :: c2 :: _ =>
      match parse_comp c0, parse_comp c1, parse_comp c2 with
      | Some ((a1, a2, a3), t0), Some ((b1, b2, b3), t1), Some ((c1', c2', c3), t2) =>
          Some (M3 a1 a2 a3 b1 b2 b3 c1' c2' c3, (qmod1 t0, qmod1 t1, qmod1 t2))
      | _, _, _ => None
      end
  | _ => None
  end.

(* translations of the tables are multiples of 1/12; text may carry decimals such as 0.333333:
   snap to the nearest twelfth when it is within 1e-4, otherwise the operation is outside this model *)
Definition snap_tol : Q := 12 # 10000.
Definition snap12 (q : Q) : option Z :=
  let k := Qfloor (q * 12 + (1 # 2)) in
  if Qle_bool (Qabs (q * 12 - inject_Z k)) snap_tol then Some (k mod 12) else None.
Definition to_symop (p : m3 * (Q * Q * Q)) : option symop :=
  let '(R, (t0, t1, t2)) := p in
  match snap12 t0, snap12 t1, snap12 t2 with
  | Some a, Some b, Some c => Some (R, V3 a b c)
  | _, _, _ => None
  end.
Definition parse_symop (s : string) : option symop :=
  match get_symop s with Some p => to_symop p | None => None end.

(* ---------------- rendering ---------------- *)
Inductive style := SPlain | STransFirst | SDecimal6 | SUpperBlanks | SLeadPlus | SRevVars | STwelfths | SNegTrans | SDecimal5.
Definition all_styles : list style := [SPlain; STransFirst; SDecimal6; SUpperBlanks; SLeadPlus; SRevVars; STwelfths; SNegTrans; SDecimal5].

Definition var_name (up : bool) (j : nat) : string :=
  match j with
  | 0%nat => if up then "X" else "x" | 1%nat => if up then "Y" else "y" | _ => if up then "Z" else "z"
  end%string.
Fixpoint rep (n : nat) (s : string) : string := match n with O => EmptyString | S k => (s ++ rep k s)%string end.
Definition term (up : bool) (c : Z) (j : nat) : string :=
  rep (Z.abs_nat c) ((if (0 <? c)%Z then "+" else "-") ++ var_name up j)%string.
Definition vars (up rev : bool) (r : row) : string :=
  let '(a, b, c) := r in
  (if rev then term up c 2 ++ term up b 1 ++ term up a 0 else term up a 0 ++ term up b 1 ++ term up c 2)%string.
Definition frac (k : Z) : string :=
  let g := Z.gcd k 12 in (py_str_of_Z (k / g) ++ "/" ++ py_str_of_Z (12 / g))%string.
Definition pad0 (w : nat) (s : string) : string := (rep (w - String.length s) "0" ++ s)%string.
(* "%.<w>f" of k/12 for 0 <= k < 12 : round(k*10^w/12), never a tie *)
Definition decimal (w : Z) (k : Z) : string :=
  ("0." ++ pad0 (Z.to_nat w) (py_str_of_Z ((k * 10 ^ w * 2 + 12) / 24)))%string.
Definition strip_plus (s : string) : string :=
  match s with String c r => if Ascii.eqb c "+"%char then r else s | EmptyString => s end.
Fixpoint spaced (s : string) : string :=
  match s with
  | EmptyString => EmptyString
  | String c r => if is_sign c then String " " (String c (String " " (spaced r))) else String c (spaced r)
  end.
Definition plus_t (k : Z) (t : string) : string := if k =? 0 then EmptyString else ("+" ++ t)%string.

Definition render_comp (st : style) (r : row) (k : Z) : string :=
  match st with
  | SPlain => strip_plus (vars false false r ++ plus_t k (frac k))
  | STransFirst => if (k =? 0)%Z then strip_plus (vars false false r) else (frac k ++ vars false false r)
  | SDecimal6 => strip_plus (vars false false r ++ plus_t k (decimal 6 k))
  | SUpperBlanks => (" " ++ spaced (strip_plus (vars true false r ++ plus_t k (frac k))) ++ " ")
  | SLeadPlus => (vars false false r ++ plus_t k (frac k))
  | SRevVars => strip_plus (vars false true r ++ plus_t k (frac k))
  | STwelfths => strip_plus (vars false false r ++ plus_t k (py_str_of_Z k ++ "/12"))
  | SNegTrans => strip_plus (vars false false r ++ (if (k =? 0)%Z then EmptyString else "-" ++ frac (12 - k)%Z))
  | SDecimal5 => strip_plus (vars false false r ++ plus_t k (decimal 5 k))
  end%string.

Definition render (st : style) (o : symop) : string :=
  let R := fst o in let t := snd o in
  let sep := match st with SUpperBlanks => ", " | _ => "," end%string in
  (render_comp st (m11 R, m12 R, m13 R) (vx t) ++ sep ++ render_comp st (m21 R, m22 R, m23 R) (vy t) ++ sep
   ++ render_comp st (m31 R, m32 R, m33 R) (vz t))%string.

(* every spelling of the operation reads back as that operation *)
Definition roundtrip_op (o : symop) : bool :=
  forallb (fun st => match parse_symop (render st o) with Some o' => op_eqb o' o | None => false end) all_styles.
Definition roundtrip_setting (s : setting) : bool := forallb roundtrip_op (sg_ops s).
