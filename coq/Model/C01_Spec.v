(* Hypothesis bundles for the lattice theorems. *)
From Coq Require Import Reals.
From DS Require Import Base.RMat Base.Trig Model.LatDefs.
Open Scope R_scope.

Definition vol2 (alpha beta gamma : R) : R :=
  1 + 2 * cosd alpha * cosd beta * cosd gamma - cosd alpha * cosd alpha - cosd beta * cosd beta - cosd gamma * cosd gamma.

(* a valid unit cell: positive edges, angles strictly between 0 and 180 degrees, positive volume radicand *)
Record valid_cell (a b c alpha beta gamma : R) : Prop := {
  vc_a : 0 < a; vc_b : 0 < b; vc_c : 0 < c;
  vc_alpha : 0 < alpha < 180; vc_beta : 0 < beta < 180; vc_gamma : 0 < gamma < 180;
  vc_vol : 0 < vol2 alpha beta gamma
}.
(* a proper rotation of the base *)
Definition proper_rot (r : mat) : Prop := mmul r (mT r) = I /\ det r = 1.
