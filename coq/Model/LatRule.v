(* Which lattice metrics does a set of rotations leave invariant?  Executable part:
   the integer 6x6 "sum of conjugations" matrix and the rule checker built on it. *)
From Coq Require Import ZArith List Bool String.
From DS Require Import Base.ZMat Base.SGDefs Model.LatRuleDefs.
Import ListNotations.
Open Scope Z_scope.

(* linear form on the six independent entries (g11 g12 g13 g22 g23 g33) of a symmetric matrix *)
Record f6 := F6 { f11 : Z; f12 : Z; f13 : Z; f22 : Z; f23 : Z; f33 : Z }.
Definition f6_zero := F6 0 0 0 0 0 0.
Definition f6_add (x y : f6) := F6 (f11 x + f11 y) (f12 x + f12 y) (f13 x + f13 y) (f22 x + f22 y) (f23 x + f23 y) (f33 x + f33 y).
Definition f6_scale (k : Z) (x : f6) := F6 (k * f11 x) (k * f12 x) (k * f13 x) (k * f22 x) (k * f23 x) (k * f33 x).
Definition f6_eqb (x y : f6) : bool :=
  (f11 x =? f11 y) && (f12 x =? f12 y) && (f13 x =? f13 y) && (f22 x =? f22 y) && (f23 x =? f23 y) && (f33 x =? f33 y).

(* six forms: entry ij of  R^T g R  as a form in g *)
Record forms := FS { F11 : f6; F12 : f6; F13 : f6; F22 : f6; F23 : f6; F33 : f6 }.
Definition forms_zero := FS f6_zero f6_zero f6_zero f6_zero f6_zero f6_zero.
Definition forms_add (x y : forms) :=
  FS (f6_add (F11 x) (F11 y)) (f6_add (F12 x) (F12 y)) (f6_add (F13 x) (F13 y))
     (f6_add (F22 x) (F22 y)) (f6_add (F23 x) (F23 y)) (f6_add (F33 x) (F33 y)).

(* (R^T g R)_ij = sum_kl R_ki R_lj g_kl ; column i of R is (r1i r2i r3i) *)
Definition entry_form (a1 a2 a3 b1 b2 b3 : Z) : f6 :=
  F6 (a1 * b1) (a1 * b2 + a2 * b1) (a1 * b3 + a3 * b1) (a2 * b2) (a2 * b3 + a3 * b2) (a3 * b3).
Definition conj_forms (r : m3) : forms :=
  let c1 := (m11 r, m21 r, m31 r) in let c2 := (m12 r, m22 r, m32 r) in let c3 := (m13 r, m23 r, m33 r) in
  let ef (x y : Z * Z * Z) := let '(a1, a2, a3) := x in let '(b1, b2, b3) := y in entry_form a1 a2 a3 b1 b2 b3 in
  FS (ef c1 c1) (ef c1 c2) (ef c1 c3) (ef c2 c2) (ef c2 c3) (ef c3 c3).
Definition sum_forms (rs : list m3) : forms := fold_right (fun r acc => forms_add (conj_forms r) acc) forms_zero rs.

(* pull a functional e (coefficients on g11..g33) back through the six forms: e^T S *)
Definition pull (e : f6) (s : forms) : f6 :=
  f6_add (f6_scale (f11 e) (F11 s)) (f6_add (f6_scale (f12 e) (F12 s)) (f6_add (f6_scale (f13 e) (F13 s))
  (f6_add (f6_scale (f22 e) (F22 s)) (f6_add (f6_scale (f23 e) (F23 s)) (f6_scale (f33 e) (F33 s)))))).
Definition vanishes (s : forms) (e : f6) : bool := f6_eqb (pull e s) f6_zero.

(* facts about every invariant metric, read off S *)
Definition len_form (p : par) : option f6 :=
  match p with Pa => Some (F6 1 0 0 0 0 0) | Pb => Some (F6 0 0 0 1 0 0) | Pc => Some (F6 0 0 0 0 0 1) | _ => None end.
Definition f6_sub (x y : f6) := f6_add x (f6_scale (-1) y).
Definition eqlen (s : forms) (p q : par) : bool :=
  match len_form p, len_form q with Some x, Some y => vanishes s (f6_sub x y) | _, _ => false end.
(* off-diagonal entry belonging to an angle, and the two edges that span it *)
Definition ang_form (p : par) : option (f6 * par * par) :=
  match p with
  | Palpha => Some (F6 0 0 0 0 1 0, Pb, Pc) | Pbeta => Some (F6 0 0 1 0 0 0, Pa, Pc) | Pgamma => Some (F6 0 1 0 0 0 0, Pa, Pb)
  | _ => None end.
Definition is90 (s : forms) (p : par) : bool :=
  match ang_form p with Some (e, _, _) => vanishes s e | None => false end.
Definition is120 (s : forms) (p : par) : bool :=
  match ang_form p with
  | Some (e, u, v) => match len_form u with Some lu => vanishes s (f6_add (f6_scale 2 e) lu) && eqlen s u v | None => false end
  | None => false end.
Definition is_len (p : par) : bool := match p with Pa | Pb | Pc => true | _ => false end.
(* equal cosines of two angles: sufficient linear condition *)
Definition eqang (s : forms) (p q : par) : bool :=
  match p, q with
  | Palpha, Palpha | Pbeta, Pbeta | Pgamma, Pgamma => true
  | Palpha, Pbeta | Pbeta, Palpha => vanishes s (F6 0 0 1 0 (-1) 0) && eqlen s Pa Pb
  | Palpha, Pgamma | Pgamma, Palpha => vanishes s (F6 0 1 0 0 (-1) 0) && eqlen s Pa Pc
  | Pbeta, Pgamma | Pgamma, Pbeta => vanishes s (F6 0 1 (-1) 0 0 0) && eqlen s Pb Pc
  | _, _ => false end.

Definition check_eq (s : forms) (x y : term) : bool :=
  match x, y with
  | TConst u, TConst v => u =? v
  | TPar p, TConst k | TConst k, TPar p =>
      if is_len p then false else if k =? 90 then is90 s p else if k =? 120 then is120 s p else false
  | TPar p, TPar q =>
      if is_len p then (if is_len q then (match p, q with Pa, Pa | Pb, Pb | Pc, Pc => true | _, _ => eqlen s p q end) else false)
      else if is_len q then false
      else (is90 s p && is90 s q) || (is120 s p && is120 s q) || eqang s p q
  end.

Fixpoint rule_check (s : forms) (r : rule) : bool :=
  match r with
  | RTrue => true | RFalse => false
  | REq x y => check_eq s x y
  | RAnd p q => rule_check s p && rule_check s q
  | ROr p q => rule_check s p || rule_check s q
  end.

(* the decision for a tabulated setting against the translated rule table *)
Definition latpar_accepts_ok (tbl : list (string * rule)) (st : setting) : bool :=
  match lookup_rule tbl (sg_system st) with
  | Some r => rule_check (sum_forms (map fst (sg_ops st))) r
  | None => false
  end.

(* generic integer cells of each crystal system, and the systems whose rule must reject them *)
Definition generic_cells : list (zcell * list string) :=
  [ (Build_zcell 3 4 5 80 85 95,  ["MONOCLINIC"; "ORTHORHOMBIC"; "TETRAGONAL"; "TRIGONAL"; "HEXAGONAL"; "CUBIC"]);  (* triclinic *)
    (Build_zcell 3 4 5 90 100 90, ["ORTHORHOMBIC"; "TETRAGONAL"; "TRIGONAL"; "HEXAGONAL"; "CUBIC"]);               (* monoclinic b *)
    (Build_zcell 3 4 5 90 90 100, ["ORTHORHOMBIC"; "TETRAGONAL"; "TRIGONAL"; "HEXAGONAL"; "CUBIC"]);               (* monoclinic c *)
    (Build_zcell 3 4 5 100 90 90, ["ORTHORHOMBIC"; "TETRAGONAL"; "TRIGONAL"; "HEXAGONAL"; "CUBIC"]);               (* monoclinic a *)
    (Build_zcell 3 4 5 90 90 90,  ["TETRAGONAL"; "TRIGONAL"; "HEXAGONAL"; "CUBIC"]);                               (* orthorhombic *)
    (Build_zcell 3 3 5 90 90 90,  ["TRIGONAL"; "HEXAGONAL"; "CUBIC"]);                                             (* tetragonal *)
    (Build_zcell 3 3 5 90 90 120, ["TETRAGONAL"; "CUBIC"]);                                                        (* hexagonal *)
    (Build_zcell 3 3 3 80 80 80,  ["TETRAGONAL"; "HEXAGONAL"; "CUBIC"]) ]%string.                                  (* rhombohedral *)
Definition rejects_lower_ok (tbl : list (string * rule)) : bool :=
  forallb (fun cw => forallb (fun sys => match lookup_rule tbl sys with Some r => negb (evalz r (fst cw)) | None => false end) (snd cw)) generic_cells.
(* and each generic cell is accepted by its own system's rule *)
Definition own_cells : list (zcell * string) :=
  [ (Build_zcell 3 4 5 80 85 95, "TRICLINIC"); (Build_zcell 3 4 5 90 100 90, "MONOCLINIC"); (Build_zcell 3 4 5 90 90 100, "MONOCLINIC");
    (Build_zcell 3 4 5 100 90 90, "MONOCLINIC");
    (Build_zcell 3 4 5 90 90 90, "ORTHORHOMBIC"); (Build_zcell 3 3 5 90 90 90, "TETRAGONAL"); (Build_zcell 3 3 5 90 90 120, "HEXAGONAL");
    (Build_zcell 3 3 5 90 90 120, "TRIGONAL"); (Build_zcell 3 3 3 80 80 80, "TRIGONAL"); (Build_zcell 3 3 3 90 90 90, "CUBIC") ]%string.
Definition accepts_own_ok (tbl : list (string * rule)) : bool :=
  forallb (fun cw => match lookup_rule tbl (snd cw) with Some r => evalz r (fst cw) | None => false end) own_cells.
