(* C08 - the facts about the statements of structure.py that Model/C08_StructHeap.v hard-codes.
   translate/c08_shapes.py extracts them (fail-closed) from the current source into Gen/C08_Shapes.v
   (`gen_shapes`); `model_shapes` below is what the model was written for, with the place in the model that
   depends on each fact.  Props/C08.v proves gen_shapes = model_shapes on every run. *)
From Coq Require Import List String Bool.
From DS Require Import Model.C08_StructHeap.
Import ListNotations.
Open Scope string_scope.

(* how the object that is stored is obtained from the argument `a` *)
Inductive dupexpr :=
| DCondCopy      (* `copy and COPY(a) or a`  /  `COPY(a) if copy else a`   (COPY = Atom | copy.copy) *)
| DAlways        (* COPY(a) *)
| DNever.        (* a *)

(* the `copy` argument at a call site / the default of a parameter *)
Inductive flagarg := ATrue | AFalse | ANone | AOmitted | AParam.

(* what extend() appends for one combination of (copy, type of the argument) *)
Inductive plan :=
| PAllDup                                   (* copies of every element *)
| PAllKeep                                  (* the elements themselves *)
| PMemo (init_from_self marks : bool).      (* kept unless its id is in the memo (initialised with the ids of self); mark adds the stored object *)

Inductive keepset := KAssignedSlice (* set(list.__getitem__(self, idx)) *) | KOtherSet.
Inductive nguard := GLeZero (* n <= 0 *) | GOther.
Inductive idxkind := IKSlice | IKListGetitem | IKNumpy | IKLabels.

Record shapes := mkShapes {
  (* Atom(a) / copy.copy(a): __dict__.update + copies of the arrays; no __eq__/__hash__/__bool__/pickling hooks on Atom *)
  sh_atom_copy_takes_dict_and_copies_arrays : bool;
  (* utils._linkAtomAttribute.fset: no-op when empty, scalar repeated, otherwise broadcast to one value per atom *)
  sh_column_assignment_per_atom_broadcast : bool;
  sh_composition_sums_occupancy_per_element : bool;
  (* what PDFFitStructure (the subclass the harness also drives) defines itself: no modelled method *)
  sh_subclass_defines : list string;
  (* append(a, copy) / insert(idx, a, copy) *)
  sh_append_default : flagarg;  sh_append_dup : dupexpr;  sh_append_setlat : bool;
  sh_insert_default : flagarg;  sh_insert_dup : dupexpr;  sh_insert_setlat : bool;
  (* extend(atoms, copy) *)
  sh_extend_default : flagarg;
  sh_extend_none_struct : plan;  sh_extend_none_other : plan;  sh_extend_true : plan;  sh_extend_false : plan;
  sh_extend_setlat : bool;
  sh_extend_materialised : bool;            (* the new atoms are collected in a list before list.extend runs *)
  (* __getitem__ *)
  sh_getitem_order : list idxkind;
  sh_getitem_slice_flag : flagarg;  sh_getitem_numpy_flag : flagarg;
  sh_getitem_tuple_via_r : bool;            (* a tuple index goes through numpy.r_ *)
  sh_getitem_label_map_marks_duplicates : bool;
  sh_getitem_label_errors_index : bool;     (* unknown and duplicate labels raise IndexError *)
  sh_getitem_labels_recurse : bool;         (* labels are resolved to integers, then self[idx2] *)
  sh_empty_shared_takes_instance_dict : bool;  (* __emptySharedStructure: Structure() + __dict__.update from self *)
  (* __setitem__(idx, value, copy) *)
  sh_setitem_default : flagarg;
  sh_setitem_slice_keep : keepset;
  sh_setitem_slice_copies_others : bool;    (* `a if a in keep else Atom(a)` *)
  sh_setitem_slice_setlat : bool;           (* every stored atom gets self.lattice *)
  sh_setitem_slice_nocopy_takes_value : bool;
  sh_setitem_scalar_dup : dupexpr;
  sh_setitem_scalar_store_before_setlat : bool;   (* list.__setitem__ first, .lattice only after it succeeded *)
  sh_setitem_slice_store_before_setlat : bool;    (* the new atoms are materialised, stored, then re-linked *)
  (* arithmetic *)
  sh_add_copy_then_iadd : bool;
  sh_iadd_flag : flagarg;  sh_iadd_returns_self : bool;
  sh_sub_identity_filter_then_copy : bool;
  sh_isub_slice_assigns_filter : bool;
  sh_mul_copy_empty_slice_then_iadd : bool;  sh_rmul_is_mul : bool;
  sh_imul_guard : nguard;  sh_imul_clears : bool;  sh_imul_flag : flagarg;  sh_imul_repeats_minus_one : bool;
  (* copies and construction *)
  sh_copy_is_copymod_copy : bool;
  sh_copy_default_target_new : bool;  sh_copy_self_target_returns : bool;
  sh_copy_new_lattice : bool;               (* target.lattice = Lattice(self.lattice) *)
  sh_copy_slice_assigns_self : bool;        (* target[:] = self *)
  sh_init_copy_constructor_first : bool;    (* isinstance(atoms, Structure) -> Structure.__copy__(atoms, self) *)
  sh_init_lattice_arg_assigned : bool;  sh_init_default_lattice_when_none : bool;
  sh_init_extend_when_empty : bool;  sh_init_extend_flag : flagarg;
  sh_setstate_relinks : bool;               (* __setstate__: __dict__.update(state); self.lattice = self._lattice *)
  sh_reduce_overridden : bool;
  (* lattice *)
  sh_set_lattice_loops_atoms : bool;  sh_set_lattice_stores : bool;
  sh_place_assigns_lattice : bool;  sh_place_returns_self : bool;
  (* helpers *)
  sh_addnewatom_flag : flagarg;  sh_addnewatom_passes_lattice : bool;
  sh_getlastatom_is_last : bool;  sh_tolist_plain : bool;
  sh_unique_labels_skips_repeated_objects : bool;
  (* which attributes of the built-in list the class defines itself: everything else (pop, remove, reverse,
     sort, clear, __delitem__, ...) is inherited list behaviour *)
  sh_list_overrides : list string }.

Definition model_shapes : shapes := {|
  sh_atom_copy_takes_dict_and_copies_arrays := true;   (* realize1 (Dup a): same payload, then the receiver's lattice *)
  sh_column_assignment_per_atom_broadcast := true;     (* step (SetCol) *)
  sh_composition_sums_occupancy_per_element := true;   (* composition_of *)
  sh_subclass_defines := ["__init__"; "read"; "readStr"];
  (* step (Append/Insert): copy_src copy a, install = lattice + store *)
  sh_append_default := ATrue;  sh_append_dup := DCondCopy;  sh_append_setlat := true;
  sh_insert_default := ATrue;  sh_insert_dup := DCondCopy;  sh_insert_setlat := true;
  (* extend_plan / memo_plan / do_extend *)
  sh_extend_default := ANone;
  sh_extend_none_struct := PAllDup;  sh_extend_none_other := PMemo true true;
  sh_extend_true := PAllDup;  sh_extend_false := PAllKeep;
  sh_extend_setlat := true;
  sh_extend_materialised := true;           (* variant `current`: v_lazy_extend = false *)
  (* step (GetSlice / GetInt / GetIdx / GetMask / GetLabel), selection *)
  sh_getitem_order := [IKSlice; IKListGetitem; IKNumpy; IKLabels];
  sh_getitem_slice_flag := AFalse;  sh_getitem_numpy_flag := AFalse;
  sh_getitem_tuple_via_r := true;
  sh_getitem_label_map_marks_duplicates := true;
  sh_getitem_label_errors_index := true;
  sh_getitem_labels_recurse := true;
  sh_empty_shared_takes_instance_dict := true;
  (* step (SetInt / SetSlice) *)
  sh_setitem_default := ATrue;
  sh_setitem_slice_keep := KAssignedSlice;
  sh_setitem_slice_copies_others := true;
  sh_setitem_slice_setlat := true;
  sh_setitem_slice_nocopy_takes_value := true;
  sh_setitem_scalar_dup := DCondCopy;
  sh_setitem_scalar_store_before_setlat := true;  (* step (SetInt): an IndexError leaves the world unchanged *)
  sh_setitem_slice_store_before_setlat := true;   (* step (SetSlice): a size mismatch leaves the world unchanged *)
  (* step (Add / IAdd / Sub / ISub / Mul / IMul) *)
  sh_add_copy_then_iadd := true;
  sh_iadd_flag := ATrue;  sh_iadd_returns_self := true;
  sh_sub_identity_filter_then_copy := true;
  sh_isub_slice_assigns_filter := true;
  sh_mul_copy_empty_slice_then_iadd := true;  sh_rmul_is_mul := true;
  sh_imul_guard := GLeZero;  sh_imul_clears := true;  sh_imul_flag := ATrue;  sh_imul_repeats_minus_one := true;
  (* do_copy / step (Copy, CopyInto, Construct, NewStruct, Pickle) *)
  sh_copy_is_copymod_copy := true;
  sh_copy_default_target_new := true;  sh_copy_self_target_returns := true;
  sh_copy_new_lattice := true;
  sh_copy_slice_assigns_self := true;
  sh_init_copy_constructor_first := true;
  sh_init_lattice_arg_assigned := true;  sh_init_default_lattice_when_none := true;
  sh_init_extend_when_empty := true;  sh_init_extend_flag := AOmitted;
  sh_setstate_relinks := true;              (* variant `current`: v_setstate = true *)
  sh_reduce_overridden := false;
  (* relat *)
  sh_set_lattice_loops_atoms := true;  sh_set_lattice_stores := true;
  sh_place_assigns_lattice := true;  sh_place_returns_self := true;
  (* step (AddNewAtom / GetLast / Tolist / AssignUniqueLabels) *)
  sh_addnewatom_flag := AFalse;  sh_addnewatom_passes_lattice := true;
  sh_getlastatom_is_last := true;  sh_tolist_plain := true;
  sh_unique_labels_skips_repeated_objects := true;
  sh_list_overrides := ["__add__"; "__getitem__"; "__iadd__"; "__imul__"; "__init__"; "__mul__"; "__rmul__";
                        "__setitem__"; "__str__"; "append"; "copy"; "extend"; "insert"] |}.

(* the two facts that distinguish the model variants *)
Definition variant_of (sh : shapes) : variant :=
  mkVar (negb (sh_extend_materialised sh)) (sh_setstate_relinks sh) 0.
