(* C04 - executable model of parsers/p_xcfg.py (toLines / parseLines / _assign_auxiliaries) on the view the writer reads:
   box size A and the reduced positions pos = xyz / A + shift (both produced by the writer's numpy arithmetic and taken
   from the view), the lattice base H0, the auxiliaries kept from a previous read, and per atom element, occupancy, the six
   tensor components and the isotropy decision `lattice.isanisotropic(a.U)` (abstract: supplied as a boolean).
   The model covers the header, the choice of auxiliary columns, the mass / element / entry lines and their reading.
   Velocities are outside the model (writer and reader only handle them for atoms that carry `v`). *)
From Coq Require Import List Bool Arith NArith ZArith String.
From Coq Require Import Ascii.
From DS Require Import Base.C04_Text Base.C04_Decimal Model.C04_Fmt Gen.C04_FmtSpecs Model.C04_Xyz Model.C04_Rawxyz Model.C04_Pdffit Model.C04_Pdb.
Import ListNotations.
Local Close Scope N_scope.

Record catom := CAtom { c_el : str; c_pos : d3; c_occ : dec; c_u : d6; c_aniso : bool; c_kept : list dec }.
Record cstru := CStru { c_A : dec; c_base : d3 * d3 * d3; c_keptnames : list str; c_atoms : list catom }.

Definition dzerob (d : dec) : bool := (dmag d =? 0)%N.         (* x == 0.0 (also -0.0) *)
Definition u_zero (u : d6) : bool :=
  let '((a, b, c), (d, e, f)) := u in dzerob a && dzerob b && dzerob c && dzerob d && dzerob e && dzerob f.

(* auxiliary columns: (name, value of the column for an atom) *)
Definition aux_columns (S : cstru) : list (str * (catom -> dec)) :=
  let atoms := c_atoms S in
  let kept := map (fun ik => (snd ik, fun a : catom => nth (fst ik) (c_kept a) dzero)) (combine (seq 0 (List.length (c_keptnames S))) (c_keptnames S)) in
  let occ := if existsb (fun a => negb (is_val (c_occ a) 1)) atoms then [(s"occupancy", c_occ)] else [] in
  let u11 := fun a : catom => fst (fst (fst (c_u a))) in
  let u22 := fun a : catom => snd (fst (fst (c_u a))) in
  let u33 := fun a : catom => snd (fst (c_u a)) in
  let u12 := fun a : catom => fst (fst (snd (c_u a))) in
  let u13 := fun a : catom => snd (fst (snd (c_u a))) in
  let u23 := fun a : catom => snd (snd (c_u a)) in
  (* the two flags are computed by one loop that stops at the first anisotropic atom *)
  let fix scan (l : list catom) (allzero : bool) : bool * bool :=
        match l with
        | [] => (allzero, true)
        | a :: r => let z := allzero && u_zero (c_u a) in if c_aniso a then (z, false) else scan r z
        end in
  let '(allzero, alliso) := scan atoms true in
  let adp := if allzero then []
             else if alliso then [(s"Uiso", u11)]
             else [(s"U11", u11); (s"U22", u22); (s"U33", u33)] ++
                  (if existsb (fun a => negb (dzerob (u12 a))) atoms then [(s"U12", u12)] else []) ++
                  (if existsb (fun a => negb (dzerob (u13 a))) atoms then [(s"U13", u13)] else []) ++
                  (if existsb (fun a => negb (dzerob (u23 a))) atoms then [(s"U23", u23)] else []) in
  kept ++ occ ++ adp.

Definition gen8 (d : dec) : option str := print_gen xcfg_w_entry_prec d.
Definition mass_of (el : str) : dec :=
  match find (fun kv => str_eqb (fst kv) el) xcfg_masses with Some kv => snd kv | None => dzero end.

Definition entry_line (cols : list (str * (catom -> dec))) (a : catom) : option str :=
  let '(x, y, z) := c_pos a in
  option_map (join [sp]) (map_opt gen8 ([x; y; z] ++ map (fun c => snd c a) cols)).

Fixpoint atom_block (cols : list (str * (catom -> dec))) (prev : option str) (l : list catom) : option (list str) :=
  match l with
  | [] => Some []
  | a :: r =>
      let same := match prev with Some p => str_eqb p (c_el a) | None => false end in
      match (if same then Some [] else option_map (fun m => [m; c_el a]) (render xcfg_w_mass [ANum (mass_of (c_el a))])),
            entry_line cols a, atom_block cols (Some (c_el a)) r with
      | Some h, Some e, Some t => Some (h ++ e :: t)
      | _, _, _ => None
      end
  end.

Definition h0_lines (b : d3 * d3 * d3) : option (list str) :=
  let '(r1, r2, r3) := b in
  let row := fun (i : Z) (r : d3) => let '(a, b', c) := r in
               map_opt (fun jv => render xcfg_w_H0 [AInt i; AInt (fst jv); ANum (snd jv)]) [(1%Z, a); (2%Z, b'); (3%Z, c)] in
  concat_opt [row 1%Z r1; row 2%Z r2; row 3%Z r3].

Definition print_xcfg (S : cstru) : option (list str) :=
  match c_atoms S with
  | [] => None                                   (* "cannot convert empty structure to XCFG format" *)
  | _ =>
    let cols := aux_columns S in
    concat_opt
      [ option_map (fun l => [l]) (render xcfg_w_nparticles [AInt (Z.of_nat (List.length (c_atoms S)))]);
        option_map (fun l => [l]) (render xcfg_w_A [ANum (c_A S)]);
        h0_lines (c_base S);
        Some [xcfg_w_novel];
        option_map (fun l => [l]) (render xcfg_w_entry_count [AInt (3 + Z.of_nat (List.length cols))]);
        map_opt (fun ic => render xcfg_w_auxiliary [AInt (Z.of_nat (fst ic)); AStr (fst (snd ic))]) (combine (seq 0 (List.length cols)) cols);
        Some [[]];
        atom_block cols None (c_atoms S) ]
  end.

(* ---- reader ---- *)
Fixpoint starts_with (p t : str) : bool :=
  match p, t with
  | [], _ => true
  | a :: p', b :: t' => Ascii.eqb a b && starts_with p' t'
  | _ :: _, [] => false
  end.
Definition first_tok (t : str) : option str := match split_ws t with w :: _ => Some w | [] => None end.

Record xhdr := XHdr { xh_n : option Z; xh_A : option dec; xh_H0 : list ((nat * nat) * dec); xh_novel : bool;
                      xh_count : option Z; xh_aux : list (nat * str) }.

(* "^auxiliary\[(\d+)\] =" *)
Definition aux_match (line : str) : option (nat * str) :=
  let p := s"auxiliary[" in
  if starts_with p line then
    let r := skipn (List.length p) line in
    let digs := (fix take (l : str) : str := match l with c :: l' => match dval c with Some _ => c :: take l' | None => [] end | [] => [] end) r in
    let rest := skipn (List.length digs) r in
    if nonempty digs && starts_with (s"] =") rest then
      match parse_int digs with Some k => Some (Z.to_nat k, skipn 3 rest) | None => None end
    else None
  else None.

Inductive xres := XCont (h : xhdr) | XBreak | XFail.
Definition digit_at (k : nat) (line : str) : option nat :=
  match nth_error line k with Some c => match dval c with Some d => Some (N.to_nat d) | None => None end | None => None end.

Definition xstep (h : xhdr) (line : str) : xres :=
  if is_nil (strip line) || (match line with c :: _ => Ascii.eqb c "#"%char | [] => false end) then XCont h
  else match xh_n h with
  | None =>
      if starts_with xcfg_r_nparticles line then
        match first_tok (skipn xcfg_r_nparticles_from line) with
        | Some w => match parse_int w with
                    | Some n => XCont (XHdr (Some n) (xh_A h) (xh_H0 h) (xh_novel h) (xh_count h) (xh_aux h))
                    | None => XFail end
        | None => XFail end
      else XFail
  | Some _ =>
      if starts_with xcfg_r_A line then
        match first_tok (skipn xcfg_r_A_from line) with
        | Some w => match parse_float w with
                    | Some v => XCont (XHdr (xh_n h) (Some v) (xh_H0 h) (xh_novel h) (xh_count h) (xh_aux h))
                    | None => XFail end
        | None => XFail end
      else if starts_with xcfg_r_H0 line then
        match digit_at (nth 0 xcfg_r_H0_cols 0%nat) line, digit_at (nth 1 xcfg_r_H0_cols 0%nat) line,
              first_tok (skipn (nth 2 xcfg_r_H0_cols 0%nat) line) with
        | Some i, Some j, Some w =>
            if ((1 <=? i) && (i <=? 3) && (1 <=? j) && (j <=? 3))%nat then
              match parse_float w with
              | Some v => XCont (XHdr (xh_n h) (xh_A h) (((i, j), v) :: xh_H0 h) (xh_novel h) (xh_count h) (xh_aux h))
              | None => XFail end
            else XFail         (* IndexError / negative index semantics: outside the model *)
        | _, _, _ => XFail end
      else if starts_with xcfg_r_novel line then XCont (XHdr (xh_n h) (xh_A h) (xh_H0 h) true (xh_count h) (xh_aux h))
      else if starts_with xcfg_r_entry_count line then
        match first_tok (skipn xcfg_r_entry_count_from line) with
        | Some w => match parse_int w with
                    | Some n => XCont (XHdr (xh_n h) (xh_A h) (xh_H0 h) (xh_novel h) (Some n) (xh_aux h))
                    | None => XFail end
        | None => XFail end
      else match aux_match line with
           | Some (k, rest) =>
               match first_tok rest with
               | Some nm => XCont (XHdr (xh_n h) (xh_A h) (xh_H0 h) (xh_novel h) (xh_count h) ((k, nm) :: xh_aux h))
               | None => XFail end
           | None => XBreak
           end
  end.

(* header loop; the line that ends it is consumed *)
Fixpoint xloop (h : xhdr) (ls : list str) : option (xhdr * list str) :=
  match ls with
  | [] => Some (h, [])
  | l :: r => match xstep h l with XCont h' => xloop h' r | XBreak => Some (h, r) | XFail => None end
  end.

Record qcatom := QAtom { qc_el : str; qc_fields : list dec }.
Record qcstru := QStru { qc_n : Z; qc_A : dec; qc_base : d3 * d3 * d3; qc_aux : list str; qc_atoms : list qcatom }.

Fixpoint xdata (count : Z) (el : option str) (ls : list str) : option (list qcatom) :=
  match ls with
  | [] => Some []
  | l :: r =>
      let words := split_ws l in
      match words with
      | [w] => if isfloat w then xdata count el r
               else let e := strip l in xdata count (Some (capitalize e)) r
      | [] => xdata count (Some []) r
      | _ =>
          match el with
          | Some e =>
              if (Z.of_nat (List.length words) =? count)%Z then
                match map_opt parse_float words, xdata count el r with
                | Some fs, Some t => Some (QAtom e fs :: t)
                | _, _ => None
                end
              else None
          | None => None
          end
      end
  end.

Definition lookup_h0 (l : list ((nat * nat) * dec)) (i j : nat) : option dec :=
  match find (fun e => (fst (fst e) =? i)%nat && (snd (fst e) =? j)%nat) l with Some e => Some (snd e) | None => None end.

Definition parse_xcfg (lines : list str) : option qcstru :=
  let ls := rstrip_lines lines in
  match xloop (XHdr None None [] false None []) ls with
  | Some (h, rest) =>
      let g := lookup_h0 (xh_H0 h) in
      match g 1 1, g 1 2, g 1 3, g 2 1, g 2 2, g 2 3, g 3 1, g 3 2, g 3 3, xh_A h, xh_n h, xh_count h with
      | Some a, Some b, Some c, Some d, Some e, Some f, Some g', Some h', Some i, Some A, Some n, Some cnt =>
          if xh_novel h then
            let auxs := xh_aux h in
            let auxnum := match auxs with [] => O | _ => S (fold_right Nat.max O (map fst auxs)) end in
            let name_of := fun k => match find (fun e => (fst e =? k)%nat) auxs with Some e => snd e | None => s"aux" ++ int_body (Z.of_nat k) end in
            let names := map name_of (seq 0 auxnum) in
            (* len(p_auxiliary) counts distinct indices after the gaps are filled: auxnum *)
            if (Z.of_nat auxnum + 3 =? cnt)%Z then
              match xdata cnt None rest with
              | Some atoms => if (Z.of_nat (List.length atoms) =? n)%Z
                              then Some (QStru n A ((a, b, c), (d, e, f), (g', h', i)) names atoms) else None
              | None => None
              end
            else None
          else None            (* velocities: outside the model *)
      | _, _, _, _, _, _, _, _, _, _, _, _ => None
      end
  | None => None
  end.

Definition write_xcfg (S : cstru) : option str := option_map text_of_lines (print_xcfg S).
Definition read_xcfg (t : str) : option qcstru := parse_xcfg (lines_of_text t).

(* ---- what the format carries ---- *)
Definition g8 (d : dec) : dec := gqd xcfg_w_entry_prec d.
Definition g3 (v : d3) : d3 := let '(a, b, c) := v in (g8 a, g8 b, g8 c).
Definition canon_xcfg (S : cstru) : qcstru :=
  let cols := aux_columns S in
  QStru (Z.of_nat (List.length (c_atoms S))) (gqd (gprec xcfg_w_A 0) (c_A S))
        (let '(r1, r2, r3) := c_base S in (g3 r1, g3 r2, g3 r3)) (map fst cols)
        (map (fun a => QAtom (capitalize (c_el a)) (let '(x, y, z) := c_pos a in map g8 ([x; y; z] ++ map (fun c => snd c a) cols))) (c_atoms S)).

Definition repr_xcfg (S : cstru) : bool :=
  nonempty (c_atoms S) &&
  forallb (fun nm => str_tok_ok nm) (map fst (aux_columns S)) &&
  forallb (fun a => str_tok_ok (c_el a) && negb (isfloat (c_el a))) (c_atoms S).
