(* C04 - fixed-column records: a rendered line as a list of (piece, nominal width); cutting it at constant
   columns is computed on the widths alone.  Model file: definitions only. *)
From Coq Require Import List Bool Arith NArith ZArith.
From Coq Require Import Ascii.
From DS Require Import Base.C04_Text Base.C04_Decimal Model.C04_Fmt.
Import ListNotations.

Definition nominal (it : fitem) (b : str) : nat :=
  match it with
  | FLit t => List.length t
  | FStr _ w => if (w =? 0)%nat then List.length b else w
  | FFix w _ => w
  | FInt w => if (w =? 0)%nat then List.length b else w
  | FGen _ => List.length b
  end.

Fixpoint render_sym (f : list fitem) (a : list farg) : option (list (str * nat)) :=
  match f with
  | [] => match a with [] => Some [] | _ => None end
  | FLit t :: f' => option_map (cons (t, List.length t)) (render_sym f' a)
  | it :: f' =>
      match a with
      | x :: a' => match field_body it x, render_sym f' a' with
                   | Some b, Some r => Some ((field_pad it b, nominal it b) :: r)
                   | _, _ => None
                   end
      | [] => None
      end
  end.

Definition flat (ps : list (str * nat)) : str := List.concat (map fst ps).
(* every piece has its nominal width: all fields fit their columns *)
Definition sym_ok (ps : list (str * nat)) : bool := forallb (fun pw => (List.length (fst pw) =? snd pw)%nat) ps.

Fixpoint sskip (n : nat) (ps : list (str * nat)) : list (str * nat) :=
  match ps with
  | [] => []
  | (p, w) :: r => if (w <=? n)%nat then sskip (n - w) r else (skipn n p, (w - n)%nat) :: r
  end.
Fixpoint stake (n : nat) (ps : list (str * nat)) : list (str * nat) :=
  match ps with
  | [] => []
  | (p, w) :: r => if (w <=? n)%nat then (p, w) :: stake (n - w) r else [(firstn n p, n)]
  end.
Definition scut (lo hi : nat) (ps : list (str * nat)) : str := flat (stake (hi - lo) (sskip lo ps)).
