(* C04 - executable model of parsers/p_xyz.py: toLines / parseLines on the view the writer reads
   (title, and per atom the element and its Cartesian coordinates as exact decimals).
   Widths, precisions, slices and the optional-title flag come from Gen/C04_FmtSpecs.v. *)
From Coq Require Import List Bool Arith NArith ZArith String.
From Coq Require Import Ascii.
From DS Require Import Base.C04_Text Base.C04_Decimal Model.C04_Fmt Gen.C04_FmtSpecs.
Import ListNotations.

Record xatom := XAtom { xa_el : str; xa_x : dec; xa_y : dec; xa_z : dec }.
Record xstru := XStru { x_title : str; x_atoms : list xatom }.

(* ---- writer: P_xyz.toLines ---- *)
Definition xyz_atom_args (a : xatom) : list farg := [AStr (xa_el a); ANum (xa_x a); ANum (xa_y a); ANum (xa_z a)].
Definition print_atom_xyz (a : xatom) : option str := render xyz_w_atom (xyz_atom_args a).
Definition print_xyz (S : xstru) : option (list str) :=
  match map_opt print_atom_xyz (x_atoms S) with
  | Some ls => Some (int_body (Z.of_nat (List.length (x_atoms S))) :: x_title S :: ls)
  | None => None
  end.

(* ---- reader: P_xyz.parseLines (None = any StructureFormatError) ---- *)
Definition hash : str := s"#".
Definition is_skip (fs : list str) : bool := match fs with [] => true | w :: _ => str_eqb w hash end.
Fixpoint count_skip (lfs : list (list str)) : nat :=
  match lfs with fs :: r => if is_skip fs then S (count_skip r) else O | [] => O end.
Definition is_nil {A} (l : list A) : bool := match l with [] => true | _ => false end.
Fixpoint drop_nil {A} (l : list (list A)) : list (list A) := match l with [] :: r => drop_nil r | _ => l end.
(* number of lines left after removing the trailing lines without fields *)
Definition stop_of (lfs : list (list str)) : nat := List.length (drop_nil (rev lfs)).

Definition parse_atom_fields (nf : nat) (fs : list str) : option (option xatom) :=
  match fs with
  | [] => Some None
  | _ => if (List.length fs =? nf)%nat then
           match nth_error fs xyz_r_element, map_opt parse_float (slice (fst xyz_r_xyz) (snd xyz_r_xyz) fs) with
           | Some el, Some [x; y; z] => Some (Some (XAtom (capitalize el) x y z))
           | _, _ => None
           end
         else None
  end.

Fixpoint parse_atoms_xyz (nf : nat) (lfs : list (list str)) : option (list xatom) :=
  match lfs with
  | [] => Some []
  | fs :: r => match parse_atom_fields nf fs, parse_atoms_xyz nf r with
               | Some (Some a), Some l => Some (a :: l)
               | Some None, Some l => Some l
               | _, _ => None
               end
  end.

Definition parse_xyz (lines : list str) : option xstru :=
  let lfs := map split_ws lines in
  let start := count_skip lfs in
  match nth_error lfs start with
  | Some [w1] =>
      if is_canonical_int w1 then
        match parse_int w1 with
        | Some n =>
            let title := match nth_error lines (S start) with
                         | Some t => Some (strip t)
                         | None => if xyz_r_title_optional then Some [] else None
                         end in
            match title with
            | None => None
            | Some ttl =>
                let start2 := S (S start) in
                let stop := Nat.max start2 (stop_of lfs) in
                if (n =? 0)%Z || (stop <=? start2)%nat then Some (XStru ttl [])
                else
                  let rest := skipn start2 lfs in
                  match rest with
                  | first :: _ =>
                      if (List.length first =? xyz_r_ncols)%nat then
                        match parse_atoms_xyz (List.length first) rest with
                        | Some atoms => if (Z.of_nat (List.length atoms) =? n)%Z then Some (XStru ttl atoms) else None
                        | None => None
                        end
                      else None
                  | [] => None
                  end
            end
        | None => None
        end
      else None
  | _ => None
  end.

(* ---- text level: Structure.writeStr / readStr ---- *)
Definition write_xyz (S : xstru) : option str := option_map text_of_lines (print_xyz S).
Definition read_xyz (t : str) : option xstru := parse_xyz (lines_of_text t).

(* ---- what the format carries ---- *)
Definition gqd (P : nat) (d : dec) : dec := match gq P d with Some v => v | None => d end.
Definition gprec (f : list fitem) (k : nat) : nat :=       (* precision of the k-th %g field of a descriptor *)
  nth k (flat_map (fun it => match it with FGen P => [P] | _ => [] end) f) 6%nat.
Definition canon_xatom (a : xatom) : xatom :=
  XAtom (capitalize (xa_el a)) (gqd (gprec xyz_w_atom 0) (xa_x a)) (gqd (gprec xyz_w_atom 1) (xa_y a)) (gqd (gprec xyz_w_atom 2) (xa_z a)).
Definition canon_xyz (S : xstru) : xstru := XStru (strip (x_title S)) (map canon_xatom (x_atoms S)).

(* ---- representable range ---- *)
Definition gen_ok (P : nat) (d : dec) : bool := match gen_decimals P d with Some _ => true | None => false end.
Definition repr_xatom (a : xatom) : bool :=
  str_tok_ok (xa_el a) && gen_ok (gprec xyz_w_atom 0) (xa_x a) && gen_ok (gprec xyz_w_atom 1) (xa_y a) && gen_ok (gprec xyz_w_atom 2) (xa_z a).
Definition line_ok (t : str) : bool := negb (has_char nl t) && negb (has_char cr t).
Definition repr_xyz (S : xstru) : bool := line_ok (x_title S) && forallb repr_xatom (x_atoms S).
