(* C05/C06 - exact rational carrier: 3-vectors over Q, the action of a tabulated operation on a rational
   site, "is an integer", "is within tol of an integer", linear combinations of a list of vectors.
   Model file: definitions only.  Equality on Q is Qeq (==); vectors are compared componentwise. *)
From Coq Require Import ZArith QArith Qabs Qround List Bool.
From DS Require Import Base.ZMat Base.SGDefs.
Import ListNotations.
Open Scope Q_scope.

Record q3 := Q3 { qx : Q; qy : Q; qz : Q }.

Definition q3zero : q3 := Q3 0 0 0.
Definition q3add (u v : q3) : q3 := Q3 (qx u + qx v) (qy u + qy v) (qz u + qz v).
Definition q3sub (u v : q3) : q3 := Q3 (qx u - qx v) (qy u - qy v) (qz u - qz v).
Definition q3scale (c : Q) (v : q3) : q3 := Q3 (c * qx v) (c * qy v) (c * qz v).
Definition q3dot (u v : q3) : Q := qx u * qx v + qy u * qy v + qz u * qz v.
Definition q3eq (u v : q3) : Prop := qx u == qx v /\ qy u == qy v /\ qz u == qz v.
Definition q3eqb (u v : q3) : bool := Qeq_bool (qx u) (qx v) && Qeq_bool (qy u) (qy v) && Qeq_bool (qz u) (qz v).
Definition e1 : q3 := Q3 1 0 0.
Definition e2 : q3 := Q3 0 1 0.
Definition e3 : q3 := Q3 0 0 1.

Definition iz (z : Z) : Q := inject_Z z.

(* integer rotation applied to a rational vector; translation (stored x12) as a rational vector *)
Definition mq (R : m3) (v : q3) : q3 :=
  Q3 (iz (m11 R) * qx v + iz (m12 R) * qy v + iz (m13 R) * qz v)
     (iz (m21 R) * qx v + iz (m22 R) * qy v + iz (m23 R) * qz v)
     (iz (m31 R) * qx v + iz (m32 R) * qy v + iz (m33 R) * qz v).
Definition tq (t : v3) : q3 := Q3 (vx t # 12) (vy t # 12) (vz t # 12).
(* g(v) = R v + t *)
Definition opq (g : symop) (v : q3) : q3 := q3add (mq (fst g) v) (tq (snd g)).

(* integrality *)
Definition is_intQ (q : Q) : bool := (Qnum q mod Zpos (Qden q) =? 0)%Z.
Definition is_int3 (v : q3) : bool := is_intQ (qx v) && is_intQ (qy v) && is_intQ (qz v).
Definition IsInt (q : Q) : Prop := exists z : Z, q == inject_Z z.
Definition IsInt3 (v : q3) : Prop := IsInt (qx v) /\ IsInt (qy v) /\ IsInt (qz v).

(* two rational points differ by a lattice vector *)
Definition same_mod1 (u v : q3) : bool := is_int3 (q3sub u v).

(* canonical representative modulo 1: reduced fraction of the fractional part; two points differ by a lattice
   vector iff their canonical forms are identical (compared structurally - cheap) *)
Definition qcanon (q : Q) : Q := Qred (q - inject_Z (Qfloor q)).
Definition q3canon (v : q3) : q3 := Q3 (qcanon (qx v)) (qcanon (qy v)) (qcanon (qz v)).
Definition qsame (a b : Q) : bool := (Qnum a =? Qnum b)%Z && (Qden a =? Qden b)%positive.
Definition q3same (u v : q3) : bool := qsame (qx u) (qx v) && qsame (qy u) (qy v) && qsame (qz u) (qz v).

(* distance to the nearest integer not larger than tol *)
Definition qround (q : Q) : Z := Qfloor (q + (1 # 2)).
Definition near_int (tol q : Q) : bool := Qle_bool (Qabs (q - inject_Z (qround q))) tol.
Definition near_int3 (tol : Q) (v : q3) : bool := near_int tol (qx v) && near_int tol (qy v) && near_int tol (qz v).
Definition NearInt (tol q : Q) : Prop := exists z : Z, Qabs (q - inject_Z z) <= tol.
Definition NearInt3 (tol : Q) (v : q3) : Prop := NearInt tol (qx v) /\ NearInt tol (qy v) /\ NearInt tol (qz v).

(* sum_j p_j N_j  (the shorter list decides) *)
Fixpoint lin (N : list q3) (p : list Q) : q3 :=
  match N, p with
  | n :: N', a :: p' => q3add (q3scale a n) (lin N' p')
  | _, _ => q3zero
  end.

(* 3x3 rational matrix given by its columns, applied to a vector *)
Definition cmul (C : q3 * q3 * q3) (w : q3) : q3 :=
  let '(c1, c2, c3) := C in q3add (q3scale (qx w) c1) (q3add (q3scale (qy w) c2) (q3scale (qz w) c3)).

(* exact stabiliser of a rational site: operations with g(x) - x in Z^3 *)
Definition fixes_site (x : q3) (g : symop) : bool := is_int3 (q3sub (opq g x) x).
Definition stab (G : list symop) (x : q3) : list symop := filter (fixes_site x) G.
Fixpoint stab_idx_from (i : nat) (G : list symop) (x : q3) : list nat :=
  match G with
  | [] => []
  | g :: r => if fixes_site x g then i :: stab_idx_from (S i) r x else stab_idx_from (S i) r x
  end.
Definition stab_idx (G : list symop) (x : q3) : list nat := stab_idx_from 0 G x.

Fixpoint nat_list_eqb (a b : list nat) : bool :=
  match a, b with
  | [], [] => true
  | x :: a', y :: b' => Nat.eqb x y && nat_list_eqb a' b'
  | _, _ => false
  end.

(* v is left fixed by the rotation part of every operation of S *)
Definition Fixed (S : list symop) (v : q3) : Prop := forall g, In g S -> q3eq (mq (fst g) v) v.
