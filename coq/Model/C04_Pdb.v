(* C04 - executable model of parsers/p_pdb.py (toLines with titleLines / cryst1Lines / atomLines, and parseLines)
   on the view the writer reads: title, cell, and per atom name (label or element), element, Cartesian position,
   occupancy, Bisoequiv, the writer's isotropy decision (`not lattice.isanisotropic(a.U)`, supplied as a boolean:
   geometry is abstract) and the six products 1e4 * U[i,j].  Covered records: TITLE (one record, title <= 60 chars),
   CRYST1, ATOM/HETATM, ANISOU (1e-4 integer encoding), TER, END.  SIGATM/SIGUIJ/SCALEn are outside the model
   (the writer emits SCALE never and SIGATM/SIGUIJ only for atoms that carry sigmas).
   Columns, widths, precisions, keywords and slices come from Gen/C04_FmtSpecs.v. *)
From Coq Require Import List Bool Arith NArith ZArith String.
From Coq Require Import Ascii.
From DS Require Import Base.C04_Text Base.C04_Decimal Model.C04_Fmt Model.C04_Cols Gen.C04_FmtSpecs Model.C04_Xyz Model.C04_Pdffit.
Import ListNotations.

Record batom := BAtom { b_name : str; b_el : str; b_cart : d3; b_occ : dec; b_B : dec; b_iso : bool; b_u : d6 }.
Record bstru := BStru { b_title : str; b_cell : d6; b_atoms : list batom }.

Definition is_val (d : dec) (k : N) : bool :=
  match dnorm d with Dec false m O => (m =? k)%N | _ => false end.
Definition default_cell (c : d6) : bool :=
  let '((a, b, c'), (al, be, ga)) := c in
  is_val a 1 && is_val b 1 && is_val c' 1 && is_val al 90 && is_val be 90 && is_val ga 90.
Definition unit_cell : d6 := ((done, done, done), (Dec false 90 0, Dec false 90 0, Dec false 90 0)).

(* numpy.around(x) as an integer, x = the double 1e4 * U[i,j] (the view carries that product: the float multiplication
   decides ties such as 730.5, so it is taken from the implementation's own arithmetic) *)
Definition uint (d : dec) : Z := let q := Z.of_N (quantN 0 d) in if dneg d then (- q)%Z else q.
Definition uints (u : d6) : list Z := let '((a, b, c), (d, e, f)) := u in [uint a; uint b; uint c; uint d; uint e; uint f].

Definition pad80 (t : str) : str := rpad pdb_w_pad t.
Definition blank1 : str := [sp].

(* ---- writer ---- *)
Definition title_lines (t : str) : option (list str) :=
  if is_nil t then Some []
  else if (List.length t <=? pdb_w_title_max)%nat then Some [pad80 (pdb_w_title ++ pdb_w_title_cont ++ t)]
  else None.       (* continuation records: outside the model *)

Definition cryst1_lines (c : d6) : option (list str) :=
  if default_cell c then Some [] else option_map (fun l => [pad80 l]) (render pdb_w_cryst1 (args6 c)).

Definition atom_args (serial : Z) (a : batom) : list farg :=
  [AInt serial; AStr (b_name a); AStr blank1; AStr []; AStr blank1; AInt 1; AStr blank1] ++ args3 (b_cart a) ++
  [ANum (b_occ a); ANum (b_B a); AStr []; AStr (b_el a); AStr []].

Definition anisou_line (atomline : str) (a : batom) : option str :=
  match render pdb_w_anisou (map AInt (uints (b_u a))) with
  | Some mid => Some (pdb_w_anisou_kw ++ slice (fst pdb_w_keep1) (snd pdb_w_keep1) atomline ++ mid ++
                      slice (fst pdb_w_keep2) (snd pdb_w_keep2) atomline)
  | None => None
  end.

Definition atom_lines (serial : Z) (a : batom) : option (list str) :=
  match render pdb_w_atom (atom_args serial a) with
  | Some atomline =>
      if b_iso a then Some [atomline]
      else match anisou_line atomline a with Some l => Some [atomline; l] | None => None end
  | None => None
  end.

Fixpoint atoms_lines (serial : Z) (l : list batom) : option (list str) :=
  match l with
  | [] => Some []
  | a :: r => match atom_lines serial a, atoms_lines (serial + 1) r with
              | Some x, Some y => Some (x ++ y)
              | _, _ => None
              end
  end.

Definition ter_line (n : nat) : option str :=
  render pdb_w_ter [AInt (Z.of_nat n + 1); AStr []; AStr blank1; AInt 1; AStr blank1; AStr blank1].

Definition print_pdb (S : bstru) : option (list str) :=
  concat_opt [ title_lines (b_title S); cryst1_lines (b_cell S); atoms_lines 1 (b_atoms S);
               option_map (fun l => [l]) (ter_line (List.length (b_atoms S))); Some [pad80 pdb_w_end] ].

(* ---- reader: what parseLines assigns ---- *)
Record ratom := RAtom { r_name : str; r_el : str; r_rc : d3; r_occ : dec; r_B : option dec; r_aniso : bool; r_u : list dec }.
Record rstate := RState { rs_title : str; rs_cell : option d6; rs_atoms : list ratom (* reversed *) }.

Definition record_of (line : str) : option str :=
  if pdb_r_record_cols then Some (strip (firstn 6 line))
  else match split_ws line with w :: _ => Some w | [] => None end.

Definition sl (r : nat * nat) (line : str) : str := slice (fst r) (snd r) line.

Fixpoint pairs (l : list nat) : list (nat * nat) := match l with a :: b :: r => (a, b) :: pairs r | _ => [] end.

Definition parse_atom_record (line : str) : option ratom :=
  let name := strip (sl pdb_r_name line) in
  match map_opt (fun c => parse_float (slice c (c + pdb_r_xyz_width) line)) pdb_r_xyz_cols with
  | Some [x; y; z] =>
      let occ := match parse_float (sl pdb_r_occ line) with Some v => v | None => done end in
      let b := parse_float (sl pdb_r_B line) in
      let el := strip (sl pdb_r_element line) in
      let el' := if is_nil el then match strip (sl pdb_r_element_fallback line) with [] => None | e => Some (capitalize e) end
                 else Some el in
      match el' with
      | Some e => Some (RAtom name e (x, y, z) occ b false [])
      | None => None
      end
  | _ => None
  end.

Definition rstep (st : rstate) (line0 : str) : option rstate :=
  if is_nil (strip line0) then Some st
  else
    let line := if (List.length line0 <? pdb_r_pad)%nat then rpad pdb_r_pad line0 else line0 in
    match record_of line with
    | None => None
    | Some rec =>
      if kw rec "TITLE" then
        let txt := rstrip (skipn pdb_r_title_from line) in
        if is_nil (strip (sl pdb_r_title_cont line)) then Some (RState txt (rs_cell st) (rs_atoms st))
        else Some (RState (rs_title st ++ txt) (rs_cell st) (rs_atoms st))
      else if kw rec "CRYST1" then
        match map_opt (fun r => parse_float (sl r line)) (pairs pdb_r_cryst1) with
        | Some l => match to_d6 l with Some c => Some (RState (rs_title st) (Some c) (rs_atoms st)) | None => None end
        | None => None
        end
      else if kw rec "ATOM" || kw rec "HETATM" then
        match parse_atom_record line with
        | Some a => Some (RState (rs_title st) (rs_cell st) (a :: rs_atoms st))
        | None => None
        end
      else if kw rec "ANISOU" then
        match rs_atoms st with
        | a :: r =>
            match map_opt parse_float (split_ws (sl pdb_r_anisou line)) with
            | Some (u1 :: u2 :: u3 :: u4 :: u5 :: u6 :: _) =>
                Some (RState (rs_title st) (rs_cell st)
                             (RAtom (r_name a) (r_el a) (r_rc a) (r_occ a) (r_B a) true [u1; u2; u3; u4; u5; u6] :: r))
            | _ => None
            end
        | [] => None
        end
      else if kw rec "SIGATM" || kw rec "SIGUIJ" || kw rec "SCALE1" || kw rec "SCALE2" || kw rec "SCALE3" then None   (* outside the model *)
      else if existsb (str_eqb rec) pdb_r_valid then Some st
      else None
    end.

Fixpoint rloop (st : rstate) (ls : list str) : option rstate :=
  match ls with [] => Some st | l :: r => match rstep st l with Some st' => rloop st' r | None => None end end.

Record rstru := RStru { q_title : str; q_cell : option d6; q_atoms : list ratom }.
Definition parse_pdb (lines : list str) : option rstru :=
  match rloop (RState [] None []) lines with
  | Some st => Some (RStru (rs_title st) (rs_cell st) (rev (rs_atoms st)))
  | None => None
  end.

Definition write_pdb (S : bstru) : option str := option_map text_of_lines (print_pdb S).
Definition read_pdb (t : str) : option rstru := parse_pdb (lines_of_text t).

(* ---- what the format carries ---- *)
Definition zdec (z : Z) : dec := Dec (z <? 0)%Z (Z.abs_N z) 0.
Definition canon_batom (a : batom) : ratom :=
  RAtom (b_name a) (b_el a) (q3 pdb_w_atom 0 (b_cart a)) (dq (fprec pdb_w_atom 3) (b_occ a)) (Some (dq (fprec pdb_w_atom 4) (b_B a)))
        (negb (b_iso a)) (if b_iso a then [] else map (fun z => dnorm (zdec z)) (uints (b_u a))).
Definition canon_pdb (S : bstru) : rstru :=
  RStru (rstrip (b_title S)) (if default_cell (b_cell S) then None else Some (q6 pdb_w_cryst1 (b_cell S))) (map canon_batom (b_atoms S)).

(* ---- representable range: every field fits its columns (and ANISOU integers leave a separating blank) ---- *)
Definition fits (f : list fitem) (a : list farg) : bool :=
  match render_sym f a with Some ps => sym_ok ps | None => false end.
Definition name_ok (t : str) : bool := no_ws t && nonempty t.
Definition repr_batom (serial : Z) (a : batom) : bool :=
  name_ok (b_name a) && name_ok (b_el a) && fits pdb_w_atom (atom_args serial a) &&
  (b_iso a || forallb (fun z => (List.length (int_body z) <? 7)%nat) (uints (b_u a)) &&
               (pdb_r_record_cols || (List.length (int_body serial) <? 5)%nat)).
Fixpoint repr_batoms (serial : Z) (l : list batom) : bool :=
  match l with [] => true | a :: r => repr_batom serial a && repr_batoms (serial + 1) r end.
Definition repr_pdb (S : bstru) : bool :=
  line_ok (b_title S) && (List.length (b_title S) <=? pdb_w_title_max)%nat &&
  (default_cell (b_cell S) || fits pdb_w_cryst1 (args6 (b_cell S)) &&
     (List.length (fix_body (fprec pdb_w_cryst1 0) (fst (fst (fst (b_cell S))))) <? 9)%nat) &&
  repr_batoms 1 (b_atoms S) &&
  fits pdb_w_ter [AInt (Z.of_nat (List.length (b_atoms S)) + 1); AStr []; AStr blank1; AInt 1; AStr blank1; AStr blank1].
