(* C08 - heap model of diffpy.structure.Structure as a list of atom objects in one lattice.

   A world is a heap of atom cells (payload tag = the label, lattice reference), a counter of
   lattice objects, and a table of live objects (Structure containers and plain Python lists).
   One total function per public operation, following src/diffpy/structure/structure.py statement
   by statement.  Every operation is a short composition of five primitives
     alloc_lat / relat / realize / install / new_struct
   so that the invariants are proved once per primitive (Proofs/C08_*.v).

   Two ghost flags record when the caller leaves the guarded fragment of the property:
     g_repoint : an existing atom was re-pointed to lattice L while another live Structure with a
                 lattice different from L holds it (shared selection + lattice assignment,
                 non-copying constructor/extend/append on atoms of another container);
     g_dup     : an atom was kept (not copied) into a slot while it occupies another slot, or a
                 selection repeated an index.
   The flags never influence the rest of the state.  No proofs in this file. *)
From Coq Require Import List ZArith Bool Arith.
Import ListNotations.
Open Scope nat_scope.

Definition aid := nat.   (* atom object identity = index into the heap *)
Definition lid := nat.   (* lattice object identity *)
Definition hid := nat.   (* handle of a live object = index into objs *)

(* what an atom carries besides its identity and lattice reference: element, label, position and occupancy,
   each abstracted to an integer tag (the harness maps tags to symbols / strings / exact binary fractions) *)
Record pay := mkPay { p_elem : Z; p_label : Z; p_xyz : Z; p_occ : Z }.
Definition pay0 : pay := mkPay 0 0 0 0.

(* a default atom with label and position tag t: element 0, occupancy 8/8 *)
Definition lab (t : Z) : pay := mkPay 0 t t 8.

Inductive col := ColElem | ColLabel | ColXyz | ColOcc.

Definition get_col (c : col) (p : pay) : Z :=
  match c with ColElem => p_elem p | ColLabel => p_label p | ColXyz => p_xyz p | ColOcc => p_occ p end.

Definition set_col (c : col) (v : Z) (p : pay) : pay :=
  match c with
  | ColElem => mkPay v (p_label p) (p_xyz p) (p_occ p)
  | ColLabel => mkPay (p_elem p) v (p_xyz p) (p_occ p)
  | ColXyz => mkPay (p_elem p) (p_label p) v (p_occ p)
  | ColOcc => mkPay (p_elem p) (p_label p) (p_xyz p) v
  end.

Record cell := mkCell { c_tag : pay; c_lat : option lid }.

Inductive obj :=
| OStruct (items : list aid) (lat : lid)
| OList (items : list aid).

Definition obj_items (o : obj) : list aid :=
  match o with OStruct its _ => its | OList its => its end.

Record world := mkW {
  heap : list cell;
  nlat : nat;
  objs : list obj;
  g_repoint : bool;
  g_dup : bool }.

Definition empty_world : world := mkW [] 0 [] false false.

(* variant of the source: the pinned tree (lazy generator in extend, no __setstate__) and the
   repaired tree *)
Record variant := mkVar { v_lazy_extend : bool; v_setstate : bool; v_fuel : nat }.
Definition current : variant := mkVar false true 0.
Definition pinned (fuel : nat) : variant := mkVar true false fuel.

Inductive exn := EIndex | EValue | EType | EBadObj.
Inductive result := RNone | RAtom (a : aid) | RObj (h : hid) | RVals (l : list Z).
Inductive outcome := Done (r : result) | Raised (e : exn) | Diverges.

(* ---------------------------------------------------------------- generic list helpers *)

Fixpoint upd_nth {A} (n : nat) (f : A -> A) (l : list A) : list A :=
  match l, n with
  | [], _ => []
  | x :: t, O => f x :: t
  | x :: t, S k => x :: upd_nth k f t
  end.

Definition memb (a : nat) (l : list nat) : bool := existsb (Nat.eqb a) l.

Fixpoint nodupb (l : list nat) : bool :=
  match l with
  | [] => true
  | x :: t => negb (memb x t) && nodupb t
  end.

(* elements of [old] at the given positions, in the order of the positions (invalid ones dropped) *)
Definition pick (old : list aid) (idxs : list nat) : list aid :=
  flat_map (fun i => match nth_error old i with Some a => [a] | None => [] end) idxs.

(* positions 0..n-1 not listed in [idxs] *)
Definition complement (n : nat) (idxs : list nat) : list nat :=
  filter (fun i => negb (memb i idxs)) (seq 0 n).

Fixpoint assign_all (old : list aid) (prs : list (nat * aid)) : list aid :=
  match prs with
  | [] => old
  | (i, a) :: t => assign_all (upd_nth i (fun _ => a) old) t
  end.

Fixpoint index_of (a : nat) (l : list nat) : option nat :=
  match l with
  | [] => None
  | x :: t => if Nat.eqb a x then Some 0 else option_map S (index_of a t)
  end.

(* first occurrences, in order *)
Fixpoint nodup_first (seen l : list nat) : list nat :=
  match l with
  | [] => []
  | x :: t => if memb x seen then nodup_first seen t else x :: nodup_first (x :: seen) t
  end.

Fixpoint repeat_list {A} (n : nat) (l : list A) : list A :=
  match n with O => [] | S k => l ++ repeat_list k l end.

Fixpoint existsb_i {A} (f : nat -> A -> bool) (i : nat) (l : list A) : bool :=
  match l with
  | [] => false
  | x :: t => f i x || existsb_i f (S i) t
  end.

Definition opt_nat_eqb (a b : option nat) : bool :=
  match a, b with
  | Some x, Some y => Nat.eqb x y
  | None, None => true
  | _, _ => false
  end.

(* ---------------------------------------------------------------- Python index arithmetic *)

Open Scope Z_scope.

(* list[i] for a Python int *)
Definition norm_index (len : nat) (i : Z) : option nat :=
  let n := Z.of_nat len in
  let j := if i <? 0 then i + n else i in
  if (0 <=? j) && (j <? n) then Some (Z.to_nat j) else None.

(* list.insert position *)
Definition clamp_insert (len : nat) (i : Z) : nat :=
  let n := Z.of_nat len in
  let j := if i <? 0 then i + n else i in
  if j <? 0 then O else if n <? j then len else Z.to_nat j.

Record pslice := mkSlice { s_start : option Z; s_stop : option Z; s_step : option Z }.

(* clipping of one slice bound (PySlice_AdjustIndices) *)
Definition slice_clip (n : Z) (neg : bool) (v : Z) : Z :=
  if v <? 0 then (let v' := v + n in if v' <? 0 then (if neg then -1 else 0) else v')
  else if n <=? v then (if neg then n - 1 else n) else v.

Definition slice_len (neg : bool) (start stop step : Z) : Z :=
  if neg then (if stop <? start then (start - stop - 1) / (- step) + 1 else 0)
  else (if start <? stop then (stop - start - 1) / step + 1 else 0).

(* PySlice_Unpack + PySlice_AdjustIndices: (start, stop, step, slicelength); None when step = 0 *)
Definition slice_adjust (len : nat) (s : pslice) : option (Z * Z * Z * Z) :=
  let n := Z.of_nat len in
  let step := match s_step s with Some k => k | None => 1 end in
  if step =? 0 then None else
  let neg := step <? 0 in
  let start := match s_start s with Some v => slice_clip n neg v | None => if neg then n - 1 else 0 end in
  let stop := match s_stop s with Some v => slice_clip n neg v | None => if neg then -1 else n end in
  Some (start, stop, step, slice_len neg start stop step).

Fixpoint arith_seq (k : nat) (start step : Z) : list nat :=
  match k with
  | O => []
  | S k' => Z.to_nat start :: arith_seq k' (start + step) step
  end.

Definition slice_indices (len : nat) (s : pslice) : option (list nat) :=
  match slice_adjust len s with
  | None => None
  | Some (start, _, step, slen) => Some (arith_seq (Z.to_nat slen) start step)
  end.

Close Scope Z_scope.

(* ---------------------------------------------------------------- heap access *)

Definition get_obj (w : world) (h : hid) : option obj := nth_error (objs w) h.

Definition tag_of (w : world) (a : aid) : pay :=
  match nth_error (heap w) a with Some c => c_tag c | None => pay0 end.

Definition lat_of (w : world) (a : aid) : option lid :=
  match nth_error (heap w) a with Some c => c_lat c | None => None end.

Definition set_obj (h : hid) (o : obj) (w : world) : world :=
  mkW (heap w) (nlat w) (upd_nth h (fun _ => o) (objs w)) (g_repoint w) (g_dup w).

Definition push_obj (o : obj) (w : world) : hid * world :=
  (length (objs w), mkW (heap w) (nlat w) (objs w ++ [o]) (g_repoint w) (g_dup w)).

Definition set_cell_lat (a : aid) (l : option lid) (w : world) : world :=
  mkW (upd_nth a (fun c => mkCell (c_tag c) l) (heap w)) (nlat w) (objs w) (g_repoint w) (g_dup w).

Definition set_cell_tag (a : aid) (f : pay -> pay) (w : world) : world :=
  mkW (upd_nth a (fun c => mkCell (f (c_tag c)) (c_lat c)) (heap w)) (nlat w) (objs w) (g_repoint w) (g_dup w).

Definition alloc_cell (c : cell) (w : world) : aid * world :=
  (length (heap w), mkW (heap w ++ [c]) (nlat w) (objs w) (g_repoint w) (g_dup w)).

Definition flag_repoint (b : bool) (w : world) : world :=
  mkW (heap w) (nlat w) (objs w) (g_repoint w || b) (g_dup w).

Definition flag_dup (b : bool) (w : world) : world :=
  mkW (heap w) (nlat w) (objs w) (g_repoint w) (g_dup w || b).

(* ---------------------------------------------------------------- the primitives *)

(* Lattice(...) : a new lattice object *)
Definition alloc_lat (w : world) : lid * world :=
  (nlat w, mkW (heap w) (S (nlat w)) (objs w) (g_repoint w) (g_dup w)).

(* does a live Structure other than [owner], whose lattice differs from L, hold atom a ? *)
Definition held_elsewhere (w : world) (owner : option hid) (a : aid) (L : lid) : bool :=
  existsb_i (fun i o =>
    match o with
    | OStruct its l => negb (opt_nat_eqb owner (Some i)) && negb (Nat.eqb l L) && memb a its
    | OList _ => false
    end) 0 (objs w).

(* `a.lattice = L` on an existing atom that is going to be held by [owner] *)
Definition repoint (owner : option hid) (L : lid) (a : aid) (w : world) : world :=
  set_cell_lat a (Some L) (flag_repoint (held_elsewhere w owner a L) w).

(* Structure.lattice setter: every member atom, then the container itself *)
Definition relat (h : hid) (L : lid) (w : world) : world :=
  match get_obj w h with
  | Some (OStruct its _) =>
      set_obj h (OStruct its L) (fold_left (fun w' a => repoint (Some h) L a w') its w)
  | _ => w
  end.

(* where the atoms placed into a container come from *)
Inductive src :=
| Keep (a : aid)     (* the object itself, its lattice reference is updated *)
| Dup (a : aid)      (* a new copy: Atom(a) / copy.copy(a) *)
| Fresh (t : pay).   (* Atom(...payload..., lattice=...) *)

Definition keeps (l : list src) : list aid :=
  flat_map (fun s => match s with Keep a => [a] | _ => [] end) l.

Definition src_atom (s : src) : option aid :=
  match s with Keep a => Some a | Dup a => Some a | Fresh _ => None end.

Definition realize1 (owner : option hid) (L : lid) (s : src) (w : world) : aid * world :=
  match s with
  | Keep a => (a, repoint owner L a w)
  | Dup a => alloc_cell (mkCell (tag_of w a) (Some L)) w
  | Fresh t => alloc_cell (mkCell t (Some L)) w
  end.

Fixpoint realize (owner : option hid) (L : lid) (l : list src) (w : world) : list aid * world :=
  match l with
  | [] => ([], w)
  | s :: t =>
      let '(a, w1) := realize1 owner L s w in
      let '(ids, w2) := realize owner L t w1 in
      (a :: ids, w2)
  end.

(* how the realised atoms enter the item list of the receiver *)
Inductive edit :=
| ERange (lo hi : nat)        (* items[lo:hi] = ids *)
| EAssign (idxs : list nat)   (* items[idxs[k]] = ids[k] *)
| EPick (idxs : list nat)     (* items = [items[i] for i in idxs]  (no new atoms) *)
| ENone.                      (* realise only, nothing is stored (not used by the current source) *)

Definition apply_edit (e : edit) (old ids : list aid) : list aid :=
  match e with
  | ERange lo hi => firstn lo old ++ ids ++ skipn hi old
  | EAssign idxs => assign_all old (combine idxs ids)
  | EPick idxs => pick old idxs
  | ENone => old
  end.

(* the slots of [old] that the edit leaves alone *)
Definition untouched (e : edit) (old : list aid) : list aid :=
  match e with
  | ERange lo hi => firstn lo old ++ skipn hi old
  | EAssign idxs => old      (* conservative: a kept member counts as a request for a repeated slot *)
  | EPick idxs => []
  | ENone => old
  end.

Definition edit_dup_flag (e : edit) (old : list aid) (srcs : list src) : bool :=
  match e with
  | ENone => false
  | EPick idxs => negb (nodupb idxs)
  | _ => negb (nodupb (keeps srcs ++ untouched e old))
  end.

(* realise the sources with the receiver's lattice, then edit the receiver's item list *)
Definition install (h : hid) (srcs : list src) (e : edit) (w : world) : world :=
  match get_obj w h with
  | Some (OStruct old L) =>
      let '(ids, w1) := realize (Some h) L srcs w in
      set_obj h (OStruct (apply_edit e old ids) L) (flag_dup (edit_dup_flag e old srcs) w1)
  | _ => w
  end.

(* a new Structure object with lattice L holding the realised sources (optionally re-selected) *)
Definition new_struct (L : lid) (srcs : list src) (sel : option (list nat)) (w : world) : hid * world :=
  let '(ids, w1) := realize None L srcs w in
  let its := match sel with None => ids | Some idxs => pick ids idxs end in
  let fl := negb (nodupb (keeps srcs)) || match sel with None => false | Some idxs => negb (nodupb idxs) end in
  push_obj (OStruct its L) (flag_dup fl w1).

(* ---------------------------------------------------------------- operations *)

Inductive copyflag := CNone | CTrue | CFalse.
Record aref := mkRef { r_obj : hid; r_idx : Z }.       (* objs[r_obj][r_idx] *)
Inductive lidx := LInt (i : Z) | LLab (t : Z).
Inductive latarg := LatNew | LatOf (h : hid).          (* Lattice(...) | objs[h].lattice *)

Inductive op :=
| NewStruct                                            (* Structure() *)
| NewList (tags : list pay)                            (* [Atom(payload) for ...] *)
| ListOf (l : list aref)                               (* [objs[o][i], ...] *)
| AddNewAtom (h : hid) (t : pay)                       (* s.addNewAtom(payload) *)
| Construct (s : hid) (l : option latarg)              (* Structure(objs[s] [, lattice=...]) *)
| Append (h : hid) (a : aref) (copy : bool)
| Insert (h : hid) (i : Z) (a : aref) (copy : bool)
| Extend (h : hid) (s : hid) (copy : copyflag)
| GetInt (h : hid) (i : Z)
| GetSlice (h : hid) (s : pslice)
| GetIdx (h : hid) (l : list lidx) (astuple : bool)
| GetMask (h : hid) (m : list bool)
| GetLabel (h : hid) (t : Z)
| SetInt (h : hid) (i : Z) (a : aref) (copy : bool)
| SetSlice (h : hid) (s : pslice) (v : hid) (copy : bool)
| DelInt (h : hid) (i : Z)
| DelSlice (h : hid) (s : pslice)
| Pop (h : hid) (i : option Z)
| Remove (h : hid) (a : aref)
| Reverse (h : hid)
| Clear (h : hid)
| Add (h : hid) (s : hid)
| Sub (h : hid) (s : hid)
| Mul (h : hid) (n : Z)
| IAdd (h : hid) (s : hid)
| ISub (h : hid) (s : hid)
| IMul (h : hid) (n : Z)
| Copy (h : hid)                                       (* s.copy() / copy.copy(s) *)
| CopyInto (h : hid) (t : hid)                         (* Structure.__copy__(s, target) *)
| SetLattice (h : hid) (l : latarg) (place : bool)     (* s.lattice = L / s.placeInLattice(L) *)
| Pickle (h : hid) (hi : bool)                         (* pickle.loads(pickle.dumps(s, proto)), hi: proto >= 2 *)
| DeepCopy (h : hid)
| Tolist (h : hid)
| SetCol (h : hid) (c : col) (tags : list Z)           (* s.label = [...] / s.element / s.xyz / s.occupancy *)
| Sort (h : hid) (key : option col) (rev : bool)       (* s.sort(key=..., reverse=...) ; no key: atoms are unorderable *)
| AssignUniqueLabels (h : hid)
| GetLast (h : hid)                                    (* s.getLastAtom() *)
| GetCol (h : hid) (c : col)                           (* s.label / s.element / s.xyz / s.occupancy (read) *)
| Composition (h : hid).                               (* s.composition *)

Definition resolve_aref (w : world) (r : aref) : option aid :=
  match get_obj w (r_obj r) with
  | Some o => match norm_index (length (obj_items o)) (r_idx r) with
              | Some k => nth_error (obj_items o) k
              | None => None
              end
  | None => None
  end.

Fixpoint resolve_arefs (w : world) (l : list aref) : option (list aid) :=
  match l with
  | [] => Some []
  | r :: t => match resolve_aref w r, resolve_arefs w t with
              | Some a, Some rest => Some (a :: rest)
              | _, _ => None
              end
  end.

Definition get_struct (w : world) (h : hid) : option (list aid * lid) :=
  match get_obj w h with Some (OStruct its L) => Some (its, L) | _ => None end.

Definition resolve_lat (w : world) (la : latarg) : option (lid * world) :=
  match la with
  | LatNew => Some (alloc_lat w)
  | LatOf k => match get_struct w k with Some (_, L) => Some (L, w) | None => None end
  end.

Definition bad (w : world) : world * outcome := (w, Raised EBadObj).

(* extend(atoms, copy=None) with a plain list: an atom already in the receiver (or seen earlier in
   the argument) is copied, a new one is taken as it is *)
Fixpoint memo_plan (memo : list aid) (atoms : list aid) : list src :=
  match atoms with
  | [] => []
  | a :: t => if memb a memo then Dup a :: memo_plan memo t else Keep a :: memo_plan (a :: memo) t
  end.

Definition copy_src (copy : bool) (a : aid) : src := if copy then Dup a else Keep a.

(* the pinned extend: list.extend consumes a generator that walks over the list being extended *)
Fixpoint lazy_self_extend (fuel i : nat) (cur : list aid) : option (list aid) :=
  match fuel with
  | O => None
  | S f => match nth_error cur i with
           | Some a => lazy_self_extend f (S i) (cur ++ [a])
           | None => Some cur
           end
  end.

Definition extend_plan (old : list aid) (src_is_struct : bool) (its : list aid) (copy : copyflag) : list src :=
  match copy with
  | CTrue => map Dup its
  | CFalse => map Keep its
  | CNone => if src_is_struct then map Dup its else memo_plan old its
  end.

Definition is_struct (o : obj) : bool := match o with OStruct _ _ => true | OList _ => false end.

Definition do_extend (v : variant) (h s : hid) (copy : copyflag) (w : world) : world * outcome :=
  match get_struct w h, get_obj w s with
  | Some (old, _), Some so =>
      if v_lazy_extend v && Nat.eqb h s &&
         match lazy_self_extend (v_fuel v) 0 old with None => true | Some _ => false end
      then (w, Diverges)
      else (install h (extend_plan old (is_struct so) (obj_items so) copy) (ERange (length old) (length old)) w,
            Done RNone)
  | _, _ => bad w
  end.

(* a shared selection: Structure() then rv.__dict__.update(...) then rv.extend(lst, copy=False) *)
Definition selection (L : lid) (sel : list aid) (w : world) : hid * world :=
  let '(_, w1) := alloc_lat w in
  new_struct L (map Keep sel) None w1.

(* copy.copy(stru) = Structure.__copy__(stru): Structure(), Lattice(self.lattice), target[:] = self *)
Definition do_copy (its : list aid) (w : world) : hid * world :=
  let '(_, w1) := alloc_lat w in
  let '(L', w2) := alloc_lat w1 in
  new_struct L' (map Dup its) None w2.

Fixpoint resolve_lidx (w : world) (old : list aid) (l : list lidx) : option (list Z) :=
  match l with
  | [] => Some []
  | LInt i :: t => option_map (cons i) (resolve_lidx w old t)
  | LLab lb :: t =>
      match filter (fun i => Z.eqb (p_label (tag_of w (nth i old 0))) lb) (seq 0 (length old)) with
      | [i] => option_map (cons (Z.of_nat i)) (resolve_lidx w old t)
      | _ => None
      end
  end.

Fixpoint norm_all (len : nat) (l : list Z) : option (list nat) :=
  match l with
  | [] => Some []
  | i :: t => match norm_index len i, norm_all len t with
              | Some k, Some r => Some (k :: r)
              | _, _ => None
              end
  end.

Definition mask_indices (m : list bool) : list nat :=
  flat_map (fun p : nat * bool => if snd p then [fst p] else []) (combine (seq 0 (length m)) m).

Fixpoint set_tags (c : col) (prs : list (aid * Z)) (w : world) : world :=
  match prs with
  | [] => w
  | (a, t) :: r => set_tags c r (set_cell_tag a (set_col c t) w)
  end.

(* stable insertion sort of positions by key (list.sort is stable, also with reverse=True) *)
Fixpoint insert_sorted (before : Z -> Z -> bool) (k : nat -> Z) (x : nat) (l : list nat) : list nat :=
  match l with
  | [] => [x]
  | y :: t => if before (k x) (k y) then x :: y :: t else y :: insert_sorted before k x t
  end.

Definition sort_positions (rev : bool) (keys : list Z) : list nat :=
  let k := fun i => nth i keys 0%Z in
  let before := if rev then Z.geb else Z.leb in
  fold_right (insert_sorted before k) [] (seq 0 (length keys)).

(* assignUniqueLabels: every distinct atom object, in order, gets <bare element symbol><running number>;
   the label tag of element e, number n is -(1000 e + n) *)
Fixpoint count_elem (e : Z) (l : list Z) : Z :=
  match l with [] => 0%Z | x :: t => ((if Z.eqb x e then 1 else 0) + count_elem e t)%Z end.

Fixpoint unique_labels (w : world) (seen : list aid) (elems : list Z) (its : list aid) : list (aid * Z) :=
  match its with
  | [] => []
  | a :: t =>
      if memb a seen then unique_labels w seen elems t
      else let e := p_elem (tag_of w a) in
           (a, (- (1000 * e + (count_elem e elems + 1)))%Z) :: unique_labels w (a :: seen) (e :: elems) t
  end.

(* composition: element -> total occupancy, in order of first appearance, every slot counted *)
Fixpoint add_comp (e o : Z) (acc : list (Z * Z)) : list (Z * Z) :=
  match acc with
  | [] => [(e, o)]
  | (e', o') :: t => if Z.eqb e e' then (e', (o' + o)%Z) :: t else (e', o') :: add_comp e o t
  end.

Definition composition_of (w : world) (its : list aid) : list Z :=
  flat_map (fun p : Z * Z => [fst p; snd p])
           (fold_left (fun acc a => add_comp (p_elem (tag_of w a)) (p_occ (tag_of w a)) acc) its []).

(* pickle round trip on the pinned tree (no __setstate__): protocol 0/1 fills the list directly, every
   atom keeps a copy of its OWN lattice reference; protocol >= 2 appends through extend while the
   lattice of the new object is still the class default None *)
Definition pickle_pinned (old : list aid) (L : lid) (hi : bool) (w : world) : hid * world :=
  let '(L', w1) := alloc_lat w in
  if hi then
    let '(ids, w2) := realize None L' (map Dup old) w1 in
    let w3 := fold_left (fun w' a => set_cell_lat a None w') ids w2 in
    push_obj (OStruct ids L') w3
  else
    let distinct := nodup_first [] old in
    (* lattices reachable from the atoms, the container's own first *)
    let lats := nodup_first [] (L :: flat_map (fun a => match lat_of w a with Some l => [l] | None => [] end) distinct) in
    let base := nlat w in      (* copy of the k-th lattice of [lats] gets id base + k; L' = base *)
    let w2 := mkW (heap w1) (base + length lats) (objs w1) (g_repoint w1) (g_dup w1) in
    let '(ids, w3) := realize None L' (map Dup distinct) w2 in
    let w4 := fold_left (fun w' p =>
                 set_cell_lat (snd p)
                   (match lat_of w (fst p) with
                    | Some l => option_map (fun k => base + k) (index_of l lats)
                    | None => None end) w') (combine distinct ids) w3 in
    let its := pick ids (flat_map (fun a => match index_of a distinct with Some k => [k] | None => [] end) old) in
    push_obj (OStruct its L') w4.

Definition step (v : variant) (o : op) (w : world) : world * outcome :=
  match o with
  | NewStruct =>
      let '(L, w1) := alloc_lat w in
      let '(h, w2) := new_struct L [] None w1 in (w2, Done (RObj h))
  | NewList tags =>
      let '(ids, w1) := fold_left (fun acc t => let '(a, w') := alloc_cell (mkCell t None) (snd acc) in
                                               (fst acc ++ [a], w')) tags ([], w) in
      let '(h, w2) := push_obj (OList ids) w1 in (w2, Done (RObj h))
  | ListOf l =>
      match resolve_arefs w l with
      | Some ids => let '(h, w1) := push_obj (OList ids) w in (w1, Done (RObj h))
      | None => (w, Raised EIndex)
      end
  | AddNewAtom h t =>
      match get_struct w h with
      | Some (old, _) => (install h [Fresh t] (ERange (length old) (length old)) w, Done RNone)
      | None => bad w
      end
  | Construct s la =>
      match get_obj w s with
      | Some so =>
          (* the lattice argument is evaluated before the constructor runs *)
          match (match la with None => Some (None, w) | Some a =>
                   match resolve_lat w a with Some (L, w') => Some (Some L, w') | None => None end end) with
          | None => bad w
          | Some (given, w0) =>
              match so with
              | OStruct its _ =>
                  (* Structure.__copy__(atoms, self); then the lattice override re-points every atom *)
                  let '(L', w1) := alloc_lat w0 in
                  let '(h, w2) := new_struct L' (map Dup its) None w1 in
                  (match given with Some L => relat h L w2 | None => w2 end, Done (RObj h))
              | OList its =>
                  let '(L, w1) := match given with Some L => (L, w0) | None => alloc_lat w0 end in
                  let '(h, w2) := new_struct L (memo_plan [] its) None w1 in (w2, Done (RObj h))
              end
          end
      | None => bad w
      end
  | Append h r copy =>
      match get_struct w h, resolve_aref w r with
      | Some (old, _), Some a => (install h [copy_src copy a] (ERange (length old) (length old)) w, Done RNone)
      | Some _, None => (w, Raised EIndex)
      | None, _ => bad w
      end
  | Insert h i r copy =>
      match get_struct w h, resolve_aref w r with
      | Some (old, _), Some a =>
          let p := clamp_insert (length old) i in
          (install h [copy_src copy a] (ERange p p) w, Done RNone)
      | Some _, None => (w, Raised EIndex)
      | None, _ => bad w
      end
  | Extend h s copy => do_extend v h s copy w
  | GetInt h i =>
      match get_struct w h with
      | Some (old, _) =>
          match norm_index (length old) i with
          | Some k => match nth_error old k with Some a => (w, Done (RAtom a)) | None => (w, Raised EIndex) end
          | None => (w, Raised EIndex)
          end
      | None => bad w
      end
  | GetSlice h s =>
      match get_struct w h with
      | Some (old, L) =>
          match slice_indices (length old) s with
          | Some idxs => let '(hn, w1) := selection L (pick old idxs) w in (w1, Done (RObj hn))
          | None => (w, Raised EValue)
          end
      | None => bad w
      end
  | GetIdx h l astuple =>
      match get_struct w h with
      | Some (old, L) =>
          match l, astuple with
          | [], true => (w, Raised EValue)         (* numpy.r_[()] *)
          | _, _ =>
              match resolve_lidx w old l with
              | None => (w, Raised EIndex)
              | Some zs =>
                  match norm_all (length old) zs with
                  | None => (w, Raised EIndex)
                  | Some idxs =>
                      let '(_, w0) := alloc_lat w in       (* the discarded Lattice() of Structure() *)
                      let '(hn, w1) := new_struct L (map Keep (pick old idxs)) None w0 in
                      (w1, Done (RObj hn))
                  end
              end
          end
      | None => bad w
      end
  | GetMask h m =>
      match get_struct w h with
      | Some (old, L) =>
          (* numpy accepts a boolean index of size 0 for any length *)
          if Nat.eqb (length m) (length old) || Nat.eqb (length m) 0
          then let '(hn, w1) := selection L (pick old (mask_indices m)) w in (w1, Done (RObj hn))
          else (w, Raised EIndex)
      | None => bad w
      end
  | GetLabel h t =>
      match get_struct w h with
      | Some (old, _) =>
          match resolve_lidx w old [LLab t] with
          | Some [z] => match nth_error old (Z.to_nat z) with
                        | Some a => (w, Done (RAtom a)) | None => (w, Raised EIndex) end
          | _ => (w, Raised EIndex)
          end
      | None => bad w
      end
  | SetInt h i r copy =>
      match get_struct w h, resolve_aref w r with
      | Some (old, _), Some a =>
          (* list.__setitem__ first, vfinal.lattice = self.lattice only after it succeeded *)
          match norm_index (length old) i with
          | Some k => (install h [copy_src copy a] (ERange k (S k)) w, Done RNone)
          | None => (w, Raised EIndex)
          end
      | Some _, None => (w, Raised EIndex)
      | None, _ => bad w
      end
  | SetSlice h s vh copy =>
      match get_struct w h, get_obj w vh with
      | Some (old, _), Some vo =>
          match slice_adjust (length old) s, slice_indices (length old) s with
          | Some (start, stop, stp, slen), Some idxs =>
              let keep := pick old idxs in
              let srcs := map (fun a => if copy && negb (memb a keep) then Dup a else Keep a) (obj_items vo) in
              if Z.eqb stp 1 then
                let lo := Z.to_nat start in
                let hi := Nat.max lo (Z.to_nat stop) in
                (install h srcs (ERange lo hi) w, Done RNone)
              else if Nat.eqb (length srcs) (length idxs)
              then (install h srcs (EAssign idxs) w, Done RNone)
              else (w, Raised EValue)      (* size mismatch of an extended slice: nothing stored, nothing re-linked *)
          | _, _ => (w, Raised EValue)
          end
      | _, _ => bad w
      end
  | DelInt h i =>
      match get_struct w h with
      | Some (old, _) =>
          match norm_index (length old) i with
          | Some k => (install h [] (EPick (complement (length old) [k])) w, Done RNone)
          | None => (w, Raised EIndex)
          end
      | None => bad w
      end
  | DelSlice h s =>
      match get_struct w h with
      | Some (old, _) =>
          match slice_indices (length old) s with
          | Some idxs => (install h [] (EPick (complement (length old) idxs)) w, Done RNone)
          | None => (w, Raised EValue)
          end
      | None => bad w
      end
  | Pop h io =>
      match get_struct w h with
      | Some (old, _) =>
          match norm_index (length old) (match io with Some i => i | None => (-1)%Z end) with
          | Some k => match nth_error old k with
                      | Some a => (install h [] (EPick (complement (length old) [k])) w, Done (RAtom a))
                      | None => (w, Raised EIndex) end
          | None => (w, Raised EIndex)
          end
      | None => bad w
      end
  | Remove h r =>
      match get_struct w h, resolve_aref w r with
      | Some (old, _), Some a =>
          match index_of a old with
          | Some k => (install h [] (EPick (complement (length old) [k])) w, Done RNone)
          | None => (w, Raised EValue)
          end
      | Some _, None => (w, Raised EIndex)
      | None, _ => bad w
      end
  | Reverse h =>
      match get_struct w h with
      | Some (old, _) => (install h [] (EPick (rev (seq 0 (length old)))) w, Done RNone)
      | None => bad w
      end
  | Clear h =>
      match get_struct w h with
      | Some (old, _) => (install h [] (EPick []) w, Done RNone)
      | None => bad w
      end
  | Add h s =>
      match get_struct w h, get_obj w s with
      | Some (old, _), Some so =>
          let '(hn, w1) := do_copy old w in
          (install hn (map Dup (obj_items so)) (ERange (length old) (length old)) w1, Done (RObj hn))
      | _, _ => bad w
      end
  | Sub h s =>
      match get_struct w h, get_obj w s with
      | Some (old, L), Some so =>
          let sel := filter (fun a => negb (memb a (obj_items so))) old in
          (* self[keepindices] is a temporary shared selection: its atoms get self.lattice again *)
          let '(_, w0) := alloc_lat w in
          let '(_, w1) := realize None L (map Keep sel) w0 in
          let '(hn, w2) := do_copy sel w1 in (w2, Done (RObj hn))
      | _, _ => bad w
      end
  | Mul h n =>
      match get_struct w h with
      | Some (old, _) =>
          let '(_, w0) := alloc_lat w in                     (* self[:0] *)
          let '(hn, w1) := do_copy [] w0 in
          (install hn (map Dup (repeat_list (Z.to_nat n) old)) (ERange 0 0) w1, Done (RObj hn))
      | None => bad w
      end
  | IAdd h s =>
      match do_extend v h s CTrue w with
      | (w1, Done _) => (w1, Done (RObj h))
      | r => r
      end
  | ISub h s =>
      match get_struct w h, get_obj w s with
      | Some (old, _), Some so =>
          let sel := filter (fun a => negb (memb a (obj_items so))) old in
          (install h (map Keep sel) (ERange 0 (length old)) w, Done (RObj h))
      | _, _ => bad w
      end
  | IMul h n =>
      match get_struct w h with
      | Some (old, _) =>
          if (n <=? 0)%Z then (install h [] (ERange 0 (length old)) w, Done (RObj h))
          else (install h (map Dup (repeat_list (Z.to_nat (n - 1)) old)) (ERange (length old) (length old)) w,
                Done (RObj h))
      | None => bad w
      end
  | Copy h =>
      match get_struct w h with
      | Some (old, _) => let '(hn, w1) := do_copy old w in (w1, Done (RObj hn))
      | None => bad w
      end
  | CopyInto h t =>
      match get_struct w h, get_struct w t with
      | Some (old, _), Some (told, _) =>
          if Nat.eqb h t then (w, Done (RObj t)) else
          let '(L', w1) := alloc_lat w in
          let w2 := relat t L' w1 in
          let srcs := map (fun a => if memb a told then Keep a else Dup a) old in
          (install t srcs (ERange 0 (length told)) w2, Done (RObj t))
      | _, _ => bad w
      end
  | SetLattice h la _ =>
      match get_struct w h with
      | Some _ => match resolve_lat w la with
                  | Some (L, w1) => (relat h L w1, Done RNone)
                  | None => bad w
                  end
      | None => bad w
      end
  | Pickle h hi =>
      match get_struct w h with
      | Some (old, L) =>
          if v_setstate v then
            let '(L', w1) := alloc_lat w in
            if hi then let '(hn, w2) := new_struct L' (map Dup old) None w1 in (w2, Done (RObj hn))
            else
              let distinct := nodup_first [] old in
              let sel := flat_map (fun a => match index_of a distinct with Some k => [k] | None => [] end) old in
              let '(hn, w2) := new_struct L' (map Dup distinct) (Some sel) w1 in (w2, Done (RObj hn))
          else let '(hn, w1) := pickle_pinned old L hi w in (w1, Done (RObj hn))
      | None => bad w
      end
  | DeepCopy h =>
      match get_struct w h with
      | Some (old, _) =>
          let '(L', w1) := alloc_lat w in
          let '(hn, w2) := new_struct L' (map Dup old) None w1 in (w2, Done (RObj hn))
      | None => bad w
      end
  | Tolist h =>
      match get_struct w h with
      | Some (old, _) => let '(hn, w1) := push_obj (OList old) w in (w1, Done (RObj hn))
      | None => bad w
      end
  | SetCol h c tags =>
      match get_struct w h with
      | Some (old, _) =>
          match old, tags with
          | [], _ => (w, Done RNone)
          | _, [t] => (set_tags c (map (fun a => (a, t)) old) w, Done RNone)
          | _, _ => if Nat.eqb (length tags) (length old)
                    then (set_tags c (combine old tags) w, Done RNone)
                    else (w, Raised EValue)
          end
      | None => bad w
      end
  | Sort h key rev =>
      match get_struct w h with
      | Some (old, _) =>
          match key with
          | Some c => (install h [] (EPick (sort_positions rev (map (fun a => get_col c (tag_of w a)) old))) w, Done RNone)
          | None => if Nat.leb (length old) 1 then (w, Done RNone) else (w, Raised EType)
          end
      | None => bad w
      end
  | AssignUniqueLabels h =>
      match get_struct w h with
      | Some (old, _) => (set_tags ColLabel (unique_labels w [] [] old) w, Done RNone)
      | None => bad w
      end
  | GetLast h =>
      match get_struct w h with
      | Some (old, _) => match nth_error (rev old) 0 with
                         | Some a => (w, Done (RAtom a)) | None => (w, Raised EIndex) end
      | None => bad w
      end
  | GetCol h c =>
      match get_struct w h with
      | Some (old, _) => (w, Done (RVals (map (fun a => get_col c (tag_of w a)) old)))
      | None => bad w
      end
  | Composition h =>
      match get_struct w h with
      | Some (old, _) => (w, Done (RVals (composition_of w old)))
      | None => bad w
      end
  end.

Definition run (v : variant) (ops : list op) (w : world) : world :=
  fold_left (fun w' o => fst (step v o w')) ops w.
