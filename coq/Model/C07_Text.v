(* C07 - text layer shared by the CIF-number reader (leading_float) and the symmetry-operator reader
   (getSymOp): ASCII character classes, the scanner for the unsigned number
       DIGITS [ '.' [DIGITS] ]  |  '.' DIGITS ,   followed by an optional exponent  [eE] [sign] DIGITS
   of p_cif.py's rx_float / _rx_symop_number, exact decimal values, and `leading_float` itself.
   Model file: definitions only (lemmas in Proofs/C07_Text.v). *)
From Coq Require Import ZArith List Bool QArith Ascii String.
From DS Require Import Model.C11_LookupDefs.
Import ListNotations.
Open Scope Z_scope.

(* ---- characters ---- *)
Definition is_digit (c : ascii) : bool := let n := nat_of_ascii c in ((48 <=? n) && (n <=? 57))%nat.
Definition digit_val (c : ascii) : Z := Z.of_nat (nat_of_ascii c) - 48.
Definition is_sign (c : ascii) : bool := Ascii.eqb c "+"%char || Ascii.eqb c "-"%char.
Definition sign_val (c : ascii) : Z := if Ascii.eqb c "-"%char then -1 else 1.
Definition is_e (c : ascii) : bool := Ascii.eqb c "e"%char || Ascii.eqb c "E"%char.
Definition is_dot (c : ascii) : bool := Ascii.eqb c "."%char.

(* longest prefix of characters satisfying p, and the rest *)
Fixpoint span (p : ascii -> bool) (s : string) : string * string :=
  match s with
  | EmptyString => (EmptyString, EmptyString)
  | String c r => if p c then let '(a, b) := span p r in (String c a, b) else (EmptyString, s)
  end.
Fixpoint digits_val (acc : Z) (s : string) : Z :=
  match s with EmptyString => acc | String c r => digits_val (acc * 10 + digit_val c) r end.
Fixpoint all_chars (p : ascii -> bool) (s : string) : bool :=
  match s with EmptyString => true | String c r => p c && all_chars p r end.
Definition slen (s : string) : Z := Z.of_nat (String.length s).

(* ---- exact decimal numbers: d_m * 10^d_e ---- *)
Record dec := Dec { d_m : Z; d_e : Z }.
Definition dec_Q (d : dec) : Q :=
  if 0 <=? d_e d then inject_Z (d_m d * 10 ^ d_e d) else Qred (Qmake (d_m d) (Z.to_pos (10 ^ (- d_e d)))).
Definition dec_opp (d : dec) : dec := Dec (- d_m d) (d_e d).

(* ---- mantissa  DIGITS ['.' [DIGITS]] | '.' DIGITS  : (digits as integer, number of fraction digits, rest) ---- *)
Definition scan_mant (s : string) : option (Z * Z * string) :=
  let '(ip, r1) := span is_digit s in
  match ip with
  | String _ _ =>
      match r1 with
      | String c r2 =>
          if is_dot c then let '(fp, r3) := span is_digit r2 in Some (digits_val (digits_val 0 ip) fp, slen fp, r3)
          else Some (digits_val 0 ip, 0, r1)
      | EmptyString => Some (digits_val 0 ip, 0, r1)
      end
  | EmptyString =>
      match s with
      | String c r2 =>
          if is_dot c then
            let '(fp, r3) := span is_digit r2 in
            match fp with EmptyString => None | String _ _ => Some (digits_val 0 fp, slen fp, r3) end
          else None
      | EmptyString => None
      end
  end.

Definition take_sign (s : string) : Z * string :=
  match s with String c r => if is_sign c then (sign_val c, r) else (1, s) | EmptyString => (1, s) end.

(* optional exponent  [eE] [sign] DIGITS  : taken only when at least one digit follows *)
Definition scan_exp (s : string) : Z * string :=
  match s with
  | String c r =>
      if is_e c then
        let '(sg, r1) := take_sign r in
        let '(ed, r2) := span is_digit r1 in
        match ed with EmptyString => (0, s) | String _ _ => (sg * digits_val 0 ed, r2) end
      else (0, s)
  | EmptyString => (0, s)
  end.

(* unsigned number with optional exponent *)
Definition scan_num (s : string) : option (dec * string) :=
  match scan_mant s with
  | None => None
  | Some (m, nf, r) => let '(e, r') := scan_exp r in Some (Dec m (e - nf), r')
  end.

(* rx_float = optional sign, mantissa, optional exponent, matched at the start of the string (re.match) *)
Definition scan_signed (s : string) : option (dec * string) :=
  let '(sg, r) := take_sign s in
  match scan_num r with
  | Some (d, r') => Some (Dec (sg * d_m d) (d_e d), r')
  | None => None
  end.

(* the whole string is a number of the rx_float grammar *)
Definition is_numeric (s : string) : bool :=
  match scan_signed s with Some (_, EmptyString) => true | _ => false end.

(* what float() still accepts when rx_float does not match: inf / infinity / nan, any case, optional sign *)
Definition is_special (s : string) : bool :=
  let '(_, r) := take_sign s in
  let l := py_lower r in
  String.eqb l "inf"%string || String.eqb l "infinity"%string || String.eqb l "nan"%string.

(* leading_float(s, d): number / the default d ("." or "?") / a non-finite float / ValueError *)
Inductive lfres := LFnum (d : dec) | LFdefault | LFspecial | LFerr.
Definition leading_float (s : string) : lfres :=
  let b := py_strip s in
  match scan_signed b with
  | Some (d, _) => LFnum d
  | None => if String.eqb b "."%string || String.eqb b "?"%string then LFdefault
            else if is_special b then LFspecial else LFerr
  end.

(* first character of the text that may follow a number without being absorbed by the scanner:
   not a digit, not '.', not e/E, not a sign (the "(" of a standard-uncertainty suffix qualifies) *)
Definition stop_char (c : ascii) : bool := negb (is_digit c || is_dot c || is_e c || is_sign c).
Definition stop_head (t : string) : bool := match t with EmptyString => true | String c _ => stop_char c end.
