(* C02 - Symmetry expansion of a site returns exactly its crystallographic orbit.
   Statements only; proofs live in Proofs/C02_*.v.  `all_settings` is regenerated from /repo on every run.

   Model (Model/C02_Orbit.v): a site is an integer triple k standing for k/D with 12 | D; operations (R, 12 t)
   come from the tables; apply_op D (R,t) k = R k + t*(D/12); red D = componentwise mod D;
   img D g off x = red (g (x + off) - off)   [what expandPosition computes for sgoffset = off]. *)
From Coq Require Import ZArith List Bool Permutation.
From DS Require Import Base.ZMat Base.SGDefs Model.GroupCheck Model.C02_Orbit Model.C02_Eps Gen.SGTables.
From DS Require Import Proofs.C02_Action Proofs.C02_Expand Proofs.C02_OrbitStab Proofs.C02_EpsSound Proofs.C02_All.
Open Scope Z_scope.

(* For ANY operation list that is a group modulo lattice translations (the C03 predicate), any modulus D > 0
   with 12 | D, any site and any origin offset: the positions are pairwise distinct, inside the cell, the input
   site comes first, they are exactly the images of the site, every operation is attributed to exactly the one
   position it generates (ops = fibres, the lists partition G), multiplicity = number of positions, and
   multiplicity * |site symmetry| = |G|. *)
Theorem C02_expand_exact_any_group : forall D G off x, IsGroup G -> 0 < D -> (12 | D) ->
  let '(pos, ops, m) := expand_exact D G off x in
  NoDup pos /\ (forall p, In p pos -> in_cell D p) /\ hd_error pos = Some (red D x) /\
  (forall p, In p pos <-> exists g, In g G /\ p = img D g off x) /\
  attribution_ok D G off x pos ops /\ Permutation (concat ops) G /\ m = List.length pos /\
  (m * List.length (stab D G off x))%nat = List.length G.
Proof. exact expand_exact_spec. Qed.
Print Assumptions C02_expand_exact_any_group.

(* the same for every tabulated setting (uses C03's decision that each of them is a group) *)
Theorem C02_orbit_all_settings : forall s D off x, In s all_settings -> 0 < D -> (12 | D) ->
  let G := sg_ops s in
  let '(pos, ops, m) := expand_exact D G off x in
  NoDup pos /\ (forall p, In p pos -> in_cell D p) /\ hd_error pos = Some (red D x) /\
  (forall p, In p pos <-> exists g, In g G /\ p = img D g off x) /\
  attribution_ok D G off x pos ops /\ Permutation (concat ops) G /\ m = List.length pos /\
  (m * List.length (stab D G off x))%nat = List.length G.
Proof. exact expand_exact_spec_tabulated. Qed.
Print Assumptions C02_orbit_all_settings.

(* all operations in the fibre of an image: |fibre| = |site symmetry| (cosets of the stabiliser) *)
Theorem C02_fibres_are_cosets : forall D G off x, IsGroup G -> 0 < D -> (12 | D) -> forall g0, In g0 G ->
  List.length (fibre D G off x (img D g0 off x)) = List.length (stab D G off x).
Proof. exact fibre_size. Qed.
Print Assumptions C02_fibres_are_cosets.

(* the action respects composition modulo D *)
Theorem C02_action_respects_composition : forall D a b y, (12 | D) ->
  veqm D (apply_op D (compose a b) y) (apply_op D a (apply_op D b y)).
Proof. exact apply_compose. Qed.
Print Assumptions C02_action_respects_composition.

(* Model/C02_Eps.v is a line-by-line model of expandPosition (bucket tuples of _Position2Tuple with the exact
   value of the double (1e-5+1.0)-1.0, nearestSiteIndex = first minimum of the periodic box distance,
   equalPositions with the exact value of the double 1e-5, the dictionary of shared list objects).
   For ANY operation list (no group hypothesis needed) and any site whose distinct images are farther apart
   than 2e-5 in periodic box distance, it returns exactly the exact expansion. *)
Theorem C02_eps_refines_exact : forall D G off x, 0 < D -> separated D G off x ->
  expand_eps D G off x = expand_exact D G off x.
Proof. exact expand_eps_exact. Qed.
Print Assumptions C02_eps_refines_exact.

(* hence the tolerance algorithm returns the orbit with all clauses, for every tabulated setting and every
   separated site (general or exactly on a special position, outside the cell, shifted origin) *)
Theorem C02_eps_orbit_all_settings : forall s D off x, In s all_settings -> 0 < D -> (12 | D) ->
  separated D (sg_ops s) off x ->
  let G := sg_ops s in
  let '(pos, ops, m) := expand_eps D G off x in
  NoDup pos /\ (forall p, In p pos -> in_cell D p) /\ hd_error pos = Some (red D x) /\
  (forall p, In p pos <-> exists g, In g G /\ p = img D g off x) /\
  attribution_ok D G off x pos ops /\ Permutation (concat ops) G /\ m = List.length pos /\
  (m * List.length (stab D G off x))%nat = List.length G.
Proof. exact expand_eps_spec_tabulated. Qed.
Print Assumptions C02_eps_orbit_all_settings.

(* PARTIAL: sites within tolerance of a special position (images closer than 2e-5 but not equal) are outside
   the separation hypothesis; there the model provably differs from the exact expansion of the given site
   (it merges, Example eps_merges_within_tolerance) and the statement "the result is the orbit structure of the
   nearby special position", as well as the snap step of GeneratorSite, is established by the correspondence
   check (model = implementation) plus the exact-fraction oracle only. *)
Theorem C02_near_special_partial :
  let G := (I3, v0) :: (M3 (-1) 0 0 0 (-1) 0 0 0 (-1), v0) :: nil in
  snd (expand_eps 120000000 G v0 (V3 12 0 0)) = 1%nat /\ snd (expand_exact 120000000 G v0 (V3 12 0 0)) = 2%nat.
Proof. exact eps_merges_within_tolerance. Qed.
Print Assumptions C02_near_special_partial.
