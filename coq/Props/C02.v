(* C02 - Symmetry expansion of a site returns exactly its crystallographic orbit.
   Statements only; proofs live in Proofs/C02_*.v.  `all_settings` is regenerated from /repo on every run.

   Model (Model/C02_Orbit.v): a site is an integer triple k standing for k/D with 12 | D; operations (R, 12 t)
   come from the tables; apply_op D (R,t) k = R k + t*(D/12); red D = componentwise mod D;
   img D g off x = red (g (x + off) - off)   [what expandPosition computes for sgoffset = off]. *)
From Coq Require Import ZArith List Bool Permutation.
From DS Require Import Base.ZMat Base.SGDefs Model.GroupCheck Model.C02_Orbit Model.C02_Eps Model.C02_Gen Model.C02_EpsTol Gen.SGTables.
From DS Require Import Proofs.C02_Action Proofs.C02_Expand Proofs.C02_OrbitStab Proofs.C02_EpsSound Proofs.C02_NearSpecial Proofs.C02_GenSound Proofs.C02_GenCheck Proofs.C02_Metric Proofs.C02_EpsTol
  Proofs.C02_NearSpecialTol Proofs.C02_GenSoundTol Proofs.C02_GenCheckTol Proofs.C02_All.
Open Scope Z_scope.

(* For ANY operation list that is a group modulo lattice translations (the C03 predicate), any modulus D > 0
   with 12 | D, any site and any origin offset: the positions are pairwise distinct, inside the cell, the input
   site comes first, they are exactly the images of the site, every operation is attributed to exactly the one
   position it generates (ops = fibres, the lists partition G), multiplicity = number of positions, and
   multiplicity * |site symmetry| = |G|. *)
Theorem C02_expand_exact_any_group : forall D G off x, IsGroup G -> 0 < D -> (12 | D) ->
  let '(pos, ops, m) := expand_exact D G off x in
  NoDup pos /\ (forall p, In p pos -> in_cell D p) /\ hd_error pos = Some (red D x) /\
  (forall p, In p pos <-> exists g, In g G /\ p = img D g off x) /\
  attribution_ok D G off x pos ops /\ Permutation (concat ops) G /\ m = List.length pos /\
  (m * List.length (stab D G off x))%nat = List.length G.
Proof. exact expand_exact_spec. Qed.
Print Assumptions C02_expand_exact_any_group.

(* the same for every tabulated setting (uses C03's decision that each of them is a group) *)
Theorem C02_orbit_all_settings : forall s D off x, In s all_settings -> 0 < D -> (12 | D) ->
  let G := sg_ops s in
  let '(pos, ops, m) := expand_exact D G off x in
  NoDup pos /\ (forall p, In p pos -> in_cell D p) /\ hd_error pos = Some (red D x) /\
  (forall p, In p pos <-> exists g, In g G /\ p = img D g off x) /\
  attribution_ok D G off x pos ops /\ Permutation (concat ops) G /\ m = List.length pos /\
  (m * List.length (stab D G off x))%nat = List.length G.
Proof. exact expand_exact_spec_tabulated. Qed.
Print Assumptions C02_orbit_all_settings.

(* all operations in the fibre of an image: |fibre| = |site symmetry| (cosets of the stabiliser) *)
Theorem C02_fibres_are_cosets : forall D G off x, IsGroup G -> 0 < D -> (12 | D) -> forall g0, In g0 G ->
  List.length (fibre D G off x (img D g0 off x)) = List.length (stab D G off x).
Proof. exact fibre_size. Qed.
Print Assumptions C02_fibres_are_cosets.

(* the action respects composition modulo D *)
Theorem C02_action_respects_composition : forall D a b y, (12 | D) ->
  veqm D (apply_op D (compose a b) y) (apply_op D a (apply_op D b y)).
Proof. exact apply_compose. Qed.
Print Assumptions C02_action_respects_composition.

(* Model/C02_Eps.v is a line-by-line model of expandPosition (bucket tuples of _Position2Tuple with the exact
   value of the double (1e-5+1.0)-1.0, nearestSiteIndex = first minimum of the periodic box distance,
   equalPositions with the exact value of the double 1e-5, the dictionary of shared list objects).
   For ANY operation list (no group hypothesis needed) and any site whose distinct images are farther apart
   than 2e-5 in periodic box distance, it returns exactly the exact expansion. *)
Theorem C02_eps_refines_exact : forall D G off x, 0 < D -> separated D G off x ->
  expand_eps D G off x = expand_exact D G off x.
Proof. exact expand_eps_exact. Qed.
Print Assumptions C02_eps_refines_exact.

(* hence the tolerance algorithm returns the orbit with all clauses, for every tabulated setting and every
   separated site (general or exactly on a special position, outside the cell, shifted origin) *)
Theorem C02_eps_orbit_all_settings : forall s D off x, In s all_settings -> 0 < D -> (12 | D) ->
  separated D (sg_ops s) off x ->
  let G := sg_ops s in
  let '(pos, ops, m) := expand_eps D G off x in
  NoDup pos /\ (forall p, In p pos -> in_cell D p) /\ hd_error pos = Some (red D x) /\
  (forall p, In p pos <-> exists g, In g G /\ p = img D g off x) /\
  attribution_ok D G off x pos ops /\ Permutation (concat ops) G /\ m = List.length pos /\
  (m * List.length (stab D G off x))%nat = List.length G.
Proof. exact expand_eps_spec_tabulated. Qed.
Print Assumptions C02_eps_orbit_all_settings.

(* ---- sites within tolerance of a special position (replaces the former C02_near_special_partial) ----
   x is "within tolerance of x0" when images of x that belong to one image of x0 are within eps = 1e-5 of each
   other (within_tol) and images that belong to different images of x0 are farther apart than 2e-5 (between_far).
   Then the tolerance algorithm, run on x, returns the orbit STRUCTURE of x0: the same attribution lists (fibres of
   x0, a permutation of G), the same multiplicity with multiplicity * |site symmetry of x0| = |G|, every position
   represented by the image of x under the first operation attributed to it, the input site first.
   (The model follows the dictionary of shared list objects literally, including the aliasing of a new bucket
   key to the list of the nearest position and the unreachable fresh lists.) *)
Theorem C02_eps_near_special : forall D G off x x0, IsGroup G -> 0 < D -> (12 | D) ->
  within_tol D G off x x0 -> between_far D G off x x0 ->
  let '(pos0, ops0, m0) := expand_exact D G off x0 in
  expand_eps D G off x = (map (rep_of D off x) ops0, ops0, m0) /\
  hd_error (map (rep_of D off x) ops0) = Some (red D x) /\
  (forall l, In l ops0 -> exists g, In g l /\ rep_of D off x l = img D g off x) /\
  attribution_ok D G off x0 pos0 ops0 /\ Permutation (concat ops0) G /\
  (m0 * List.length (stab D G off x0))%nat = List.length G.
Proof. exact near_special_spec. Qed.
Print Assumptions C02_eps_near_special.

Theorem C02_eps_near_special_all_settings : forall s D off x x0, In s all_settings -> 0 < D -> (12 | D) ->
  within_tol D (sg_ops s) off x x0 -> between_far D (sg_ops s) off x x0 ->
  let G := sg_ops s in
  let '(pos0, ops0, m0) := expand_exact D G off x0 in
  expand_eps D G off x = (map (rep_of D off x) ops0, ops0, m0) /\
  hd_error (map (rep_of D off x) ops0) = Some (red D x) /\
  (forall l, In l ops0 -> exists g, In g l /\ rep_of D off x l = img D g off x) /\
  attribution_ok D G off x0 pos0 ops0 /\ Permutation (concat ops0) G /\
  (m0 * List.length (stab D G off x0))%nat = List.length G.
Proof. exact near_special_spec_tabulated. Qed.
Print Assumptions C02_eps_near_special_all_settings.

(* without any group hypothesis: the algorithm on x returns exactly the lists and multiplicity of the exact
   expansion of x0 *)
Theorem C02_eps_near_special_any_list : forall D G off x x0, 0 < D ->
  within_tol D G off x x0 -> between_far D G off x x0 ->
  let '(pos0, ops0, m0) := expand_exact D G off x0 in
  expand_eps D G off x = (map (rep_of D off x) ops0, ops0, m0).
Proof. exact expand_eps_near_special. Qed.
Print Assumptions C02_eps_near_special_any_list.

(* ---- GeneratorSite.__init__, position part (Model/C02_Gen.v: _findInvariants, dxyz - dxyz.round() summed over
   the invariants, the `len(invariants) > 1` guard, `numpy.any(dxyz != 0)`, zeroing below eps, re-expansion);
   the mean divides by n = len(invariants), so the adjusted site lives on the grid D n ---- *)

(* an exact (separated) site is returned unchanged, with the exact expansion and invariants = its site symmetry *)
Theorem C02_snap_identity_on_exact_sites : forall D G off x, IsGroup G -> 0 < D -> (12 | D) -> separated D G off x ->
  generator_site D G off x =
  let '(pos, ops, m) := expand_exact D G off x in Some (GSite D x off pos ops m (stab D G off x)).
Proof. exact snap_identity_on_exact_sites. Qed.
Print Assumptions C02_snap_identity_on_exact_sites.

(* a site within tolerance of x0 (within_tol, between_far), displaced by less than half a cell under the site
   symmetry S of x0 (small_v), |S| > 1, is moved to
       snapped / (D n) = x0 + (1/n) sum_{h in S} R_h (x - x0)          (n = |S|)
   i.e. onto the special position of x0 (every operation of S fixes it), and - if the moved site is separated and has
   no nonzero coordinate below eps - the reported expansion is the exact expansion of the moved site and the
   reported invariants are its site symmetry. *)
Theorem C02_snap_fixes_site : forall D G off x x0, IsGroup G -> 0 < D -> (12 | D) ->
  within_tol D G off x x0 -> between_far D G off x x0 ->
  let S := stab D G off x0 in let n := Z.of_nat (List.length S) in
  (forall h, In h S -> small_v D (vsub (mvec (fst h) (vsub x x0)) (vsub x x0))) ->
  (1 < List.length S)%nat ->
  let xs := snapped D G off x x0 in
  xs <> vscale n x -> zero_small (D * n) xs = xs -> separated (D * n) G (vscale n off) xs ->
  generator_site D G off x =
    (let '(pos, ops, m) := expand_exact (D * n) G (vscale n off) xs in
     Some (GSite (D * n) xs (vscale n off) pos ops m (stab (D * n) G (vscale n off) xs)))
  /\ incl S (stab (D * n) G (vscale n off) xs).
Proof. exact snap_fixes_site. Qed.
Print Assumptions C02_snap_fixes_site.

(* the same with every hypothesis decided by computation (snap_hyps_b), for all tabulated settings *)
Theorem C02_snap_fixes_site_all_settings : forall s D off x x0, In s all_settings -> 0 < D -> (12 | D) ->
  snap_hyps_b D (sg_ops s) off x x0 = true ->
  let G := sg_ops s in
  let n := Z.of_nat (List.length (stab D G off x0)) in
  let xs := snapped_site D G off x x0 in
  generator_site D G off x =
    (let '(pos, ops, m) := expand_exact (D * n) G (vscale n off) xs in
     Some (GSite (D * n) xs (vscale n off) pos ops m (stab (D * n) G (vscale n off) xs)))
  /\ incl (stab D G off x0) (stab (D * n) G (vscale n off) xs).
Proof. exact snap_fixes_tabulated. Qed.
Print Assumptions C02_snap_fixes_site_all_settings.

(* the reported invariants are exactly the site symmetry of x0 unless the moved site falls onto a position that is
   more special than x0 *)
Theorem C02_snapped_invariants_are_stab_x0 : forall D G off x x0, IsGroup G -> 0 < D -> (12 | D) ->
  within_tol D G off x x0 -> between_far D G off x x0 ->
  let S := stab D G off x0 in let n := Z.of_nat (List.length S) in let xs := snapped D G off x x0 in
  (forall h, In h S -> small_v D (vsub (mvec (fst h) (vsub x x0)) (vsub x x0))) ->
  (1 < List.length S)%nat ->
  (forall g, In g G -> img D g off x0 <> red D x0 -> img (D * n) g (vscale n off) xs <> red (D * n) xs) ->
  stab (D * n) G (vscale n off) xs = S.
Proof. exact snapped_invariants_are_stab_x0. Qed.
Print Assumptions C02_snapped_invariants_are_stab_x0.

(* a site that already lies on the special position of x0 (displaced along its free directions only) is kept;
   the reported structure is that of x0 carried by the images of x, invariants = site symmetry of x0 *)
Theorem C02_snap_keeps_invariant_site : forall D G off x x0, IsGroup G -> 0 < D -> (12 | D) ->
  within_tol D G off x x0 -> between_far D G off x x0 ->
  let S := stab D G off x0 in let n := Z.of_nat (List.length S) in
  (forall h, In h S -> small_v D (vsub (mvec (fst h) (vsub x x0)) (vsub x x0))) ->
  (1 < List.length S)%nat -> snapped D G off x x0 = vscale n x ->
  generator_site D G off x =
  let '(pos0, ops0, m0) := expand_exact D G off x0 in Some (GSite D x off (map (rep_of D off x) ops0) ops0 m0 S).
Proof. exact snap_keeps_invariant_site. Qed.
Print Assumptions C02_snap_keeps_invariant_site.

(* ---- ExpandAsymmetricUnit.__init__ = one GeneratorSite per core position ---- *)
Theorem C02_expand_asym_exact_sites : forall D G off sites, IsGroup G -> 0 < D -> (12 | D) ->
  (forall y, In y sites -> separated D G off y) ->
  expand_asym D G off sites =
  Some (Asym (map (fun y => snd (expand_exact D G off y)) sites)
             (map (fun y => (D, fst (fst (expand_exact D G off y)))) sites)).
Proof. exact expand_asym_exact_sites. Qed.
Print Assumptions C02_expand_asym_exact_sites.

(* ---- "within tolerance" in metric terms: if every coordinate of x differs from x0 by at most tau, rotations have
   entries in {-1,0,1} (C03's entries_ok), the images of x0 are pairwise equal or at least M apart in periodic box
   distance, 6 tau <= eps and M - 6 tau > 2e-5, then within_tol and between_far hold (triangle inequality on the
   torus), so the theorems above apply ---- *)
Theorem C02_near_from_metric : forall D G off x x0 tau M, 0 < D -> (forall o, In o G -> entries_ok o = true) ->
  vnorm_le tau (vsub x x0) -> 6 * tau * eps_eq_den <= eps_eq_num * D ->
  (forall g h, In g G -> In h G -> img D g off x0 <> img D h off x0 -> M <= boxdist D (img D g off x0) (img D h off x0)) ->
  2 * D < 100000 * (M - 6 * tau) ->
  within_tol D G off x x0 /\ between_far D G off x x0.
Proof. exact near_from_metric. Qed.
Print Assumptions C02_near_from_metric.

(* ---- the `eps` ARGUMENT (Model/C02_EpsTol.v) ----
   expandPosition(spacegroup, xyz, sgoffset, eps) works with TWO tolerances: the caller's eps (None -> 1e-5) in the
   neighbour test equalPositions, and the bin width (eps + 1.0) - 1.0 = rint(eps 2^52)/2^52 of _Position2Tuple in the
   bucket test, with the exact mode (tuple = the coordinates themselves) when that width is 0.
   `tol_of eps` computes both from the exact rational value of the double passed as eps. *)

(* For ANY well-formed pair of tolerances and any operation list: a site whose distinct images are farther apart than
   BOTH the caller's eps AND the bin width (separated_t refers to both: far_t) is expanded exactly. *)
Theorem C02_eps_any_tolerance : forall T, tol_wf T -> forall D G off x, 0 < D -> separated_t T D G off x ->
  expand_eps_t T D G off x = expand_exact D G off x.
Proof. exact expand_eps_t_exact. Qed.
Print Assumptions C02_eps_any_tolerance.

(* eps = 0 is the exact mode: EVERY site (no separation hypothesis) is expanded exactly - images that differ at all
   are reported as distinct positions *)
Theorem C02_eps_zero_is_exact : forall D G off x, 0 < D ->
  expand_eps_t (tol_of (Some (0, 1))) D G off x = expand_exact D G off x.
Proof. intros D G off x HD. apply expand_eps_exact_mode; [exact tol_zero_exact | exact HD]. Qed.
Print Assumptions C02_eps_zero_is_exact.

(* eps = None is the model of the previous theorems; their bound 2e-5 exceeds both default tolerances *)
Theorem C02_eps_default_instance :
  tol_of None = default_tol /\
  (forall D G off x, expand_eps_t default_tol D G off x = expand_eps D G off x) /\
  (forall D G off x, generator_site_t default_tol D G off x = generator_site D G off x) /\
  (forall D p q, 0 < D -> far D p q -> far_t default_tol D p q).
Proof.
  split; [exact tol_of_default|]. split; [exact expand_eps_t_default|]. split; [exact generator_site_t_default | exact far_default].
Qed.
Print Assumptions C02_eps_default_instance.

(* the two tolerances must agree: neighbour tolerance 0 with a 1e-5 bin width merges two distinct images *)
Theorem C02_mismatched_tolerances_merge :
  let G := (I3, v0) :: (M3 (-1) 0 0 0 (-1) 0 0 0 (-1), v0) :: nil in
  let D := 12 * 2 ^ 22 in let off := V3 98400 0 0 in let x := V3 (D - 98400 + 12) 0 (D / 2) in
  snd (expand_eps_t (Tol 0 1 eps_b_num eps_b_den) D G off x) = 1%nat /\
  snd (expand_eps_t (tol_of (Some (0, 1))) D G off x) = 2%nat /\
  snd (expand_exact D G off x) = 2%nat.
Proof. exact mismatched_tolerances_merge. Qed.
Print Assumptions C02_mismatched_tolerances_merge.

(* ==== round 4: the near-special, snap and ExpandAsymmetricUnit theorems for ANY well-formed tolerances ====
   T ranges over pairs (caller's eps, bin width); `tol_of eps` is such a pair for every eps argument in [0,1).
   within_tol_t T : images of x belonging to one image of x0 are within the CALLER'S eps of each other;
   between_far_t T : images belonging to different images of x0 are farther apart than BOTH tolerances. *)

Theorem C02_eps_near_special_any_tolerance : forall T D G off x x0, tol_wf T -> IsGroup G -> 0 < D -> (12 | D) ->
  within_tol_t T D G off x x0 -> between_far_t T D G off x x0 ->
  let '(pos0, ops0, m0) := expand_exact D G off x0 in
  expand_eps_t T D G off x = (map (rep_of_t D off x) ops0, ops0, m0) /\
  hd_error (map (rep_of_t D off x) ops0) = Some (red D x) /\
  (forall l, In l ops0 -> exists g, In g l /\ rep_of_t D off x l = img D g off x) /\
  attribution_ok D G off x0 pos0 ops0 /\ Permutation (concat ops0) G /\
  (m0 * List.length (stab D G off x0))%nat = List.length G.
Proof. exact near_special_spec_t. Qed.
Print Assumptions C02_eps_near_special_any_tolerance.

Theorem C02_eps_near_special_any_tolerance_all_settings : forall T s D off x x0, tol_wf T -> In s all_settings -> 0 < D -> (12 | D) ->
  within_tol_t T D (sg_ops s) off x x0 -> between_far_t T D (sg_ops s) off x x0 ->
  let G := sg_ops s in
  let '(pos0, ops0, m0) := expand_exact D G off x0 in
  expand_eps_t T D G off x = (map (rep_of_t D off x) ops0, ops0, m0) /\
  hd_error (map (rep_of_t D off x) ops0) = Some (red D x) /\
  (forall l, In l ops0 -> exists g, In g l /\ rep_of_t D off x l = img D g off x) /\
  attribution_ok D G off x0 pos0 ops0 /\ Permutation (concat ops0) G /\
  (m0 * List.length (stab D G off x0))%nat = List.length G.
Proof. exact near_special_spec_t_tabulated. Qed.
Print Assumptions C02_eps_near_special_any_tolerance_all_settings.

Theorem C02_near_from_metric_any_tolerance : forall T D G off x x0 tau M, tol_wf T -> 0 < D ->
  (forall o, In o G -> entries_ok o = true) ->
  vnorm_le tau (vsub x x0) -> 6 * tau * tq_den T <= tq_num T * D ->
  (forall g h, In g G -> In h G -> img D g off x0 <> img D h off x0 -> M <= boxdist D (img D g off x0) (img D h off x0)) ->
  tq_num T * D < tq_den T * (M - 6 * tau) -> tb_num T * D < tb_den T * (M - 6 * tau) ->
  within_tol_t T D G off x x0 /\ between_far_t T D G off x x0.
Proof. exact near_from_metric_t. Qed.
Print Assumptions C02_near_from_metric_any_tolerance.

(* GeneratorSite(..., eps) *)
Theorem C02_snap_identity_any_tolerance : forall T D G off x, tol_wf T -> IsGroup G -> 0 < D -> (12 | D) ->
  separated_t T D G off x ->
  generator_site_t T D G off x =
  let '(pos, ops, m) := expand_exact D G off x in Some (GSite D x off pos ops m (stab D G off x)).
Proof. exact snap_identity_on_exact_sites_t. Qed.
Print Assumptions C02_snap_identity_any_tolerance.

Theorem C02_snap_fixes_site_any_tolerance : forall T, tol_wf T -> forall D G off x x0, IsGroup G -> 0 < D -> (12 | D) ->
  within_tol_t T D G off x x0 -> between_far_t T D G off x x0 ->
  let S := stab D G off x0 in let n := Z.of_nat (List.length S) in
  (forall h, In h S -> small_v D (vsub (mvec (fst h) (vsub x x0)) (vsub x x0))) ->
  (1 < List.length S)%nat ->
  let xs := snapped D G off x x0 in
  xs <> vscale n x -> zero_small_t T (D * n) xs = xs -> separated_t T (D * n) G (vscale n off) xs ->
  generator_site_t T D G off x =
    (let '(pos, ops, m) := expand_exact (D * n) G (vscale n off) xs in
     Some (GSite (D * n) xs (vscale n off) pos ops m (stab (D * n) G (vscale n off) xs)))
  /\ incl S (stab (D * n) G (vscale n off) xs).
Proof. exact snap_fixes_site_t. Qed.
Print Assumptions C02_snap_fixes_site_any_tolerance.

Theorem C02_snap_fixes_site_any_tolerance_all_settings : forall T s D off x x0, tol_wf T -> In s all_settings -> 0 < D -> (12 | D) ->
  snap_hyps_tb T D (sg_ops s) off x x0 = true ->
  let G := sg_ops s in
  let n := Z.of_nat (List.length (stab D G off x0)) in
  let xs := snapped_site D G off x x0 in
  generator_site_t T D G off x =
    (let '(pos, ops, m) := expand_exact (D * n) G (vscale n off) xs in
     Some (GSite (D * n) xs (vscale n off) pos ops m (stab (D * n) G (vscale n off) xs)))
  /\ incl (stab D G off x0) (stab (D * n) G (vscale n off) xs).
Proof. exact snap_fixes_tabulated_t. Qed.
Print Assumptions C02_snap_fixes_site_any_tolerance_all_settings.

Theorem C02_snapped_invariants_any_tolerance : forall T D G off x x0, IsGroup G -> 0 < D -> (12 | D) ->
  within_tol_t T D G off x x0 -> between_far_t T D G off x x0 ->
  let S := stab D G off x0 in let n := Z.of_nat (List.length S) in let xs := snapped D G off x x0 in
  (forall h, In h S -> small_v D (vsub (mvec (fst h) (vsub x x0)) (vsub x x0))) ->
  (1 < List.length S)%nat ->
  (forall g, In g G -> img D g off x0 <> red D x0 -> img (D * n) g (vscale n off) xs <> red (D * n) xs) ->
  stab (D * n) G (vscale n off) xs = S.
Proof. exact snapped_invariants_are_stab_x0_t. Qed.
Print Assumptions C02_snapped_invariants_any_tolerance.

Theorem C02_snap_keeps_invariant_site_any_tolerance : forall T, tol_wf T -> forall D G off x x0, IsGroup G -> 0 < D -> (12 | D) ->
  within_tol_t T D G off x x0 -> between_far_t T D G off x x0 ->
  let S := stab D G off x0 in let n := Z.of_nat (List.length S) in
  (forall h, In h S -> small_v D (vsub (mvec (fst h) (vsub x x0)) (vsub x x0))) ->
  (1 < List.length S)%nat -> snapped D G off x x0 = vscale n x ->
  generator_site_t T D G off x =
  let '(pos0, ops0, m0) := expand_exact D G off x0 in Some (GSite D x off (map (rep_of_t D off x) ops0) ops0 m0 S).
Proof. exact snap_keeps_invariant_site_t. Qed.
Print Assumptions C02_snap_keeps_invariant_site_any_tolerance.

(* ExpandAsymmetricUnit(..., eps) = one GeneratorSite(..., eps) per core position *)
Theorem C02_expand_asym_any_tolerance : forall T D G off sites, tol_wf T -> IsGroup G -> 0 < D -> (12 | D) ->
  (forall y, In y sites -> separated_t T D G off y) ->
  expand_asym_t T D G off sites =
  Some (Asym (map (fun y => snd (expand_exact D G off y)) sites)
             (map (fun y => (D, fst (fst (expand_exact D G off y)))) sites)).
Proof. exact expand_asym_exact_sites_t. Qed.
Print Assumptions C02_expand_asym_any_tolerance.

(* with eps = 0, for every tabulated setting, ExpandAsymmetricUnit is exact on EVERY list of sites *)
Theorem C02_expand_asym_eps_zero_all_settings : forall s D off sites, In s all_settings -> 0 < D -> (12 | D) ->
  expand_asym_t (tol_of (Some (0, 1))) D (sg_ops s) off sites =
  Some (Asym (map (fun y => snd (expand_exact D (sg_ops s) off y)) sites)
             (map (fun y => (D, fst (fst (expand_exact D (sg_ops s) off y)))) sites)).
Proof. exact expand_asym_eps_zero. Qed.
Print Assumptions C02_expand_asym_eps_zero_all_settings.
