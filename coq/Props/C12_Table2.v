(* C12 - rejection table, second part: the texts of the pdb, xcfg and cif WRITER models of C04 read by the xyz, rawxyz, pdffit
   and discus parser models (conc_*, see Props/C12_Table.v).  `four_reject ls` = all four of these parsers reject the text.
   Still measured only: the rows of the pdb, xcfg and cif READERS.  Statements only; proofs in Proofs/C12_RejectCells{Pdb,Xcfg,Cif}.v
   and Proofs/C12_Table2.v. *)
From Coq Require Import List Bool Arith ZArith.
From DS Require Import Base.C13_Exn Proofs.C13_ExnLemmas Gen.C12_ParserIndex Model.C12_Auto.
From DS Require Import Base.C04_Text Base.C04_Decimal Model.C04_Fmt Model.C04_Pdb Model.C04_Xcfg Model.C04_Cif.
From DS Require Import Model.C12_Conc Proofs.C12_RejectBase Proofs.C12_RejectCellsXcfg Proofs.C12_RejectCellsCif Proofs.C12_Table Proofs.C12_Table2.
From Coq Require Import Ascii String.
Import ListNotations.
Close Scope N_scope.
Open Scope nat_scope.
Open Scope string_scope.

Section Cells2.
  Variable lattice_of : list dec -> res unit.
  Variable mulZ : dec -> Z -> res dec.
  Variable set_lat_par : list (list dec) -> list dec -> res unit.
  Variable cell_pars : list (list dec) -> list dec.
  Hypothesis lattice_kinds : forall l, within [ValueError; ZeroDivisionError] (lattice_of l).
  Hypothesis mulZ_kinds : forall v z, within [OverflowError] (mulZ v z).
  Hypothesis set_lat_par_kinds : forall h l, within [ValueError; ZeroDivisionError] (set_lat_par h l).

  (* four cells each: xyz, rawxyz, pdffit, discus reading the text.  pdb: no condition at all (every record starts with one of
     T C A E, the END record has one field); xcfg: representable and no element symbol is the word `cell`; cif: element symbols
     without blanks (site labels = symbol ++ digits) *)
  Theorem C12_cells_pdb_text : forall St ls, print_pdb St = Some ls -> four_reject lattice_of mulZ set_lat_par cell_pars ls.
  Proof. exact (four_reject_pdb lattice_of mulZ set_lat_par cell_pars lattice_kinds mulZ_kinds set_lat_par_kinds). Qed.
  Theorem C12_cells_xcfg_text : forall St ls, repr_xcfg St = true -> xcfg_elements_not_cell St = true -> print_xcfg St = Some ls ->
    four_reject lattice_of mulZ set_lat_par cell_pars ls.
  Proof. exact (four_reject_xcfg lattice_of mulZ set_lat_par cell_pars lattice_kinds mulZ_kinds set_lat_par_kinds). Qed.
  Theorem C12_cells_cif_text : forall St ls, cif_elements_plain St = true -> print_cif St = Some ls ->
    four_reject lattice_of mulZ set_lat_par cell_pars ls.
  Proof. exact (four_reject_cif lattice_of mulZ set_lat_par cell_pars lattice_kinds mulZ_kinds set_lat_par_kinds). Qed.

  (* detection on these texts, for every file name: hypotheses left = own-format acceptance and rejection by the two other
     unmodelled parsers *)
  Theorem C12_auto_written_pdb_partial : forall St ls others fn n, print_pdb St = Some ls ->
    others "pdb" = Ok (Some n) -> rejects others "cif" -> rejects others "xcfg" ->
    auto (table_parser lattice_of mulZ set_lat_par cell_pars ls others) fn = AOk "pdb" n.
  Proof. exact (auto_written_pdb lattice_of mulZ set_lat_par cell_pars lattice_kinds mulZ_kinds set_lat_par_kinds). Qed.
  Theorem C12_auto_written_xcfg_partial : forall St ls others fn n, repr_xcfg St = true -> xcfg_elements_not_cell St = true ->
    print_xcfg St = Some ls -> others "xcfg" = Ok (Some n) -> rejects others "cif" -> rejects others "pdb" ->
    auto (table_parser lattice_of mulZ set_lat_par cell_pars ls others) fn = AOk "xcfg" n.
  Proof. exact (auto_written_xcfg lattice_of mulZ set_lat_par cell_pars lattice_kinds mulZ_kinds set_lat_par_kinds). Qed.
  Theorem C12_auto_written_cif_partial : forall St ls others fn n, cif_elements_plain St = true -> print_cif St = Some ls ->
    others "cif" = Ok (Some n) -> rejects others "pdb" -> rejects others "xcfg" ->
    auto (table_parser lattice_of mulZ set_lat_par cell_pars ls others) fn = AOk "cif" n.
  Proof. exact (auto_written_cif lattice_of mulZ set_lat_par cell_pars lattice_kinds mulZ_kinds set_lat_par_kinds). Qed.
End Cells2.

Print Assumptions C12_cells_pdb_text.
Print Assumptions C12_cells_xcfg_text.
Print Assumptions C12_cells_cif_text.
Print Assumptions C12_auto_written_cif_partial.
