(* C12 - the rejection table for the xyz, rawxyz, pdffit and discus formats, as theorems.
   parse_g  = the C13 control-flow model of P_g.parseLines (Model/C13_*.v) with its tokeniser / number oracles instantiated by
              the C04 codecs (Model/C12_Conc.v: conc_xyz, conc_rawxyz, conc_pdffit, conc_discus; geometry stays abstract,
              within its declared exception kinds);
   print_f  = the C04 writer model of P_f.toLines (Model/C04_*.v), repr_f its representable structures.
   `rejected r` : r is Raise FormatError or Raise NotImplemented (what the detection loop treats as a rejection).
   Statements only; proofs in Proofs/C12_RejectBase.v, C12_RejectCells.v, C12_Table.v. *)
From Coq Require Import List Bool Arith ZArith.
From DS Require Import Base.C13_Exn Proofs.C13_ExnLemmas Gen.C12_ParserIndex Model.C12_Auto.
From DS Require Import Base.C04_Text Base.C04_Decimal Model.C04_Fmt Model.C04_Xyz Model.C04_Rawxyz Model.C04_Pdffit Model.C04_Discus.
From DS Require Import Model.C12_Conc Proofs.C12_RejectBase Proofs.C12_RejectCells Proofs.C12_Table.
From Coq Require Import Ascii String.
Import ListNotations.
Close Scope N_scope.
Open Scope nat_scope.
Open Scope string_scope.

Section Cells.
  Variable lattice_of : list dec -> res unit.
  Variable mulZ : dec -> Z -> res dec.
  Variable set_lat_par : list (list dec) -> list dec -> res unit.
  Variable cell_pars : list (list dec) -> list dec.
  Hypothesis lattice_kinds : forall l, within [ValueError; ZeroDivisionError] (lattice_of l).
  Hypothesis mulZ_kinds : forall v z, within [OverflowError] (mulZ v z).
  Hypothesis set_lat_par_kinds : forall h l, within [ValueError; ZeroDivisionError] (set_lat_par h l).

  (* reader xyz *)
  Theorem C12_cell_xyz_rawxyz : forall St ls, repr_rawxyz St = true -> x_atoms St <> [] -> print_rawxyz St = Some ls -> conc_xyz ls = Raise FormatError.
  Proof. exact cell_xyz_rawxyz. Qed.
  Theorem C12_cell_xyz_pdffit : forall St ls, print_pdffit St = Some ls -> conc_xyz ls = Raise FormatError.
  Proof. exact cell_xyz_pdffit. Qed.
  Theorem C12_cell_xyz_discus : forall St ls, print_discus St = Some ls -> conc_xyz ls = Raise FormatError.
  Proof. exact cell_xyz_discus. Qed.
  (* reader rawxyz *)
  Theorem C12_cell_rawxyz_xyz : forall St ls, print_xyz St = Some ls -> rejected (conc_rawxyz ls).
  Proof. exact cell_rawxyz_xyz. Qed.
  Theorem C12_cell_rawxyz_pdffit : forall St ls, print_pdffit St = Some ls -> rejected (conc_rawxyz ls).
  Proof. exact cell_rawxyz_pdffit. Qed.
  Theorem C12_cell_rawxyz_discus : forall St ls, print_discus St = Some ls -> rejected (conc_rawxyz ls).
  Proof. exact cell_rawxyz_discus. Qed.
  (* reader pdffit; side conditions: no title / element that reads as the word `cell`; for discus text, no element symbol
     that reads as a number *)
  Theorem C12_cell_pdffit_xyz : forall St ls, repr_xyz St = true -> xyz_no_cell_word St = true -> print_xyz St = Some ls ->
    conc_pdffit lattice_of mulZ ls = Raise FormatError.
  Proof. exact (cell_pdffit_xyz lattice_of mulZ lattice_kinds mulZ_kinds). Qed.
  Theorem C12_cell_pdffit_rawxyz : forall St ls, repr_rawxyz St = true -> elements_not_cell (x_atoms St) = true -> print_rawxyz St = Some ls ->
    conc_pdffit lattice_of mulZ ls = Raise FormatError.
  Proof. exact (cell_pdffit_rawxyz lattice_of mulZ lattice_kinds mulZ_kinds). Qed.
  Theorem C12_cell_pdffit_discus : forall St ls, repr_discus St = true -> d_atoms St <> [] -> discus_elements_not_numbers St = true ->
    print_discus St = Some ls -> conc_pdffit lattice_of mulZ ls = Raise FormatError.
  Proof. exact (cell_pdffit_discus lattice_of mulZ lattice_kinds mulZ_kinds). Qed.
  (* reader discus *)
  Theorem C12_cell_discus_xyz : forall St ls, repr_xyz St = true -> xyz_no_cell_word St = true -> print_xyz St = Some ls ->
    rejected (conc_discus lattice_of mulZ set_lat_par cell_pars ls).
  Proof. exact (cell_discus_xyz lattice_of mulZ set_lat_par cell_pars lattice_kinds mulZ_kinds set_lat_par_kinds). Qed.
  Theorem C12_cell_discus_rawxyz : forall St ls, repr_rawxyz St = true -> elements_not_cell (x_atoms St) = true -> print_rawxyz St = Some ls ->
    rejected (conc_discus lattice_of mulZ set_lat_par cell_pars ls).
  Proof. exact (cell_discus_rawxyz lattice_of mulZ set_lat_par cell_pars lattice_kinds mulZ_kinds set_lat_par_kinds). Qed.
  Theorem C12_cell_discus_pdffit : forall St ls, print_pdffit St = Some ls ->
    rejected (conc_discus lattice_of mulZ set_lat_par cell_pars ls).
  Proof. exact (cell_discus_pdffit lattice_of mulZ set_lat_par cell_pars lattice_kinds mulZ_kinds set_lat_par_kinds). Qed.

  (* ---- detection on the texts of the four writers: for EVERY file name the written format and its structure are returned,
     given that the text's own parser accepts it (diagonal, measured / C04 round trip) and that the three parsers without
     a proved row - cif, pdb, xcfg - reject it (the remaining measured hypothesis) ---- *)
  Theorem C12_auto_written_xyz_partial : forall St ls others fn n,
    repr_xyz St = true -> xyz_no_cell_word St = true -> print_xyz St = Some ls -> conc_xyz ls = Ok n ->
    others_reject others -> auto (table_parser lattice_of mulZ set_lat_par cell_pars ls others) fn = AOk "xyz" n.
  Proof. exact (auto_written_xyz lattice_of mulZ set_lat_par cell_pars lattice_kinds mulZ_kinds set_lat_par_kinds). Qed.
  Theorem C12_auto_written_rawxyz_partial : forall St ls others fn n,
    repr_rawxyz St = true -> x_atoms St <> [] -> elements_not_cell (x_atoms St) = true -> print_rawxyz St = Some ls ->
    conc_rawxyz ls = Ok n -> others_reject others ->
    auto (table_parser lattice_of mulZ set_lat_par cell_pars ls others) fn = AOk "rawxyz" n.
  Proof. exact (auto_written_rawxyz lattice_of mulZ set_lat_par cell_pars lattice_kinds mulZ_kinds set_lat_par_kinds). Qed.
  Theorem C12_auto_written_pdffit_partial : forall St ls others fn n,
    print_pdffit St = Some ls -> conc_pdffit lattice_of mulZ ls = Ok n -> others_reject others ->
    auto (table_parser lattice_of mulZ set_lat_par cell_pars ls others) fn = AOk "pdffit" n.
  Proof. exact (auto_written_pdffit lattice_of mulZ set_lat_par cell_pars lattice_kinds mulZ_kinds set_lat_par_kinds). Qed.
  Theorem C12_auto_written_discus_partial : forall St ls others fn n,
    repr_discus St = true -> d_atoms St <> [] -> discus_elements_not_numbers St = true -> print_discus St = Some ls ->
    conc_discus lattice_of mulZ set_lat_par cell_pars ls = Ok n -> others_reject others ->
    auto (table_parser lattice_of mulZ set_lat_par cell_pars ls others) fn = AOk "discus" n.
  Proof. exact (auto_written_discus lattice_of mulZ set_lat_par cell_pars lattice_kinds mulZ_kinds). Qed.
End Cells.

(* the title condition is necessary: this representable, non-empty xyz structure is written as a text that P_discus and
   P_pdffit accept as a zero-atom structure (its own parser reads one atom) *)
Theorem C12_cell_discus_xyz_title_refuted :
  repr_xyz witness_xyz = true /\ x_atoms witness_xyz <> [] /\ xyz_no_cell_word witness_xyz = false /\
  exists ls, print_xyz witness_xyz = Some ls /\ conc_xyz ls = Ok 1 /\
    conc_discus (fun _ => Ok tt) (fun v _ => Ok v) (fun _ _ => Ok tt) (fun _ => [dzero; dzero; dzero; dzero; dzero; dzero]) ls = Ok 0 /\
    conc_pdffit (fun _ => Ok tt) (fun v _ => Ok v) ls = Ok 0.
Proof. exact cell_discus_xyz_title_refuted. Qed.

Print Assumptions C12_cell_pdffit_discus.
Print Assumptions C12_cell_discus_pdffit.
Print Assumptions C12_auto_written_xyz_partial.
Print Assumptions C12_auto_written_discus_partial.
Print Assumptions C12_cell_discus_xyz_title_refuted.
